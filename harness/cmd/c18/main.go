// Command c18 is the dynamic, SUPPORTING part of property C18 (data-race
// freedom).  It rebuilds a selection of the other correspondence harnesses
// with the Go race detector (`go build -race`), runs each of them as a child
// process for a bounded time, collects the detector's reports, classifies
// every report by the innermost non-runtime frames of its two access stacks
// (client code of the checkout under test / dependency / harness) and turns
//
//   - every CLIENT RACE into an impl_failure with the canonical tag
//     "race:<innermost client func>|<innermost client func>",
//   - every HARNESS ARTEFACT that is not listed in ignore.json into an
//     impl_failure "harness-race:<harness>:<func>|<func>",
//   - every harness that no longer builds under -race into "build:<name>".
//
// The race detector only sees the executions that happen to occur: this is
// sampling, it can refute race freedom, never establish it.  The children's
// own verdicts, cases and exit codes are ignored; a child that is still
// running at its deadline is killed (whole process group), which is not a
// failure.
//
//	c18 -seed N -tier quick|thorough -out DIR
//	c18 -replay hist-<case>.json -out DIR     (one harness/seed again)
package main

import (
	"bytes"
	"context"
	"crypto/sha1"
	_ "embed"
	"encoding/hex"
	"encoding/json"
	"fmt"
	"os"
	"os/exec"
	"path/filepath"
	"regexp"
	"sort"
	"strconv"
	"strings"
	"sync"
	"syscall"
	"time"

	c "verifharness/internal/common"
)

// ---------------------------------------------------------------------
// Selection table.  Order = launch order (longest running first, so that the
// short ones fill the gaps).  Deadlines are per child execution.

type target struct {
	Name     string
	Args     []string      // extra arguments before -seed/-tier/-out
	Tiers    string        // "quick,thorough" or "thorough"
	Quick    time.Duration // hard deadline of one run in c18's quick tier
	Thorough time.Duration // ... in c18's thorough tier
	Optional bool          // a build failure is tolerated (histogram only)
}

const (
	dlQ      = 25 * time.Second
	dlQLong  = 40 * time.Second // the three that need 30-60 s under -race; they start first
	dlT      = 150 * time.Second
	dlNetsim = 300 * time.Second
)

var selection = []target{
	// name      extra args                 tiers             quick thorough
	{"c03", nil, "quick,thorough", dlQLong, dlT, false},
	{"c03conc", nil, "quick,thorough", dlQLong, dlT, true},
	{"c16", nil, "quick,thorough", dlQLong, dlT, false},
	{"c05", nil, "quick,thorough", dlQ, dlT, false},
	{"c06", nil, "quick,thorough", dlQ, dlT, false},
	{"c11", nil, "quick,thorough", dlQ, dlT, false},
	{"c12", nil, "quick,thorough", dlQ, dlT, false},
	{"bm", []string{"-prop", "C19"}, "quick,thorough", dlQ, dlT, false},
	{"c15", nil, "quick,thorough", dlQ, dlT, false},
	{"c10", nil, "quick,thorough", dlQ, dlT, false},
	// scenario program (no model): public Rescan API, bounded/unbounded rescans with Update right after Start; ~2 s under -race
	{"c18rescan", nil, "quick,thorough", dlQ, dlT, false},
	// netsim based (wall-clock bound scenarios: stall detection, query timeouts)
	{"c17", nil, "thorough", dlQ, dlNetsim, false},
	{"c13net", nil, "thorough", dlQ, dlNetsim, false},
	{"c04net", nil, "thorough", dlQ, dlNetsim, false},
	{"c14", nil, "thorough", dlQ, dlT, false},
	{"c09", nil, "thorough", dlQ, dlT, false},
	{"c07", nil, "thorough", dlQ, dlT, false},
}

const (
	childWorkers   = 4                // -workers of every child
	parQuick       = 6                // children at a time, quick
	parThorough    = 8                // children at a time, thorough
	runBudgetQuick = 58 * time.Second // all child runs together (after the builds)
	runBudgetThor  = 13 * time.Minute
	buildDeadline  = 10 * time.Minute
	seedsThorough  = 3
)

//go:embed ignore.json
var ignoreJSON []byte

type ignoreEntry struct {
	Match  string `json:"match"`
	Reason string `json:"reason"`
}

// ---------------------------------------------------------------------
// Environment of one c18 run.

type env struct {
	harnessDir string // /verif/harness
	root       string // /verif
	checkout   []string
	checkoutS  string
	modfile    []string
	goroot     []string
	modcache   []string
	out        string
	ignores    []ignoreEntry
}

func dirVariants(p string) []string {
	p = filepath.Clean(p)
	out := []string{p}
	if r, err := filepath.EvalSymlinks(p); err == nil && r != p {
		out = append(out, r)
	}
	return out
}

func under(file string, dirs []string) (string, bool) {
	for _, d := range dirs {
		if d == "" {
			continue
		}
		if strings.HasPrefix(file, d+"/") {
			return file[len(d)+1:], true
		}
	}
	return "", false
}

func goEnv() []string {
	var e []string
	for _, kv := range os.Environ() {
		if strings.HasPrefix(kv, "GOFLAGS=") || strings.HasPrefix(kv, "GOPROXY=") {
			continue
		}
		e = append(e, kv)
	}
	return append(e, "GOFLAGS=-mod=mod", "GOPROXY=off")
}

func newEnv(out string) *env {
	e := &env{out: out}
	wd, _ := os.Getwd()
	if st, err := os.Stat(filepath.Join(wd, "cmd", "c18")); err == nil && st.IsDir() {
		e.harnessDir = wd
	} else {
		e.harnessDir = "/verif/harness"
	}
	e.root = filepath.Dir(e.harnessDir)
	e.checkoutS = "/repo"
	if alt := os.Getenv("VERIF_REPO"); alt != "" {
		e.checkoutS = filepath.Clean(alt)
		h := sha1.Sum([]byte(alt))
		tag := hex.EncodeToString(h[:])[:8]
		d := filepath.Join(e.root, ".work", "altmod-"+tag)
		mf := filepath.Join(d, "go.mod")
		if _, err := os.Stat(mf); err != nil {
			// invoked by hand: write it the way lib/runner.py modfile_args does
			if gm, err := os.ReadFile(filepath.Join(e.harnessDir, "go.mod")); err == nil {
				_ = os.MkdirAll(d, 0o755)
				s := strings.ReplaceAll(string(gm), "=> /repo/cache", "=> "+alt+"/cache")
				s = strings.ReplaceAll(s, "=> /repo", "=> "+alt)
				_ = os.WriteFile(mf, []byte(s), 0o644)
				if gs, err := os.ReadFile(filepath.Join(e.harnessDir, "go.sum")); err == nil {
					_ = os.WriteFile(filepath.Join(d, "go.sum"), gs, 0o644)
				}
			}
		}
		e.modfile = []string{"-modfile=" + mf}
	}
	e.checkout = dirVariants(e.checkoutS)
	// GOROOT / GOMODCACHE of the toolchain that builds the children
	ctx, cancel := context.WithTimeout(context.Background(), 30*time.Second)
	defer cancel()
	cmd := exec.CommandContext(ctx, "go", "env", "GOROOT", "GOMODCACHE")
	cmd.Dir = e.harnessDir
	cmd.Env = goEnv()
	cmd.WaitDelay = 2 * time.Second
	if b, err := cmd.Output(); err == nil {
		l := strings.Split(strings.TrimSpace(string(b)), "\n")
		if len(l) >= 1 && strings.HasPrefix(l[0], "/") {
			e.goroot = dirVariants(strings.TrimSpace(l[0]))
		}
		if len(l) >= 2 && strings.HasPrefix(l[1], "/") {
			e.modcache = dirVariants(strings.TrimSpace(l[1]))
		}
	}
	if err := json.Unmarshal(ignoreJSON, &e.ignores); err != nil {
		panic("ignore.json: " + err.Error())
	}
	return e
}

// ---------------------------------------------------------------------
// Process handling: everything with a deadline, whole process group killed.

type procResult struct {
	finished bool // exited by itself before the deadline
	rc       int
	secs     float64
	startErr error
}

func runProc(cmd *exec.Cmd, deadline time.Duration) procResult {
	cmd.SysProcAttr = &syscall.SysProcAttr{Setpgid: true}
	cmd.WaitDelay = 3 * time.Second
	t0 := time.Now()
	if err := cmd.Start(); err != nil {
		return procResult{startErr: err}
	}
	pid := cmd.Process.Pid
	done := make(chan error, 1)
	go func() { done <- cmd.Wait() }()
	res := procResult{}
	timer := time.NewTimer(deadline)
	defer timer.Stop()
	select {
	case err := <-done:
		res.finished = true
		if ee, ok := err.(*exec.ExitError); ok {
			res.rc = ee.ExitCode()
		}
		_ = syscall.Kill(-pid, syscall.SIGKILL) // stragglers of the group
	case <-timer.C:
		_ = syscall.Kill(-pid, syscall.SIGKILL)
		_ = cmd.Process.Kill()
		select {
		case <-done:
		case <-time.After(8 * time.Second): // unkillable: abandon it, never hang
		}
		res.rc = -1
	}
	res.secs = time.Since(t0).Seconds()
	return res
}

// ---------------------------------------------------------------------
// Build.

type buildResult struct {
	t    target
	bin  string
	ok   bool
	log  string
	secs float64
}

func (e *env) buildCmdline(name, bin string) []string {
	a := []string{"go", "build", "-race"}
	a = append(a, e.modfile...)
	return append(a, "-tags", "verif", "-o", bin, "./cmd/"+name)
}

func (e *env) build(t target) buildResult {
	bin := filepath.Join(e.out, "bin", t.Name)
	_ = os.MkdirAll(filepath.Dir(bin), 0o755)
	_ = os.Remove(bin)
	logp := filepath.Join(e.out, "bin", t.Name+".buildlog")
	lf, err := os.Create(logp)
	if err != nil {
		return buildResult{t: t, log: err.Error()}
	}
	defer lf.Close()
	cl := e.buildCmdline(t.Name, bin)
	cmd := exec.Command(cl[0], cl[1:]...)
	cmd.Dir = e.harnessDir
	cmd.Env = goEnv()
	cmd.Stdout, cmd.Stderr = lf, lf
	r := runProc(cmd, buildDeadline)
	b, _ := os.ReadFile(logp)
	lg := string(b)
	if len(lg) > 1500 {
		lg = lg[len(lg)-1500:]
	}
	ok := r.startErr == nil && r.finished && r.rc == 0
	if ok {
		if st, err := os.Stat(bin); err != nil || st.Size() == 0 {
			ok = false
		}
	}
	if r.startErr != nil {
		lg = r.startErr.Error()
	} else if !r.finished {
		lg = "build deadline exceeded\n" + lg
	}
	return buildResult{t: t, bin: bin, ok: ok, log: lg, secs: r.secs}
}

// ---------------------------------------------------------------------
// One child execution.

type job struct {
	t        target
	bin      string
	seed     int64
	deadline time.Duration
	outDir   string
	logPath  string // GORACE log_path prefix
}

type jobResult struct {
	job     job
	res     procResult
	skipped bool
	reports []*raceReport
}

func (j job) gorace() string {
	return "halt_on_error=0 log_path=" + j.logPath + " history_size=2"
}

func (j job) argv() []string {
	a := append([]string{}, j.t.Args...)
	return append(a, "-seed", strconv.FormatInt(j.seed, 10), "-tier", "quick",
		"-workers", strconv.Itoa(childWorkers), "-out", j.outDir)
}

func (e *env) reproLine(j job) string {
	return fmt.Sprintf("cd %s && GOFLAGS=-mod=mod GOPROXY=off %s && GORACE=%q %s %s",
		e.harnessDir, strings.Join(e.buildCmdline(j.t.Name, j.bin), " "), j.gorace(), j.bin, strings.Join(j.argv(), " "))
}

func (e *env) runJob(j job) jobResult {
	_ = os.MkdirAll(j.outDir, 0o755)
	_ = os.MkdirAll(filepath.Dir(j.logPath), 0o755)
	if old, _ := filepath.Glob(j.logPath + ".*"); len(old) > 0 {
		for _, f := range old {
			_ = os.Remove(f)
		}
	}
	cmd := exec.Command(j.bin, j.argv()...)
	cmd.Dir = e.harnessDir
	var ev []string
	for _, kv := range goEnv() {
		if !strings.HasPrefix(kv, "GORACE=") {
			ev = append(ev, kv)
		}
	}
	cmd.Env = append(ev, "GORACE="+j.gorace())
	if lf, err := os.Create(filepath.Join(j.outDir, "child-output.log")); err == nil {
		cmd.Stdout, cmd.Stderr = lf, lf
		defer lf.Close()
	}
	r := runProc(cmd, j.deadline)
	jr := jobResult{job: j, res: r}
	files, _ := filepath.Glob(j.logPath + ".*")
	sort.Strings(files)
	for _, f := range files {
		b, err := readCapped(f, 64<<20)
		if err != nil {
			continue
		}
		jr.reports = append(jr.reports, splitReports(string(b))...)
	}
	// the children's cases are not used: keep the disk small
	if cs, _ := filepath.Glob(filepath.Join(j.outDir, "cases*.v")); len(cs) > 0 {
		for _, f := range cs {
			_ = os.Remove(f)
		}
	}
	return jr
}

func readCapped(p string, max int64) ([]byte, error) {
	f, err := os.Open(p)
	if err != nil {
		return nil, err
	}
	defer f.Close()
	buf := make([]byte, 0, 1<<16)
	tmp := make([]byte, 1<<16)
	for int64(len(buf)) < max {
		n, err := f.Read(tmp)
		buf = append(buf, tmp[:n]...)
		if err != nil || n == 0 {
			break
		}
	}
	return buf, nil
}

// ---------------------------------------------------------------------
// Report parsing.

type frame struct {
	Func string `json:"func"`
	File string `json:"file"`
	Line int    `json:"line"`
}

type stack struct {
	Header       string  `json:"header"`
	Op           string  `json:"op,omitempty"`        // read | write (access stacks)
	Goroutine    string  `json:"goroutine,omitempty"` // number or "main"
	State        string  `json:"state,omitempty"`     // running | finished (creation stacks)
	Frames       []frame `json:"frames"`
	Unrestorable bool    `json:"unrestorable,omitempty"`
}

type raceReport struct {
	Text      string
	Accesses  []*stack
	Created   map[string]*stack
	Truncated bool
}

var (
	reAccess  = regexp.MustCompile(`(?i)^(previous )?(atomic )?(read|write) at (0x[0-9a-f]+) by (main goroutine|goroutine (\d+)):\s*$`)
	reCreated = regexp.MustCompile(`^Goroutine (\d+) \((\w+)\) created at:\s*$`)
	reLoc     = regexp.MustCompile(`^\s+(\S.*):(\d+)(?: \+0x[0-9a-f]+)?\s*$`)
)

const sepLine = "=================="

func splitReports(txt string) []*raceReport {
	var out []*raceReport
	lines := strings.Split(txt, "\n")
	for i := 0; i < len(lines); i++ {
		if !strings.HasPrefix(lines[i], "WARNING: DATA RACE") {
			continue
		}
		j := i + 1
		closed := false
		for ; j < len(lines); j++ {
			if strings.HasPrefix(lines[j], sepLine) {
				closed = true
				break
			}
			if strings.HasPrefix(lines[j], "WARNING: DATA RACE") {
				break
			}
		}
		body := lines[i:j]
		r := parseReport(body)
		r.Truncated = !closed
		r.Text = sepLine + "\n" + strings.Join(body, "\n") + "\n" + sepLine + "\n"
		out = append(out, r)
		i = j - 1
		if closed {
			i = j
		}
	}
	return out
}

func parseReport(lines []string) *raceReport {
	r := &raceReport{Created: map[string]*stack{}}
	var cur *stack
	var pendingFunc string
	havePending := false
	flush := func() {
		if cur != nil && havePending {
			cur.Frames = append(cur.Frames, frame{Func: pendingFunc})
		}
		havePending = false
	}
	for _, ln := range lines {
		if strings.TrimSpace(ln) == "" {
			continue
		}
		if ln[0] != ' ' && ln[0] != '\t' {
			// a section header
			flush()
			cur = nil
			if m := reAccess.FindStringSubmatch(ln); m != nil {
				g := "main"
				if m[6] != "" {
					g = m[6]
				}
				cur = &stack{Header: strings.TrimSpace(ln), Op: strings.ToLower(m[3]), Goroutine: g}
				r.Accesses = append(r.Accesses, cur)
			} else if m := reCreated.FindStringSubmatch(ln); m != nil {
				cur = &stack{Header: strings.TrimSpace(ln), Goroutine: m[1], State: m[2]}
				r.Created[m[1]] = cur
			} else if strings.HasSuffix(strings.TrimSpace(ln), ":") {
				cur = &stack{Header: strings.TrimSpace(ln)} // heap block etc.: parsed, unused
			}
			continue
		}
		if cur == nil {
			continue
		}
		t := strings.TrimSpace(ln)
		if strings.HasPrefix(t, "[failed to restore the stack]") {
			flush()
			cur.Unrestorable = true
			continue
		}
		if havePending {
			if m := reLoc.FindStringSubmatch(ln); m != nil {
				n, _ := strconv.Atoi(m[2])
				cur.Frames = append(cur.Frames, frame{Func: pendingFunc, File: m[1], Line: n})
				havePending = false
				continue
			}
			flush()
		}
		pendingFunc = strings.TrimSuffix(t, "()")
		havePending = true
	}
	flush()
	return r
}

// ---------------------------------------------------------------------
// Classification.

const (
	pcRuntime = "runtime"
	pcClient  = "client"
	pcHarness = "harness"
	pcDep     = "dep"
)

func (e *env) pathClass(file string) string {
	if file == "" || strings.HasPrefix(file, "<") { // <autogenerated>
		return pcRuntime
	}
	if _, ok := under(file, e.goroot); ok {
		return pcRuntime
	}
	if strings.Contains(file, "/golang.org/toolchain@") || strings.HasPrefix(file, "/usr/lib/go") ||
		strings.HasPrefix(file, "/usr/local/go/") {
		return pcRuntime
	}
	if _, ok := under(file, e.checkout); ok {
		b := filepath.Base(file)
		if strings.HasSuffix(b, "_test.go") || strings.HasPrefix(b, "verif_") || strings.HasSuffix(b, "_verif.go") {
			return pcHarness
		}
		return pcClient
	}
	if _, ok := under(file, dirVariants(e.harnessDir)); ok {
		return pcHarness
	}
	if _, ok := under(file, dirVariants(e.root)); ok {
		return pcHarness
	}
	return pcDep // module cache and anything else that is neither ours nor Go's
}

func (e *env) isHook(file string) bool {
	_, ok := under(file, e.checkout)
	return ok && e.pathClass(file) == pcHarness
}

type side struct {
	Op        string `json:"op"`
	Goroutine string `json:"goroutine"`
	// client | client-via-dep | harness | harness-via-dep | dep | unknown
	Class       string  `json:"class"`
	Inner       *frame  `json:"innermost_nonruntime_frame,omitempty"`
	Caller      *frame  `json:"client_caller,omitempty"` // next client frame below the innermost one
	Via         *frame  `json:"via_frame,omitempty"`     // dep: first client/harness frame below (or in the creation stack)
	ViaCreation bool    `json:"via_from_creation_stack,omitempty"`
	Hook        *frame  `json:"harness_hook_below,omitempty"`  // first verif_*/_test frame of the checkout below the innermost frame
	Entry       *frame  `json:"harness_frame_below,omitempty"` // first harness frame below the innermost frame
	Top         []frame `json:"top_frames"`
	CreatedAt   []frame `json:"goroutine_created_at,omitempty"`
	State       string  `json:"goroutine_state,omitempty"`
}

func (e *env) classifySide(r *raceReport, s *stack) side {
	sd := side{Op: s.Op, Goroutine: s.Goroutine, Class: "unknown"}
	if cr := r.Created[s.Goroutine]; cr != nil {
		sd.CreatedAt = topN(cr.Frames, 6)
		sd.State = cr.State
	}
	sd.Top = topN(s.Frames, 6)
	idx := -1
	for i := range s.Frames {
		if e.pathClass(s.Frames[i].File) != pcRuntime {
			idx = i
			break
		}
	}
	if idx < 0 {
		// nothing but runtime frames (or nothing at all)
		if s.Unrestorable || len(s.Frames) == 0 {
			return sd
		}
		// runtime-only access stack: who created the goroutine?
		sd.Class = pcDep
		f := s.Frames[0]
		sd.Inner = &f
		e.viaFromCreation(r, s, &sd)
		return sd
	}
	in := s.Frames[idx]
	sd.Inner = &in
	for i := idx + 1; i < len(s.Frames); i++ {
		if sd.Caller == nil && e.pathClass(s.Frames[i].File) == pcClient {
			f := s.Frames[i]
			sd.Caller = &f
		}
		if e.pathClass(s.Frames[i].File) == pcHarness {
			f := s.Frames[i]
			if sd.Entry == nil {
				sd.Entry = &f
			}
			if sd.Hook == nil && e.isHook(f.File) {
				sd.Hook = &f
			}
		}
	}
	switch e.pathClass(in.File) {
	case pcClient:
		sd.Class = "client"
	case pcHarness:
		sd.Class = "harness"
	default:
		sd.Class = pcDep
		for i := idx + 1; i < len(s.Frames); i++ {
			pc := e.pathClass(s.Frames[i].File)
			if pc == pcClient || pc == pcHarness {
				f := s.Frames[i]
				sd.Via = &f
				sd.Class = pc + "-via-dep"
				break
			}
		}
		if sd.Via == nil {
			e.viaFromCreation(r, s, &sd)
		}
	}
	return sd
}

func (e *env) viaFromCreation(r *raceReport, s *stack, sd *side) {
	cr := r.Created[s.Goroutine]
	if cr == nil {
		return
	}
	for i := range cr.Frames {
		pc := e.pathClass(cr.Frames[i].File)
		if pc == pcClient || pc == pcHarness {
			f := cr.Frames[i]
			sd.Via = &f
			sd.ViaCreation = true
			sd.Class = pc + "-via-dep"
			return
		}
	}
}

func topN(f []frame, n int) []frame {
	if len(f) > n {
		f = f[:n]
	}
	return append([]frame{}, f...)
}

// shortFunc shortens the module prefix and collapses type-argument lists.
func shortFunc(fn string) string {
	fn = strings.Replace(fn, "github.com/lightninglabs/neutrino", "neutrino", 1)
	var b strings.Builder
	depth := 0
	for _, ch := range fn {
		switch ch {
		case '[':
			if depth == 0 {
				b.WriteString("[...]")
			}
			depth++
		case ']':
			if depth > 0 {
				depth--
			}
		default:
			if depth == 0 {
				b.WriteRune(ch)
			}
		}
	}
	return b.String()
}

type classified struct {
	Class   string // CLIENT RACE | HARNESS ARTEFACT | DEP RACE | UNCLASSIFIED
	Partial bool
	Sides   []side
	Tag     string // full impl_failure tag
	Canon   string // canonical pair (client funcs for client races, innermost funcs otherwise)
	Match   string // "<harness>:<innermost pair>" matched against ignore.json
}

func (e *env) classify(harness string, r *raceReport) classified {
	cl := classified{}
	for _, a := range r.Accesses {
		cl.Sides = append(cl.Sides, e.classifySide(r, a))
	}
	for len(cl.Sides) < 2 { // truncated report
		cl.Sides = append(cl.Sides, side{Class: "unknown"})
		cl.Partial = true
	}
	anyHarness, allClient, nKnown, anyClient := false, true, 0, false
	for _, s := range cl.Sides {
		switch s.Class {
		case "unknown":
			cl.Partial = true
			continue
		case "harness", "harness-via-dep":
			anyHarness = true
			allClient = false
		case "client", "client-via-dep":
			anyClient = true
		default:
			allClient = false
		}
		nKnown++
	}
	switch {
	case nKnown == 0:
		cl.Class = "UNCLASSIFIED"
	case anyHarness && !anyClient:
		// no side touches client code: the harness's own memory; listed in
		// the report, never a violation of the client's property
		cl.Class = "HARNESS ONLY"
	case anyHarness:
		cl.Class = "HARNESS ARTEFACT"
	case allClient:
		cl.Class = "CLIENT RACE"
	default:
		cl.Class = "DEP RACE"
	}
	var inner, client []string
	for _, s := range cl.Sides {
		in := "?"
		if s.Inner != nil {
			in = shortFunc(s.Inner.Func)
		}
		inner = append(inner, in)
		cf := in
		if s.Class == "client-via-dep" && s.Via != nil {
			cf = shortFunc(s.Via.Func)
		}
		client = append(client, cf)
	}
	sort.Strings(inner)
	sort.Strings(client)
	cl.Match = harness + ":" + strings.Join(inner, "|")
	switch cl.Class {
	case "CLIENT RACE":
		cl.Canon = strings.Join(client, "|")
		cl.Tag = "race:" + cl.Canon
	case "HARNESS ARTEFACT", "HARNESS ONLY":
		cl.Canon = cl.Match
		cl.Tag = "harness-race:" + cl.Canon
	case "DEP RACE":
		cl.Canon = cl.Match
		cl.Tag = "dep-race:" + cl.Canon
	default:
		cl.Canon = cl.Match
		cl.Tag = "unclassified-race:" + cl.Canon
	}
	return cl
}

func (e *env) ignored(cl classified) (string, bool) {
	for _, ig := range e.ignores {
		if ig.Match != "" && strings.Contains(cl.Match, ig.Match) {
			return ig.Reason, true
		}
	}
	return "", false
}

func (e *env) relFile(f string) string {
	if rel, ok := under(f, e.checkout); ok {
		return rel
	}
	if rel, ok := under(f, dirVariants(e.root)); ok {
		return rel
	}
	if rel, ok := under(f, e.modcache); ok {
		return rel
	}
	return f
}

func (e *env) sideLine(s side) string {
	if s.Inner == nil {
		return "[stack not restored] (" + s.Op + ")"
	}
	x := fmt.Sprintf("%s:%d %s (%s)", e.relFile(s.Inner.File), s.Inner.Line, shortFunc(s.Inner.Func), s.Op)
	if s.Caller != nil && (s.Via == nil || *s.Via != *s.Caller) {
		x += " in " + shortFunc(s.Caller.Func)
	}
	if s.Via != nil {
		how := "called from"
		if s.ViaCreation {
			how = "goroutine started by"
		}
		x += fmt.Sprintf(" %s %s:%d %s", how, e.relFile(s.Via.File), s.Via.Line, shortFunc(s.Via.Func))
	}
	if s.Hook != nil {
		x += " [entered through harness hook " + shortFunc(s.Hook.Func) + "]"
	}
	return x
}

// ---------------------------------------------------------------------
// genaccess (optional): which table variables are accessed on those lines.

func (e *env) genaccessVars(cl classified) []string {
	bin := filepath.Join(e.root, ".work", "bin", "genaccess")
	if st, err := os.Stat(bin); err != nil || st.IsDir() {
		return nil
	}
	args := []string{"-repo", e.checkoutS}
	n := 0
	for _, s := range cl.Sides {
		f := s.Inner
		if s.Class == "client-via-dep" {
			f = s.Via
		}
		if f == nil {
			continue
		}
		rel, ok := under(f.File, e.checkout)
		if !ok {
			continue
		}
		args = append(args, "-locate", fmt.Sprintf("%s:%d", rel, f.Line))
		n++
	}
	if n == 0 {
		return nil
	}
	cmd := exec.Command(bin, args...)
	cmd.Dir = e.harnessDir
	cmd.Env = goEnv()
	of, err := os.CreateTemp(e.out, "genaccess-*.out")
	if err != nil {
		return nil
	}
	defer os.Remove(of.Name())
	defer of.Close()
	cmd.Stdout = of
	r := runProc(cmd, 60*time.Second)
	if r.startErr != nil || !r.finished {
		return nil
	}
	b, err := readCapped(of.Name(), 8<<20)
	if err != nil {
		return nil
	}
	var v any
	if json.Unmarshal(bytes.TrimSpace(b), &v) != nil {
		return nil
	}
	seen := map[string]bool{}
	var keyed, loose []string
	reVar := regexp.MustCompile(`^[A-Za-z_]\w*(\.[A-Za-z_]\w*){1,2}$`)
	var walk func(x any, key string)
	walk = func(x any, key string) {
		switch t := x.(type) {
		case map[string]any:
			for k, y := range t {
				walk(y, strings.ToLower(k))
			}
		case []any:
			for _, y := range t {
				walk(y, key)
			}
		case string:
			if t == "" || seen[t] || strings.HasSuffix(t, ".go") || strings.ContainsAny(t, ":/ ") {
				return
			}
			switch key {
			case "var", "vars", "variable", "variables", "a_var", "f_var", "name", "names":
				seen[t] = true
				keyed = append(keyed, t)
			case "fn", "a_fn", "func", "function", "file", "ctx", "a_ctx", "kind", "a_kind", "lock", "locks", "a_locks", "a_req", "roots", "a_roots":
			default:
				if reVar.MatchString(t) {
					seen[t] = true
					loose = append(loose, t)
				}
			}
		}
	}
	walk(v, "")
	res := keyed
	if len(res) == 0 {
		res = loose
	}
	sort.Strings(res)
	if len(res) > 8 {
		res = res[:8]
	}
	return res
}

// ---------------------------------------------------------------------
// The hist file of one distinct race (also the -replay input).

type histFile struct {
	Property string   `json:"property"`
	Harness  string   `json:"harness"`
	Args     []string `json:"args"`
	Seed     int64    `json:"seed"`
	Tier     string   `json:"child_tier"`
	Checkout string   `json:"checkout"`
	Class    string   `json:"class"`
	Partial  bool     `json:"partial,omitempty"`
	Tag      string   `json:"tag"`
	What     string   `json:"what"`
	Command  string   `json:"command"`
	Note     string   `json:"note"`
	Sides    []side   `json:"sides"`
	Report   string   `json:"report"`
	Count    int      `json:"occurrences_in_run"`
}

// ---------------------------------------------------------------------

func selected(tier string) []target {
	var out []target
	for _, t := range selection {
		for _, x := range strings.Split(t.Tiers, ",") {
			if x == tier || (tier == "thorough" && x == "quick") {
				out = append(out, t)
				break
			}
		}
	}
	return out
}

func findTarget(name string) (target, bool) {
	for _, t := range selection {
		if t.Name == name {
			return t, true
		}
	}
	return target{}, false
}

func main() {
	a := c.ParseArgs()
	t0 := time.Now()
	out, err := filepath.Abs(a.Out)
	if err != nil {
		panic(err)
	}
	e := newEnv(out)
	rep := c.NewReport("C18", a)

	thorough := a.Tier == "thorough"
	var targets []target
	seeds := []int64{a.Seed}
	replayWant := ""
	if a.Replay != "" {
		var raw struct {
			History *histFile `json:"history"`
		}
		var h histFile
		c.ReadJSON(a.Replay, &raw)
		if raw.History != nil {
			h = *raw.History
		} else {
			c.ReadJSON(a.Replay, &h)
		}
		t, ok := findTarget(h.Harness)
		if !ok {
			fmt.Fprintln(os.Stderr, "replay: unknown harness", h.Harness)
			os.Exit(2)
		}
		targets = []target{t}
		seeds = []int64{h.Seed}
		replayWant = h.Tag
		thorough = true // the long deadline
	} else {
		targets = selected(a.Tier)
		if thorough {
			seeds = nil
			for i := int64(0); i < seedsThorough; i++ {
				seeds = append(seeds, a.Seed+i)
			}
		}
	}

	// 1. builds, all in parallel
	var present []target
	for _, t := range targets {
		if st, err := os.Stat(filepath.Join(e.harnessDir, "cmd", t.Name)); err == nil && st.IsDir() {
			present = append(present, t)
		} else {
			rep.Histogram["absent:"+t.Name] = 1
		}
	}
	builds := make([]buildResult, len(present))
	var wg sync.WaitGroup
	for i, t := range present {
		wg.Add(1)
		go func(i int, t target) {
			defer wg.Done()
			builds[i] = e.build(t)
		}(i, t)
	}
	wg.Wait()
	buildSecs := time.Since(t0).Seconds()
	rep.Histogram["build_seconds"] = int(buildSecs + 0.5)
	var jobs []job
	for _, b := range builds {
		if !b.ok {
			rep.Histogram["build_failed:"+b.t.Name] = 1
			if b.t.Optional {
				continue
			}
			rep.ImplFailures = append(rep.ImplFailures, c.ImplFailure{Case: "build-" + b.t.Name, Step: 0,
				What: "harness " + b.t.Name + " does not build with -race: " + strings.TrimSpace(b.log), Tag: "build:" + b.t.Name})
			continue
		}
		for _, s := range seeds {
			dl := b.t.Quick
			if thorough {
				dl = b.t.Thorough
			}
			od := filepath.Join(out, b.t.Name)
			if len(seeds) > 1 {
				od = filepath.Join(out, fmt.Sprintf("%s-%d", b.t.Name, s))
			}
			jobs = append(jobs, job{t: b.t, bin: b.bin, seed: s, deadline: dl, outDir: od,
				logPath: filepath.Join(out, "race", fmt.Sprintf("%s-%d", b.t.Name, s))})
		}
	}
	// seeds outermost in thorough so that a budget cut drops the later seeds,
	// never a whole harness
	if len(seeds) > 1 {
		sort.SliceStable(jobs, func(i, k int) bool { return jobs[i].seed < jobs[k].seed })
	}

	// 2. runs, bounded parallelism, global budget
	par, budget := parQuick, runBudgetQuick
	if thorough {
		par, budget = parThorough, runBudgetThor
	}
	runEnd := time.Now().Add(budget)
	sem := make(chan struct{}, par)
	results := make([]jobResult, len(jobs))
	for i := range jobs {
		sem <- struct{}{}
		left := time.Until(runEnd)
		if left < 4*time.Second {
			results[i] = jobResult{job: jobs[i], skipped: true}
			<-sem
			continue
		}
		if jobs[i].deadline > left {
			jobs[i].deadline = left
		}
		wg.Add(1)
		go func(i int) {
			defer wg.Done()
			defer func() { <-sem }()
			results[i] = e.runJob(jobs[i])
		}(i)
	}
	wg.Wait()

	// 3. classification
	type agg struct {
		cl    classified
		first *raceReport
		job   job
		count int
	}
	byTag := map[string]*agg{}
	harnessOnly := map[string]string{} // unlisted races inside harness code only: match -> first report
	var order []string
	ranLong := map[string]bool{}
	for _, jr := range results {
		n := jr.job.t.Name
		key := fmt.Sprintf("%s-%d", n, jr.job.seed)
		if jr.skipped {
			rep.Histogram["children_skipped_budget"]++
			rep.Histogram["skipped:"+n]++
			continue
		}
		if jr.res.startErr != nil {
			rep.Histogram["children_failed_to_start"]++
			rep.ImplFailures = append(rep.ImplFailures, c.ImplFailure{Case: "build-" + n, Step: 0,
				What: "race build of " + n + " does not start: " + jr.res.startErr.Error(), Tag: "build:" + n})
			continue
		}
		rep.Evaluations++
		if jr.res.finished {
			rep.Histogram["children_finished"]++
			rep.Histogram["finished:"+n]++
		} else {
			rep.Histogram["children_cutoff"]++
			rep.Histogram["cutoff:"+n]++
		}
		rep.Histogram["seconds:"+key] = int(jr.res.secs + 0.5)
		if jr.res.finished || jr.res.secs >= 2 {
			ranLong[n] = true
		}
		if len(rep.Samples) < 3 {
			rep.Samples = append(rep.Samples, fmt.Sprintf("GORACE=%q %s %s", jr.job.gorace(), jr.job.bin, strings.Join(jr.job.argv(), " ")))
		}
		for _, r := range jr.reports {
			rep.Histogram["reports_total"]++
			rep.Histogram["reports:"+n]++
			if r.Truncated {
				rep.Histogram["reports_truncated"]++
			}
			cl := e.classify(n, r)
			if cl.Partial {
				rep.Histogram["reports_partial"]++
			}
			switch cl.Class {
			case "CLIENT RACE":
				rep.Histogram["reports_client"]++
			case "HARNESS ARTEFACT":
				rep.Histogram["reports_harness"]++
			case "HARNESS ONLY":
				rep.Histogram["reports_harness"]++
				if _, ok := e.ignored(cl); !ok {
					// a race inside a harness's own bookkeeping: for the
					// harness's owner to look at, not neutrino's memory
					rep.Histogram["harness_only_unlisted:"+cl.Match]++
					harnessOnly[cl.Match] = r.Text
					continue
				}
			case "DEP RACE":
				rep.Histogram["reports_dep"]++
			default:
				rep.Histogram["reports_unclassified"]++
			}
			if cl.Class != "CLIENT RACE" {
				if _, ok := e.ignored(cl); ok {
					rep.Histogram["reports_ignored"]++
					rep.Histogram["ignored:"+cl.Match]++
					continue
				}
			}
			g := byTag[cl.Tag]
			if g == nil {
				g = &agg{cl: cl, first: r, job: jr.job}
				byTag[cl.Tag] = g
				order = append(order, cl.Tag)
			}
			g.count++
		}
	}
	rep.DistinctNontrivial = len(ranLong)
	rep.Rule = "evaluations = child executions of race-detector builds of the selected harnesses (their own quick tier, cut off at a deadline); " +
		"distinct_nontrivial = distinct harnesses whose race build ran to completion or for at least 2 s, i.e. produced goroutine-concurrent executions the detector could observe"

	// 4. failures + hist files
	perCase := map[string]int{}
	reproduced := false
	for _, tag := range order {
		g := byTag[tag]
		base := fmt.Sprintf("%s-%d", g.job.t.Name, g.job.seed)
		perCase[base]++
		cs := base
		if perCase[base] > 1 {
			cs = fmt.Sprintf("%s-r%d", base, perCase[base])
		}
		var sl []string
		for _, s := range g.cl.Sides {
			sl = append(sl, e.sideLine(s))
		}
		what := g.cl.Class
		if g.cl.Partial {
			what += " (partial: one stack not restored)"
		}
		what += ": " + strings.Join(sl, " vs ") + fmt.Sprintf("; harness %s seed %d; %d report(s) in this run", g.job.t.Name, g.job.seed, g.count)
		if g.cl.Class == "CLIENT RACE" {
			if vs := e.genaccessVars(g.cl); len(vs) > 0 {
				what += "; variables on those lines: " + strings.Join(vs, ", ")
			}
		}
		rep.Histogram["count:"+tag] = g.count
		rep.ImplFailures = append(rep.ImplFailures, c.ImplFailure{Case: cs, Step: 0, What: what, Tag: tag})
		if tag == replayWant {
			reproduced = true
		}
		hp := filepath.Join(out, "hist-"+cs+".json")
		c.WriteJSON(hp, histFile{Property: "C18", Harness: g.job.t.Name, Args: g.job.t.Args, Seed: g.job.seed, Tier: "quick",
			Checkout: e.checkoutS, Class: g.cl.Class, Partial: g.cl.Partial, Tag: tag, What: what, Command: e.reproLine(g.job),
			Note:   "a data race shows only in some executions: repeat the command (or c18 -replay <this file>) a few times; whether a side reaches client code only through a harness hook (harness_hook_below) in a way the production call path cannot is for a human to judge from the full stacks",
			Sides:  g.cl.Sides,
			Report: g.first.Text, Count: g.count})
		rep.Cases[cs] = hp
	}
	if a.Replay != "" {
		rep.Histogram["replay_reproduced"] = 0
		if reproduced {
			rep.Histogram["replay_reproduced"] = 1
		}
	}
	rep.Histogram["total_seconds"] = int(time.Since(t0).Seconds() + 0.5)
	rep.Notes = "race detector = sampled executions only; supporting role. Children run their own quick tier under go build -race, " +
		"are killed at a deadline (not a failure), their verdicts and exit codes are ignored. Classification by the innermost non-runtime frame of each access stack: " +
		"client (checkout, not verif_*/_test/_verif files), dep (module cache; attributed to the first client/harness frame below, else to the goroutine's creator), harness. " +
		"checkout=" + e.checkoutS
	if len(harnessOnly) > 0 {
		c.WriteJSON(filepath.Join(out, "harness_only_races.json"), harnessOnly)
	}
	if a.Replay == "" {
		writeStatic(out, rep, e.checkoutS)
	}
	rep.Write(out)
	fmt.Printf("c18: %d builds (%.1fs), %d child runs (%d finished, %d cut off, %d skipped), %d race reports (%d client, %d harness, %d dep, %d ignored), %d impl_failures, %.1fs\n",
		len(builds), buildSecs, rep.Evaluations, rep.Histogram["children_finished"], rep.Histogram["children_cutoff"], rep.Histogram["children_skipped_budget"],
		rep.Histogram["reports_total"], rep.Histogram["reports_client"], rep.Histogram["reports_harness"], rep.Histogram["reports_dep"], rep.Histogram["reports_ignored"],
		len(rep.ImplFailures), time.Since(t0).Seconds())
	for _, f := range rep.ImplFailures {
		fmt.Printf("  %s  %s\n      %s\n", f.Case, f.Tag, f.What)
	}
}

// writeStatic adds the STATIC part of the check to the run: cases.v makes
// coqc evaluate the per-site check of the committed table (coq/C18/Vars.v)
// over the access sites the translator generated for this checkout
// (coq/Generated/AccessSites.v, regenerated by the runner before the harness
// is started); rows come back as (site index, 2, 0, tag).  One small history
// file per generated site lets the runner put the offending site's text into
// the replay file.
func writeStatic(out string, rep *c.Report, checkout string) {
	root := os.Getenv("VERIF_ROOT")
	if root == "" {
		wd, err := os.Getwd()
		if err != nil {
			return
		}
		root = filepath.Dir(wd) // the runner starts harnesses in /verif/harness
	}
	// The site table of THIS checkout: run the translator (built by the
	// runner just before); fall back to the file the runner generated.
	var data []byte
	ga := filepath.Join(root, ".work", "bin", "genaccess")
	if _, err := os.Stat(ga); err == nil {
		ctx, cancel := context.WithTimeout(context.Background(), 120*time.Second)
		cmd := exec.CommandContext(ctx, ga, "-repo", checkout)
		cmd.Env = goEnv()
		if o, err := cmd.Output(); err == nil && bytes.Contains(o, []byte("Definition access_sites")) {
			data = o
		}
		cancel()
	}
	if data == nil {
		d, err := os.ReadFile(filepath.Join(root, "coq", "Generated", "AccessSites.v"))
		if err != nil {
			rep.Histogram["static_sites"] = 0
			return
		}
		data = d
	}
	sdir := filepath.Join(out, "sites")
	_ = os.MkdirAll(sdir, 0o755)
	n := 0
	inSites := false
	for _, ln := range strings.Split(string(data), "\n") {
		t := strings.TrimSpace(ln)
		if strings.HasPrefix(t, "Definition access_sites") {
			inSites = true
			continue
		}
		if strings.HasPrefix(t, "Definition ") {
			inSites = false
		}
		if !inSites || !strings.HasPrefix(t, "mkA ") {
			continue
		}
		t = strings.TrimSuffix(t, ";")
		hp := filepath.Join(sdir, fmt.Sprintf("hist-%d.json", n))
		c.WriteJSON(hp, map[string]any{
			"property": "C18", "kind": "static access site (translator harness/cmd/genaccess on " + checkout + ")",
			"index": n, "site": t,
			"fields": "mkA variable function ctx kind locks-held-lexically locks-held-by-every-caller fresh-object constructor before-first-go goroutine-roots",
			"note":   "the site does not satisfy the discipline coq/C18/Vars.v declares for the variable (C18/SiteCheck.v site_ok); C18/Tie.v Tie_sites_comply lists the same sites",
		})
		rep.Cases[fmt.Sprintf("%d", n)] = hp
		n++
	}
	rep.Histogram["static_sites"] = n
	c.WriteFile(filepath.Join(out, "cases.v"), string(data)+
		"\nFrom Coq Require Import ZArith.\nFrom Verif Require Import C18.Replay.\nOpen Scope Z_scope.\n"+
		"Definition R := Eval vm_compute in (rows_of access_sites).\nSet Printing Width 1000000.\nSet Printing Depth 1000000.\nPrint R.\n")
}
