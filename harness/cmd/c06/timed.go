// TIMED family of the C06 harness: histories on the ChainService skeleton
// (real bbolt ban store, scripted work manager) run with a SHORT
// neutrino.BanDuration, in which a ban lapses (no UnbanPeer, no restart) and
// the same peer offends again.  Every response carries the clock reading at
// which it was handled; the Coq side (C06.ReplayT) runs the model with the
// timed ban store of C13 and the history-based monitor of C06.TSpec.
//
// neutrino.BanDuration is a package variable: the timed histories run their
// first part (offences) before every other family with the short duration,
// park at their lapse step while the other families run with the production
// duration, and are resumed at the end (short duration again).
package main

import (
	"fmt"
	"math/rand"
	"strings"
	"sync"
	"time"

	"github.com/lightninglabs/neutrino"

	c "verifharness/internal/common"
	q "verifharness/internal/qskel"
)

const (
	timedIDBase = 100000

	// timedBan is neutrino.BanDuration while timed histories make calls.
	// banman keeps the expiry in whole seconds and alignBan puts the ban
	// instant into the first half of a second, so a ban lasts 0.95..1.47 s.
	timedBan = 1500 * time.Millisecond

	lapseDeadline = 10 * time.Second
)

func floorDiv(a, b int64) int64 {
	d := a / b
	if a%b != 0 && (a < 0) != (b < 0) {
		d--
	}
	return d
}

// alignBan waits until a ban requested now for dur expires well inside a
// second: (now + dur) mod 1 s in [30 ms, 550 ms].  The store writes the ban
// within a few (tens of) milliseconds of the request; the model takes the
// clock reading before the request.
func alignBan(dur time.Duration) {
	for {
		f := (time.Now().UnixNano() + int64(dur)) % 1e9
		if f >= 30e6 && f <= 550e6 {
			return
		}
		time.Sleep(time.Duration((1e9 - f + 30e6) % 1e9))
	}
}

// waitLapse polls until no scripted peer is banned any more.
func waitLapse(cs *neutrino.ChainService) bool {
	deadline := time.Now().Add(lapseDeadline)
	for {
		any := false
		for p := 0; p < nPeers; p++ {
			if cs.IsBanned(q.PeerAddr(p)) {
				any = true
			}
		}
		if !any {
			return true
		}
		if time.Now().After(deadline) {
			return false
		}
		time.Sleep(40 * time.Millisecond)
	}
}

// timedCtl parks a timed history at its lapse step.  sem bounds the number
// of timed histories that are executing (a parked one holds no slot).
type timedCtl struct {
	parked chan struct{}
	resume chan struct{}
	sem    chan struct{}
	once   sync.Once
}

func newTimedCtl(resume, sem chan struct{}) *timedCtl {
	return &timedCtl{parked: make(chan struct{}), resume: resume, sem: sem}
}

func (t *timedCtl) park()  { t.once.Do(func() { close(t.parked) }) }
func (t *timedCtl) enter() { t.sem <- struct{}{} }
func (t *timedCtl) leave() { <-t.sem }

// genTimed: a few calls in which peers offend, the lapse, then a call in
// which one of the banned peers offends again.
func genTimed(r *rand.Rand, id int, chainSeed int64, specs []q.BlockSpec) History {
	h := genHistory(r, id, chainSeed, specs)
	h.Timed = true
	h.CacheCap = 1 << 20
	n := len(specs)
	if len(h.Calls) > 5 {
		h.Calls = h.Calls[:5]
	}
	for i := range h.Calls {
		if h.Calls[i].Verdict == "quit" {
			h.Calls[i].Verdict = "err"
		}
	}
	perm := r.Perm(n)
	off := func(p int) Resp {
		return Resp{Kind: sureLiarKinds[r.Intn(len(sureLiarKinds))], Peer: p, MSeed: r.Int63()}
	}
	ins := func(cl *Call, x Resp) {
		pos := r.Intn(len(cl.Resps) + 1)
		cl.Resps = append(cl.Resps[:pos], append([]Resp{x}, cl.Resps[pos:]...)...)
	}
	// the first call goes to the network and has an offender
	p1 := 1 + r.Intn(nPeers-1)
	h.Calls[0].Height, h.Calls[0].Enc = 1+perm[0], 0
	if h.Calls[0].Verdict == "ok" && r.Intn(2) == 0 {
		h.Calls[0].Verdict = "err"
	}
	ins(&h.Calls[0], off(p1))
	// the lapse, and the re-offence in a call that goes to the network
	// (a height not asked for before, so it cannot be served from the cache)
	k := 1 + r.Intn(len(h.Calls)-1)
	h.Calls[k].LapseBefore = true
	h.Calls[k].Height, h.Calls[k].Enc = 1+perm[1], 0
	for i := 0; i < k; i++ {
		if h.Calls[i].Height == h.Calls[k].Height {
			h.Calls[i].Height = 1 + perm[0]
		}
	}
	if r.Intn(10) < 8 {
		ins(&h.Calls[k], off(p1))
	}
	if r.Intn(3) == 0 {
		ins(&h.Calls[k], off(1+r.Intn(nPeers-1)))
	}
	return h
}

// timedCorpus: the regression history of the family.  Peer 2 serves a
// doctored block and is banned; the ban lapses; peer 2 serves a doctored
// block again (peer 3 an unrelated one): peer 2 must be banned again.
func timedCorpus(chainSeed int64) []History {
	sp := []q.BlockSpec{{NTx: 2}, {NTx: 2, Segwit: true}, {NTx: 0}, {NTx: 3, Segwit: true},
		{NTx: 1, FutureTS: true}, {NTx: 2, Segwit: true, BadCommit: true}, {NTx: 4}}
	R := func(k string, p int) Resp { return Resp{Kind: k, Peer: p, MSeed: int64(p) * 77} }
	return []History{{ID: timedIDBase, ChainSeed: chainSeed, Specs: sp, CacheCap: 1 << 20, Timed: true, Calls: []Call{
		{Height: 1, Resps: []Resp{R("mut_tx", 2)}, Verdict: "err"},
		{Height: 1, Resps: []Resp{R("other", 3), R("rm_tx", 2)}, Verdict: "err", LapseBefore: true},
		{Height: 1, Resps: []Resp{R("honest", 4), R("mut_tx", 5)}, Verdict: "ok"},
		{Height: 1, Resps: nil, Verdict: "ok"},
	}}}
}

// timedSig: per call, the classes of its responses and whether the offender
// of an earlier call is banned again.
func timedSig(h *History, base string) string {
	var out []string
	for i := range h.Calls {
		s := ""
		if h.Calls[i].LapseBefore {
			s = "L"
		}
		s += fmt.Sprintf("%d", len(h.Calls[i].Bans))
		out = append(out, s)
	}
	return base + "|" + strings.Join(out, ".")
}

var _ = c.Z
