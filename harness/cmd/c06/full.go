// FULL-SERVICE family of the C06 harness: GetBlock on a ChainService built by
// the real NewChainService (real query.WorkManager with the configuration
// NewChainService gives it, real workers, real header / ban stores, real LRU
// block cache).  The service is not started: the hook VerifQueryFront plays
// the peer handler for the query path, and the peers are scripted query.Peer
// objects that answer a getdata by queueing their scripted messages.  The
// attempts are recorded as they happen (which peer was handed the job, what
// it sent, how the attempt ended) and replayed against Verif.C06.FModel; the
// monitor of Verif.C06.FSpec checks banned = offenders, disconnected =
// offenders, retry budget and error class.
package main

import (
	"errors"
	"fmt"
	"math/rand"
	"os"
	"path/filepath"
	"sort"
	"strings"
	"sync"
	"time"

	"github.com/btcsuite/btcd/btcutil/v2"
	"github.com/btcsuite/btcd/chainhash/v2"
	"github.com/btcsuite/btcd/wire/v2"
	"github.com/btcsuite/btcwallet/walletdb"
	"github.com/lightninglabs/neutrino"
	"github.com/lightninglabs/neutrino/headerfs"
	"github.com/lightninglabs/neutrino/query"

	c "verifharness/internal/common"
	q "verifharness/internal/qskel"
)

const fullIDBase = 200000

// FPeer is one scripted peer of a call.
type FPeer struct {
	Peer  int    `json:"peer"`
	Class string `json:"class"` // honest|liar|other|unknown|notfound|tx|silent|hangup
	Msgs  []Resp `json:"msgs"`  // what it sends on a getdata (the last one decides)
	After string `json:"after"` // silent: stays connected and quiet | hangup: disconnects at once
}

// FAttempt is one observed attempt.
type FAttempt struct {
	Peer int    `json:"peer"`
	Msgs []Resp `json:"msgs"`
	End  string `json:"end"` // timeout|disconnect
}

// FCall is one GetBlock call on the full service.
type FCall struct {
	Height   int     `json:"height"`
	Enc      int     `json:"enc"`
	Retries  int     `json:"retries"` // -1: option not given (QueryNumRetries)
	Together bool    `json:"together"`
	Plan     []FPeer `json:"plan"` // the last peer connects once the others are gone
	// observations
	MaxTries int        `json:"max_tries,omitempty"`
	Attempts []FAttempt `json:"attempts,omitempty"`
	Res      string     `json:"res,omitempty"` // block|timeout|disconnect|other
	ResTok   int64      `json:"res_tok,omitempty"`
	Cache    [][3]int64 `json:"cache,omitempty"`
	Bans     []int      `json:"bans,omitempty"`
	Disc     []int      `json:"disc,omitempty"`
	WallMs   int64      `json:"wall_ms,omitempty"`
	DrainMs  int64      `json:"drain_ms,omitempty"` // longest time a worker took to pick up a peer's queued answer
}

// FHistory is one replayable case of the family: a sequence of calls on one
// service.
type FHistory struct {
	ID        int           `json:"id"`
	Full      bool          `json:"full"`
	ChainSeed int64         `json:"chain_seed"`
	Specs     []q.BlockSpec `json:"specs"`
	Calls     []FCall       `json:"calls"`
	Oracle    [][5]int64    `json:"oracle,omitempty"`
	Fail      string        `json:"fail,omitempty"`
	// Starved: a worker needed so long to pick up a scripted answer that the
	// job timer may have fired first (machine overloaded): dropped.
	Starved bool `json:"starved,omitempty"`
}

// sureLiarKinds invalidate every block (the others can be no-ops, e.g.
// stripping the witness data of a block that has none).
var sureLiarKinds = []string{"mut_tx", "add_tx", "dup_last", "rm_tx"}

var liarKinds = []string{"mut_tx", "add_tx", "rm_tx", "dup_last", "strip_wit", "forge_wit",
	"forge_nonce", "add_wit", "swap", "forge_commit"}

// genFPeer makes a peer of the given class.
func genFPeer(r *rand.Rand, id int, class string, n int) FPeer {
	p := FPeer{Peer: id, Class: class, After: "silent"}
	m := func(kind string) Resp { return Resp{Kind: kind, Arg: r.Intn(n + 1), Peer: id, MSeed: r.Int63()} }
	noise := func() {
		// harmless chatter before the deciding message
		for k := r.Intn(3); k > 0; k-- {
			p.Msgs = append(p.Msgs, m([]string{"other", "nonblock", "unknown"}[r.Intn(3)]))
		}
	}
	switch class {
	case "honest":
		noise()
		p.Msgs = append(p.Msgs, m("honest"))
	case "liar":
		noise()
		p.Msgs = append(p.Msgs, m(liarKinds[r.Intn(len(liarKinds))]))
	case "other", "unknown":
		p.Msgs = append(p.Msgs, m(class))
		noise()
	case "notfound", "tx":
		p.Msgs = append(p.Msgs, m("nonblock"))
	case "silent":
	case "hangup":
		p.After = "hangup"
	default:
		panic("class " + class)
	}
	return p
}

var quickFail = []string{"liar", "liar", "hangup", "other", "notfound", "unknown"}
var slowFail = []string{"silent", "other", "notfound", "unknown", "tx"}

// genFull generates a history: 2-3 calls, at most one of which ends with a
// peer that is silent until the job timer fires (2 s on the real worker).
func genFull(r *rand.Rand, id int, chainSeed int64, specs []q.BlockSpec, slow bool) FHistory {
	h := FHistory{ID: id, Full: true, ChainSeed: chainSeed, Specs: specs}
	n := len(specs)
	ncalls := 2 + r.Intn(2)
	slowAt := -1
	if slow {
		slowAt = r.Intn(ncalls)
	}
	next := 1
	perm := r.Perm(n)
	for ci := 0; ci < ncalls; ci++ {
		cl := FCall{Height: 1 + perm[ci%n], Retries: -1, Together: r.Intn(2) == 0}
		switch x := r.Intn(100); {
		case x < 4:
			cl.Height = -1
		case x < 8:
			cl.Height = 0
		case x < 14 && ci > 0:
			cl.Height = h.Calls[r.Intn(ci)].Height
		}
		if r.Intn(100) < 12 {
			cl.Enc = 1
		}
		switch x := r.Intn(100); {
		case x < 30:
			cl.Retries = 1
		case x < 50:
			cl.Retries = 2
		case x < 65:
			cl.Retries = 3
		case x < 70:
			cl.Retries = 0
		}
		budget := cl.Retries
		if budget < 0 {
			budget = neutrino.QueryNumRetries
		}
		if budget < 1 {
			budget = 1
		}
		add := func(class string) {
			p := genFPeer(r, next, class, n)
			if class != "honest" && class != "liar" && class != "silent" && class != "hangup" {
				// a bystander that answers something: quick if it hangs up
				p.After = "hangup"
			}
			next++
			cl.Plan = append(cl.Plan, p)
		}
		// a committed block that is itself invalid (time stamp too new, wrong
		// witness commitment) cannot be fetched: whoever serves it offends
		bad := cl.Height >= 1 && (specs[cl.Height-1].FutureTS || specs[cl.Height-1].BadCommit)
		// how the call ends: success at attempt k <= budget, or budget failures
		success := r.Intn(100) < 40 && !bad
		k := budget
		if success {
			k = 1 + r.Intn(budget)
		}
		for i := 1; i < k; i++ {
			if bad && r.Intn(3) == 0 {
				add("honest")
				continue
			}
			add(quickFail[r.Intn(len(quickFail))])
		}
		switch {
		case success:
			add("honest")
		case ci == slowAt:
			// the attempt that exhausts the retries ends by the job timer
			class := slowFail[r.Intn(len(slowFail))]
			add(class)
			cl.Plan[len(cl.Plan)-1].After = "silent"
		case bad && r.Intn(2) == 0:
			add("honest")
		default:
			add(quickFail[r.Intn(len(quickFail))])
		}
		h.Calls = append(h.Calls, cl)
	}
	return h
}

// fullCorpus: fixed regression histories of the family.
func fullCorpus(chainSeed int64) []FHistory {
	sp := []q.BlockSpec{{NTx: 2}, {NTx: 2, Segwit: true}, {NTx: 0}, {NTx: 3, Segwit: true},
		{NTx: 1, FutureTS: true}, {NTx: 2, Segwit: true, BadCommit: true}, {NTx: 4}}
	M := func(k string, p int) Resp { return Resp{Kind: k, Peer: p, MSeed: int64(p) * 131} }
	P := func(p int, class, after string, kinds ...string) FPeer {
		fp := FPeer{Peer: p, Class: class, After: after}
		for _, k := range kinds {
			fp.Msgs = append(fp.Msgs, M(k, p))
		}
		return fp
	}
	// single attempt, the only peer answers with an unrelated block and then
	// (a) hangs up, (b) stays quiet until the job timer fires
	a := FHistory{ID: fullIDBase, Full: true, ChainSeed: chainSeed, Specs: sp, Calls: []FCall{
		{Height: 1, Retries: 1, Plan: []FPeer{P(1, "other", "hangup", "other")}},
		{Height: 2, Retries: 1, Plan: []FPeer{P(2, "other", "silent", "other")}},
		{Height: 2, Retries: 2, Plan: []FPeer{P(3, "liar", "silent", "mut_tx"), P(4, "honest", "silent", "honest")}},
	}}
	// default retries: seven liars, then a bystander that sends a notfound
	// and hangs up
	b := FHistory{ID: fullIDBase + 1, Full: true, ChainSeed: chainSeed, Specs: sp}
	cl := FCall{Height: 1, Retries: -1, Together: true}
	for i := 0; i < neutrino.QueryNumRetries-1; i++ {
		cl.Plan = append(cl.Plan, P(10+i, "liar", "silent", sureLiarKinds[i%len(sureLiarKinds)]))
	}
	cl.Plan = append(cl.Plan, P(30, "notfound", "hangup", "nonblock"))
	b.Calls = append(b.Calls, cl,
		FCall{Height: 3, Retries: 3, Plan: []FPeer{P(31, "hangup", "hangup"), P(32, "liar", "silent", "rm_tx"), P(33, "honest", "silent", "other", "honest")}},
		FCall{Height: 3, Retries: 1, Plan: []FPeer{P(34, "liar", "silent", "swap")}})
	return []FHistory{a, b}
}

// ---------------------------------------------------------------------

// fpeer is a scripted remote peer (query.Peer).
type fpeer struct {
	id   int
	addr string
	env  *fenv
	spec *FPeer

	msgs chan wire.Message
	quit chan struct{}
	once sync.Once

	sp          *neutrino.ServerPeer
	workerUp    chan struct{} // closed when the worker subscribed
	workerDown  chan struct{} // closed when the worker's Run returned
	upOnce      sync.Once
	downOnce    sync.Once
	byService   chan struct{} // closed when the service disconnected the peer
	serviceOnce sync.Once
}

var _ query.Peer = (*fpeer)(nil)

func (p *fpeer) Addr() string                  { return p.addr }
func (p *fpeer) OnDisconnect() <-chan struct{} { return p.quit }
func (p *fpeer) disconnect()                   { p.once.Do(func() { close(p.quit) }) }

func (p *fpeer) SubscribeRecvMsg() (<-chan wire.Message, func()) {
	p.upOnce.Do(func() { close(p.workerUp) })
	return p.msgs, func() { p.downOnce.Do(func() { close(p.workerDown) }) }
}

// QueueMessageWithEncoding is called by the worker right before it starts
// the job timer: the scripted answer is queued synchronously, so that it is
// in the worker's hands before anything else can happen.
func (p *fpeer) QueueMessageWithEncoding(msg wire.Message, _ chan<- struct{}, enc wire.MessageEncoding) {
	p.env.onRequest(p, msg, enc)
}

// fenv is one service with its stand-in peer handler.
type fenv struct {
	dir   string
	db    walletdb.DB
	cs    *neutrino.ChainService
	front *neutrino.VerifQueryFront
	ru    *runner

	mu       sync.Mutex
	call     *FCall
	target   chainhash.Hash
	wantInv  wire.InvType
	wantEnc  wire.MessageEncoding
	event    chan struct{} // signalled on every request / disconnect
	attempts []FAttempt
	pollWG   sync.WaitGroup
	drain    time.Duration
}

// drainLimit: the real worker gives a job 2 s (minQueryTimeout); the answer
// of a scripted peer is queued before that timer starts and must be in the
// worker's hands before it fires.
const drainLimit = 1500 * time.Millisecond

var fdebug = os.Getenv("C06_DEBUG") != ""

func dbg(f string, a ...any) {
	if fdebug {
		fmt.Fprintf(os.Stderr, "%s "+f+"\n", append([]any{time.Now().Format("15:04:05.000")}, a...)...)
	}
}

func (e *fenv) signal() {
	select {
	case e.event <- struct{}{}:
	default:
	}
}

func (e *fenv) onRequest(p *fpeer, msg wire.Message, enc wire.MessageEncoding) {
	e.mu.Lock()
	defer e.mu.Unlock()
	cl := e.call
	dbg("request to peer %d (%T) call=%v", p.id, msg, cl != nil)
	if cl == nil || p.spec == nil {
		return // probe peer, or a request outside a call
	}
	gd, ok := msg.(*wire.MsgGetData)
	if !ok || len(gd.InvList) != 1 || gd.InvList[0].Type != e.wantInv || gd.InvList[0].Hash != e.target || enc != e.wantEnc {
		e.ru.fails = append(e.ru.fails, "request: the worker did not ask for exactly the requested block")
	}
	at := FAttempt{Peer: p.id, End: "timeout"}
	for i := range p.spec.Msgs {
		r := p.spec.Msgs[i]
		_, m := e.ru.buildResp(&r, cl.Height, msg)
		if b, isb := m.(*wire.MsgBlock); isb {
			r.IsBlock = true
			r.Tok = e.ru.oracleRow(b)
		}
		r.ReqOK = true
		at.Msgs = append(at.Msgs, r)
		select {
		case p.msgs <- m:
		default:
			e.ru.fails = append(e.ru.fails, "script: peer message buffer full")
		}
	}
	if p.spec.After == "hangup" {
		at.End = "disconnect"
		e.front.Forget(p.sp)
		p.disconnect()
	} else if len(p.spec.Msgs) > 0 {
		// how long until the worker has taken the last queued message
		t0 := time.Now()
		e.pollWG.Add(1)
		go func() {
			defer e.pollWG.Done()
			for len(p.msgs) > 0 && time.Since(t0) < 5*time.Second {
				time.Sleep(2 * time.Millisecond)
			}
			d := time.Since(t0)
			e.mu.Lock()
			if d > e.drain {
				e.drain = d
			}
			e.mu.Unlock()
		}()
	}
	e.attempts = append(e.attempts, at)
	e.signal()
}

// connect registers a scripted peer with the stand-in peer handler and
// announces it to the work manager.
func (e *fenv) connect(id int, spec *FPeer) (*fpeer, error) {
	p := &fpeer{id: id, addr: q.PeerAddr(id), env: e, spec: spec,
		msgs: make(chan wire.Message, 16), quit: make(chan struct{}),
		workerUp: make(chan struct{}), workerDown: make(chan struct{}), byService: make(chan struct{})}
	sp, err := e.front.AddPeer(p.addr)
	if err != nil {
		return nil, err
	}
	p.sp = sp
	go func() {
		// what peerDoneHandler does when BanPeer disconnects the peer
		select {
		case <-sp.Done():
			dbg("peer %d disconnected by the service", p.id)
			p.serviceOnce.Do(func() { close(p.byService) })
			e.front.Forget(sp)
			p.disconnect()
			e.signal()
		case <-p.quit:
		}
	}()
	dbg("announce peer %d", p.id)
	e.front.Announce(p)
	return p, nil
}

func waitClosed(ch <-chan struct{}, d time.Duration) bool {
	select {
	case <-ch:
		return true
	case <-time.After(d):
		return false
	}
}

func openFull(dir string) (*fenv, error) {
	db, err := walletdb.Open("bdb", filepath.Join(dir, "neutrino.db"), true, 10*time.Second, false)
	if err != nil {
		return nil, err
	}
	cs, err := neutrino.NewChainService(neutrino.Config{
		DataDir: dir, Database: db, ChainParams: q.Params,
	})
	if err != nil {
		db.Close()
		return nil, err
	}
	front, err := cs.VerifStartQueryFront()
	if err != nil {
		db.Close()
		return nil, err
	}
	return &fenv{dir: dir, db: db, cs: cs, front: front, event: make(chan struct{}, 1)}, nil
}

func (e *fenv) close() {
	e.front.Stop()
	_ = headerfs.VerifCloseBlockFile(e.cs.BlockHeaders)
	_ = headerfs.VerifCloseFilterFile(e.cs.RegFilterHeaders)
	e.db.Close()
}

const (
	fullCallDeadline = 25 * time.Second
	fullSettle       = 10 * time.Second
)

func runFull(h *FHistory, work string) {
	ch, tmpl := getChainOf(h.ChainSeed, h.Specs, work)
	dir := filepath.Join(work, fmt.Sprintf("case-%d", h.ID))
	q.CopyDir(tmpl, dir)
	defer os.RemoveAll(dir)
	env, err := openFull(dir)
	if err != nil {
		h.Fail = "setup: " + err.Error()
		return
	}
	defer env.close()

	ru := &runner{chain: ch, blkTok: q.NewInterner(10), hashID: map[chainhash.Hash]int64{},
		nextHID: 1000, oracle: map[int64][5]int64{}}
	for i, hh := range ch.Hashes {
		ru.hashID[hh] = int64(i)
	}
	env.ru = ru
	allPeers := map[int]bool{}

	for ci := range h.Calls {
		cl := &h.Calls[ci]
		t0 := time.Now()
		var target chainhash.Hash
		if cl.Height >= 0 {
			target = ch.Hashes[cl.Height]
		} else {
			target = chainhash.Hash{0xee, byte(ci), 0x02}
		}
		enc, wantInv := wire.WitnessEncoding, wire.InvTypeWitnessBlock
		if cl.Enc == 1 {
			enc, wantInv = wire.BaseEncoding, wire.InvTypeBlock
		}
		cl.MaxTries = cl.Retries
		if cl.Retries < 0 {
			cl.MaxTries = neutrino.QueryNumRetries
		}
		env.mu.Lock()
		env.call, env.target, env.wantInv, env.wantEnc = cl, target, wantInv, enc
		env.attempts = nil
		env.mu.Unlock()

		type res struct {
			b   *btcutil.Block
			err error
		}
		done := make(chan res, 1)
		go func() {
			var opts []neutrino.QueryOption
			if cl.Enc == 1 {
				opts = append(opts, neutrino.Encoding(enc))
			}
			if cl.Retries >= 0 {
				opts = append(opts, neutrino.NumRetries(uint8(cl.Retries)))
			}
			b, err := env.cs.GetBlock(target, opts...)
			done <- res{b, err}
		}()

		// the driver: connect the peers as planned, the last one only when
		// every other peer of the call is gone
		var peers []*fpeer
		var out res
		returned := false
		deadline := time.After(fullCallDeadline)
		wait := func(cond func() bool) bool {
			for !cond() {
				select {
				case out = <-done:
					returned = true
					return false
				case <-env.event:
				case <-time.After(50 * time.Millisecond):
				case <-deadline:
					return false
				}
			}
			return true
		}
		gone := func(p *fpeer) bool {
			select {
			case <-p.quit:
				return true
			default:
				return false
			}
		}
		ok := true
		for pi := range cl.Plan {
			last := pi == len(cl.Plan)-1
			if ok && pi > 0 && (last || !cl.Together) {
				ok = wait(func() bool {
					for _, p := range peers {
						if !gone(p) {
							return false
						}
					}
					return true
				})
			}
			if !ok {
				break
			}
			allPeers[cl.Plan[pi].Peer] = true
			p, err := env.connect(cl.Plan[pi].Peer, &cl.Plan[pi])
			if err != nil {
				h.Fail = "setup: " + err.Error()
				return
			}
			peers = append(peers, p)
		}
		if !returned {
			select {
			case out = <-done:
				returned = true
			case <-deadline:
			}
		}
		if !returned {
			h.Fail = fmt.Sprintf("hang: GetBlock did not return within %v (call %d)", fullCallDeadline, ci)
			for _, p := range peers {
				env.front.Forget(p.sp)
				p.disconnect()
			}
			return
		}

		// barrier: the dispatcher handles one event at a time; once it has
		// started a worker for a peer announced now, everything it did on
		// behalf of the finished batch (incl. its callbacks) is over
		probe, err := env.connect(9000+ci, nil)
		if err != nil {
			h.Fail = "setup: " + err.Error()
			return
		}
		if !waitClosed(probe.workerUp, fullSettle) {
			h.Fail = fmt.Sprintf("hang: the work manager did not start a worker for a new peer within %v (call %d)", fullSettle, ci)
			return
		}
		env.front.Forget(probe.sp)
		probe.disconnect()
		if !waitClosed(probe.workerDown, fullSettle) {
			h.Fail = fmt.Sprintf("hang: worker of a disconnected peer did not exit within %v (call %d)", fullSettle, ci)
			return
		}

		env.pollWG.Wait()
		env.mu.Lock()
		env.call = nil
		cl.Attempts = env.attempts
		cl.DrainMs = env.drain.Milliseconds()
		if env.drain >= drainLimit {
			h.Starved = true
		}
		env.drain = 0
		env.mu.Unlock()

		switch {
		case out.err == nil && out.b != nil:
			cl.Res = "block"
			raw := q.BlockBytes(out.b.MsgBlock())
			if ru.blkTok.Has(raw) {
				cl.ResTok = ru.blkTok.Tok(raw)
			} else {
				cl.ResTok = 900000 + ru.blkTok.Tok(raw)
			}
		case errors.Is(out.err, query.ErrQueryTimeout):
			cl.Res = "timeout"
		case errors.Is(out.err, query.ErrPeerDisconnected):
			cl.Res = "disconnect"
		case out.err != nil:
			cl.Res = "other"
		default:
			cl.Res = "nil-nil"
			ru.fails = append(ru.fails, "result: GetBlock returned (nil, nil)")
		}

		// ban store
		ids := make([]int, 0, len(allPeers))
		for id := range allPeers {
			ids = append(ids, id)
		}
		sort.Ints(ids)
		cl.Bans = []int{}
		banned := map[int]bool{}
		for _, id := range ids {
			if env.cs.IsBanned(q.PeerAddr(id)) {
				cl.Bans = append(cl.Bans, id)
				banned[id] = true
			}
		}
		// BanPeer disconnects from a goroutine of its own: wait for it
		cl.Disc = []int{}
		for _, p := range peers {
			// (a peer that hung up by itself is no longer in the peer
			// table: BanPeer finds nobody to disconnect)
			if banned[p.id] && p.spec.After != "hangup" && !waitClosed(p.byService, fullSettle) {
				ru.fails = append(ru.fails, fmt.Sprintf("disconnect: banned peer %d was not disconnected within %v", p.id, fullSettle))
			}
			select {
			case <-p.byService:
				cl.Disc = append(cl.Disc, p.id)
			default:
			}
		}
		// how the attempts ended: a peer the service disconnected did not
		// hang up by itself; if it held the last attempt, the caller's error
		// tells whether the disconnect or the job timer came first
		for ai := range cl.Attempts {
			at := &cl.Attempts[ai]
			if banned[at.Peer] && at.End == "timeout" {
				at.End = "disconnect"
				if ai == len(cl.Attempts)-1 && cl.Res == "timeout" {
					at.End = "timeout"
				}
			}
		}

		// cache
		cl.Cache = [][3]int64{}
		env.cs.BlockCache.RangeFILO(func(k wire.InvVect, v *neutrino.CacheableBlock) bool {
			e := int64(0)
			if k.Type == wire.InvTypeBlock {
				e = 1
			} else if k.Type != wire.InvTypeWitnessBlock {
				e = int64(k.Type)
			}
			raw := q.BlockBytes(v.Block.MsgBlock())
			t := int64(-1)
			if ru.blkTok.Has(raw) {
				t = ru.blkTok.Tok(raw)
			}
			cl.Cache = append(cl.Cache, [3]int64{e, ru.hid(k.Hash), t})
			return true
		})

		// the peers of this call leave
		for _, p := range peers {
			env.front.Forget(p.sp)
			p.disconnect()
		}
		for _, p := range peers {
			// (the barrier above: the dispatcher has started a worker for
			// every peer announced before the probe)
			if !waitClosed(p.workerUp, fullSettle) || !waitClosed(p.workerDown, fullSettle) {
				h.Fail = fmt.Sprintf("hang: worker of disconnected peer %d did not exit within %v (call %d)", p.id, fullSettle, ci)
				return
			}
		}
		cl.WallMs = time.Since(t0).Milliseconds()
		if len(ru.fails) > 0 && h.Fail == "" {
			h.Fail = ru.fails[0]
		}
	}
	toks := make([]int64, 0, len(ru.oracle))
	for t := range ru.oracle {
		toks = append(toks, t)
	}
	sort.Slice(toks, func(i, j int) bool { return toks[i] < toks[j] })
	h.Oracle = nil
	for _, t := range toks {
		h.Oracle = append(h.Oracle, ru.oracle[t])
	}
}

// fullCaseTerm renders a history of the family and its signature.
func fullCaseTerm(h *FHistory) (string, string) {
	var rows []string
	orc := map[int64][5]int64{}
	for _, o := range h.Oracle {
		rows = append(rows, fmt.Sprintf("(%d, (%s, %s, %s, %d))", o[0], c.Z(o[1]), c.Bool(o[2] == 1), c.Bool(o[3] == 1), o[4]))
		orc[o[0]] = o
	}
	var steps, sig []string
	for i := range h.Calls {
		cl := &h.Calls[i]
		var atts []string
		s := ""
		for _, at := range cl.Attempts {
			var ms []string
			cls := "i"
			for _, m := range at.Msgs {
				ms = append(ms, c.Pair(c.Bool(m.IsBlock), c.Z(m.Tok)))
				if o, isb := orc[m.Tok]; m.IsBlock && isb && cl.Height >= 0 && o[1] == int64(cl.Height) {
					if o[2] == 1 && o[3] == 1 {
						cls = "a"
					} else {
						cls = "b"
					}
				}
			}
			e := "ETimeout"
			if at.End == "disconnect" {
				e = "EDisconnect"
				cls += "d"
			} else {
				cls += "t"
			}
			atts = append(atts, c.App("A_", c.Z(int64(at.Peer)), c.List(ms), e))
			s += cls
		}
		blk := int64(cl.Height)
		if cl.Height < 0 {
			blk = 5000 + int64(i)
		}
		call := c.App("FC_", c.Z(blk), c.Bool(cl.Height >= 0), c.Z(int64(cl.Enc)), c.Z(int64(cl.MaxTries)), c.List(atts))
		var cache []string
		for _, e := range cl.Cache {
			cache = append(cache, fmt.Sprintf("((%s, %s), %s)", c.Z(e[0]), c.Z(e[1]), c.Z(e[2])))
		}
		toZ := func(l []int) []int64 {
			o := make([]int64, len(l))
			for j, b := range l {
				o[j] = int64(b)
			}
			return o
		}
		res, class := "RErrOther", "FCOther"
		switch cl.Res {
		case "block":
			res, class = c.App("RBlock", c.Z(cl.ResTok)), "FCBlock"
			s += "N"
		case "timeout":
			res, class = "RErrQuery", "FCTimeout"
			s += "T"
		case "disconnect":
			res, class = "RErrQuery", "FCDisconnected"
			s += "D"
		default:
			s += "E"
		}
		if len(cl.Attempts) == 0 && cl.Res == "block" {
			s = "C"
		}
		obs := c.App("FO_", res, c.Bool(len(cl.Attempts) > 0), c.List(cache), c.Ints(toZ(cl.Bans)), class,
			c.Z(int64(len(cl.Attempts))), c.Ints(toZ(cl.Disc)))
		steps = append(steps, c.Pair(call, obs))
		sig = append(sig, fmt.Sprintf("%d:%s", cl.MaxTries, s))
	}
	return fmt.Sprintf("(%d, (%d, %s,\n  %s))", h.ID, neutrino.DefaultBlockCacheSize, c.List(rows), c.List(steps)), strings.Join(sig, ".")
}
