// Correspondence harness for C06: drives the real ChainService.GetBlock
// (query.go) through a skeleton with real header store, real LRU block cache,
// real ban store and a scripted work manager that feeds arbitrary responses
// from arbitrary peers into the request's HandleResp. Writes the observations
// as a Coq cases file for Verif.C06.Replay.
package main

import (
	"encoding/json"
	"errors"
	"fmt"
	"math/rand"
	"os"
	"path/filepath"
	"sort"
	"strings"
	"sync"
	"time"

	"github.com/btcsuite/btcd/blockchain"
	"github.com/btcsuite/btcd/btcutil/v2"
	"github.com/btcsuite/btcd/chainhash/v2"
	"github.com/btcsuite/btcd/wire/v2"
	"github.com/lightninglabs/neutrino"
	"github.com/lightninglabs/neutrino/query"

	c "verifharness/internal/common"
	q "verifharness/internal/qskel"
)

// Resp is one scripted response.
type Resp struct {
	Kind  string `json:"kind"`
	Arg   int    `json:"arg,omitempty"`
	Peer  int    `json:"peer"`
	MSeed int64  `json:"mseed"`
	// observations / oracle values
	ReqOK   bool  `json:"req_ok"`
	IsBlock bool  `json:"is_block"`
	Tok     int64 `json:"tok"`
	Prog    int   `json:"prog"`          // 0 no progress, 1 finished, 2 progressed only
	Now     int64 `json:"now,omitempty"` // timed family: clock reading before HandleResp (ns)
}

// Call is one GetBlock call.
type Call struct {
	Height  int    `json:"height"` // -1: a hash without a header
	Enc     int    `json:"enc"`    // 0 witness, 1 base
	Resps   []Resp `json:"resps"`
	Verdict string `json:"verdict"` // ok|err|quit
	// timed family: before the call, wait until no scripted peer is banned
	// any more (the bans lapse; no UnbanPeer, no restart)
	LapseBefore bool `json:"lapse_before,omitempty"`
	// observations
	Res     string     `json:"res,omitempty"` // block|query|quit|other
	ResTok  int64      `json:"res_tok,omitempty"`
	Queried bool       `json:"queried,omitempty"`
	Cache   [][3]int64 `json:"cache,omitempty"` // enc, block id, token; most recent first
	Bans    []int      `json:"bans,omitempty"`
	BanNs   int64      `json:"ban_ns,omitempty"`  // timed family: neutrino.BanDuration during the call
	ObsNow  int64      `json:"obs_now,omitempty"` // timed family: clock reading of the IsBanned sweep
}

// History is one replayable case.
type History struct {
	ID        int           `json:"id"`
	ChainSeed int64         `json:"chain_seed"`
	Specs     []q.BlockSpec `json:"specs"`
	CacheCap  uint64        `json:"cache_cap"`
	Timed     bool          `json:"timed,omitempty"`
	Ambiguous bool          `json:"ambiguous,omitempty"` // a ban straddled a second boundary: dropped
	Calls     []Call        `json:"calls"`
	// oracle table rows: tok, hash id, sanity, witness, size
	Oracle [][5]int64 `json:"oracle,omitempty"`
	Fail   string     `json:"fail,omitempty"`
}

const nPeers = 7

var errInjected = errors.New("scripted dispatcher failure")

var respKinds = []string{"honest", "other", "unknown", "mut_tx", "add_tx", "rm_tx", "dup_last",
	"strip_wit", "forge_wit", "forge_nonce", "add_wit", "swap", "forge_commit", "nonblock", "badreq"}

func defaultSpecs(r *rand.Rand) []q.BlockSpec {
	sp := []q.BlockSpec{
		{NTx: 2}, {NTx: 2, Segwit: true}, {NTx: 0}, {NTx: 3, Segwit: true},
		{NTx: 1, FutureTS: true}, {NTx: 2, Segwit: true, BadCommit: true}, {NTx: 4},
	}
	r.Shuffle(len(sp), func(i, j int) { sp[i], sp[j] = sp[j], sp[i] })
	return sp
}

func genResp(r *rand.Rand, n int) Resp {
	x := r.Intn(100)
	var k string
	switch {
	case x < 30:
		k = "honest"
	case x < 75:
		k = respKinds[3+r.Intn(10)]
	case x < 80:
		k = "other"
	case x < 85:
		k = "unknown"
	case x < 93:
		k = "nonblock"
	default:
		k = "badreq"
	}
	return Resp{Kind: k, Arg: r.Intn(n + 1), Peer: 1 + r.Intn(nPeers-1), MSeed: r.Int63()}
}

func genHistory(r *rand.Rand, id int, chainSeed int64, specs []q.BlockSpec) History {
	h := History{ID: id, ChainSeed: chainSeed, Specs: specs}
	switch x := r.Intn(10); {
	case x < 6:
		h.CacheCap = 1 << 20
	case x < 9:
		h.CacheCap = uint64(700 + r.Intn(1500))
	default:
		h.CacheCap = 150
	}
	n := len(specs)
	ncalls := 4 + r.Intn(6)
	var used []int
	for i := 0; i < ncalls; i++ {
		var cl Call
		x := r.Intn(100)
		switch {
		case x < 8:
			cl.Height = -1
		case x < 14:
			cl.Height = 0
		case x < 50 && len(used) > 0:
			cl.Height = used[r.Intn(len(used))]
		default:
			cl.Height = 1 + r.Intn(n)
		}
		used = append(used, cl.Height)
		if r.Intn(100) < 15 {
			cl.Enc = 1
		}
		nr := r.Intn(7)
		for j := 0; j < nr; j++ {
			cl.Resps = append(cl.Resps, genResp(r, n))
		}
		// mostly-valid streams: make sure an honest response is in most
		if r.Intn(100) < 55 {
			hr := Resp{Kind: "honest", Peer: 1 + r.Intn(nPeers-1), MSeed: r.Int63()}
			pos := r.Intn(len(cl.Resps) + 1)
			cl.Resps = append(cl.Resps[:pos], append([]Resp{hr}, cl.Resps[pos:]...)...)
		}
		switch y := r.Intn(100); {
		case y < 82:
			cl.Verdict = "ok"
		case y < 97 || i != ncalls-1:
			cl.Verdict = "err"
		default:
			cl.Verdict = "quit"
		}
		h.Calls = append(h.Calls, cl)
	}
	return h
}

// corpus: fixed regression histories.
func corpus(chainSeed int64) []History {
	sp := []q.BlockSpec{{NTx: 2}, {NTx: 2, Segwit: true}, {NTx: 0}, {NTx: 3, Segwit: true},
		{NTx: 1, FutureTS: true}, {NTx: 2, Segwit: true, BadCommit: true}, {NTx: 4}}
	R := func(k string, p int) Resp { return Resp{Kind: k, Peer: p, MSeed: int64(p) * 77} }
	mk := func(id int, cap uint64, calls ...Call) History {
		return History{ID: id, ChainSeed: chainSeed, Specs: sp, CacheCap: cap, Calls: calls}
	}
	return []History{
		mk(0, 1<<20, Call{Height: 1, Resps: []Resp{R("honest", 1)}, Verdict: "ok"},
			Call{Height: 1, Resps: []Resp{R("mut_tx", 2)}, Verdict: "ok"}),
		mk(1, 1<<20, Call{Height: 1, Resps: []Resp{R("mut_tx", 1), R("add_tx", 2), R("rm_tx", 3), R("swap", 4), R("honest", 5)}, Verdict: "ok"}),
		mk(2, 1<<20, Call{Height: 2, Resps: []Resp{R("strip_wit", 1), R("forge_wit", 2), R("forge_nonce", 3), R("honest", 4), R("strip_wit", 5)}, Verdict: "ok"},
			Call{Height: 2, Resps: nil, Verdict: "ok"}),
		mk(3, 1<<20, Call{Height: 7, Resps: []Resp{R("dup_last", 1), R("honest", 2)}, Verdict: "ok"},
			Call{Height: 2, Resps: []Resp{R("dup_last", 3)}, Verdict: "ok"}),
		mk(4, 1<<20, Call{Height: 4, Resps: []Resp{R("forge_commit", 1), R("other", 2), R("unknown", 3), R("nonblock", 4), R("badreq", 5)}, Verdict: "ok"},
			Call{Height: 4, Resps: []Resp{R("honest", 1)}, Verdict: "err"},
			Call{Height: 4, Resps: []Resp{R("honest", 1)}, Verdict: "ok"}),
		mk(5, 1<<20, Call{Height: 5, Resps: []Resp{R("honest", 1)}, Verdict: "ok"},
			Call{Height: 6, Resps: []Resp{R("honest", 2)}, Verdict: "ok"},
			Call{Height: 1, Resps: []Resp{R("add_wit", 3), R("honest", 4)}, Verdict: "ok"}),
		mk(6, 900, Call{Height: 1, Resps: []Resp{R("honest", 1)}, Verdict: "ok"},
			Call{Height: 2, Resps: []Resp{R("honest", 1)}, Verdict: "ok"},
			Call{Height: 7, Resps: []Resp{R("honest", 1)}, Verdict: "ok"},
			Call{Height: 1, Resps: []Resp{R("honest", 1)}, Verdict: "ok"},
			Call{Height: 2, Enc: 1, Resps: []Resp{R("strip_wit", 1), R("honest", 2)}, Verdict: "ok"}),
		mk(7, 1<<20, Call{Height: -1, Resps: []Resp{R("honest", 1)}, Verdict: "ok"},
			Call{Height: 0, Resps: []Resp{R("honest", 1)}, Verdict: "ok"},
			Call{Height: 3, Resps: []Resp{R("rm_tx", 1), R("honest", 2)}, Verdict: "quit"}),
	}
}

// ---------------------------------------------------------------------

type runner struct {
	chain   *q.Chain
	blkTok  *q.Interner
	hashID  map[chainhash.Hash]int64
	nextHID int64
	oracle  map[int64][5]int64
	fails   []string
}

func (ru *runner) hid(h chainhash.Hash) int64 {
	if id, ok := ru.hashID[h]; ok {
		return id
	}
	id := ru.nextHID
	ru.nextHID++
	ru.hashID[h] = id
	return id
}

// buildResp builds the response message (and request argument) of r for the
// call's target.
func (ru *runner) buildResp(r *Resp, target int, reqMsg wire.Message) (wire.Message, wire.Message) {
	rr := rand.New(rand.NewSource(r.MSeed))
	ch := ru.chain
	n := len(ch.Blocks) - 1
	base := target
	if base < 0 {
		base = 1 + rr.Intn(n)
	}
	hon := q.CloneBlock(ch.Blocks[base])
	req := reqMsg
	var b *wire.MsgBlock
	switch r.Kind {
	case "honest":
		b = hon
	case "badreq":
		b = hon
		if rr.Intn(2) == 0 {
			req = wire.NewMsgGetCFilters(wire.GCSFilterRegular, 1, &ch.Hashes[base])
		} else {
			req = wire.NewMsgGetHeaders()
		}
	case "other":
		o := r.Arg % (n + 1)
		if o == base {
			o = (o + 1) % (n + 1)
		}
		b = q.CloneBlock(ch.Blocks[o])
	case "unknown":
		b = q.BuildBlock(rr, ch.Hashes[base], int32(base+1), time.Now().Add(-time.Hour).Truncate(time.Second), q.BlockSpec{NTx: rr.Intn(3), Segwit: rr.Intn(2) == 0})
	case "mut_tx":
		b = hon
		tx := b.Transactions[rr.Intn(len(b.Transactions))]
		tx.TxOut[0].Value ^= 1 << uint(rr.Intn(20))
	case "add_tx":
		b = hon
		b.Transactions = append(b.Transactions, q.MakeTx(rr, false, 1, false))
	case "rm_tx":
		b = hon
		b.Transactions = b.Transactions[:len(b.Transactions)-1]
	case "dup_last":
		b = hon
		b.Transactions = append(b.Transactions, b.Transactions[len(b.Transactions)-1].Copy())
	case "swap":
		b = hon
		if len(b.Transactions) >= 3 {
			b.Transactions[1], b.Transactions[2] = b.Transactions[2], b.Transactions[1]
		} else {
			b.Transactions = append(b.Transactions, b.Transactions[0].Copy())
		}
	case "strip_wit":
		b = hon
		for _, tx := range b.Transactions {
			for _, in := range tx.TxIn {
				in.Witness = nil
			}
		}
	case "forge_wit":
		b = hon
		tx := b.Transactions[len(b.Transactions)-1]
		if tx.HasWitness() && len(b.Transactions) > 1 {
			tx.TxIn[0].Witness[0][3] ^= 0x01
		} else {
			tx.TxIn[0].Witness = wire.TxWitness{[]byte{1, 2, 3}}
		}
	case "forge_nonce":
		b = hon
		cb := b.Transactions[0]
		if len(cb.TxIn[0].Witness) == 1 {
			cb.TxIn[0].Witness[0][0] ^= 0x80
		} else {
			cb.TxIn[0].Witness = wire.TxWitness{make([]byte, 32)}
		}
	case "add_wit":
		b = hon
		tx := b.Transactions[len(b.Transactions)-1]
		tx.TxIn[0].Witness = append(tx.TxIn[0].Witness, []byte{0xde, 0xad})
	case "forge_commit":
		b = hon
		cb := b.Transactions[0]
		out := cb.TxOut[len(cb.TxOut)-1]
		if len(out.PkScript) >= 38 {
			out.PkScript[20] ^= 0x01
		} else {
			cb.AddTxOut(wire.NewTxOut(0, append([]byte{0x6a, 0x24, 0xaa, 0x21, 0xa9, 0xed}, make([]byte, 32)...)))
		}
	case "nonblock":
		switch rr.Intn(4) {
		case 0:
			return req, hon.Transactions[0]
		case 1:
			m := wire.NewMsgHeaders()
			_ = m.AddBlockHeader(&hon.Header)
			return req, m
		case 2:
			m := wire.NewMsgNotFound()
			_ = m.AddInvVect(wire.NewInvVect(wire.InvTypeWitnessBlock, &ch.Hashes[base]))
			return req, m
		default:
			return req, wire.NewMsgCFilter(wire.GCSFilterRegular, &ch.Hashes[base], []byte{0})
		}
	default:
		panic("kind " + r.Kind)
	}
	return req, b
}

// oracleRow evaluates the external functions on a block response.
func (ru *runner) oracleRow(b *wire.MsgBlock) int64 {
	raw := q.BlockBytes(b)
	tok := ru.blkTok.Tok(raw)
	if _, ok := ru.oracle[tok]; ok {
		return tok
	}
	now := time.Now()
	sane := blockchain.CheckBlockSanity(btcutil.NewBlock(q.CloneBlock(b)), q.Params.PowLimit, blockchain.NewMedianTime()) == nil
	wit := blockchain.ValidateWitnessCommitment(btcutil.NewBlock(q.CloneBlock(b))) == nil
	if is := q.IndepSanity(b, now); is != sane {
		ru.fails = append(ru.fails, fmt.Sprintf("oracle: CheckBlockSanity=%v independent=%v tok=%d", sane, is, tok))
	}
	if iw := q.IndepWitness(b); iw != wit {
		ru.fails = append(ru.fails, fmt.Sprintf("oracle: ValidateWitnessCommitment=%v independent=%v tok=%d", wit, iw, tok))
	}
	b2i := func(x bool) int64 {
		if x {
			return 1
		}
		return 0
	}
	ru.oracle[tok] = [5]int64{tok, ru.hid(q.HeaderHash(&b.Header)), b2i(sane), b2i(wit), int64(b.SerializeSize())}
	return tok
}

type chainEntry struct {
	once  sync.Once
	chain *q.Chain
	tmpl  string
}

var (
	chainMu sync.Mutex
	chains  = map[string]*chainEntry{}
)

func getChain(h *History, work string) (*q.Chain, string) {
	return getChainOf(h.ChainSeed, h.Specs, work)
}

func getChainOf(chainSeed int64, specs []q.BlockSpec, work string) (*q.Chain, string) {
	key := fmt.Sprintf("%d/%v", chainSeed, specs)
	chainMu.Lock()
	e := chains[key]
	if e == nil {
		e = &chainEntry{tmpl: filepath.Join(work, fmt.Sprintf("tmpl-%d", len(chains)))}
		chains[key] = e
	}
	chainMu.Unlock()
	e.once.Do(func() {
		e.chain = q.BuildChain(rand.New(rand.NewSource(chainSeed)), specs, len(specs), nil)
		q.MakeTemplate(e.tmpl, e.chain)
	})
	return e.chain, e.tmpl
}

func runHistory(h *History, work string, tc *timedCtl) {
	if tc != nil {
		defer tc.park() // a history without a lapse step never parks
	}
	ch, tmpl := getChain(h, work)
	dir := filepath.Join(work, fmt.Sprintf("case-%d", h.ID))
	q.CopyDir(tmpl, dir)
	defer os.RemoveAll(dir)
	env := q.Open(dir, q.EnvConfig{BlockCacheSize: h.CacheCap})
	defer env.Close()

	ru := &runner{chain: ch, blkTok: q.NewInterner(10), hashID: map[chainhash.Hash]int64{},
		nextHID: 1000, oracle: map[int64][5]int64{}}
	for i, hh := range ch.Hashes {
		ru.hashID[hh] = int64(i)
	}

	for ci := range h.Calls {
		cl := &h.Calls[ci]
		if h.Timed && cl.LapseBefore {
			if tc != nil {
				tc.park()
				tc.leave()
				<-tc.resume
				tc.enter()
			}
			if !waitLapse(env.CS) {
				h.Fail = fmt.Sprintf("lapse: a ban of %v did not lapse within %v (call %d)", neutrino.BanDuration, lapseDeadline, ci)
				return
			}
		}
		cl.BanNs = int64(neutrino.BanDuration)
		var target chainhash.Hash
		if cl.Height >= 0 {
			target = ch.Hashes[cl.Height]
		} else {
			target = chainhash.Hash{0xee, byte(ci), 0x01}
		}
		enc := wire.WitnessEncoding
		wantInv := wire.InvTypeWitnessBlock
		if cl.Enc == 1 {
			enc = wire.BaseEncoding
			wantInv = wire.InvTypeBlock
		}
		env.WM.OnQuery = func(reqs []*query.Request, _ []query.QueryOption) chan error {
			errChan := make(chan error, 1)
			if len(reqs) != 1 {
				ru.fails = append(ru.fails, fmt.Sprintf("request: %d requests in one GetBlock query", len(reqs)))
				errChan <- errInjected
				return errChan
			}
			gd, ok := reqs[0].Req.(*wire.MsgGetData)
			if !ok || len(gd.InvList) != 1 || gd.InvList[0].Type != wantInv || gd.InvList[0].Hash != target {
				ru.fails = append(ru.fails, "request: GetBlock did not ask for exactly the requested block")
			}
			for ri := range cl.Resps {
				r := &cl.Resps[ri]
				req, msg := ru.buildResp(r, cl.Height, reqs[0].Req)
				r.ReqOK = req == reqs[0].Req
				if b, isb := msg.(*wire.MsgBlock); isb {
					r.IsBlock = true
					r.Tok = ru.oracleRow(b)
				}
				offends := false
				if o, isb := ru.oracle[r.Tok]; h.Timed && r.ReqOK && r.IsBlock && isb && cl.Height >= 0 &&
					o[1] == int64(cl.Height) && !(o[2] == 1 && o[3] == 1) {
					// the ban this response earns must not straddle a whole
					// second (banman records the expiry in seconds)
					offends = true
					alignBan(time.Duration(cl.BanNs))
				}
				t0 := time.Now().UnixNano()
				pr := reqs[0].HandleResp(req, msg, q.PeerAddr(r.Peer))
				if h.Timed {
					t1 := time.Now().UnixNano()
					r.Now = t0
					if offends && floorDiv(t0+cl.BanNs, 1e9) != floorDiv(t1+cl.BanNs, 1e9) {
						h.Ambiguous = true
					}
				}
				switch {
				case pr.Finished:
					r.Prog = 1
				case pr.Progressed:
					r.Prog = 2
				}
			}
			switch cl.Verdict {
			case "ok":
				errChan <- nil
			case "err":
				errChan <- errInjected
			case "quit":
				env.CS.VerifQuit()
			}
			return errChan
		}
		before := env.WM.Queries
		type res struct {
			b   *btcutil.Block
			err error
		}
		done := make(chan res, 1)
		go func() {
			var opts []neutrino.QueryOption
			if cl.Enc == 1 {
				opts = append(opts, neutrino.Encoding(enc))
			}
			if ci%2 == 1 {
				opts = append(opts, neutrino.NumRetries(uint8(1+ci)))
			}
			b, err := env.CS.GetBlock(target, opts...)
			done <- res{b, err}
		}()
		var out res
		select {
		case out = <-done:
		case <-time.After(20 * time.Second):
			h.Fail = fmt.Sprintf("hang: GetBlock did not return (call %d)", ci)
			return
		}
		cl.Queried = env.WM.Queries != before
		switch {
		case out.err == nil && out.b != nil:
			cl.Res = "block"
			raw := q.BlockBytes(out.b.MsgBlock())
			if ru.blkTok.Has(raw) {
				cl.ResTok = ru.blkTok.Tok(raw)
			} else {
				cl.ResTok = 900000 + ru.blkTok.Tok(raw)
			}
		case errors.Is(out.err, neutrino.ErrShuttingDown):
			cl.Res = "quit"
		case errors.Is(out.err, errInjected):
			cl.Res = "query"
		case out.err != nil:
			cl.Res = "other"
		default:
			cl.Res = "nil-nil"
			ru.fails = append(ru.fails, "result: GetBlock returned (nil, nil)")
		}
		cl.Cache = [][3]int64{}
		env.CS.BlockCache.RangeFILO(func(k wire.InvVect, v *neutrino.CacheableBlock) bool {
			e := int64(0)
			if k.Type == wire.InvTypeBlock {
				e = 1
			} else if k.Type != wire.InvTypeWitnessBlock {
				e = int64(k.Type)
			}
			raw := q.BlockBytes(v.Block.MsgBlock())
			t := int64(-1)
			if ru.blkTok.Has(raw) {
				t = ru.blkTok.Tok(raw)
			}
			cl.Cache = append(cl.Cache, [3]int64{e, ru.hid(k.Hash), t})
			return true
		})
		for try := 0; ; try++ {
			s0 := time.Now().UnixNano()
			cl.Bans = []int{}
			for p := 0; p < nPeers; p++ {
				if env.CS.IsBanned(q.PeerAddr(p)) {
					cl.Bans = append(cl.Bans, p)
				}
			}
			s1 := time.Now().UnixNano()
			cl.ObsNow = s0
			// timed family: all reads of one sweep within one second (a
			// ban lapses at a whole second)
			if !h.Timed || floorDiv(s0, 1e9) == floorDiv(s1, 1e9) || try >= 5 {
				if h.Timed && floorDiv(s0, 1e9) != floorDiv(s1, 1e9) {
					h.Ambiguous = true
				}
				break
			}
		}
		if len(ru.fails) > 0 && h.Fail == "" {
			h.Fail = ru.fails[0]
		}
	}
	toks := make([]int64, 0, len(ru.oracle))
	for t := range ru.oracle {
		toks = append(toks, t)
	}
	sort.Slice(toks, func(i, j int) bool { return toks[i] < toks[j] })
	h.Oracle = nil
	for _, t := range toks {
		h.Oracle = append(h.Oracle, ru.oracle[t])
	}
}

func resultTerm(cl *Call) string {
	switch cl.Res {
	case "block":
		return c.App("RBlock", c.Z(cl.ResTok))
	case "query":
		return "RErrQuery"
	case "quit":
		return "RErrQuit"
	}
	return "RErrOther"
}

func caseTerm(h *History) (string, string) {
	var rows []string
	for _, o := range h.Oracle {
		rows = append(rows, fmt.Sprintf("(%d, (%s, %s, %s, %d))", o[0], c.Z(o[1]), c.Bool(o[2] == 1), c.Bool(o[3] == 1), o[4]))
	}
	orc := map[int64][5]int64{}
	for _, o := range h.Oracle {
		orc[o[0]] = o
	}
	var steps []string
	var sig []string
	for i := range h.Calls {
		cl := &h.Calls[i]
		var rs, pg []string
		s := ""
		for _, r := range cl.Resps {
			if h.Timed {
				rs = append(rs, c.App("TR_", c.Bool(r.ReqOK), c.Bool(r.IsBlock), c.Z(int64(r.Peer)), c.Z(r.Tok), c.Z(r.Now)))
			} else {
				rs = append(rs, c.App("R_", c.Bool(r.ReqOK), c.Bool(r.IsBlock), c.Z(int64(r.Peer)), c.Z(r.Tok)))
			}
			if cl.Queried {
				switch r.Prog {
				case 1:
					pg = append(pg, "fin")
				case 0:
					pg = append(pg, "np")
				default:
					pg = append(pg, "np; np") // "progressed only" never happens in the model: force a mismatch
				}
				o, isb := orc[r.Tok]
				switch {
				case !r.ReqOK || !r.IsBlock || !isb || (cl.Height >= 0 && o[1] != int64(cl.Height)) || cl.Height < 0:
					s += "i"
				case o[2] == 1 && o[3] == 1:
					s += "a"
				default:
					s += "b"
				}
			}
		}
		v := map[string]string{"ok": "VOk", "err": "VErr", "quit": "VQuit"}[cl.Verdict]
		blk := int64(cl.Height)
		if cl.Height < 0 {
			blk = 5000 + int64(i)
		}
		call := c.App("C_", c.Z(blk), c.Bool(cl.Height >= 0), c.Z(int64(cl.Enc)), c.List(rs), v)
		if h.Timed {
			call = c.App("TC_", c.Z(blk), c.Bool(cl.Height >= 0), c.Z(int64(cl.Enc)), c.List(rs), v, c.Z(cl.BanNs), c.Z(cl.ObsNow))
		}
		var cache []string
		for _, e := range cl.Cache {
			cache = append(cache, fmt.Sprintf("((%s, %s), %s)", c.Z(e[0]), c.Z(e[1]), c.Z(e[2])))
		}
		bans := make([]int64, len(cl.Bans))
		for j, b := range cl.Bans {
			bans[j] = int64(b)
		}
		obs := c.App("O_", resultTerm(cl), c.Bool(cl.Queried), c.List(pg), c.List(cache), c.Ints(bans))
		steps = append(steps, c.Pair(call, obs))
		switch {
		case cl.Res == "block" && cl.Queried:
			s += "N"
		case cl.Res == "block":
			s += "C"
		default:
			s += "E"
		}
		sig = append(sig, s)
	}
	if h.Timed {
		var ps []int64
		for p := 0; p < nPeers; p++ {
			ps = append(ps, int64(p))
		}
		return fmt.Sprintf("(%d, (%d, %s, %s,\n  %s))", h.ID, h.CacheCap, c.List(rows), c.Ints(ps), c.List(steps)),
			timedSig(h, strings.Join(sig, "."))
	}
	return fmt.Sprintf("(%d, (%d, %s,\n  %s))", h.ID, h.CacheCap, c.List(rows), c.List(steps)), strings.Join(sig, ".")
}

// readReplay reads a history file: the harness's own hist-*.json or the
// replay file ./check writes around it ({"history": ...}).
func readReplay(path string) []byte {
	raw, err := os.ReadFile(path)
	if err != nil {
		panic(err)
	}
	var wrap struct {
		History json.RawMessage `json:"history"`
	}
	if json.Unmarshal(raw, &wrap) == nil && len(wrap.History) > 0 && string(wrap.History) != "null" {
		return wrap.History
	}
	return raw
}

const casesHead = "From Coq Require Import ZArith List Bool.\nFrom Verif Require Import C06.Model C06.Spec C06.Replay%s.\nImport ListNotations.\nOpen Scope Z_scope.\n"
const casesTail = "Set Printing Width 1000000.\nSet Printing Depth 1000000.\nPrint R.\n"

func main() {
	a := c.ParseArgs()
	rep := c.NewReport("C06", a)
	var hs, ts []History
	var fs []FHistory
	if a.Replay != "" {
		raw := readReplay(a.Replay)
		var probe struct {
			Timed bool `json:"timed"`
			Full  bool `json:"full"`
		}
		if err := json.Unmarshal(raw, &probe); err != nil {
			panic(err)
		}
		switch {
		case probe.Full:
			var h FHistory
			if err := json.Unmarshal(raw, &h); err != nil {
				panic(err)
			}
			fs = []FHistory{h}
		default:
			var h History
			if err := json.Unmarshal(raw, &h); err != nil {
				panic(err)
			}
			if probe.Timed {
				ts = []History{h}
			} else {
				hs = []History{h}
			}
		}
	} else {
		hs = corpus(4242)
		n, nt, nf := 160, 12, 14
		if a.Tier == "thorough" {
			n, nt, nf = 6000, 120, 360
		}
		nchains := 4
		var specs [][]q.BlockSpec
		for k := 0; k < nchains; k++ {
			specs = append(specs, defaultSpecs(c.Rng(a.Seed, 100000+k)))
		}
		for i := 0; i < n; i++ {
			r := c.Rng(a.Seed, i)
			k := r.Intn(nchains)
			hs = append(hs, genHistory(r, len(hs), a.Seed*10+int64(k), specs[k]))
		}
		ts = timedCorpus(4242)
		for i := 0; i < nt; i++ {
			r := c.Rng(a.Seed, 300000+i)
			k := r.Intn(nchains)
			ts = append(ts, genTimed(r, timedIDBase+len(ts), a.Seed*10+int64(k), specs[k]))
		}
		fs = fullCorpus(4242)
		for i := 0; i < nf; i++ {
			r := c.Rng(a.Seed, 600000+i)
			k := r.Intn(nchains)
			// a third of the histories contain one attempt that ends by
			// the worker's job timer (2 s of real time)
			fs = append(fs, genFull(r, fullIDBase+len(fs), a.Seed*10+int64(k), specs[k], i%3 == 0))
		}
	}
	work, err := os.MkdirTemp(a.Out, "work")
	if err != nil {
		panic(err)
	}
	defer os.RemoveAll(work)

	guard := func(fail *string, f func()) {
		defer func() {
			if e := recover(); e != nil {
				*fail = fmt.Sprintf("panic: %v", e)
			}
		}()
		f()
	}

	// phase A: the timed histories run up to their lapse step under the
	// short ban duration (nothing else runs)
	prodBan := neutrino.BanDuration
	resume := make(chan struct{})
	var twg sync.WaitGroup
	if len(ts) > 0 {
		neutrino.BanDuration = timedBan
		ctls := make([]*timedCtl, len(ts))
		tsem := make(chan struct{}, a.Workers)
		for i := range ts {
			ctls[i] = newTimedCtl(resume, tsem)
			twg.Add(1)
			go func(h *History, tc *timedCtl) {
				defer twg.Done()
				tc.enter()
				defer tc.leave()
				defer tc.park()
				guard(&h.Fail, func() { runHistory(h, work, tc) })
			}(&ts[i], ctls[i])
		}
		for _, tc := range ctls {
			<-tc.parked
		}
		neutrino.BanDuration = prodBan
	}

	// phase B: the scripted-dispatcher histories and the full-service
	// histories, under the production ban duration
	var wg sync.WaitGroup
	sem := make(chan struct{}, a.Workers)
	fsem := make(chan struct{}, 24)
	wg.Add(1)
	go func() {
		defer wg.Done()
		for i := range fs {
			wg.Add(1)
			fsem <- struct{}{}
			go func(h *FHistory) {
				defer wg.Done()
				defer func() { <-fsem }()
				guard(&h.Fail, func() { runFull(h, work) })
			}(&fs[i])
		}
	}()
	for i := range hs {
		wg.Add(1)
		sem <- struct{}{}
		go func(h *History) {
			defer wg.Done()
			defer func() { <-sem }()
			guard(&h.Fail, func() { runHistory(h, work, nil) })
		}(&hs[i])
	}
	wg.Wait()

	// phase C: the timed histories go on (their bans have lapsed meanwhile)
	if len(ts) > 0 {
		neutrino.BanDuration = timedBan
		close(resume)
		twg.Wait()
		neutrino.BanDuration = prodBan
	}

	sigs := c.Signatures{}
	nontrivial := c.Signatures{}
	const shard = 300
	var sb strings.Builder
	nshard := 0
	flush := func() {
		if sb.Len() == 0 {
			return
		}
		name := "cases.v"
		if len(hs) > shard {
			name = fmt.Sprintf("cases_%d.v", nshard)
		}
		body := fmt.Sprintf(casesHead, "") + "Definition cases : list (Z * case) := [\n" +
			sb.String() + "].\nDefinition R := Eval vm_compute in (run_cases cases).\n" + casesTail
		c.WriteFile(filepath.Join(a.Out, name), body)
		sb.Reset()
		nshard++
	}
	fail := func(id int, what string) bool {
		tag := strings.SplitN(what, ":", 2)[0]
		rep.ImplFailures = append(rep.ImplFailures, c.ImplFailure{Case: fmt.Sprint(id), Step: 0, What: what, Tag: tag})
		return tag == "hang" || tag == "panic" || tag == "setup" || tag == "lapse"
	}
	inShard := 0
	for i := range hs {
		h := &hs[i]
		path := filepath.Join(a.Out, fmt.Sprintf("hist-%d.json", h.ID))
		c.WriteJSON(path, h)
		rep.Cases[fmt.Sprint(h.ID)] = path
		if h.Fail != "" && fail(h.ID, h.Fail) {
			continue
		}
		t, sig := caseTerm(h)
		if inShard > 0 {
			sb.WriteString(";\n")
		}
		sb.WriteString(t)
		inShard++
		if inShard == shard {
			flush()
			inShard = 0
		}
		sigs.Add(sig)
		if strings.Contains(sig, "b") && strings.Contains(sig, "N") {
			nontrivial.Add(sig)
		}
		for _, cl := range h.Calls {
			rep.Histogram["result:"+cl.Res]++
			rep.Histogram["verdict:"+cl.Verdict]++
			if cl.Queried {
				rep.Histogram["calls_queried"]++
			} else if cl.Res == "block" {
				rep.Histogram["calls_cache_hit"]++
			}
			for _, r := range cl.Resps {
				rep.Histogram["resp:"+r.Kind]++
			}
			rep.Histogram["bans_after_call_total"] += len(cl.Bans)
		}
	}
	flush()
	if nshard == 0 {
		c.WriteFile(filepath.Join(a.Out, "cases.v"), "From Coq Require Import ZArith List.\nImport ListNotations.\nDefinition R : list (Z*Z*Z*Z) := [].\nPrint R.\n")
	}

	// timed family
	if len(ts) > 0 {
		var tb []string
		for i := range ts {
			h := &ts[i]
			path := filepath.Join(a.Out, fmt.Sprintf("hist-%d.json", h.ID))
			c.WriteJSON(path, h)
			rep.Cases[fmt.Sprint(h.ID)] = path
			if h.Fail != "" && fail(h.ID, h.Fail) {
				continue
			}
			if h.Ambiguous {
				rep.Histogram["timed:dropped_ambiguous_clock"]++
				continue
			}
			t, sig := caseTerm(h)
			tb = append(tb, t)
			rep.Histogram["timed:histories"]++
			again := false
			seen := map[int]bool{}
			lapsed := false
			for _, cl := range h.Calls {
				if cl.LapseBefore {
					lapsed = true
					rep.Histogram["timed:lapses"]++
				}
				for _, p := range cl.Bans {
					if lapsed && seen[p] {
						again = true
					}
				}
				if !lapsed {
					for _, p := range cl.Bans {
						seen[p] = true
					}
				}
			}
			if again {
				rep.Histogram["timed:reoffender_banned_again"]++
				nontrivial.Add("t:" + sig)
			}
			sigs.Add("t:" + sig)
		}
		body := fmt.Sprintf(casesHead, " C06.TModel C06.ReplayT") + "Definition tcases : list (Z * tcase) := [\n" +
			strings.Join(tb, ";\n") + "].\nDefinition R := Eval vm_compute in (run_tcases tcases).\n" + casesTail
		c.WriteFile(filepath.Join(a.Out, "cases_t.v"), body)
	}

	// full-service family
	if len(fs) > 0 {
		var fb []string
		for i := range fs {
			h := &fs[i]
			path := filepath.Join(a.Out, fmt.Sprintf("hist-%d.json", h.ID))
			c.WriteJSON(path, h)
			rep.Cases[fmt.Sprint(h.ID)] = path
			if h.Fail != "" && fail(h.ID, h.Fail) {
				continue
			}
			if h.Starved {
				rep.Histogram["full:dropped_starved_worker"]++
				continue
			}
			t, sig := fullCaseTerm(h)
			fb = append(fb, t)
			rep.Histogram["full:histories"]++
			sigs.Add("f:" + sig)
			// non-trivial: a call that failed although nobody or not
			// everybody who held the job offended, or a block returned
			// after a liar was banned
			if strings.Contains(sig, "i") && (strings.Contains(sig, "T") || strings.Contains(sig, "D")) || strings.Contains(sig, "b") && strings.Contains(sig, "N") {
				nontrivial.Add("f:" + sig)
			}
			for _, cl := range h.Calls {
				rep.Histogram["full:calls"]++
				rep.Histogram["full:result:"+cl.Res]++
				rep.Histogram["full:attempts"] += len(cl.Attempts)
				rep.Histogram["full:bans_after_call_total"] += len(cl.Bans)
				rep.Histogram["full:disconnected_by_service"] += len(cl.Disc)
				for _, at := range cl.Attempts {
					rep.Histogram["full:attempt_end:"+at.End]++
				}
				if int(cl.DrainMs) > rep.Histogram["full:slowest_pickup_ms"] {
					rep.Histogram["full:slowest_pickup_ms"] = int(cl.DrainMs)
				}
				if int(cl.WallMs) > rep.Histogram["full:slowest_call_ms"] {
					rep.Histogram["full:slowest_call_ms"] = int(cl.WallMs)
				}
			}
		}
		body := fmt.Sprintf(casesHead, " C06.FModel C06.ReplayF") + "Definition fcases : list (Z * fcase) := [\n" +
			strings.Join(fb, ";\n") + "].\nDefinition R := Eval vm_compute in (run_fcases fcases).\n" + casesTail
		c.WriteFile(filepath.Join(a.Out, "cases_f.v"), body)
	}

	rep.Histogram["distinct_signatures"] = len(sigs)
	rep.Evaluations = len(hs) + len(ts) + len(fs)
	rep.DistinctNontrivial = len(nontrivial)
	rep.Rule = "(1) histories of 2-9 GetBlock calls on the real ChainService skeleton (real header store, LRU block cache, bbolt ban store) with a scripted work manager feeding honest/other/unknown blocks, 10 kinds of mutated blocks (merkle, duplicate tx, witness data/commitment), non-block messages and wrong requests from 6 peers; a history is non-trivial when it contains an offending (banned) response and a block returned from the network; distinct = distinct per-call signature of response classes (i ignored / b banned / a accepted) and outcome (N network, C cache, E error). Oracle values (btcd CheckBlockSanity / ValidateWitnessCommitment verdicts) are cross-checked on every response against an independent merkle-root / witness-commitment implementation in the harness. (2) TIMED family: the same skeleton under neutrino.BanDuration = 1.5 s with clock readings on every response: offence, ban, the ban lapses (no UnbanPeer, no restart), the same peer offends again; non-trivial = a peer banned before the lapse is seen banned again after it. (3) FULL-SERVICE family: GetBlock on a ChainService built by the real NewChainService (real work manager as NewChainService configures it, real workers, header / ban stores; not started, hook VerifQueryFront stands in for the peer handler) against scripted query.Peer objects {honest, invalid-block liar, unrelated block, unknown block, notfound/tx, silent until the job timer, hanging up}, NumRetries 0..3 and default; observed: attempts in order, result / error class, ban store, peers disconnected by the service; non-trivial = a call that failed with a bystander among the attempts, or a block returned after a liar was banned."
	for i := 0; i < len(hs) && i < 2; i++ {
		rep.Samples = append(rep.Samples, hs[i])
	}
	if len(fs) > 0 {
		rep.Samples = append(rep.Samples, fs[0])
	}
	if len(ts) > 0 {
		rep.Samples = append(rep.Samples, ts[0])
	}
	rep.Write(a.Out)
}
