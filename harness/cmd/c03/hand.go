package main

// Families HU / HR: getUncheckpointedCFHeaders / resolveConflict with the
// REAL hand-off of peer messages to the query round: the block manager's
// queryAllPeers is the real ChainService.queryAllPeers of a skeleton chain
// service with unconnected peers (hook VerifC03NewHand), and every message a
// peer "sends" is given to the real ServerPeer.OnRead, the way the btcd
// peer's read loop does. Nothing is stubbed between OnRead and the round's
// callback.
//
// Every round is played on a controlled schedule: one message occupies the
// round's callback, which is held busy while the burst sender hands over its
// answer followed by a burst of more unrelated messages (pings, invs, pongs)
// than there are peers, then the other peers hand over their answers; then
// the callback is released. The harness records every message handed to
// OnRead and every callback invocation, in real-time order; when everything
// that can still reach the callback has reached it (or after a deadline) it
// ends the round with a sentinel message whose callback closes the round's
// quit channel - no round waits for a timeout.
//
// C03/ReplayHand.v replays the events on the model of the hand-off
// (C03/Hand.v: a bag, no loss, no duplication): a callback invocation for a
// message that is not pending is a kind-1 row, a message handed over while
// the round was live that never reached the callback although its peer's quit
// channel was not closed is a kind-2 row; the outcome (error, bans, filter
// tip / returned checkpoints) is judged by the U / R replay against the model
// run on the FULL answer set.

import (
	"fmt"
	"math/rand"
	"sync"
	"time"

	"github.com/btcsuite/btcd/chainhash/v2"
	"github.com/btcsuite/btcd/wire/v2"
	"github.com/lightninglabs/neutrino"

	c "verifharness/internal/common"
)

type handSpec struct {
	Burst int    `json:"burst"` // unrelated messages handed over behind the first answer
	Hold  int    `json:"hold"`  // 0: an extra ping occupies the callback; 1: the burst sender's answer does
	Order string `json:"order"` // liar-first | shuffle
	Kinds string `json:"kinds"` // ping | inv | mixed
}

// HandEv is one event of a round: K 0 = handed to OnRead, 1 = callback
// invoked, 2 = queryAllPeers returned.
type HandEv struct {
	K    int   `json:"k"`
	Peer int64 `json:"peer"`
	UID  int64 `json:"uid"`
	Acc  bool  `json:"acc,omitempty"` // an acceptable answer to the round's query
}

type HandRound struct {
	Query string   `json:"query"`
	Evs   []HandEv `json:"evs"`
	Note  string   `json:"note,omitempty"`
}

const (
	handSubscribeDeadline = 10 * time.Second
	handHoldDeadline      = 3 * time.Second
	handDrainDeadline     = 2 * time.Second
)

type handItem struct {
	peer int // index into the world's peers
	msg  wire.Message
	uid  int64
	acc  bool
}

type handCtl struct {
	sp   *spec
	w    *world
	h    *neutrino.VerifHandoff
	r    *rand.Rand
	mu   sync.Mutex
	rnds []HandRound
}

func (hc *handCtl) addrs() []string {
	var out []string
	for _, p := range hc.w.peers {
		out = append(out, p.addr())
	}
	return out
}

func unrelated(r *rand.Rand, kinds string, i int) wire.Message {
	k := kinds
	if k == "mixed" {
		k = []string{"ping", "inv", "pong"}[r.Intn(3)]
	}
	switch k {
	case "inv":
		m := wire.NewMsgInv()
		var h chainhash.Hash
		r.Read(h[:])
		m.AddInvVect(wire.NewInvVect(wire.InvTypeTx, &h))
		return m
	case "pong":
		return wire.NewMsgPong(uint64(1000 + i))
	}
	return wire.NewMsgPing(uint64(1000 + i))
}

// round is the hook's per-round entry: it plans the deliveries of the round,
// starts the goroutine that plays the peers' read loops, and returns the
// recording callback.
func (hc *handCtl) round(q wire.Message, check neutrino.VerifCheckFn) (neutrino.VerifCheckFn, func()) {
	hs := hc.sp.Hand
	n := len(hc.w.peers)
	rd := HandRound{}
	idx := map[string]int{}
	for i, p := range hc.w.peers {
		idx[p.addr()] = i
	}

	// acceptable answers (the test of getCFHeadersForAllPeers' callback)
	accept := func(m wire.Message) bool { return false }
	switch qm := q.(type) {
	case *wire.MsgGetCFHeaders:
		rd.Query = "getcfheaders"
		stop, ok := hc.w.ch.byHash[qm.StopHash]
		num := stop - int(qm.StartHeight) + 1
		accept = func(m wire.Message) bool {
			cf, is := m.(*wire.MsgCFHeaders)
			return ok && is && cf.StopHash == qm.StopHash && cf.FilterType == qm.FilterType &&
				len(cf.FilterHashes) == num
		}
	case *wire.MsgGetCFilters:
		rd.Query = "getcfilters"
	default:
		rd.Query = q.Command()
	}

	// the answers, per peer, and who sends the burst (the first deviating
	// peer that answers, else the first peer that answers)
	answers := make([][]wire.Message, n)
	for _, pm := range hc.w.respond(q) {
		answers[idx[pm.Addr]] = pm.Msgs
	}
	sender := -1
	for i, p := range hc.w.peers {
		if len(answers[i]) > 0 && (len(p.Lies) > 0 || p.HdrMode != "ok") {
			sender = i
			break
		}
	}
	if sender < 0 {
		for i := range answers {
			if len(answers[i]) > 0 {
				sender = i
				break
			}
		}
	}
	if sender < 0 {
		sender = 0
	}
	uid := int64(0)
	mk := func(peer int, m wire.Message) handItem {
		uid++
		return handItem{peer: peer, msg: m, uid: uid, acc: accept(m)}
	}
	var first []handItem // handed over before the callback is held
	var rest []handItem  // handed over while it is held
	if hs.Hold == 0 {
		first = append(first, mk(sender, unrelated(hc.r, "ping", 0)))
	}
	for _, m := range answers[sender] {
		rest = append(rest, mk(sender, m))
	}
	if hs.Hold != 0 && len(rest) > 0 {
		first, rest = rest[:1], rest[1:]
	} else if hs.Hold != 0 {
		first = append(first, mk(sender, unrelated(hc.r, "ping", 0)))
	}
	for i := 0; i < hs.Burst; i++ {
		from := sender
		if hs.Order == "shuffle" {
			from = hc.r.Intn(n)
		}
		rest = append(rest, mk(from, unrelated(hc.r, hs.Kinds, i+1)))
	}
	for i := range answers {
		if i == sender {
			continue
		}
		for _, m := range answers[i] {
			rest = append(rest, mk(i, m))
		}
	}
	if hs.Order == "shuffle" {
		hc.r.Shuffle(len(rest), func(i, j int) { rest[i], rest[j] = rest[j], rest[i] })
	}
	byMsg := map[wire.Message]handItem{}
	for _, it := range append(append([]handItem{}, first...), rest...) {
		byMsg[it.msg] = it
	}
	sentinel := wire.NewMsgVerAck()

	var (
		mu        sync.Mutex
		evs       []HandEv
		got       = map[int64]bool{}
		closed    = map[int]bool{}
		invoked   int
		entered   = make(chan struct{})
		resume    = make(chan struct{})
		quitOnce  sync.Once
		holdOnce  sync.Once
		delivered []handItem
		finished  = make(chan struct{})
	)
	logEv := func(e HandEv) {
		mu.Lock()
		evs = append(evs, e)
		mu.Unlock()
	}
	wrapped := func(sp *neutrino.ServerPeer, resp wire.Message, quit chan<- struct{}, peerQuit chan<- struct{}) {
		if resp == wire.Message(sentinel) {
			quitOnce.Do(func() { close(quit) })
			return
		}
		it, ok := byMsg[resp]
		pid := int64(-1)
		if i, ok2 := idx[sp.Addr()]; ok2 {
			pid = hc.w.peers[i].ID
		}
		mu.Lock()
		if ok {
			evs = append(evs, HandEv{K: 1, Peer: pid, UID: it.uid})
			got[it.uid] = true
			if it.acc {
				closed[it.peer] = true
			}
		} else {
			evs = append(evs, HandEv{K: 1, Peer: pid, UID: -1})
		}
		invoked++
		hold := invoked == 1
		mu.Unlock()
		if hold {
			holdOnce.Do(func() {
				close(entered)
				select {
				case <-resume:
				case <-time.After(handHoldDeadline + handDrainDeadline):
				}
			})
		}
		check(sp, resp, quit, peerQuit)
	}
	deliver := func(it handItem) {
		mu.Lock()
		evs = append(evs, HandEv{K: 0, Peer: hc.w.peers[it.peer].ID, UID: it.uid, Acc: it.acc})
		delivered = append(delivered, it)
		mu.Unlock()
		hc.h.OnRead(it.peer, it.msg)
	}
	// everything that can still reach the callback has reached it
	settled := func() bool {
		mu.Lock()
		defer mu.Unlock()
		for _, it := range delivered {
			if !got[it.uid] && !closed[it.peer] {
				return false
			}
		}
		return true
	}

	go func() {
		defer close(finished)
		t0 := time.Now()
		for i := 0; i < n; i++ {
			for !hc.h.Subscribed(i) {
				if time.Since(t0) > handSubscribeDeadline {
					rd.Note = "peers were not subscribed"
					close(resume)
					return
				}
				time.Sleep(20 * time.Microsecond)
			}
		}
		for _, it := range first {
			deliver(it)
		}
		select {
		case <-entered:
		case <-time.After(handHoldDeadline):
			rd.Note = "the callback was not invoked for the first message"
		}
		for _, it := range rest {
			deliver(it)
		}
		close(resume)
		t1 := time.Now()
		for !settled() {
			if time.Since(t1) > handDrainDeadline {
				rd.Note = "messages handed to OnRead did not reach the callback"
				break
			}
			time.Sleep(50 * time.Microsecond)
		}
		// end of the round (no effect when it has ended by itself)
		for i := 0; i < n; i++ {
			hc.h.OnRead(i, sentinel)
		}
	}()

	done := func() {
		logEv(HandEv{K: 2})
		select {
		case <-finished:
		case <-time.After(handSubscribeDeadline + handHoldDeadline + 2*handDrainDeadline):
		}
		// The per-peer goroutines of queryAllPeers unsubscribe after it has
		// returned: wait for that, so that "subscribed" in the next round
		// means subscribed to the next round.
		t0 := time.Now()
		for i := 0; i < n; i++ {
			for hc.h.Subscribed(i) && time.Since(t0) < handSubscribeDeadline {
				time.Sleep(20 * time.Microsecond)
			}
		}
		mu.Lock()
		rd.Evs = append([]HandEv(nil), evs...)
		mu.Unlock()
		hc.mu.Lock()
		hc.rnds = append(hc.rnds, rd)
		hc.mu.Unlock()
	}
	return wrapped, done
}

func (hc *handCtl) term() string {
	var rs []string
	for _, rd := range hc.rnds {
		var es []string
		for _, e := range rd.Evs {
			es = append(es, fmt.Sprintf("(%d, %s, %s, %s)", e.K, c.Z(e.Peer), c.Z(e.UID), c.Bool(e.Acc)))
		}
		kind := 0
		if rd.Query == "getcfheaders" {
			kind = 1
		}
		rs = append(rs, fmt.Sprintf("(%d, %s)", kind, c.List(es)))
	}
	return c.List(rs)
}

// newHandBM builds the block manager of a HU / HR case.
func newHandBM(sp *spec, w *world, cfg neutrino.VerifC03Config) (*neutrino.VerifC03BM, *handCtl, func()) {
	hc := &handCtl{sp: sp, w: w, r: rand.New(rand.NewSource(sp.Seed*131 + int64(sp.ID)))}
	bm, h, err := neutrino.VerifC03NewHand(cfg, hc.addrs(), hc.round)
	if err != nil {
		panic(err)
	}
	hc.h = h
	return bm, hc, func() { h.Close() }
}

func genHand(r *rand.Rand, npeers int) *handSpec {
	hs := &handSpec{Burst: npeers + 1 + r.Intn(8), Hold: r.Intn(2), Order: "liar-first",
		Kinds: []string{"ping", "inv", "mixed"}[r.Intn(3)]}
	if r.Intn(3) == 0 {
		hs.Order = "shuffle"
	}
	return hs
}

// sanitize: the hand-off keeps no order, not even per peer, so a peer must
// not send two acceptable answers to one query (which of them the round
// accepts is a race in the real code).
func sanitizePeers(ps []*peerSpec) {
	for _, p := range ps {
		if p.HdrMode == "dupjunk" {
			p.HdrMode = "ok"
		}
	}
}

func genHU(id int, seed int64, r *rand.Rand) *spec {
	sp := &spec{ID: id, Seed: seed, Family: "HU"}
	sp.Tip = 3 + r.Intn(20)
	sp.FTip = r.Intn(sp.Tip)
	switch r.Intn(3) {
	case 0:
		sp.Peers, sp.Honest = genPeers(r, sp.FTip+1, sp.Tip, true)
	default:
		h := sp.FTip + 1 + r.Intn(sp.Tip-sp.FTip)
		kind := duelKinds[r.Intn(len(duelKinds))]
		sp.Force = []forceOut{{Height: h, Kind: duelForce[r.Intn(len(duelForce))]}}
		sp.Peers, sp.Honest = duelPeers(r, 1+r.Intn(2), 1+r.Intn(3), h, kind, r.Intn(3) != 0)
	}
	sanitizePeers(sp.Peers)
	sp.Hand = genHand(r, len(sp.Peers))
	return sp
}

func genHR(id int, seed int64, r *rand.Rand) *spec {
	sp := genR(id, seed, r)
	sp.Family = "HR"
	sanitizePeers(sp.Peers)
	sp.Hand = genHand(r, len(sp.Peers))
	return sp
}
