// Family L of the C03 harness: the REAL cfHandler goroutine of the block
// manager, run round by round against scripted peers over the real header
// stores, with the environment (block headers appended / reorganised, peers
// connecting and leaving) acting between the rounds under the harness'
// control.
//
// How the handler is driven. cfHandler runs in its own goroutine (hook
// VerifC03BM.CfHandler). Everything it does to the outside goes through the
// harness: broadcast queries (Respond), the query dispatcher (Query), GetBlock,
// BanPeer and the two header stores, which are wrapped. A round of the Coq
// model (C03/Loop.v) ends where the handler blocks:
//   - in newHeadersSignal.Wait()            (idle; read off runtime.Stack)
//   - in the 3 s pause after a failed attempt (sleep; read off runtime.Stack)
//   - at the call of BlockHeadersSynced() behind getCheckpointedCFHeaders
//     (gate "decide": the wrapped block header store holds the handler there;
//     the call site is recognised by its line in blockmanager.go)
//   - at the second getUncheckpointedCFHeaders of one round (gate "tip").
//
// The environment acts only while the handler is blocked at one of these
// points, so that a run is a sequence of rounds and events as in the model.
// The dispatcher delivers the scripted arrivals, waits until the handler has
// consumed them (parked in the select of getCheckpointedCFHeaders, again read
// off runtime.Stack) and then reports the verdict. Every wait has a deadline.
package main

import (
	"bytes"
	"fmt"
	"math/rand"
	"os"
	"path/filepath"
	"runtime"
	"sort"
	"strings"
	"sync"
	"time"

	"github.com/btcsuite/btcd/btcutil/v2"
	"github.com/btcsuite/btcd/chainhash/v2"
	"github.com/btcsuite/btcd/wire/v2"
	"github.com/lightninglabs/neutrino"
	"github.com/lightninglabs/neutrino/banman"
	"github.com/lightninglabs/neutrino/chainsync"
	"github.com/lightninglabs/neutrino/headerfs"
	"github.com/lightninglabs/neutrino/query"

	c "verifharness/internal/common"
)

// loopStep is one step of a family-L script.
type loopStep struct {
	Kind string `json:"kind"` // round|chain|connect|leave
	// chain: roll back to Height (-1: no rollback), then commit N new block
	// headers of branch Branch; Fresh: they carry current timestamps
	// (BlockHeadersSynced becomes true)
	Height int  `json:"height,omitempty"`
	N      int  `json:"n,omitempty"`
	Branch int  `json:"branch,omitempty"`
	Fresh  bool `json:"fresh,omitempty"`
	// connect|leave
	Peer int64 `json:"peer,omitempty"`
	// round: what arrives at the query dispatcher: all|none|first|rev|liars
	Fetch string `json:"fetch,omitempty"`
	// round: connected peers that stay silent in this round
	Silent []int64 `json:"silent,omitempty"`
	Note   string  `json:"note,omitempty"`
}

const loopDeadline = 20 * time.Second

// loopMaxPauses bounds the number of failed attempts (3 s pauses of the real
// handler) one case may spend; the rest of its script is dropped.
var loopMaxPauses = 2

var freshTime = time.Now().Truncate(time.Second)

// ---------------------------------------------------------------------
// Where the handler is.

type siteInfo struct {
	waitLine, postLine int
}

var (
	siteMu    sync.Mutex
	siteCache = map[string]*siteInfo{}
)

// syncedSites finds the two calls of BlockHeadersSynced in cfHandler: the one
// in the waiting loop and the one behind getCheckpointedCFHeaders.
func syncedSites(file string) *siteInfo {
	siteMu.Lock()
	defer siteMu.Unlock()
	if s, ok := siteCache[file]; ok {
		return s
	}
	s := &siteInfo{}
	src, err := os.ReadFile(file)
	if err == nil {
		in := false
		for i, ln := range strings.Split(string(src), "\n") {
			if strings.HasPrefix(ln, "func (b *blockManager) cfHandler()") {
				in = true
				continue
			}
			if in && strings.HasPrefix(ln, "func ") {
				break
			}
			if in && strings.Contains(ln, "b.BlockHeadersSynced()") {
				if s.waitLine == 0 {
					s.waitLine = i + 1
				} else if s.postLine == 0 {
					s.postLine = i + 1
				}
			}
		}
	}
	siteCache[file] = s
	return s
}

type handlerCtl struct {
	mu       sync.Mutex
	gid      string
	atGate   string
	release  chan struct{}
	finished bool
	ferr     error
	hits     int
	tipCalls int
	quit     chan struct{}
	probeMu  sync.Mutex
	stackBuf []byte
}

func (h *handlerCtl) hit() {
	h.mu.Lock()
	h.hits++
	h.mu.Unlock()
}

func (h *handlerCtl) nhits() int {
	h.mu.Lock()
	defer h.mu.Unlock()
	return h.hits
}

// gate blocks the handler goroutine until the harness releases it.
func (h *handlerCtl) gate(name string) {
	h.mu.Lock()
	h.atGate = name
	h.hits++
	ch := make(chan struct{})
	h.release = ch
	h.mu.Unlock()
	select {
	case <-ch:
	case <-h.quit:
	}
}

func (h *handlerCtl) open() {
	h.mu.Lock()
	if h.release != nil {
		close(h.release)
		h.release = nil
	}
	h.atGate = ""
	h.mu.Unlock()
}

// callers classifies a store call made by the handler goroutine.
func callSite() (fn1, fn2 string, line2 int, file2 string) {
	var pcs [16]uintptr
	n := runtime.Callers(3, pcs[:])
	fr := runtime.CallersFrames(pcs[:n])
	f1, more := fr.Next()
	fn1 = f1.Function
	if more {
		f2, _ := fr.Next()
		fn2, line2, file2 = f2.Function, f2.Line, f2.File
	}
	return
}

type gatedBS struct {
	headerfs.BlockHeaderStore
	h *handlerCtl
}

func (g *gatedBS) ChainTip() (*wire.BlockHeader, uint32, error) {
	fn1, fn2, line2, file2 := callSite()
	switch {
	case strings.HasSuffix(fn1, ".(*blockManager).cfHandler"):
		g.h.hit()
	case strings.HasSuffix(fn1, ".(*blockManager).BlockHeadersSynced") &&
		strings.HasSuffix(fn2, ".(*blockManager).cfHandler"):
		s := syncedSites(file2)
		if s.postLine != 0 && line2 == s.postLine {
			g.h.gate("decide")
		} else {
			g.h.hit()
		}
	}
	return g.BlockHeaderStore.ChainTip()
}

type gatedFS struct {
	headerfs.FilterHeaderStore
	h *handlerCtl
}

func (g *gatedFS) ChainTip() (*chainhash.Hash, uint32, error) {
	fn1, fn2, _, _ := callSite()
	if strings.HasSuffix(fn1, ".(*blockManager).getUncheckpointedCFHeaders") &&
		strings.HasSuffix(fn2, ".(*blockManager).cfHandler") {
		g.h.mu.Lock()
		g.h.tipCalls++
		n := g.h.tipCalls
		g.h.mu.Unlock()
		if n >= 2 {
			g.h.gate("tip")
		} else {
			g.h.hit()
		}
	}
	return g.FilterHeaderStore.ChainTip()
}

func loopGoid() string {
	var b [64]byte
	n := runtime.Stack(b[:], false)
	f := strings.Fields(string(b[:n]))
	if len(f) < 2 {
		return "?"
	}
	return f[1]
}

// probe says where the handler goroutine is: gate:<name> | idle | sleep |
// fetchwait | done | run.
func (h *handlerCtl) probe() string {
	h.mu.Lock()
	g, fin, gid := h.atGate, h.finished, h.gid
	h.mu.Unlock()
	if fin {
		return "done"
	}
	if g != "" {
		return "gate:" + g
	}
	if gid == "" {
		return "run"
	}
	h.probeMu.Lock()
	defer h.probeMu.Unlock()
	if h.stackBuf == nil {
		h.stackBuf = make([]byte, 1<<18)
	}
	var st []byte
	for {
		n := runtime.Stack(h.stackBuf, true)
		if n < len(h.stackBuf) {
			st = h.stackBuf[:n]
			break
		}
		h.stackBuf = make([]byte, 2*len(h.stackBuf))
	}
	hdr := []byte("goroutine " + gid + " [")
	off := 0
	for {
		i := bytes.Index(st[off:], hdr)
		if i < 0 {
			return "run"
		}
		i += off
		if i != 0 && st[i-1] != '\n' {
			off = i + len(hdr)
			continue
		}
		rest := st[i+len(hdr):]
		j := bytes.IndexByte(rest, ']')
		if j < 0 {
			return "run"
		}
		reason := string(rest[:j])
		if k := strings.IndexByte(reason, ','); k >= 0 {
			reason = reason[:k]
		}
		body := rest[j:]
		if e := bytes.Index(body, []byte("\n\n")); e >= 0 {
			body = body[:e]
		}
		first := ""
		for _, ln := range strings.Split(string(body), "\n")[1:] {
			if strings.HasPrefix(ln, "\t") || ln == "" {
				continue
			}
			if strings.HasPrefix(ln, "runtime.") || strings.HasPrefix(ln, "sync.") ||
				strings.HasPrefix(ln, "internal/") || strings.HasPrefix(ln, "time.") {
				continue
			}
			first = ln
			break
		}
		switch {
		case strings.HasPrefix(reason, "sync.Cond.Wait") && strings.Contains(first, ".(*blockManager).cfHandler"):
			return "idle"
		case reason == "select" && strings.Contains(first, ".(*blockManager).cfHandler"):
			return "sleep"
		case reason == "select" && strings.Contains(first, ".(*blockManager).getCheckpointedCFHeaders"):
			return "fetchwait"
		}
		return "run"
	}
}

// ---------------------------------------------------------------------
// One run.

type roundRec struct {
	asked    string // Coq option
	cpans    []string
	arrs     []string
	banFrom  int
	tipBcast bool
	queried  bool
	blockErr bool // GetBlock failed in this round
	maxStop  int  // highest stop height among the dispatcher's requests
	w        *world
}

type loopRun struct {
	sp   *spec
	mu   sync.Mutex
	in   *interner
	ch   *chainT
	bm   *neutrino.VerifC03BM
	h    *handlerCtl
	bs   headerfs.BlockHeaderStore
	fs   headerfs.FilterHeaderStore
	byID map[int64]*peerSpec

	conn   map[int64]bool
	banned map[int64]bool
	bans   []int64
	step   *loopStep
	rr     *roundRec
	state  string
	// rounds in which GetBlock has failed so far (spec BlockFail / BlockFailTimes)
	blockFails int
	// length of every peer's checkpoint list as capped by the handler, from
	// the last getcfcheckpt round; the filter tip before the round
	cpLens  map[int64]int
	ftipNow int
	fail    *c.ImplFailure
}

func (L *loopRun) answering() []*peerSpec {
	silent := map[int64]bool{}
	if L.step != nil {
		for _, s := range L.step.Silent {
			silent[s] = true
		}
	}
	var out []*peerSpec
	for _, p := range L.sp.Peers {
		if L.conn[p.ID] && !L.banned[p.ID] && !silent[p.ID] {
			out = append(out, p)
		}
	}
	return out
}

func (L *loopRun) respond(q wire.Message) []neutrino.VerifC03PeerMsgs {
	L.h.hit()
	L.mu.Lock()
	defer L.mu.Unlock()
	rr := L.rr
	switch m := q.(type) {
	case *wire.MsgGetCFCheckpt:
		rr.asked = c.Some(c.Z(L.in.tok(m.StopHash)))
		stopH, ok := L.ch.byHash[m.StopHash]
		L.cpLens = map[int64]int{}
		if !ok {
			return nil
		}
		var out []neutrino.VerifC03PeerMsgs
		for _, p := range rr.w.peers {
			if p.CpMode == "silent" {
				continue
			}
			l := rr.w.checkpoints(p, stopH)
			if p.CpMode == "long" {
				// one checkpoint more than the chain has
				var x chainhash.Hash
				rand.New(rand.NewSource(p.ID*771 + int64(len(l)))).Read(x[:])
				l = append(l, &x)
			}
			msg := wire.NewMsgCFCheckpt(wire.GCSFilterRegular, &m.StopHash, len(l))
			for _, x := range l {
				msg.AddCFHeader(x)
			}
			rr.cpans = append(rr.cpans, fmt.Sprintf("(%d, true, %d, %s)", p.ID, L.in.tok(m.StopHash), hashesTerm(L.in, l)))
			n := len(l)
			if lim := (len(L.ch.hashes) - 1) / 1000; n > lim {
				n = lim
			}
			L.cpLens[p.ID] = n
			out = append(out, neutrino.VerifC03PeerMsgs{Addr: p.addr(), Msgs: []wire.Message{msg}})
		}
		return out
	case *wire.MsgGetCFHeaders:
		L.h.mu.Lock()
		tc := L.h.tipCalls
		L.h.mu.Unlock()
		if !rr.queried && tc > 0 {
			rr.tipBcast = true
		}
	}
	return rr.w.respond(q)
}

func (L *loopRun) getBlock(hh chainhash.Hash) (*btcutil.Block, error) {
	L.h.hit()
	L.mu.Lock()
	rr := L.rr
	L.mu.Unlock()
	blk, err := rr.w.getBlock(hh)
	if err != nil {
		L.mu.Lock()
		rr.blockErr = true
		L.mu.Unlock()
	}
	return blk, err
}

func (L *loopRun) banPeer(addr string, _ banman.Reason) error {
	L.h.hit()
	L.mu.Lock()
	defer L.mu.Unlock()
	for _, p := range L.sp.Peers {
		if p.addr() == addr {
			L.bans = append(L.bans, p.ID)
			L.banned[p.ID] = true
			return nil
		}
	}
	L.bans = append(L.bans, -1)
	return nil
}

type plannedArr struct {
	q    int
	peer *peerSpec
}

// Query is the scripted query dispatcher.
func (L *loopRun) Query(reqs []*query.Request, _ ...query.QueryOption) chan error {
	L.h.hit()
	errChan := make(chan error, 1)
	L.mu.Lock()
	L.rr.queried = true
	for _, rq := range reqs {
		if gq, ok := rq.Req.(*wire.MsgGetCFHeaders); ok {
			if h, ok := L.ch.byHash[gq.StopHash]; ok && h > L.rr.maxStop {
				L.rr.maxStop = h
			}
		}
	}
	mode := "all"
	if L.step != nil && L.step.Fetch != "" {
		mode = L.step.Fetch
	}
	peers := append([]*peerSpec{}, L.rr.w.peers...)
	honest := map[int64]bool{}
	for _, id := range L.sp.Honest {
		honest[id] = true
	}
	switch mode {
	case "liars":
		sort.SliceStable(peers, func(i, j int) bool { return !honest[peers[i].ID] && honest[peers[j].ID] })
	default:
		sort.SliceStable(peers, func(i, j int) bool { return honest[peers[i].ID] && !honest[peers[j].ID] })
	}
	var plan []plannedArr
	order := make([]int, len(reqs))
	for i := range order {
		order[i] = i
	}
	switch mode {
	case "none":
		order = nil
	case "first":
		order = order[:1]
	case "skipfirst":
		order = order[1:]
	case "rev":
		for i, j := 0, len(order)-1; i < j; i, j = i+1, j-1 {
			order[i], order[j] = order[j], order[i]
		}
	}
	for _, q := range order {
		for _, p := range peers {
			plan = append(plan, plannedArr{q, p})
		}
	}
	L.mu.Unlock()
	go func() {
		finished := map[int]bool{}
		for _, a := range plan {
			if finished[a.q] {
				continue
			}
			L.mu.Lock()
			if L.banned[a.peer.ID] {
				L.mu.Unlock()
				continue
			}
			gq := reqs[a.q].Req.(*wire.MsgGetCFHeaders)
			stop, ok := L.ch.byHash[gq.StopHash]
			if !ok || int(gq.StartHeight) > stop || stop-int(gq.StartHeight)+1 > wire.MaxCFHeadersPerMsg {
				// no conforming peer answers that
				L.mu.Unlock()
				continue
			}
			m := L.rr.w.cfheaders(a.peer, int(gq.StartHeight), stop, gq.StopHash)
			L.rr.arrs = append(L.rr.arrs, fmt.Sprintf("(%d, %d, true, %s)", a.q, a.peer.ID, L.rr.w.msgTerm(m)))
			L.mu.Unlock()
			pr := reqs[a.q].HandleResp(reqs[a.q].Req, m, a.peer.addr())
			if pr.Finished {
				finished[a.q] = true
			}
		}
		// the verdict comes when the handler has consumed what was
		// delivered (or has left the fetch because it is complete)
		dl := time.Now().Add(loopDeadline)
		for time.Now().Before(dl) {
			st := L.h.probe()
			if st == "fetchwait" || st == "done" || strings.HasPrefix(st, "gate:") || st == "idle" || st == "sleep" {
				break
			}
			time.Sleep(time.Millisecond)
		}
		if len(finished) == len(reqs) {
			errChan <- nil
		} else {
			errChan <- query.ErrQueryTimeout
		}
	}()
	return errChan
}

// waitQuiescent waits until the handler is blocked at a round boundary.
func (L *loopRun) waitQuiescent(hits0 int, wasSleep bool) string {
	dl := time.Now().Add(loopDeadline)
	for time.Now().Before(dl) {
		// the number of calls is read BEFORE the stack is looked at: a
		// pause seen after the handler was active in this round is a new one
		n := L.h.nhits()
		st := L.h.probe()
		switch {
		case st == "done" || strings.HasPrefix(st, "gate:") || st == "idle":
			return st
		case st == "sleep":
			if !wasSleep || n > hits0 {
				return st
			}
		}
		time.Sleep(time.Millisecond)
	}
	return "hang"
}

func (L *loopRun) newRound() {
	L.mu.Lock()
	if L.rr != nil && L.rr.blockErr {
		L.blockFails++
	}
	L.rr = &roundRec{asked: "None", banFrom: len(L.bans), w: newWorld(L.ch, L.in, L.answering())}
	if L.sp.BlockFailTimes == 0 || L.blockFails < L.sp.BlockFailTimes {
		for _, h := range L.sp.BlockFail {
			L.rr.w.BlockFail[h] = true
		}
	}
	L.mu.Unlock()
	L.h.mu.Lock()
	L.h.tipCalls = 0
	L.h.mu.Unlock()
}

// extend builds the chain after rolling back to fork and committing n blocks
// of the given branch.
func (L *loopRun) extend(fork, n, branch int, fresh bool) *chainT {
	ch := L.ch.upTo(fork)
	r := rand.New(rand.NewSource(L.sp.Seed*7919 + int64(branch)*1000003 + int64(L.sp.ID)))
	for i := 0; i < n; i++ {
		h := fork + 1 + i
		ntx := 0
		if r.Intn(3) == 0 {
			ntx = 1 + r.Intn(2)
		}
		b := mkBlock(r, ch.hashes[h-1], h, ntx, true)
		if fresh {
			b.Header.Timestamp = freshTime
		}
		xr := rand.New(rand.NewSource(int64(branch)*977 + int64(h)))
		prevs := decorate(b, xr, false, nil)
		ch.add(b, prevs)
	}
	return ch
}

func sortedSet(l []int64) []int64 {
	m := map[int64]bool{}
	for _, b := range l {
		m[b] = true
	}
	var out []int64
	for b := range m {
		out = append(out, b)
	}
	sort.Slice(out, func(i, j int) bool { return out[i] < out[j] })
	return out
}

func runL(sp *spec) (res result) {
	res.sp = *sp
	L := &loopRun{sp: sp, conn: map[int64]bool{}, banned: map[int64]bool{}, byID: map[int64]*peerSpec{},
		cpLens: map[int64]int{}, ftipNow: sp.FTip}
	L.ch = fx.big.upTo(sp.Tip)
	L.in = newInterner(fx.bigIn, 10000000)
	e, done := openCopy(fx.bigTemplate(sp.Tip), sp.ID)
	defer done()
	if err := writeFilters(e.FS, L.ch, fx.big.fheaders, 1, sp.FTip); err != nil {
		panic(err)
	}
	for _, p := range sp.Peers {
		L.byID[p.ID] = p
	}
	conn := sp.Conn
	if conn == nil {
		for _, p := range sp.Peers {
			conn = append(conn, p.ID)
		}
	}
	for _, id := range conn {
		L.conn[id] = true
	}
	L.h = &handlerCtl{quit: make(chan struct{})}
	L.bs = &gatedBS{BlockHeaderStore: e.BS, h: L.h}
	L.fs = &gatedFS{FilterHeaderStore: e.FS, h: L.h}
	bm, err := neutrino.VerifC03New(neutrino.VerifC03Config{ChainParams: caseParams(sp.ID),
		BlockHeaders: L.bs, RegFilterHeaders: L.fs, Respond: L.respond, GetBlock: L.getBlock,
		BanPeer: L.banPeer, Dispatcher: L})
	if err != nil {
		panic(err)
	}
	L.bm = bm
	started := false
	stop := func() {
		close(L.h.quit)
		bm.Quit()
		L.h.open()
		dl := time.Now().Add(10 * time.Second)
		for started && time.Now().Before(dl) {
			bm.WakeHeaderWaiters()
			if L.h.probe() == "done" {
				return
			}
			time.Sleep(5 * time.Millisecond)
		}
		if started && L.h.probe() != "done" && L.fail == nil {
			L.fail = &c.ImplFailure{Case: fmt.Sprint(sp.ID), What: "cfHandler does not return after quit", Tag: "c03-loop-hang"}
		}
	}
	defer stop()

	synced := false
	L.newRound()
	var evs []string
	var kinds []string
	nrounds, nfruit := 0, 0
	L.state = "new"
	for si := range sp.Steps {
		st := &sp.Steps[si]
		switch st.Kind {
		case "connect":
			L.conn[st.Peer] = true
			evs = append(evs, fmt.Sprintf("RConnect %d", st.Peer))
			kinds = append(kinds, "c")
		case "leave":
			delete(L.conn, st.Peer)
			evs = append(evs, fmt.Sprintf("RLeave %d", st.Peer))
			kinds = append(kinds, "l")
		case "chain":
			if strings.HasPrefix(L.state, "gate:tip") {
				// the handler has already looked at the tips: not a round boundary of the model
				continue
			}
			tip := len(L.ch.hashes) - 1
			fork := st.Height
			if fork < 0 || fork > tip {
				fork = tip
			}
			nch := L.extend(fork, st.N, st.Branch, st.Fresh)
			if fork < tip {
				if err := bm.RollBackToHeight(uint32(fork)); err != nil {
					L.fail = &c.ImplFailure{Case: fmt.Sprint(sp.ID), Step: si, What: "rollBackToHeight: " + err.Error(), Tag: "c03-loop-rollback"}
					return resOf(res, L)
				}
			}
			ntip := len(nch.hashes) - 1
			if ntip > fork {
				if err := writeBlocks(e.BS, nch, fork+1, ntip); err != nil {
					panic(err)
				}
			}
			L.mu.Lock()
			L.ch = nch
			newH := nch.hashes[fork+1:]
			newF := nch.fhashes[fork+1:]
			xs := runsOf(L.in.toks(newH))
			tf := runsOf(L.in.toks(newF))
			L.in.chain(nch.fheaders[fork], newF)
			L.mu.Unlock()
			synced = bm.BlockHeadersSynced()
			bm.SetHeaderTip(uint32(ntip), nch.hashes[ntip])
			evs = append(evs, fmt.Sprintf("RChain %d %s %s %s", fork, xs, tf, c.Bool(synced)))
			k := "g"
			if fork < tip {
				k = "r"
				if fork < (tip/1000)*1000 {
					k = "R" // crosses the last checkpoint height
				}
			}
			kinds = append(kinds, k)
		case "round":
			L.step = st
			L.newRound()
			hits0 := L.h.nhits()
			wasSleep := L.state == "sleep"
			switch {
			case L.state == "new":
				started = true
				go func() {
					L.h.mu.Lock()
					L.h.gid = loopGoid()
					L.h.mu.Unlock()
					err := bm.CfHandler()
					L.h.mu.Lock()
					L.h.finished = true
					L.h.ferr = err
					L.h.mu.Unlock()
				}()
				for i := 0; i < 5000; i++ {
					L.h.mu.Lock()
					g := L.h.gid
					L.h.mu.Unlock()
					if g != "" {
						break
					}
					time.Sleep(time.Millisecond)
				}
			case strings.HasPrefix(L.state, "gate:"):
				L.h.open()
			case L.state == "idle":
				bm.WakeHeaderWaiters()
			}
			L.state = L.waitQuiescent(hits0, wasSleep)
			if os.Getenv("C03_DEBUG") != "" {
				fmt.Fprintf(os.Stderr, "ROUND step=%d state=%s hits0=%d hits=%d wasSleep=%v\n", si, L.state, hits0, L.h.nhits(), wasSleep)
			}
			if L.state == "hang" {
				L.fail = &c.ImplFailure{Case: fmt.Sprint(sp.ID), Step: si, What: "cfHandler reaches no blocking point within the deadline (state " + L.h.probe() + ")", Tag: "c03-loop-hang"}
				return resOf(res, L)
			}
			L.mu.Lock()
			rr := L.rr
			cls := 0
			switch {
			case L.state == "done":
				cls = 6
			case L.state == "gate:decide":
				cls = 3
			case L.state == "sleep":
				cls = 1
			case rr.tipBcast:
				cls = 4
			}
			rb := sortedSet(L.bans[rr.banFrom:])
			ft, fh, ferr := e.FS.ChainTip()
			fts := "None"
			if ferr == nil {
				fts = optPair(true, L.in.tok(*ft), int64(fh))
			}
			env, rfilt := "[]", "[]"
			if len(rr.w.raws) > 0 {
				env = rr.w.envTerm()
				rfilt = rr.w.filtTerm()
			}
			// which of the agreeing lists did the handler take ("for _, l :=
			// range checkpoints { return l }")? read off the requests of the
			// fetch: they end at len(list)*1000
			hint := int64(0)
			if cls == 3 {
				nowBanned := map[int64]bool{}
				for _, b := range rb {
					nowBanned[b] = true
				}
				var ids []int64
				for id := range L.cpLens {
					ids = append(ids, id)
				}
				sort.Slice(ids, func(i, j int) bool { return ids[i] < ids[j] })
				for _, id := range ids {
					n := L.cpLens[id]
					if nowBanned[id] || n == 0 {
						continue
					}
					if (rr.queried && n == rr.maxStop/1000) || (!rr.queried && n <= L.ftipNow/1000) {
						hint = id
						break
					}
				}
			}
			if ferr == nil {
				L.ftipNow = int(fh)
			}
			evs = append(evs, fmt.Sprintf("RRound %s\n   %s\n   %s %s %d\n   %s\n   (%d, %s, %s, %s)",
				c.List(rr.cpans), c.List(rr.w.raws), env, rfilt, hint, c.List(rr.arrs),
				cls, rr.asked, zlist(rb), fts))
			L.mu.Unlock()
			nrounds++
			if cls == 1 {
				nfruit++
			}
			if nfruit >= loopMaxPauses {
				// every failed attempt costs a 3 s pause of the real handler
				kinds = append(kinds, fmt.Sprintf("%d", cls))
				goto finish
			}
			if nfruit < loopMaxPauses || cls != 1 {
				kinds = append(kinds, fmt.Sprintf("%d", cls))
			}
			if cls == 6 {
				L.h.mu.Lock()
				ferr := L.h.ferr
				L.h.mu.Unlock()
				if ferr != nil {
					L.fail = &c.ImplFailure{Case: fmt.Sprint(sp.ID), Step: si, What: "cfHandler: " + ferr.Error(), Tag: "c03-loop-panic"}
				}
			}
		}
	}
finish:
	ch0 := fx.big.upTo(sp.Tip)
	var connIDs []int64
	for _, id := range conn {
		connIDs = append(connIDs, id)
	}
	hard := "[]"
	if sp.HardKind != "" {
		hard = fmt.Sprintf("[(%d, %d)]", sp.HardAt, L.in.tok(*hardValue(sp)))
	}
	res.term = fmt.Sprintf("CL %s\n  %s %s %s %d %s %s %s\n  [\n  %s]", L.in.htab(),
		runsOf(L.in.toks(ch0.hashes)), runsOf(L.in.toks(fx.big.fheaders[:sp.FTip+1])), runsOf(L.in.toks(ch0.fhashes)),
		L.in.tok(fx.gfh), hard, zlist(connIDs), zlist(sp.Honest), strings.Join(evs, ";\n  "))
	res.sp.Obs = strings.Join(kinds, "")
	res.sig = fmt.Sprintf("L:t%d:f%d:p%d:l%s:%s", sp.Tip/1000, sp.FTip/500, len(sp.Peers), lieSig(sp), strings.Join(kinds, ""))
	res.nontriv = strings.ContainsAny(res.sp.Obs, "rR") && nrounds >= 2
	return resOf(res, L)
}

func resOf(res result, L *loopRun) result {
	if L.fail != nil {
		res.fail = L.fail
	}
	return res
}

// filtTerm: the true filter token of every height that has a row.
func (w *world) filtTerm() string {
	var filt []string
	hs := append([]int{}, w.envOrder...)
	sort.Ints(hs)
	for _, h := range hs {
		filt = append(filt, fmt.Sprintf("(%d, %d)", h, filterTokBase+w.in.tok(w.ch.fhashes[h])))
	}
	return c.List(filt)
}

// ---------------------------------------------------------------------
// Generation.

func loopPeers(r *rand.Rand, tip int) ([]*peerSpec, []int64) {
	n := 2 + r.Intn(3)
	var peers []*peerSpec
	honest := []int64{1}
	peers = append(peers, &peerSpec{ID: 1, HdrMode: "ok", CpMode: "own"})
	for i := 1; i < n; i++ {
		p := &peerSpec{ID: int64(i + 1), HdrMode: "ok", CpMode: "own"}
		switch r.Intn(7) {
		case 6: // lazy: a correct but truncated checkpoint list (0, 1 or n-1 entries)
			switch r.Intn(3) {
			case 0:
				p.CpMode = "empty"
			case 1:
				p.CpMode, p.CpArg = "short", 1
			default:
				p.CpMode, p.CpArg = "short", tip/1000-1
				if p.CpArg < 1 {
					p.CpMode = "empty"
				}
			}
		case 0, 1: // honest
			honest = append(honest, p.ID)
		case 2: // lies in a filter hash, refutable by the filter it serves
			p.Lies = []lie{{Height: 1 + r.Intn(tip), Kind: []string{"inconsistent", "omit", "omit-inconsistent", "silent"}[r.Intn(4)]}}
		case 3: // lies in its checkpoint list only
			p.CpMode = "lie"
			p.CpArg = r.Intn(1 + tip/1000)
		case 4:
			p.CpMode = "lie"
			p.CpArg = r.Intn(1 + tip/1000)
			p.Lies = []lie{{Height: 1 + r.Intn(tip), Kind: "inconsistent"}}
		default:
			p.HdrMode = []string{"silent", "short", "wrongstop"}[r.Intn(3)]
		}
		peers = append(peers, p)
	}
	return peers, honest
}

func genL(id int, seed int64, r *rand.Rand) *spec {
	sp := &spec{ID: id, Seed: seed, Family: "L"}
	sp.Tip = []int{1001, 1002, 1500, 2000, 2001, 2003, 2600, 3000, 3001}[r.Intn(9)]
	switch r.Intn(3) {
	case 0:
		sp.FTip = 0
	case 1:
		sp.FTip = r.Intn(sp.Tip - 999)
	default:
		sp.FTip = (r.Intn(sp.Tip/1000+1) * 1000)
		if sp.FTip+1000 > sp.Tip {
			sp.FTip = 0
		}
	}
	sp.Peers, sp.Honest = loopPeers(r, sp.Tip)
	tip := sp.Tip
	branch := 1
	nsteps := 3 + r.Intn(3)
	fetches := []string{"all", "all", "none", "first", "rev", "liars", "skipfirst"}
	sleeps := 0
	for i := 0; i < nsteps; i++ {
		f := fetches[r.Intn(len(fetches))]
		if i == 0 && r.Intn(2) == 0 {
			f = "none"
		}
		sp.Steps = append(sp.Steps, loopStep{Kind: "round", Fetch: f})
		if r.Intn(3) != 0 {
			last := (tip / 1000) * 1000
			st := loopStep{Kind: "chain", Branch: branch}
			branch++
			switch r.Intn(5) {
			case 0: // growth
				st.Height = -1
				st.N = 1 + r.Intn(4)
			case 1, 2: // reorganisation across the last checkpoint height
				d := tip - last + 1 + r.Intn(3)
				st.Height = tip - d
				st.N = d + 1 + r.Intn(2)
			case 3: // shallow reorganisation
				d := 1 + r.Intn(3)
				st.Height = tip - d
				st.N = d + 1 + r.Intn(3)
			default: // deep
				d := 1 + r.Intn(60)
				st.Height = tip - d
				st.N = d + 1 + r.Intn(5)
			}
			if st.Height >= 0 && st.Height < sp.FTip/1+0 && st.Height < 1 {
				st.Height = 1
			}
			st.Fresh = r.Intn(4) == 0
			if st.Height >= 0 {
				tip = st.Height + st.N
			} else {
				tip += st.N
			}
			sp.Steps = append(sp.Steps, st)
		}
		_ = sleeps
	}
	sp.Steps = append(sp.Steps, loopStep{Kind: "round", Fetch: "all"})
	// peers that are not honest may connect late or leave
	var others []int64
	for _, p := range sp.Peers {
		h := false
		for _, id := range sp.Honest {
			h = h || id == p.ID
		}
		if !h {
			others = append(others, p.ID)
		}
	}
	if len(others) > 0 && r.Intn(3) == 0 {
		q := others[r.Intn(len(others))]
		at := 1 + r.Intn(len(sp.Steps)-1)
		kind := "leave"
		if r.Intn(2) == 0 {
			kind = "connect"
			for _, p := range sp.Peers {
				if p.ID != q {
					sp.Conn = append(sp.Conn, p.ID)
				}
			}
		}
		steps := append([]loopStep{}, sp.Steps[:at]...)
		steps = append(steps, loopStep{Kind: kind, Peer: q})
		sp.Steps = append(steps, sp.Steps[at:]...)
	}
	return sp
}

// mainLoop is the entry point of "c03 -loop" (an extra harness of C03).
func mainLoop(a c.Args, replay *spec) {
	rep := c.NewReport("C03", a)
	base := filepath.Join(a.Out, "stores")
	os.RemoveAll(base)
	os.MkdirAll(base, 0o755)
	defer os.RemoveAll(base)
	fx.setup(base)
	n := 18
	if a.Tier == "thorough" {
		n = 400
		loopMaxPauses = 5
	}
	var specs []*spec
	if replay != nil {
		specs = append(specs, replay)
	} else {
		files, _ := filepath.Glob("../corpus/C03/loop-*.json")
		sort.Strings(files)
		for i, f := range files {
			var sp spec
			c.ReadJSON(f, &sp)
			sp.Obs, sp.Sig = "", ""
			if sp.ID == 0 {
				sp.ID = 900 + i
			}
			specs = append(specs, &sp)
		}
		for id := 1; id <= n; id++ {
			specs = append(specs, genL(id, a.Seed, c.Rng(a.Seed, 7000000+id)))
		}
	}
	for _, sp := range specs {
		if sp.HardKind != "" {
			chainsync.VerifSetFilterHeaderCheckpoints(caseParams(sp.ID).Net,
				map[uint32]*chainhash.Hash{uint32(sp.HardAt): hardValue(sp)})
		}
	}
	results := make([]result, len(specs))
	var wg sync.WaitGroup
	sem := make(chan struct{}, a.Workers)
	for i := range specs {
		wg.Add(1)
		sem <- struct{}{}
		go func(i int) {
			defer wg.Done()
			defer func() { <-sem }()
			results[i] = runLoopSpec(specs[i])
		}(i)
	}
	wg.Wait()
	distinct := c.Signatures{}
	var terms []string
	for i := range results {
		rs := &results[i]
		rs.sp.Sig = rs.sig
		p := filepath.Join(a.Out, fmt.Sprintf("hist-%d.json", rs.sp.ID))
		c.WriteJSON(p, rs.sp)
		rep.Cases[fmt.Sprint(rs.sp.ID)] = p
		rep.Histogram["family:L"]++
		if rs.fail != nil {
			rep.ImplFailures = append(rep.ImplFailures, *rs.fail)
		}
		if rs.term != "" {
			terms = append(terms, fmt.Sprintf("(%d, %s)", rs.sp.ID, rs.term))
		}
		if rs.nontriv {
			distinct.Add(rs.sig)
		}
		for _, ch := range rs.sp.Obs {
			rep.Histogram["step:"+string(ch)]++
		}
		for _, pz := range rs.sp.Peers {
			for _, l := range pz.Lies {
				rep.Histogram["lie:"+l.Kind]++
			}
			rep.Histogram["cp_mode:"+pz.CpMode]++
			rep.Histogram["hdr_mode:"+pz.HdrMode]++
		}
	}
	const perShard = 3
	shard := 0
	for start := 0; start < len(terms); start += perShard {
		end := start + perShard
		if end > len(terms) {
			end = len(terms)
		}
		var sb strings.Builder
		sb.WriteString("From Coq Require Import ZArith List.\nFrom Verif Require Import S1.Model C03.Model C03.Spec C03.Replay C03.Loop C03.ReplayLoop.\nImport ListNotations.\nOpen Scope Z_scope.\n")
		sb.WriteString("Definition cases : list (Z * lcase) := [\n")
		sb.WriteString(strings.Join(terms[start:end], ";\n"))
		sb.WriteString("].\nDefinition R := Eval vm_compute in (run_lcases cases).\nSet Printing Width 1000000.\nSet Printing Depth 1000000.\nPrint R.\n")
		c.WriteFile(filepath.Join(a.Out, fmt.Sprintf("cases_%d.v", shard)), sb.String())
		shard++
	}
	rep.Evaluations = len(results)
	rep.DistinctNontrivial = len(distinct)
	rep.Rule = "L: the real cfHandler goroutine against 2-4 scripted peers (honest; lying in a filter hash, in the checkpoint list, or both; silent or malformed cfheaders) on real stores, 3-6 rounds with complete / partial / failed / reordered checkpointed fetches and chain events between the rounds (growth, reorganisations of depth 1-60, reorganisations across the last cached checkpoint height); step codes: 0 idle 1 failed attempt 3 checkpointed fetch 4 at-tip fetch 6 panic, g growth, r reorganisation, R reorganisation across the last checkpoint height, c/l connect/leave; non-trivial = at least two rounds and a reorganisation; distinct = distinct signature (sizes, lie kinds, sequence of step codes)"
	for i := 0; i < len(results) && len(rep.Samples) < 3; i += 1 + len(results)/3 {
		rep.Samples = append(rep.Samples, results[i].sp)
	}
	rep.Write(a.Out)
}

func runLoopSpec(sp *spec) (res result) {
	done := make(chan result, 1)
	go func() {
		defer func() {
			if r := recover(); r != nil {
				done <- result{sp: *sp, fail: &c.ImplFailure{Case: fmt.Sprint(sp.ID),
					What: fmt.Sprintf("harness/implementation panic: %v", r), Tag: "c03-panic"}}
			}
		}()
		done <- runL(sp)
	}()
	select {
	case res = <-done:
	case <-time.After(120 * time.Second):
		res = result{sp: *sp, fail: &c.ImplFailure{Case: fmt.Sprint(sp.ID), What: "case did not finish in 120 s", Tag: "c03-hang"}}
	}
	return res
}
