package main

import (
	"fmt"
	"math/rand"
	"strings"
	"sync"
	"time"

	"github.com/btcsuite/btcd/btcutil/v2"
	"github.com/btcsuite/btcd/btcutil/v2/gcs"
	"github.com/btcsuite/btcd/btcutil/v2/gcs/builder"
	"github.com/btcsuite/btcd/chainhash/v2"
	"github.com/btcsuite/btcd/txscript/v2"
	"github.com/btcsuite/btcd/wire/v2"
	"github.com/lightninglabs/neutrino"

	c "verifharness/internal/common"
	"verifharness/internal/storeh"
)

var zeroHash chainhash.Hash

// ---------------------------------------------------------------------
// Tokens and the table of the hash-chaining function.

type hent struct{ fh, prev, out int64 }

// interner assigns integer tokens to 32-byte values in first-seen order (the
// all-zero hash is token 0) and records every evaluation of
// H(fh, prev) = dsha256(fh || prev) that the scenario makes.
type interner struct {
	base  *interner
	m     map[chainhash.Hash]int64
	next  int64
	hents []hent
	hseen map[[2]int64]bool
}

func newInterner(base *interner, first int64) *interner {
	return &interner{base: base, m: map[chainhash.Hash]int64{}, next: first,
		hseen: map[[2]int64]bool{}}
}

func (in *interner) tok(h chainhash.Hash) int64 {
	if h == zeroHash {
		return 0
	}
	if in.base != nil {
		if t, ok := in.base.m[h]; ok {
			return t
		}
	}
	if t, ok := in.m[h]; ok {
		return t
	}
	t := in.next
	in.next++
	in.m[h] = t
	return t
}

func (in *interner) toks(hs []chainhash.Hash) []int64 {
	out := make([]int64, len(hs))
	for i := range hs {
		out[i] = in.tok(hs[i])
	}
	return out
}

func hstep(fh, prev chainhash.Hash) chainhash.Hash {
	return chainhash.DoubleHashH(append(append([]byte{}, fh[:]...), prev[:]...))
}

// chain computes the headers derived from prev and the filter hashes and
// records the evaluations.
func (in *interner) chain(prev chainhash.Hash, hashes []chainhash.Hash) []chainhash.Hash {
	for i := range hashes {
		in.tok(hashes[i])
	}
	out := make([]chainhash.Hash, len(hashes))
	p := prev
	for i := range hashes {
		n := hstep(hashes[i], p)
		k := [2]int64{in.tok(hashes[i]), in.tok(p)}
		seen := in.hseen[k]
		if !seen && in.base != nil {
			seen = in.base.hseen[k]
		}
		if !seen {
			in.hseen[k] = true
			in.hents = append(in.hents, hent{k[0], k[1], in.tok(n)})
		} else {
			in.tok(n)
		}
		out[i] = n
		p = n
	}
	return out
}

func (in *interner) chainPtr(prev chainhash.Hash, hashes []*chainhash.Hash) []chainhash.Hash {
	hs := make([]chainhash.Hash, len(hashes))
	for i := range hashes {
		hs[i] = *hashes[i]
	}
	return in.chain(prev, hs)
}

// htab prints the table as runs.
func (in *interner) htab() string {
	var all []hent
	if in.base != nil {
		all = append(all, in.base.hents...)
	}
	all = append(all, in.hents...)
	var items []string
	for i := 0; i < len(all); {
		j := i + 1
		for j < len(all) && all[j].fh == all[i].fh+int64(j-i) &&
			all[j].prev == all[i].prev+int64(j-i) && all[j].out == all[i].out+int64(j-i) {
			j++
		}
		items = append(items, fmt.Sprintf("(%d, %d, %d, %d)", all[i].fh, all[i].prev, all[i].out, j-i))
		i = j
	}
	return c.List(items)
}

// runsOf prints a token list as (start, length) runs.
func runsOf(t []int64) string {
	var items []string
	for i := 0; i < len(t); {
		j := i + 1
		for j < len(t) && t[j] == t[i]+int64(j-i) {
			j++
		}
		items = append(items, fmt.Sprintf("(%s, %d)", c.Z(t[i]), j-i))
		i = j
	}
	return c.List(items)
}

func zlist(t []int64) string { return c.Ints(t) }

func optPair(ok bool, a, b int64) string {
	if !ok {
		return "None"
	}
	return c.Some(c.Pair(c.Z(a), c.Z(b)))
}

// ---------------------------------------------------------------------
// Synthetic chain with real basic filters.

type chainT struct {
	blocks   []*wire.MsgBlock
	hashes   []chainhash.Hash
	filters  []*gcs.Filter
	fhashes  []chainhash.Hash // filter hash by height
	fheaders []chainhash.Hash // filter header by height
	byHash   map[chainhash.Hash]int
	prevs    [][][]byte // scripts of the outputs spent, by height (known to the harness only)
}

func randScript(r *rand.Rand, kind int) []byte {
	switch kind {
	case 0: // P2WPKH
		s := make([]byte, 22)
		r.Read(s)
		s[0], s[1] = 0x00, 0x14
		return s
	case 1: // P2PKH
		s := make([]byte, 25)
		r.Read(s)
		s[0], s[1], s[2], s[23], s[24] = 0x76, 0xa9, 0x14, 0x88, 0xac
		return s
	default: // OP_RETURN
		s := make([]byte, 2+r.Intn(20))
		r.Read(s)
		s[0] = 0x6a
		s[1] = byte(len(s) - 2)
		return s
	}
}

// mkBlock makes a block on prev: a coinbase and ntx further transactions.
func mkBlock(r *rand.Rand, prev chainhash.Hash, height int, ntx int, oprets bool) *wire.MsgBlock {
	b := &wire.MsgBlock{Header: wire.BlockHeader{Version: 4, PrevBlock: prev, Bits: 0x207fffff,
		Nonce: uint32(height), Timestamp: time.Unix(1700000000+int64(height)*600, 0)}}
	r.Read(b.Header.MerkleRoot[:])
	cb := wire.NewMsgTx(2)
	cb.AddTxIn(wire.NewTxIn(wire.NewOutPoint(&chainhash.Hash{}, 0xffffffff), []byte{byte(height), byte(height >> 8), 1}, nil))
	cb.AddTxOut(wire.NewTxOut(50, randScript(r, r.Intn(2))))
	b.AddTransaction(cb)
	for i := 0; i < ntx; i++ {
		tx := wire.NewMsgTx(2)
		nin := 1 + r.Intn(2)
		for j := 0; j < nin; j++ {
			var h chainhash.Hash
			r.Read(h[:])
			tx.AddTxIn(wire.NewTxIn(wire.NewOutPoint(&h, uint32(r.Intn(3))), []byte{1, 2, 3}, nil))
		}
		nout := 1 + r.Intn(3)
		for j := 0; j < nout; j++ {
			k := r.Intn(2)
			if oprets && r.Intn(3) == 0 {
				k = 2
			}
			tx.AddTxOut(wire.NewTxOut(int64(1+r.Intn(1000)), randScript(r, k)))
		}
		b.AddTransaction(tx)
	}
	return b
}

// newChain builds n blocks on the simnet genesis.  gfh is the genesis filter
// header as stored by a fresh filter header store.  xseed seeds the
// decoration of the blocks (unusual output scripts, witness inputs), force
// names script kinds that the block of a height must contain.
func newChain(r *rand.Rand, n int, gfh chainhash.Hash, dense bool, xseed int64, force map[int][]string) *chainT {
	ch := &chainT{byHash: map[chainhash.Hash]int{}}
	g := storeh.Params.GenesisBlock
	ch.add(g, nil)
	for h := 1; h <= n; h++ {
		ntx := 0
		if dense || r.Intn(4) == 0 {
			ntx = 1 + r.Intn(3)
		}
		b := mkBlock(r, ch.hashes[h-1], h, ntx, true)
		xr := rand.New(rand.NewSource(xseed*1000003 + int64(h)))
		prevs := decorate(b, xr, dense, force[h])
		ch.add(b, prevs)
	}
	if ch.fheaders[0] != gfh {
		panic("genesis filter header differs from the store's")
	}
	return ch
}

func (ch *chainT) add(b *wire.MsgBlock, prevs [][]byte) {
	h := len(ch.blocks)
	f, err := builder.BuildBasicFilter(b, prevs)
	if err != nil {
		panic(err)
	}
	fh, err := builder.GetFilterHash(f)
	if err != nil {
		panic(err)
	}
	prev := zeroHash
	if h > 0 {
		prev = ch.fheaders[h-1]
	}
	ch.blocks = append(ch.blocks, b)
	bh := b.BlockHash()
	ch.hashes = append(ch.hashes, bh)
	ch.byHash[bh] = h
	ch.filters = append(ch.filters, f)
	ch.fhashes = append(ch.fhashes, fh)
	ch.fheaders = append(ch.fheaders, hstep(fh, prev))
	ch.prevs = append(ch.prevs, prevs)
}

// truncated copy (shares the prefix)
func (ch *chainT) upTo(h int) *chainT {
	c2 := &chainT{byHash: map[chainhash.Hash]int{}}
	c2.blocks = append(c2.blocks, ch.blocks[:h+1]...)
	c2.hashes = append(c2.hashes, ch.hashes[:h+1]...)
	c2.filters = append(c2.filters, ch.filters[:h+1]...)
	c2.fhashes = append(c2.fhashes, ch.fhashes[:h+1]...)
	c2.fheaders = append(c2.fheaders, ch.fheaders[:h+1]...)
	c2.prevs = append(c2.prevs, ch.prevs[:h+1]...)
	for i, x := range c2.hashes {
		c2.byHash[x] = i
	}
	return c2
}

// ---------------------------------------------------------------------
// Unusual scripts and witness inputs.

const maxScriptSize = 10000 // txscript.MaxScriptSize

// exoticScript makes an output script of an unusual kind:
//   unparse  does not parse (a data push running past the end), first byte not OP_RETURN
//   big      larger than txscript.MaxScriptSize, parses
//   bigbad   larger than txscript.MaxScriptSize and does not parse
//   empty    no script
//   opretx   starts with OP_RETURN and does not parse
//   p2tr     pay-to-taproot
//   nonstd   a short non-standard script
func exoticScript(r *rand.Rand, kind string) []byte {
	switch kind {
	case "unparse":
		switch r.Intn(3) {
		case 0: // OP_PUSHDATA1 announcing more than there is
			s := make([]byte, 2+4+r.Intn(12))
			r.Read(s)
			s[0], s[1] = 0x4c, byte(0x40+r.Intn(0x80))
			return s
		case 1: // direct push of 32 bytes, a few present
			s := make([]byte, 1+3+r.Intn(20))
			r.Read(s)
			s[0] = 0x20
			return s
		default: // a P2PKH prefix and then OP_PUSHDATA4 without its length
			s := make([]byte, 25)
			r.Read(s)
			s[0], s[1], s[2] = 0x76, 0xa9, 0x14
			return append(s[:23], 0x4e, 0xff)
		}
	case "big", "bigbad":
		n := maxScriptSize + 1 + r.Intn(200)
		s := make([]byte, n)
		for i := range s {
			s[i] = 0x61 // OP_NOP
		}
		s[0] = 0x08
		r.Read(s[1:9])
		if kind == "bigbad" {
			s[n-1] = 0x4c // OP_PUSHDATA1 without length
		}
		return s
	case "empty":
		return []byte{}
	case "opretx":
		s := make([]byte, 3+r.Intn(6))
		r.Read(s)
		s[0], s[1], s[2] = 0x6a, 0x4c, 0xf0
		return s
	case "p2tr":
		s := make([]byte, 34)
		r.Read(s)
		s[0], s[1] = 0x51, 0x20
		return s
	case "opret":
		return randScript(r, 2)
	default: // nonstd
		return [][]byte{{0x51}, {0x00}, {0x51, 0x87}, {0xac}}[r.Intn(4)]
	}
}

var exoticKinds = []string{"unparse", "unparse", "big", "bigbad", "empty", "opretx", "p2tr", "nonstd"}

func scriptParses(s []byte) bool {
	t := txscript.MakeScriptTokenizer(0, s)
	for t.Next() {
	}
	return t.Err() == nil
}

func isExotic(s []byte) bool {
	return len(s) > 0 && s[0] != 0x6a && (len(s) > maxScriptSize || !scriptParses(s))
}

// witnessInput rewrites the input as a witness spend and returns the script
// of the output spent ("" kinds: wpkh, wsh, nested, tr, badsig).
func witnessInput(r *rand.Rand, in *wire.TxIn, kind string) []byte {
	rnd := func(n int) []byte { b := make([]byte, n); r.Read(b); return b }
	pub := func() []byte { b := rnd(33); b[0] = 0x02 + byte(r.Intn(2)); return b }
	derived := func() []byte {
		pk, err := txscript.ComputePkScript(in.SignatureScript, in.Witness)
		if err != nil {
			return nil
		}
		return pk.Script()
	}
	switch kind {
	case "wpkh":
		in.SignatureScript = nil
		in.Witness = wire.TxWitness{rnd(71), pub()}
		return derived()
	case "wsh":
		in.SignatureScript = nil
		in.Witness = wire.TxWitness{rnd(8), rnd(20 + r.Intn(30))}
		return derived()
	case "nested":
		in.SignatureScript = append([]byte{0x16, 0x00, 0x14}, rnd(20)...)
		in.Witness = wire.TxWitness{rnd(71), pub()}
		return derived()
	case "tr":
		// key spend of a taproot output: ComputePkScript takes it for P2WSH,
		// the script it derives is in no honest filter
		in.SignatureScript = nil
		in.Witness = wire.TxWitness{rnd(64)}
		return exoticScript(r, "p2tr")
	default: // badsig: a witness next to a signature script that is not push-only
		in.Witness = wire.TxWitness{rnd(71), pub()}
		return randScript(r, 1)
	}
}

var witnessKinds = []string{"wpkh", "wpkh", "wsh", "nested", "tr", "badsig"}

// decorate adds unusual output scripts and witness inputs to a block and
// returns the scripts of the outputs its inputs spend (for the true filter).
func decorate(b *wire.MsgBlock, xr *rand.Rand, dense bool, force []string) [][]byte {
	if len(force) > 0 && len(b.Transactions) < 2 {
		tx := wire.NewMsgTx(2)
		var h chainhash.Hash
		xr.Read(h[:])
		tx.AddTxIn(wire.NewTxIn(wire.NewOutPoint(&h, 0), []byte{1, 2, 3}, nil))
		tx.AddTxOut(wire.NewTxOut(7, randScript(xr, 0)))
		b.AddTransaction(tx)
	}
	nonCb := b.Transactions[1:]
	pEx, pCb, pWit := 25, 10, 20
	if dense {
		pEx, pCb, pWit = 45, 20, 35
	}
	if len(nonCb) > 0 && xr.Intn(100) < pEx {
		for k := 1 + xr.Intn(2); k > 0; k-- {
			tx := nonCb[xr.Intn(len(nonCb))]
			tx.AddTxOut(wire.NewTxOut(int64(1+xr.Intn(100)), exoticScript(xr, exoticKinds[xr.Intn(len(exoticKinds))])))
		}
	}
	if xr.Intn(100) < pCb {
		kind := "opret" // witness commitment
		if xr.Intn(3) == 0 {
			kind = exoticKinds[xr.Intn(len(exoticKinds))]
		}
		b.Transactions[0].AddTxOut(wire.NewTxOut(0, exoticScript(xr, kind)))
	}
	dupPrev := false
	for _, k := range force {
		switch {
		case k == "dup": // the same script twice in one transaction
			s := randScript(xr, 0)
			nonCb[0].AddTxOut(wire.NewTxOut(5, s))
			nonCb[0].AddTxOut(wire.NewTxOut(6, s))
		case k == "dupx": // the same script in two transactions (coinbase and another)
			s := randScript(xr, 1)
			b.Transactions[0].AddTxOut(wire.NewTxOut(0, s))
			nonCb[len(nonCb)-1].AddTxOut(wire.NewTxOut(5, s))
			nonCb[0].AddTxOut(wire.NewTxOut(6, s))
		case k == "dupmix": // repeated script next to empty and repeated OP_RETURN scripts
			s := randScript(xr, 0)
			o := randScript(xr, 2)
			nonCb[0].AddTxOut(wire.NewTxOut(5, s))
			nonCb[0].AddTxOut(wire.NewTxOut(0, o))
			nonCb[0].AddTxOut(wire.NewTxOut(0, []byte{}))
			nonCb[0].AddTxOut(wire.NewTxOut(7, s))
			nonCb[0].AddTxOut(wire.NewTxOut(0, o))
		case k == "dupprev": // an output pays the script of an output the block spends
			dupPrev = true
		case strings.HasPrefix(k, "cb-"):
			b.Transactions[0].AddTxOut(wire.NewTxOut(0, exoticScript(xr, k[3:])))
		case !strings.HasPrefix(k, "wit-"):
			nonCb[0].AddTxOut(wire.NewTxOut(5, exoticScript(xr, k)))
		}
	}
	var prevs [][]byte
	for _, tx := range nonCb {
		for _, in := range tx.TxIn {
			if xr.Intn(100) < pWit {
				if p := witnessInput(xr, in, witnessKinds[xr.Intn(len(witnessKinds))]); len(p) > 0 {
					prevs = append(prevs, p)
				}
			}
		}
	}
	for _, k := range force {
		if strings.HasPrefix(k, "wit-") {
			if p := witnessInput(xr, nonCb[0].TxIn[0], k[4:]); len(p) > 0 {
				prevs = append(prevs, p)
			}
		}
	}
	if dupPrev {
		if p := witnessInput(xr, nonCb[0].TxIn[0], "wpkh"); len(p) > 0 {
			prevs = append(prevs, p)
			nonCb[0].AddTxOut(wire.NewTxOut(8, p))
			nonCb[0].AddTxOut(wire.NewTxOut(9, p))
		}
	}
	// now and then a block pays a script it already pays (a filter holds
	// every script once)
	if len(nonCb) > 0 && xr.Intn(100) < 12 {
		var cands [][]byte
		for _, tx := range b.Transactions {
			for _, o := range tx.TxOut {
				if len(o.PkScript) > 0 && o.PkScript[0] != 0x6a {
					cands = append(cands, o.PkScript)
				}
			}
		}
		if len(cands) > 0 {
			s := cands[xr.Intn(len(cands))]
			nonCb[xr.Intn(len(nonCb))].AddTxOut(wire.NewTxOut(int64(1+xr.Intn(50)), s))
		}
	}
	return prevs
}

// ---------------------------------------------------------------------
// The abstract block of the Coq model and the ground truth of a filter.

type absBlock struct {
	term    string
	scripts [][]byte // token t (>= 1) is scripts[t-1]
}

var absCache sync.Map // *wire.MsgBlock -> *absBlock

func absOf(b *wire.MsgBlock) *absBlock {
	if a, ok := absCache.Load(b); ok {
		return a.(*absBlock)
	}
	a := &absBlock{}
	toks := map[string]int64{}
	tok := func(s []byte) int64 {
		if t, ok := toks[string(s)]; ok {
			return t
		}
		a.scripts = append(a.scripts, s)
		toks[string(s)] = int64(len(a.scripts))
		return int64(len(a.scripts))
	}
	var txs []string
	for _, tx := range b.Transactions {
		var outs, ins []string
		for _, o := range tx.TxOut {
			if len(o.PkScript) == 0 {
				outs = append(outs, "(0, 0, -1, true)")
				continue
			}
			outs = append(outs, fmt.Sprintf("(%d, %d, %d, %s)", tok(o.PkScript), len(o.PkScript),
				o.PkScript[0], c.Bool(scriptParses(o.PkScript))))
		}
		for _, in := range tx.TxIn {
			switch {
			case len(in.Witness) == 0:
				ins = append(ins, "-1")
			default:
				pk, err := txscript.ComputePkScript(in.SignatureScript, in.Witness)
				if err != nil {
					ins = append(ins, "-2")
				} else {
					ins = append(ins, fmt.Sprint(tok(pk.Script())))
				}
			}
		}
		txs = append(txs, fmt.Sprintf("(%s, %s)", c.List(outs), c.List(ins)))
	}
	a.term = c.List(txs)
	absCache.Store(b, a)
	return a
}

// matched lists the tokens of the block's scripts the filter matches:
// gcs.Filter.Match on every script, without VerifyBasicBlockFilter.
func (a *absBlock) matched(f *gcs.Filter, b *wire.MsgBlock) string {
	bh := b.BlockHash()
	key := builder.DeriveKey(&bh)
	var ms []int64
	for i, s := range a.scripts {
		ok, err := f.Match(key, s)
		if err != nil {
			panic(err)
		}
		if ok {
			ms = append(ms, int64(i+1))
		}
	}
	return zlist(ms)
}

// ---------------------------------------------------------------------
// Doctored filters.

const (
	fTrue     = "true"
	fOmit     = "omit"     // leaves out one output script that must match
	fOmitX    = "omitx"    // leaves out an unparseable / oversized output script (if the block has one)
	fOmitCb   = "omitcb"   // leaves out an output script of the coinbase transaction
	fOmitPrev = "omitprev" // leaves out the script of a spent output (not refutable from the block)
	fExtra    = "extra"    // one more element (matches everything it must)
	fOpret    = "opret"    // also indexes the OP_RETURN outputs (old-style)
	fOtherKey = "otherkey" // built with a different key: nothing matches
	fEmpty    = "empty"    // no element at all
)

// the scripts BIP-158 indexes, by where they are
type scriptSets struct {
	cb, must, exotic, oprets [][]byte
}

func blockScripts(b *wire.MsgBlock) (ss scriptSets) {
	for i, tx := range b.Transactions {
		for _, o := range tx.TxOut {
			if len(o.PkScript) == 0 {
				continue
			}
			if o.PkScript[0] == 0x6a {
				ss.oprets = append(ss.oprets, o.PkScript)
				continue
			}
			if i == 0 {
				ss.cb = append(ss.cb, o.PkScript)
			} else {
				ss.must = append(ss.must, o.PkScript)
				if isExotic(o.PkScript) {
					ss.exotic = append(ss.exotic, o.PkScript)
				}
			}
		}
	}
	return
}

func without(l [][]byte, i int) [][]byte {
	out := append([][]byte{}, l[:i]...)
	return append(out, l[i+1:]...)
}

// withoutScript removes every occurrence of a script (a filter is a set of
// scripts: omitting one means omitting all its occurrences).
func withoutScript(l [][]byte, s []byte) [][]byte {
	var out [][]byte
	for _, x := range l {
		if string(x) != string(s) {
			out = append(out, x)
		}
	}
	return out
}

func (ch *chainT) doctored(kind string, h int, salt int) *gcs.Filter {
	return doctoredB(kind, ch.blocks[h], ch.prevs[h], ch.filters[h], salt)
}

func doctoredB(kind string, b *wire.MsgBlock, prevs [][]byte, truth *gcs.Filter, salt int) *gcs.Filter {
	bh := b.BlockHash()
	ss := blockScripts(b)
	cb, must := ss.cb, ss.must
	var extra [][]byte
	key := builder.DeriveKey(&bh)
	if kind == fOmitX && len(ss.exotic) == 0 {
		kind = fOmit
	}
	if kind == fOmit && len(must) == 0 {
		kind = fOmitCb
	}
	switch kind {
	case fTrue:
		return truth
	case fOmit:
		drop := must[salt%len(must)]
		must, cb, prevs = withoutScript(must, drop), withoutScript(cb, drop), withoutScript(prevs, drop)
		extra = append(extra, []byte{byte(salt), 7, 7})
	case fOmitX:
		drop := ss.exotic[salt%len(ss.exotic)]
		must, cb, prevs = withoutScript(must, drop), withoutScript(cb, drop), withoutScript(prevs, drop)
		extra = append(extra, []byte{byte(salt), 7, 7})
	case fOmitCb:
		if len(cb) == 0 {
			extra = append(extra, []byte{byte(salt), 9, 9, 9})
		} else {
			drop := cb[salt%len(cb)]
			must, cb, prevs = withoutScript(must, drop), withoutScript(cb, drop), withoutScript(prevs, drop)
			extra = append(extra, []byte{byte(salt), 7, 7})
		}
	case fOmitPrev:
		if len(prevs) == 0 {
			extra = append(extra, []byte{byte(salt), 9, 9, 9})
		} else {
			prevs = without(prevs, salt%len(prevs))
			extra = append(extra, []byte{byte(salt), 7, 7})
		}
	case fExtra:
		extra = append(extra, []byte{byte(salt), 8, 8, 8, 8})
	case fOpret:
		extra = append(extra, ss.oprets...)
		if len(ss.oprets) == 0 {
			extra = append(extra, []byte{byte(salt), 6, 6})
		}
	case fOtherKey:
		key[0] ^= 0x55
		key[3] ^= byte(salt + 1)
	case fEmpty:
		cb, must, prevs = nil, nil, nil
	}
	var data [][]byte
	data = append(data, cb...)
	data = append(data, must...)
	data = append(data, prevs...)
	data = append(data, extra...)
	f, err := gcs.BuildGCSFilter(builder.DefaultP, builder.DefaultM, key, data)
	if err != nil {
		panic(err)
	}
	return f
}

func filterHash(f *gcs.Filter) chainhash.Hash {
	h, err := builder.GetFilterHash(f)
	if err != nil {
		panic(err)
	}
	return h
}

// oracle row of a filter against a block: (token, hash token, verify)
const filterTokBase = int64(1) << 40

func oracleRow(in *interner, f *gcs.Filter, b *wire.MsgBlock) (int64, string) {
	h := filterHash(f)
	ft := filterTokBase + in.tok(h)
	n, err := neutrino.VerifyBasicBlockFilter(f, btcutil.NewBlock(b))
	v := "None"
	if err == nil {
		v = c.Some(c.Z(int64(n)))
	}
	return ft, fmt.Sprintf("(%d, %d, %s, %s)", ft, in.tok(h), v, absOf(b).matched(f, b))
}

func joinLines(items []string) string { return strings.Join(items, ";\n  ") }
