package main

import (
	"fmt"
	"math/rand"
	"strings"
	"time"

	"github.com/btcsuite/btcd/btcutil/v2"
	"github.com/btcsuite/btcd/btcutil/v2/gcs"
	"github.com/btcsuite/btcd/btcutil/v2/gcs/builder"
	"github.com/btcsuite/btcd/chainhash/v2"
	"github.com/btcsuite/btcd/wire/v2"
	"github.com/lightninglabs/neutrino"

	c "verifharness/internal/common"
	"verifharness/internal/storeh"
)

var zeroHash chainhash.Hash

// ---------------------------------------------------------------------
// Tokens and the table of the hash-chaining function.

type hent struct{ fh, prev, out int64 }

// interner assigns integer tokens to 32-byte values in first-seen order (the
// all-zero hash is token 0) and records every evaluation of
// H(fh, prev) = dsha256(fh || prev) that the scenario makes.
type interner struct {
	base  *interner
	m     map[chainhash.Hash]int64
	next  int64
	hents []hent
	hseen map[[2]int64]bool
}

func newInterner(base *interner, first int64) *interner {
	return &interner{base: base, m: map[chainhash.Hash]int64{}, next: first,
		hseen: map[[2]int64]bool{}}
}

func (in *interner) tok(h chainhash.Hash) int64 {
	if h == zeroHash {
		return 0
	}
	if in.base != nil {
		if t, ok := in.base.m[h]; ok {
			return t
		}
	}
	if t, ok := in.m[h]; ok {
		return t
	}
	t := in.next
	in.next++
	in.m[h] = t
	return t
}

func (in *interner) toks(hs []chainhash.Hash) []int64 {
	out := make([]int64, len(hs))
	for i := range hs {
		out[i] = in.tok(hs[i])
	}
	return out
}

func hstep(fh, prev chainhash.Hash) chainhash.Hash {
	return chainhash.DoubleHashH(append(append([]byte{}, fh[:]...), prev[:]...))
}

// chain computes the headers derived from prev and the filter hashes and
// records the evaluations.
func (in *interner) chain(prev chainhash.Hash, hashes []chainhash.Hash) []chainhash.Hash {
	for i := range hashes {
		in.tok(hashes[i])
	}
	out := make([]chainhash.Hash, len(hashes))
	p := prev
	for i := range hashes {
		n := hstep(hashes[i], p)
		k := [2]int64{in.tok(hashes[i]), in.tok(p)}
		seen := in.hseen[k]
		if !seen && in.base != nil {
			seen = in.base.hseen[k]
		}
		if !seen {
			in.hseen[k] = true
			in.hents = append(in.hents, hent{k[0], k[1], in.tok(n)})
		} else {
			in.tok(n)
		}
		out[i] = n
		p = n
	}
	return out
}

func (in *interner) chainPtr(prev chainhash.Hash, hashes []*chainhash.Hash) []chainhash.Hash {
	hs := make([]chainhash.Hash, len(hashes))
	for i := range hashes {
		hs[i] = *hashes[i]
	}
	return in.chain(prev, hs)
}

// htab prints the table as runs.
func (in *interner) htab() string {
	var all []hent
	if in.base != nil {
		all = append(all, in.base.hents...)
	}
	all = append(all, in.hents...)
	var items []string
	for i := 0; i < len(all); {
		j := i + 1
		for j < len(all) && all[j].fh == all[i].fh+int64(j-i) &&
			all[j].prev == all[i].prev+int64(j-i) && all[j].out == all[i].out+int64(j-i) {
			j++
		}
		items = append(items, fmt.Sprintf("(%d, %d, %d, %d)", all[i].fh, all[i].prev, all[i].out, j-i))
		i = j
	}
	return c.List(items)
}

// runsOf prints a token list as (start, length) runs.
func runsOf(t []int64) string {
	var items []string
	for i := 0; i < len(t); {
		j := i + 1
		for j < len(t) && t[j] == t[i]+int64(j-i) {
			j++
		}
		items = append(items, fmt.Sprintf("(%s, %d)", c.Z(t[i]), j-i))
		i = j
	}
	return c.List(items)
}

func zlist(t []int64) string { return c.Ints(t) }

func optPair(ok bool, a, b int64) string {
	if !ok {
		return "None"
	}
	return c.Some(c.Pair(c.Z(a), c.Z(b)))
}

// ---------------------------------------------------------------------
// Synthetic chain with real basic filters.

type chainT struct {
	blocks   []*wire.MsgBlock
	hashes   []chainhash.Hash
	filters  []*gcs.Filter
	fhashes  []chainhash.Hash // filter hash by height
	fheaders []chainhash.Hash // filter header by height
	byHash   map[chainhash.Hash]int
}

func randScript(r *rand.Rand, kind int) []byte {
	switch kind {
	case 0: // P2WPKH
		s := make([]byte, 22)
		r.Read(s)
		s[0], s[1] = 0x00, 0x14
		return s
	case 1: // P2PKH
		s := make([]byte, 25)
		r.Read(s)
		s[0], s[1], s[2], s[23], s[24] = 0x76, 0xa9, 0x14, 0x88, 0xac
		return s
	default: // OP_RETURN
		s := make([]byte, 2+r.Intn(20))
		r.Read(s)
		s[0] = 0x6a
		s[1] = byte(len(s) - 2)
		return s
	}
}

// mkBlock makes a block on prev: a coinbase and ntx further transactions.
func mkBlock(r *rand.Rand, prev chainhash.Hash, height int, ntx int, oprets bool) *wire.MsgBlock {
	b := &wire.MsgBlock{Header: wire.BlockHeader{Version: 4, PrevBlock: prev, Bits: 0x207fffff,
		Nonce: uint32(height), Timestamp: time.Unix(1700000000+int64(height)*600, 0)}}
	r.Read(b.Header.MerkleRoot[:])
	cb := wire.NewMsgTx(2)
	cb.AddTxIn(wire.NewTxIn(wire.NewOutPoint(&chainhash.Hash{}, 0xffffffff), []byte{byte(height), byte(height >> 8), 1}, nil))
	cb.AddTxOut(wire.NewTxOut(50, randScript(r, r.Intn(2))))
	b.AddTransaction(cb)
	for i := 0; i < ntx; i++ {
		tx := wire.NewMsgTx(2)
		nin := 1 + r.Intn(2)
		for j := 0; j < nin; j++ {
			var h chainhash.Hash
			r.Read(h[:])
			tx.AddTxIn(wire.NewTxIn(wire.NewOutPoint(&h, uint32(r.Intn(3))), []byte{1, 2, 3}, nil))
		}
		nout := 1 + r.Intn(3)
		for j := 0; j < nout; j++ {
			k := r.Intn(2)
			if oprets && r.Intn(3) == 0 {
				k = 2
			}
			tx.AddTxOut(wire.NewTxOut(int64(1+r.Intn(1000)), randScript(r, k)))
		}
		b.AddTransaction(tx)
	}
	return b
}

// newChain builds n blocks on the simnet genesis.  gfh is the genesis filter
// header as stored by a fresh filter header store.
func newChain(r *rand.Rand, n int, gfh chainhash.Hash, dense bool) *chainT {
	ch := &chainT{byHash: map[chainhash.Hash]int{}}
	g := storeh.Params.GenesisBlock
	ch.add(g)
	for h := 1; h <= n; h++ {
		ntx := 0
		if dense || r.Intn(4) == 0 {
			ntx = 1 + r.Intn(3)
		}
		ch.add(mkBlock(r, ch.hashes[h-1], h, ntx, true))
	}
	if ch.fheaders[0] != gfh {
		panic("genesis filter header differs from the store's")
	}
	return ch
}

func (ch *chainT) add(b *wire.MsgBlock) {
	h := len(ch.blocks)
	f, err := builder.BuildBasicFilter(b, nil)
	if err != nil {
		panic(err)
	}
	fh, err := builder.GetFilterHash(f)
	if err != nil {
		panic(err)
	}
	prev := zeroHash
	if h > 0 {
		prev = ch.fheaders[h-1]
	}
	ch.blocks = append(ch.blocks, b)
	bh := b.BlockHash()
	ch.hashes = append(ch.hashes, bh)
	ch.byHash[bh] = h
	ch.filters = append(ch.filters, f)
	ch.fhashes = append(ch.fhashes, fh)
	ch.fheaders = append(ch.fheaders, hstep(fh, prev))
}

// truncated copy (shares the prefix)
func (ch *chainT) upTo(h int) *chainT {
	c2 := &chainT{byHash: map[chainhash.Hash]int{}}
	c2.blocks = append(c2.blocks, ch.blocks[:h+1]...)
	c2.hashes = append(c2.hashes, ch.hashes[:h+1]...)
	c2.filters = append(c2.filters, ch.filters[:h+1]...)
	c2.fhashes = append(c2.fhashes, ch.fhashes[:h+1]...)
	c2.fheaders = append(c2.fheaders, ch.fheaders[:h+1]...)
	for i, x := range c2.hashes {
		c2.byHash[x] = i
	}
	return c2
}

// ---------------------------------------------------------------------
// Doctored filters.

const (
	fTrue     = "true"
	fOmit     = "omit"     // leaves out one output script that must match
	fExtra    = "extra"    // one more element (matches everything it must)
	fOpret    = "opret"    // also indexes the OP_RETURN outputs (old-style)
	fOtherKey = "otherkey" // built with a different key: nothing matches
)

func blockScripts(b *wire.MsgBlock) (must [][]byte, coinbase [][]byte, oprets [][]byte) {
	for i, tx := range b.Transactions {
		for _, o := range tx.TxOut {
			if len(o.PkScript) == 0 {
				continue
			}
			if o.PkScript[0] == 0x6a {
				oprets = append(oprets, o.PkScript)
				continue
			}
			if i == 0 {
				coinbase = append(coinbase, o.PkScript)
			} else {
				must = append(must, o.PkScript)
			}
		}
	}
	return
}

func doctored(kind string, b *wire.MsgBlock, truth *gcs.Filter, salt int) *gcs.Filter {
	bh := b.BlockHash()
	must, cb, oprets := blockScripts(b)
	var data [][]byte
	data = append(data, cb...)
	key := builder.DeriveKey(&bh)
	switch kind {
	case fTrue:
		return truth
	case fOmit:
		if len(must) == 0 {
			// nothing that must match: fall back to an extra element
			data = append(data, []byte{byte(salt), 9, 9, 9})
		} else {
			drop := salt % len(must)
			for i, s := range must {
				if i != drop {
					data = append(data, s)
				}
			}
			data = append(data, []byte{byte(salt), 7, 7})
		}
	case fExtra:
		data = append(data, must...)
		data = append(data, []byte{byte(salt), 8, 8, 8, 8})
	case fOpret:
		data = append(data, must...)
		data = append(data, oprets...)
		if len(oprets) == 0 {
			data = append(data, []byte{byte(salt), 6, 6})
		}
	case fOtherKey:
		data = append(data, must...)
		key[0] ^= 0x55
		key[3] ^= byte(salt + 1)
	}
	f, err := gcs.BuildGCSFilter(builder.DefaultP, builder.DefaultM, key, data)
	if err != nil {
		panic(err)
	}
	return f
}

func filterHash(f *gcs.Filter) chainhash.Hash {
	h, err := builder.GetFilterHash(f)
	if err != nil {
		panic(err)
	}
	return h
}

// oracle row of a filter against a block: (token, hash token, verify)
const filterTokBase = int64(1) << 40

func oracleRow(in *interner, f *gcs.Filter, b *wire.MsgBlock) (int64, string) {
	h := filterHash(f)
	ft := filterTokBase + in.tok(h)
	n, err := neutrino.VerifyBasicBlockFilter(f, btcutil.NewBlock(b))
	v := "None"
	if err == nil {
		v = c.Some(c.Z(int64(n)))
	}
	return ft, fmt.Sprintf("(%d, %d, %s)", ft, in.tok(h), v)
}

func joinLines(items []string) string { return strings.Join(items, ";\n  ") }
