package main

import (
	"fmt"
	"math/rand"
	"sort"
	"sync"

	"github.com/btcsuite/btcd/btcutil/v2"
	"github.com/btcsuite/btcd/btcutil/v2/gcs"
	"github.com/btcsuite/btcd/chainhash/v2"
	"github.com/btcsuite/btcd/wire/v2"
	"github.com/lightninglabs/neutrino"
	"github.com/lightninglabs/neutrino/banman"

	c "verifharness/internal/common"
)

// lie is one false filter hash of a peer and what it serves as the filter.
type lie struct {
	Height int    `json:"height"`
	Kind   string `json:"kind"` // omit|omitx|omitcb|omitprev|extra|opret|otherkey (consistent) | inconsistent|silent|zero|omit-inconsistent
	// Salt selects the script left out and marks the doctored filter; liars
	// with the same salt serve the same filter (0: the peer's id).
	Salt int `json:"salt,omitempty"`
}

func (l lie) salt(p *peerSpec) int {
	if l.Salt != 0 {
		return l.Salt
	}
	return int(p.ID)
}

func consistentLie(kind string) bool {
	switch kind {
	case fOmit, fOmitX, fOmitCb, fOmitPrev, fExtra, fOpret, fOtherKey:
		return true
	}
	return false
}

// peerSpec is the behaviour of one peer.
type peerSpec struct {
	ID      int64  `json:"id"`
	Lies    []lie  `json:"lies,omitempty"`
	HdrMode string `json:"hdr_mode"` // ok|silent|wrongprev|short|long|wrongstop|dupjunk|wrongtype
	CpMode  string `json:"cp_mode,omitempty"`  // own|true|lie@k|zero@k|short@k|empty (family R)
	CpArg   int    `json:"cp_arg,omitempty"`
	// CpSalt selects the false value of cp_mode lie: peers with the same
	// salt serve the same false checkpoint (0: the peer's id)
	CpSalt int64 `json:"cp_salt,omitempty"`
	// FiltAll overrides the filter served at every height without a lie
	// (""/true, silent, wrongblock, junk).
	FiltAll string `json:"filt_all,omitempty"`

	fhashes  []chainhash.Hash // this peer's filter hashes by height
	fheaders []chainhash.Hash // and the headers derived from them
	lieAt    map[int]lie
}

func (p *peerSpec) addr() string { return fmt.Sprintf("10.0.0.%d:18555", p.ID) }

type world struct {
	mu    sync.Mutex
	ch    *chainT
	in    *interner
	peers []*peerSpec
	// GetBlock fails at these heights
	BlockFail map[int]bool

	bans     []int64
	raws     []string
	envRows  map[int]string
	envOrder []int
	queries  int
	// getcfheaders broadcasts seen: "(start height, stop hash)"
	reqs []string
}

func newWorld(ch *chainT, in *interner, peers []*peerSpec) *world {
	w := &world{ch: ch, in: in, peers: peers, BlockFail: map[int]bool{}, envRows: map[int]string{}}
	for _, p := range peers {
		w.prepare(p)
	}
	return w
}

// the filter a peer serves at a height (nil = none) and how
func (w *world) servedFilter(p *peerSpec, h int) (*gcs.Filter, string) {
	if l, ok := p.lieAt[h]; ok {
		switch {
		case consistentLie(l.Kind):
			return w.ch.doctored(l.Kind, h, l.salt(p)), "ok"
		case l.Kind == "inconsistent" || l.Kind == "zero":
			return w.ch.filters[h], "ok"
		case l.Kind == "omit-inconsistent":
			return w.ch.doctored(fOmit, h, l.salt(p)), "ok"
		case l.Kind == "silent":
			return nil, "silent"
		}
	}
	switch p.FiltAll {
	case "silent":
		return nil, "silent"
	case "wrongblock":
		return w.ch.filters[h], "wrongblock"
	case "junk":
		return nil, "junk"
	}
	return w.ch.filters[h], "ok"
}

// prepare computes the peer's filter hash chain.
func (w *world) prepare(p *peerSpec) {
	p.lieAt = map[int]lie{}
	n := len(w.ch.blocks)
	p.fhashes = append([]chainhash.Hash{}, w.ch.fhashes...)
	first := n
	for _, l := range p.Lies {
		if l.Height < 0 || l.Height >= n {
			continue
		}
		p.lieAt[l.Height] = l
		if l.Height < first {
			first = l.Height
		}
		var adv chainhash.Hash
		switch {
		case consistentLie(l.Kind):
			adv = filterHash(w.ch.doctored(l.Kind, l.Height, l.salt(p)))
		case l.Kind == "zero":
			adv = zeroHash
		default:
			r := rand.New(rand.NewSource(int64(l.Height)*131 + p.ID))
			r.Read(adv[:])
		}
		p.fhashes[l.Height] = adv
	}
	p.fheaders = append([]chainhash.Hash{}, w.ch.fheaders...)
	for h := first; h < n; h++ {
		prev := zeroHash
		if h > 0 {
			prev = p.fheaders[h-1]
		}
		p.fheaders[h] = hstep(p.fhashes[h], prev)
	}
}

// checkpoints the peer serves for a chain whose tip is at height tip
func (w *world) checkpoints(p *peerSpec, tip int) []*chainhash.Hash {
	var out []*chainhash.Hash
	src := p.fheaders
	if p.CpMode == "true" || p.CpMode == "lie" || p.CpMode == "zero" {
		src = w.ch.fheaders
	}
	for k := 1; k*1000 <= tip; k++ {
		h := src[k*1000]
		out = append(out, &h)
	}
	switch p.CpMode {
	case "lie":
		if p.CpArg < len(out) {
			var x chainhash.Hash
			salt := p.ID
			if p.CpSalt != 0 {
				salt = p.CpSalt
			}
			rand.New(rand.NewSource(salt*977 + int64(p.CpArg))).Read(x[:])
			out[p.CpArg] = &x
		}
	case "zero":
		if p.CpArg < len(out) {
			z := zeroHash
			out[p.CpArg] = &z
		}
	case "short":
		if p.CpArg < len(out) {
			out = out[:p.CpArg]
		}
	case "empty":
		out = nil
	}
	return out
}

// cfheaders answer of a peer for [start, stop]
func (w *world) cfheaders(p *peerSpec, start, stop int, stopHash chainhash.Hash) *wire.MsgCFHeaders {
	m := wire.NewMsgCFHeaders()
	m.FilterType = wire.GCSFilterRegular
	m.StopHash = stopHash
	if start > 0 {
		m.PrevFilterHeader = p.fheaders[start-1]
	}
	for h := start; h <= stop; h++ {
		x := p.fhashes[h]
		m.FilterHashes = append(m.FilterHashes, &x)
	}
	return m
}

func (w *world) msgTerm(m *wire.MsgCFHeaders) string {
	hs := make([]chainhash.Hash, len(m.FilterHashes))
	for i := range hs {
		hs[i] = *m.FilterHashes[i]
	}
	// register the chain evaluations the model will make
	w.in.chain(m.PrevFilterHeader, hs)
	return fmt.Sprintf("(%d, %d, %s)", w.in.tok(m.PrevFilterHeader), w.in.tok(m.StopHash), runsOf(w.in.toks(hs)))
}

func (w *world) hdrAnswers(p *peerSpec, q *wire.MsgGetCFHeaders) []wire.Message {
	stop, ok := w.ch.byHash[q.StopHash]
	start := int(q.StartHeight)
	if !ok || start > stop {
		return nil
	}
	// A conforming peer (btcd's OnGetCFHeaders) does not answer a request
	// that spans more than wire.MaxCFHeadersPerMsg headers, and nobody can:
	// a cfheaders message cannot hold more.
	if stop-start+1 > wire.MaxCFHeadersPerMsg {
		return nil
	}
	good := w.cfheaders(p, start, stop, q.StopHash)
	switch p.HdrMode {
	case "silent":
		return nil
	case "wrongprev":
		rand.New(rand.NewSource(p.ID * 31)).Read(good.PrevFilterHeader[:])
		return []wire.Message{good}
	case "short":
		good.FilterHashes = good.FilterHashes[:len(good.FilterHashes)-1]
		return []wire.Message{good}
	case "long":
		x := good.FilterHashes[0]
		good.FilterHashes = append(good.FilterHashes, x)
		return []wire.Message{good}
	case "wrongstop":
		good.StopHash = w.ch.hashes[0]
		return []wire.Message{good}
	case "wrongtype":
		good.FilterType = wire.FilterType(7)
		return []wire.Message{good}
	case "dupjunk":
		junk := w.cfheaders(p, start, stop, q.StopHash)
		junk.FilterHashes = junk.FilterHashes[:len(junk.FilterHashes)/2]
		again := w.cfheaders(p, start, stop, q.StopHash)
		rand.New(rand.NewSource(p.ID * 37)).Read(again.PrevFilterHeader[:])
		return []wire.Message{junk, good, again}
	}
	return []wire.Message{good}
}

// envRow makes (once) the model's environment row of a height.
func (w *world) envRow(h int) {
	if _, ok := w.envRows[h]; ok || h < 0 || h >= len(w.ch.blocks) {
		return
	}
	b := w.ch.blocks[h]
	var filts, orc []string
	seen := map[int64]bool{}
	add := func(f *gcs.Filter) int64 {
		ft, row := oracleRow(w.in, f, b)
		if !seen[ft] {
			seen[ft] = true
			orc = append(orc, row)
		}
		return ft
	}
	add(w.ch.filters[h])
	for _, p := range w.peers {
		f, how := w.servedFilter(p, h)
		if how != "ok" || f == nil {
			continue
		}
		filts = append(filts, fmt.Sprintf("(%d, %d)", p.ID, add(f)))
	}
	w.envRows[h] = fmt.Sprintf("(%d, %s, true, %s, %s, %s)", h, c.List(filts),
		c.Bool(!w.BlockFail[h]), absOf(b).term, c.List(orc))
	w.envOrder = append(w.envOrder, h)
}

func (w *world) envTerm() string {
	// rows for every height some peer lies at, plus every height asked
	for _, p := range w.peers {
		for _, l := range p.Lies {
			w.envRow(l.Height)
		}
	}
	hs := append([]int{}, w.envOrder...)
	sort.Ints(hs)
	var items []string
	for _, h := range hs {
		items = append(items, w.envRows[h])
	}
	return c.List(items)
}

func (w *world) truthTerm() string {
	var filt []string
	hs := append([]int{}, w.envOrder...)
	sort.Ints(hs)
	for _, h := range hs {
		filt = append(filt, fmt.Sprintf("(%d, %d)", h, filterTokBase+w.in.tok(w.ch.fhashes[h])))
	}
	return fmt.Sprintf("{| rt_fh := %s; rt_fl := %s; rt_filt := %s |}",
		runsOf(w.in.toks(w.ch.fhashes)), runsOf(w.in.toks(w.ch.fheaders)), c.List(filt))
}

// respond is the scripted queryAllPeers.
func (w *world) respond(q wire.Message) []neutrino.VerifC03PeerMsgs {
	w.mu.Lock()
	defer w.mu.Unlock()
	var out []neutrino.VerifC03PeerMsgs
	switch m := q.(type) {
	case *wire.MsgGetCFHeaders:
		w.queries++
		w.reqs = append(w.reqs, fmt.Sprintf("(%d, %d)", m.StartHeight, w.in.tok(m.StopHash)))
		for _, p := range w.peers {
			msgs := w.hdrAnswers(p, m)
			for _, x := range msgs {
				cf := x.(*wire.MsgCFHeaders)
				w.raws = append(w.raws, fmt.Sprintf("(%d, %s, %s)", p.ID,
					c.Bool(cf.FilterType == wire.GCSFilterRegular), w.msgTerm(cf)))
			}
			if len(msgs) > 0 {
				out = append(out, neutrino.VerifC03PeerMsgs{Addr: p.addr(), Msgs: msgs})
			}
		}
	case *wire.MsgGetCFilters:
		h := int(m.StartHeight)
		if h >= len(w.ch.blocks) {
			return nil
		}
		w.envRow(h)
		for _, p := range w.peers {
			f, how := w.servedFilter(p, h)
			var msgs []wire.Message
			switch how {
			case "ok":
				data, _ := f.NBytes()
				msgs = append(msgs, wire.NewMsgCFilter(wire.GCSFilterRegular, &m.StopHash, data))
			case "wrongblock":
				data, _ := f.NBytes()
				msgs = append(msgs, wire.NewMsgCFilter(wire.GCSFilterRegular, &w.ch.hashes[0], data))
			case "junk":
				msgs = append(msgs, wire.NewMsgCFilter(wire.GCSFilterRegular, &m.StopHash, []byte{0xfe}))
			}
			if len(msgs) > 0 {
				out = append(out, neutrino.VerifC03PeerMsgs{Addr: p.addr(), Msgs: msgs})
			}
		}
	}
	return out
}

func (w *world) getBlock(h chainhash.Hash) (*btcutil.Block, error) {
	w.mu.Lock()
	defer w.mu.Unlock()
	i, ok := w.ch.byHash[h]
	if !ok || w.BlockFail[i] {
		return nil, fmt.Errorf("block not available")
	}
	return btcutil.NewBlock(w.ch.blocks[i]), nil
}

func (w *world) banPeer(addr string, _ banman.Reason) error {
	w.mu.Lock()
	defer w.mu.Unlock()
	for _, p := range w.peers {
		if p.addr() == addr {
			w.bans = append(w.bans, p.ID)
			return nil
		}
	}
	w.bans = append(w.bans, -1)
	return nil
}

func (w *world) sortedBans() []int64 {
	m := map[int64]bool{}
	for _, b := range w.bans {
		m[b] = true
	}
	var out []int64
	for b := range m {
		out = append(out, b)
	}
	sort.Slice(out, func(i, j int) bool { return out[i] < out[j] })
	return out
}
