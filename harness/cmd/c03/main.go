// Correspondence harness for C03: drives the real filter-header code of
// neutrino's block manager (writeCFHeadersMsg, rollBackToHeight,
// getUncheckpointedCFHeaders, resolveConflict, getCheckpointedCFHeaders and
// the pure decision functions) on real header stores with scripted peers,
// synthetic blocks and REAL basic filters (and doctored variants), and
// writes the observations as Coq cases.
//
// Families: S structural histories (append / writeCF / rollback) on small
// chains; U at-tip fetch; R checkpoint conflict resolution and C checkpointed
// fetch on a 3300-block chain; A tables of the pure functions.
//
// VerifyBasicBlockFilter is under test, not trusted: every block goes to Coq
// as an abstract block (scripts classified from their raw bytes) and every
// filter as the set of the block's scripts it matches (gcs.Filter.Match per
// script); the model computes the verdict itself, the implementation's
// verdict is only compared with it, and the monitors decide "refutable from
// the block" by the BIP-158 definition. Blocks contain unparseable,
// oversized, empty, OP_RETURN-prefixed, taproot and non-standard output
// scripts (coinbase and other transactions) and all kinds of witness inputs.
package main

import (
	"flag"
	"fmt"
	"math/rand"
	"os"
	"path/filepath"
	"sort"
	"strings"
	"sync"
	"time"

	"github.com/btcsuite/btcd/btcutil/v2"
	"github.com/btcsuite/btcd/btcutil/v2/gcs"
	"github.com/btcsuite/btcd/btcutil/v2/gcs/builder"
	"github.com/btcsuite/btcd/chaincfg/v2"
	"github.com/btcsuite/btcd/chainhash/v2"
	"github.com/btcsuite/btcd/wire/v2"
	"github.com/lightninglabs/neutrino"
	"github.com/lightninglabs/neutrino/chainsync"
	"github.com/lightninglabs/neutrino/headerfs"
	"github.com/lightninglabs/neutrino/query"

	c "verifharness/internal/common"
	"verifharness/internal/storeh"
)

const bigN = 3300

// unusual output scripts planted in the big chain (next to the random ones)
var bigForce = map[int][]string{
	150: {"unparse"}, 777: {"big"}, 1000: {"unparse"}, 1001: {"bigbad"}, 1234: {"unparse", "big"},
	1999: {"unparse"}, 2000: {"big"}, 2345: {"unparse", "cb-unparse"}, 2999: {"big"}, 3100: {"big", "empty", "unparse"},
	1700: {"dupx"}, 2600: {"dup", "dupprev"},
}

var bigPlanted = []int{150, 777, 1000, 1001, 1234, 1999, 2000, 2345, 2999, 3100, 1700, 2600}

// ---------------------------------------------------------------------
// Case specification (what hist-<id>.json holds; generated from (seed, id)
// or written by hand for the corpus).

type sOp struct {
	Kind   string `json:"kind"` // append|writecf|rollback
	N      int    `json:"n,omitempty"`
	Height int    `json:"height,omitempty"`
	// writecf: mode valid|badprev|badstop|short|long|empty|random
	Mode string `json:"mode,omitempty"`
	Len  int    `json:"len,omitempty"`
}

type arrivalSpec struct {
	Q    int    `json:"q"`
	Peer int64  `json:"peer"`
	Mode string `json:"mode"` // own|short1|long1|wrongprev|wrongstop|wrongtype|empty
}

// forceOut makes the block at Height contain an output script (or a witness
// input) of an unusual kind: unparse|big|bigbad|empty|opretx|p2tr|nonstd,
// cb-<kind> for an output of the coinbase, wit-<wpkh|wsh|nested|tr|badsig>.
type forceOut struct {
	Height int    `json:"height"`
	Kind   string `json:"kind"`
}

type spec struct {
	ID     int    `json:"id"`
	Seed   int64  `json:"seed"`
	Family string `json:"family"` // S|U|R|C
	Note   string `json:"note,omitempty"`

	// S
	Ops []sOp `json:"ops,omitempty"`
	// U, R, C
	Tip       int          `json:"tip,omitempty"`
	FTip      int          `json:"ftip,omitempty"`
	Peers     []*peerSpec  `json:"peers,omitempty"`
	Honest    []int64      `json:"honest,omitempty"`
	BlockFail []int        `json:"block_fail,omitempty"`
	// GetBlock fails at the BlockFail heights only in the first
	// BlockFailTimes rounds (0: always). U and L: the call is repeated (by the
	// harness / by the real handler after its pause) until the block is there
	BlockFailTimes int `json:"block_fail_times,omitempty"`
	// U: unusual scripts forced into blocks of the case's chain
	Force []forceOut `json:"force,omitempty"`
	// U: run on the first Tip blocks of the big chain (filter headers may
	// trail by thousands) instead of a chain of the case's own
	Big bool `json:"big,omitempty"`
	// R: hard-coded checkpoint at height HardAt: "" none, "true", "false"
	HardAt   int    `json:"hard_at,omitempty"`
	HardKind string `json:"hard_kind,omitempty"`
	// R: the stored filter headers above StoreLieFrom are those of a false chain
	StoreLieFrom int `json:"store_lie_from,omitempty"`
	// C
	CpsMode  string        `json:"cps_mode,omitempty"` // truth|collude-short
	Arrivals []arrivalSpec `json:"arrivals,omitempty"`
	// L (loop.go): the script of rounds and environment events, the peers
	// connected at the start (nil: all)
	Steps []loopStep `json:"steps,omitempty"`
	Conn  []int64    `json:"conn,omitempty"`
	// HU, HR (hand.go): the schedule of the real hand-off, and what was
	// handed to OnRead / received by the round's callback
	Hand   *handSpec   `json:"hand,omitempty"`
	Rounds []HandRound `json:"rounds,omitempty"`

	Obs string `json:"obs,omitempty"`
	Sig string `json:"sig,omitempty"`
}

type result struct {
	sp      spec
	term    string // Gallina case term ("" if the case could not run)
	more    []string // terms of further calls of the same case (retries after a failed block fetch)
	hand    string // HU / HR: the rounds of the hand-off (term of ReplayHand.v)
	sig     string
	nontriv bool
	fail    *c.ImplFailure
}

// ---------------------------------------------------------------------
// Shared fixtures.

type fixtures struct {
	base   string
	gfh    chainhash.Hash
	big    *chainT
	bigIn  *interner
	tmplMu sync.Mutex
	tmpls  map[int]string
}

var fx fixtures

func (f *fixtures) setup(base string) {
	f.base = base
	f.tmpls = map[int]string{}
	gf, err := storeh.ProbeGenesisFilter(base)
	if err != nil {
		panic(err)
	}
	f.gfh = gf
	f.big = newChain(rand.New(rand.NewSource(20260925)), bigN, gf, false, 77, bigForce)
	f.bigIn = newInterner(nil, 1000000)
	f.bigIn.toks(f.big.hashes)
	f.bigIn.toks(f.big.fhashes)
	f.bigIn.chain(zeroHash, f.big.fhashes)
}

func writeBlocks(bs headerfs.BlockHeaderStore, ch *chainT, from, to int) error {
	for a := from; a <= to; a += 500 {
		b := a + 499
		if b > to {
			b = to
		}
		var batch []headerfs.BlockHeader
		for h := a; h <= b; h++ {
			batch = append(batch, headerfs.BlockHeader{BlockHeader: &ch.blocks[h].Header, Height: uint32(h)})
		}
		if err := bs.WriteHeaders(batch...); err != nil {
			return err
		}
	}
	return nil
}

func writeFilters(fs headerfs.FilterHeaderStore, ch *chainT, hdrs []chainhash.Hash, from, to int) error {
	if to < from {
		return nil
	}
	var batch []headerfs.FilterHeader
	for h := from; h <= to; h++ {
		batch = append(batch, headerfs.FilterHeader{HeaderHash: ch.hashes[h], FilterHash: hdrs[h], Height: uint32(h)})
	}
	return fs.WriteHeaders(batch...)
}

// bigTemplate returns a store directory holding the first tip blocks of the
// big chain (filter store at genesis).
func (f *fixtures) bigTemplate(tip int) string {
	f.tmplMu.Lock()
	defer f.tmplMu.Unlock()
	if d, ok := f.tmpls[tip]; ok {
		return d
	}
	tmpl, err := storeh.Template(f.base)
	if err != nil {
		panic(err)
	}
	d := filepath.Join(f.base, fmt.Sprintf("big-%d", tip))
	if err := storeh.CopyDir(tmpl, d); err != nil {
		panic(err)
	}
	e := &storeh.Env{Dir: d}
	if err := e.Open(); err != nil {
		panic(err)
	}
	if err := writeBlocks(e.BS, f.big, 1, tip); err != nil {
		panic(err)
	}
	e.Close()
	f.tmpls[tip] = d
	return d
}

func openCopy(tmpl string, id int) (*storeh.Env, func()) {
	dir := filepath.Join(fx.base, fmt.Sprintf("case-%d", id))
	os.RemoveAll(dir)
	if err := storeh.CopyDir(tmpl, dir); err != nil {
		panic(err)
	}
	e := &storeh.Env{Dir: dir}
	if err := e.Open(); err != nil {
		panic(err)
	}
	return e, func() { e.Close(); os.RemoveAll(dir) }
}

func caseParams(id int) chaincfg.Params {
	p := chaincfg.SimNetParams
	p.Net = wire.BitcoinNet(0xC0300000 + uint32(id))
	return p
}

// ---------------------------------------------------------------------
// Family S.

func runS(sp *spec) (res result) {
	res.sp = *sp
	tmpl, err := storeh.Template(fx.base)
	if err != nil {
		panic(err)
	}
	e, done := openCopy(tmpl, sp.ID)
	defer done()
	r := rand.New(rand.NewSource(sp.Seed*7 + int64(sp.ID)))
	in := newInterner(nil, 1000)
	gtok := in.tok(*storeh.Params.GenesisHash)
	gftok := in.tok(fx.gfh)
	bm, err := neutrino.VerifC03New(neutrino.VerifC03Config{ChainParams: caseParams(sp.ID),
		BlockHeaders: e.BS, RegFilterHeaders: e.FS})
	if err != nil {
		panic(err)
	}
	defer bm.Quit()
	// all blocks ever made: hash -> header
	parents := []string{}
	tipOf := func() (chainhash.Hash, int) {
		h, ht, err := e.BS.ChainTip()
		if err != nil {
			panic(err)
		}
		return h.BlockHash(), int(ht)
	}
	obs := func(ok bool, ret string, dumpF, dumpB string) string {
		ft, fh, ferr := e.FS.ChainTip()
		bt, bh, berr := e.BS.ChainTip()
		fts, bts := "None", "None"
		if ferr == nil {
			fts = optPair(true, in.tok(*ft), int64(fh))
		}
		if berr == nil {
			bts = optPair(true, in.tok(bt.BlockHash()), int64(bh))
		}
		mh, mx := bm.FilterHeaderTip()
		return fmt.Sprintf("(%s, %s, %s, %s, (%d, %d), %s, %s)", c.Bool(ok), ret, fts, bts,
			mh, in.tok(mx), dumpF, dumpB)
	}
	var items []string
	var sig strings.Builder
	doOp := func(op sOp) {
		switch op.Kind {
		case "append":
			prev, ht := tipOf()
			var batch []headerfs.BlockHeader
			var toks []int64
			for i := 0; i < op.N; i++ {
				hdr := &wire.BlockHeader{Version: 4, PrevBlock: prev, Bits: 0x207fffff,
					Nonce: uint32(r.Int31()), Timestamp: time.Unix(1700000000+int64(ht+i+1)*600, 0)}
				r.Read(hdr.MerkleRoot[:])
				bh := hdr.BlockHash()
				toks = append(toks, in.tok(bh))
				parents = append(parents, fmt.Sprintf("(%d, %d)", in.tok(bh), in.tok(prev)))
				batch = append(batch, headerfs.BlockHeader{BlockHeader: hdr, Height: uint32(ht + i + 1)})
				prev = bh
			}
			err := e.BS.WriteHeaders(batch...)
			items = append(items, c.Pair(c.App("RAppend", runsOf(toks)), obs(err == nil, "None", "[]", "[]")))
			sig.WriteString("A")
		case "writecf":
			ft, fh, ferr := e.FS.ChainTip()
			_, bh, _ := e.BS.ChainTip()
			m := wire.NewMsgCFHeaders()
			m.FilterType = wire.GCSFilterRegular
			n := op.Len
			if ferr != nil {
				ft = &chainhash.Hash{}
			}
			m.PrevFilterHeader = *ft
			stopH := int(fh) + n
			switch op.Mode {
			case "badprev":
				r.Read(m.PrevFilterHeader[:])
			case "short":
				stopH = int(fh) + n + 1 + r.Intn(2)
			case "long":
				stopH = int(fh) + n - 1
			case "empty":
				n = 0
			}
			if stopH > int(bh) && op.Mode != "badstop" {
				stopH = int(bh)
				if op.Mode == "valid" || op.Mode == "badprev" || op.Mode == "empty" {
					n = stopH - int(fh)
					if op.Mode == "empty" {
						n = 0
					}
				}
			}
			if stopH < 0 {
				stopH = 0
			}
			if sh, err := e.BS.FetchHeaderByHeight(uint32(stopH)); err == nil {
				m.StopHash = sh.BlockHash()
			}
			if op.Mode == "badstop" {
				r.Read(m.StopHash[:])
			}
			for i := 0; i < n; i++ {
				var x chainhash.Hash
				r.Read(x[:])
				m.FilterHashes = append(m.FilterHashes, &x)
			}
			hs := make([]chainhash.Hash, len(m.FilterHashes))
			for i := range hs {
				hs[i] = *m.FilterHashes[i]
			}
			in.chain(m.PrevFilterHeader, hs)
			term := fmt.Sprintf("(%d, %d, %s)", in.tok(m.PrevFilterHeader), in.tok(m.StopHash), runsOf(in.toks(hs)))
			hd, ht, err := bm.WriteCFHeadersMsg(m)
			ret := "None"
			if err == nil {
				ret = optPair(true, in.tok(*hd), int64(ht))
				sig.WriteString("W")
			} else {
				sig.WriteString("w")
			}
			items = append(items, c.Pair(c.App("RWriteCF", term), obs(err == nil, ret, "[]", "[]")))
		case "rollback":
			err := bm.RollBackToHeight(uint32(op.Height))
			items = append(items, c.Pair(c.App("RRollback", c.Z(int64(op.Height))), obs(err == nil, "None", "[]", "[]")))
			sig.WriteString("R")
		}
	}
	for _, op := range sp.Ops {
		doOp(op)
	}
	// dump both stores
	dump := func(fetch func(h uint32) (chainhash.Hash, error), tip uint32) string {
		var toks []int64
		for h := uint32(0); h <= tip; h++ {
			x, err := fetch(h)
			if err != nil {
				break
			}
			toks = append(toks, in.tok(x))
		}
		return runsOf(toks)
	}
	df, dbk := "[]", "[]"
	if _, fh, err := e.FS.ChainTip(); err == nil {
		df = dump(func(h uint32) (chainhash.Hash, error) {
			x, err := e.FS.FetchHeaderByHeight(h)
			if err != nil {
				return zeroHash, err
			}
			return *x, nil
		}, fh)
	}
	if _, bh, err := e.BS.ChainTip(); err == nil {
		dbk = dump(func(h uint32) (chainhash.Hash, error) {
			x, err := e.BS.FetchHeaderByHeight(h)
			if err != nil {
				return zeroHash, err
			}
			return x.BlockHash(), nil
		}, bh)
	}
	items = append(items, c.Pair("RDump", obs(true, "None", df, dbk)))
	res.term = fmt.Sprintf("CS %s %s %d %d\n  [%s]", in.htab(), c.List(parents), gtok, gftok, joinLines(items))
	res.sig = "S:" + sig.String()
	s := sig.String()
	res.nontriv = strings.Contains(s, "W") && strings.Contains(s, "R") && strings.Contains(s, "A")
	return res
}

func genS(id int, seed int64, r *rand.Rand) *spec {
	sp := &spec{ID: id, Seed: seed, Family: "S"}
	nops := 8 + r.Intn(10)
	malformed := r.Intn(10) >= 6
	height, fheight := 0, 0
	for i := 0; i < nops; i++ {
		switch k := r.Intn(10); {
		case k < 3 || height == 0:
			n := 1 + r.Intn(12)
			sp.Ops = append(sp.Ops, sOp{Kind: "append", N: n})
			height += n
		case k < 8:
			mode := "valid"
			if malformed && r.Intn(2) == 0 {
				mode = []string{"badprev", "badprev", "badstop", "short", "long", "empty"}[r.Intn(6)]
			}
			n := 1
			if height > fheight {
				n = 1 + r.Intn(height-fheight)
			}
			sp.Ops = append(sp.Ops, sOp{Kind: "writecf", Mode: mode, Len: n})
			if mode == "valid" && height > fheight {
				fheight += n
			}
		default:
			h := r.Intn(height + 2)
			sp.Ops = append(sp.Ops, sOp{Kind: "rollback", Height: h})
			if h < height {
				height = h
			}
			if fheight > height {
				fheight = height
			}
		}
	}
	return sp
}

// ---------------------------------------------------------------------
// Families U and R share the peer set-up.

func honestTerm(sp *spec) string { return zlist(sp.Honest) }

func setupWorld(sp *spec, ch *chainT, in *interner) *world {
	w := newWorld(ch, in, sp.Peers)
	for _, h := range sp.BlockFail {
		w.BlockFail[h] = true
	}
	return w
}

func runU(sp *spec) (res result) {
	res.sp = *sp
	r := rand.New(rand.NewSource(sp.Seed*13 + int64(sp.ID)))
	force := map[int][]string{}
	for _, f := range sp.Force {
		force[f.Height] = append(force[f.Height], f.Kind)
	}
	var ch *chainT
	var in *interner
	var e *storeh.Env
	var done func()
	var err error
	if sp.Big {
		ch = fx.big.upTo(sp.Tip)
		in = newInterner(fx.bigIn, 10000000)
		e, done = openCopy(fx.bigTemplate(sp.Tip), sp.ID)
	} else {
		ch = newChain(r, sp.Tip, fx.gfh, true, sp.Seed*13+int64(sp.ID), force)
		in = newInterner(nil, 1000)
		in.toks(ch.hashes)
		in.toks(ch.fhashes)
		in.chain(zeroHash, ch.fhashes)
		tmpl, terr := storeh.Template(fx.base)
		if terr != nil {
			panic(terr)
		}
		e, done = openCopy(tmpl, sp.ID)
		if err := writeBlocks(e.BS, ch, 1, sp.Tip); err != nil {
			panic(err)
		}
	}
	defer done()
	if err := writeFilters(e.FS, ch, ch.fheaders, 1, sp.FTip); err != nil {
		panic(err)
	}
	w := setupWorld(sp, ch, in)
	ucfg := neutrino.VerifC03Config{ChainParams: caseParams(sp.ID),
		BlockHeaders: e.BS, RegFilterHeaders: e.FS, Respond: w.respond, GetBlock: w.getBlock, BanPeer: w.banPeer}
	var bm *neutrino.VerifC03BM
	var hc *handCtl
	if sp.Hand != nil {
		var closeH func()
		bm, hc, closeH = newHandBM(sp, w, ucfg)
		defer closeH()
	} else if bm, err = neutrino.VerifC03New(ucfg); err != nil {
		panic(err)
	}
	defer bm.Quit()
	var gerr error
	var bans []int64
	var obs string
	ftipNow := sp.FTip
	for call := 0; ; call++ {
		if call > 0 {
			// the retry: banned peers are gone, the block may be there now
			w.mu.Lock()
			gone := map[int64]bool{}
			for _, b := range w.bans {
				gone[b] = true
			}
			var left []*peerSpec
			for _, p := range w.peers {
				if !gone[p.ID] {
					left = append(left, p)
				}
			}
			w.peers, w.bans, w.raws, w.reqs = left, nil, nil, nil
			w.envRows, w.envOrder = map[int]string{}, nil
			if call >= sp.BlockFailTimes {
				w.BlockFail = map[int]bool{}
			}
			w.mu.Unlock()
		}
		gerr = bm.GetUncheckpointedCFHeaders()
		ft, fh, ferr := e.FS.ChainTip()
		fts := "None"
		if ferr == nil {
			fts = optPair(true, in.tok(*ft), int64(fh))
		}
		bans = w.sortedBans()
		obs = fmt.Sprintf("(%s, %s, %s)", c.Bool(gerr != nil), zlist(bans), fts)
		env := w.envTerm()
		term := fmt.Sprintf("CU %s\n  %s %s\n  %s\n  %s\n  %s %s\n  %s", in.htab(),
			runsOf(in.toks(ch.hashes)), runsOf(in.toks(ch.fheaders[:ftipNow+1])),
			c.List(w.raws), env, w.truthTerm(), honestTerm(sp), obs)
		if hc == nil {
			// the getcfheaders broadcasts the implementation sent
			term = fmt.Sprintf("CQ %s (%s)", c.List(w.reqs), term)
		}
		if call == 0 {
			res.term = term
		} else {
			res.more = append(res.more, term)
		}
		if hc != nil || sp.BlockFailTimes == 0 || call >= sp.BlockFailTimes || gerr == nil || ferr != nil || int(fh) != ftipNow {
			break
		}
	}
	res.sp.Obs = obs
	res.sig = fmt.Sprintf("U:p%d:l%s:e%v:b%d", len(sp.Peers), lieSig(sp), gerr != nil, len(bans))
	res.nontriv = hasLiar(sp)
	if hc != nil {
		res.hand, res.sp.Rounds = hc.term(), hc.rnds
		res.sig = "H" + res.sig + fmt.Sprintf(":k%d:h%d:%s", min(sp.Hand.Burst, 9), sp.Hand.Hold, sp.Hand.Order)
	}
	return res
}

func lieSig(sp *spec) string {
	var ks []string
	for _, p := range sp.Peers {
		k := p.HdrMode[:1]
		for _, l := range p.Lies {
			if code, ok := lieCodes[l.Kind]; ok {
				k += code
			} else {
				k += l.Kind[:2]
			}
		}
		if p.CpMode != "" && p.CpMode != "own" && p.CpMode != "true" {
			k += "c" + p.CpMode[:1]
		}
		ks = append(ks, k)
	}
	sort.Strings(ks)
	return strings.Join(ks, ",")
}

func hasLiar(sp *spec) bool {
	for _, p := range sp.Peers {
		if len(p.Lies) > 0 || p.HdrMode != "ok" || (p.CpMode != "" && p.CpMode != "own" && p.CpMode != "true") {
			return true
		}
	}
	return false
}

var consistentKinds = []string{fOmit, fOmit, fOmitX, fOmitX, fOmitCb, fOtherKey, "inconsistent", "silent", "omit-inconsistent", "zero"}
var outOfClassKinds = []string{fExtra, fOpret, fOmitPrev}
var lieCodes = map[string]string{fOmit: "om", fOmitX: "ox", fOmitCb: "oc", fOmitPrev: "op", "omit-inconsistent": "oi"}

// duelPeers: nh honest peers and nl liars that all lie at height h with a
// filter omitting an output script (block-refutable), colluding (same
// filter) or not.
func duelPeers(r *rand.Rand, nh, nl, h int, kind string, collude bool) ([]*peerSpec, []int64) {
	var peers []*peerSpec
	var honest []int64
	salt := 0
	if collude {
		salt = 40 + r.Intn(50)
	}
	for i := 0; i < nh+nl; i++ {
		p := &peerSpec{ID: int64(i + 1), HdrMode: "ok"}
		if i < nh {
			honest = append(honest, p.ID)
		} else {
			p.Lies = []lie{{Height: h, Kind: kind, Salt: salt}}
		}
		peers = append(peers, p)
	}
	r.Shuffle(len(peers), func(i, j int) { peers[i], peers[j] = peers[j], peers[i] })
	return peers, honest
}

var duelKinds = []string{fOmitX, fOmitX, fOmitX, fOmit, fOmitCb}
var duelForce = []string{"unparse", "unparse", "big", "bigbad", "nonstd", "p2tr", "dup", "dupx", "dupmix", "dupprev"}

func genPeers(r *rand.Rand, lo, hi int, inClass bool) ([]*peerSpec, []int64) {
	n := 2 + r.Intn(5)
	var peers []*peerSpec
	var honest []int64
	nh := 1 + r.Intn(2)
	if !inClass && r.Intn(3) == 0 {
		nh = 0
	}
	for i := 0; i < n; i++ {
		p := &peerSpec{ID: int64(i + 1), HdrMode: "ok"}
		if i < nh {
			honest = append(honest, p.ID)
		} else {
			switch k := r.Intn(10); {
			case k < 6:
				nl := 1 + r.Intn(2)
				for j := 0; j < nl && hi >= lo; j++ {
					kinds := consistentKinds
					if !inClass && r.Intn(2) == 0 {
						kinds = outOfClassKinds
					}
					h := lo + r.Intn(hi-lo+1)
					if r.Intn(4) == 0 { // interval boundaries
						b := ((h + 999) / 1000) * 1000
						if b >= lo && b <= hi {
							h = b - r.Intn(2)
							if h < lo {
								h = lo
							}
						}
					}
					p.Lies = append(p.Lies, lie{Height: h, Kind: kinds[r.Intn(len(kinds))]})
				}
			case k < 7:
				p.HdrMode = []string{"silent", "short", "long", "wrongstop", "wrongtype", "dupjunk"}[r.Intn(6)]
			case k < 8:
				if inClass {
					p.HdrMode = "silent"
				} else {
					p.HdrMode = "wrongprev"
				}
			default:
				// honest but not declared (extra honest peer)
			}
			if !inClass && r.Intn(6) == 0 {
				p.FiltAll = []string{"silent", "wrongblock", "junk"}[r.Intn(3)]
			}
		}
		peers = append(peers, p)
	}
	r.Shuffle(len(peers), func(i, j int) { peers[i], peers[j] = peers[j], peers[i] })
	return peers, honest
}

func genU(id int, seed int64, r *rand.Rand) *spec {
	sp := &spec{ID: id, Seed: seed, Family: "U"}
	sp.Tip = 3 + r.Intn(40)
	sp.FTip = r.Intn(sp.Tip)
	if r.Intn(12) == 0 {
		sp.FTip = sp.Tip
	}
	inClass := r.Intn(10) < 7
	sp.Peers, sp.Honest = genPeers(r, sp.FTip+1, sp.Tip, inClass)
	if r.Intn(4) == 0 && sp.FTip < sp.Tip {
		// duel over an unusual output script: one or two honest peers
		// against two to four liars whose (self-consistent) filter omits an
		// unparseable / oversized / coinbase output script of the same block
		h := sp.FTip + 1 + r.Intn(sp.Tip-sp.FTip)
		kind := duelKinds[r.Intn(len(duelKinds))]
		sp.Force = []forceOut{{Height: h, Kind: duelForce[r.Intn(len(duelForce))]}}
		if kind == fOmitCb && r.Intn(2) == 0 {
			sp.Force = append(sp.Force, forceOut{Height: h, Kind: "cb-unparse"})
		}
		sp.Peers, sp.Honest = duelPeers(r, 1+r.Intn(2), 2+r.Intn(3), h, kind, r.Intn(3) != 0)
		if r.Intn(3) == 0 {
			// the block of the disputed height cannot be fetched (always /
			// in the first one or two rounds): no verdict in those rounds
			sp.BlockFail, sp.BlockFailTimes = []int{h}, r.Intn(3)
		}
		return sp
	}
	if r.Intn(6) == 0 && sp.FTip < sp.Tip {
		// out-of-class duel: an even number of responders, the liars serve
		// old-style filters (OP_RETURNs indexed) or filters with an extra
		// element: OP_RETURN heuristic, threshold and majority decide
		sp.Peers, sp.Honest = nil, nil
		n := 2 * (1 + r.Intn(2))
		nl := 1 + r.Intn(n/2)
		kind := []string{fOpret, fOpret, fExtra}[r.Intn(3)]
		for i := 0; i < n; i++ {
			p := &peerSpec{ID: int64(i + 1), HdrMode: "ok"}
			if i >= n-nl {
				for h := sp.FTip + 1; h <= sp.Tip && len(p.Lies) < 4; h++ {
					p.Lies = append(p.Lies, lie{Height: h, Kind: kind})
				}
			}
			sp.Peers = append(sp.Peers, p)
		}
		return sp
	}
	if !inClass && r.Intn(3) == 0 && sp.FTip < sp.Tip {
		sp.BlockFail = []int{sp.FTip + 1 + r.Intn(sp.Tip-sp.FTip)}
	}
	return sp
}

// ---------------------------------------------------------------------
// Family R.

func hashesTerm(in *interner, hs []*chainhash.Hash) string {
	t := make([]int64, len(hs))
	for i := range hs {
		t[i] = in.tok(*hs[i])
	}
	return runsOf(t)
}

func eqLists(a, b []*chainhash.Hash) bool {
	if len(a) != len(b) {
		return false
	}
	for i := range a {
		if *a[i] != *b[i] {
			return false
		}
	}
	return true
}

// storeHeaders returns the filter headers to put into the store for a case.
func storeHeaders(sp *spec) []chainhash.Hash {
	if sp.StoreLieFrom <= 0 {
		return fx.big.fheaders
	}
	out := append([]chainhash.Hash{}, fx.big.fheaders...)
	var x chainhash.Hash
	rand.New(rand.NewSource(int64(sp.StoreLieFrom))).Read(x[:])
	for h := sp.StoreLieFrom; h < len(out); h++ {
		fh := fx.big.fhashes[h]
		if h == sp.StoreLieFrom {
			fh = x
		}
		out[h] = hstep(fh, out[h-1])
	}
	return out
}

func runR(sp *spec) (res result) {
	res.sp = *sp
	ch := fx.big.upTo(sp.Tip)
	in := newInterner(fx.bigIn, 10000000)
	e, done := openCopy(fx.bigTemplate(sp.Tip), sp.ID)
	defer done()
	sh := storeHeaders(sp)
	if err := writeFilters(e.FS, ch, sh, 1, sp.FTip); err != nil {
		panic(err)
	}
	w := setupWorld(sp, ch, in)
	params := caseParams(sp.ID)
	rcfg := neutrino.VerifC03Config{ChainParams: params,
		BlockHeaders: e.BS, RegFilterHeaders: e.FS, Respond: w.respond, GetBlock: w.getBlock, BanPeer: w.banPeer}
	var bm *neutrino.VerifC03BM
	var hc *handCtl
	var err error
	if sp.Hand != nil {
		var closeH func()
		bm, hc, closeH = newHandBM(sp, w, rcfg)
		defer closeH()
	} else if bm, err = neutrino.VerifC03New(rcfg); err != nil {
		panic(err)
	}
	defer bm.Quit()
	cps := map[string][]*chainhash.Hash{}
	var cpTerms []string
	orig := map[int64][]*chainhash.Hash{}
	for _, p := range sp.Peers {
		if p.CpMode == "absent" {
			continue
		}
		l := w.checkpoints(p, sp.Tip)
		cps[p.addr()] = l
		orig[p.ID] = l
		cpTerms = append(cpTerms, fmt.Sprintf("(%d, %s)", p.ID, hashesTerm(in, l)))
	}
	out, rerr := bm.ResolveConflict(cps)
	if os.Getenv("C03_DEBUG") != "" {
		fmt.Fprintf(os.Stderr, "resolveConflict: out=%d err=%v\n", len(out), rerr)
	}
	bans := w.sortedBans()
	ores := "None"
	hint := int64(0)
	if rerr == nil {
		ores = c.Some(hashesTerm(in, out))
		ids := []int64{}
		for id := range orig {
			ids = append(ids, id)
		}
		sort.Slice(ids, func(i, j int) bool { return ids[i] < ids[j] })
		// the list returned is that of a peer that was not thrown out
		banned := map[int64]bool{}
		for _, b := range bans {
			banned[b] = true
		}
		for _, id := range ids {
			if eqLists(orig[id], out) && !banned[id] {
				hint = id
				break
			}
		}
	}
	hard := "[]"
	if sp.HardKind != "" {
		hard = fmt.Sprintf("[(%d, %d)]", sp.HardAt, in.tok(*hardValue(sp)))
	}
	var tcps []*chainhash.Hash
	for k := 1; k*1000 <= sp.Tip; k++ {
		tcps = append(tcps, &fx.big.fheaders[k*1000])
	}
	obs := fmt.Sprintf("(%s, %s)", zlist(bans), ores)
	env := w.envTerm()
	res.term = fmt.Sprintf("CR %s\n  %s %s %s\n  %s\n  %s\n  %d %s\n  %s %s %s\n  %s", in.htab(),
		runsOf(in.toks(ch.hashes)), runsOf(in.toks(sh[:sp.FTip+1])), hard,
		c.List(w.raws), env, hint, c.List(cpTerms),
		w.truthTerm(), hashesTerm(in, tcps), honestTerm(sp), obs)
	if sp.Hand == nil {
		res.term = fmt.Sprintf("CQ %s (%s)", c.List(w.reqs), res.term)
	}
	res.sp.Obs = obs
	res.sig = fmt.Sprintf("R:t%d:f%d:p%d:l%s:h%s:s%v:ok%v:b%d", sp.Tip/1000, sp.FTip/500, len(sp.Peers), lieSig(sp),
		sp.HardKind, sp.StoreLieFrom > 0, rerr == nil, len(bans))
	res.nontriv = hasLiar(sp)
	if hc != nil {
		res.hand, res.sp.Rounds = hc.term(), hc.rnds
		res.sig = "H" + res.sig + fmt.Sprintf(":k%d:h%d:%s", min(sp.Hand.Burst, 9), sp.Hand.Hold, sp.Hand.Order)
	}
	if w.queries > 1 {
		res.fail = &c.ImplFailure{Case: fmt.Sprint(sp.ID), What: "more than one getcfheaders query in resolveConflict", Tag: "c03-harness-assumption"}
	}
	return res
}

func hardValue(sp *spec) *chainhash.Hash {
	// A control checkpoint beyond the end of the chain ("one entry beyond
	// the served lists") has no true value and is never compared: any
	// fixed value will do.
	if sp.HardKind == "true" && sp.HardAt >= 0 && sp.HardAt < len(fx.big.fheaders) {
		return &fx.big.fheaders[sp.HardAt]
	}
	var x chainhash.Hash
	rand.New(rand.NewSource(int64(sp.HardAt) + 5)).Read(x[:])
	return &x
}

var bigTips = []int{1000, 1499, 2000, 2750, 3000, 3300}

func genR(id int, seed int64, r *rand.Rand) *spec {
	sp := &spec{ID: id, Seed: seed, Family: "R"}
	sp.Tip = bigTips[r.Intn(len(bigTips))]
	switch r.Intn(5) {
	case 0:
		sp.FTip = 0
	case 1:
		sp.FTip = r.Intn(sp.Tip + 1)
	case 2:
		sp.FTip = (r.Intn(sp.Tip/1000+1))*1000 - r.Intn(2)
		if sp.FTip < 0 {
			sp.FTip = 0
		}
	default:
		sp.FTip = r.Intn(1200)
		if sp.FTip > sp.Tip {
			sp.FTip = sp.Tip
		}
	}
	inClass := r.Intn(10) < 7
	L := sp.Tip / 1000
	sp.Peers, sp.Honest = genPeers(r, 0, sp.Tip, inClass)
	for _, p := range sp.Peers {
		p.CpMode = "own"
		isHonest := false
		for _, h := range sp.Honest {
			if h == p.ID {
				isHonest = true
			}
		}
		if isHonest {
			continue
		}
		switch k := r.Intn(12); {
		case k < 2:
			p.CpMode, p.CpArg = "lie", r.Intn(L)
		case k < 3:
			p.CpMode, p.CpArg = "zero", r.Intn(L)
		case k < 4:
			p.CpMode, p.CpArg = "short", r.Intn(L)
		case k < 5 && !inClass:
			p.CpMode = "empty"
		case k < 6 && !inClass:
			p.CpMode = "absent"
		}
	}
	if r.Intn(4) == 0 {
		// duel at a height of the big chain with a planted unusual script
		var cands []int
		for _, h := range bigPlanted {
			if h <= L*1000 {
				cands = append(cands, h)
			}
		}
		h := cands[r.Intn(len(cands))]
		kind := duelKinds[r.Intn(len(duelKinds))]
		sp.Peers, sp.Honest = duelPeers(r, 1+r.Intn(2), 2+r.Intn(3), h, kind, r.Intn(3) != 0)
		for _, p := range sp.Peers {
			p.CpMode = "own"
		}
		sp.BlockFail, sp.StoreLieFrom = nil, 0
		if r.Intn(3) == 0 {
			// the block of the disputed height cannot be fetched
			sp.BlockFail = []int{h}
		}
		if sp.FTip >= h {
			sp.FTip = r.Intn(h)
		}
		return sp
	}
	if r.Intn(6) == 0 {
		// a hard-coded control checkpoint at the last entry of the served
		// lists, one entry before it, or one entry beyond them; all peers
		// that are not honest serve the same false value exactly there
		sp.HardAt = 1000 * (L - 1 + r.Intn(3))
		if sp.HardAt == 0 {
			sp.HardAt = 1000
		}
		sp.HardKind = "true"
		sp.BlockFail, sp.StoreLieFrom = nil, 0
		if sp.FTip >= sp.HardAt {
			sp.FTip = r.Intn(sp.HardAt)
		}
		nohonest := r.Intn(2) == 0
		for _, p := range sp.Peers {
			isHonest := false
			for _, h := range sp.Honest {
				isHonest = isHonest || h == p.ID
			}
			if !isHonest || nohonest {
				p.Lies, p.HdrMode = nil, "ok"
				p.CpMode, p.CpArg, p.CpSalt = "lie", sp.HardAt/1000-1, 77
			}
		}
		if nohonest {
			sp.Honest = nil
		}
		return sp
	}
	if r.Intn(5) == 0 {
		sp.HardAt = 1000 * (1 + r.Intn(L))
		sp.HardKind = "true"
		if !inClass && r.Intn(2) == 0 {
			sp.HardKind = "false"
		}
	}
	if !inClass && r.Intn(5) == 0 && sp.FTip > 1 {
		sp.StoreLieFrom = 1 + r.Intn(sp.FTip)
	}
	if !inClass && r.Intn(4) == 0 {
		sp.BlockFail = []int{r.Intn(sp.Tip + 1)}
	}
	return sp
}

// ---------------------------------------------------------------------
// Family C: the checkpointed fetch with a scripted dispatcher.

type scriptedDispatcher struct {
	run func(reqs []*query.Request) error
}

func (d *scriptedDispatcher) Query(reqs []*query.Request, _ ...query.QueryOption) chan error {
	errChan := make(chan error, 1)
	err := d.run(reqs)
	go func() {
		// let the consumer drain what was delivered before the verdict
		time.Sleep(150 * time.Millisecond)
		errChan <- err
	}()
	return errChan
}

func runC(sp *spec) (res result) {
	res.sp = *sp
	ch := fx.big.upTo(sp.Tip)
	in := newInterner(fx.bigIn, 10000000)
	e, done := openCopy(fx.bigTemplate(sp.Tip), sp.ID)
	defer done()
	if err := writeFilters(e.FS, ch, fx.big.fheaders, 1, sp.FTip); err != nil {
		panic(err)
	}
	w := setupWorld(sp, ch, in)
	byID := map[int64]*peerSpec{}
	for _, p := range sp.Peers {
		byID[p.ID] = p
	}
	// checkpoints handed to the fetch
	L := sp.Tip / 1000
	var cps []*chainhash.Hash
	for k := 1; k <= L; k++ {
		h := fx.big.fheaders[k*1000]
		cps = append(cps, &h)
	}
	if sp.CpsMode == "prefix1" {
		// a correct but truncated list: shorter than the filter tip's interval
		cps = cps[:1]
	}
	if sp.CpsMode == "collude-short" {
		// every peer agrees on a chain whose first requested batch is one
		// filter hash short: the checkpoints are those of that chain
		si := sp.FTip / 1000
		prev := fx.gfh
		if si > 0 {
			prev = fx.big.fheaders[si*1000]
		}
		last := si + 2
		if last > L {
			last = L
		}
		hs := fx.big.fhashes[si*1000+1 : last*1000] // one short
		x := prev
		for i, fh := range hs {
			x = hstep(fh, x)
			if (si*1000+1+i)%1000 == 0 {
				y := x
				cps[(si*1000+1+i)/1000-1] = &y
			}
		}
		y := x
		cps[last-1] = &y
	}
	var arrTerms []string
	disp := &scriptedDispatcher{}
	disp.run = func(reqs []*query.Request) error {
		finished := map[int]bool{}
		for _, a := range sp.Arrivals {
			if a.Q < 0 || a.Q >= len(reqs) {
				continue
			}
			q := reqs[a.Q].Req.(*wire.MsgGetCFHeaders)
			p := byID[a.Peer]
			stop := ch.byHash[q.StopHash]
			m := w.cfheaders(p, int(q.StartHeight), stop, q.StopHash)
			switch a.Mode {
			case "short1":
				m.FilterHashes = m.FilterHashes[:len(m.FilterHashes)-1]
			case "long1":
				m.FilterHashes = append(m.FilterHashes, m.FilterHashes[0])
			case "wrongprev":
				rand.New(rand.NewSource(int64(a.Q)*3 + a.Peer)).Read(m.PrevFilterHeader[:])
			case "wrongstop":
				m.StopHash = ch.hashes[0]
			case "wrongtype":
				m.FilterType = wire.FilterType(9)
			case "empty":
				m.FilterHashes = nil
			}
			arrTerms = append(arrTerms, fmt.Sprintf("(%d, %d, %s, %s)", a.Q, a.Peer,
				c.Bool(m.FilterType == wire.GCSFilterRegular), w.msgTerm(m)))
			if finished[a.Q] {
				continue
			}
			pr := reqs[a.Q].HandleResp(reqs[a.Q].Req, m, p.addr())
			if pr.Finished {
				finished[a.Q] = true
			}
		}
		if len(finished) == len(reqs) {
			return nil
		}
		return query.ErrQueryTimeout
	}
	bm, err := neutrino.VerifC03New(neutrino.VerifC03Config{ChainParams: caseParams(sp.ID),
		BlockHeaders: e.BS, RegFilterHeaders: e.FS, Respond: w.respond, GetBlock: w.getBlock,
		BanPeer: w.banPeer, Dispatcher: disp})
	if err != nil {
		panic(err)
	}
	defer bm.Quit()
	doneCh := make(chan error, 1)
	go func() { doneCh <- bm.GetCheckpointedCFHeaders(cps) }()
	var gerr error
	select {
	case gerr = <-doneCh:
	case <-time.After(5 * time.Second):
		bm.Quit()
		select {
		case gerr = <-doneCh:
		case <-time.After(10 * time.Second):
			res.fail = &c.ImplFailure{Case: fmt.Sprint(sp.ID), What: "getCheckpointedCFHeaders hangs after quit", Tag: "c03-hang"}
			return res
		}
	}
	// the first-interval trimming needs H on the trimmed message
	if sp.FTip%1000 != 0 || true {
		si := sp.FTip / 1000
		last := si + 2
		if last > L {
			last = L
		}
		if last*1000 > sp.FTip && L > si {
			for _, p := range sp.Peers {
				in.chain(fx.big.fheaders[sp.FTip], p.fhashes[sp.FTip+1:last*1000+1])
			}
		}
	}
	ft, fh, ferr := e.FS.ChainTip()
	fts := "None"
	if ferr == nil {
		fts = optPair(true, in.tok(*ft), int64(fh))
	}
	bans := w.sortedBans()
	obs := fmt.Sprintf("(%s, %s, %s)", zlist(bans), fts, c.Bool(gerr != nil))
	res.term = fmt.Sprintf("CC %s\n  %s %s %d %s\n  %s\n  %s\n  %s", in.htab(),
		runsOf(in.toks(ch.hashes)), runsOf(in.toks(fx.big.fheaders[:sp.FTip+1])), in.tok(fx.gfh),
		hashesTerm(in, cps), c.List(arrTerms), w.truthTerm(), obs)
	res.sp.Obs = obs
	var am []string
	for _, a := range sp.Arrivals {
		am = append(am, a.Mode[:2])
	}
	sort.Strings(am)
	res.sig = fmt.Sprintf("C:t%d:f%d:%s:%s:p%v:b%d", sp.Tip/1000, sp.FTip/250, sp.CpsMode, strings.Join(am, ""), gerr != nil, len(bans))
	res.nontriv = len(bans) > 0 || sp.FTip%1000 != 0
	return res
}

func genC(id int, seed int64, r *rand.Rand) *spec {
	sp := &spec{ID: id, Seed: seed, Family: "C", CpsMode: "truth"}
	sp.Tip = bigTips[r.Intn(len(bigTips))]
	L := sp.Tip / 1000
	switch r.Intn(4) {
	case 0:
		sp.FTip = 0
	case 1:
		sp.FTip = r.Intn(L*1000 + 1)
	case 2:
		sp.FTip = r.Intn(L+1) * 1000
	default:
		sp.FTip = r.Intn(sp.Tip + 1)
	}
	n := 2 + r.Intn(3)
	for i := 0; i < n; i++ {
		p := &peerSpec{ID: int64(i + 1), HdrMode: "ok"}
		if i > 0 && r.Intn(2) == 0 {
			p.Lies = []lie{{Height: 1 + r.Intn(sp.Tip), Kind: "inconsistent"}}
		}
		sp.Peers = append(sp.Peers, p)
	}
	si := sp.FTip / 1000
	nq := 0
	if L > si {
		nq = (L - si + 1) / 2
	}
	malformed := r.Intn(10) >= 6
	for q := 0; q < nq; q++ {
		k := 1 + r.Intn(3)
		for j := 0; j < k; j++ {
			mode := "own"
			if malformed && r.Intn(3) == 0 {
				mode = []string{"short1", "long1", "wrongprev", "wrongstop", "wrongtype", "empty"}[r.Intn(6)]
			}
			peer := int64(1 + r.Intn(n))
			if j == k-1 && r.Intn(5) != 0 {
				peer, mode = 1, "own" // an honest answer last
			}
			sp.Arrivals = append(sp.Arrivals, arrivalSpec{Q: q, Peer: peer, Mode: mode})
		}
	}
	r.Shuffle(len(sp.Arrivals), func(i, j int) { sp.Arrivals[i], sp.Arrivals[j] = sp.Arrivals[j], sp.Arrivals[i] })
	if malformed && r.Intn(4) == 0 && nq > 0 {
		sp.CpsMode = "collude-short"
		sp.Arrivals = []arrivalSpec{{Q: 0, Peer: 1, Mode: "short1"}}
	}
	return sp
}

// ---------------------------------------------------------------------
// Tables of the pure functions.

func auxRows(seed int64, n int) []string {
	r := rand.New(rand.NewSource(seed*31 + 5))
	var rows []string
	iv, mx, pq := neutrino.VerifC03Consts()
	rows = append(rows, fmt.Sprintf("CA (AConsts %d %d %d)", iv, mx, pq))
	// a shared read-only store for checkCFCheckptSanity
	const sTip, sF = 3300, 2500
	e, done := openCopy(fx.bigTemplate(sTip), 999999)
	defer done()
	if err := writeFilters(e.FS, fx.big, fx.big.fheaders, 1, sF); err != nil {
		panic(err)
	}
	pick := func(in *interner, pool []chainhash.Hash) chainhash.Hash {
		switch r.Intn(6) {
		case 0:
			return zeroHash
		case 1:
			var x chainhash.Hash
			r.Read(x[:])
			return x
		}
		return pool[r.Intn(len(pool))]
	}
	for i := 0; i < n; i++ {
		in := newInterner(fx.bigIn, 10000000)
		switch i % 8 {
		case 0: // verifyCheckpoint
			k := r.Intn(5)
			var hs []*chainhash.Hash
			pool := fx.big.fhashes[1:8]
			for j := 0; j < k; j++ {
				x := pick(in, pool)
				hs = append(hs, &x)
			}
			prev := pick(in, fx.big.fheaders[:3])
			m := &wire.MsgCFHeaders{PrevFilterHeader: prev, FilterHashes: hs}
			derived := in.chainPtr(prev, hs)
			next := pick(in, fx.big.fheaders[:3])
			if len(derived) > 0 && r.Intn(2) == 0 {
				next = derived[len(derived)-1]
			}
			pc := prev
			if r.Intn(4) == 0 {
				pc = pick(in, fx.big.fheaders[:3])
			}
			exp := neutrino.VerifC03VerifyCheckpoint(&pc, &next, m)
			hv := make([]chainhash.Hash, len(hs))
			for j := range hs {
				hv[j] = *hs[j]
			}
			rows = append(rows, fmt.Sprintf("CA (AVerify %s %d %d (%d, 0, %s) %s)", in.htab(), in.tok(pc), in.tok(next),
				in.tok(prev), runsOf(in.toks(hv)), c.Bool(exp)))
		case 1: // checkCFCheckptSanity
			np := r.Intn(5)
			cp := map[string][]*chainhash.Hash{}
			var terms []string
			for p := 0; p < np; p++ {
				k := r.Intn(4)
				var l []*chainhash.Hash
				var t []int64
				for j := 0; j < k; j++ {
					x := fx.big.fheaders[(j+1)*1000]
					if r.Intn(5) == 0 {
						x = pick(in, fx.big.fheaders[1000:1003])
					}
					l = append(l, &x)
					t = append(t, in.tok(x))
				}
				cp[fmt.Sprint(p)] = l
				terms = append(terms, fmt.Sprintf("(%d, %s)", p, zlist(t)))
			}
			idx, err := neutrino.VerifC03CheckCFCheckptSanity(cp, e.FS)
			if err != nil {
				idx = -2
			}
			rows = append(rows, fmt.Sprintf("CA (ASanity %s %s %s)", c.List(terms),
				runsOf(in.toks(fx.big.fheaders[:sF+1])), c.Z(int64(idx))))
		case 2: // minCheckpointHeight
			np := r.Intn(5)
			cp := map[string][]*chainhash.Hash{}
			var terms []string
			for p := 0; p < np; p++ {
				k := r.Intn(5)
				cp[fmt.Sprint(p)] = make([]*chainhash.Hash, k)
				terms = append(terms, fmt.Sprintf("(%d, %d)", p, k))
			}
			rows = append(rows, fmt.Sprintf("CA (AMinCp %s %d)", c.List(terms), neutrino.VerifC03MinCheckpointHeight(cp)))
		case 3: // checkForCFHeaderMismatch
			np := 1 + r.Intn(5)
			hm := map[string]*wire.MsgCFHeaders{}
			var terms []string
			pool := fx.big.fhashes[1:4]
			for p := 0; p < np; p++ {
				k := r.Intn(4)
				m := &wire.MsgCFHeaders{}
				var t []int64
				for j := 0; j < k; j++ {
					x := pool[j%len(pool)]
					if r.Intn(4) == 0 {
						x = pick(in, pool)
					}
					m.FilterHashes = append(m.FilterHashes, &x)
					t = append(t, in.tok(x))
				}
				hm[fmt.Sprint(p)] = m
				terms = append(terms, fmt.Sprintf("(%d, %s)", p, zlist(t)))
			}
			idx := r.Intn(4)
			rows = append(rows, fmt.Sprintf("CA (AMismatch %s %d %s)", c.List(terms), idx,
				c.Bool(neutrino.VerifC03CheckForCFHeaderMismatch(hm, idx))))
		case 4, 5: // resolveFilterMismatchFromBlock
			h := 1 + r.Intn(bigN)
			for k := 0; k < 8 && len(fx.big.blocks[h].Transactions) < 2; k++ {
				h = 1 + r.Intn(bigN)
			}
			if r.Intn(4) == 0 {
				h = bigPlanted[r.Intn(len(bigPlanted))]
			}
			b := fx.big.blocks[h]
			np := 1 + r.Intn(6)
			fm := map[string]*gcs.Filter{}
			var fl, orc []string
			seen := map[int64]bool{}
			kinds := []string{fTrue, fTrue, fTrue, fOmit, fOmitX, fOmitCb, fOmitPrev, fExtra, fOpret, fOtherKey}
			for p := 1; p <= np; p++ {
				f := fx.big.doctored(kinds[r.Intn(len(kinds))], h, r.Intn(3))
				fm[fmt.Sprintf("10.0.0.%d:18555", p)] = f
				ft, row := oracleRow(in, f, b)
				if !seen[ft] {
					seen[ft] = true
					orc = append(orc, row)
				}
				fl = append(fl, fmt.Sprintf("(%d, %d)", p, ft))
			}
			th := (np + 2) / 2
			if r.Intn(4) == 0 {
				th = 1 + r.Intn(np+1)
			}
			bad, err := neutrino.VerifC03ResolveFilterMismatchFromBlock(b, fm, th)
			exp := "None"
			if err == nil {
				var ids []int64
				for _, a := range bad {
					var x int64
					fmt.Sscanf(a, "10.0.0.%d:18555", &x)
					ids = append(ids, x)
				}
				sort.Slice(ids, func(i, j int) bool { return ids[i] < ids[j] })
				exp = c.Some(zlist(ids))
			}
			rows = append(rows, fmt.Sprintf("CA (AFromBlock %s %s %s %d %s)", absOf(b).term, c.List(orc), c.List(fl), th, exp))
		default: // VerifyBasicBlockFilter on blocks full of unusual scripts
			var prev chainhash.Hash
			r.Read(prev[:])
			b := mkBlock(r, prev, 1+r.Intn(5000), r.Intn(4), true)
			var force []string
			for k := r.Intn(4); k > 0; k-- {
				all := []string{"unparse", "big", "bigbad", "empty", "opretx", "p2tr", "nonstd", "opret",
					"cb-unparse", "cb-big", "cb-opret", "cb-empty", "wit-wpkh", "wit-wsh", "wit-nested", "wit-tr", "wit-badsig"}
				force = append(force, all[r.Intn(len(all))])
			}
			prevs := decorate(b, r, true, force)
			truth, err := builder.BuildBasicFilter(b, prevs)
			if err != nil {
				panic(err)
			}
			kinds := []string{fTrue, fTrue, fOmit, fOmitX, fOmitX, fOmitCb, fOmitPrev, fExtra, fOpret, fOtherKey, fEmpty}
			f := doctoredB(kinds[r.Intn(len(kinds))], b, prevs, truth, r.Intn(5))
			n, verr := neutrino.VerifyBasicBlockFilter(f, btcutil.NewBlock(b))
			exp := "None"
			if verr == nil {
				exp = c.Some(c.Z(int64(n)))
			}
			a := absOf(b)
			rows = append(rows, fmt.Sprintf("CA (AVerifyFilter %s %s %s)", a.term, a.matched(f, b), exp))
		}
	}
	// ValidateCFHeader through resolveConflict is covered by family R; the
	// table function directly:
	for i := 0; i < 6; i++ {
		in := newInterner(fx.bigIn, 10000000)
		p := chaincfg.SimNetParams
		p.Net = wire.BitcoinNet(0xC03A0000 + uint32(i))
		at := uint32(1000 * (1 + r.Intn(3)))
		val := fx.big.fheaders[at]
		chainsync.VerifSetFilterHeaderCheckpoints(p.Net, map[uint32]*chainhash.Hash{at: &val})
		var t []int64
		bad := false
		for k := 1; k <= 3; k++ {
			x := fx.big.fheaders[k*1000]
			if r.Intn(4) == 0 {
				r.Read(x[:])
			}
			if err := chainsync.ValidateCFHeader(p, wire.GCSFilterRegular, uint32(k*1000), &x); err != nil {
				bad = true
			}
			t = append(t, in.tok(x))
		}
		rows = append(rows, fmt.Sprintf("CA (AHard [(%d, %d)] %s %s)", at, in.tok(val), zlist(t), c.Bool(bad)))
	}
	return rows
}

// ---------------------------------------------------------------------

func runSpec(sp *spec) (res result) {
	done := make(chan result, 1)
	go func() {
		defer func() {
			if r := recover(); r != nil {
				done <- result{sp: *sp, fail: &c.ImplFailure{Case: fmt.Sprint(sp.ID),
					What: fmt.Sprintf("harness/implementation panic: %v", r), Tag: "c03-panic"}}
			}
		}()
		switch sp.Family {
		case "S":
			done <- runS(sp)
		case "U", "HU":
			done <- runU(sp)
		case "R", "HR":
			done <- runR(sp)
		case "C":
			done <- runC(sp)
		}
	}()
	select {
	case res = <-done:
	case <-time.After(60 * time.Second):
		res = result{sp: *sp, fail: &c.ImplFailure{Case: fmt.Sprint(sp.ID), What: "case did not finish in 60 s", Tag: "c03-hang"}}
	}
	return res
}

// defaultLoop is set by cmd/c03loop (same sources): family L by default.
var defaultLoop bool

func main() {
	loopFlag := flag.Bool("loop", defaultLoop, "run family L (the cfHandler loop) only")
	a := c.ParseArgs()
	if a.Replay != "" {
		var sp spec
		var wrap struct {
			History *spec `json:"history"`
		}
		c.ReadJSON(a.Replay, &wrap)
		if wrap.History != nil {
			sp = *wrap.History
		} else {
			c.ReadJSON(a.Replay, &sp)
		}
		if sp.Family == "L" {
			sp.Obs, sp.Sig = "", ""
			mainLoop(a, &sp)
			return
		}
	}
	if *loopFlag {
		mainLoop(a, nil)
		return
	}
	rep := c.NewReport("C03", a)
	base := filepath.Join(a.Out, "stores")
	os.RemoveAll(base)
	os.MkdirAll(base, 0o755)
	defer os.RemoveAll(base)
	fx.setup(base)

	nS, nU, nR, nC, nA := 14, 26, 18, 8, 80
	nHU, nHR := 12, 3
	if a.Tier == "thorough" {
		nS, nU, nR, nC, nA = 300, 600, 360, 120, 800
		nHU, nHR = 240, 40
	}
	// the real queryAllPeers of the HU / HR cases: their rounds are ended by
	// the harness, the timeout is only a safety net
	neutrino.QueryTimeout = 8 * time.Second
	var specs []*spec
	if a.Replay != "" {
		var sp spec
		var wrap struct {
			History *spec `json:"history"`
		}
		c.ReadJSON(a.Replay, &wrap)
		if wrap.History != nil {
			sp = *wrap.History
		} else {
			c.ReadJSON(a.Replay, &sp)
		}
		sp.Obs, sp.Sig = "", ""
		specs = append(specs, &sp)
		nA = 0
	} else {
		files, _ := filepath.Glob("../corpus/C03/*.json")
		sort.Strings(files)
		for _, f := range files {
			if strings.HasPrefix(filepath.Base(f), "f18-") || strings.HasPrefix(filepath.Base(f), "loop-") {
				// schedules of the interleaving harness (cmd/c03conc),
				// scripts of family L (c03 -loop)
				continue
			}
			var sp spec
			c.ReadJSON(f, &sp)
			sp.Obs, sp.Sig = "", ""
			specs = append(specs, &sp)
		}
		id := 1
		add := func(n int, gen func(int, int64, *rand.Rand) *spec) {
			for i := 0; i < n; i++ {
				specs = append(specs, gen(id, a.Seed, c.Rng(a.Seed, id)))
				id++
			}
		}
		add(nS, genS)
		add(nU, genU)
		add(nR, genR)
		add(nC, genC)
		// the families added later draw their ids from their own range, so
		// that the cases above stay what they were
		id = 20001
		add(nHU, genHU)
		add(nHR, genHR)
	}
	// hard-coded checkpoint tables are installed before anything runs
	for _, sp := range specs {
		if (sp.Family == "R" || sp.Family == "HR" || sp.Family == "L") && sp.HardKind != "" {
			chainsync.VerifSetFilterHeaderCheckpoints(caseParams(sp.ID).Net,
				map[uint32]*chainhash.Hash{uint32(sp.HardAt): hardValue(sp)})
		}
	}
	var aux []string
	if nA > 0 {
		aux = auxRows(a.Seed, nA)
	}
	results := make([]result, len(specs))
	var wg sync.WaitGroup
	sem := make(chan struct{}, a.Workers)
	for i := range specs {
		wg.Add(1)
		sem <- struct{}{}
		go func(i int) {
			defer wg.Done()
			defer func() { <-sem }()
			results[i] = runSpec(specs[i])
		}(i)
	}
	wg.Wait()

	distinct := c.Signatures{}
	var terms, hterms []string
	for i := range results {
		rs := &results[i]
		rs.sp.Sig = rs.sig
		p := filepath.Join(a.Out, fmt.Sprintf("hist-%d.json", rs.sp.ID))
		c.WriteJSON(p, rs.sp)
		rep.Cases[fmt.Sprint(rs.sp.ID)] = p
		rep.Histogram["family:"+rs.sp.Family]++
		if rs.fail != nil {
			rep.ImplFailures = append(rep.ImplFailures, *rs.fail)
		}
		if rs.term != "" && rs.hand != "" {
			hterms = append(hterms, fmt.Sprintf("(%d, (%s,\n  %s))", rs.sp.ID, rs.term, rs.hand))
		} else if rs.term != "" {
			terms = append(terms, fmt.Sprintf("(%d, %s)", rs.sp.ID, rs.term))
			for _, t := range rs.more {
				terms = append(terms, fmt.Sprintf("(%d, %s)", rs.sp.ID, t))
			}
		}
		if rs.sp.Hand != nil {
			rep.Histogram[fmt.Sprintf("handoff_rounds")] += len(rs.sp.Rounds)
			for _, rd := range rs.sp.Rounds {
				for _, e := range rd.Evs {
					if e.K == 0 {
						rep.Histogram["handoff_messages_handed_to_OnRead"]++
					} else if e.K == 1 {
						rep.Histogram["handoff_callback_invocations"]++
					}
				}
			}
		}
		if rs.nontriv {
			distinct.Add(rs.sig)
		}
		for _, pz := range rs.sp.Peers {
			rep.Histogram["hdr_mode:"+pz.HdrMode]++
			for _, l := range pz.Lies {
				rep.Histogram["lie:"+l.Kind]++
			}
			if pz.CpMode != "" {
				rep.Histogram["cp_mode:"+pz.CpMode]++
			}
		}
		for _, fo := range rs.sp.Force {
			rep.Histogram["force:"+fo.Kind]++
		}
		for _, op := range rs.sp.Ops {
			rep.Histogram["sop:"+op.Kind+":"+op.Mode]++
		}
		for _, ar := range rs.sp.Arrivals {
			rep.Histogram["arrival:"+ar.Mode]++
		}
	}
	for i, row := range aux {
		terms = append(terms, fmt.Sprintf("(%d, %s)", 1000000+i, row))
	}
	rep.Histogram["aux_rows"] = len(aux)
	const perShard = 60
	shard := 0
	for start := 0; start < len(terms); start += perShard {
		end := start + perShard
		if end > len(terms) {
			end = len(terms)
		}
		var sb strings.Builder
		sb.WriteString("From Coq Require Import ZArith List.\nFrom Verif Require Import S1.Model C03.Model C03.Spec C03.Replay.\nImport ListNotations.\nOpen Scope Z_scope.\n")
		sb.WriteString("Definition cases : list (Z * case) := [\n")
		sb.WriteString(strings.Join(terms[start:end], ";\n"))
		sb.WriteString("].\nDefinition R := Eval vm_compute in (run_cases cases).\nSet Printing Width 1000000.\nSet Printing Depth 1000000.\nPrint R.\n")
		c.WriteFile(filepath.Join(a.Out, fmt.Sprintf("cases_%d.v", shard)), sb.String())
		shard++
	}
	for start := 0; start < len(hterms); start += 40 {
		end := min(start+40, len(hterms))
		var sb strings.Builder
		sb.WriteString("From Coq Require Import ZArith List.\nFrom Verif Require Import S1.Model C03.Model C03.Spec C03.Replay C03.ReplayHand.\nImport ListNotations.\nOpen Scope Z_scope.\n")
		sb.WriteString("Definition cases : list (Z * hcase) := [\n")
		sb.WriteString(strings.Join(hterms[start:end], ";\n"))
		sb.WriteString("].\nDefinition R := Eval vm_compute in (run_hcases cases).\nSet Printing Width 1000000.\nSet Printing Depth 1000000.\nPrint R.\n")
		c.WriteFile(filepath.Join(a.Out, fmt.Sprintf("cases_h%d.v", start/40)), sb.String())
	}
	rep.Evaluations = len(results) + len(aux)
	rep.DistinctNontrivial = len(distinct)
	rep.Rule = "S: histories of block appends / writeCFHeadersMsg (valid and malformed messages) / rollBackToHeight on real stores, non-trivial = contains an append, a successful write and a rollback; U/R: getUncheckpointedCFHeaders / resolveConflict with 2-6 scripted peers, blocks with unusual output scripts (unparseable, oversized, empty, OP_RETURN-prefixed, coinbase) and witness inputs, real filters and doctored variants (omitting an ordinary / unusual / coinbase / spent script, extra element, old-style, other key), duels of 1-2 honest against 2-4 liars at one height, non-trivial = at least one peer deviates (lie in a filter hash, in a checkpoint, bad answer, silence); HU/HR: the same two functions with the REAL ChainService.queryAllPeers and ServerPeer.OnRead between the peers' messages and the round's callback (hook VerifC03NewHand): per round one message occupies the callback, which is held busy while the first deviating peer hands over its answer and a burst of len(peers)+1..+8 unrelated messages (ping / inv / pong), then the other peers hand over their answers (or everything shuffled), then the callback is released; every message handed to OnRead and every callback invocation is recorded; C: getCheckpointedCFHeaders with scripted arrivals, non-trivial = a peer was banned or the first interval is partial; distinct = distinct signature (family, sizes, sorted lie kinds per peer, outcome class)"
	for i := 0; i < len(results) && len(rep.Samples) < 3; i += 1 + len(results)/3 {
		rep.Samples = append(rep.Samples, results[i].sp)
	}
	rep.Write(a.Out)
}
