// Correspondence harness for C07 (and the sequential part of S1): drives the
// real headerfs block and filter header stores (bbolt + flat files in a temp
// dir) with generated append / rollback / reopen / read histories and single
// injected I/O faults, and writes the observations as Coq cases.
package main

import (
	"fmt"
	"os"
	"path/filepath"
	"strings"
	"sync"
	"time"

	c "verifharness/internal/common"
	"verifharness/internal/storeh"
)

type Op = storeh.Op
type History = storeh.History

func runOne(id int, seed int64, nops int, base string, pool *storeh.Pool, replay *History) (h History, sig string, failedReopen bool) {
	tmpl, err := storeh.Template(base)
	if err != nil {
		panic(err)
	}
	dir := filepath.Join(base, fmt.Sprintf("h%d", id))
	os.RemoveAll(dir)
	if err := storeh.CopyDir(tmpl, dir); err != nil {
		panic(err)
	}
	defer os.RemoveAll(dir)
	e := &storeh.Env{Dir: dir, Pool: pool, RaceReader: true}
	if err := e.Open(); err != nil {
		panic(err)
	}
	defer e.Close()
	h.ID = id
	var sb strings.Builder
	if replay != nil {
		for i := range replay.Ops {
			op := replay.Ops[i]
			op.Obs = ""
			ok := e.Exec(&op)
			h.Ops = append(h.Ops, op)
			if !ok {
				break
			}
		}
		return h, "replay", false
	}
	r := c.Rng(seed, id)
	g := &storeh.Gen{R: r, E: e, Used: map[int64]bool{}}
	g.Resync()
	malformedHist := id%10 >= 7 // 30 % of histories may contain ill-formed calls / double faults
	for len(h.Ops) < nops {
		op := g.Next(malformedHist && r.Intn(3) == 0)
		ok := e.Exec(&op)
		h.Ops = append(h.Ops, op)
		code := map[string]string{"bwrite": "B", "fwrite": "F", "brollback": "R", "frollback": "r", "reopen": "O", "legacy": "L"}[op.Kind]
		if code == "" {
			code = "q"
		}
		if op.Fault != "" {
			code += "!"
		}
		if !op.WF {
			code += "~"
		}
		sb.WriteString(code)
		if !ok {
			return h, sb.String(), true
		}
		if op.Kind[0] != 'q' {
			g.Resync()
		}
		// A by-hash reader against a reorganising writer: FetchHeader(tip)
		// is interrupted right after its index lookup; another goroutine
		// rolls the tip back and appends a different header at its height.
		// The reader holds the read lock across both of its steps, so the
		// writer has to wait (the hook gives up after 30 ms) and the reader
		// gets the old tip; a reader that let the writer in between must at
		// least not be handed the OTHER header under the old hash.
		if !malformedHist && op.Kind[0] == 'q' && len(g.Chain) >= 3 && g.FChain < len(g.Chain) && r.Intn(4) == 0 {
			tipTok := g.Chain[len(g.Chain)-1]
			tipHash := pool.Hash(tipTok)
			rb := Op{Kind: "brollback", N: 1, WF: true}
			fresh := int64(1 + r.Intn(550))
			for g.Used[fresh] || fresh == pool.Genesis {
				fresh = int64(1 + r.Intn(550))
			}
			wr := Op{Kind: "bwrite", Es: []storeh.Ent{{A: fresh, B: int64(len(g.Chain) - 1)}}, WF: true}
			done := make(chan struct{})
			e.DB.AfterView = func() {
				go func() {
					defer close(done)
					e.Exec(&rb)
					e.Exec(&wr)
				}()
				select {
				case <-done:
				case <-time.After(30 * time.Millisecond):
				}
			}
			hdr, _, ferr := e.BS.FetchHeader(&tipHash)
			if e.DB.AfterView != nil {
				// no read transaction was made: run the writer now
				hk := e.DB.AfterView
				e.DB.AfterView = nil
				hk()
			}
			<-done
			if ferr == nil && hdr.BlockHash() != tipHash {
				h.ConcRead = "FetchHeader(old tip hash) raced with a rollback and an append at its height and returned the OTHER header"
			}
			h.Ops = append(h.Ops, rb, wr)
			sb.WriteString("RB")
			g.Resync()
		}
		// right after an append, look some of its hashes up through BOTH
		// stores (each store has its own index object over the shared
		// database: anything one of them remembers must not outlive a
		// rollback done through the other)
		if op.Kind == "bwrite" && op.Obs == "(ORes true)" && len(op.Es) > 0 && r.Intn(2) == 0 {
			for k := 0; k < 2 && k < len(op.Es); k++ {
				t := op.Es[r.Intn(len(op.Es))].A
				for _, q := range []Op{{Kind: "qfhash", X: t, WF: true}, {Kind: "qheightof", X: t, WF: true}} {
					q := q
					e.Exec(&q)
					h.Ops = append(h.Ops, q)
					sb.WriteString("q")
				}
			}
		}
	}
	g.Resync()
	dump := storeh.FullDump(g)
	// range reads (one ReadAt over several entries) for the concurrent phase
	if n := int64(len(g.Chain)); n > 0 {
		for _, k := range []int64{1, 2, n - 1, n / 2} {
			if k < 0 {
				continue
			}
			for _, t := range []int64{g.Chain[n-1], g.Chain[n/2]} {
				dump = append(dump, storeh.Op{Kind: "qbanc", N: k, X: t, WF: true}, storeh.Op{Kind: "qfanc", N: k, X: t, WF: true})
			}
		}
		dump = append(dump, storeh.Op{Kind: "qlocator", X: g.Chain[n-1], WF: true})
	}
	for i := range dump {
		e.Exec(&dump[i])
		h.Ops = append(h.Ops, dump[i])
	}
	// Concurrent readers: the same read-only dump from several goroutines at
	// once must give every goroutine the answers of the sequential dump
	// (the read methods only take the store's read lock).
	const readers, rounds = 6, 4
	var rwg sync.WaitGroup
	bad := make([]string, readers)
	for r := 0; r < readers; r++ {
		rwg.Add(1)
		go func(r int) {
			defer rwg.Done()
			for k := 0; k < rounds && bad[r] == ""; k++ {
				for i := range dump {
					op := dump[(i+r*7)%len(dump)]
					want := op.Obs
					op.Obs = ""
					e.Exec(&op)
					if op.Obs != want {
						bad[r] = fmt.Sprintf("%s: concurrent read gave %s, sequential read gave %s", storeh.OpTerm(&op), op.Obs, want)
						break
					}
				}
			}
		}(r)
	}
	rwg.Wait()
	for _, b := range bad {
		if b != "" {
			h.ConcRead = b
			break
		}
	}
	return h, sb.String(), false
}

func main() {
	a := c.ParseArgs()
	rep := c.NewReport("C07", a)
	base := filepath.Join(a.Out, "stores")
	os.MkdirAll(base, 0o755)
	defer os.RemoveAll(base)

	// genesis filter header token: read from a fresh template store
	gf, err := storeh.ProbeGenesisFilter(base)
	if err != nil {
		panic(err)
	}
	pool := storeh.NewPool(600, gf)

	n, nops := 60, 25
	if a.Tier == "thorough" {
		n, nops = 1500, 40
	}
	var replay *History
	if a.Replay != "" {
		var h History
		c.ReadJSON(a.Replay, &h)
		replay = &h
		n = 1
	}
	// corpus of minimised regression histories runs first
	var corpus []History
	if replay == nil {
		files, _ := filepath.Glob("../corpus/C07/*.json")
		for _, f := range files {
			var h History
			c.ReadJSON(f, &h)
			corpus = append(corpus, h)
		}
	}
	n += len(corpus)
	hs := make([]History, n)
	sigs := make([]string, n)
	var wg sync.WaitGroup
	sem := make(chan struct{}, a.Workers)
	for i := 0; i < n; i++ {
		wg.Add(1)
		sem <- struct{}{}
		go func(i int) {
			defer wg.Done()
			defer func() { <-sem }()
			id := i
			rp := replay
			if replay != nil {
				id = replay.ID
			} else if i >= n-len(corpus) {
				rp = &corpus[i-(n-len(corpus))]
				id = rp.ID
			}
			hs[i], sigs[i], _ = runOne(id, a.Seed, nops, base, pool, rp)
		}(i)
	}
	wg.Wait()

	// One history over its own, larger header pool: appends of a whole
	// headers message (more entries than any internal chunking of the index
	// transaction would use), one of them with the second database update
	// from its start failing (a no-op while the append is one transaction).
	const bigID, bigN = 860, 4500
	var big History
	var bigPool *storeh.Pool
	if replay == nil {
		bigPool = storeh.NewPool(2*bigN+300, gf)
		mk := func(from, cnt, ht int64, fault string) Op {
			op := Op{Kind: "bwrite", WF: true, Fault: fault}
			for t := from; int64(len(op.Es)) < cnt; t++ {
				if t == bigPool.Genesis {
					continue
				}
				op.Es = append(op.Es, storeh.Ent{A: t, B: ht})
				ht++
			}
			return op
		}
		first := mk(1, bigN, 1, "db2")
		bh := History{ID: bigID, Ops: []Op{first}}
		probe := func(op *Op) {
			bh.Ops = append(bh.Ops, Op{Kind: "qbtip", WF: true}, Op{Kind: "qlatest", WF: true})
			for _, i := range []int{0, 1, 999, 1000, 1999, 2000, 2001, 4095, 4096, len(op.Es) - 1} {
				t := op.Es[i].A
				bh.Ops = append(bh.Ops, Op{Kind: "qheightof", X: t, WF: true}, Op{Kind: "qbhash", X: t, WF: true},
					Op{Kind: "qbheight", N: op.Es[i].B, WF: true}, Op{Kind: "qbanc", N: 1, X: t, WF: true})
			}
		}
		probe(&first)
		second := mk(first.Es[len(first.Es)-1].A+1, bigN, bigN+1, "")
		bh.Ops = append(bh.Ops, second)
		probe(&second)
		bh.Ops = append(bh.Ops, Op{Kind: "reopen", WF: true})
		probe(&first)
		probe(&second)
		// header ranges longer than one headers message, read in one call
		last := second.Es[len(second.Es)-1].A
		for _, n := range []int64{2000, 2050} {
			bh.Ops = append(bh.Ops, Op{Kind: "qbanc", N: n, X: last, WF: true})
		}
		// an old database (the entries of heights 1..6000 in the root bucket)
		// and one rollback whose range lies on both sides of that boundary
		// and is longer than one headers message
		leg := Op{Kind: "legacy", WF: true}
		for _, en := range append(append([]storeh.Ent{}, first.Es...), second.Es[:1500]...) {
			leg.Es = append(leg.Es, storeh.Ent{A: en.A})
		}
		bh.Ops = append(bh.Ops, leg, Op{Kind: "brollback", N: 4000, WF: true})
		probe(&first)
		probe(&second)
		bh.Ops = append(bh.Ops, Op{Kind: "reopen", WF: true})
		probe(&second)
		big, _, _ = runOne(bigID, a.Seed, 0, base, bigPool, &bh)
		var sb strings.Builder
		sb.WriteString("From Coq Require Import ZArith List.\nFrom Verif Require Import S1.Model C07.Replay.\nImport ListNotations.\nOpen Scope Z_scope.\n")
		sb.WriteString(fmt.Sprintf("Definition genesis : Z := %d.\nDefinition gfh : Z := %d.\n", bigPool.Genesis, bigPool.GenesisFilter))
		var items []string
		for j := range big.Ops {
			if big.Ops[j].Panic != "" {
				break
			}
			items = append(items, c.Pair(storeh.OpTerm(&big.Ops[j]), big.Ops[j].Obs))
		}
		sb.WriteString("Definition cases : list (Z * list (op * obs)) := [\n" + c.Pair(c.Z(bigID), c.List(items)))
		sb.WriteString("].\nDefinition R := Eval vm_compute in (run_cases genesis gfh cases).\nSet Printing Width 1000000.\nSet Printing Depth 1000000.\nPrint R.\n")
		c.WriteFile(filepath.Join(a.Out, "cases_big.v"), sb.String())
		hs = append(hs, big)
		sigs = append(sigs, "big")
	}

	shard := 0
	const perShard = 150
	distinct := c.Signatures{}
	for start := 0; start < n; start += perShard {
		end := start + perShard
		if end > n {
			end = n
		}
		var sb strings.Builder
		sb.WriteString("From Coq Require Import ZArith List.\nFrom Verif Require Import S1.Model C07.Replay.\nImport ListNotations.\nOpen Scope Z_scope.\n")
		sb.WriteString(fmt.Sprintf("Definition genesis : Z := %d.\nDefinition gfh : Z := %d.\n", pool.Genesis, pool.GenesisFilter))
		sb.WriteString("Definition cases : list (Z * list (op * obs)) := [\n")
		for i := start; i < end; i++ {
			if i > start {
				sb.WriteString(";\n")
			}
			var items []string
			for j := range hs[i].Ops {
				if hs[i].Ops[j].Panic != "" {
					break
				}
				items = append(items, c.Pair(storeh.OpTerm(&hs[i].Ops[j]), hs[i].Ops[j].Obs))
			}
			sb.WriteString(c.Pair(c.Z(int64(hs[i].ID)), c.List(items)))
		}
		sb.WriteString("].\nDefinition R := Eval vm_compute in (run_cases genesis gfh cases).\nSet Printing Width 1000000.\nSet Printing Depth 1000000.\nPrint R.\n")
		c.WriteFile(filepath.Join(a.Out, fmt.Sprintf("cases_%d.v", shard)), sb.String())
		shard++
	}
	for i := range hs {
		p := filepath.Join(a.Out, fmt.Sprintf("hist-%d.json", hs[i].ID))
		c.WriteJSON(p, hs[i])
		rep.Cases[fmt.Sprint(hs[i].ID)] = p
		if hs[i].ConcRead != "" {
			rep.ImplFailures = append(rep.ImplFailures, c.ImplFailure{Case: fmt.Sprint(hs[i].ID), Step: len(hs[i].Ops),
				What: "concurrent readers of a quiescent store disagree with the sequential dump: " + hs[i].ConcRead, Tag: "concurrent-read"})
		}
		for j, op := range hs[i].Ops {
			if op.Race != "" {
				rep.ImplFailures = append(rep.ImplFailures, c.ImplFailure{Case: fmt.Sprint(hs[i].ID), Step: j,
					What: op.Kind + ": " + op.Race, Tag: "uncommitted-read"})
			}
			if op.Panic != "" {
				rep.ImplFailures = append(rep.ImplFailures, c.ImplFailure{Case: fmt.Sprint(hs[i].ID), Step: j,
					What: op.Kind + " panicked (neither success nor a reported failure): " + op.Panic, Tag: "panic"})
			}
			k := op.Kind
			if op.Fault != "" {
				k += "+" + op.Fault
			}
			rep.Histogram["op:"+k]++
			if !op.WF {
				rep.Histogram["illformed_ops"]++
			}
		}
		s := sigs[i]
		// non-trivial: an append, a rollback, a reopen and an injected fault
		if strings.Contains(s, "B") && (strings.Contains(s, "R") || strings.Contains(s, "r")) &&
			strings.Contains(s, "O") && strings.Contains(s, "!") {
			distinct.Add(s)
		}
	}
	rep.Evaluations = n
	rep.DistinctNontrivial = len(distinct)
	rep.Rule = "histories of block/filter appends (batch sizes 0,1,2,5,17), single and multi-header rollbacks, reopen (files and bbolt closed and reopened) and all read methods on the real headerfs stores, 22 % of appends with one injected fault (partial write of k bytes, failed index transaction), 30 % of histories with ill-formed calls and double faults; each history ends with a full dump of both stores; non-trivial = contains an append, a rollback, a reopen and an injected fault; distinct = distinct op-kind signature"
	for i := 0; i < n && i < 3; i++ {
		rep.Samples = append(rep.Samples, hs[i])
	}
	rep.Write(a.Out)
}
