// Correspondence harness for C07 (and the sequential part of S1): drives the
// real headerfs block and filter header stores (bbolt + flat files in a temp
// dir) with generated append / rollback / reopen / read histories and single
// injected I/O faults, and writes the observations as Coq cases.
package main

import (
	"fmt"
	"math/rand"
	"os"
	"path/filepath"
	"strings"
	"sync"

	"github.com/btcsuite/btcd/blockchain"
	"github.com/btcsuite/btcd/chainhash/v2"
	"github.com/lightninglabs/neutrino/headerfs"

	c "verifharness/internal/common"
	"verifharness/internal/storeh"
)

type Ent struct {
	A int64 `json:"a"` // bwrite: block token; fwrite: filter token
	B int64 `json:"b"` // bwrite: height;      fwrite: block token
}

type Op struct {
	Kind  string `json:"kind"`
	Es    []Ent  `json:"es,omitempty"`
	N     int64  `json:"n,omitempty"`
	X     int64  `json:"x,omitempty"`
	Fault string `json:"fault,omitempty"` // "", write, writetrunc, db, dbsync, trunc
	K     int64  `json:"k,omitempty"`
	Obs   string `json:"obs,omitempty"` // Gallina term of the observation
	WF    bool   `json:"wf"`            // generated as a well-formed call
}

type History struct {
	ID  int  `json:"id"`
	Ops []Op `json:"ops"`
}

type locatorer interface {
	BlockLocatorFromHash(hash *chainhash.Hash) (blockchain.BlockLocator, error)
}

type env struct {
	dir  string
	db   *storeh.FDB
	bs   headerfs.BlockHeaderStore
	fs   headerfs.FilterHeaderStore
	bf   *storeh.FFile
	ff   *storeh.FFile
	pool *storeh.Pool
}

func (e *env) open() error {
	raw, err := storeh.OpenDB(e.dir)
	if err != nil {
		return err
	}
	e.db = &storeh.FDB{DB: raw}
	e.bs, err = headerfs.NewBlockHeaderStore(e.dir, e.db, storeh.Params)
	if err != nil {
		raw.Close()
		return err
	}
	e.fs, err = headerfs.NewFilterHeaderStore(e.dir, e.db, headerfs.RegularFilter, storeh.Params, nil)
	if err != nil {
		headerfs.VerifCloseBlockFile(e.bs)
		raw.Close()
		return err
	}
	headerfs.VerifWrapBlockFile(e.bs, func(f headerfs.File) headerfs.File {
		e.bf = storeh.NewFFile(f, "block")
		return e.bf
	})
	headerfs.VerifWrapFilterFile(e.fs, func(f headerfs.File) headerfs.File {
		e.ff = storeh.NewFFile(f, "filter")
		return e.ff
	})
	return nil
}

func (e *env) close() {
	if e.bs != nil {
		headerfs.VerifCloseBlockFile(e.bs)
	}
	if e.fs != nil {
		headerfs.VerifCloseFilterFile(e.fs)
	}
	if e.db != nil {
		e.db.DB.Close()
	}
	e.bs, e.fs, e.db = nil, nil, nil
}

func (e *env) arm(file *storeh.FFile, fault string, k int64) {
	switch fault {
	case "write":
		file.WriteFailAt = k
	case "writetrunc":
		file.WriteFailAt = k
		file.TruncFail = true
	case "db":
		e.db.Fail = true
	case "dbsync":
		e.db.Fail = true
		file.SyncFail = true
	case "trunc":
		// For appends: db failure followed by a failing compensation;
		// for rollbacks: the truncate itself fails.
		file.TruncFail = true
	}
}

func (e *env) disarm() {
	for _, f := range []*storeh.FFile{e.bf, e.ff} {
		f.WriteFailAt, f.TruncFail, f.SyncFail = -1, false, false
	}
	e.db.Fail = false
}

func optPair(ok bool, a, b int64) string {
	if !ok {
		return "None"
	}
	return c.Some(c.Pair(c.Z(a), c.Z(b)))
}

func toks(l []int64) string { return c.Ints(l) }

// exec runs one op on the real stores and returns the observation term; the
// bool is false when the history must stop (reopen failed).
func (e *env) exec(op *Op) bool {
	p := e.pool
	switch op.Kind {
	case "bwrite":
		hdrs := make([]headerfs.BlockHeader, len(op.Es))
		for i, en := range op.Es {
			hdrs[i] = headerfs.BlockHeader{BlockHeader: p.Header(en.A), Height: uint32(en.B)}
		}
		if op.Fault == "trunc" {
			e.db.Fail = true
		}
		e.arm(e.bf, op.Fault, op.K)
		err := e.bs.WriteHeaders(hdrs...)
		e.disarm()
		op.Obs = c.App("ORes", c.Bool(err == nil))
	case "fwrite":
		hdrs := make([]headerfs.FilterHeader, len(op.Es))
		for i, en := range op.Es {
			hdrs[i] = headerfs.FilterHeader{FilterHash: p.Filter(en.A), HeaderHash: p.Hash(en.B)}
		}
		if op.Fault == "trunc" {
			e.db.Fail = true
		}
		e.arm(e.ff, op.Fault, op.K)
		err := e.fs.WriteHeaders(hdrs...)
		e.disarm()
		op.Obs = c.App("ORes", c.Bool(err == nil))
	case "brollback":
		e.arm(e.bf, op.Fault, op.K)
		st, err := e.bs.RollbackBlockHeaders(uint32(op.N))
		e.disarm()
		if err != nil {
			op.Obs = "(OStamp None)"
		} else {
			op.Obs = c.App("OStamp", optPair(true, int64(uint32(st.Height)), p.BTok(st.Hash)))
		}
	case "frollback":
		nt := p.Hash(op.X)
		e.arm(e.ff, op.Fault, op.K)
		st, err := e.fs.RollbackLastBlock(&nt)
		e.disarm()
		if err != nil {
			op.Obs = "(OStamp None)"
		} else {
			op.Obs = c.App("OStamp", optPair(true, int64(uint32(st.Height)), p.FTok(st.Hash)))
		}
	case "reopen":
		e.close()
		if err := e.open(); err != nil {
			op.Obs = "(OReopen false)"
			return false
		}
		op.Obs = "(OReopen true)"
	case "qbtip":
		h, ht, err := e.bs.ChainTip()
		if err != nil {
			op.Obs = "(OPair None)"
		} else {
			op.Obs = c.App("OPair", optPair(true, p.HTok(h), int64(ht)))
		}
	case "qbheight":
		h, err := e.bs.FetchHeaderByHeight(uint32(op.N))
		if err != nil {
			op.Obs = "(OTok None)"
		} else {
			op.Obs = c.App("OTok", c.Some(c.Z(p.HTok(h))))
		}
	case "qbhash":
		x := p.Hash(op.X)
		h, ht, err := e.bs.FetchHeader(&x)
		if err != nil {
			op.Obs = "(OPair None)"
		} else {
			op.Obs = c.App("OPair", optPair(true, p.HTok(h), int64(ht)))
		}
	case "qheightof":
		x := p.Hash(op.X)
		ht, err := e.bs.HeightFromHash(&x)
		if err != nil {
			op.Obs = "(OTok None)"
		} else {
			op.Obs = c.App("OTok", c.Some(c.Z(int64(ht))))
		}
	case "qbanc":
		x := p.Hash(op.X)
		hs, start, err := e.bs.FetchHeaderAncestors(uint32(op.N), &x)
		if err != nil {
			op.Obs = "(OList None)"
		} else {
			var l []int64
			for i := range hs {
				l = append(l, p.HTok(&hs[i]))
			}
			op.Obs = c.App("OList", c.Some(c.Pair(toks(l), c.Z(int64(start)))))
		}
	case "qlocator", "qlatest":
		var loc blockchain.BlockLocator
		var err error
		if op.Kind == "qlatest" {
			loc, err = e.bs.LatestBlockLocator()
			if err != nil && len(loc) == 0 {
				op.Obs = "(OLoc None)"
				break
			}
		} else {
			x := p.Hash(op.X)
			loc, err = e.bs.(locatorer).BlockLocatorFromHash(&x)
		}
		var l []int64
		for _, h := range loc {
			l = append(l, p.BTok(*h))
		}
		op.Obs = c.App("OLoc", c.Some(c.Pair(toks(l), c.Bool(err == nil))))
	case "qftip":
		h, ht, err := e.fs.ChainTip()
		if err != nil {
			op.Obs = "(OPair None)"
		} else {
			op.Obs = c.App("OPair", optPair(true, p.FTok(*h), int64(ht)))
		}
	case "qfheight":
		h, err := e.fs.FetchHeaderByHeight(uint32(op.N))
		if err != nil {
			op.Obs = "(OTok None)"
		} else {
			op.Obs = c.App("OTok", c.Some(c.Z(p.FTok(*h))))
		}
	case "qfhash":
		x := p.Hash(op.X)
		h, err := e.fs.FetchHeader(&x)
		if err != nil {
			op.Obs = "(OTok None)"
		} else {
			op.Obs = c.App("OTok", c.Some(c.Z(p.FTok(*h))))
		}
	case "qfanc":
		x := p.Hash(op.X)
		hs, start, err := e.fs.FetchHeaderAncestors(uint32(op.N), &x)
		if err != nil {
			op.Obs = "(OList None)"
		} else {
			var l []int64
			for i := range hs {
				l = append(l, p.FTok(hs[i]))
			}
			op.Obs = c.App("OList", c.Some(c.Pair(toks(l), c.Z(int64(start)))))
		}
	default:
		panic("op " + op.Kind)
	}
	return true
}

func faultTerm(op *Op) string {
	switch op.Fault {
	case "":
		return "NoFault"
	case "write":
		return c.App("WriteFail", c.Z(op.K))
	case "writetrunc":
		return c.App("WriteTruncFail", c.Z(op.K))
	case "db":
		return "DbFail"
	case "dbsync":
		return "DbSyncFail"
	case "trunc":
		return "TruncFail"
	}
	panic(op.Fault)
}

func opTerm(op *Op) string {
	ents := func() string {
		it := make([]string, len(op.Es))
		for i, e := range op.Es {
			it[i] = c.Pair(c.Z(e.A), c.Z(e.B))
		}
		return c.List(it)
	}
	switch op.Kind {
	case "bwrite":
		return c.App("BWrite", ents(), faultTerm(op))
	case "fwrite":
		return c.App("FWrite", ents(), faultTerm(op))
	case "brollback":
		return c.App("BRollback", c.Z(op.N), faultTerm(op))
	case "frollback":
		return c.App("FRollback", c.Z(op.X), faultTerm(op))
	case "reopen":
		return "Reopen"
	case "qbtip":
		return "QBTip"
	case "qbheight":
		return c.App("QBHeight", c.Z(op.N))
	case "qbhash":
		return c.App("QBHash", c.Z(op.X))
	case "qheightof":
		return c.App("QHeightOf", c.Z(op.X))
	case "qbanc":
		return c.App("QBAnc", c.Z(op.N), c.Z(op.X))
	case "qlocator":
		return c.App("QLocator", c.Z(op.X))
	case "qlatest":
		return "QLatestLocator"
	case "qftip":
		return "QFTip"
	case "qfheight":
		return c.App("QFHeight", c.Z(op.N))
	case "qfhash":
		return c.App("QFHash", c.Z(op.X))
	case "qfanc":
		return c.App("QFAnc", c.Z(op.N), c.Z(op.X))
	}
	panic(op.Kind)
}

// ---------------------------------------------------------------------
// Generation (adaptive: reads the real tips to produce mostly well-formed
// calls; the stored history replays without regeneration).

type gen struct {
	r      *rand.Rand
	e      *env
	used   map[int64]bool // block tokens currently believed in the store
	chain  []int64        // shadow block chain (tokens by height), best effort
	fchain int            // shadow number of filter entries
	nextF  int64
}

func (g *gen) fresh() int64 {
	n := int64(len(g.e.pool.Headers))
	for try := 0; try < 1000; try++ {
		t := 1 + g.r.Int63n(n)
		if !g.used[t] && t != g.e.pool.Genesis {
			return t
		}
	}
	return 1
}

func (g *gen) someHash() int64 {
	x := g.r.Intn(10)
	switch {
	case x < 6 && len(g.chain) > 0:
		return g.chain[g.r.Intn(len(g.chain))]
	case x < 9:
		return 1 + g.r.Int63n(int64(len(g.e.pool.Headers)))
	default:
		return 999999 // unknown
	}
}

func (g *gen) someHeight() int64 {
	n := int64(len(g.chain))
	switch g.r.Intn(8) {
	case 0:
		return 0
	case 1:
		return n - 1
	case 2:
		return n
	case 3:
		return 4294967295
	case 4:
		return n + 3
	default:
		if n > 0 {
			return g.r.Int63n(n)
		}
		return 0
	}
}

func (g *gen) pickFault(app bool, nbytes int64, malformed bool) (string, int64) {
	x := g.r.Intn(100)
	if app {
		switch {
		case x < 78:
			return "", 0
		case x < 88 && nbytes > 0:
			return "write", g.r.Int63n(nbytes)
		case x < 95 && nbytes > 0:
			return "db", 0
		case malformed && nbytes > 0:
			switch g.r.Intn(3) {
			case 0:
				return "writetrunc", 1 + g.r.Int63n(nbytes)
			case 1:
				return "dbsync", 0
			default:
				return "trunc", 0
			}
		}
		return "", 0
	}
	if malformed && x < 30 {
		if g.r.Intn(2) == 0 {
			return "trunc", 0
		}
		return "db", 0
	}
	return "", 0
}

func (g *gen) next(malformed bool) Op {
	r := g.r
	x := r.Intn(100)
	tipH := int64(len(g.chain)) - 1
	switch {
	case x < 22: // block append
		k := []int{0, 1, 1, 2, 2, 5, 17}[r.Intn(7)]
		op := Op{Kind: "bwrite", WF: true}
		h := tipH + 1
		for i := 0; i < k; i++ {
			t := g.fresh()
			g.used[t] = true
			ht := h + int64(i)
			if malformed && r.Intn(6) == 0 {
				ht += int64(1 + r.Intn(3)) // gap / wrong height
				op.WF = false
			}
			op.Es = append(op.Es, Ent{t, ht})
		}
		if malformed && k > 1 && r.Intn(5) == 0 {
			// shuffled order
			r.Shuffle(len(op.Es), func(i, j int) { op.Es[i], op.Es[j] = op.Es[j], op.Es[i] })
			op.WF = false
		}
		op.Fault, op.K = g.pickFault(true, int64(k)*80, malformed)
		if op.Fault == "writetrunc" || op.Fault == "dbsync" || op.Fault == "trunc" {
			op.WF = false
		}
		return op
	case x < 36: // filter append
		room := len(g.chain) - g.fchain
		k := []int{0, 1, 1, 2, 5}[r.Intn(5)]
		op := Op{Kind: "fwrite", WF: true}
		if k > room {
			if !malformed {
				k = room
			} else {
				op.WF = false
			}
		}
		for i := 0; i < k; i++ {
			g.nextF++
			bt := int64(999998)
			if g.fchain+i < len(g.chain) {
				bt = g.chain[g.fchain+i]
			}
			if malformed && r.Intn(6) == 0 {
				bt = g.someHash()
				op.WF = false
			}
			op.Es = append(op.Es, Ent{storeh.FilterBase + 1 + (g.nextF % int64(len(g.e.pool.Filters)-1)), bt})
		}
		op.Fault, op.K = g.pickFault(true, int64(k)*32, malformed)
		if op.Fault == "writetrunc" || op.Fault == "dbsync" || op.Fault == "trunc" {
			op.WF = false
		}
		return op
	case x < 46: // block rollback
		op := Op{Kind: "brollback", WF: true}
		room := int64(len(g.chain) - g.fchain)
		switch r.Intn(6) {
		case 0:
			op.N = 0
		case 1:
			op.N = 1
		case 2:
			op.N = 2
		case 3:
			op.N = room
		case 4:
			op.N = tipH
		default:
			op.N = tipH + 1
		}
		if op.N > room || op.N > tipH {
			if malformed {
				op.WF = false
			} else if room >= 0 {
				op.N = room
			}
		}
		op.Fault, op.K = g.pickFault(false, 0, malformed)
		if op.Fault != "" {
			op.WF = false
		}
		return op
	case x < 53: // filter rollback
		op := Op{Kind: "frollback", WF: true}
		if g.fchain >= 2 && g.fchain-2 < len(g.chain) {
			op.X = g.chain[g.fchain-2]
		} else {
			op.X = g.someHash()
			op.WF = false
			if !malformed {
				return Op{Kind: "qftip", WF: true}
			}
		}
		if malformed && r.Intn(4) == 0 {
			op.X = g.someHash()
			op.WF = false
		}
		op.Fault, op.K = g.pickFault(false, 0, malformed)
		if op.Fault != "" {
			op.WF = false
		}
		return op
	case x < 59:
		return Op{Kind: "reopen", WF: true}
	case x < 64:
		return Op{Kind: "qbtip", WF: true}
	case x < 69:
		return Op{Kind: "qbheight", N: g.someHeight(), WF: true}
	case x < 74:
		return Op{Kind: "qbhash", X: g.someHash(), WF: true}
	case x < 78:
		return Op{Kind: "qheightof", X: g.someHash(), WF: true}
	case x < 82:
		return Op{Kind: "qbanc", N: []int64{0, 1, 2, tipH, tipH + 1, 7}[r.Intn(6)], X: g.someHash(), WF: true}
	case x < 85:
		return Op{Kind: "qlocator", X: g.someHash(), WF: true}
	case x < 87:
		return Op{Kind: "qlatest", WF: true}
	case x < 90:
		return Op{Kind: "qftip", WF: true}
	case x < 94:
		return Op{Kind: "qfheight", N: g.someHeight(), WF: true}
	case x < 97:
		return Op{Kind: "qfhash", X: g.someHash(), WF: true}
	default:
		return Op{Kind: "qfanc", N: []int64{0, 1, 2, 5}[r.Intn(4)], X: g.someHash(), WF: true}
	}
}

// resync refreshes the shadow chain from the real stores after each op.
func (g *gen) resync() {
	g.chain = g.chain[:0]
	g.used = map[int64]bool{}
	_, tip, err := g.e.bs.ChainTip()
	if err == nil {
		for h := uint32(0); h <= tip; h++ {
			hd, err := g.e.bs.FetchHeaderByHeight(h)
			if err != nil {
				break
			}
			t := g.e.pool.HTok(hd)
			g.chain = append(g.chain, t)
			g.used[t] = true
		}
	}
	_, ft, err := g.e.fs.ChainTip()
	if err == nil {
		g.fchain = int(ft) + 1
	}
}

// fullDump appends the reads that pin down the whole visible state.
func fullDump(g *gen) []Op {
	ops := []Op{{Kind: "qbtip", WF: true}, {Kind: "qftip", WF: true}, {Kind: "qlatest", WF: true}}
	n := int64(len(g.chain))
	for h := int64(0); h <= n; h++ {
		ops = append(ops, Op{Kind: "qbheight", N: h, WF: true}, Op{Kind: "qfheight", N: h, WF: true})
	}
	for _, t := range g.chain {
		ops = append(ops, Op{Kind: "qheightof", X: t, WF: true}, Op{Kind: "qfhash", X: t, WF: true})
	}
	return ops
}

func runOne(id int, seed int64, nops int, base string, pool *storeh.Pool, replay *History) (h History, sig string, failedReopen bool) {
	tmpl, err := storeh.Template(base)
	if err != nil {
		panic(err)
	}
	dir := filepath.Join(base, fmt.Sprintf("h%d", id))
	os.RemoveAll(dir)
	if err := storeh.CopyDir(tmpl, dir); err != nil {
		panic(err)
	}
	defer os.RemoveAll(dir)
	e := &env{dir: dir, pool: pool}
	if err := e.open(); err != nil {
		panic(err)
	}
	defer e.close()
	h.ID = id
	var sb strings.Builder
	if replay != nil {
		for i := range replay.Ops {
			op := replay.Ops[i]
			op.Obs = ""
			ok := e.exec(&op)
			h.Ops = append(h.Ops, op)
			if !ok {
				break
			}
		}
		return h, "replay", false
	}
	r := c.Rng(seed, id)
	g := &gen{r: r, e: e, used: map[int64]bool{}}
	g.resync()
	malformedHist := id%10 >= 7 // 30 % of histories may contain ill-formed calls / double faults
	for len(h.Ops) < nops {
		op := g.next(malformedHist && r.Intn(3) == 0)
		ok := e.exec(&op)
		h.Ops = append(h.Ops, op)
		code := map[string]string{"bwrite": "B", "fwrite": "F", "brollback": "R", "frollback": "r", "reopen": "O"}[op.Kind]
		if code == "" {
			code = "q"
		}
		if op.Fault != "" {
			code += "!"
		}
		if !op.WF {
			code += "~"
		}
		sb.WriteString(code)
		if !ok {
			return h, sb.String(), true
		}
		if op.Kind[0] != 'q' {
			g.resync()
		}
	}
	g.resync()
	for _, op := range fullDump(g) {
		e.exec(&op)
		h.Ops = append(h.Ops, op)
	}
	return h, sb.String(), false
}

func main() {
	a := c.ParseArgs()
	rep := c.NewReport("C07", a)
	base := filepath.Join(a.Out, "stores")
	os.MkdirAll(base, 0o755)
	defer os.RemoveAll(base)

	// genesis filter header token: read from a fresh template store
	tmpl, err := storeh.Template(base)
	if err != nil {
		panic(err)
	}
	var gf chainhash.Hash
	{
		d := filepath.Join(base, "probe")
		storeh.CopyDir(tmpl, d)
		e := &env{dir: d}
		if err := e.open(); err != nil {
			panic(err)
		}
		h, err := e.fs.FetchHeaderByHeight(0)
		if err != nil {
			panic(err)
		}
		gf = *h
		e.close()
		os.RemoveAll(d)
	}
	pool := storeh.NewPool(600, gf)

	n, nops := 60, 25
	if a.Tier == "thorough" {
		n, nops = 1500, 40
	}
	var replay *History
	if a.Replay != "" {
		var h History
		c.ReadJSON(a.Replay, &h)
		replay = &h
		n = 1
	}
	// corpus of minimised regression histories runs first
	var corpus []History
	if replay == nil {
		files, _ := filepath.Glob("../corpus/C07/*.json")
		for _, f := range files {
			var h History
			c.ReadJSON(f, &h)
			corpus = append(corpus, h)
		}
	}
	n += len(corpus)
	hs := make([]History, n)
	sigs := make([]string, n)
	var wg sync.WaitGroup
	sem := make(chan struct{}, a.Workers)
	for i := 0; i < n; i++ {
		wg.Add(1)
		sem <- struct{}{}
		go func(i int) {
			defer wg.Done()
			defer func() { <-sem }()
			id := i
			rp := replay
			if replay != nil {
				id = replay.ID
			} else if i >= n-len(corpus) {
				rp = &corpus[i-(n-len(corpus))]
				id = rp.ID
			}
			hs[i], sigs[i], _ = runOne(id, a.Seed, nops, base, pool, rp)
		}(i)
	}
	wg.Wait()

	shard := 0
	const perShard = 150
	distinct := c.Signatures{}
	for start := 0; start < n; start += perShard {
		end := start + perShard
		if end > n {
			end = n
		}
		var sb strings.Builder
		sb.WriteString("From Coq Require Import ZArith List.\nFrom Verif Require Import S1.Model C07.Replay.\nImport ListNotations.\nOpen Scope Z_scope.\n")
		sb.WriteString(fmt.Sprintf("Definition genesis : Z := %d.\nDefinition gfh : Z := %d.\n", pool.Genesis, pool.GenesisFilter))
		sb.WriteString("Definition cases : list (Z * list (op * obs)) := [\n")
		for i := start; i < end; i++ {
			if i > start {
				sb.WriteString(";\n")
			}
			var items []string
			for j := range hs[i].Ops {
				items = append(items, c.Pair(opTerm(&hs[i].Ops[j]), hs[i].Ops[j].Obs))
			}
			sb.WriteString(c.Pair(c.Z(int64(hs[i].ID)), c.List(items)))
		}
		sb.WriteString("].\nDefinition R := Eval vm_compute in (run_cases genesis gfh cases).\nSet Printing Width 1000000.\nSet Printing Depth 1000000.\nPrint R.\n")
		c.WriteFile(filepath.Join(a.Out, fmt.Sprintf("cases_%d.v", shard)), sb.String())
		shard++
	}
	for i := range hs {
		p := filepath.Join(a.Out, fmt.Sprintf("hist-%d.json", hs[i].ID))
		c.WriteJSON(p, hs[i])
		rep.Cases[fmt.Sprint(hs[i].ID)] = p
		for _, op := range hs[i].Ops {
			k := op.Kind
			if op.Fault != "" {
				k += "+" + op.Fault
			}
			rep.Histogram["op:"+k]++
			if !op.WF {
				rep.Histogram["illformed_ops"]++
			}
		}
		s := sigs[i]
		// non-trivial: an append, a rollback, a reopen and an injected fault
		if strings.Contains(s, "B") && (strings.Contains(s, "R") || strings.Contains(s, "r")) &&
			strings.Contains(s, "O") && strings.Contains(s, "!") {
			distinct.Add(s)
		}
	}
	rep.Evaluations = n
	rep.DistinctNontrivial = len(distinct)
	rep.Rule = "histories of block/filter appends (batch sizes 0,1,2,5,17), single and multi-header rollbacks, reopen (files and bbolt closed and reopened) and all read methods on the real headerfs stores, 22 % of appends with one injected fault (partial write of k bytes, failed index transaction), 30 % of histories with ill-formed calls and double faults; each history ends with a full dump of both stores; non-trivial = contains an append, a rollback, a reopen and an injected fault; distinct = distinct op-kind signature"
	for i := 0; i < n && i < 3; i++ {
		rep.Samples = append(rep.Samples, hs[i])
	}
	rep.Write(a.Out)
}
