// Interleaving harness for C03 (F18): ONE real writeCFHeadersMsg (goroutine
// cf, entered directly through the verif hook VerifBM.WriteCFHeaders - the
// write path shared by getUncheckpointedCFHeaders and
// getCheckpointedCFHeaders) against ONE real handleHeadersMsg carrying a
// heavier branch (goroutine bh), on a real blockManager over real header
// stores, under a controlled scheduler (sched.go): the harness decides the
// order of the store calls, in-memory tip updates and notification sends of
// the two goroutines. Schedules: corpus files, all interleavings of small
// configurations up to commutation of independent steps (stateless depth-first
// search with persistent sets), random schedules of larger ones. After every
// run both stores, the index, the in-memory tip and the notifications are
// dumped; C03/ReplayConc.v replays the schedule on the model step by step
// (kind 1) and runs the monitor conc_okb on the implementation's final state
// (kind 2).
package main

import (
	"flag"
	"fmt"
	"math/rand"
	"os"
	"os/exec"
	"path/filepath"
	"reflect"
	"sort"
	"strconv"
	"strings"
	"sync"
	"sync/atomic"
	"time"

	"github.com/btcsuite/btcd/chainhash/v2"
	"github.com/btcsuite/btcd/wire/v2"
	"github.com/lightninglabs/neutrino"
	"github.com/lightninglabs/neutrino/headerfs"

	c "verifharness/internal/common"
	"verifharness/internal/storeh"
)

var lockedFlag = flag.Bool("locked", true, "model variant the replay uses: true = tree with the F18 repair (reorgMtx)")
var fullFlag = flag.Bool("full", false, "no partial-order reduction in the exhaustive search")
var cfgFlag = flag.String("cfg", "", "only the configuration with this key (e.g. t5-f4-k1-b4-m2-false): its exhaustive search")
var childFlag = flag.String("child", "", "internal: k/n - run the jobs with index = k mod n and write results.json")

// Final is the state after a run.
type Final struct {
	B      []int64  `json:"b"`              // block chain by height
	BTip   [2]int64 `json:"btip"`           // BlockHeaders.ChainTip: id, height (-1: error)
	Idx    []int64  `json:"idx"`            // HeightFromHash of every block of the universe (-1: unknown)
	F      []int64  `json:"f"`              // filter file by position
	FTip   []int64  `json:"ftip,omitempty"` // RegFilterHeaders.ChainTip: token, height; empty: error
	Mem    [2]int64 `json:"mem"`            // filterHeaderTip, filterHeaderTipHash
	CRes   int64    `json:"cres"`           // writeCFHeadersMsg: 0 ok, 1 error
	CErr   string   `json:"cerr,omitempty"`
	BRes   int64    `json:"bres"` // handleHeadersMsg: 0 returned, 2 panicked
	BPanic string   `json:"bpanic,omitempty"`
}

// Run is one executed schedule (hist-<id>.json).
type Run struct {
	ID      int            `json:"id"`
	Cfg     Cfg            `json:"cfg"`
	Locked  bool           `json:"locked"`
	Origin  string         `json:"origin"` // corpus | dfs | random | replay
	Sched   []int          `json:"sched"`  // goroutine of every step taken (0 cf, 1 bh)
	Steps   []Step         `json:"steps"`
	Final   *Final         `json:"final,omitempty"`
	Ungated map[string]int `json:"ungated,omitempty"`
	Err     string         `json:"err,omitempty"`
	choices []choice
}

type chooser interface {
	pick(s *sched, i int) int // -1: nothing to do
}

// ---------------------------------------------------------------------
// choosers

// listChooser follows an explicit schedule, then lets cf run, then bh.
type listChooser struct{ l []int }

func (l *listChooser) pick(s *sched, i int) int {
	if i < len(l.l) {
		return l.l[i]
	}
	for _, who := range []int{0, 1} {
		if s.enabled(who) {
			return who
		}
	}
	return -1
}

type randChooser struct{ r *rand.Rand }

func (rc *randChooser) pick(s *sched, i int) int {
	e0, e1 := s.enabled(0), s.enabled(1)
	switch {
	case e0 && e1:
		return rc.r.Intn(2)
	case e0:
		return 0
	case e1:
		return 1
	}
	return -1
}

// resources touched by a step
const (
	rFr = 1 << iota
	rFw
	rBr
	rBw
	rMw
	rEw
	rL
	rAll = rFr | rFw | rBr | rBw | rMw | rEw
)

func nextAcc(name string) int {
	switch name {
	case "start":
		return rL
	case "f.ChainTip":
		return rFr
	case "f.WriteHeaders":
		return rFw
	case "f.WriteHeaders:exit":
		// the goroutine goes on to the channel send: its place in the
		// channel's queue of senders is taken now
		return rMw | rEw
	case "f.RollbackLastBlock:exit":
		return rMw
	case "b.FetchHeader":
		// the second FetchHeader of a rollback iteration is followed by the
		// channel send (the first is not, but they look the same here)
		return rBr | rEw
	case "f.RollbackLastBlock":
		return rFr | rFw
	case "b.ChainTip", "b.FetchHeaderAncestors", "b.FetchHeaderByHeight", "b.HeightFromHash":
		return rBr
	case "b.RollbackLastBlock":
		return rBr | rBw
	case "b.WriteHeaders":
		return rBw
	case "send":
		return rEw
	}
	return rAll | rL
}

// futureAcc: everything the goroutine may still touch from its next step on
// (an over-approximation read off the name of the step it is parked at).
func futureAcc(who int, name string) int {
	if who == 0 {
		switch name {
		case "f.ChainTip":
			return rFr | rBr | rFw | rMw | rEw
		case "b.FetchHeaderAncestors":
			return rBr | rFw | rMw | rEw
		case "f.WriteHeaders":
			return rFw | rMw | rEw
		case "f.WriteHeaders:exit":
			return rMw | rEw
		case "send":
			return rEw
		}
		return rAll | rL
	}
	switch name {
	case "b.WriteHeaders":
		return rBw
	case "start":
		return rAll | rL
	}
	return rAll
}

func conflict(next, future int) bool {
	if next&rL != 0 || future&rL != 0 {
		return true
	}
	if next&rFw != 0 && future&(rFr|rFw) != 0 || next&rFr != 0 && future&rFw != 0 {
		return true
	}
	if next&rBw != 0 && future&(rBr|rBw) != 0 || next&rBr != 0 && future&rBw != 0 {
		return true
	}
	return next&future&(rMw|rEw) != 0
}

type choice struct {
	who     int
	flipped bool
}

// dfsChooser: stateless depth-first search. At a point where both goroutines
// can move and neither next step is independent of everything the other may
// still do (a persistent singleton), both orders are explored.
type dfsChooser struct {
	stack []choice
	pos   int
	full  bool
}

func (d *dfsChooser) pick(s *sched, i int) int {
	e0, e1 := s.enabled(0), s.enabled(1)
	switch {
	case !e0 && !e1:
		return -1
	case e0 && !e1:
		return 0
	case e1 && !e0:
		return 1
	}
	if !d.full {
		n0, n1 := s.nextName(0), s.nextName(1)
		if !conflict(nextAcc(n0), futureAcc(1, n1)) {
			return 0
		}
		if !conflict(nextAcc(n1), futureAcc(0, n0)) {
			return 1
		}
	}
	if d.pos == len(d.stack) {
		d.stack = append(d.stack, choice{who: 0})
	}
	who := d.stack[d.pos].who
	d.pos++
	return who
}

// next prepares the chooser for the next run; false when the search is over.
func (d *dfsChooser) next() bool {
	d.stack = d.stack[:d.pos]
	for len(d.stack) > 0 && d.stack[len(d.stack)-1].flipped {
		d.stack = d.stack[:len(d.stack)-1]
	}
	if len(d.stack) == 0 {
		return false
	}
	l := &d.stack[len(d.stack)-1]
	l.who, l.flipped = 1-l.who, true
	d.pos = 0
	return true
}

// ---------------------------------------------------------------------
// one run

var dirSeq struct {
	sync.Mutex
	n int
}

var prof [6]int64

func tick(i int, t0 time.Time) time.Time {
	now := time.Now()
	atomic.AddInt64(&prof[i], int64(now.Sub(t0)))
	return now
}

// envBox keeps one set of opened stores per worker for the whole run of the
// harness: after a run that left them well-formed they are rolled back to the
// genesis entries through the store API and re-initialised for the next run
// (much cheaper than copying and opening an 8 MB index again); stores left
// ill-formed by a run (tip key naming no stored block, file and index out of
// step) are thrown away.
type envBox struct {
	base  string
	dir   string
	e     *storeh.Env
	clean bool // holds only the genesis entries
}

func (b *envBox) drop() {
	if b.e != nil {
		b.e.Close()
		os.RemoveAll(b.dir)
		b.e = nil
	}
}

func noSync(e *storeh.Env) {
	// crash consistency is not the subject here: skip bbolt's fdatasync
	v := reflect.ValueOf(e.DB.DB)
	if v.Kind() == reflect.Ptr {
		if f := v.Elem().FieldByName("NoSync"); f.IsValid() && f.CanSet() {
			f.SetBool(true)
		}
	}
}

// toGenesis rolls well-formed stores back to their genesis entries.
func (b *envBox) toGenesis() bool {
	e := b.e
	_, bt, err := e.BS.ChainTip()
	if err != nil {
		return false
	}
	_, ft, err := e.FS.ChainTip()
	if err != nil || ft > bt {
		return false
	}
	// file lengths must agree with the tips
	if _, err := e.BS.FetchHeaderByHeight(bt + 1); err == nil {
		return false
	}
	if _, err := e.FS.FetchHeaderByHeight(ft + 1); err == nil {
		return false
	}
	for h := bt; h > 0; h-- {
		if h <= ft {
			hd, err := e.BS.FetchHeaderByHeight(h - 1)
			if err != nil {
				return false
			}
			nt := hd.BlockHash()
			if _, err := e.FS.RollbackLastBlock(&nt); err != nil {
				return false
			}
		}
		if _, err := e.BS.RollbackLastBlock(); err != nil {
			return false
		}
	}
	_, bt, err = e.BS.ChainTip()
	if err != nil || bt != 0 {
		return false
	}
	_, ft, err = e.FS.ChainTip()
	return err == nil && ft == 0
}

// get returns stores holding the initial state of the configuration.
func (b *envBox) get(w *world) *storeh.Env {
	if b.e != nil && !b.clean {
		if !b.toGenesis() {
			b.drop()
			atomic.AddInt64(&prof[4], 1)
		}
	}
	if b.e == nil {
		tmpl, err := storeh.Template(b.base)
		if err != nil {
			panic(err)
		}
		dirSeq.Lock()
		dirSeq.n++
		b.dir = filepath.Join(b.base, fmt.Sprintf("env%d", dirSeq.n))
		dirSeq.Unlock()
		os.RemoveAll(b.dir)
		if err := storeh.CopyDir(tmpl, b.dir); err != nil {
			panic(err)
		}
		e := &storeh.Env{Dir: b.dir}
		if err := e.Open(); err != nil {
			panic(err)
		}
		noSync(e)
		b.e = e
	}
	b.clean = false
	if err := w.initStores(b.e); err != nil {
		panic(err)
	}
	return b.e
}

func runOnce(w *world, ch chooser, box *envBox) (r Run) {
	t0 := time.Now()
	defer func() { tick(5, t0) }()
	r.Cfg = w.cfg
	r.Locked = *lockedFlag
	e := box.get(w)
	defer func() {
		if r.Err != "" {
			box.drop()
			atomic.AddInt64(&prof[4], 1)
		}
	}()
	t1 := tick(0, t0)

	s := newSched(w)
	bm, err := neutrino.VerifNewBlockManager(*w.params, &gateBS{e.BS, s}, &gateFS{e.FS, s}, &clock{w.now}, 64)
	if err != nil {
		panic(err)
	}
	bm.SetNotificationChan(s.ntfn)
	s.memtip = bm.FilterHeaderTipAndHash
	sp := w.syncPeer()
	bm.NewPeer(sp)
	if bm.SyncPeer() != sp {
		panic("the scripted peer did not become the sync peer")
	}
	msg := w.message()
	var hdrs []*wire.BlockHeader
	for _, b := range w.nw {
		hdrs = append(hdrs, b.Hdr)
	}

	var cfErr error
	var cfPanic, bhPanic interface{}
	go func() {
		defer close(s.done[0])
		defer func() { cfPanic = recover() }()
		s.register(0)
		s.gate(0, "start", false)
		_, _, cfErr = bm.WriteCFHeaders(msg)
	}()
	go func() {
		defer close(s.done[1])
		defer func() { bhPanic = recover() }()
		s.register(1)
		s.gate(1, "start", false)
		bm.Headers(sp, hdrs)
	}()
	fail := func(err error) Run {
		r.Err = err.Error()
		s.abandon()
		// the goroutines may still be inside the stores: let them finish
		for who := 0; who < 2; who++ {
			select {
			case <-s.done[who]:
			case <-time.After(stepDeadline):
			}
		}
		return r
	}
	for who := 0; who < 2; who++ {
		s.state[who] = stRunning
		if err := s.settle(who); err != nil {
			return fail(err)
		}
	}
	t1 = tick(1, t1)
	for i := 0; ; i++ {
		if s.state[0] == stDone && s.state[1] == stDone {
			break
		}
		if i > 2000 {
			return fail(fmt.Errorf("more than 2000 steps"))
		}
		who := ch.pick(s, i)
		if who < 0 {
			return fail(fmt.Errorf("deadlock: cf is %s, bh is %s\n%s", s.nextName(0), s.nextName(1), s.dump()))
		}
		st, err := s.step(who)
		r.Steps = append(r.Steps, st)
		r.Sched = append(r.Sched, st.Who)
		if err != nil {
			return fail(err)
		}
	}
	if d, ok := ch.(*dfsChooser); ok {
		r.choices = append([]choice(nil), d.stack[:d.pos]...)
	}
	r.Ungated = s.ungated

	t1 = tick(2, t1)
	// final state, read from the real stores
	f := &Final{BTip: [2]int64{0, -1}}
	for h := uint32(0); h < 100000; h++ {
		hd, err := e.BS.FetchHeaderByHeight(h)
		if err != nil {
			break
		}
		f.B = append(f.B, w.btok(hd.BlockHash()))
	}
	if hd, ht, err := e.BS.ChainTip(); err == nil {
		f.BTip = [2]int64{w.btok(hd.BlockHash()), int64(ht)}
	}
	for _, b := range append(append([]*block{}, w.old...), w.nw...) {
		hh := b.Hash
		if ht, err := e.BS.HeightFromHash(&hh); err == nil {
			f.Idx = append(f.Idx, int64(ht))
		} else {
			f.Idx = append(f.Idx, -1)
		}
	}
	for h := uint32(0); h < 100000; h++ {
		fh, err := e.FS.FetchHeaderByHeight(h)
		if err != nil {
			break
		}
		f.F = append(f.F, w.ftok(*fh))
	}
	if fh, ht, err := e.FS.ChainTip(); err == nil {
		f.FTip = []int64{w.ftok(*fh), int64(ht)}
	}
	mh, mx := bm.FilterHeaderTipAndHash()
	f.Mem = [2]int64{int64(mh), w.btok(mx)}
	if cfErr != nil {
		f.CRes, f.CErr = 1, cfErr.Error()
	}
	if bhPanic != nil {
		f.BRes, f.BPanic = 2, fmt.Sprint(bhPanic)
	}
	if cfPanic != nil {
		r.Err = fmt.Sprintf("writeCFHeadersMsg panicked: %v", cfPanic)
	}
	r.Final = f
	return r
}

var _ headerfs.BlockHeaderStore = (*gateBS)(nil)
var _ headerfs.FilterHeaderStore = (*gateFS)(nil)
var _ = chainhash.Hash{}

// ---------------------------------------------------------------------
// Coq terms

func (w *world) cfgTerm() string {
	var bc, ff, nw, btab, ftab []string
	for _, b := range w.old {
		bc = append(bc, c.Pair(c.Z(b.ID), c.Z(b.Prev)))
	}
	for h := 0; h <= w.cfg.F0; h++ {
		b := w.old[h]
		prev := int64(0)
		if h > 0 {
			prev = fbase + b.Prev
		}
		ff = append(ff, fmt.Sprintf("(%d, %d, %d)", fbase+b.ID, prev, b.ID))
	}
	for _, b := range w.nw {
		nw = append(nw, c.Pair(c.Z(b.ID), c.Z(b.Prev)))
	}
	for _, b := range append(append([]*block{}, w.old...), w.nw...) {
		btab = append(btab, c.Pair(c.Z(b.ID), c.Z(b.Prev)))
		prev := int64(0)
		if b.Prev != 0 {
			prev = fbase + b.Prev
		}
		ftab = append(ftab, fmt.Sprintf("(%d, %d, %d)", fbase+b.ID, prev, b.ID))
	}
	mb := w.msgBlocks()
	var ents []int64
	for _, b := range mb {
		ents = append(ents, fbase+b.ID)
	}
	msg := fmt.Sprintf("(%d, %s, %d)", fbase+w.old[w.cfg.F0].ID, c.Ints(ents), mb[len(mb)-1].ID)
	return fmt.Sprintf("(mk_cfg %s %s %s %s %s %s)", c.List(bc), c.List(ff), msg, c.List(nw), c.List(btab), c.List(ftab))
}

func obsTerm(o Obs) string {
	return fmt.Sprintf("(%s, %s, %s, %s, %s)", c.Z(o[0]), c.Z(o[1]), c.Z(o[2]), c.Z(o[3]), c.Z(o[4]))
}

func runTerm(r *Run) string {
	var sc, os []string
	for i, st := range r.Steps {
		sc = append(sc, fmt.Sprint(r.Sched[i]))
		os = append(os, obsTerm(st.Obs))
	}
	f := r.Final
	ftip := "None"
	if len(f.FTip) == 2 {
		ftip = c.Some(c.Pair(c.Z(f.FTip[0]), c.Z(f.FTip[1])))
	}
	return fmt.Sprintf("(%d, mk_run %s %s %s %s %s %s %s %s %s %d %d)", r.ID, c.Bool(r.Locked), c.List(sc), c.List(os),
		c.Ints(f.B), c.Pair(c.Z(f.BTip[0]), c.Z(f.BTip[1])), c.Ints(f.Idx), c.Ints(f.F), ftip,
		c.Pair(c.Z(f.Mem[0]), c.Z(f.Mem[1])), f.CRes, f.BRes)
}

// ---------------------------------------------------------------------

type job struct {
	cfg    Cfg
	origin string
	sched  []int // corpus / replay
	budget int   // dfs: maximal number of runs
	nrand  int   // random schedules
	rseed  int64
}

func smallConfigs() []Cfg {
	var out []Cfg
	const T = 5
	for d := 1; d <= 3; d++ {
		for k := 1; k <= 3; k++ {
			for f0 := 0; f0+k <= T; f0++ {
				out = append(out, Cfg{T: T, F0: f0, K: k, Back: T - d, M: d + 1})
			}
			for f0 := 0; f0 <= T-d; f0++ {
				cf := Cfg{T: T, F0: f0, K: k, Back: T - d, M: d + 1, MsgNew: true}
				if cf.valid() {
					out = append(out, cf)
				}
			}
		}
	}
	return out
}

func main() {
	a := c.ParseArgs()
	rep := c.NewReport("C03", a)
	base := filepath.Join(a.Out, "stores")
	os.MkdirAll(base, 0o755)
	defer os.RemoveAll(base)
	gf, err := storeh.ProbeGenesisFilter(base)
	if err != nil {
		panic(err)
	}

	var jobs []job
	if a.Replay != "" {
		var r Run
		c.ReadJSON(a.Replay, &r)
		if r.Cfg.T == 0 {
			var wr struct {
				History Run `json:"history"`
			}
			c.ReadJSON(a.Replay, &wr)
			r = wr.History
		}
		jobs = append(jobs, job{cfg: r.Cfg, origin: "replay", sched: r.Sched})
	} else {
		files, _ := filepath.Glob("../corpus/C03/f18-*.json")
		sort.Strings(files)
		for _, f := range files {
			var r Run
			c.ReadJSON(f, &r)
			jobs = append(jobs, job{cfg: r.Cfg, origin: "corpus", sched: r.Sched})
		}
		small := smallConfigs()
		// quick: a few schedules of the search and a few random ones per
		// small configuration; thorough: the whole search
		budget, nrand, nbig := 5, 5, 30
		if a.Tier == "thorough" {
			budget, nrand, nbig = 1<<30, 20, 1500
		}
		for i, cf := range small {
			jobs = append(jobs, job{cfg: cf, origin: "dfs", budget: budget, nrand: nrand, rseed: a.Seed*7919 + int64(i)})
		}
		for i := 0; i < nbig; i++ {
			r := c.Rng(a.Seed, 100000+i)
			var cf Cfg
			for {
				T := 3 + r.Intn(10)
				d := 1 + r.Intn(min(6, T))
				cf = Cfg{T: T, Back: T - d, M: d + 1 + r.Intn(3), K: 1 + r.Intn(6), MsgNew: r.Intn(4) == 0}
				cf.F0 = r.Intn(T + 1)
				if r.Intn(2) == 0 {
					// batch reaching into the blocks that are rolled back
					cf.F0 = max(0, min(T-cf.K, cf.Back-1+r.Intn(3)))
				}
				if cf.valid() {
					break
				}
			}
			jobs = append(jobs, job{cfg: cf, origin: "random", nrand: 3, rseed: a.Seed*104729 + int64(i)})
		}
	}

	if *cfgFlag != "" {
		var keep []job
		for _, j := range jobs {
			if j.cfg.key() == *cfgFlag && j.origin == "dfs" {
				j.budget, j.nrand = 1<<30, 0
				if n, err := strconv.Atoi(os.Getenv("C03CONC_NRAND")); err == nil {
					j.nrand = n // diagnostics: random schedules next to the search
				}
				keep = append(keep, j)
			}
		}
		jobs = keep
	}

	// worlds are shared between jobs with the same configuration
	type worldSlot struct {
		once sync.Once
		w    *world
	}
	slots := map[string]*worldSlot{}
	worlds := map[string]*world{}
	var wmu sync.Mutex
	if _, err := storeh.Template(base); err != nil {
		panic(err)
	}
	getWorld := func(cf Cfg) *world {
		wmu.Lock()
		sl := slots[cf.key()]
		if sl == nil {
			sl = &worldSlot{}
			slots[cf.key()] = sl
		}
		wmu.Unlock()
		sl.once.Do(func() {
			w, err := newWorld(cf, gf)
			if err != nil {
				panic(err)
			}
			sl.w = w
			wmu.Lock()
			worlds[cf.key()] = w
			wmu.Unlock()
		})
		return sl.w
	}

	results := make([][]Run, len(jobs))
	exhaustive := make([]bool, len(jobs))
	mine := func(ji int) bool { return true }
	nproc := a.Workers
	if nproc > len(jobs) {
		nproc = len(jobs)
	}
	if *childFlag != "" {
		var k, n int
		fmt.Sscanf(*childFlag, "%d/%d", &k, &n)
		mine = func(ji int) bool { return ji%n == k }
		a.Workers = 1
	}
	if *childFlag == "" && nproc > 1 {
		// One process per worker: the parked-state detection dumps all
		// goroutine stacks, which stops the world of the whole process.
		type childOut struct {
			Results    map[int][]Run `json:"results"`
			Exhaustive map[int]bool  `json:"exhaustive"`
		}
		var cwg sync.WaitGroup
		cerr := make([]string, nproc)
		for k := 0; k < nproc; k++ {
			cwg.Add(1)
			go func(k int) {
				defer cwg.Done()
				cdir := filepath.Join(a.Out, fmt.Sprintf("w%d", k))
				args := []string{"-child", fmt.Sprintf("%d/%d", k, nproc), fmt.Sprintf("-locked=%v", *lockedFlag),
					fmt.Sprintf("-full=%v", *fullFlag), "-cfg", *cfgFlag, "-seed", fmt.Sprint(a.Seed), "-tier", a.Tier, "-out", cdir}
				if a.Replay != "" {
					args = append(args, "-replay", a.Replay)
				}
				cmd := exec.Command(os.Args[0], args...)
				cmd.Env = append(os.Environ(), "GOMAXPROCS=2")
				out, err := cmd.CombinedOutput()
				if err != nil {
					cerr[k] = fmt.Sprintf("worker %d: %v\n%s", k, err, out)
					return
				}
				if os.Getenv("C03CONC_PROF") != "" {
					os.Stderr.Write(out)
				}
				var co childOut
				c.ReadJSON(filepath.Join(cdir, "results.json"), &co)
				for ji, rs := range co.Results {
					results[ji] = rs
				}
				for ji, ex := range co.Exhaustive {
					exhaustive[ji] = ex
				}
				os.RemoveAll(cdir)
			}(k)
		}
		cwg.Wait()
		for _, e := range cerr {
			if e != "" {
				fmt.Fprintln(os.Stderr, e)
				os.Exit(1)
			}
		}
	} else {
		var wg sync.WaitGroup
		jobCh := make(chan int)
		for wk := 0; wk < a.Workers; wk++ {
			wg.Add(1)
			go func() {
				defer wg.Done()
				box := &envBox{base: base}
				defer box.drop()
				for ji := range jobCh {
					j := jobs[ji]
					w := getWorld(j.cfg)
					switch j.origin {
					case "corpus", "replay":
						r := runOnce(w, &listChooser{j.sched}, box)
						r.Origin = j.origin
						results[ji] = append(results[ji], r)
					default:
						if j.budget > 0 {
							d := &dfsChooser{full: *fullFlag}
							n := 0
							for {
								r := runOnce(w, d, box)
								r.Origin = "dfs"
								results[ji] = append(results[ji], r)
								n++
								if r.Err != "" {
									break
								}
								if !d.next() {
									exhaustive[ji] = true
									break
								}
								if n >= j.budget {
									break
								}
							}
						}
						rr := rand.New(rand.NewSource(j.rseed))
						for i := 0; i < j.nrand; i++ {
							r := runOnce(w, &randChooser{rr}, box)
							r.Origin = "random"
							results[ji] = append(results[ji], r)
						}
					}
				}
			}()
		}
		for ji := range jobs {
			if mine(ji) {
				jobCh <- ji
			}
		}
		close(jobCh)
		wg.Wait()
	}
	if *childFlag != "" {
		co := struct {
			Results    map[int][]Run `json:"results"`
			Exhaustive map[int]bool  `json:"exhaustive"`
		}{map[int][]Run{}, map[int]bool{}}
		for ji := range jobs {
			if mine(ji) {
				co.Results[ji] = results[ji]
				co.Exhaustive[ji] = exhaustive[ji]
			}
		}
		c.WriteJSON(filepath.Join(a.Out, "results.json"), co)
		if os.Getenv("C03CONC_PROF") != "" {
			fmt.Fprintf(os.Stderr, "prof (ms): stores %d setup %d steps %d (of which stack dumps %d) (envs dropped %d) total %d\n",
				prof[0]/1e6, prof[1]/1e6, prof[2]/1e6, prof[3]/1e6, prof[4], prof[5]/1e6)
		}
		return
	}

	// ids, files
	id := 0
	if a.Replay != "" {
		var r Run
		c.ReadJSON(a.Replay, &r)
		id = r.ID
	}
	type grp struct {
		w    *world
		runs []*Run
	}
	groups := map[string]*grp{}
	var order []string
	distinct := c.Signatures{}
	allExh := true
	for ji := range results {
		if jobs[ji].origin == "dfs" && !exhaustive[ji] {
			allExh = false
		}
		for k := range results[ji] {
			r := &results[ji][k]
			r.ID = id
			id++
			p := filepath.Join(a.Out, fmt.Sprintf("hist-%d.json", r.ID))
			c.WriteJSON(p, r)
			rep.Cases[fmt.Sprint(r.ID)] = p
			rep.Histogram["runs:"+r.Origin]++
			if r.Err != "" {
				rep.ImplFailures = append(rep.ImplFailures, c.ImplFailure{Case: fmt.Sprint(r.ID), Step: len(r.Steps),
					What: r.Err, Tag: "c03conc-scheduler"})
				continue
			}
			sig := ""
			wrote, rolled := false, false
			for _, st := range r.Steps {
				rep.Histogram["step:"+st.Name]++
				sig += fmt.Sprintf("%d%s,", st.Who, st.Name)
				if st.Name == "f.WriteHeaders" {
					wrote = true
				}
				if st.Name == "b.RollbackLastBlock" {
					rolled = true
				}
			}
			if wrote && rolled {
				distinct.Add(r.Cfg.key() + sig)
				rep.Histogram["runs_with_filter_write_and_rollback"]++
			}
			if r.Final.CRes != 0 {
				rep.Histogram["cf_rejected"]++
			}
			if r.Final.BRes != 0 {
				rep.Histogram["bh_panicked"]++
			}
			rep.Histogram[fmt.Sprintf("batch:%d", min(r.Cfg.K, 4))]++
			rep.Histogram[fmt.Sprintf("depth:%d", min(r.Cfg.T-r.Cfg.Back, 4))]++
			k := r.Cfg.key()
			if groups[k] == nil {
				groups[k] = &grp{w: getWorld(r.Cfg)}
				order = append(order, k)
			}
			groups[k].runs = append(groups[k].runs, r)
		}
	}
	// shards of about 250 runs
	shard, inShard := 0, 0
	var sb strings.Builder
	var items []string
	header := "From Coq Require Import ZArith List.\nImport ListNotations.\nFrom Verif Require Import C03.Conc C03.ConcSpec C03.ReplayConc.\nOpen Scope Z_scope.\n"
	flush := func() {
		if len(items) == 0 {
			return
		}
		sb.WriteString("Definition R := Eval vm_compute in (run_cases " + c.List(items) + ").\nSet Printing Width 1000000.\nSet Printing Depth 1000000.\nPrint R.\n")
		c.WriteFile(filepath.Join(a.Out, fmt.Sprintf("cases_%d.v", shard)), header+sb.String())
		shard++
		sb.Reset()
		items = nil
		inShard = 0
	}
	for gi, k := range order {
		g := groups[k]
		sb.WriteString(fmt.Sprintf("Definition K%d := %s.\n", gi, g.w.cfgTerm()))
		var rs []string
		for _, r := range g.runs {
			rs = append(rs, runTerm(r))
		}
		items = append(items, c.Pair(fmt.Sprintf("K%d", gi), c.List(rs)))
		inShard += len(g.runs)
		if inShard >= 250 {
			flush()
		}
	}
	flush()
	if shard == 0 {
		c.WriteFile(filepath.Join(a.Out, "cases_0.v"), header+"Definition R := Eval vm_compute in (run_cases []).\nPrint R.\n")
	}
	rep.Evaluations = id
	rep.DistinctNontrivial = len(distinct)
	rep.Exhaustive = allExh && a.Replay == ""
	rep.Rule = "runs of one real writeCFHeadersMsg against one real handleHeadersMsg (reorganisation to a heavier branch) on a real blockManager over real header stores under a controlled scheduler: every store call, in-memory tip update and notification send of the two goroutines is one step released by the harness; corpus schedules (corpus/C03/f18-*.json), depth-first search over all interleavings up to commutation of independent steps for old chain 5, batch 1-3, reorg depth 1-3, every filter tip (quick tier: the first 5 schedules of the search and 5 random ones per configuration, thorough: all), random schedules for chains up to 12, batches up to 6, depths up to 6; non-trivial = the run contains a filter-header write and a block rollback; distinct = distinct (configuration, step sequence)"
	for ji := range results {
		if len(results[ji]) > 0 && len(rep.Samples) < 3 {
			rep.Samples = append(rep.Samples, results[ji][0])
		}
	}
	rep.Write(a.Out)
	if os.Getenv("C03CONC_PROF") != "" {
		fmt.Fprintf(os.Stderr, "prof (ms, summed over workers): stores %d setup %d steps %d (of which stack dumps %d) (envs dropped %d) total %d\n",
			prof[0]/1e6, prof[1]/1e6, prof[2]/1e6, prof[3]/1e6, prof[4], prof[5]/1e6)
	}
}
