package main

// The universe of one configuration: an old main chain, a heavier branch
// forking below its tip, the true filter header of every block along its own
// ancestry, and real header stores holding the old chain with filter headers
// committed up to F0.

import (
	"fmt"
	"reflect"
	"time"
	"unsafe"

	"github.com/btcsuite/btcd/blockchain"
	"github.com/btcsuite/btcd/chaincfg/v2"
	"github.com/btcsuite/btcd/chainhash/v2"
	"github.com/btcsuite/btcd/peer"
	"github.com/btcsuite/btcd/wire/v2"
	"github.com/lightninglabs/neutrino"
	"github.com/lightninglabs/neutrino/headerfs"

	"verifharness/internal/storeh"
)

// Cfg is one configuration (stored in hist-<id>.json).
type Cfg struct {
	T      int  `json:"t"`      // height of the old tip
	F0     int  `json:"f0"`     // height of the committed filter tip at the start
	K      int  `json:"k"`      // filter hashes in the cfheaders message
	Back   int  `json:"back"`   // height of the fork point
	M      int  `json:"m"`      // headers in the new branch
	MsgNew bool `json:"msgnew"` // the message is for the blocks F0+1.. of the NEW branch
}

func (c Cfg) key() string {
	return fmt.Sprintf("t%d-f%d-k%d-b%d-m%d-%v", c.T, c.F0, c.K, c.Back, c.M, c.MsgNew)
}

func (c Cfg) valid() bool {
	if c.T < 1 || c.F0 < 0 || c.F0 > c.T || c.K < 1 || c.Back < 0 || c.Back >= c.T || c.M < c.T-c.Back+1 {
		return false
	}
	if c.MsgNew {
		return c.F0 <= c.Back && c.F0+c.K > c.Back && c.F0+c.K <= c.Back+c.M
	}
	return c.F0+c.K <= c.T
}

// block ids: old chain height h -> h+1 (genesis 1); new branch j-th header
// (j = 1..M) -> T+1+j.  Filter header tokens: fbase + block id.
const fbase = 5000

type block struct {
	ID     int64
	Prev   int64
	Height int
	Hdr    *wire.BlockHeader
	Hash   chainhash.Hash
	FHash  chainhash.Hash // filter hash served for the block
	FHdr   chainhash.Hash // its true filter header
}

type world struct {
	cfg    Cfg
	params *chaincfg.Params
	old    []*block // by height, old[0] = genesis
	nw     []*block // new branch, nw[0] at height Back+1
	byHash map[chainhash.Hash]*block
	byFHdr map[chainhash.Hash]*block
	now    time.Time
}

func simParams() *chaincfg.Params {
	p := chaincfg.SimNetParams
	p.PoWNoRetargeting = true
	p.Checkpoints = nil
	return &p
}

func mine(p *chaincfg.Params, parent *wire.BlockHeader, salt uint32) *wire.BlockHeader {
	h := &wire.BlockHeader{Version: 4, PrevBlock: parent.BlockHash(),
		Timestamp: parent.Timestamp.Add(10 * time.Second), Bits: p.PowLimitBits}
	h.MerkleRoot[0] = byte(salt)
	h.MerkleRoot[1] = byte(salt >> 8)
	target := blockchain.CompactToBig(h.Bits)
	for n := uint32(0); ; n++ {
		h.Nonce = n
		hh := h.BlockHash()
		if blockchain.HashToBig(&hh).Cmp(target) <= 0 {
			return h
		}
	}
}

func newWorld(cfg Cfg, genesisFilter chainhash.Hash) (*world, error) {
	p := simParams()
	w := &world{cfg: cfg, params: p, byHash: map[chainhash.Hash]*block{}, byFHdr: map[chainhash.Hash]*block{}}
	add := func(b *block, parent *block) {
		b.Hash = b.Hdr.BlockHash()
		b.FHash = chainhash.DoubleHashH(append([]byte("filter-of-"), b.Hash[:]...))
		if parent == nil {
			b.FHdr = genesisFilter
		} else {
			b.FHdr = chainhash.DoubleHashH(append(b.FHash[:], parent.FHdr[:]...))
			b.Prev = parent.ID
		}
		w.byHash[b.Hash] = b
		w.byFHdr[b.FHdr] = b
	}
	g := &block{ID: 1, Height: 0, Hdr: &p.GenesisBlock.Header}
	add(g, nil)
	w.old = []*block{g}
	for h := 1; h <= cfg.T; h++ {
		par := w.old[h-1]
		b := &block{ID: int64(h + 1), Height: h, Hdr: mine(p, par.Hdr, uint32(h))}
		add(b, par)
		w.old = append(w.old, b)
	}
	par := w.old[cfg.Back]
	for j := 1; j <= cfg.M; j++ {
		b := &block{ID: int64(cfg.T + 1 + j), Height: cfg.Back + j, Hdr: mine(p, par.Hdr, uint32(1000+j))}
		add(b, par)
		w.nw = append(w.nw, b)
		par = b
	}
	last := w.old[cfg.T].Hdr.Timestamp
	if t := w.nw[len(w.nw)-1].Hdr.Timestamp; t.After(last) {
		last = t
	}
	w.now = last.Add(100 * time.Second)

	return w, nil
}

// initStores writes the initial state of the configuration into stores that
// hold only the genesis entries.
func (w *world) initStores(e *storeh.Env) error {
	cfg := w.cfg
	var bhs []headerfs.BlockHeader
	for h := 1; h <= cfg.T; h++ {
		bhs = append(bhs, headerfs.BlockHeader{BlockHeader: w.old[h].Hdr, Height: uint32(h)})
	}
	if err := e.BS.WriteHeaders(bhs...); err != nil {
		return err
	}
	if cfg.F0 > 0 {
		var fhs []headerfs.FilterHeader
		for h := 1; h <= cfg.F0; h++ {
			fhs = append(fhs, headerfs.FilterHeader{FilterHash: w.old[h].FHdr})
		}
		fhs[len(fhs)-1].HeaderHash = w.old[cfg.F0].Hash
		fhs[len(fhs)-1].Height = uint32(cfg.F0)
		if err := e.FS.WriteHeaders(fhs...); err != nil {
			return err
		}
	}
	return nil
}

// msgBlocks: the blocks the cfheaders message is for.
func (w *world) msgBlocks() []*block {
	var out []*block
	for h := w.cfg.F0 + 1; h <= w.cfg.F0+w.cfg.K; h++ {
		if w.cfg.MsgNew && h > w.cfg.Back {
			out = append(out, w.nw[h-w.cfg.Back-1])
		} else {
			out = append(out, w.old[h])
		}
	}
	return out
}

func (w *world) message() *wire.MsgCFHeaders {
	bl := w.msgBlocks()
	msg := wire.NewMsgCFHeaders()
	msg.FilterType = wire.GCSFilterRegular
	msg.StopHash = bl[len(bl)-1].Hash
	msg.PrevFilterHeader = w.old[w.cfg.F0].FHdr
	for _, b := range bl {
		fh := b.FHash
		msg.AddCFHash(&fh)
	}
	return msg
}

func (w *world) btok(h chainhash.Hash) int64 {
	if b, ok := w.byHash[h]; ok {
		return b.ID
	}
	return 0
}

func (w *world) ftok(h chainhash.Hash) int64 {
	if b, ok := w.byFHdr[h]; ok {
		return fbase + b.ID
	}
	return 0
}

type clock struct{ t time.Time }

func (f *clock) AdjustedTime() time.Time         { return f.t }
func (f *clock) AddTimeSample(string, time.Time) {}
func (f *clock) Offset() time.Duration           { return 0 }

func setField(p *peer.Peer, name string, v interface{}) {
	f := reflect.ValueOf(p).Elem().FieldByName(name)
	reflect.NewAt(f.Type(), unsafe.Pointer(f.UnsafeAddr())).Elem().Set(reflect.ValueOf(v))
}

// syncPeer: an unconnected btcd peer that qualifies as sync peer and claims
// the tip of the new branch.
func (w *world) syncPeer() *neutrino.ServerPeer {
	p, err := peer.NewOutboundPeer(&peer.Config{}, "10.0.0.1:18555")
	if err != nil {
		panic(err)
	}
	setField(p, "services", wire.SFNodeWitness|wire.SFNodeCF|wire.SFNodeNetwork)
	setField(p, "startingHeight", int32(w.cfg.Back+w.cfg.M))
	p.UpdateLastBlockHeight(int32(w.cfg.Back + w.cfg.M))
	return neutrino.VerifNewServerPeer(p)
}
