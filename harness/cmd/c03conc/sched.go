package main

// Controlled scheduler. The two header stores handed to the block manager
// are wrappers: every store call made by one of the two goroutines under
// test (cf = writeCFHeadersMsg, bh = handleHeadersMsg) blocks at its entry
// until the harness releases it; the two filter-store calls that are followed
// by an update of the in-memory tip (WriteHeaders, RollbackLastBlock) also
// block at their exit, so that the update is a step of its own. The
// notification channel is unbuffered and consumed by the harness: a send is
// a step that happens when the harness receives. After every step the
// harness waits until the goroutine is parked again: at a gate (it tells us),
// finished, on the channel send or on a mutex of the block manager (both read
// off runtime.Stack, never inferred from elapsed time). Every wait has a
// deadline.

import (
	"bytes"
	"fmt"
	"runtime"
	"strings"
	"sync"
	"time"

	"github.com/btcsuite/btcd/blockchain"
	"github.com/btcsuite/btcd/chainhash/v2"
	"github.com/btcsuite/btcd/wire/v2"
	"github.com/lightninglabs/neutrino/blockntfns"
	"github.com/lightninglabs/neutrino/headerfs"
)

const (
	stRunning = iota
	stGate
	stSend
	stMutex
	stDone
)

const stepDeadline = 20 * time.Second

type Obs [5]int64

type arrival struct {
	name   string // call name, or "start"
	exit   bool
	resume chan struct{}
}

type sched struct {
	w      *world
	mu     sync.Mutex
	gids   [2]string
	roleOf map[string]int
	arr    [2]chan *arrival
	done   [2]chan struct{}
	state  [2]int
	at     [2]*arrival
	last   [2]*Obs // result of the last gated call of the goroutine
	free   bool    // gates are open (after a failure)
	ntfn   chan blockntfns.BlockNtfn
	// ungated store calls of bh outside rollBackToHeight (reads of the
	// header loop, the sanity context, the epilogue)
	ungated  map[string]int
	stackBuf []byte
	memtip   func() (uint32, chainhash.Hash)
}

func newSched(w *world) *sched {
	s := &sched{w: w, roleOf: map[string]int{}, ungated: map[string]int{}}
	for i := range s.arr {
		s.arr[i] = make(chan *arrival, 1)
		s.done[i] = make(chan struct{})
	}
	s.ntfn = make(chan blockntfns.BlockNtfn)
	return s
}

func goid() string {
	var b [64]byte
	n := runtime.Stack(b[:], false)
	f := strings.Fields(string(b[:n]))
	if len(f) < 2 {
		return "?"
	}
	return f[1]
}

func (s *sched) register(who int) {
	g := goid()
	s.mu.Lock()
	s.gids[who] = g
	s.roleOf[g] = who
	s.mu.Unlock()
}

func (s *sched) whoami() int {
	g := goid()
	s.mu.Lock()
	defer s.mu.Unlock()
	if w, ok := s.roleOf[g]; ok {
		return w
	}
	return -1
}

func inRollback() bool {
	var pcs [40]uintptr
	n := runtime.Callers(3, pcs[:])
	fr := runtime.CallersFrames(pcs[:n])
	for {
		f, more := fr.Next()
		if strings.HasSuffix(f.Function, ".rollBackToHeight") {
			return true
		}
		if !more {
			return false
		}
	}
}

// gate blocks the calling goroutine until the harness releases it.
func (s *sched) gate(who int, name string, exit bool) {
	s.mu.Lock()
	free := s.free
	s.mu.Unlock()
	if free {
		return
	}
	a := &arrival{name: name, exit: exit, resume: make(chan struct{})}
	s.arr[who] <- a
	<-a.resume
}

// enter: entry gate of a store call. Returns the role if the call is one of
// the gated ones (-1: pass through).
func (s *sched) enter(name string) int {
	who := s.whoami()
	if who < 0 {
		return -1
	}
	if who == 1 && name != "b.WriteHeaders" && !inRollback() {
		s.mu.Lock()
		s.ungated[name]++
		s.mu.Unlock()
		return -1
	}
	s.gate(who, name, false)
	return who
}

func (s *sched) result(who int, o Obs) {
	o[0] = int64(who)
	s.mu.Lock()
	s.last[who] = &o
	s.mu.Unlock()
}

// ---------------------------------------------------------------------
// store wrappers

type gateBS struct {
	headerfs.BlockHeaderStore
	s *sched
}

func (g *gateBS) ChainTip() (*wire.BlockHeader, uint32, error) {
	who := g.s.enter("b.ChainTip")
	h, ht, err := g.BlockHeaderStore.ChainTip()
	if who >= 0 {
		if err != nil {
			g.s.result(who, Obs{0, 20, 0, -1, 0})
		} else {
			g.s.result(who, Obs{0, 20, g.s.w.btok(h.BlockHash()), int64(ht), 0})
		}
	}
	return h, ht, err
}

func (g *gateBS) FetchHeader(hash *chainhash.Hash) (*wire.BlockHeader, uint32, error) {
	who := g.s.enter("b.FetchHeader")
	h, ht, err := g.BlockHeaderStore.FetchHeader(hash)
	if who >= 0 {
		if err != nil {
			g.s.result(who, Obs{0, 21, g.s.w.btok(*hash), -1, 0})
		} else {
			g.s.result(who, Obs{0, 21, g.s.w.btok(*hash), int64(ht), 0})
		}
	}
	return h, ht, err
}

func (g *gateBS) FetchHeaderByHeight(height uint32) (*wire.BlockHeader, error) {
	who := g.s.enter("b.FetchHeaderByHeight")
	h, err := g.BlockHeaderStore.FetchHeaderByHeight(height)
	if who >= 0 {
		g.s.result(who, Obs{0, 91, int64(height), 0, 0})
	}
	return h, err
}

func (g *gateBS) FetchHeaderAncestors(n uint32, stop *chainhash.Hash) ([]wire.BlockHeader, uint32, error) {
	who := g.s.enter("b.FetchHeaderAncestors")
	hs, start, err := g.BlockHeaderStore.FetchHeaderAncestors(n, stop)
	if who >= 0 {
		if err != nil {
			g.s.result(who, Obs{0, 11, int64(n), g.s.w.btok(*stop), -1})
		} else {
			g.s.result(who, Obs{0, 11, int64(n), g.s.w.btok(*stop), int64(start)})
		}
	}
	return hs, start, err
}

func (g *gateBS) HeightFromHash(hash *chainhash.Hash) (uint32, error) {
	who := g.s.enter("b.HeightFromHash")
	h, err := g.BlockHeaderStore.HeightFromHash(hash)
	if who >= 0 {
		g.s.result(who, Obs{0, 92, g.s.w.btok(*hash), 0, 0})
	}
	return h, err
}

func (g *gateBS) RollbackLastBlock() (*headerfs.BlockStamp, error) {
	who := g.s.enter("b.RollbackLastBlock")
	bs, err := g.BlockHeaderStore.RollbackLastBlock()
	if who >= 0 {
		if err != nil {
			g.s.result(who, Obs{0, 24, 0, -1, 0})
		} else {
			g.s.result(who, Obs{0, 24, g.s.w.btok(bs.Hash), int64(bs.Height), 0})
		}
	}
	return bs, err
}

func (g *gateBS) WriteHeaders(hdrs ...headerfs.BlockHeader) error {
	who := g.s.enter("b.WriteHeaders")
	err := g.BlockHeaderStore.WriteHeaders(hdrs...)
	if who >= 0 {
		o := Obs{0, 26, int64(len(hdrs)), 0, 0}
		if len(hdrs) > 0 {
			o[3] = g.s.w.btok(hdrs[0].BlockHash())
			o[4] = int64(hdrs[0].Height)
		}
		if err != nil {
			o[4] = -1
		}
		g.s.result(who, o)
	}
	return err
}

func (g *gateBS) LatestBlockLocator() (blockchain.BlockLocator, error) {
	g.s.enter("b.LatestBlockLocator")
	return g.BlockHeaderStore.LatestBlockLocator()
}

type gateFS struct {
	headerfs.FilterHeaderStore
	s *sched
}

func (g *gateFS) ChainTip() (*chainhash.Hash, uint32, error) {
	who := g.s.enter("f.ChainTip")
	h, ht, err := g.FilterHeaderStore.ChainTip()
	if who >= 0 {
		if err != nil {
			g.s.result(who, Obs{0, 10, -1, 0, 0})
		} else {
			g.s.result(who, Obs{0, 10, g.s.w.ftok(*h), int64(ht), 0})
		}
	}
	return h, ht, err
}

func (g *gateFS) FetchHeader(hash *chainhash.Hash) (*chainhash.Hash, error) {
	who := g.s.enter("f.FetchHeader")
	h, err := g.FilterHeaderStore.FetchHeader(hash)
	if who >= 0 {
		g.s.result(who, Obs{0, 93, g.s.w.btok(*hash), 0, 0})
	}
	return h, err
}

func (g *gateFS) FetchHeaderByHeight(height uint32) (*chainhash.Hash, error) {
	who := g.s.enter("f.FetchHeaderByHeight")
	h, err := g.FilterHeaderStore.FetchHeaderByHeight(height)
	if who >= 0 {
		g.s.result(who, Obs{0, 94, int64(height), 0, 0})
	}
	return h, err
}

func (g *gateFS) FetchHeaderAncestors(n uint32, stop *chainhash.Hash) ([]chainhash.Hash, uint32, error) {
	who := g.s.enter("f.FetchHeaderAncestors")
	hs, st, err := g.FilterHeaderStore.FetchHeaderAncestors(n, stop)
	if who >= 0 {
		g.s.result(who, Obs{0, 95, int64(n), g.s.w.btok(*stop), 0})
	}
	return hs, st, err
}

func (g *gateFS) WriteHeaders(hdrs ...headerfs.FilterHeader) error {
	who := g.s.enter("f.WriteHeaders")
	err := g.FilterHeaderStore.WriteHeaders(hdrs...)
	if who >= 0 {
		o := Obs{0, 12, int64(len(hdrs)), 0, 0}
		if len(hdrs) > 0 {
			o[3] = g.s.w.btok(hdrs[len(hdrs)-1].HeaderHash)
		}
		if err != nil {
			o[4] = -1
		}
		g.s.result(who, o)
		g.s.gate(who, "f.WriteHeaders", true)
	}
	return err
}

func (g *gateFS) RollbackLastBlock(newTip *chainhash.Hash) (*headerfs.BlockStamp, error) {
	who := g.s.enter("f.RollbackLastBlock")
	bs, err := g.FilterHeaderStore.RollbackLastBlock(newTip)
	if who >= 0 {
		if err != nil {
			g.s.result(who, Obs{0, 22, g.s.w.btok(*newTip), -1, 0})
		} else {
			g.s.result(who, Obs{0, 22, g.s.w.btok(*newTip), int64(bs.Height), 0})
			// the in-memory tip is only touched after a successful rollback
			g.s.gate(who, "f.RollbackLastBlock", true)
		}
	}
	return bs, err
}

// ---------------------------------------------------------------------
// parked-state detection

// status returns the wait reason of goroutine gid ("" if it is not waiting)
// and whether it waits on a mutex taken by a blockManager method.
func (s *sched) status(gid string) (string, bool) {
	t0 := time.Now()
	defer func() { tick(3, t0) }()
	if s.stackBuf == nil {
		s.stackBuf = make([]byte, 1<<18)
	}
	var st []byte
	for {
		n := runtime.Stack(s.stackBuf, true)
		if n < len(s.stackBuf) {
			st = s.stackBuf[:n]
			break
		}
		s.stackBuf = make([]byte, 2*len(s.stackBuf))
	}
	hdr := []byte("goroutine " + gid + " [")
	for off := 0; ; {
		i := bytes.Index(st[off:], hdr)
		if i < 0 {
			return "", false
		}
		i += off
		if i != 0 && st[i-1] != '\n' {
			off = i + len(hdr)
			continue
		}
		rest := st[i+len(hdr):]
		j := bytes.IndexByte(rest, ']')
		if j < 0 {
			return "", false
		}
		reason := string(rest[:j])
		if k := strings.IndexByte(reason, ','); k >= 0 {
			reason = reason[:k]
		}
		body := rest[j:]
		if e := bytes.Index(body, []byte("\n\n")); e >= 0 {
			body = body[:e]
		}
		// first frame that is not runtime/sync internals
		inBM := false
		for _, ln := range strings.Split(string(body), "\n")[1:] {
			if strings.HasPrefix(ln, "\t") || ln == "" {
				continue
			}
			if strings.HasPrefix(ln, "runtime.") || strings.HasPrefix(ln, "sync.") || strings.HasPrefix(ln, "internal/") {
				continue
			}
			inBM = strings.Contains(ln, "neutrino.(*blockManager).")
			break
		}
		return reason, inBM
	}
}

// dump returns the stacks of the two goroutines (diagnostics).
func (s *sched) dump() string {
	buf := make([]byte, 1<<20)
	n := runtime.Stack(buf, true)
	var out []string
	for _, blk := range strings.Split(string(buf[:n]), "\n\n") {
		for _, g := range s.gids {
			if strings.HasPrefix(blk, "goroutine "+g+" [") {
				out = append(out, blk)
			}
		}
	}
	return strings.Join(out, "\n\n")
}

// settle waits until goroutine who is parked again or finished.
func (s *sched) settle(who int) error {
	if s.state[who] == stDone {
		return nil
	}
	deadline := time.Now().Add(stepDeadline)
	// reaching the next gate or returning takes microseconds: wait for
	// that first; only when nothing arrives look at the goroutine's state
	wait := 100 * time.Microsecond
	for {
		t := time.NewTimer(wait)
		select {
		case a := <-s.arr[who]:
			t.Stop()
			s.state[who], s.at[who] = stGate, a
			return nil
		case <-s.done[who]:
			t.Stop()
			s.state[who], s.at[who] = stDone, nil
			return nil
		case <-t.C:
		}
		reason, inBM := s.status(s.gids[who])
		switch {
		case (reason == "chan send" || reason == "select") && inBM:
			// it cannot have reached a gate and gone on to the send
			// without the harness; but an arrival may be in flight
			select {
			case a := <-s.arr[who]:
				s.state[who], s.at[who] = stGate, a
				return nil
			default:
			}
			s.state[who], s.at[who] = stSend, nil
			return nil
		case (reason == "sync.Mutex.Lock" || reason == "sync.RWMutex.Lock" || reason == "sync.RWMutex.RLock") && inBM:
			// (not "semacquire": the runtime parks goroutines with that
			// reason for its own purposes, e.g. while the world is stopped)
			s.state[who], s.at[who] = stMutex, nil
			return nil
		}
		if time.Now().After(deadline) {
			return fmt.Errorf("goroutine %d neither parked nor finished within %v", who, stepDeadline)
		}
		if wait < 2*time.Millisecond {
			wait *= 2
		}
	}
}

func (s *sched) settleAll(first int) error {
	for _, who := range []int{first, 1 - first} {
		if s.state[who] == stRunning || s.state[who] == stMutex {
			s.state[who] = stRunning
			if err := s.settle(who); err != nil {
				return err
			}
		}
	}
	return nil
}

func (s *sched) enabled(who int) bool { return s.state[who] == stGate || s.state[who] == stSend }

// nextName names the step goroutine who would take next.
func (s *sched) nextName(who int) string {
	switch s.state[who] {
	case stGate:
		if s.at[who].exit {
			return s.at[who].name + ":exit"
		}
		return s.at[who].name
	case stSend:
		return "send"
	case stMutex:
		return "blocked"
	case stDone:
		return "done"
	}
	return "running"
}

// Step is one executed step.
type Step struct {
	Who  int    `json:"who"`
	Name string `json:"name"`
	Obs  Obs    `json:"obs"`
}

func (s *sched) memObs(who int, code int64) Obs {
	h, x := s.memtip()
	return Obs{int64(who), code, int64(h), s.w.btok(x), 0}
}

// step lets goroutine who make its next step. The step recorded may belong
// to the other goroutine when both are parked on the channel send (the
// channel hands over the sender that arrived first).
func (s *sched) step(who int) (Step, error) {
	switch s.state[who] {
	case stGate:
		a := s.at[who]
		name := s.nextName(who)
		s.mu.Lock()
		s.last[who] = nil
		s.mu.Unlock()
		s.state[who], s.at[who] = stRunning, nil
		close(a.resume)
		if err := s.settleAll(who); err != nil {
			return Step{Who: who, Name: name}, err
		}
		var o Obs
		switch {
		case a.name == "start":
			v := int64(1)
			if s.state[who] == stMutex {
				v = 0
			} else if s.state[who] == stDone {
				v = 2
			}
			o = Obs{int64(who), 1, v, 0, 0}
		case a.exit && a.name == "f.WriteHeaders":
			o = s.memObs(who, 13)
		case a.exit:
			o = s.memObs(who, 23)
		default:
			s.mu.Lock()
			if s.last[who] != nil {
				o = *s.last[who]
			} else {
				o = Obs{int64(who), 99, 0, 0, 0}
			}
			s.mu.Unlock()
		}
		return Step{Who: who, Name: name, Obs: o}, nil
	case stSend:
		var n blockntfns.BlockNtfn
		select {
		case n = <-s.ntfn:
		case <-time.After(stepDeadline):
			return Step{Who: who, Name: "send"}, fmt.Errorf("no notification although goroutine %d is parked on the send", who)
		}
		hd := n.Header()
		var o Obs
		sender := 0
		switch x := n.(type) {
		case *blockntfns.Connected:
			o = Obs{0, 14, s.w.btok(hd.BlockHash()), int64(n.Height()), 0}
		case *blockntfns.Disconnected:
			sender = 1
			nt := x.ChainTip()
			o = Obs{1, 25, s.w.btok(hd.BlockHash()), int64(n.Height()), s.w.btok(nt.BlockHash())}
		}
		s.state[sender] = stRunning
		if err := s.settleAll(sender); err != nil {
			return Step{Who: sender, Name: "send", Obs: o}, err
		}
		return Step{Who: sender, Name: "send", Obs: o}, nil
	default:
		return Step{Who: who, Name: s.nextName(who), Obs: Obs{int64(who), 0, 0, 0, 0}}, nil
	}
}

// abandon opens all gates and drains the channel so that the goroutines can
// run to their end after a failure.
func (s *sched) abandon() {
	s.mu.Lock()
	s.free = true
	s.mu.Unlock()
	go func() {
		for {
			select {
			case <-s.ntfn:
			case <-time.After(2 * stepDeadline):
				return
			}
		}
	}()
	for who := 0; who < 2; who++ {
		if s.state[who] == stGate && s.at[who] != nil {
			close(s.at[who].resume)
			s.at[who] = nil
		}
		go func(who int) {
			for {
				select {
				case a := <-s.arr[who]:
					close(a.resume)
				case <-s.done[who]:
					return
				case <-time.After(2 * stepDeadline):
					return
				}
			}
		}(who)
	}
}
