// Correspondence harness for HL (S2b): drives the real headerlist package
// (BoundedMemoryChain, Node.Prev, Node.Ancestor) with generated histories of
// ResetHeaderState / PushBack / Back / Front / Prev-walks / Ancestor lookups
// and writes the observations as Coq cases for Verif.HL.Replay.
package main

import (
	"fmt"
	"math"
	"math/rand"
	"path/filepath"
	"strings"
	"sync"
	"time"

	"github.com/btcsuite/btcd/chainhash/v2"
	"github.com/btcsuite/btcd/wire/v2"
	"github.com/lightninglabs/neutrino/headerlist"

	c "verifharness/internal/common"
)

// Op is one operation of a history (JSON form, replayable).
type Op struct {
	Kind string `json:"kind"` // reset|push|back|front|prevs|anc|dump
	H    int32  `json:"h,omitempty"`
	Tok  uint32 `json:"tok,omitempty"`
	// Dirty: the Node handed to PushBack/ResetHeaderState is a copy of a
	// node already in the chain (1 = Back, 2 = Front, 3 = a middle node),
	// so it carries non-nil prev/ancestor pointers.  Not part of the
	// model: the code overwrites both.
	Dirty int   `json:"dirty,omitempty"`
	K     int   `json:"k,omitempty"`
	T     int32 `json:"t,omitempty"`
	Obs   *Obs  `json:"obs,omitempty"`
}

// Obs is what the real code answered.
type Obs struct {
	Kind  string     `json:"kind"` // node|list|dump|panic
	Nil   bool       `json:"nil,omitempty"`
	H     int64      `json:"h,omitempty"`
	Tok   int64      `json:"tok,omitempty"`
	List  [][2]int64 `json:"list,omitempty"`
	Head  int32      `json:"head,omitempty"`
	Tail  int32      `json:"tail,omitempty"`
	Len   int32      `json:"len,omitempty"`
	Slots [][4]int64 `json:"slots,omitempty"`
}

type History struct {
	ID   int    `json:"id"`
	Cap  int    `json:"cap"`
	Note string `json:"note,omitempty"`
	Ops  []Op   `json:"ops"`
}

func mkHeader(tok uint32) wire.BlockHeader {
	var prev, merkle chainhash.Hash
	for i := range prev {
		prev[i] = byte(tok>>uint(8*(i%4))) ^ byte(i)
		merkle[i] = byte(tok>>uint(8*((i+1)%4))) ^ byte(3*i)
	}
	return wire.BlockHeader{
		Version:    int32(tok%7) + 1,
		PrevBlock:  prev,
		MerkleRoot: merkle,
		Timestamp:  time.Unix(1600000000+int64(tok), 0),
		Bits:       0x1d00ffff ^ (tok & 0xff),
		Nonce:      tok,
	}
}

// tokOf is the header token of a node: its nonce if the whole header is the
// one built for that nonce, -1 otherwise.
func tokOf(n *headerlist.Node) int64 {
	if n.Header == mkHeader(n.Header.Nonce) {
		return int64(n.Header.Nonce)
	}
	return -1
}

func nodeObs(n *headerlist.Node) *Obs {
	if n == nil {
		return &Obs{Kind: "node", Nil: true}
	}
	return &Obs{Kind: "node", H: int64(n.Height), Tok: tokOf(n)}
}

// runHistory executes h on the real code, filling in the observations. A
// panic ends the history (the panicking op gets obs "panic", later ops are
// dropped).
func runHistory(h *History) {
	chain := headerlist.NewBoundedMemoryChain(uint32(h.Cap))
	for i := range h.Ops {
		op := &h.Ops[i]
		panicked := false
		func() {
			defer func() {
				if r := recover(); r != nil {
					panicked = true
					op.Obs = &Obs{Kind: "panic"}
				}
			}()
			switch op.Kind {
			case "reset", "push":
				n := headerlist.Node{}
				var src *headerlist.Node
				switch op.Dirty {
				case 1:
					src = chain.Back()
				case 2:
					src = chain.Front()
				case 3:
					if b := chain.Back(); b != nil {
						src = b.Prev()
						if src != nil && src.Prev() != nil {
							src = src.Prev()
						}
					}
				}
				if src != nil {
					n = *src
				}
				n.Height = op.H
				n.Header = mkHeader(op.Tok)
				if op.Kind == "reset" {
					chain.ResetHeaderState(n)
					op.Obs = nodeObs(chain.Back())
				} else {
					op.Obs = nodeObs(chain.PushBack(n))
				}
			case "back":
				op.Obs = nodeObs(chain.Back())
			case "front":
				op.Obs = nodeObs(chain.Front())
			case "prevs":
				o := &Obs{Kind: "list", List: [][2]int64{}}
				n := chain.Back()
				for j := 0; n != nil && j < h.Cap+2; j++ {
					o.List = append(o.List, [2]int64{int64(n.Height), tokOf(n)})
					n = n.Prev()
				}
				op.Obs = o
			case "anc":
				n := chain.Back()
				for j := 0; j < op.K && n != nil; j++ {
					n = n.Prev()
				}
				op.Obs = nodeObs(n.Ancestor(op.T))
			case "dump":
				hd, tl, ln, sl := chain.VerifDump()
				o := &Obs{Kind: "dump", Head: hd, Tail: tl, Len: ln, Slots: [][4]int64{}}
				for _, s := range sl {
					o.Slots = append(o.Slots, [4]int64{int64(s.Height), int64(s.Nonce), int64(s.Prev), int64(s.Anc)})
				}
				op.Obs = o
			default:
				panic("op kind " + op.Kind)
			}
		}()
		if panicked {
			h.Ops = h.Ops[:i+1]
			return
		}
	}
}

// ---------------------------------------------------------------------
// generators

func pickCap(r *rand.Rand) int {
	switch x := r.Intn(10); {
	case x < 2:
		return 1 + r.Intn(2) // 1, 2
	case x < 5:
		return 3 + r.Intn(6) // 3..8
	default:
		return 1 + r.Intn(40)
	}
}

func pickBase(r *rand.Rand) int32 {
	switch r.Intn(8) {
	case 0:
		return int32(r.Intn(11) - 5)
	case 1:
		return int32(-1 - r.Intn(200))
	case 2:
		return int32(1<<uint(3+r.Intn(27))) - int32(r.Intn(6))
	case 3:
		return math.MaxInt32 - 2000 - int32(r.Intn(1000))
	default:
		return int32(r.Intn(3000))
	}
}

// mode: 0 consecutive heights (the block manager's use), 1 increasing with
// gaps, 2 non-decreasing (duplicates: ill-formed), 3 arbitrary heights with
// capacity 1 (ill-formed; capacity 1 never builds a prev pointer)
func genHistory(r *rand.Rand, id, nops, mode int) History {
	h := History{ID: id, Cap: pickCap(r)}
	if mode == 3 {
		h.Cap = 1
	}
	h.Note = []string{"consecutive", "gaps", "duplicates", "cap1-arbitrary"}[mode]
	tok := uint32(r.Intn(1000))
	var win []int32 // heights of the window, oldest first (harness-side bookkeeping for targeting only)
	next := func(back int32) int32 {
		switch mode {
		case 0:
			return back + 1
		case 1:
			if r.Intn(3) == 0 {
				return back + 1 + int32(r.Intn(5))
			}
			return back + 1
		case 2:
			return back + int32(r.Intn(3))
		default:
			return back + int32(r.Intn(9)) - 4
		}
	}
	pushW := func(x int32) {
		win = append(win, x)
		if len(win) > h.Cap {
			win = win[1:]
		}
	}
	dirty := func() int {
		if r.Intn(5) == 0 {
			return 1 + r.Intn(3)
		}
		return 0
	}
	target := func() int32 {
		if len(win) == 0 {
			return int32(r.Intn(20) - 5)
		}
		front, back := win[0], win[len(win)-1]
		switch x := r.Intn(20); {
		case x < 11:
			return win[r.Intn(len(win))]
		case x < 12:
			return front
		case x < 13:
			return back
		case x < 16:
			return front - 1 - int32(r.Intn(5)) // pruned / before the reset point
		case x < 18:
			return back + 1 + int32(r.Intn(3)) // above the tip
		case x < 19:
			return -1 - int32(r.Intn(1000))
		default:
			if mode != 0 && back > front {
				return front + int32(r.Intn(int(back-front))) // maybe inside a gap
			}
			return int32(r.Uint32())
		}
	}
	// 1 in 6 histories starts with queries on the empty chain and a bare
	// PushBack; the others with a reset as the block manager does.
	if r.Intn(6) == 0 {
		h.Ops = append(h.Ops, Op{Kind: "back"}, Op{Kind: "front"}, Op{Kind: "prevs"},
			Op{Kind: "anc", K: r.Intn(2), T: target()}, Op{Kind: "dump"})
		b := pickBase(r)
		tok++
		h.Ops = append(h.Ops, Op{Kind: "push", H: b, Tok: tok})
		pushW(b)
	} else {
		b := pickBase(r)
		tok++
		h.Ops = append(h.Ops, Op{Kind: "reset", H: b, Tok: tok})
		win = []int32{b}
	}
	burst := 0
	for len(h.Ops) < nops {
		x := r.Intn(100)
		if burst > 0 {
			x = 0
			burst--
		} else if r.Intn(25) == 0 {
			burst = h.Cap/2 + r.Intn(h.Cap+2) // a run of pushes: wraps the ring
		}
		switch {
		case x < 35:
			nh := next(win[len(win)-1])
			tok++
			h.Ops = append(h.Ops, Op{Kind: "push", H: nh, Tok: tok, Dirty: dirty()})
			pushW(nh)
		case x < 39:
			var b int32
			switch r.Intn(4) {
			case 0:
				b = win[0] - int32(r.Intn(50)) // reorg: restart lower
			case 1:
				b = win[len(win)-1]
			case 2:
				b = win[r.Intn(len(win))]
			default:
				b = pickBase(r)
			}
			tok++
			h.Ops = append(h.Ops, Op{Kind: "reset", H: b, Tok: tok, Dirty: dirty()})
			win = []int32{b}
		case x < 43:
			h.Ops = append(h.Ops, Op{Kind: "back"})
		case x < 47:
			h.Ops = append(h.Ops, Op{Kind: "front"})
		case x < 53:
			h.Ops = append(h.Ops, Op{Kind: "prevs"})
		case x < 95:
			k := 0
			if r.Intn(3) == 0 {
				k = r.Intn(len(win) + 2)
			}
			h.Ops = append(h.Ops, Op{Kind: "anc", K: k, T: target()})
		default:
			h.Ops = append(h.Ops, Op{Kind: "dump"})
		}
	}
	return h
}

// fixed regression histories
func corpus() []History {
	var hs []History
	seq := func(capacity int, note string, ops ...Op) {
		hs = append(hs, History{ID: len(hs), Cap: capacity, Note: note, Ops: ops})
	}
	// capacity 1: every push overwrites the only slot
	{
		ops := []Op{{Kind: "reset", H: 10, Tok: 1}}
		for i := int32(11); i < 15; i++ {
			ops = append(ops, Op{Kind: "push", H: i, Tok: uint32(i), Dirty: int(i % 2)},
				Op{Kind: "prevs"}, Op{Kind: "anc", T: i}, Op{Kind: "anc", T: i - 1},
				Op{Kind: "anc", K: 1, T: i}, Op{Kind: "front"}, Op{Kind: "dump"})
		}
		seq(1, "cap1", ops...)
	}
	// capacity 4, 1..40: stale skip pointers into overwritten slots; ask every height
	for _, capacity := range []int{2, 4, 7} {
		ops := []Op{{Kind: "reset", H: 1, Tok: 1}}
		for i := int32(2); i <= 40; i++ {
			ops = append(ops, Op{Kind: "push", H: i, Tok: uint32(i)})
			if i%5 == 0 {
				for t := i - int32(capacity) - 2; t <= i+1; t++ {
					ops = append(ops, Op{Kind: "anc", T: t}, Op{Kind: "anc", K: 1, T: t})
				}
				ops = append(ops, Op{Kind: "prevs"}, Op{Kind: "dump"})
			}
		}
		seq(capacity, "wrap-all-heights", ops...)
	}
	// reset in the middle of a wrapped ring, restarting lower (reorg)
	{
		ops := []Op{{Kind: "reset", H: 100, Tok: 1}}
		for i := int32(101); i <= 112; i++ {
			ops = append(ops, Op{Kind: "push", H: i, Tok: uint32(i)})
		}
		ops = append(ops, Op{Kind: "dump"}, Op{Kind: "reset", H: 104, Tok: 500, Dirty: 1}, Op{Kind: "dump"})
		for i := int32(105); i <= 108; i++ {
			ops = append(ops, Op{Kind: "push", H: i, Tok: uint32(500 + i), Dirty: 3},
				Op{Kind: "anc", T: 104}, Op{Kind: "anc", T: 103}, Op{Kind: "anc", T: 110},
				Op{Kind: "anc", T: i - 1}, Op{Kind: "prevs"}, Op{Kind: "front"})
		}
		ops = append(ops, Op{Kind: "dump"})
		seq(5, "reset-lower", ops...)
	}
	// heights around zero and negative
	{
		ops := []Op{{Kind: "reset", H: -6, Tok: 1}}
		for i := int32(-5); i <= 9; i++ {
			ops = append(ops, Op{Kind: "push", H: i, Tok: uint32(i + 100)},
				Op{Kind: "anc", T: 0}, Op{Kind: "anc", T: -3}, Op{Kind: "anc", T: i - 2}, Op{Kind: "anc", T: -7})
		}
		ops = append(ops, Op{Kind: "prevs"}, Op{Kind: "dump"})
		seq(6, "negative", ops...)
	}
	// capacity 0: PushBack divides by zero
	seq(0, "cap0", Op{Kind: "back"}, Op{Kind: "front"}, Op{Kind: "dump"}, Op{Kind: "push", H: 1, Tok: 1}, Op{Kind: "back"})
	return hs
}

// ---------------------------------------------------------------------
// Coq terms

func pairTerm(h, tok int64) string { return "(" + c.Z(h) + ", " + c.Z(tok) + ")" }

func obsTerm(o *Obs) string {
	switch o.Kind {
	case "node":
		if o.Nil {
			return "(ONode None)"
		}
		return "(ONode (Some " + pairTerm(o.H, o.Tok) + "))"
	case "list":
		it := make([]string, len(o.List))
		for i, p := range o.List {
			it[i] = pairTerm(p[0], p[1])
		}
		return "(OList " + c.List(it) + ")"
	case "dump":
		it := make([]string, len(o.Slots))
		for i, s := range o.Slots {
			it[i] = fmt.Sprintf("(%s, %s, %s, %s)", c.Z(s[0]), c.Z(s[1]), c.Z(s[2]), c.Z(s[3]))
		}
		return c.App("ODump", c.Z(int64(o.Head)), c.Z(int64(o.Tail)), c.Z(int64(o.Len)), c.List(it))
	case "panic":
		return "OPanic"
	}
	panic("obs " + o.Kind)
}

func evTerm(op *Op) (string, string) {
	switch op.Kind {
	case "reset":
		return c.App("EReset", c.Z(int64(op.H)), c.Z(int64(op.Tok))), "R"
	case "push":
		return c.App("EPush", c.Z(int64(op.H)), c.Z(int64(op.Tok))), "P"
	case "back":
		return "EBack", "b"
	case "front":
		return "EFront", "f"
	case "prevs":
		return "EPrevs", "v"
	case "anc":
		s := "a"
		if op.Obs != nil && op.Obs.Kind == "node" && !op.Obs.Nil {
			s = "A"
		}
		return c.App("EAnc", fmt.Sprintf("%d%%nat", op.K), c.Z(int64(op.T))), s
	case "dump":
		return "EDump", "d"
	}
	panic("kind " + op.Kind)
}

func caseTerm(h *History) (string, string) {
	var items, sig []string
	for i := range h.Ops {
		op := &h.Ops[i]
		if op.Obs == nil {
			break
		}
		e, s := evTerm(op)
		if op.Obs.Kind == "panic" {
			s = "!"
		}
		items = append(items, c.Pair(e, obsTerm(op.Obs)))
		sig = append(sig, s)
	}
	return c.Pair(c.Z(int64(h.ID)), c.Pair(c.Z(int64(h.Cap)), c.List(items))), strings.Join(sig, "")
}

// wrapped reports whether some run of pushes after a reset exceeded the capacity.
func wrapped(h *History) bool {
	n := 0
	for i := range h.Ops {
		switch h.Ops[i].Kind {
		case "reset":
			n = 1
		case "push":
			n++
			if n > h.Cap {
				return true
			}
		}
	}
	return false
}

func main() {
	a := c.ParseArgs()
	rep := c.NewReport("HL", a)
	var hs []History
	if a.Replay != "" {
		// either a bare history or a replay file written by ./check
		var w struct {
			History *History `json:"history"`
		}
		var h History
		c.ReadJSON(a.Replay, &w)
		if w.History != nil {
			h = *w.History
		} else {
			c.ReadJSON(a.Replay, &h)
		}
		for i := range h.Ops {
			h.Ops[i].Obs = nil
		}
		hs = []History{h}
	} else {
		hs = corpus()
		n, nops := 150, 70
		if a.Tier == "thorough" {
			n, nops = 3000, 120
		}
		base := len(hs)
		for i := 0; i < n; i++ {
			r := c.Rng(a.Seed, i)
			mode := 0
			switch x := i % 20; {
			case x >= 14 && x < 17:
				mode = 1
			case x >= 17 && x < 19:
				mode = 2
			case x == 19:
				mode = 3
			}
			hs = append(hs, genHistory(r, base+i, nops, mode))
		}
	}

	// run on the real code; a history that does not finish within the
	// deadline is an implementation failure (Ancestor looping)
	done := make([]bool, len(hs))
	var wg sync.WaitGroup
	sem := make(chan struct{}, a.Workers)
	var mu sync.Mutex
	for i := range hs {
		wg.Add(1)
		sem <- struct{}{}
		go func(i int) {
			defer wg.Done()
			defer func() { <-sem }()
			// the worker mutates a private copy, so that a hung worker
			// cannot race with the reporting below
			cp := hs[i]
			cp.Ops = append([]Op(nil), hs[i].Ops...)
			fin := make(chan History, 1)
			go func() { runHistory(&cp); fin <- cp }()
			select {
			case res := <-fin:
				mu.Lock()
				hs[i] = res
				done[i] = true
				mu.Unlock()
			case <-time.After(5 * time.Second):
			}
		}(i)
	}
	wg.Wait()

	const shard = 60
	sigs := c.Signatures{}
	nontrivial := c.Signatures{}
	var shards []strings.Builder
	count := 0
	for i := range hs {
		h := &hs[i]
		path := filepath.Join(a.Out, fmt.Sprintf("hist-%d.json", h.ID))
		c.WriteJSON(path, h)
		rep.Cases[fmt.Sprint(h.ID)] = path
		if !done[i] {
			rep.ImplFailures = append(rep.ImplFailures, c.ImplFailure{Case: fmt.Sprint(h.ID), Step: 0,
				What: "history did not finish within 5 s (PushBack/Ancestor does not return)", Tag: "hang"})
			continue
		}
		if count%shard == 0 {
			shards = append(shards, strings.Builder{})
		}
		sb := &shards[len(shards)-1]
		if count%shard > 0 {
			sb.WriteString(";\n")
		}
		count++
		t, sig := caseTerm(h)
		sb.WriteString(t)
		sigs.Add(sig)
		if wrapped(h) && strings.Contains(sig, "A") && strings.Contains(sig, "a") {
			nontrivial.Add(sig)
		}
		for _, ch := range sig {
			rep.Histogram["op:"+string(ch)]++
		}
		rep.Histogram[fmt.Sprintf("cap:%02d-%02d", (h.Cap/10)*10, (h.Cap/10)*10+9)]++
		rep.Histogram["stream:"+h.Note]++
		if len(rep.Samples) < 3 && i >= 2 {
			rep.Samples = append(rep.Samples, map[string]any{"id": h.ID, "cap": h.Cap, "note": h.Note, "signature": sig})
		}
	}

	// getAncestorHeight table
	var tbl []string
	addH := func(x int32) {
		tbl = append(tbl, c.Pair(c.Z(int64(x)), c.Z(int64(headerlist.VerifAncestorHeight(x)))))
	}
	for x := int32(-3); x <= 70; x++ {
		addH(x)
	}
	for k := uint(7); k < 31; k++ {
		for d := int32(-2); d <= 2; d++ {
			addH(int32(1<<k) + d)
		}
	}
	addH(math.MaxInt32)
	addH(math.MaxInt32 - 1)
	addH(math.MinInt32 + 1)
	tr := c.Rng(a.Seed, -1)
	for i := 0; i < 200; i++ {
		addH(int32(tr.Uint32() >> 1))
	}

	const hdr = "From Coq Require Import ZArith List.\nFrom Verif Require Import HL.Model HL.Spec HL.Replay.\nImport ListNotations.\nOpen Scope Z_scope.\n"
	const ftr = "Set Printing Width 1000000.\nSet Printing Depth 1000000.\nPrint R.\n"
	for i := range shards {
		var sb strings.Builder
		sb.WriteString(hdr)
		sb.WriteString("Definition cases : list (Z * case) := [\n")
		sb.WriteString(shards[i].String())
		sb.WriteString("].\n")
		if i == 0 {
			sb.WriteString("Definition anc_table : list (Z * Z) := " + c.List(tbl) + ".\n")
			sb.WriteString("Definition R := Eval vm_compute in (run_cases cases ++ map (fun i => (i, 3, 0, 0)) (anc_height_mismatches anc_table)).\n")
		} else {
			sb.WriteString("Definition R := Eval vm_compute in (run_cases cases).\n")
		}
		sb.WriteString(ftr)
		c.WriteFile(filepath.Join(a.Out, fmt.Sprintf("cases_%d.v", i)), sb.String())
	}

	rep.Evaluations = count
	rep.DistinctNontrivial = len(nontrivial)
	rep.Rule = "distinct op-kind signatures among histories in which the ring wrapped (more pushes after a reset than the capacity) and that contain an Ancestor lookup answered with a node and one answered nil"
	rep.Notes = fmt.Sprintf("%d histories, %d distinct signatures, getAncestorHeight table of %d heights", count, len(sigs), len(tbl))
	rep.Write(a.Out)
}
