(* C05 — the property in its own vocabulary, and the boolean monitor that the
   correspondence run evaluates on traces of the real GetCFilter. *)
From Coq Require Import ZArith List Bool.
From Verif Require Import C05.Model.
Import ListNotations.
Open Scope Z_scope.

Section Spec.
  Variable Hf : Z -> Z -> Z.
  Variable fh : Z -> Z.
  Variable best : Z.

  (* THE relation: filter f for block b hashes, together with the committed
     filter header of the previous block, to the committed filter header of b *)
  Definition verified (b f : Z) : bool := Hf f (fh (b - 1)) =? fh b.

  Definition all_verified (l : list (Z * Z)) : bool := forallb (fun p => verified (fst p) (snd p)) l.

  (* a well-formed cfilter answer to the request (it still may be for a block
     outside the range, a duplicate, or fail the header check) *)
  Definition wellformed (r : resp) : bool :=
    (r_req r =? 0) && r_is_cfilter r && r_type_ok r && r_decode_ok r.

  Definition is_err (r : result) : bool :=
    match r with RFilter _ => false | _ => true end.

  (* state invariant of the theorems *)
  Definition state_ok (st : gstate) : Prop :=
    (forall e, In e (cache st) -> verified (ekey e) (eval e) = true) /\
    (forall b f, In (b, f) (db st) -> verified b f = true) /\
    (forall b f, In (b, f) (dbq st) -> verified b f = true).

  (* -------- boolean monitor on implementation traces -------- *)
  Definition pair_eqb (a b : Z * Z) : bool := (fst a =? fst b) && (snd a =? snd b).
  Definition pmem (x : Z * Z) (l : list (Z * Z)) : bool := existsb (pair_eqb x) l.

  Definition served (c : call) : list (Z * Z) :=
    map (fun r => (r_blk r, r_filt r)) (filter wellformed (c_resps c)).

  (* the request range: 1 <= start <= stop <= best and at most the batch
     size, unless the range is empty; the target is inside whenever it has a
     filter header to check against (1 <= height <= best) *)
  Definition range_ok (c : call) (rg : Z * Z) : bool :=
    let '(start, stop) := rg in
    let h := c_blk c in
    ((stop <? start) ||
     ((1 <=? start) && (start <=? stop) && (stop <=? best) &&
      (stop - start + 1 <=? batch_size (c_maxbatch c)))) &&
    (if (1 <=? h) && (h <=? best) then (start <=? h) && (h <=? stop) else true) &&
    (if c_batch c =? 0 then (start =? (if h <? 1 then 1 else h)) && (stop =? (if best <? h then best else h))
     else true).

  (* the block has a committed filter header at all *)
  Definition has_header (c : call) : bool := c_known c && (0 <=? c_blk c) && (c_blk c <=? best).

  (* the local entry for the call's block (the first one, as both lookups
     find it) satisfies the relation *)
  Definition has_good (c : call) (l : list (Z * Z)) : bool :=
    match find (fun p => fst p =? c_blk c) l with
    | Some p => verified (c_blk c) (snd p)
    | None => false
    end.

  (* pc / pd: cache and database contents observed before the operation;
     sv: every (block, filter) served so far by a well-formed response *)
  (* WHATEVER is returned — network, cache or database — satisfies the
     relation for the committed headers (always: since the repair of F-C05-2
     local hits are checked like responses).
     strict concerns the CONTENTS of cache and database only.  strict = true:
     everything visible satisfies the relation (histories with fixed headers).
     strict = false: entries that were already there before the operation are
     exempt — a rewrite of the committed headers may have invalidated them;
     they stay (nothing removes them) but are never handed out; what is
     stored anew is never exempt. *)
  Definition step_ok (strict : bool) (pc pd sv : list (Z * Z)) (o : op) (ob : obs) : bool :=
    match o with
    | Call c =>
      let sv' := served c ++ sv in
      (match o_res ob with
       | RFilter f =>
         verified (c_blk c) f &&
         (if o_queried ob
          (* ... and, when fetched, was served for the target block by a
             well-formed response of this call whose batch succeeded *)
          then (match c_verdict c with VOk => true | _ => false end) && pmem (c_blk c, f) (served c)
          else has_header c && (pmem (c_blk c, f) pc || pmem (c_blk c, f) pd))
       | RNone => false
       | _ => true
       end) &&
      (* an unknown hash or filter type never reaches the network *)
      (if negb (c_known c) || negb (c_ftype_ok c) then negb (o_queried ob) else true) &&
      (* a cached or stored filter that satisfies the relation is returned
         without the network *)
      (if c_ftype_ok c && has_header c && (has_good c pc || has_good c pd)
       then negb (o_queried ob) && negb (is_err (o_res ob)) else true) &&
      (* height 0 and heights above the best filter header have nothing to be
         checked against: no filter is ever fetched for them *)
      (if o_queried ob && negb ((1 <=? c_blk c) && (c_blk c <=? best)) then is_err (o_res ob) else true) &&
      (if o_queried ob then range_ok c (o_range ob) else true) &&
      (* cache: gains only verified filters that this call's stream served *)
      forallb (fun p => (verified (fst p) (snd p) || (negb strict && pmem p pc)) &&
                        (pmem p pc || (o_queried ob && pmem p (served c)))) (o_cache ob)
    | Flush _ | PurgeDB =>
      forallb (fun p => (verified (fst p) (snd p) || negb strict) && (pmem p pd || pmem p sv)) (o_db ob) &&
      forallb (fun p => (verified (fst p) (snd p) || negb strict) && pmem p pc) (o_cache ob)
    | DropCache => match o_cache ob with [] => true | _ => false end
    end.

  Definition next_sv (sv : list (Z * Z)) (o : op) : list (Z * Z) :=
    match o with Call c => served c ++ sv | _ => sv end.
  Definition next_pd (pd : list (Z * Z)) (o : op) (ob : obs) : list (Z * Z) :=
    match o with Flush _ | PurgeDB => o_db ob | _ => pd end.

  Fixpoint first_bad (i : Z) (pc pd sv : list (Z * Z)) (tr : list (op * obs)) : option Z :=
    match tr with
    | [] => None
    | (o, ob) :: rest =>
      if step_ok true pc pd sv o ob
      then first_bad (i + 1) (o_cache ob) (next_pd pd o ob) (next_sv sv o) rest
      else Some i
    end.

  (* d0 = database contents at the start (the genesis filter) *)
  Definition holds (d0 : list (Z * Z)) (tr : list (op * obs)) : bool :=
    all_verified d0 &&
    match first_bad 0 [] d0 [] tr with None => true | Some _ => false end.
End Spec.

(* -------- monitor for histories with header rewrites -------- *)
(* The monitor follows the committed headers: after a rewrite it judges by
   the new ones.  A rewrite (and a GetBlock) changes neither cache nor
   database.  Entries stored before a rewrite may no longer satisfy the
   relation; they may stay, but no call may return them (step_ok). *)
Definition unchanged_ok (pc pd : list (Z * Z)) (ob : obs) : bool :=
  forallb (fun p => pmem p pc) (o_cache ob) && forallb (fun p => pmem p pd) (o_db ob).

(* the monitor's view of "the call opened a database read transaction":
   accepted filter type and no servable entry for the block in the cache *)
Definition window_seen (Hf : Z -> Z -> Z) (fh : Z -> Z) (best : Z) (pc : list (Z * Z)) (c : call) : bool :=
  c_ftype_ok c && negb (has_header best c && has_good Hf fh c pc).

Fixpoint xfirst_bad (Hf : Z -> Z -> Z) (fh : Z -> Z) (best : Z) (i : Z)
    (pc pd sv : list (Z * Z)) (tr : list (xop * obs)) : option Z :=
  match tr with
  | [] => None
  | (XBase o, ob) :: rest =>
    if step_ok Hf fh best false pc pd sv o ob
    then xfirst_bad Hf fh best (i + 1) (o_cache ob) (next_pd pd o ob) (next_sv sv o) rest
    else Some i
  | (XRewrite nb nf, ob) :: rest =>
    if unchanged_ok pc pd ob
    then xfirst_bad Hf nf nb (i + 1) (o_cache ob) (o_db ob) sv rest
    else Some i
  | (XGetBlock _, ob) :: rest =>
    (* GetBlock is no producer of filters: cache and database hold nothing
       they did not hold before *)
    if unchanged_ok pc pd ob
    then xfirst_bad Hf fh best (i + 1) (o_cache ob) (o_db ob) sv rest
    else Some i
  | (XCallW c w, ob) :: rest =>
    (* the call is judged exactly like an undisturbed call against the
       database contents pd of the moment its read transaction ran; what the
       overlapping writers stored is in the database afterwards *)
    if step_ok Hf fh best false pc pd sv (Call c) ob
    then xfirst_bad Hf fh best (i + 1) (o_cache ob)
           (if window_seen Hf fh best pc c then db_put_all pd w else pd) (next_sv sv (Call c)) rest
    else Some i
  end.
