(* C05 — lemmas. *)
From Coq Require Import ZArith List Bool Lia ZifyBool.
From Verif Require Import C05.Model C05.Spec.
Import ListNotations.
Open Scope Z_scope.

(* ------------------------------------------------------------------ *)
(* LRU *)
Lemma lru_remove_In c k e : In e (lru_remove c k) -> In e c.
Proof. unfold lru_remove. intros H. apply filter_In in H. tauto. Qed.

Lemma trim_rev_In cap n r e : In e (trim_rev cap n r) -> In e r.
Proof.
  induction r as [|a r IH]; cbn [trim_rev]; [tauto|].
  destruct (cap - lru_size (a :: r) <? n); [|tauto]. intros H. right. apply IH, H.
Qed.

Lemma lru_put_In cap c k v sz e :
  In e (lru_put cap c k v sz) -> e = (k, v, sz) \/ In e c.
Proof.
  unfold lru_put. destruct (cap <? sz); [tauto|].
  intros [H|H]; [left; symmetry; exact H|right].
  apply in_rev in H. apply trim_rev_In in H. apply in_rev in H. eapply lru_remove_In; eauto.
Qed.

Lemma lru_get_some c k v c' :
  lru_get c k = (Some v, c') ->
  exists e, In e c /\ ekey e = k /\ eval e = v /\ c' = e :: lru_remove c k.
Proof.
  unfold lru_get, lru_find. destruct (find _ c) as [e|] eqn:F; [|discriminate].
  intros [= <- <-]. apply find_some in F as [Hin Hk]. apply Z.eqb_eq in Hk. exists e. auto.
Qed.

Lemma lru_get_none c k c' :
  lru_get c k = (None, c') -> c' = c /\ forall e, In e c -> ekey e <> k.
Proof.
  unfold lru_get, lru_find. destruct (find _ c) as [e|] eqn:F; [discriminate|].
  intros [= <-]. split; [reflexivity|]. intros e He Hk.
  pose proof (find_none _ _ F e He) as H. cbv beta in H. apply Z.eqb_neq in H. contradiction.
Qed.

Lemma firstn_In' {A} n : forall (l : list A) x, In x (firstn n l) -> In x l.
Proof.
  induction n as [|n IH]; intros [|a l] x; cbn; try tauto.
  intros [H|H]; [left; exact H|right; apply IH, H].
Qed.
Lemma skipn_In' {A} n : forall (l : list A) x, In x (skipn n l) -> In x l.
Proof.
  induction n as [|n IH]; intros [|a l] x; cbn; try tauto.
  intros H. right. apply IH, H.
Qed.

(* database *)
Lemma db_get_In d k v : db_get d k = Some v -> In (k, v) d.
Proof.
  unfold db_get. destruct (find _ d) as [[a b]|] eqn:F; [|discriminate].
  intros [= <-]. apply find_some in F as [Hin Hk]. cbn in Hk. apply Z.eqb_eq in Hk. subst. exact Hin.
Qed.

Lemma db_put_In d kv x : In x (db_put d kv) -> x = kv \/ In x d.
Proof.
  unfold db_put. intros [H|H]; [left; symmetry; exact H|right]. apply filter_In in H. tauto.
Qed.

Lemma db_put_all_In l : forall d x, In x (db_put_all d l) -> In x d \/ In x l.
Proof.
  induction l as [|a l IH]; intros d x H; cbn in *; [left; exact H|].
  apply IH in H as [H|H]; [|right; right; exact H].
  apply db_put_In in H as [->|H]; [right; left; reflexivity|left; exact H].
Qed.

Lemma zmem_In x l : zmem x l = true <-> In x l.
Proof.
  unfold zmem. rewrite existsb_exists. split.
  - intros (y & Hy & E). apply Z.eqb_eq in E. subst. exact Hy.
  - intros H. exists x. split; [exact H|apply Z.eqb_refl].
Qed.

Lemma zremove_In x y l : In y (zremove x l) <-> In y l /\ y <> x.
Proof.
  unfold zremove. rewrite filter_In. rewrite negb_true_iff, Z.eqb_neq. tauto.
Qed.

(* ------------------------------------------------------------------ *)
(* prepareCFiltersQuery *)
Lemma batch_size_bounds maxb : 1 <= batch_size maxb <= max_req_range.
Proof. unfold batch_size, max_req_range. destruct ((0 <? maxb) && (maxb <? 1000)) eqn:E; lia. Qed.

Lemma zrange_In start n x : 0 <= n -> (In x (zrange start n) <-> start <= x < start + n).
Proof.
  intros Hn. unfold zrange. rewrite in_map_iff. split.
  - intros (i & <- & Hi). apply in_seq in Hi. lia.
  - intros H. exists (Z.to_nat (x - start)). split; [lia|]. apply in_seq. lia.
Qed.

Lemma zrange_nil start : zrange start 0 = [].
Proof. reflexivity. Qed.

Lemma clamp_lo st0 : (if st0 <? 1 then 1 else st0) = Z.max 1 st0.
Proof. destruct (Z.ltb_spec st0 1); lia. Qed.
Lemma clamp_hi best sp0 : (if best <? sp0 then best else sp0) = Z.min best sp0.
Proof. destruct (Z.ltb_spec best sp0); lia. Qed.

(* the range lemma *)
Lemma prepare_range height best batch maxb start stop pend :
  0 <= height < two32 -> 0 <= best < two32 ->
  prepare height best batch maxb = POk start stop pend ->
  1 <= start /\ stop <= best /\ start <= stop /\
  stop - start + 1 <= batch_size maxb /\
  pend = zrange start (stop - start + 1) /\
  (forall x, In x pend <-> start <= x <= stop) /\
  (1 <= height <= best -> start <= height <= stop) /\
  (height = 0 \/ best < height -> ~ In height pend) /\
  (batch = 0 -> (height = 0 \/ best < height) -> pend = []).
Proof.
  intros Hh Hb. unfold prepare. pose proof (batch_size_bounds maxb) as Hbs.
  unfold max_req_range in Hbs. set (bsz := batch_size maxb) in *.
  assert (Hcore : forall st0 sp0,
    height <= sp0 -> st0 <= height -> sp0 - st0 + 1 <= bsz ->
    (batch = 0 -> st0 = height /\ sp0 = height) ->
    (let s1 := if st0 <? 1 then 1 else st0 in
     let s2 := if best <? sp0 then best else sp0 in
     if s2 <? s1 then PErr else
     let nf := (s2 - s1 + 1) mod two32 in
     (if (0 <=? s2) && (nf <=? s2) then POk s1 s2 (zrange s1 nf) else PErr))
       = POk start stop pend ->
    1 <= start /\ stop <= best /\ start <= stop /\ stop - start + 1 <= bsz /\
    pend = zrange start (stop - start + 1) /\
    (forall x, In x pend <-> start <= x <= stop) /\
    (1 <= height <= best -> start <= height <= stop) /\
    (height = 0 \/ best < height -> ~ In height pend) /\
    (batch = 0 -> (height = 0 \/ best < height) -> pend = [])).
  { intros st0 sp0 H1 H2 H3 H0. cbv zeta. rewrite !clamp_lo, !clamp_hi.
    set (start' := Z.max 1 st0).
    set (stop' := Z.min best sp0).
    assert (Hs1 : 1 <= start' /\ start' <= Z.max 1 height /\ st0 <= start') by (unfold start'; lia).
    assert (Hs2 : stop' <= best /\ stop' <= sp0 /\ 0 <= stop') by (unfold stop'; lia).
    destruct (stop' <? start') eqn:Elt; [discriminate|]. cbv zeta.
    destruct ((0 <=? stop') && ((stop' - start' + 1) mod two32 <=? stop')) eqn:E; [|discriminate].
    intros [= <- <- <-].
    assert (Hnf : 0 <= stop' - start' + 1).
    { destruct (Z_lt_ge_dec (stop' - start' + 1) 0) as [Hneg|]; [|lia]. exfalso.
      assert ((stop' - start' + 1) mod two32 = stop' - start' + 1 + two32) as Hm.
      { symmetry. apply Z.mod_unique with (q := -1); unfold two32 in *; lia. }
      unfold two32 in *. lia. }
    assert (Hm : (stop' - start' + 1) mod two32 = stop' - start' + 1).
    { apply Z.mod_small. unfold two32 in *. lia. }
    rewrite Hm.
    assert (Hin : forall x, In x (zrange start' (stop' - start' + 1)) <-> start' <= x <= stop').
    { intros x. rewrite zrange_In by lia. lia. }
    split; [lia|]. split; [lia|]. split; [lia|]. split; [lia|]. split; [reflexivity|].
    split; [exact Hin|]. split; [unfold start', stop'; lia|]. split.
    - intros Hout Hx. apply Hin in Hx. unfold start', stop' in *. lia.
    - intros Hb0 Hout. destruct (H0 Hb0) as [-> ->].
      assert (stop' - start' + 1 = 0) as -> by (unfold start', stop'; lia). reflexivity. }
  destruct (batch =? 0) eqn:E0; [apply Hcore; lia|].
  destruct (batch =? 1) eqn:E1; [apply Hcore; lia|].
  destruct (batch =? 2) eqn:E2; [apply Hcore; lia|].
  discriminate.
Qed.

(* for a height that has a committed filter header the query is prepared *)
Lemma prepare_succeeds height best batch maxb :
  1 <= height <= best -> best < two32 -> 0 <= batch <= 2 ->
  exists start stop pend, prepare height best batch maxb = POk start stop pend.
Proof.
  intros Hh Hb Hbt. unfold prepare. pose proof (batch_size_bounds maxb) as Hbs.
  unfold max_req_range in Hbs. set (bsz := batch_size maxb) in *.
  assert (Hcore : forall st0 sp0, height <= sp0 -> st0 <= height ->
    exists start stop pend,
    (let start := if st0 <? 1 then 1 else st0 in
     let stop := if best <? sp0 then best else sp0 in
     if stop <? start then PErr else
     let nf := (stop - start + 1) mod two32 in
     (if (0 <=? stop) && (nf <=? stop) then POk start stop (zrange start nf) else PErr))
       = POk start stop pend).
  { intros st0 sp0 H1 H2. cbv zeta. rewrite !clamp_lo, !clamp_hi.
    set (start' := Z.max 1 st0).
    set (stop' := Z.min best sp0).
    assert (1 <= start' <= height) by (unfold start'; lia).
    assert (height <= stop' <= best) by (unfold stop'; lia).
    assert ((stop' <? start') = false) as -> by lia. cbv zeta.
    assert (Hm : (stop' - start' + 1) mod two32 = stop' - start' + 1).
    { apply Z.mod_small. unfold two32 in *. lia. }
    rewrite Hm.
    assert ((0 <=? stop') && (stop' - start' + 1 <=? stop') = true) as -> by lia.
    eauto. }
  destruct (batch =? 0) eqn:E0; [apply Hcore; lia|].
  destruct (batch =? 1) eqn:E1; [apply Hcore; lia|].
  destruct (batch =? 2) eqn:E2; [apply Hcore; lia|]. lia.
Qed.

(* without batching, a height without a committed filter header to verify
   against (0, or above the best filter header) is refused outright *)
(* whatever the arguments (no bound on height or best needed): a prepared
   range lies inside [1, best] *)
Lemma prepare_pend_bounds height best batch maxb start stop pend x :
  prepare height best batch maxb = POk start stop pend -> In x pend -> 1 <= x <= best.
Proof.
  unfold prepare.
  destruct (if batch =? 0 then Some (height, height)
            else if batch =? 1 then Some (height, height + batch_size maxb - 1)
            else if batch =? 2 then Some (height - batch_size maxb + 1, height) else None)
    as [[st0 sp0]|]; [|discriminate].
  cbv zeta.
  set (st := if st0 <? 1 then 1 else st0). set (sp := if best <? sp0 then best else sp0).
  destruct (sp <? st) eqn:E; [discriminate|].
  destruct ((0 <=? sp) && ((sp - st + 1) mod two32 <=? sp)); [|discriminate].
  intros [= <- <- <-] Hin.
  assert (Hn : 0 <= (sp - st + 1) mod two32 <= sp - st + 1).
  { split; [apply Z.mod_pos_bound; unfold two32; lia|apply Z.mod_le; unfold two32; lia]. }
  apply zrange_In in Hin; [|lia].
  assert (1 <= st) by (unfold st; destruct (st0 <? 1) eqn:E1; lia).
  assert (sp <= best) by (unfold sp; destruct (best <? sp0) eqn:E2; lia).
  lia.
Qed.

Lemma prepare_nobatch_refused height best maxb :
  height = 0 \/ best < height -> prepare height best 0 maxb = PErr.
Proof.
  intros H. unfold prepare. cbn [Z.eqb]. cbv zeta. rewrite clamp_lo, clamp_hi.
  assert ((Z.min best height <? Z.max 1 height) = true) as -> by lia. reflexivity.
Qed.

(* ------------------------------------------------------------------ *)
(* ------------------------------------------------------------------ *)
(* the database as a finite map: puts to OTHER keys do not change a lookup *)
Lemma db_get_put_other d kv k : fst kv <> k -> db_get (db_put d kv) k = db_get d k.
Proof.
  intros Hne. unfold db_get, db_put. cbn [find].
  destruct (fst kv =? k) eqn:E; [apply Z.eqb_eq in E; contradiction|].
  induction d as [|p d IH]; [reflexivity|]. cbn [filter find].
  destruct (fst p =? fst kv) eqn:E1; cbn [negb].
  - apply Z.eqb_eq in E1. destruct (fst p =? k) eqn:E2; [|exact IH].
    apply Z.eqb_eq in E2. congruence.
  - cbn [find]. destruct (fst p =? k); [reflexivity|exact IH].
Qed.

Lemma db_get_put_all_other w : forall d k,
  ~ In k (map fst w) -> db_get (db_put_all d w) k = db_get d k.
Proof.
  induction w as [|kv w IH]; intros d k Hn; [reflexivity|].
  cbn [db_put_all fold_left]. change (fold_left db_put w (db_put d kv)) with (db_put_all (db_put d kv) w).
  rewrite IH; [|intros H; apply Hn; right; exact H].
  apply db_get_put_other. intros E. apply Hn. left. exact E.
Qed.


(* (k, f) is the LAST entry for key k in a list of puts *)
Definition last_for (k f : Z) (l : list (Z * Z)) : Prop :=
  exists q1 q2, l = q1 ++ (k, f) :: q2 /\ forall p, In p q2 -> fst p <> k.

Lemma db_get_put_same d k f : db_get (db_put d (k, f)) k = Some f.
Proof. unfold db_get, db_put. cbn [find fst]. rewrite Z.eqb_refl. reflexivity. Qed.

Lemma db_put_all_app d l1 l2 : db_put_all d (l1 ++ l2) = db_put_all (db_put_all d l1) l2.
Proof. unfold db_put_all. apply fold_left_app. Qed.

(* persisting a queue leaves, for a key, the filter queued last for it *)
Lemma flush_last_for d l k f : last_for k f l -> db_get (db_put_all d l) k = Some f.
Proof.
  intros (q1 & q2 & -> & Hn). rewrite db_put_all_app.
  change (db_put_all (db_put_all d q1) ((k, f) :: q2)) with (db_put_all (db_put (db_put_all d q1) (k, f)) q2).
  rewrite db_get_put_all_other; [apply db_get_put_same|].
  intros H. apply in_map_iff in H as (p0 & E & Hin). exact (Hn p0 Hin E).
Qed.

Section Oracles.
  Variable Hf : Z -> Z -> Z.
  Variable fh : Z -> Z.
  Variable fsize : Z -> Z.
  Variable best : Z.
  Variable cap : Z.
  Variable persist : bool.

  Notation handle := (handle Hf fh fsize cap persist).
  Notation feed := (feed Hf fh fsize cap persist).
  Notation get_cfilter := (get_cfilter Hf fh fsize best cap persist).
  Notation step := (step Hf fh fsize best cap persist).
  Notation run := (run Hf fh fsize best cap persist).
  Notation final := (final Hf fh fsize best cap persist).
  Notation verified := (verified Hf fh).
  Notation state_ok := (state_ok Hf fh).

  (* a response is accepted in state s iff it is well-formed, its block is
     still awaited and the committed-header relation holds *)
  Definition accepted (s : qstate) (r : resp) : bool :=
    wellformed r && zmem (r_blk r) (pending s) && verified (r_blk r) (r_filt r).

  Definition accept_state (target : Z) (s : qstate) (r : resp) : qstate :=
    {| pending := zremove (r_blk r) (pending s);
       tfilter := if r_blk r =? target then Some (r_filt r) else tfilter s;
       qcache := lru_put cap (qcache s) (r_blk r) (r_filt r) (fsize (r_filt r));
       qdbq := if persist then qdbq s ++ [(r_blk r, r_filt r)] else qdbq s |}.

  Lemma handle_cases target s r :
    (accepted s r = false /\ handle target s r = (s, NoProgress)) \/
    (accepted s r = true /\
     handle target s r =
       (accept_state target s r,
        match pending (accept_state target s r) with [] => Finished | _ => Progressed end)).
  Proof.
    unfold Model.handle, accepted, wellformed, Spec.verified, accept_state.
    destruct (r_req r =? 0), (r_is_cfilter r), (r_type_ok r), (zmem (r_blk r) (pending s)),
      (r_decode_ok r), (Hf (r_filt r) (fh (r_blk r - 1)) =? fh (r_blk r)); cbn;
      first [left; split; reflexivity | right; split; reflexivity].
  Qed.

  (* Finished iff the pending set became empty; Progressed iff accepted with
     blocks still awaited; NoProgress iff the state did not change *)
  Lemma handle_progress target s r :
    let '(s', p) := handle target s r in
    (p = Finished <-> accepted s r = true /\ pending s' = []) /\
    (p = Progressed <-> accepted s r = true /\ pending s' <> []) /\
    (p = NoProgress <-> accepted s r = false) /\
    (p = NoProgress -> s' = s).
  Proof.
    destruct (handle_cases target s r) as [[Ha E]|[Ha E]]; rewrite E.
    - repeat split; try discriminate; try (intros [H _]; congruence); auto.
    - destruct (pending (accept_state target s r)) eqn:Ep; repeat split;
        try discriminate; try congruence; try (intros _; split; congruence); intros [_ H]; congruence.
  Qed.

  Definition qinv (target : Z) (s : qstate) : Prop :=
    (forall e, In e (qcache s) -> verified (ekey e) (eval e) = true) /\
    (forall b f, In (b, f) (qdbq s) -> verified b f = true) /\
    (forall f, tfilter s = Some f -> verified target f = true).

  Lemma accepted_verified s r : accepted s r = true -> verified (r_blk r) (r_filt r) = true.
  Proof. unfold accepted. intros H. apply andb_true_iff in H. tauto. Qed.

  Lemma handle_inv target s r : qinv target s -> qinv target (fst (handle target s r)).
  Proof.
    intros (Hc & Hd & Ht).
    destruct (handle_cases target s r) as [[Ha E]|[Ha E]]; rewrite E; cbn [fst];
      [repeat split; assumption|].
    pose proof (accepted_verified s r Ha) as Hv.
    unfold accept_state. repeat split; cbn [qcache qdbq tfilter].
    - intros e He. apply lru_put_In in He as [->|He]; [exact Hv|apply Hc, He].
    - intros b f Hin. destruct persist; [|apply Hd, Hin].
      apply in_app_iff in Hin as [Hin|[[= <- <-]|[]]]; [apply Hd, Hin|exact Hv].
    - intros f. destruct (r_blk r =? target) eqn:Et.
      + intros [= <-]. apply Z.eqb_eq in Et. rewrite <- Et. exact Hv.
      + apply Ht.
  Qed.

  Lemma feed_cons target s r rs :
    feed target s (r :: rs) =
    (fst (feed target (fst (handle target s r)) rs),
     snd (handle target s r) :: snd (feed target (fst (handle target s r)) rs)).
  Proof.
    cbn [Model.feed]. destruct (handle target s r) as [s1 p]. cbn [fst snd].
    destruct (feed target s1 rs). reflexivity.
  Qed.

  Lemma feed_inv target rs : forall s, qinv target s -> qinv target (fst (feed target s rs)).
  Proof.
    induction rs as [|r rs IH]; intros s H; [exact H|].
    rewrite feed_cons. cbn [fst]. apply IH, handle_inv, H.
  Qed.

  (* the pending set only shrinks *)
  Lemma handle_pending target s r b :
    In b (pending (fst (handle target s r))) -> In b (pending s).
  Proof.
    destruct (handle_cases target s r) as [[_ E]|[_ E]]; rewrite E; cbn [fst]; [tauto|].
    unfold accept_state. cbn [pending]. intros H. apply zremove_In in H. tauto.
  Qed.

  Lemma feed_pending target rs : forall s b,
    In b (pending (fst (feed target s rs))) -> In b (pending s).
  Proof.
    induction rs as [|r rs IH]; intros s b H; [exact H|].
    rewrite feed_cons in H. cbn [fst] in H. eapply handle_pending, IH, H.
  Qed.

  (* at most one state change per block: once a response for a block was
     accepted, every later response for that block — identical or not, after
     any further responses — is ignored *)
  Lemma once_per_block target s r :
    accepted s r = true ->
    forall rs r', r_blk r' = r_blk r ->
    let s'' := fst (feed target (fst (handle target s r)) rs) in
    handle target s'' r' = (s'', NoProgress).
  Proof.
    intros Ha rs r' Hb s''.
    destruct (handle_cases target s'' r') as [[_ E]|[Ha' _]]; [exact E|exfalso].
    unfold accepted in Ha'. rewrite !andb_true_iff in Ha'. destruct Ha' as [[_ Hm] _].
    apply zmem_In in Hm. unfold s'' in Hm. apply feed_pending in Hm.
    destruct (handle_cases target s r) as [[Hn _]|[_ E]]; [congruence|]. rewrite E in Hm.
    cbn [fst accept_state pending] in Hm. apply zremove_In in Hm. rewrite Hb in Hm. tauto.
  Qed.

  (* where the target filter comes from *)
  Lemma feed_target target rs : forall s f,
    tfilter (fst (feed target s rs)) = Some f ->
    tfilter s = Some f \/
    (In target (pending s) /\
     exists r, In r rs /\ wellformed r = true /\ r_blk r = target /\ r_filt r = f /\
               verified target f = true).
  Proof.
    induction rs as [|r rs IH]; intros s f H; [left; exact H|].
    rewrite feed_cons in H. cbn [fst] in H. apply IH in H as [H|(Hp & r' & Hin & Hw & Hb & Hf' & Hv)].
    - destruct (handle_cases target s r) as [[_ E]|[Ha E]]; rewrite E in H; cbn [fst] in H;
        [left; exact H|].
      unfold accept_state in H. cbn [tfilter] in H.
      destruct (r_blk r =? target) eqn:Et; [|left; exact H].
      injection H as <-. apply Z.eqb_eq in Et. right.
      unfold accepted in Ha. rewrite !andb_true_iff in Ha. destruct Ha as [[Hw Hm] Hv].
      apply zmem_In in Hm. rewrite Et in *. split; [exact Hm|].
      exists r. repeat split; auto. left; reflexivity.
    - right. split; [eapply handle_pending, Hp|].
      exists r'. repeat split; auto. right; exact Hin.
  Qed.

  (* with an empty pending set nothing changes *)
  Lemma feed_nil_pending target rs : forall s, pending s = [] -> fst (feed target s rs) = s.
  Proof.
    induction rs as [|r rs IH]; intros s Hp; [reflexivity|].
    rewrite feed_cons. cbn [fst].
    destruct (handle_cases target s r) as [[_ E]|[Ha _]].
    - rewrite E. cbn [fst]. apply IH, Hp.
    - unfold accepted in Ha. rewrite Hp in Ha. cbn in Ha. rewrite andb_false_r in Ha. discriminate.
  Qed.

  (* ---------------------------------------------------------------- *)
  (* one call *)

  Notation good := (good Hf fh best).
  Notation local_ok := (local_ok Hf fh best).
  Notation has_header := (has_header best).
  Notation has_good := (has_good Hf fh).

  Lemma local_ok_split c f : local_ok c f = has_header c && verified (c_blk c) f.
  Proof. reflexivity. Qed.

  Lemma local_ok_verified c f : local_ok c f = true -> verified (c_blk c) f = true.
  Proof. rewrite local_ok_split. intros H. apply andb_true_iff in H. tauto. Qed.

  Lemma good_some c o f : good c o = Some f -> o = Some f /\ local_ok c f = true.
  Proof.
    unfold Model.good. destruct o as [x|]; [|discriminate].
    destruct (local_ok c x) eqn:E; [|discriminate]. intros [= <-]. auto.
  Qed.

  Lemma good_none c f : good c (Some f) = None -> local_ok c f = false.
  Proof. unfold Model.good. destruct (local_ok c f); [discriminate|reflexivity]. Qed.

  Lemma lru_get_fst c k : fst (lru_get c k) = option_map eval (lru_find c k).
  Proof. unfold lru_get. destruct (lru_find c k); reflexivity. Qed.

  Lemma lru_get_snd_In c k e : In e (snd (lru_get c k)) -> In e c.
  Proof.
    unfold lru_get. destruct (lru_find c k) as [e0|] eqn:F; cbn [snd]; [|tauto].
    intros [<-|H]; [|eapply lru_remove_In; eauto].
    unfold lru_find in F. apply find_some in F. tauto.
  Qed.

  Lemma lru_get_miss c k : (forall e, In e c -> ekey e <> k) -> lru_get c k = (None, c).
  Proof.
    intros Hm. unfold lru_get. destruct (lru_find c k) as [e|] eqn:F; [|reflexivity].
    exfalso. unfold lru_find in F. apply find_some in F as [Hin Hk]. apply Z.eqb_eq in Hk. exact (Hm e Hin Hk).
  Qed.

  Lemma lru_get_hit c k f : fst (lru_get c k) = Some f -> exists e, In e c /\ ekey e = k /\ eval e = f.
  Proof.
    destruct (lru_get c k) as [o c'] eqn:E. cbn [fst]. intros ->.
    apply lru_get_some in E as (e & Hin & Hk & Hv & _). eauto.
  Qed.

  (* the state a call works on after its cache lookup *)
  Definition touched (st : gstate) (c : call) : gstate :=
    {| cache := snd (lru_get (cache st) (c_blk c)); db := db st; dbq := dbq st |}.

  Lemma touched_ok st c : state_ok st -> state_ok (touched st c).
  Proof.
    intros (Hc & Hd & Hq). repeat split; cbn [touched cache db dbq]; auto.
    intros e He. apply Hc. eapply lru_get_snd_In, He.
  Qed.

  Lemma touched_miss st c : (forall e, In e (cache st) -> ekey e <> c_blk c) -> touched st c = st.
  Proof. intros Hm. unfold touched. rewrite (lru_get_miss _ _ Hm). destruct st; reflexivity. Qed.

  Ltac gc c st :=
    unfold Model.get_cfilter; cbv zeta; fold (touched st c);
    destruct (c_ftype_ok c) eqn:Hft; cbn [negb];
    [ destruct (good c (fst (lru_get (cache st) (c_blk c)))) as [hv|] eqn:Hgc;
      [ | destruct (good c (db_get (db st) (c_blk c))) as [dv|] eqn:Hgd;
          [ | destruct (c_known c) eqn:Hknown; cbn [negb];
              [ destruct (prepare (c_blk c) best (c_batch c) (c_maxbatch c)) as [|start stop pend] eqn:Hprep;
                [ | destruct (feed (c_blk c) {| pending := pend; tfilter := None;
                                                 qcache := cache (touched st c); qdbq := dbq st |} (c_resps c))
                      as [q pg] eqn:Hfeed ]
              | ] ] ]
    | ]; cbn [fst snd mk_obs o_res o_queried o_range o_prog o_cache o_db cache db dbq].

  Lemma q0_inv target st pend : state_ok st ->
    qinv target {| pending := pend; tfilter := None; qcache := cache st; qdbq := dbq st |}.
  Proof. intros (Hc & _ & Hq). repeat split; cbn; auto. discriminate. Qed.

  Lemma get_cfilter_inv st c : state_ok st -> state_ok (fst (get_cfilter st c)).
  Proof.
    intros Hok. pose proof (touched_ok st c Hok) as Hok1. gc c st; try assumption.
    pose proof (feed_inv (c_blk c) (c_resps c) _ (q0_inv (c_blk c) (touched st c) pend Hok1)) as Hi.
    cbn [touched dbq] in Hi. fold (touched st c) in Hi.
    rewrite Hfeed in Hi. cbn [fst] in Hi. destruct Hi as (Hc' & Hq' & _).
    destruct Hok as (_ & Hd & _). repeat split; cbn [cache db dbq]; auto.
  Qed.

  (* a fetched filter was served, for the target block, by a well-formed
     response of this very call, the batch succeeded, and the target lies in
     the prepared range *)
  Lemma get_cfilter_from_network st c f :
    o_res (snd (get_cfilter st c)) = RFilter f ->
    o_queried (snd (get_cfilter st c)) = true ->
    c_verdict c = VOk /\
    (exists start stop pend, prepare (c_blk c) best (c_batch c) (c_maxbatch c) = POk start stop pend /\
                             In (c_blk c) pend) /\
    exists r, In r (c_resps c) /\ wellformed r = true /\ r_blk r = c_blk c /\ r_filt r = f /\
              verified (c_blk c) f = true.
  Proof.
    gc c st; try discriminate.
    destruct (c_verdict c) eqn:Hv; try discriminate.
    destruct (tfilter q) eqn:Etf; [|discriminate]. intros [= <-] _.
    pose proof (feed_target (c_blk c) (c_resps c)
                  {| pending := pend; tfilter := None; qcache := cache (touched st c); qdbq := dbq st |} z) as Ht.
    rewrite Hfeed in Ht. cbn [fst tfilter pending] in Ht.
    destruct (Ht Etf) as [H|(Hp & r & Hin & Hw & Hb & Hf' & Hver)]; [discriminate|].
    split; [reflexivity|]. split; [exists start, stop, pend; auto|]. exists r. auto.
  Qed.

  (* a filter served locally is an entry of the cache or of the database that
     passes the check of matchesCommittedHeader *)
  Lemma get_cfilter_from_local st c f :
    o_res (snd (get_cfilter st c)) = RFilter f ->
    o_queried (snd (get_cfilter st c)) = false ->
    local_ok c f = true /\
    ((exists e, In e (cache st) /\ ekey e = c_blk c /\ eval e = f) \/ db_get (db st) (c_blk c) = Some f).
  Proof.
    gc c st; try discriminate.
    - intros [= <-] _. apply good_some in Hgc as [Hg Hl]. split; [exact Hl|left]. apply lru_get_hit, Hg.
    - intros [= <-] _. apply good_some in Hgd as [Hg Hl]. split; [exact Hl|right; exact Hg].
  Qed.

  (* THE repair: whatever a call returns — from the network, the cache or the
     database, in ANY state — satisfies the relation *)
  Lemma get_cfilter_verified st c f :
    o_res (snd (get_cfilter st c)) = RFilter f -> verified (c_blk c) f = true.
  Proof.
    intros Hres. destruct (o_queried (snd (get_cfilter st c))) eqn:Hq.
    - destruct (get_cfilter_from_network st c f Hres Hq) as (_ & _ & r & _ & _ & _ & _ & Hv). exact Hv.
    - destruct (get_cfilter_from_local st c f Hres Hq) as [Hl _]. apply local_ok_verified, Hl.
  Qed.

  (* the boundary: a filter is returned only for a known block at a height
     0 <= h <= best (the committed filter-header tip) — from any source, in
     any state, for any arguments *)
  Lemma get_cfilter_has_header st c f :
    o_res (snd (get_cfilter st c)) = RFilter f ->
    c_known c = true /\ 0 <= c_blk c <= best.
  Proof.
    intros Hres. destruct (o_queried (snd (get_cfilter st c))) eqn:Hq.
    - destruct (get_cfilter_from_network st c f Hres Hq) as (_ & (s0 & e0 & p0 & Hp & Hin) & _).
      pose proof (prepare_pend_bounds _ _ _ _ _ _ _ _ Hp Hin) as Hb. clear Hp Hin Hres.
      split; [|lia]. revert Hq. gc c st; try discriminate. reflexivity.
    - destruct (get_cfilter_from_local st c f Hres Hq) as [Hl _].
      unfold Model.local_ok in Hl. rewrite !andb_true_iff in Hl. split; [tauto|lia].
  Qed.

  (* if no well-formed response for the target block satisfies the relation
     (or the batch fails, or the block is unknown), a call that finds no
     local entry passing the check returns an error *)
  Lemma get_cfilter_error st c :
    (forall e, lru_find (cache st) (c_blk c) = Some e -> local_ok c (eval e) = false) ->
    (forall f, db_get (db st) (c_blk c) = Some f -> local_ok c f = false) ->
    (forall r, In r (c_resps c) -> wellformed r = true -> r_blk r = c_blk c ->
               verified (c_blk c) (r_filt r) = false)
      \/ c_verdict c <> VOk \/ c_known c = false \/ c_ftype_ok c = false ->
    is_err (o_res (snd (get_cfilter st c))) = true.
  Proof.
    intros Hmiss Hdbm H.
    destruct (o_res (snd (get_cfilter st c))) as [f| | | | |] eqn:Hres; try reflexivity. exfalso.
    destruct (o_queried (snd (get_cfilter st c))) eqn:Hq.
    - destruct (get_cfilter_from_network st c f Hres Hq) as (Hv & _ & r & Hin & Hw & Hb & Hf' & Hver).
      destruct H as [H|[H|[H|H]]]; try congruence.
      + specialize (H r Hin Hw Hb). congruence.
      + revert Hq. gc c st; discriminate.
      + revert Hq. gc c st; discriminate.
    - revert Hres Hq. gc c st; try discriminate; intros [= <-] _.
      + apply good_some in Hgc as [Hg Hl]. rewrite lru_get_fst in Hg.
        destruct (lru_find (cache st) (c_blk c)) as [e|] eqn:F; [|discriminate].
        cbn in Hg. injection Hg as <-. rewrite (Hmiss e eq_refl) in Hl. discriminate.
      + apply good_some in Hgd as [Hg Hl]. rewrite (Hdbm _ Hg) in Hl. discriminate.
  Qed.

  (* height 0 and heights above the best filter header: never a filter from
     the network; without batching, nothing but the recency of the looked-up
     cache entry is touched *)
  Lemma get_cfilter_out_of_range st c :
    0 <= c_blk c < two32 -> 0 <= best < two32 ->
    c_blk c = 0 \/ best < c_blk c ->
    o_queried (snd (get_cfilter st c)) = true ->
    is_err (o_res (snd (get_cfilter st c))) = true /\
    (c_batch c = 0 -> fst (get_cfilter st c) = touched st c).
  Proof.
    intros Hh Hb Hout Hq. split.
    - destruct (o_res (snd (get_cfilter st c))) as [f| | | | |] eqn:Hres; try reflexivity. exfalso.
      destruct (get_cfilter_from_network st c f Hres Hq) as (_ & (start & stop & pend & Hp & Hin) & _).
      destruct (prepare_range _ _ _ _ _ _ _ Hh Hb Hp) as (_ & _ & _ & _ & _ & _ & _ & Hn & _).
      exact (Hn Hout Hin).
    - intros Hb0. revert Hq. gc c st; try discriminate. intros _.
      destruct (prepare_range _ _ _ _ _ _ _ Hh Hb Hprep) as (_ & _ & _ & _ & _ & _ & _ & _ & He).
      specialize (He Hb0 Hout). subst pend.
      pose proof (feed_nil_pending (c_blk c) (c_resps c)
                    {| pending := []; tfilter := None; qcache := cache (touched st c); qdbq := dbq st |} eq_refl) as Hf'.
      rewrite Hfeed in Hf'. cbn [fst] in Hf'. subst q. reflexivity.
  Qed.

  Lemma get_cfilter_nobatch_refused st c :
    c_blk c = 0 \/ best < c_blk c -> c_batch c = 0 ->
    (forall e, In e (cache st) -> ekey e <> c_blk c) -> db_get (db st) (c_blk c) = None ->
    get_cfilter st c = (st, mk_obs st RErrOther false (0, 0) []).
  Proof.
    intros Hout Hb0 Hmiss Hdbm.
    pose proof (prepare_nobatch_refused (c_blk c) best (c_maxbatch c) Hout) as Hp.
    unfold Model.get_cfilter. cbv zeta. fold (touched st c). rewrite (touched_miss st c Hmiss).
    destruct (c_ftype_ok c); cbn [negb]; [|reflexivity].
    rewrite (lru_get_miss _ _ Hmiss), Hdbm. cbn [fst Model.good].
    destruct (c_known c); cbn [negb]; [|reflexivity].
    rewrite Hb0, Hp. reflexivity.
  Qed.

  (* the request that goes out is for the prepared range *)
  Lemma get_cfilter_range st c :
    o_queried (snd (get_cfilter st c)) = true ->
    exists pend, prepare (c_blk c) best (c_batch c) (c_maxbatch c) =
                 POk (fst (o_range (snd (get_cfilter st c)))) (snd (o_range (snd (get_cfilter st c)))) pend.
  Proof. gc c st; try discriminate. intros _. exists pend. reflexivity. Qed.

  (* a cached or stored filter that passes the check is returned without the
     network (the cache first) *)
  Lemma get_cfilter_local st c :
    c_ftype_ok c = true ->
    (exists f, good c (fst (lru_get (cache st) (c_blk c))) = Some f) \/
    (exists f, good c (db_get (db st) (c_blk c)) = Some f) ->
    o_queried (snd (get_cfilter st c)) = false /\
    is_err (o_res (snd (get_cfilter st c))) = false /\
    db (fst (get_cfilter st c)) = db st /\ dbq (fst (get_cfilter st c)) = dbq st.
  Proof.
    intros Hft H. unfold Model.get_cfilter. cbv zeta. rewrite Hft. cbn [negb].
    destruct (good c (fst (lru_get (cache st) (c_blk c)))) as [hv|] eqn:Hgc; [cbn; auto|].
    destruct H as [(f & Hf')|(f & Hf')]; [discriminate|].
    rewrite Hf'. cbn. auto.
  Qed.

  (* every history of operations *)

  Lemma step_inv st o : state_ok st -> state_ok (fst (step st o)).
  Proof.
    intros Hok. destruct o as [c|n| |]; cbn [Model.step].
    - apply get_cfilter_inv, Hok.
    - destruct Hok as (Hc & Hd & Hq). repeat split; cbn [fst cache db dbq]; auto.
      + intros b f H. apply db_put_all_In in H as [H|H]; [apply Hd, H|].
        apply Hq. eapply firstn_In', H.
      + intros b f H. apply Hq. eapply skipn_In', H.
    - destruct Hok as (Hc & Hd & Hq). split; [intros e []|split; assumption].
    - destruct Hok as (Hc & Hd & Hq). split; [exact Hc|split; [intros b f []|exact Hq]].
  Qed.

  Lemma run_cons st o ops : run st (o :: ops) = snd (step st o) :: run (fst (step st o)) ops.
  Proof. cbn [Model.run]. destruct (step st o). reflexivity. Qed.

  Lemma final_cons st o ops : final st (o :: ops) = final (fst (step st o)) ops.
  Proof. reflexivity. Qed.

  Lemma final_inv ops : forall st, state_ok st -> state_ok (final st ops).
  Proof.
    induction ops as [|o ops IH]; intros st H; [exact H|]. rewrite final_cons. apply IH, step_inv, H.
  Qed.

  Lemma step_obs st o :
    o_cache (snd (step st o)) = cache_view (cache (fst (step st o))) /\
    o_db (snd (step st o)) = db (fst (step st o)).
  Proof.
    destruct o as [c|n| |]; cbn [Model.step]; try (split; reflexivity).
    gc c st; split; reflexivity.
  Qed.

  (* THE theorem: in every history, every returned filter and everything
     visible in cache and database satisfies the committed-header relation *)
  Lemma every_history ops : forall st, state_ok st ->
    forall o ob, In (o, ob) (combine ops (run st ops)) ->
    (forall c f, o = Call c -> o_res ob = RFilter f -> verified (c_blk c) f = true) /\
    (forall b f, In (b, f) (o_cache ob) -> verified b f = true) /\
    (forall b f, In (b, f) (o_db ob) -> verified b f = true).
  Proof.
    induction ops as [|o0 ops IH]; intros st Hok o ob Hin; [destruct Hin|].
    rewrite run_cons in Hin. cbn [combine] in Hin. destruct Hin as [[= <- <-]|Hin].
    - pose proof (step_inv st o0 Hok) as (Hc & Hd & _).
      destruct (step_obs st o0) as [Eo Ed]. repeat split.
      + intros c f -> Hres. cbn [Model.step] in Hres. eapply get_cfilter_verified; eauto.
      + intros b f H. rewrite Eo in H. unfold cache_view in H.
        apply in_map_iff in H as (e & [= <- <-] & He). apply Hc, He.
      + intros b f H. rewrite Ed in H. apply Hd, H.
    - eapply (IH (fst (step st o0))); [apply step_inv, Hok|exact Hin].
  Qed.
  (* ---------------------------------------------------------------- *)
  (* the monitor accepts every trace of the model *)
  Notation step_ok := (step_ok Hf fh best).
  Notation all_verified := (all_verified Hf fh).

  Lemma pair_eqb_eq a b : pair_eqb a b = true <-> a = b.
  Proof.
    destruct a as [a1 a2], b as [b1 b2]. unfold pair_eqb. cbn [fst snd].
    rewrite andb_true_iff, !Z.eqb_eq. split; [intros [-> ->]; reflexivity|intros [= -> ->]; auto].
  Qed.

  Lemma pmem_In p l : pmem p l = true <-> In p l.
  Proof.
    unfold pmem. rewrite existsb_exists. split.
    - intros (x & Hx & E). apply pair_eqb_eq in E. subst. exact Hx.
    - intros H. exists p. split; [exact H|apply pair_eqb_eq; reflexivity].
  Qed.

  Lemma all_verified_of l : (forall b f, In (b, f) l -> verified b f = true) -> all_verified l = true.
  Proof. intros H. apply forallb_forall. intros [b f] Hin. apply H, Hin. Qed.

  Lemma served_In c r : In r (c_resps c) -> wellformed r = true -> In (r_blk r, r_filt r) (served c).
  Proof.
    intros Hin Hw. unfold served. apply in_map_iff. exists r. split; [reflexivity|].
    apply filter_In. auto.
  Qed.

  Lemma accepted_wellformed s r : accepted s r = true -> wellformed r = true.
  Proof. unfold accepted. rewrite !andb_true_iff. tauto. Qed.

  Lemma handle_growth target s r :
    (forall e, In e (qcache (fst (handle target s r))) ->
       In e (qcache s) \/ (wellformed r = true /\ ekey e = r_blk r /\ eval e = r_filt r /\
                           verified (r_blk r) (r_filt r) = true)) /\
    (forall p, In p (qdbq (fst (handle target s r))) ->
       In p (qdbq s) \/ (wellformed r = true /\ p = (r_blk r, r_filt r))).
  Proof.
    destruct (handle_cases target s r) as [[_ E]|[Ha E]]; rewrite E; cbn [fst]; [split; auto|].
    pose proof (accepted_wellformed s r Ha) as Hw. pose proof (accepted_verified s r Ha) as Hv.
    unfold accept_state. cbn [qcache qdbq]. split.
    - intros e He. apply lru_put_In in He as [->|He]; [right|left; exact He]. auto.
    - intros p Hp. destruct persist; [|left; exact Hp].
      apply in_app_iff in Hp as [Hp|[<-|[]]]; [left; exact Hp|right; auto].
  Qed.

  Lemma feed_growth target rs : forall s,
    (forall e, In e (qcache (fst (feed target s rs))) ->
       In e (qcache s) \/ exists r, In r rs /\ wellformed r = true /\ ekey e = r_blk r /\ eval e = r_filt r /\
                                    verified (r_blk r) (r_filt r) = true) /\
    (forall p, In p (qdbq (fst (feed target s rs))) ->
       In p (qdbq s) \/ exists r, In r rs /\ wellformed r = true /\ p = (r_blk r, r_filt r)).
  Proof.
    induction rs as [|r rs IH]; intros s; [split; auto|].
    rewrite feed_cons. cbn [fst]. destruct (IH (fst (handle target s r))) as [IHc IHd].
    destruct (handle_growth target s r) as [Hc Hd]. split.
    - intros e He. apply IHc in He as [He|(r' & Hin & Hw & Hk & Hv & Hver)].
      + apply Hc in He as [He|(Hw & Hk & Hv & Hver)]; [left; exact He|right].
        exists r. split; [left; reflexivity|auto].
      + right. exists r'. split; [right; exact Hin|auto].
    - intros p' Hp. apply IHd in Hp as [Hp|(r' & Hin & Hw & Hp)].
      + apply Hd in Hp as [Hp|(Hw & Hp)]; [left; exact Hp|right].
        exists r. split; [left; reflexivity|auto].
      + right. exists r'. split; [right; exact Hin|auto].
  Qed.

  (* what a call adds to the cache was served by a well-formed response of
     this call AND satisfies the relation (no assumption on the state) *)
  Lemma get_cfilter_growth st c :
    (forall e, In e (cache (fst (get_cfilter st c))) ->
       In e (cache st) \/
       (o_queried (snd (get_cfilter st c)) = true /\ In (ekey e, eval e) (served c) /\
        verified (ekey e) (eval e) = true)) /\
    (forall p, In p (dbq (fst (get_cfilter st c))) -> In p (dbq st) \/ In p (served c)) /\
    db (fst (get_cfilter st c)) = db st.
  Proof.
    assert (T : forall e, In e (cache (touched st c)) -> In e (cache st)).
    { intros e He. eapply lru_get_snd_In, He. }
    gc c st; try (repeat split; auto; fail).
    pose proof (feed_growth (c_blk c) (c_resps c)
                  {| pending := pend; tfilter := None; qcache := cache (touched st c); qdbq := dbq st |}) as [Gc Gd].
    rewrite Hfeed in Gc, Gd. cbn [fst qcache qdbq] in Gc, Gd. repeat split.
    + intros e He. apply Gc in He as [He|(r & Hin & Hw & Hk & Hv & Hver)]; [left; apply T, He|right].
      split; [reflexivity|]. rewrite Hk, Hv. split; [apply served_In; assumption|exact Hver].
    + intros p' Hp. apply Gd in Hp as [Hp|(r & Hin & Hw & ->)]; [left; exact Hp|right].
      apply served_In; assumption.
  Qed.

  Lemma prepare_nobatch height maxb start stop pend :
    prepare height best 0 maxb = POk start stop pend ->
    start = (if height <? 1 then 1 else height) /\ stop = (if best <? height then best else height).
  Proof.
    unfold prepare. cbn [Z.eqb]. cbv zeta.
    destruct (_ <? _); [discriminate|].
    destruct ((0 <=? _) && _); [|discriminate]. intros [= <- <- _]. auto.
  Qed.

  Lemma cache_view_In (cch : list entry) e : In e cch -> In (ekey e, eval e) (cache_view cch).
  Proof. intros H. unfold cache_view. apply in_map_iff. exists e. auto. Qed.

  Lemma find_cache_view (cch : list entry) k :
    find (fun p : Z * Z => fst p =? k) (cache_view cch) =
    option_map (fun e => (ekey e, eval e)) (lru_find cch k).
  Proof.
    unfold lru_find, cache_view. induction cch as [|e l IH]; [reflexivity|]. cbn [map find fst].
    destruct (ekey e =? k); [reflexivity|exact IH].
  Qed.

  (* the monitor's "a servable local entry exists" is the model's *)
  Lemma has_good_cache st c :
    has_header c && has_good c (cache_view (cache st)) =
    match good c (fst (lru_get (cache st) (c_blk c))) with Some _ => true | None => false end.
  Proof.
    unfold Spec.has_good. rewrite find_cache_view, lru_get_fst.
    destruct (lru_find (cache st) (c_blk c)) as [e|]; cbn [option_map snd Model.good]; [|apply andb_false_r].
    rewrite local_ok_split. destruct (has_header c && verified (c_blk c) (eval e)); reflexivity.
  Qed.

  Lemma has_good_db st c :
    has_header c && has_good c (db st) =
    match good c (db_get (db st) (c_blk c)) with Some _ => true | None => false end.
  Proof.
    unfold Spec.has_good, db_get.
    destruct (find _ (db st)) as [p0|]; cbn [Model.good]; [|apply andb_false_r].
    rewrite local_ok_split. destruct (has_header c && verified (c_blk c) (snd p0)); reflexivity.
  Qed.

  (* strict = true needs the state invariant; the core monitor does not *)
  Lemma call_ok_model strict st sv c :
    0 <= best < two32 -> 0 <= c_blk c < two32 ->
    (strict = true -> state_ok st) ->
    step_ok strict (cache_view (cache st)) (db st) sv (Call c) (snd (get_cfilter st c)) = true.
  Proof.
    intros Hb Hh Hok. unfold Spec.step_ok.
    destruct (step_obs st (Call c)) as [Eoc _]. cbn [Model.step] in Eoc.
    rewrite !andb_true_iff. repeat split.
    - (* returned filter *)
      destruct (o_res (snd (get_cfilter st c))) as [f| | | | |] eqn:Hres; try reflexivity.
      + rewrite (get_cfilter_verified st c f Hres). cbn [andb].
        destruct (o_queried (snd (get_cfilter st c))) eqn:Hq.
        * destruct (get_cfilter_from_network st c f Hres Hq) as (Hv & _ & r & Hin & Hw & Hbk & Hf' & Hver).
          rewrite Hv. cbn [andb]. apply pmem_In. rewrite <- Hbk, <- Hf'. apply served_In; assumption.
        * destruct (get_cfilter_from_local st c f Hres Hq) as [Hl Hsrc].
          rewrite local_ok_split in Hl. apply andb_true_iff in Hl as [Hh' _]. rewrite Hh'. cbn [andb].
          apply orb_true_iff. destruct Hsrc as [(e & Hin & Hk & Hv)|Hd].
          -- left. apply pmem_In. rewrite <- Hk, <- Hv. apply cache_view_In, Hin.
          -- right. apply pmem_In, db_get_In, Hd.
      + exfalso. revert Hres. gc c st; try discriminate. destruct (c_verdict c); try discriminate.
        destruct (tfilter q); discriminate.
    - gc c st; try reflexivity; destruct (c_known c); try reflexivity; discriminate.
    - destruct (c_ftype_ok c) eqn:Hft; [|reflexivity]. cbn [andb].
      destruct (has_header c && (has_good c (cache_view (cache st)) || has_good c (db st))) eqn:Hhit; [|reflexivity].
      rewrite andb_orb_distrib_r, has_good_cache, has_good_db in Hhit.
      destruct (get_cfilter_local st c Hft) as (Hq & He & _).
      { apply orb_true_iff in Hhit as [H|H].
        - left. destruct (good c (fst (lru_get (cache st) (c_blk c)))) as [f|]; [eauto|discriminate].
        - right. destruct (good c (db_get (db st) (c_blk c))) as [f|]; [eauto|discriminate]. }
      rewrite Hq, He. reflexivity.
    - destruct (o_queried (snd (get_cfilter st c))) eqn:Hq; [|reflexivity]. cbn [andb].
      destruct ((1 <=? c_blk c) && (c_blk c <=? best)) eqn:Hin; [reflexivity|]. cbn [negb].
      apply (get_cfilter_out_of_range st c Hh Hb); [lia|exact Hq].
    - destruct (o_queried (snd (get_cfilter st c))) eqn:Hq; [|reflexivity].
      destruct (get_cfilter_range st c Hq) as (pend & Hp).
      destruct (o_range (snd (get_cfilter st c))) as [start stop]. cbn [fst snd] in Hp.
      destruct (prepare_range _ _ _ _ _ _ _ Hh Hb Hp) as (R1 & R2 & R3 & R4 & _ & _ & R7 & _).
      unfold Spec.range_ok. rewrite !andb_true_iff. repeat split.
      + lia.
      + destruct ((1 <=? c_blk c) && (c_blk c <=? best)) eqn:E; [|reflexivity].
        assert (1 <= c_blk c <= best) as Hr by lia. specialize (R7 Hr). lia.
      + destruct (c_batch c =? 0) eqn:E0; [|reflexivity]. apply Z.eqb_eq in E0. rewrite E0 in Hp.
        destruct (prepare_nobatch _ _ _ _ _ Hp) as [-> ->]. rewrite !Z.eqb_refl. reflexivity.
    - (* cache *)
      rewrite Eoc. apply forallb_forall. intros x Hx. unfold cache_view in Hx.
      apply in_map_iff in Hx as (e & <- & He). cbn [fst snd].
      destruct (get_cfilter_growth st c) as (Gc & _ & _).
      pose proof He as He'. apply Gc in He as [He|(Hq & Hs & Hver)].
      + pose proof (proj2 (pmem_In _ _) (cache_view_In _ _ He)) as Hm. rewrite Hm.
        rewrite andb_true_iff. split; [|reflexivity].
        destruct strict; cbn [negb andb]; [|apply orb_true_r].
        destruct (get_cfilter_inv st c (Hok eq_refl)) as (Hc' & _). rewrite (Hc' e He'). reflexivity.
      + rewrite Hver, Hq. cbn [orb andb]. apply orb_true_iff. right. apply pmem_In, Hs.
  Qed.

  Lemma step_ok_model strict st sv o :
    0 <= best < two32 -> (forall c, o = Call c -> 0 <= c_blk c < two32) ->
    (strict = true -> state_ok st) -> (forall p, In p (dbq st) -> In p sv) ->
    step_ok strict (cache_view (cache st)) (db st) sv o (snd (step st o)) = true /\
    (forall p, In p (dbq (fst (step st o))) -> In p (next_sv sv o)) /\
    next_pd (db st) o (snd (step st o)) = db (fst (step st o)).
  Proof.
    intros Hb Hh Hok Hsv.
    assert (Hok' : strict = true -> state_ok (fst (step st o))) by (intros E; apply step_inv, Hok, E).
    destruct o as [c|n| |].
    - cbn [Model.step next_sv next_pd]. split; [apply call_ok_model; auto|]. split.
      + destruct (get_cfilter_growth st c) as (_ & Gd & _).
        intros p0 Hp. apply in_app_iff. apply Gd in Hp as [Hp|Hp]; [right; apply Hsv, Hp|left; exact Hp].
      + destruct (get_cfilter_growth st c) as (_ & _ & Gdb). symmetry. exact Gdb.
    - cbn [Model.step fst snd next_sv next_pd mk_obs o_db o_cache cache db dbq Spec.step_ok] in *.
      split; [|split; [|reflexivity]].
      + rewrite !andb_true_iff. split.
        * apply forallb_forall. intros x Hx. apply andb_true_iff. split.
          -- destruct strict; cbn [negb]; [|apply orb_true_r].
             destruct (Hok' eq_refl) as (_ & Hd' & _). cbn [db] in Hd'. destruct x as [b f].
             cbn [fst snd]. rewrite (Hd' b f Hx). reflexivity.
          -- apply db_put_all_In in Hx as [Hx|Hx]; apply orb_true_iff.
             ++ left. apply pmem_In, Hx.
             ++ right. apply pmem_In, Hsv. eapply firstn_In', Hx.
        * apply forallb_forall. intros x Hx. apply andb_true_iff. split; [|apply pmem_In, Hx].
          destruct strict; cbn [negb]; [|apply orb_true_r].
          destruct (Hok' eq_refl) as (Hc' & _). cbn [cache] in Hc'. unfold cache_view in Hx.
          apply in_map_iff in Hx as (e & <- & He). cbn [fst snd]. rewrite (Hc' e He). reflexivity.
      + intros p0 Hp. apply Hsv. eapply skipn_In', Hp.
    - cbn [Model.step fst snd next_sv next_pd mk_obs o_db o_cache cache db dbq Spec.step_ok cache_view map] in *.
      split; [reflexivity|]. split; [exact Hsv|reflexivity].
    - cbn [Model.step fst snd next_sv next_pd mk_obs o_db o_cache cache db dbq Spec.step_ok] in *.
      split; [|split; [exact Hsv|reflexivity]].
      cbn [forallb andb].
      apply forallb_forall. intros x Hx. apply andb_true_iff. split; [|apply pmem_In, Hx].
      destruct strict; cbn [negb]; [|apply orb_true_r].
      destruct (Hok' eq_refl) as (Hc' & _). cbn [cache] in Hc'. unfold cache_view in Hx.
      apply in_map_iff in Hx as (e & <- & He). cbn [fst snd]. rewrite (Hc' e He). reflexivity.
  Qed.

  Definition calls_wf (ops : list op) : Prop :=
    forall c, In (Call c) ops -> 0 <= c_blk c < two32.

  Lemma first_bad_model ops : forall st sv i,
    0 <= best < two32 -> calls_wf ops -> state_ok st -> (forall p, In p (dbq st) -> In p sv) ->
    first_bad Hf fh best i (cache_view (cache st)) (db st) sv (combine ops (run st ops)) = None.
  Proof.
    induction ops as [|o ops IH]; intros st sv i Hb Hwf Hok Hm; [reflexivity|].
    rewrite run_cons. cbn [combine Spec.first_bad].
    destruct (step_ok_model true st sv o Hb) as (Hs & Hm' & Hpd); [|intros _; exact Hok|exact Hm|].
    { intros c ->. apply Hwf. left. reflexivity. }
    rewrite Hs, Hpd. destruct (step_obs st o) as [-> _].
    apply IH; [exact Hb| |apply step_inv, Hok|exact Hm']. intros c Hc. apply Hwf. right. exact Hc.
  Qed.

  Lemma model_holds d0 ops :
    0 <= best < two32 -> calls_wf ops -> all_verified d0 = true ->
    holds Hf fh best d0 (combine ops (run {| cache := []; db := d0; dbq := [] |} ops)) = true.
  Proof.
    intros Hb Hwf Hd. unfold Spec.holds. rewrite Hd. cbn [andb].
    pose proof (first_bad_model ops {| cache := []; db := d0; dbq := [] |} [] 0 Hb Hwf) as H.
    cbn [cache_view cache db dbq map] in H. rewrite H; [reflexivity| |intros p0 []].
    repeat split; cbn [cache db dbq].
    - intros e [].
    - intros b f Hin. unfold Spec.all_verified in Hd. rewrite forallb_forall in Hd. apply (Hd (b, f) Hin).
    - intros b f [].
  Qed.
  (* ---------------------------------------------------------------- *)
  (* healing: the verified answer of the network query replaces what was
     stored for the block *)
  Lemma handle_heals_cache target s r :
    accepted s r = true -> fsize (r_filt r) <= cap ->
    lru_find (qcache (fst (handle target s r))) (r_blk r) = Some (r_blk r, r_filt r, fsize (r_filt r)).
  Proof.
    intros Ha Hsz. destruct (handle_cases target s r) as [[E _]|[_ E]]; [congruence|].
    rewrite E. cbn [fst accept_state qcache]. unfold lru_put.
    destruct (cap <? fsize (r_filt r)) eqn:Ec; [lia|].
    unfold lru_find. cbn [find ekey fst]. rewrite Z.eqb_refl. reflexivity.
  Qed.

  Definition hinv (target : Z) (s : qstate) : Prop :=
    forall f, tfilter s = Some f ->
      ~ In target (pending s) /\ (persist = true -> last_for target f (qdbq s)).

  Lemma handle_hinv target s r : hinv target s -> hinv target (fst (handle target s r)).
  Proof.
    intros Hi. destruct (handle_cases target s r) as [[_ E]|[Ha E]]; rewrite E; cbn [fst]; [exact Hi|].
    intros f. unfold accept_state. cbn [tfilter pending qdbq].
    destruct (r_blk r =? target) eqn:Et.
    - apply Z.eqb_eq in Et. intros [= <-]. split.
      + rewrite zremove_In. intros [_ H]. congruence.
      + intros ->. exists (qdbq s), []. rewrite Et. split; [reflexivity|intros p0 []].
    - apply Z.eqb_neq in Et. intros Hf'. destruct (Hi f Hf') as [Hp Hl]. split.
      + rewrite zremove_In. tauto.
      + intros Hper. rewrite Hper. destruct (Hl Hper) as (q1 & q2 & -> & Hn).
        exists q1, (q2 ++ [(r_blk r, r_filt r)]). split; [rewrite <- app_assoc; reflexivity|].
        intros p0 Hp0. apply in_app_iff in Hp0 as [Hp0|[<-|[]]]; [exact (Hn _ Hp0)|exact Et].
  Qed.

  Lemma feed_hinv target rs : forall s, hinv target s -> hinv target (fst (feed target s rs)).
  Proof.
    induction rs as [|r rs IH]; intros s H; [exact H|].
    rewrite feed_cons. cbn [fst]. apply IH, handle_hinv, H.
  Qed.

  (* a call that fetched its filter from the network has queued it for the
     block AFTER anything queued for that block before *)
  Lemma get_cfilter_heals st c f :
    o_res (snd (get_cfilter st c)) = RFilter f -> o_queried (snd (get_cfilter st c)) = true ->
    persist = true -> last_for (c_blk c) f (dbq (fst (get_cfilter st c))).
  Proof.
    gc c st; try discriminate.
    destruct (c_verdict c) eqn:Hv; try discriminate.
    destruct (tfilter q) eqn:Etf; [|discriminate]. intros [= <-] _ Hper.
    pose proof (feed_hinv (c_blk c) (c_resps c)
                  {| pending := pend; tfilter := None; qcache := cache (touched st c); qdbq := dbq st |}) as Hh.
    rewrite Hfeed in Hh. cbn [fst] in Hh.
    destruct (Hh (fun f0 (H : None = Some f0) => ltac:(discriminate)) z Etf) as [_ Hl]. exact (Hl Hper).
  Qed.

  (* ... so once the batch writer has persisted the queue, the database holds
     the verified filter for the block, whatever it held before *)
  Lemma get_cfilter_heals_db st c f :
    o_res (snd (get_cfilter st c)) = RFilter f -> o_queried (snd (get_cfilter st c)) = true ->
    persist = true ->
    let st' := fst (get_cfilter st c) in
    db_get (db (fst (step st' (Flush (Z.of_nat (length (dbq st'))))))) (c_blk c) = Some f.
  Proof.
    intros Hres Hq Hper st'. cbn [Model.step fst db]. unfold flush_count.
    destruct (Z.of_nat (length (dbq st')) <? 0) eqn:E0; [lia|].
    rewrite Z.ltb_irrefl, Nat2Z.id, firstn_all.
    apply flush_last_for, get_cfilter_heals; assumption.
  Qed.
End Oracles.

(* ------------------------------------------------------------------ *)
(* histories with rewrites of the committed filter headers, GetBlock calls and
   database lookups overlapped by other writers *)
Section Rewrites.
  Variable Hf : Z -> Z -> Z.
  Variable fsize : Z -> Z.
  Variable cap : Z.
  Variable persist : bool.

  Notation xstep := (xstep Hf fsize cap persist).
  Notation xrun := (xrun Hf fsize cap persist).
  Notation xfinal := (xfinal Hf fsize cap persist).

  Lemma xstep_base st o :
    xstep st (XBase o) =
    ({| base := fst (step Hf (hdrs st) fsize (xbest st) cap persist (base st) o);
        hdrs := hdrs st; xbest := xbest st |},
     snd (step Hf (hdrs st) fsize (xbest st) cap persist (base st) o)).
  Proof. cbn [Model.xstep]. destruct (step _ _ _ _ _ _ _ o). reflexivity. Qed.

  (* the call part of an overlapped lookup, and the two shapes of XCallW *)
  Definition gcall (st : xstate) (c : call) : gstate * obs :=
    get_cfilter Hf (hdrs st) fsize (xbest st) cap persist (base st) c.

  Definition wdb (st : xstate) (c : call) (w : list (Z * Z)) : gstate :=
    {| cache := cache (fst (gcall st c)); db := db_put_all (db (fst (gcall st c))) w;
       dbq := dbq (fst (gcall st c)) |}.

  Definition rwin (st : xstate) (c : call) : bool := read_window Hf (hdrs st) (xbest st) (base st) c.

  Lemma xstep_callw st c w :
    xstep st (XCallW c w) =
    if rwin st c then
      ({| base := wdb st c w; hdrs := hdrs st; xbest := xbest st |},
       {| o_res := o_res (snd (gcall st c)); o_queried := o_queried (snd (gcall st c));
          o_range := o_range (snd (gcall st c)); o_prog := o_prog (snd (gcall st c));
          o_cache := o_cache (snd (gcall st c)); o_db := db (wdb st c w) |})
    else
      ({| base := fst (gcall st c); hdrs := hdrs st; xbest := xbest st |}, snd (gcall st c)).
  Proof.
    cbn [Model.xstep Model.step]. unfold rwin, wdb, gcall.
    destruct (get_cfilter _ _ _ _ _ _ _ c). reflexivity.
  Qed.

  Lemma gcall_db st c : db (fst (gcall st c)) = db (base st).
  Proof. unfold gcall. apply get_cfilter_growth. Qed.

  Lemma xrun_cons st o ops : xrun st (o :: ops) = snd (xstep st o) :: xrun (fst (xstep st o)) ops.
  Proof. cbn [Model.xrun]. destruct (xstep st o). reflexivity. Qed.

  Lemma xfinal_app st ops1 ops2 : xfinal st (ops1 ++ ops2) = xfinal (xfinal st ops1) ops2.
  Proof. unfold Model.xfinal. apply fold_left_app. Qed.

  (* the call of an overlapped lookup is observed like an undisturbed call *)
  Definition call_of (o : xop) : option call :=
    match o with XBase (Call c) => Some c | XCallW c _ => Some c | _ => None end.

  Lemma xstep_callw_obs st c w :
    let ob := snd (xstep st (XCallW c w)) in
    o_res ob = o_res (snd (gcall st c)) /\ o_queried ob = o_queried (snd (gcall st c)) /\
    o_range ob = o_range (snd (gcall st c)) /\ o_prog ob = o_prog (snd (gcall st c)) /\
    o_cache ob = o_cache (snd (gcall st c)) /\
    cache (base (fst (xstep st (XCallW c w)))) = cache (fst (gcall st c)) /\
    dbq (base (fst (xstep st (XCallW c w)))) = dbq (fst (gcall st c)) /\
    o_db ob = db (base (fst (xstep st (XCallW c w)))).
  Proof.
    cbv zeta. rewrite xstep_callw. destruct (rwin st c); cbn; repeat split.
    unfold gcall. apply step_obs with (o := Call c).
  Qed.

  Lemma xstep_call_hdrs st o c : call_of o = Some c ->
    hdrs (fst (xstep st o)) = hdrs st /\ o_res (snd (xstep st o)) = o_res (snd (gcall st c)) /\
    o_queried (snd (xstep st o)) = o_queried (snd (gcall st c)).
  Proof.
    destruct o as [o|nb nf|b|c' w]; try discriminate.
    - destruct o; try discriminate. intros [= ->]. rewrite xstep_base. cbn. auto.
    - intros [= ->]. destruct (xstep_callw_obs st c w) as (E1 & E2 & _). cbv zeta in E1, E2.
      rewrite E1, E2. rewrite xstep_callw. destruct (rwin st c); auto.
  Qed.

  (* THE theorem for histories with rewrites, unconditionally: after ANY
     history (calls, flushes, resets, purges, rewrites of the committed
     headers, GetBlock calls, lookups overlapped by any writers) from ANY
     state, a filter that a call returns — from the network, the cache or the
     database — satisfies the relation for the headers committed NOW *)
  Lemma every_history_rewrites ops1 o st0 c f :
    let st := xfinal st0 ops1 in
    call_of o = Some c -> o_res (snd (xstep st o)) = RFilter f ->
    verified Hf (hdrs st) (c_blk c) f = true /\ hdrs (fst (xstep st o)) = hdrs st.
  Proof.
    intros st Hc Hres. destruct (xstep_call_hdrs st o c Hc) as (Eh & Er & _).
    split; [|exact Eh]. rewrite Er in Hres. unfold gcall in Hres.
    eapply get_cfilter_verified, Hres.
  Qed.

  (* nothing above the committed filter-header tip: after any history — in
     which rewrites may lower the tip below blocks whose filters are cached or
     stored (rollback without re-commit, reset on restart) — no call returns
     a filter for an unknown hash or a height above the CURRENT tip *)
  Lemma nothing_above_filter_tip ops1 o st0 c :
    let st := xfinal st0 ops1 in
    call_of o = Some c ->
    c_known c = false \/ xbest st < c_blk c \/ c_blk c < 0 ->
    is_err (o_res (snd (xstep st o))) = true.
  Proof.
    intros st Hc Hout. destruct (xstep_call_hdrs st o c Hc) as (_ & Er & _). rewrite Er.
    destruct (o_res (snd (gcall st c))) as [f| | | | |] eqn:Hres; try reflexivity. exfalso.
    destruct (get_cfilter_has_header Hf (hdrs st) fsize (xbest st) cap persist (base st) c f Hres) as [Hk Hb].
    destruct Hout as [H|[H|H]]; [congruence|lia|lia].
  Qed.

  (* what a call fetches from the network, and what it adds to the cache,
     satisfies the relation for the headers committed when the call took its
     snapshot — i.e. at the call, in the sequential history *)
  Lemma snapshot_verified ops1 c st0 f :
    let st := xfinal st0 ops1 in
    let ob := snd (xstep st (XBase (Call c))) in
    o_res ob = RFilter f -> o_queried ob = true ->
    verified Hf (hdrs st) (c_blk c) f = true /\
    forall e, In e (cache (base (fst (xstep st (XBase (Call c)))))) ->
              In e (cache (base st)) \/ verified Hf (hdrs st) (ekey e) (eval e) = true.
  Proof.
    intros st ob. unfold ob. rewrite xstep_base. cbn [fst snd base Model.step].
    intros Hres Hq. split.
    - eapply get_cfilter_verified, Hres.
    - intros e He. destruct (get_cfilter_growth Hf (hdrs st) fsize (xbest st) cap persist (base st) c) as (G & _).
      apply G in He as [He|(_ & _ & Hv)]; auto.
  Qed.

  (* a retry after the committed headers were rewritten *)
  Lemma retry_after_rewrite st0 ops1 c1 nb nf c f :
    let st := xfinal st0 (ops1 ++ [XBase (Call c1); XRewrite nb nf]) in
    let ob := snd (xstep st (XBase (Call c))) in
    o_res ob = RFilter f -> verified Hf nf (c_blk c) f = true.
  Proof.
    intros st ob Hres.
    destruct (every_history_rewrites (ops1 ++ [XBase (Call c1); XRewrite nb nf]) (XBase (Call c)) st0 c f
                eq_refl Hres) as [H _].
    replace (hdrs (xfinal st0 (ops1 ++ [XBase (Call c1); XRewrite nb nf]))) with nf in H; [exact H|].
    rewrite xfinal_app. cbn [Model.xfinal fold_left]. reflexivity.
  Qed.

  (* healing: a stale entry is not handed out; the verified network answer is
     queued after it and, once persisted, is what the database holds *)
  Lemma stale_entry_healed st c f :
    persist = true ->
    let st1 := fst (xstep st (XBase (Call c))) in
    let ob := snd (xstep st (XBase (Call c))) in
    o_res ob = RFilter f -> o_queried ob = true ->
    last_for (c_blk c) f (dbq (base st1)) /\
    db_get (db (base (fst (xstep st1 (XBase (Flush (Z.of_nat (length (dbq (base st1))))))))))
           (c_blk c) = Some f.
  Proof.
    intros Hper st1 ob. unfold st1, ob. rewrite !xstep_base. cbn [fst snd base hdrs xbest Model.step].
    intros Hres Hq. split.
    - eapply get_cfilter_heals; eassumption.
    - pose proof (get_cfilter_heals_db Hf (hdrs st) fsize (xbest st) cap persist (base st) c f Hres Hq Hper) as H.
      cbv zeta in H. cbn [Model.step fst] in H. exact H.
  Qed.

  (* ---------------------------------------------------------------- *)
  (* GetBlock: no producer of filters *)
  Lemma getblock_unchanged st b :
    xstep st (XGetBlock b) = (st, mk_obs (base st) RNone false (0, 0) []).
  Proof. reflexivity. Qed.

  Definition not_getblock (o : xop) : bool := match o with XGetBlock _ => false | _ => true end.

  Lemma getblock_transparent ops : forall st,
    xfinal st (filter not_getblock ops) = xfinal st ops /\
    xrun st (filter not_getblock ops) =
      map snd (filter (fun p => not_getblock (fst p)) (combine ops (xrun st ops))).
  Proof.
    induction ops as [|o ops IH]; intros st; [split; reflexivity|].
    rewrite xrun_cons. cbn [combine filter fst].
    destruct (not_getblock o) eqn:E.
    - cbn [filter map snd]. rewrite xrun_cons.
      destruct (IH (fst (xstep st o))) as [A B]. split; [exact A|]. rewrite B. reflexivity.
    - destruct o; try discriminate. cbn [Model.xstep fst]. apply IH.
  Qed.

  (* ---------------------------------------------------------------- *)
  (* database lookups overlapped by other writers: snapshot semantics *)

  Lemma callw_two_phase st c w :
    rwin st c = true ->
    db (base (fst (xstep st (XCallW c w)))) = snd (db_fetch (db (base st)) (c_blk c) w).
  Proof.
    intros Hw. rewrite xstep_callw, Hw. cbn [fst base wdb db db_fetch snd]. rewrite gcall_db. reflexivity.
  Qed.

  Lemma rwin_miss st c :
    c_ftype_ok c = true -> (forall e, In e (cache (base st)) -> ekey e <> c_blk c) -> rwin st c = true.
  Proof.
    intros Hft Hm. unfold rwin, read_window. rewrite Hft, (lru_get_miss _ _ Hm). reflexivity.
  Qed.

  Lemma db_read_snapshot st c w f :
    c_ftype_ok c = true ->
    (forall e, In e (cache (base st)) -> ekey e <> c_blk c) ->
    db_get (db (base st)) (c_blk c) = Some f ->
    let st' := fst (xstep st (XCallW c w)) in
    let ob := snd (xstep st (XCallW c w)) in
    fst (db_fetch (db (base st)) (c_blk c) w) = Some f /\
    (local_ok Hf (hdrs st) (xbest st) c f = true ->
       o_res ob = RFilter f /\ o_queried ob = false /\
       cache (base st') = cache (base st) /\ dbq (base st') = dbq (base st)) /\
    (local_ok Hf (hdrs st) (xbest st) c f = false ->
       forall f', o_res ob = RFilter f' -> o_queried ob = true) /\
    db (base st') = db_put_all (db (base st)) w /\
    (~ In (c_blk c) (map fst w) -> db_get (db (base st')) (c_blk c) = Some f).
  Proof.
    intros Hft Hm Hdb. cbv zeta.
    pose proof (rwin_miss st c Hft Hm) as Hw.
    assert (Ed : db (base (fst (xstep st (XCallW c w)))) = db_put_all (db (base st)) w).
    { rewrite (callw_two_phase st c w Hw). reflexivity. }
    destruct (xstep_callw_obs st c w) as (E1 & E2 & _ & _ & _ & E6 & E7 & _). cbv zeta in E1, E2.
    rewrite E1, E2, E6, E7. split; [exact Hdb|]. split; [|split; [|split]].
    - intros Hl. unfold gcall, Model.get_cfilter. cbv zeta. rewrite Hft. cbn [negb].
      rewrite (lru_get_miss _ _ Hm), Hdb. cbn [fst snd Model.good]. rewrite Hl.
      cbn [fst snd mk_obs o_res o_queried cache dbq]. auto.
    - intros Hl f' Hres.
      destruct (o_queried (snd (gcall st c))) eqn:Hq; [reflexivity|]. exfalso.
      destruct (get_cfilter_from_local Hf (hdrs st) fsize (xbest st) cap persist (base st) c f' Hres Hq)
        as [Hl' [(e & Hin & Hk & _)|Hd]]; [exact (Hm e Hin Hk)|].
      rewrite Hdb in Hd. injection Hd as <-. congruence.
    - exact Ed.
    - intros Hn. rewrite Ed. rewrite db_get_put_all_other; assumption.
  Qed.

  (* whatever the overlapping writers store, even under the SAME key: the
     call returns, requests, reports and caches exactly what the undisturbed
     call does; only the database differs, by exactly the writers' puts *)
  Lemma write_window_only_changes_db st c w :
    let sw := xstep st (XCallW c w) in
    let s0 := xstep st (XBase (Call c)) in
    o_res (snd sw) = o_res (snd s0) /\ o_queried (snd sw) = o_queried (snd s0) /\
    o_range (snd sw) = o_range (snd s0) /\ o_prog (snd sw) = o_prog (snd s0) /\
    o_cache (snd sw) = o_cache (snd s0) /\
    cache (base (fst sw)) = cache (base (fst s0)) /\ dbq (base (fst sw)) = dbq (base (fst s0)) /\
    hdrs (fst sw) = hdrs (fst s0) /\ xbest (fst sw) = xbest (fst s0) /\
    db (base (fst sw)) = (if read_window Hf (hdrs st) (xbest st) (base st) c
                          then db_put_all (db (base st)) w else db (base st)).
  Proof.
    cbv zeta. rewrite xstep_base. cbn [Model.step fst snd base hdrs xbest].
    rewrite xstep_callw. fold (gcall st c). fold (rwin st c).
    destruct (rwin st c); cbn [fst snd base hdrs xbest wdb cache db dbq o_res o_queried o_range o_prog o_cache];
      rewrite ?gcall_db; repeat split; reflexivity.
  Qed.

  (* ---------------------------------------------------------------- *)
  (* the monitor of the correspondence run accepts every model trace *)
  Definition xops_wf (ops : list xop) : Prop :=
    (forall c, In (XBase (Call c)) ops -> 0 <= c_blk c < two32) /\
    (forall nb nf, In (XRewrite nb nf) ops -> 0 <= nb < two32) /\
    (forall c w, In (XCallW c w) ops -> 0 <= c_blk c < two32).

  Lemma window_seen_read_window fh best g c :
    window_seen Hf fh best (cache_view (cache g)) c = read_window Hf fh best g c.
  Proof.
    unfold window_seen, read_window. f_equal. rewrite (has_good_cache Hf fh best g c).
    destruct (good Hf fh best c (fst (lru_get (cache g) (c_blk c)))); reflexivity.
  Qed.

  Lemma unchanged_ok_same g :
    unchanged_ok (cache_view (cache g)) (db g) (mk_obs g RNone false (0, 0) []) = true.
  Proof.
    unfold unchanged_ok. cbn [mk_obs o_cache o_db]. apply andb_true_iff.
    split; apply forallb_forall; intros x Hx; apply pmem_In, Hx.
  Qed.

  Lemma xfirst_bad_model ops : forall st sv i,
    0 <= xbest st < two32 -> xops_wf ops ->
    (forall p, In p (dbq (base st)) -> In p sv) ->
    xfirst_bad Hf (hdrs st) (xbest st) i (cache_view (cache (base st))) (db (base st)) sv
      (combine ops (xrun st ops)) = None.
  Proof.
    induction ops as [|o ops IH]; intros st sv i Hb (Hw1 & Hw2 & Hw3) Hm; [reflexivity|].
    rewrite xrun_cons. cbn [combine].
    assert (Hwf' : xops_wf ops).
    { split; [intros c Hc; apply Hw1; right; exact Hc|].
      split; [intros nb nf Hc; apply (Hw2 nb nf); right; exact Hc|intros c w Hc; apply (Hw3 c w); right; exact Hc]. }
    destruct o as [o|nb nf|b|c w].
    - rewrite xstep_base in *. cbn [fst snd Spec.xfirst_bad].
      destruct (step_ok_model Hf (hdrs st) fsize (xbest st) cap persist false (base st) sv o Hb)
        as (Hok & Hm' & Hpd).
      { intros c ->. apply Hw1. left. reflexivity. }
      { discriminate. }
      { exact Hm. }
      rewrite Hok, Hpd.
      destruct (step_obs Hf (hdrs st) fsize (xbest st) cap persist (base st) o) as [-> _].
      pose proof (IH {| base := fst (step Hf (hdrs st) fsize (xbest st) cap persist (base st) o);
                        hdrs := hdrs st; xbest := xbest st |} (next_sv sv o) (i + 1)) as IH'.
      cbn [base hdrs xbest] in IH'. apply IH'; auto.
    - cbn [Model.xstep fst snd Spec.xfirst_bad].
      rewrite unchanged_ok_same. cbn [mk_obs o_cache o_db].
      pose proof (IH {| base := base st; hdrs := nf; xbest := nb |} sv (i + 1)) as IH'.
      cbn [base hdrs xbest] in IH'. apply IH'; auto.
      apply (Hw2 nb nf). left. reflexivity.
    - cbn [Model.xstep fst snd Spec.xfirst_bad].
      rewrite unchanged_ok_same. cbn [mk_obs o_cache o_db]. apply IH; auto.
    - cbn [Spec.xfirst_bad].
      destruct (step_ok_model Hf (hdrs st) fsize (xbest st) cap persist false (base st) sv (Call c) Hb)
        as (Hok & Hm' & _).
      { intros c' [= <-]. apply (Hw3 c w). left. reflexivity. }
      { discriminate. }
      { exact Hm. }
      cbn [Model.step next_sv] in Hok, Hm'. fold (gcall st c) in Hok, Hm'.
      destruct (xstep_callw_obs st c w) as (E1 & E2 & E3 & E4 & E5 & E6 & E7 & E8).
      assert (Hok2 : step_ok Hf (hdrs st) (xbest st) false (cache_view (cache (base st))) (db (base st)) sv
                       (Call c) (snd (xstep st (XCallW c w))) = true).
      { rewrite <- Hok. unfold Spec.step_ok. rewrite E1, E2, E3, E5. reflexivity. }
      rewrite Hok2. rewrite window_seen_read_window. rewrite E5.
      pose proof (step_obs Hf (hdrs st) fsize (xbest st) cap persist (base st) (Call c)) as [Eo _].
      cbn [Model.step] in Eo. fold (gcall st c) in Eo. rewrite Eo, <- E6.
      assert (Ed : (if read_window Hf (hdrs st) (xbest st) (base st) c
                    then db_put_all (db (base st)) w else db (base st)) =
                   db (base (fst (xstep st (XCallW c w))))).
      { rewrite xstep_callw. unfold rwin.
        destruct (read_window Hf (hdrs st) (xbest st) (base st) c); cbn [fst base wdb db]; rewrite gcall_db; reflexivity. }
      rewrite Ed.
      assert (Eh : hdrs (fst (xstep st (XCallW c w))) = hdrs st /\ xbest (fst (xstep st (XCallW c w))) = xbest st).
      { rewrite xstep_callw. destruct (rwin st c); split; reflexivity. }
      destruct Eh as [Eh Eb].
      pose proof (IH (fst (xstep st (XCallW c w))) (served c ++ sv) (i + 1)) as IH'.
      rewrite Eh, Eb in IH'. apply IH'; auto.
      intros p Hp. rewrite E7 in Hp. apply Hm', Hp.
  Qed.
End Rewrites.
