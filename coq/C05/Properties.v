(* C05 — the property theorems, and nothing else.
   All statements hold for EVERY interpretation of the external functions
   (Hf = MakeHeaderForFilter on tokens, fh = committed filter headers, fsize),
   every cache capacity, with and without persistence, every sequence of
   GetCFilter calls / batch-writer flushes (of any prefix of the queue) /
   cache resets / database purges, and for every response stream (any
   messages, any order, duplicates, omissions, corruption at any position,
   wrong type or block, unsolicited, after completion), every batching mode
   and dispatcher verdict. *)
From Coq Require Import ZArith List Bool Lia.
From Verif Require Import C05.Model C05.Spec C05.Proofs.
Import ListNotations.
Open Scope Z_scope.

(* C05_full, safety: starting from a state whose cache / database / queue
   satisfy the committed-header relation (the database initially holds the
   genesis filter), after ANY history every filter a call returns — from the
   network, the cache or the database — and every filter visible in the cache
   or the database satisfies  H(filter, fhdr(h-1)) = fhdr(h)  for its block. *)
Theorem C05_every_history : forall Hf fh fsize best cap persist ops st,
  state_ok Hf fh st ->
  forall o ob, In (o, ob) (combine ops (run Hf fh fsize best cap persist st ops)) ->
  (forall c f, o = Call c -> o_res ob = RFilter f -> verified Hf fh (c_blk c) f = true) /\
  (forall b f, In (b, f) (o_cache ob) -> verified Hf fh b f = true) /\
  (forall b f, In (b, f) (o_db ob) -> verified Hf fh b f = true).
Proof. exact every_history. Qed.
Print Assumptions C05_every_history.

(* ... and the state itself (cache, database, batch writer queue) keeps
   satisfying it, whatever prefix of the queue has been persisted. *)
Theorem C05_state_invariant : forall Hf fh fsize best cap persist ops st,
  state_ok Hf fh st -> state_ok Hf fh (final Hf fh fsize best cap persist st ops).
Proof. exact final_inv. Qed.
Print Assumptions C05_state_invariant.

(* THE repair of F-C05-2, for ANY state (no assumption on what cache, database
   or queue hold — entries verified against headers that were rewritten since,
   entries written by anybody): a filter that GetCFilter returns, whether it
   comes from the network, the cache or the database, satisfies the relation
   for the committed headers. *)
Theorem C05_returned_filter_verified : forall Hf fh fsize best cap persist st c f,
  o_res (snd (get_cfilter Hf fh fsize best cap persist st c)) = RFilter f ->
  verified Hf fh (c_blk c) f = true.
Proof. exact get_cfilter_verified. Qed.
Print Assumptions C05_returned_filter_verified.

(* ... and a filter served locally is an entry of the cache or the database
   that passed the check of matchesCommittedHeader (the block has a committed
   filter header and the relation holds). *)
Theorem C05_local_filter_was_checked : forall Hf fh fsize best cap persist st c f,
  o_res (snd (get_cfilter Hf fh fsize best cap persist st c)) = RFilter f ->
  o_queried (snd (get_cfilter Hf fh fsize best cap persist st c)) = false ->
  local_ok Hf fh best c f = true /\
  ((exists e, In e (cache st) /\ ekey e = c_blk c /\ eval e = f) \/ db_get (db st) (c_blk c) = Some f).
Proof. exact get_cfilter_from_local. Qed.
Print Assumptions C05_local_filter_was_checked.

(* handleResponse: a response either is ignored (state unchanged,
   NoProgress) or is accepted — well-formed, for a block still awaited, and
   satisfying the relation — and then `Finished` is reported iff the pending
   set became empty, `Progressed` otherwise. *)
Theorem C05_progress_exact : forall Hf fh fsize cap persist target s r,
  let '(s', p) := handle Hf fh fsize cap persist target s r in
  (p = Finished <-> accepted Hf fh s r = true /\ pending s' = []) /\
  (p = Progressed <-> accepted Hf fh s r = true /\ pending s' <> []) /\
  (p = NoProgress <-> accepted Hf fh s r = false) /\
  (p = NoProgress -> s' = s).
Proof. exact handle_progress. Qed.
Print Assumptions C05_progress_exact.

(* At most one state change per block: after a response for a block was
   accepted, every later response for that block (duplicate or different,
   after any other responses) is ignored. *)
Theorem C05_once_per_block : forall Hf fh fsize cap persist target s r,
  accepted Hf fh s r = true ->
  forall rs r', r_blk r' = r_blk r ->
  let s'' := fst (feed Hf fh fsize cap persist target
                    (fst (handle Hf fh fsize cap persist target s r)) rs) in
  handle Hf fh fsize cap persist target s'' r' = (s'', NoProgress).
Proof. exact once_per_block. Qed.
Print Assumptions C05_once_per_block.

(* A filter fetched from the network was served for the target block by a
   well-formed response of that very call, satisfies the relation, the batch
   verdict was success and the target lies in the prepared range. *)
Theorem C05_network_filter_was_verified : forall Hf fh fsize best cap persist st c f,
  o_res (snd (get_cfilter Hf fh fsize best cap persist st c)) = RFilter f ->
  o_queried (snd (get_cfilter Hf fh fsize best cap persist st c)) = true ->
  c_verdict c = VOk /\
  (exists start stop pend, prepare (c_blk c) best (c_batch c) (c_maxbatch c) = POk start stop pend /\
                           In (c_blk c) pend) /\
  exists r, In r (c_resps c) /\ wellformed r = true /\ r_blk r = c_blk c /\ r_filt r = f /\
            verified Hf fh (c_blk c) f = true.
Proof. exact get_cfilter_from_network. Qed.
Print Assumptions C05_network_filter_was_verified.

(* If the target was not verified — no well-formed response for it satisfies
   the relation — or the batch failed, or the hash / filter type is unknown,
   a call that finds no local entry passing the check returns an error. *)
Theorem C05_unverified_target_is_error : forall Hf fh fsize best cap persist st c,
  (forall e, lru_find (cache st) (c_blk c) = Some e -> local_ok Hf fh best c (eval e) = false) ->
  (forall f, db_get (db st) (c_blk c) = Some f -> local_ok Hf fh best c f = false) ->
  (forall r, In r (c_resps c) -> wellformed r = true -> r_blk r = c_blk c ->
             verified Hf fh (c_blk c) (r_filt r) = false)
    \/ c_verdict c <> VOk \/ c_known c = false \/ c_ftype_ok c = false ->
  is_err (o_res (snd (get_cfilter Hf fh fsize best cap persist st c))) = true.
Proof. exact get_cfilter_error. Qed.
Print Assumptions C05_unverified_target_is_error.

(* Range lemma (prepareCFiltersQuery with its Go integer conversions), for
   every height (uint32), best height, batching mode and batch-size option:
   a prepared range satisfies 1 <= start <= stop <= best, has at most
   batch-size elements, the awaited set is exactly [start, stop], contains
   the target whenever 1 <= height <= best and never contains it for height
   0 or height > best (the last conjunct is vacuous since empty ranges are
   refused: see C05_out_of_range_nobatch). *)
Theorem C05_range : forall height best batch maxb start stop pend,
  0 <= height < two32 -> 0 <= best < two32 ->
  prepare height best batch maxb = POk start stop pend ->
  1 <= start /\ stop <= best /\ start <= stop /\
  stop - start + 1 <= batch_size maxb /\
  pend = zrange start (stop - start + 1) /\
  (forall x, In x pend <-> start <= x <= stop) /\
  (1 <= height <= best -> start <= height <= stop) /\
  (height = 0 \/ best < height -> ~ In height pend) /\
  (batch = 0 -> (height = 0 \/ best < height) -> pend = []).
Proof. exact prepare_range. Qed.
Print Assumptions C05_range.

(* ... and for 1 <= height <= best the preparation cannot fail. *)
Theorem C05_range_total : forall height best batch maxb,
  1 <= height <= best -> best < two32 -> 0 <= batch <= 2 ->
  exists start stop pend, prepare height best batch maxb = POk start stop pend.
Proof. exact prepare_succeeds. Qed.
Print Assumptions C05_range_total.

(* Height 0 and heights above the best filter header have no committed
   header to verify against. Without batching the call fails before any
   request goes out and touches nothing: *)
Theorem C05_out_of_range_nobatch : forall Hf fh fsize best cap persist st c,
  c_blk c = 0 \/ best < c_blk c -> c_batch c = 0 ->
  (forall e, In e (cache st) -> ekey e <> c_blk c) -> db_get (db st) (c_blk c) = None ->
  get_cfilter Hf fh fsize best cap persist st c =
    (st, mk_obs st RErrOther false (0, 0) []).
Proof. exact get_cfilter_nobatch_refused. Qed.
Print Assumptions C05_out_of_range_nobatch.

(* ... and with batching (what the code really does: a request for the
   verifiable neighbours may go out) no filter is ever returned for such a
   height (only verified neighbours are stored: C05_every_history); without
   batching nothing but the recency of the looked-up cache entry changes. *)
Theorem C05_out_of_range : forall Hf fh fsize best cap persist st c,
  0 <= c_blk c < two32 -> 0 <= best < two32 ->
  c_blk c = 0 \/ best < c_blk c ->
  o_queried (snd (get_cfilter Hf fh fsize best cap persist st c)) = true ->
  is_err (o_res (snd (get_cfilter Hf fh fsize best cap persist st c))) = true /\
  (c_batch c = 0 -> fst (get_cfilter Hf fh fsize best cap persist st c) = touched st c).
Proof. exact get_cfilter_out_of_range. Qed.
Print Assumptions C05_out_of_range.

(* A cached or stored filter that passes the check is returned without the
   network. *)
Theorem C05_local_without_network : forall Hf fh fsize best cap persist st c,
  c_ftype_ok c = true ->
  (exists f, good Hf fh best c (fst (lru_get (cache st) (c_blk c))) = Some f) \/
  (exists f, good Hf fh best c (db_get (db st) (c_blk c)) = Some f) ->
  o_queried (snd (get_cfilter Hf fh fsize best cap persist st c)) = false /\
  is_err (o_res (snd (get_cfilter Hf fh fsize best cap persist st c))) = false /\
  db (fst (get_cfilter Hf fh fsize best cap persist st c)) = db st /\
  dbq (fst (get_cfilter Hf fh fsize best cap persist st c)) = dbq st.
Proof. exact get_cfilter_local. Qed.
Print Assumptions C05_local_without_network.

(* Every trace of the model (from a database holding verified filters, e.g.
   the genesis filter) satisfies the monitor that the correspondence run
   evaluates on traces of the real GetCFilter; heights are uint32. *)
Theorem C05_model_holds : forall Hf fh fsize best cap persist d0 ops,
  0 <= best < two32 -> calls_wf ops -> all_verified Hf fh d0 = true ->
  holds Hf fh best d0
    (combine ops (run Hf fh fsize best cap persist {| cache := []; db := d0; dbq := [] |} ops)) = true.
Proof. exact model_holds. Qed.
Print Assumptions C05_model_holds.

(* Non-vacuity: committed headers fh h = 100+h, H(f,p) = p+1 iff f = p (so the
   filter verified for block h is token 100+h-1).  A forward batch of 3 from
   block 2 (best 5): corrupted filter for 2 (ignored), block 3 (progress),
   wrong type, unsolicited block 9, block 2 (progress, the target), block 4
   (finished), duplicate of 3 (ignored).  Then block 3 from the cache, flush,
   cache reset, block 4 from the database, block 0 (error), block 6 > best
   (error). *)
Definition ex_Hf (f p : Z) : Z := if f =? p then p + 1 else 0.
Definition ex_fh (h : Z) : Z := if h <? 0 then 0 else 100 + h.
Definition ex_r b f := {| r_req := 0; r_is_cfilter := true; r_type_ok := true; r_blk := b;
                          r_decode_ok := true; r_filt := f |}.
Definition ex_ops : list op :=
  [ Call {| c_blk := 2; c_known := true; c_ftype_ok := true; c_batch := 1; c_maxbatch := 3;
            c_resps := [ex_r 2 77; ex_r 3 102;
                        {| r_req := 0; r_is_cfilter := true; r_type_ok := false; r_blk := 4;
                           r_decode_ok := true; r_filt := 103 |};
                        ex_r 9 108; ex_r 2 101; ex_r 4 103; ex_r 3 102];
            c_verdict := VOk |};
    Call {| c_blk := 3; c_known := true; c_ftype_ok := true; c_batch := 0; c_maxbatch := 0;
            c_resps := []; c_verdict := VErr |};
    Flush 100; DropCache;
    Call {| c_blk := 4; c_known := true; c_ftype_ok := true; c_batch := 0; c_maxbatch := 0;
            c_resps := []; c_verdict := VErr |};
    Call {| c_blk := 0; c_known := true; c_ftype_ok := true; c_batch := 1; c_maxbatch := 2;
            c_resps := [ex_r 1 100; ex_r 0 99]; c_verdict := VOk |};
    Call {| c_blk := 6; c_known := true; c_ftype_ok := true; c_batch := 0; c_maxbatch := 0;
            c_resps := [ex_r 6 105]; c_verdict := VOk |} ].
Example C05_nonvacuous :
  state_ok ex_Hf ex_fh {| cache := []; db := []; dbq := [] |} /\
  map (fun o => (o_res o, o_queried o, o_range o, o_prog o))
      (run ex_Hf ex_fh (fun _ => 10) 5 1000 true {| cache := []; db := []; dbq := [] |} ex_ops) =
  [ (RFilter 101, true, (2, 4), [NoProgress; Progressed; NoProgress; NoProgress; Progressed; Finished; NoProgress]);
    (RFilter 102, false, (0, 0), []);
    (RNone, false, (0, 0), []); (RNone, false, (0, 0), []);
    (RFilter 103, false, (0, 0), []);
    (RErrFetch, true, (1, 1), [Finished; NoProgress]);
    (RErrOther, false, (0, 0), []) ].
Proof. split; [repeat split; intros; contradiction | vm_compute; reflexivity]. Qed.

(* ------------------------------------------------------------------ *)
(* Histories in which the committed filter headers are rewritten (store
   rolled back and re-written).  A call queued on the single-flight mutex
   takes its header snapshot after acquiring it, so the sequential history
   "Call A; XRewrite; Call B" is the exact semantics of that interleaving. *)

(* THE property for histories with rewrites, unconditionally (F-C05-2 is
   repaired: no ghost flag, no hypothesis on the starting state): after ANY
   history of calls, flushes, cache resets, purges, rewrites of the committed
   headers, GetBlock calls and lookups overlapped by any writers, a filter that
   a call returns — from the network, the cache or the database — satisfies
   the relation for the headers committed NOW. *)
Theorem C05_every_history_rewrites : forall Hf fsize cap persist ops1 o st0 c f,
  let st := xfinal Hf fsize cap persist st0 ops1 in
  call_of o = Some c -> o_res (snd (xstep Hf fsize cap persist st o)) = RFilter f ->
  verified Hf (hdrs st) (c_blk c) f = true /\ hdrs (fst (xstep Hf fsize cap persist st o)) = hdrs st.
Proof. exact every_history_rewrites. Qed.
Print Assumptions C05_every_history_rewrites.

(* The boundary, explicitly.  The committed filter-header tip is part of the
   state a rewrite changes (XRewrite nb nf: nb may be LOWER than before — the
   filter headers rolled back below blocks whose block headers stay, without
   being re-committed; a reset on restart is the rollback to the genesis
   block).  After ANY history, from ANY state, for ANY arguments (no bound on
   heights): GetCFilter returns no filter — from the network, the cache or the
   database, whatever copies they hold — for an unknown hash or for a height
   above the committed filter-header tip as it is NOW. *)
Theorem C05_nothing_above_filter_tip : forall Hf fsize cap persist ops1 o st0 c,
  let st := xfinal Hf fsize cap persist st0 ops1 in
  call_of o = Some c ->
  c_known c = false \/ xbest st < c_blk c \/ c_blk c < 0 ->
  is_err (o_res (snd (xstep Hf fsize cap persist st o))) = true.
Proof. exact nothing_above_filter_tip. Qed.
Print Assumptions C05_nothing_above_filter_tip.

(* ... per call: a returned filter is for a known block at 0 <= height <= tip. *)
Theorem C05_returned_has_committed_header : forall Hf fh fsize best cap persist st c f,
  o_res (snd (get_cfilter Hf fh fsize best cap persist st c)) = RFilter f ->
  c_known c = true /\ 0 <= c_blk c <= best.
Proof. exact get_cfilter_has_header. Qed.
Print Assumptions C05_returned_has_committed_header.

(* Non-vacuity of the boundary (ex_Hf / ex_fh, tip 5): blocks 3..5 fetched and
   persisted; the filter headers are rolled back to block 3; block 5, cached
   and stored, is refused (without the network: an empty range), block 4 with
   a reverse batch of 2 fetches its verifiable neighbour 3 only and fails,
   block 3 — at the tip — is served from the cache. *)
Example C05_above_tip_nonvacuous :
  let st0 := {| base := {| cache := []; db := []; dbq := [] |}; hdrs := ex_fh; xbest := 5 |} in
  let call b batch rs := {| c_blk := b; c_known := true; c_ftype_ok := true; c_batch := batch; c_maxbatch := 2;
                            c_resps := rs; c_verdict := VOk |} in
  let ops := [ XBase (Call {| c_blk := 3; c_known := true; c_ftype_ok := true; c_batch := 1; c_maxbatch := 3;
                               c_resps := [ex_r 3 102; ex_r 4 103; ex_r 5 104]; c_verdict := VOk |});
               XBase (Flush 10); XRewrite 3 ex_fh;
               XBase (Call (call 5 0 [ex_r 5 104])); XBase (Call (call 4 2 [ex_r 4 103; ex_r 3 102]));
               XBase (Call (call 3 0 [])) ] in
  map (fun o => (o_res o, o_queried o, o_range o)) (xrun ex_Hf (fun _ => 10) 1000 true st0 ops) =
  [ (RFilter 102, true, (3, 5)); (RNone, false, (0, 0)); (RNone, false, (0, 0));
    (RErrOther, false, (0, 0)); (RErrFetch, true, (3, 3)); (RFilter 102, false, (0, 0)) ].
Proof. vm_compute. reflexivity. Qed.

(* A filter fetched from the network satisfies the relation for the headers
   committed at the time of the call's snapshot, and so does everything the
   call adds to the cache. *)
Theorem C05_snapshot_verified : forall Hf fsize cap persist ops1 c st0 f,
  let st := xfinal Hf fsize cap persist st0 ops1 in
  let ob := snd (xstep Hf fsize cap persist st (XBase (Call c))) in
  o_res ob = RFilter f -> o_queried ob = true ->
  verified Hf (hdrs st) (c_blk c) f = true /\
  forall e, In e (cache (base (fst (xstep Hf fsize cap persist st (XBase (Call c)))))) ->
            In e (cache (base st)) \/ verified Hf (hdrs st) (ekey e) (eval e) = true.
Proof. exact snapshot_verified. Qed.
Print Assumptions C05_snapshot_verified.

(* RECORD of finding F-C05-2, REFUTED for the code BEFORE the repair
   (get_cfilter_unrepaired: local hits handed out unchecked; nothing
   invalidates FilterCache / FilterDB entries when filter headers are
   rewritten): with a filter cached for block 2 under headers ex_fh and the
   headers rewritten to ex_fh2, the unrepaired lookup returns the cached
   filter although it does not satisfy the relation; the repaired one goes to
   the network and, unanswered, fails. *)
Definition ex_fh2 (h : Z) : Z := if h <? 0 then 0 else 200 + h.
Theorem C05_unrepaired_stale_entry_refuted :
  exists (st : gstate) (c : call) (f : Z),
    st = fst (get_cfilter ex_Hf ex_fh (fun _ => 10) 5 1000 true {| cache := []; db := []; dbq := [] |}
                {| c_blk := 2; c_known := true; c_ftype_ok := true; c_batch := 0; c_maxbatch := 0;
                   c_resps := [ex_r 2 101]; c_verdict := VOk |}) /\
    o_res (snd (get_cfilter_unrepaired ex_Hf ex_fh2 (fun _ => 10) 5 1000 true st c)) = RFilter f /\
    verified ex_Hf ex_fh2 (c_blk c) f = false /\
    o_res (snd (get_cfilter ex_Hf ex_fh2 (fun _ => 10) 5 1000 true st c)) = RErrFetch.
Proof.
  eexists. exists {| c_blk := 2; c_known := true; c_ftype_ok := true; c_batch := 0; c_maxbatch := 0;
                     c_resps := []; c_verdict := VOk |}, 101.
  split; [reflexivity|]. vm_compute. repeat split.
Qed.
Print Assumptions C05_unrepaired_stale_entry_refuted.

(* HEALING.  A call that had to go to the network — because nothing was stored
   for the block, or because what was stored no longer passes the check — and
   got its filter there has queued it for the batch writer AFTER anything
   queued for that block before, and once the queue is persisted the database
   holds exactly that (verified) filter for the block, whatever it held. *)
Theorem C05_stale_entry_healed : forall Hf fsize cap persist st c f,
  persist = true ->
  let st1 := fst (xstep Hf fsize cap persist st (XBase (Call c))) in
  let ob := snd (xstep Hf fsize cap persist st (XBase (Call c))) in
  o_res ob = RFilter f -> o_queried ob = true ->
  last_for (c_blk c) f (dbq (base st1)) /\
  db_get (db (base (fst (xstep Hf fsize cap persist st1
                           (XBase (Flush (Z.of_nat (length (dbq (base st1))))))))))
         (c_blk c) = Some f.
Proof. exact stale_entry_healed. Qed.
Print Assumptions C05_stale_entry_healed.

(* ... and every accepted response puts its filter at the front of the cache
   in place of whatever the cache held for the block (if it fits at all). *)
Theorem C05_accepted_replaces_cache_entry : forall Hf fh fsize cap persist target s r,
  accepted Hf fh s r = true -> fsize (r_filt r) <= cap ->
  lru_find (qcache (fst (handle Hf fh fsize cap persist target s r))) (r_blk r) =
    Some (r_blk r, r_filt r, fsize (r_filt r)).
Proof. exact handle_heals_cache. Qed.
Print Assumptions C05_accepted_replaces_cache_entry.

(* The monitor of the correspondence run accepts every model trace with
   rewrites, GetBlock calls and overlapped lookups, from every state. *)
Theorem C05_model_holds_rewrites : forall Hf fsize cap persist ops st sv i,
  0 <= xbest st < two32 -> xops_wf ops ->
  (forall p, In p (dbq (base st)) -> In p sv) ->
  xfirst_bad Hf (hdrs st) (xbest st) i (cache_view (cache (base st))) (db (base st)) sv
    (combine ops (xrun Hf fsize cap persist st ops)) = None.
Proof. exact xfirst_bad_model. Qed.
Print Assumptions C05_model_holds_rewrites.

(* A retry after the committed headers were rewritten.  Whatever was asked,
   answered or failed before the rewrite — in particular a query for the very
   same range — a filter that the retry returns satisfies the relation for the
   REWRITTEN headers: the code keeps no header range from one query to the
   next, and no filter verified against the old ones is handed out. *)
Theorem C05_retry_after_rewrite : forall Hf fsize cap persist st0 ops1 c1 nb nf c f,
  let st := xfinal Hf fsize cap persist st0 (ops1 ++ [XBase (Call c1); XRewrite nb nf]) in
  let ob := snd (xstep Hf fsize cap persist st (XBase (Call c))) in
  o_res ob = RFilter f -> verified Hf nf (c_blk c) f = true.
Proof. exact retry_after_rewrite. Qed.
Print Assumptions C05_retry_after_rewrite.

(* ------------------------------------------------------------------ *)
(* GetBlock is no producer of filters: it leaves filter cache, filter database
   and writer queue (and the ghost flags) exactly as they were ... *)
Theorem C05_getblock_leaves_filters_alone : forall Hf fsize cap persist st b,
  xstep Hf fsize cap persist st (XGetBlock b) = (st, mk_obs (base st) RNone false (0, 0) []).
Proof. exact getblock_unchanged. Qed.
Print Assumptions C05_getblock_leaves_filters_alone.

(* ... so GetBlock calls anywhere in a history are invisible to GetCFilter:
   deleting them changes neither the final state nor any other observation
   (what GetCFilter(B) returns after GetBlock(B) is what it returns without). *)
Theorem C05_getblock_transparent : forall Hf fsize cap persist ops st,
  xfinal Hf fsize cap persist st (filter not_getblock ops) = xfinal Hf fsize cap persist st ops /\
  xrun Hf fsize cap persist st (filter not_getblock ops) =
    map snd (filter (fun p => not_getblock (fst p)) (combine ops (xrun Hf fsize cap persist st ops))).
Proof. exact getblock_transparent. Qed.
Print Assumptions C05_getblock_transparent.

(* ------------------------------------------------------------------ *)
(* The database read has SNAPSHOT semantics.  A lookup that reaches the filter
   database while other writers commit after its read transaction has ended
   (XCallW c w: any puts w, in any number of commits) works on the value that
   was stored under the block when the lookup ran — the first component of
   the two-phase read db_fetch: if that value passes the check it is returned,
   without the network, cache and queue unchanged; if it does not, it is not
   returned from the database (a filter can then only come from the network).
   The database afterwards is the old one plus exactly the writers' puts,
   and if they wrote OTHER keys only, it still holds that value for the
   block. *)
Theorem C05_db_read_is_snapshot : forall Hf fsize cap persist st c w f,
  c_ftype_ok c = true ->
  (forall e, In e (cache (base st)) -> ekey e <> c_blk c) ->
  db_get (db (base st)) (c_blk c) = Some f ->
  let st' := fst (xstep Hf fsize cap persist st (XCallW c w)) in
  let ob := snd (xstep Hf fsize cap persist st (XCallW c w)) in
  fst (db_fetch (db (base st)) (c_blk c) w) = Some f /\
  (local_ok Hf (hdrs st) (xbest st) c f = true ->
     o_res ob = RFilter f /\ o_queried ob = false /\
     cache (base st') = cache (base st) /\ dbq (base st') = dbq (base st)) /\
  (local_ok Hf (hdrs st) (xbest st) c f = false ->
     forall f', o_res ob = RFilter f' -> o_queried ob = true) /\
  db (base st') = db_put_all (db (base st)) w /\
  (~ In (c_blk c) (map fst w) -> db_get (db (base st')) (c_blk c) = Some f).
Proof. exact db_read_snapshot. Qed.
Print Assumptions C05_db_read_is_snapshot.

(* Puts to other keys never change what a key maps to. *)
Theorem C05_db_other_keys_untouched : forall w d k,
  ~ In k (map fst w) -> db_get (db_put_all d w) k = db_get d k.
Proof. exact db_get_put_all_other. Qed.
Print Assumptions C05_db_other_keys_untouched.

(* Whatever the overlapping writers store, even under the SAME key, in every
   state and for every outcome of the call (cache hit, database hit, network,
   error): result, request, progress reports, cache, queue and headers are
   those of the undisturbed call; only the database differs,
   by exactly the writers' puts, and only if a read transaction was opened. *)
Theorem C05_write_window_only_changes_db : forall Hf fsize cap persist st c w,
  let sw := xstep Hf fsize cap persist st (XCallW c w) in
  let s0 := xstep Hf fsize cap persist st (XBase (Call c)) in
  o_res (snd sw) = o_res (snd s0) /\ o_queried (snd sw) = o_queried (snd s0) /\
  o_range (snd sw) = o_range (snd s0) /\ o_prog (snd sw) = o_prog (snd s0) /\
  o_cache (snd sw) = o_cache (snd s0) /\
  cache (base (fst sw)) = cache (base (fst s0)) /\ dbq (base (fst sw)) = dbq (base (fst s0)) /\
  hdrs (fst sw) = hdrs (fst s0) /\ xbest (fst sw) = xbest (fst s0) /\
  db (base (fst sw)) = (if read_window Hf (hdrs st) (xbest st) (base st) c
                        then db_put_all (db (base st)) w else db (base st)).
Proof. exact write_window_only_changes_db. Qed.
Print Assumptions C05_write_window_only_changes_db.

(* Non-vacuity of the new operations and of the repair (ex_Hf / ex_fh as above,
   best 5): block 2 fetched and persisted; cache reset; GetBlock(2) changes
   nothing; block 2 is read from the database while writers store blocks 3
   and 4 (and overwrite 3 again) after the read transaction: filter 101 is
   returned, the database then holds all three; block 3 from the database.
   Then the headers are rewritten (ex_fh2): block 2, still stored with filter
   101, is NOT served from the database — the unanswered query fails, the
   answered one returns the filter 201 that matches the rewritten headers; after
   the flush the database holds 201 for block 2, and a lookup after a cache
   reset returns it from there. *)
Example C05_overlap_nonvacuous :
  let st0 := {| base := {| cache := []; db := []; dbq := [] |}; hdrs := ex_fh; xbest := 5 |} in
  let call b rs := {| c_blk := b; c_known := true; c_ftype_ok := true; c_batch := 0; c_maxbatch := 0;
                      c_resps := rs; c_verdict := VOk |} in
  let ops := [ XBase (Call (call 2 [ex_r 2 101])); XBase (Flush 10); XBase DropCache; XGetBlock 2;
               XCallW (call 2 []) [(3, 102); (4, 103); (3, 102)]; XBase (Call (call 3 []));
               XRewrite 5 ex_fh2;
               XBase (Call (call 2 [])); XBase (Call (call 2 [ex_r 2 101; ex_r 2 201])); XBase (Flush 10);
               XBase DropCache; XBase (Call (call 2 [])) ] in
  map (fun o => (o_res o, o_queried o, o_cache o, o_db o)) (xrun ex_Hf (fun _ => 10) 1000 true st0 ops) =
  [ (RFilter 101, true, [(2, 101)], []);
    (RNone, false, [(2, 101)], [(2, 101)]);
    (RNone, false, [], [(2, 101)]);
    (RNone, false, [], [(2, 101)]);
    (RFilter 101, false, [], [(3, 102); (4, 103); (2, 101)]);
    (RFilter 102, false, [], [(3, 102); (4, 103); (2, 101)]);
    (RNone, false, [], [(3, 102); (4, 103); (2, 101)]);
    (RErrFetch, true, [], [(3, 102); (4, 103); (2, 101)]);
    (RFilter 201, true, [(2, 201)], [(3, 102); (4, 103); (2, 101)]);
    (RNone, false, [(2, 201)], [(2, 201); (3, 102); (4, 103)]);
    (RNone, false, [], [(2, 201); (3, 102); (4, 103)]);
    (RFilter 201, false, [], [(2, 201); (3, 102); (4, 103)]) ].
Proof. vm_compute. reflexivity. Qed.
