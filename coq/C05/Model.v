(* C05 — GetCFilter / prepareCFiltersQuery / cfiltersQuery.handleResponse
   (query.go), the filter database and the batch writer's queue: executable
   model of the code that exists.  No proofs here.

   Tokens: a block id (Z) stands for a block hash — the HEIGHT for blocks of
   the committed chain, any other number for a hash without a header; a
   filter token (Z) stands for one decoded GCS filter (its N-bytes
   serialization); a filter-header token (Z) for a 32-byte hash, 0 for the
   all-zero hash.  External functions are Section variables (oracle tables
   in the replay):
     Hf f p  : builder.MakeHeaderForFilter(filter f, previous header p)
     fh h    : committed filter header at height h (fh (-1) = 0)
     fsize f : CacheableFilter.Size (length of the N-bytes serialization)
   The header stores do not change during a history. *)
From Coq Require Import ZArith List Bool.
Import ListNotations.
Open Scope Z_scope.

(* ------------------------------------------------------------------ *)
(* cache/lru used sequentially: front = most recently used; entry =
   (block id, filter token, size) *)
Definition entry : Type := (Z * Z * Z)%type.
Definition ekey (e : entry) : Z := fst (fst e).
Definition eval (e : entry) : Z := snd (fst e).
Definition esize (e : entry) : Z := snd e.

Definition lru_size (c : list entry) : Z := fold_right (fun e a => esize e + a) 0 c.
Definition lru_find (c : list entry) (k : Z) : option entry := find (fun e => ekey e =? k) c.
Definition lru_remove (c : list entry) (k : Z) : list entry := filter (fun e => negb (ekey e =? k)) c.

Definition lru_get (c : list entry) (k : Z) : option Z * list entry :=
  match lru_find c k with
  | Some e => (Some (eval e), e :: lru_remove c k)
  | None => (None, c)
  end.

Fixpoint trim_rev (cap needed : Z) (r : list entry) : list entry :=
  match r with
  | [] => []
  | e :: r' => if cap - lru_size r <? needed then trim_rev cap needed r' else r
  end.

(* Put refuses a value larger than the capacity (error, logged, ignored) *)
Definition lru_put (cap : Z) (c : list entry) (k v sz : Z) : list entry :=
  if cap <? sz then c
  else (k, v, sz) :: rev (trim_rev cap sz (rev (lru_remove c k))).

(* ------------------------------------------------------------------ *)
(* filter database: block id -> filter token (bucket.Put overwrites) *)
Definition db_get (d : list (Z * Z)) (k : Z) : option Z :=
  match find (fun p => fst p =? k) d with Some p => Some (snd p) | None => None end.
Definition db_put (d : list (Z * Z)) (kv : Z * Z) : list (Z * Z) :=
  kv :: filter (fun p => negb (fst p =? fst kv)) d.
Definition db_put_all (d : list (Z * Z)) (l : list (Z * Z)) : list (Z * Z) := fold_left db_put l d.

(* ------------------------------------------------------------------ *)
(* prepareCFiltersQuery: the arithmetic, with the Go integer conversions *)
Definition two32 : Z := 4294967296.
Definition max_req_range : Z := 1000.     (* wire.MaxGetCFiltersReqRange *)

Definition batch_size (maxb : Z) : Z :=
  if (0 <? maxb) && (maxb <? max_req_range) then maxb else max_req_range.

Inductive prep :=
| PErr
| POk (start stop : Z) (pending : list Z).   (* pending = keys of headerIndex *)

(* start, start+1, ..., start+n-1 *)
Definition zrange (start n : Z) : list Z :=
  map (fun i => start + Z.of_nat i) (seq 0 (Z.to_nat n)).

(* height: uint32 height of the requested block; best: BestBlock().Height;
   batch: optimisticBatchType (0 none, 1 forward, 2 reverse) *)
Definition prepare (height best batch maxb : Z) : prep :=
  let bsz := batch_size maxb in
  let raw :=
    if batch =? 0 then Some (height, height)
    else if batch =? 1 then Some (height, height + bsz - 1)
    else if batch =? 2 then Some (height - bsz + 1, height)
    else None in
  match raw with
  | None => PErr                                   (* unknown batch type *)
  | Some (st0, sp0) =>
    let start := if st0 <? 1 then 1 else st0 in
    let stop := if best <? sp0 then best else sp0 in
    (* an empty range is refused (no committed filter header to verify
       against: genesis, or above the best filter header) *)
    if stop <? start then PErr else
    (* numFilters := uint32(stopHeight - startHeight + 1) *)
    let nf := (stop - start + 1) mod two32 in
    (* FetchHeaderAncestors(numFilters, stopHash) reads heights
       uint32(stop - numFilters) .. stop and the caller demands numFilters+1
       headers: this succeeds exactly when numFilters <= stop (otherwise the
       uint32 subtraction wraps and the read or the length check fails) *)
    if (0 <=? stop) && (nf <=? stop) then POk start stop (zrange start nf) else PErr
  end.

(* ------------------------------------------------------------------ *)
Record resp := {
  r_req : Z;             (* req argument: 0 = the request's MsgGetCFilters, 1 = another
                            message type, 2 = a MsgGetCFilters of another filter type *)
  r_is_cfilter : bool;   (* the response is a *wire.MsgCFilter *)
  r_type_ok : bool;      (* response.FilterType = GCSFilterRegular *)
  r_blk : Z;             (* response.BlockHash *)
  r_decode_ok : bool;    (* gcs.FromNBytes and MakeHeaderForFilter succeed *)
  r_filt : Z             (* token of the decoded filter *)
}.

Inductive progress := NoProgress | Progressed | Finished.
Inductive verdict := VOk | VErr | VQuit.

Record call := {
  c_blk : Z;             (* requested block id (= its height when known) *)
  c_known : bool;        (* BlockHeaders.FetchHeader finds it *)
  c_ftype_ok : bool;     (* filterType = wire.GCSFilterRegular *)
  c_batch : Z;
  c_maxbatch : Z;
  c_resps : list resp;
  c_verdict : verdict
}.

Inductive op :=
| Call (c : call)
| Flush (n : Z)          (* the batch writer persists the n oldest queued filters *)
| DropCache              (* a new, empty FilterCache (restart) *)
| PurgeDB.               (* FilterDB.PurgeFilters(RegularFilter) *)

Inductive result :=
| RFilter (f : Z)
| RErrFetch              (* ErrFilterFetchFailed *)
| RErrQuery              (* the dispatcher's error *)
| RErrQuit               (* ErrShuttingDown *)
| RErrOther              (* unknown filter type / prepareCFiltersQuery error *)
| RNone.                 (* not a call *)

(* what handleResponse reads and mutates *)
Record qstate := {
  pending : list Z;          (* headerIndex keys *)
  tfilter : option Z;        (* targetFilter *)
  qcache : list entry;       (* ChainService.FilterCache *)
  qdbq : list (Z * Z)        (* items handed to filterBatchWriter.AddItem, oldest first *)
}.

Record gstate := { cache : list entry; db : list (Z * Z); dbq : list (Z * Z) }.

Record obs := {
  o_res : result;
  o_queried : bool;
  o_range : Z * Z;           (* (StartHeight, height of StopHash) of the request; (0,0) if none *)
  o_prog : list progress;
  o_cache : list (Z * Z);    (* most recent first *)
  o_db : list (Z * Z)        (* database contents (meaningful after Flush / PurgeDB) *)
}.

Definition zmem (x : Z) (l : list Z) : bool := existsb (Z.eqb x) l.
Definition zremove (x : Z) (l : list Z) : list Z := filter (fun y => negb (y =? x)) l.

Section Oracles.
  Variable Hf : Z -> Z -> Z.
  Variable fh : Z -> Z.
  Variable fsize : Z -> Z.
  Variable best : Z.
  Variable cap : Z.
  Variable persist : bool.

  (* cfiltersQuery.handleResponse, branch by branch *)
  Definition handle (target : Z) (s : qstate) (r : resp) : qstate * progress :=
    if negb (r_req r =? 0) then (s, NoProgress) else
    if negb (r_is_cfilter r) then (s, NoProgress) else
    if negb (r_type_ok r) then (s, NoProgress) else
    if negb (zmem (r_blk r) (pending s)) then (s, NoProgress) else
    if negb (r_decode_ok r) then (s, NoProgress) else
    (* curHeader = filterHeaders[i], prevHeader = filterHeaders[i-1] *)
    if negb (Hf (r_filt r) (fh (r_blk r - 1)) =? fh (r_blk r)) then (s, NoProgress) else
    let s' := {| pending := zremove (r_blk r) (pending s);
                 tfilter := if r_blk r =? target then Some (r_filt r) else tfilter s;
                 qcache := lru_put cap (qcache s) (r_blk r) (r_filt r) (fsize (r_filt r));
                 qdbq := if persist then qdbq s ++ [(r_blk r, r_filt r)] else qdbq s |} in
    (s', match pending s' with [] => Finished | _ => Progressed end).

  (* all responses of a stream: final state and the Progress values *)
  Fixpoint feed (target : Z) (s : qstate) (rs : list resp) : qstate * list progress :=
    match rs with
    | [] => (s, [])
    | r :: rest =>
      let '(s1, p) := handle target s r in
      let '(s2, ps) := feed target s1 rest in (s2, p :: ps)
    end.

  Definition cache_view (c : list entry) : list (Z * Z) := map (fun e => (ekey e, eval e)) c.

  Definition mk_obs (st : gstate) (r : result) (q : bool) (rg : Z * Z) (pg : list progress) : obs :=
    {| o_res := r; o_queried := q; o_range := rg; o_prog := pg;
       o_cache := cache_view (cache st); o_db := db st |}.

  (* ChainService.matchesCommittedHeader (the repair of F-C05-2): a filter held
     locally is handed out only if the block has a committed filter header
     (known hash, 0 <= height <= best: FetchHeader / FetchHeaderAncestors(1, .)
     succeed) and the filter hashes, with the previous committed header, to
     it — the check a filter from a peer has to pass *)
  Definition local_ok (c : call) (f : Z) : bool :=
    c_known c && (0 <=? c_blk c) && (c_blk c <=? best) && (Hf f (fh (c_blk c - 1)) =? fh (c_blk c)).

  Definition good (c : call) (o : option Z) : option Z :=
    match o with Some f => if local_ok c f then Some f else None | None => None end.

  Definition get_cfilter (st : gstate) (c : call) : gstate * obs :=
    if negb (c_ftype_ok c) then (st, mk_obs st RErrOther false (0, 0) []) else
    (* FilterCache.Get moves a hit to the front, whether it is served or not *)
    let st1 := {| cache := snd (lru_get (cache st) (c_blk c)); db := db st; dbq := dbq st |} in
    match good c (fst (lru_get (cache st) (c_blk c))) with
    | Some f => (st1, mk_obs st1 (RFilter f) false (0, 0) [])
    | None =>
      match good c (db_get (db st) (c_blk c)) with
      | Some f => (st1, mk_obs st1 (RFilter f) false (0, 0) [])
      | None =>
        (* mutex taken; the second cache lookup finds what the first one found
           (the entry, if any, is at the front already) and rejects it again *)
        if negb (c_known c) then (st1, mk_obs st1 RErrOther false (0, 0) []) else
        match prepare (c_blk c) best (c_batch c) (c_maxbatch c) with
        | PErr => (st1, mk_obs st1 RErrOther false (0, 0) [])
        | POk start stop pend =>
          let '(q, pg) := feed (c_blk c)
                            {| pending := pend; tfilter := None;
                               qcache := cache st1; qdbq := dbq st |} (c_resps c) in
          let st2 := {| cache := qcache q; db := db st; dbq := qdbq q |} in
          let res :=
            match c_verdict c with
            | VErr => RErrQuery
            | VQuit => RErrQuit
            | VOk => match tfilter q with Some f => RFilter f | None => RErrFetch end
            end in
          (st2, mk_obs st2 res true (start, stop) pg)
        end
      end
    end.

  (* RECORD of the code before the repair (finding F-C05-2): cache and
     database hits were handed out unchecked.  Used by the refutation
     C05_unrepaired_stale_entry_refuted only. *)
  Definition get_cfilter_unrepaired (st : gstate) (c : call) : gstate * obs :=
    if negb (c_ftype_ok c) then (st, mk_obs st RErrOther false (0, 0) []) else
    match lru_get (cache st) (c_blk c) with
    | (Some f, c') =>
      let st' := {| cache := c'; db := db st; dbq := dbq st |} in
      (st', mk_obs st' (RFilter f) false (0, 0) [])
    | (None, _) =>
      match db_get (db st) (c_blk c) with
      | Some f => (st, mk_obs st (RFilter f) false (0, 0) [])
      | None => get_cfilter st c
      end
    end.

  Definition flush_count (n : Z) (l : list (Z * Z)) : nat :=
    if n <? 0 then O
    else if Z.of_nat (length l) <? n then length l else Z.to_nat n.

  Definition step (st : gstate) (o : op) : gstate * obs :=
    match o with
    | Call c => get_cfilter st c
    | Flush n =>
      let k := flush_count n (dbq st) in
      let st' := {| cache := cache st; db := db_put_all (db st) (firstn k (dbq st));
                    dbq := skipn k (dbq st) |} in
      (st', mk_obs st' RNone false (0, 0) [])
    | DropCache =>
      let st' := {| cache := []; db := db st; dbq := dbq st |} in
      (st', mk_obs st' RNone false (0, 0) [])
    | PurgeDB =>
      let st' := {| cache := cache st; db := []; dbq := dbq st |} in
      (st', mk_obs st' RNone false (0, 0) [])
    end.

  Fixpoint run (st : gstate) (ops : list op) : list obs :=
    match ops with
    | [] => []
    | o :: rest => let '(st', ob) := step st o in ob :: run st' rest
    end.

  Definition final (st : gstate) (ops : list op) : gstate :=
    fold_left (fun s o => fst (step s o)) ops st.
End Oracles.

(* ------------------------------------------------------------------ *)
(* Histories in which the committed filter headers are REWRITTEN (filter
   header store rolled back and re-written: a reorganisation, or the block
   manager replacing headers).  The headers and the best height become
   state.  GetCFilter takes its snapshot of the headers (prepareCFiltersQuery)
   after it acquired the single-flight mutex, immediately before its own
   request: a call queued behind another one therefore behaves exactly like
   the sequential history  Call A; Rewrite; Call B.

   Nothing invalidates FilterCache / FilterDB entries when filter headers are
   rewritten: entries verified against the old headers stay.  Since the repair
   of F-C05-2 they are no longer handed out (local_ok), and the verified
   answer of the network query that follows overwrites them. *)
Section Rewrites.
  Variable Hf : Z -> Z -> Z.
  Variable fsize : Z -> Z.
  Variable cap : Z.
  Variable persist : bool.

  Record xstate := { base : gstate; hdrs : Z -> Z; xbest : Z }.

  Inductive xop :=
  | XBase (o : op)
  | XRewrite (nb : Z) (nf : Z -> Z)     (* new best height, new committed headers *)
  | XGetBlock (b : Z)                   (* ChainService.GetBlock(b) answered from the network *)
  | XCallW (c : call) (w : list (Z * Z)).
    (* GetCFilter whose database lookup is overlapped by other writers: after
       the read transaction of FilterDB.FetchFilter has ended, and before the
       call goes on, the puts w (any keys, any filters; oldest first, any
       number of commits) are committed to the filter database *)

  Definition entries (g : gstate) : list (Z * Z) := cache_view (cache g) ++ db g ++ dbq g.
  Definition entry_ok (fh : Z -> Z) (p : Z * Z) : bool := Hf (snd p) (fh (fst p - 1)) =? fh (fst p).
  Definition entries_ok (fh : Z -> Z) (g : gstate) : bool := forallb (entry_ok fh) (entries g).

  (* GetCFilter opens the database read transaction iff the filter type is
     accepted and the cache lookup does not produce a filter that is served *)
  Definition read_window (fh : Z -> Z) (best : Z) (g : gstate) (c : call) : bool :=
    c_ftype_ok c &&
    match good Hf fh best c (fst (lru_get (cache g) (c_blk c))) with Some _ => false | None => true end.

  (* FilterDB.FetchFilter overlapped by writers, in two phases: the read
     transaction looks the key up in the database as it is THEN (snapshot);
     what is decoded, checked and returned afterwards is that value, whatever
     the writers w commit in between *)
  Definition db_fetch (d : list (Z * Z)) (k : Z) (w : list (Z * Z)) : option Z * list (Z * Z) :=
    (db_get d k, db_put_all d w).

  Definition xstep (st : xstate) (o : xop) : xstate * obs :=
    match o with
    | XBase o' =>
      let '(g, ob) := step Hf (hdrs st) fsize (xbest st) cap persist (base st) o' in
      ({| base := g; hdrs := hdrs st; xbest := xbest st |}, ob)
    | XRewrite nb nf =>
      ({| base := base st; hdrs := nf; xbest := nb |}, mk_obs (base st) RNone false (0, 0) [])
    | XGetBlock _ =>
      (* GetBlock touches the block cache only: filter cache, filter database
         and writer queue are what they were *)
      (st, mk_obs (base st) RNone false (0, 0) [])
    | XCallW c w =>
      (* the lookup (and everything after it) sees the database of the state
         the call started in: get_cfilter never writes the database itself, so
         committing w after the call is the same as committing it right after
         the read transaction (Proofs.callw_two_phase) *)
      let '(g, ob) := step Hf (hdrs st) fsize (xbest st) cap persist (base st) (Call c) in
      if read_window (hdrs st) (xbest st) (base st) c then
        let g' := {| cache := cache g; db := db_put_all (db g) w; dbq := dbq g |} in
        ({| base := g'; hdrs := hdrs st; xbest := xbest st |},
         {| o_res := o_res ob; o_queried := o_queried ob; o_range := o_range ob; o_prog := o_prog ob;
            o_cache := o_cache ob; o_db := db g' |})
      else
        ({| base := g; hdrs := hdrs st; xbest := xbest st |}, ob)
    end.

  Fixpoint xrun (st : xstate) (ops : list xop) : list obs :=
    match ops with
    | [] => []
    | o :: rest => let '(st', ob) := xstep st o in ob :: xrun st' rest
    end.

  Definition xfinal (st : xstate) (ops : list xop) : xstate :=
    fold_left (fun s o => fst (xstep s o)) ops st.
End Rewrites.
