(* C05 — replay of implementation traces against the model and the monitor.
   A case = (best height, cache capacity, persistToDisk,
             committed filter header tokens for heights 0.., 
             MakeHeaderForFilter table ((filter, prev header) -> header),
             filter size table, initial database contents,
             list of (operation, observation made on the real code)).
   Operations: GetCFilter calls, flush barriers, cache resets, purges, header
   rewrites (XR), GetBlock calls (XG: cache and database observed afterwards)
   and GetCFilter calls whose database read transaction is followed by write
   commits of other writers (CW_: the puts in order; the database is observed
   at the flush barrier that follows). *)
From Coq Require Import ZArith List Bool.
From Verif Require Import C05.Model C05.Spec.
Import ListNotations.
Open Scope Z_scope.

Definition t_fh (fhs : list Z) (h : Z) : Z :=
  if h =? -1 then 0
  else if (h <? 0) || (Z.of_nat (length fhs) <=? h) then - (h + 5) - 1000000
  else nth (Z.to_nat h) fhs (-3).

Definition t_Hf (t : list ((Z * Z) * Z)) (f p : Z) : Z :=
  match find (fun r => (fst (fst r) =? f) && (snd (fst r) =? p)) t with
  | Some r => snd r
  | None => -1
  end.

Definition t_size (t : list (Z * Z)) (f : Z) : Z :=
  match find (fun r => fst r =? f) t with Some r => snd r | None => 0 end.

Definition result_eqb (a b : result) : bool :=
  match a, b with
  | RFilter x, RFilter y => x =? y
  | RErrFetch, RErrFetch | RErrQuery, RErrQuery | RErrQuit, RErrQuit
  | RErrOther, RErrOther | RNone, RNone => true
  | _, _ => false
  end.

Definition progress_eqb (a b : progress) : bool :=
  match a, b with
  | NoProgress, NoProgress | Progressed, Progressed | Finished, Finished => true
  | _, _ => false
  end.

Fixpoint list_eqb {A} (eqb : A -> A -> bool) (a b : list A) : bool :=
  match a, b with
  | [], [] => true
  | x :: a', y :: b' => eqb x y && list_eqb eqb a' b'
  | _, _ => false
  end.

(* databases are compared as finite maps *)
Definition db_sub (a b : list (Z * Z)) : bool :=
  forallb (fun p => match db_get b (fst p) with Some v => v =? snd p | None => false end) a.
Definition db_eqb (a b : list (Z * Z)) : bool := db_sub a b && db_sub b a.

(* the database is observed (after the batch writer went idle) on Flush /
   PurgeDB operations only; the request range only when a request went out *)
Definition obs_eqb (o : op) (m i : obs) : bool :=
  result_eqb (o_res m) (o_res i) && Bool.eqb (o_queried m) (o_queried i) &&
  (if o_queried m then pair_eqb (o_range m) (o_range i) else true) &&
  list_eqb progress_eqb (o_prog m) (o_prog i) &&
  list_eqb pair_eqb (o_cache m) (o_cache i) &&
  match o with Flush _ | PurgeDB => db_eqb (o_db m) (o_db i) | _ => true end.

Definition case : Type :=
  (Z * Z * bool * list Z * list ((Z * Z) * Z) * list (Z * Z) * list (Z * Z) * list (xop * obs))%type.

Definition xobs_eqb (o : xop) (m i : obs) : bool :=
  match o with
  | XBase o' => obs_eqb o' m i
  | XRewrite _ _ | XGetBlock _ => list_eqb pair_eqb (o_cache m) (o_cache i) && db_eqb (o_db m) (o_db i)
  | XCallW c _ => obs_eqb (Call c) m i
  end.

Fixpoint first_mismatch (Hf : Z -> Z -> Z) (fsize : Z -> Z) (cap : Z) (persist : bool)
    (st : xstate) (i : Z) (tr : list (xop * obs)) : option Z :=
  match tr with
  | [] => None
  | (o, ob) :: rest =>
    let '(st', mo) := xstep Hf fsize cap persist st o in
    if xobs_eqb o mo ob then first_mismatch Hf fsize cap persist st' (i + 1) rest else Some i
  end.

(* rows (case id, kind, step, tag): kind 1 = model and implementation differ
   at step; kind 2 = the monitor rejects the implementation trace at step
   (tag 0: there is no open finding; F-C05-2 is repaired and its history is an
   ordinary case) *)
Definition verdict_of (c : Z * case) : list (Z * Z * Z * Z) :=
  let '(id, (best, cap, persist, fhs, hft, szt, d0, tr)) := c in
  let Hf := t_Hf hft in let fh := t_fh fhs in
  let st0 := {| base := {| cache := []; db := d0; dbq := [] |}; hdrs := fh; xbest := best |} in
  (match first_mismatch Hf (t_size szt) cap persist st0 0 tr with
   | Some i => [(id, 1, i, 0)] | None => [] end) ++
  (if all_verified Hf fh d0
   then match xfirst_bad Hf fh best 0 [] d0 [] tr with Some i => [(id, 2, i, 0)] | None => [] end
   else [(id, 2, -1, 0)]).

Definition run_cases (cs : list (Z * case)) : list (Z * Z * Z * Z) := flat_map verdict_of cs.

(* constructors used by the generated files *)
Definition R_ (req : Z) (cf ty : bool) (blk : Z) (dec : bool) (f : Z) : resp :=
  {| r_req := req; r_is_cfilter := cf; r_type_ok := ty; r_blk := blk; r_decode_ok := dec; r_filt := f |}.
Definition C_ (blk : Z) (known ft : bool) (batch maxb : Z) (rs : list resp) (v : verdict) : xop :=
  XBase (Call {| c_blk := blk; c_known := known; c_ftype_ok := ft; c_batch := batch; c_maxbatch := maxb;
          c_resps := rs; c_verdict := v |}).
Definition XF (n : Z) : xop := XBase (Flush n).
Definition XD : xop := XBase DropCache.
Definition XP : xop := XBase PurgeDB.
Definition XR (nb : Z) (fhs : list Z) : xop := XRewrite nb (t_fh fhs).
Definition XG (b : Z) : xop := XGetBlock b.
Definition CW_ (blk : Z) (known ft : bool) (batch maxb : Z) (rs : list resp) (v : verdict)
    (w : list (Z * Z)) : xop :=
  XCallW {| c_blk := blk; c_known := known; c_ftype_ok := ft; c_batch := batch; c_maxbatch := maxb;
            c_resps := rs; c_verdict := v |} w.
Definition O_ (r : result) (q : bool) (rg : Z * Z) (pg : list progress)
    (cache db : list (Z * Z)) : obs :=
  {| o_res := r; o_queried := q; o_range := rg; o_prog := pg; o_cache := cache; o_db := db |}.
Definition np := NoProgress.
Definition pr := Progressed.
Definition fin := Finished.
