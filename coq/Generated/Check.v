(* Ties between the constants the models fix and the constants of the code
   as regenerated into Generated/Consts.v on every run.  If /repo changes one
   of them, this file stops compiling and every property listing it reports
   the broken obligation. *)
From Coq Require Import ZArith Lia.
From Verif Require Import Generated.Consts.
From Verif Require S1.Model S2.Model C12.Model.
Open Scope Z_scope.

(* the hypothesis of C01/C02 "a headers message is shorter than the in-memory
   window" is met by every message the wire protocol allows *)
Theorem Consts_headers_msg_fits_window :
  wire_MaxBlockHeadersPerMsg < neutrino_numMaxMemHeaders.
Proof. vm_compute. reflexivity. Qed.

(* entry sizes of the two flat files in the store model *)
Theorem Consts_store_entry_sizes :
  S1.Model.BSZ = headerfs_BlockHeaderSize /\ S1.Model.FSZ = headerfs_RegularFilterHeaderSize.
Proof. split; reflexivity. Qed.

(* block locators never exceed the protocol limit the model uses as fuel *)
Theorem Consts_locator_limit : wire_MaxBlockLocatorsPerMsg = 500.
Proof. reflexivity. Qed.

(* ranking scores and per-job timeout schedule of the query dispatcher model *)
Theorem Consts_query_ranking :
  C12.Model.bestScore = query_bestScore /\ C12.Model.defaultScore = query_defaultScore /\
  C12.Model.worstScore = query_worstScore /\
  C12.Model.minQueryTimeout = query_minQueryTimeout_s /\ C12.Model.maxQueryTimeout = query_maxQueryTimeout_s.
Proof. repeat split; reflexivity. Qed.

(* ban reasons are serialised as these bytes *)
Theorem Consts_ban_reasons :
  banman_ExceededBanThreshold = 1 /\ banman_NoCompactFilters = 2 /\ banman_InvalidFilterHeader = 3 /\
  banman_InvalidFilterHeaderCheckpoint = 4 /\ banman_InvalidBlock = 5.
Proof. repeat split; reflexivity. Qed.

(* filter checkpoint geometry used by the C03 model *)
Theorem Consts_cf_intervals :
  wire_CFCheckptInterval = 1000 /\ wire_MaxCFHeadersPerMsg = 2000 /\ neutrino_maxCFCheckptsPerQuery = 2.
Proof. repeat split; reflexivity. Qed.

(* The client's sync logic has no stall detection of its own for the header
   sync peer (see C04, finding F-C04-2): the only thing that ever replaces a
   sync peer that does not answer getheaders is btcd's stall handler, which
   the peer configuration must therefore leave enabled.  Transaction relay
   stays off and the protocol version is the addrv2 one (the netsim nodes and
   the models of the handshake assume it). *)
Theorem Consts_peer_config :
  neutrino_peercfg_DisableStallHandler = 0 /\ neutrino_peercfg_DisableRelayTx = 1 /\
  neutrino_peercfg_ProtocolVersion = 70016.
Proof. repeat split; reflexivity. Qed.
