(* C02 — replay: model vs implementation (kind 1) and the C02 monitor on the
   implementation's chain snapshots (kind 2). *)
From stdpp Require Import list.
From Coq Require Import ZArith.
From Verif Require Import S2.Model S2.Replay C01.Spec C01.Replay C02.Spec.
Open Scope Z_scope.

Definition chain_hdrs (tbl : list header) (c : list Z) : option (list header) :=
  let l := map (find_hdr tbl) c in
  if forallb (fun o => match o with Some _ => true | None => false end) l then Some (omap id l) else None.

Definition hashes_eqb (a b : list header) : bool := list_eqb Z.eqb (map hid a) (map hid b).

Fixpoint first_bad (P : params) (tbl : list header) (prev : list Z) (i : Z) (tr : list (op * obs)) : option Z :=
  match tr with
  | [] => None
  | (o, ob) :: rest =>
    let tbl := op_headers o ++ tbl in
    let ok :=
      match chain_hdrs tbl prev, chain_hdrs tbl (o_chain ob) with
      | Some before, Some after =>
        match o with
        | OHeaders _ now msg =>
          legal (classify P before after msg) &&
          match must_adopt P now before msg with
          | Some expect => hashes_eqb after expect
          | None => true
          end
        | _ => hashes_eqb before after     (* nothing but a headers message changes the chain *)
        end
      | _, _ => false
      end in
    if ok then first_bad P tbl (o_chain ob) (i + 1) rest else Some i
  end.

Definition monitor_row (c : bcase) : list (Z * Z * Z * Z) :=
  let P := bparams c in
  match first_bad P [genesis P] [hid (genesis P)] 0 (btrace c) with
  | Some i => [(bid c, 2, i, 0)]
  | None => []
  end.

Definition verdict (c : bcase) : list (Z * Z * Z * Z) :=
  mismatch_row c ++ trap_row c ++ monitor_row c.

Definition run_cases (cs : list bcase) : list (Z * Z * Z * Z) := flat_map verdict cs.
