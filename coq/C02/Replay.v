(* C02 — replay: model vs implementation (kind 1) and the C02 monitor on the
   implementation's chain snapshots (kind 2). *)
From stdpp Require Import list.
From Coq Require Import ZArith.
From Verif Require Import S2.Model S2.Replay C01.Spec C01.Replay C02.Spec C02.SpecH C02.Truncated.
Open Scope Z_scope.

Definition chain_hdrs (tbl : list header) (c : list Z) : option (list header) :=
  let l := map (find_hdr tbl) c in
  if forallb (fun o => match o with Some _ => true | None => false end) l then Some (omap id l) else None.

Definition hashes_eqb (a b : list header) : bool := list_eqb Z.eqb (map hid a) (map hid b).

(* the peers as the handler's peer condition sees them: announced height from
   the observation, starting height from the ONewPeer operation that brought
   the peer in (a restart forgets them) *)
Definition obs_peers (ps : list (Z * Z * bool)) (starts : list (Z * Z)) : list peer :=
  map (fun q => {| pid := q.1.1; lastBlock := q.1.2;
                   startH := match list_find (fun e => e.1 = q.1.1) starts with Some (_, e) => e.2 | None => 0 end;
                   disc := q.2; fullnode := true |}) ps.
Definition upd_starts (o : op) (starts : list (Z * Z)) : list (Z * Z) :=
  match o with
  | ONewPeer p st _ _ => (p, st) :: filter (fun e => e.1 <> p) starts
  | ORestart => []
  | _ => starts
  end.

(* result: (step, tag); tag 27 = the change is illegal only as the known
   finding F27 describes (reorg truncated at the next checkpoint).
   A message is judged on the implementation's own chain before it:
   - the change must be legal (classify), and if accepted headers were
     replaced, the branch OFFERED by the message must be valid and match
     every checkpoint (reorg_conditions_b, C02_monitor_reorg_conditions);
   - a fully valid batch extending the tip must be adopted (must_adopt);
   - a fully valid, strictly heavier branch forking at or above the newest
     reached checkpoint from a peer the handler listens to must be adopted
     (must_adopt_reorg, sound by C02_monitor_reorg_sound), whenever the
     message is shorter than the in-memory window (hypothesis wf_hist).
   Messages handled under a store write fault are C01's and C19's subject. *)
Fixpoint first_bad (P : params) (tbl : list header) (prev : list Z)
         (psync : option Z) (ppeers : list (Z * Z * bool)) (starts : list (Z * Z))
         (i : Z) (tr : list (op * obs)) : option (Z * Z) :=
  match tr with
  | [] => None
  | (o, ob) :: rest =>
    let tbl := op_headers o ++ tbl in
    let verdict :=
      match chain_hdrs tbl prev, chain_hdrs tbl (o_chain ob) with
      | Some before, Some after =>
        match o with
        | OHeaders p now msg =>
          let adopt_ok := match must_adopt P now before msg with
                          | Some expect => hashes_eqb after expect
                          | None => true
                          end in
          let listened := listened_to P now (obs_state before psync (obs_peers ppeers starts)) p in
          let reorg_ok := if zlen msg <? memCap P then
                            match must_adopt_reorg P now before msg listened with
                            | Some expect => hashes_eqb after expect
                            | None => true
                            end
                          else true in
          if negb (adopt_ok && reorg_ok && reorg_conditions_b P now before after msg) then 1
          else if legal (classify P before after msg) then 0
          else if reorg_truncated_atb P now before after msg then 27 else 1
        | OHeadersF _ _ _ _ | OHeadersR _ _ _ _ => 0
        | _ => if hashes_eqb before after then 0 else 1    (* nothing but a headers message changes the chain *)
        end
      | _, _ => 1
      end in
    let starts' := upd_starts o starts in
    let next := first_bad P tbl (o_chain ob) (o_sync ob) (o_peers ob) starts' (i + 1) rest in
    if verdict =? 0 then next
    else if verdict =? 27 then
      (* report the known finding, but keep judging the rest of the trace *)
      match next with
      | Some (j, 27) => Some (i, 27)
      | Some r => Some r
      | None => Some (i, 27)
      end
    else Some (i, 0)
  end.

Definition monitor_row (c : bcase) : list (Z * Z * Z * Z) :=
  let P := bparams c in
  match first_bad P [genesis P] [hid (genesis P)] None [] [] 0 (btrace c) with
  | Some (i, t) => [(bid c, 2, i, t)]
  | None => []
  end.

Definition verdict (c : bcase) : list (Z * Z * Z * Z) :=
  mismatch_row c ++ trap_row c ++ monitor_row c.

Definition run_cases (cs : list bcase) : list (Z * Z * Z * Z) := flat_map verdict cs.
