(* C02 — replay: model vs implementation (kind 1) and the C02 monitor on the
   implementation's chain snapshots (kind 2). *)
From stdpp Require Import list.
From Coq Require Import ZArith.
From Verif Require Import S2.Model S2.Replay C01.Spec C01.Replay C02.Spec C02.Truncated.
Open Scope Z_scope.

Definition chain_hdrs (tbl : list header) (c : list Z) : option (list header) :=
  let l := map (find_hdr tbl) c in
  if forallb (fun o => match o with Some _ => true | None => false end) l then Some (omap id l) else None.

Definition hashes_eqb (a b : list header) : bool := list_eqb Z.eqb (map hid a) (map hid b).

(* result: (step, tag); tag 27 = the change is illegal only as the known
   finding F27 describes (reorg truncated at the next checkpoint) *)
Fixpoint first_bad (P : params) (tbl : list header) (prev : list Z) (i : Z) (tr : list (op * obs)) : option (Z * Z) :=
  match tr with
  | [] => None
  | (o, ob) :: rest =>
    let tbl := op_headers o ++ tbl in
    let verdict :=
      match chain_hdrs tbl prev, chain_hdrs tbl (o_chain ob) with
      | Some before, Some after =>
        match o with
        | OHeaders _ now msg =>
          let adopt_ok := match must_adopt P now before msg with
                          | Some expect => hashes_eqb after expect
                          | None => true
                          end in
          if legal (classify P before after msg) then (if adopt_ok then 0 else 1)
          else if reorg_truncated_atb P now before after msg then 27 else 1
        | _ => if hashes_eqb before after then 0 else 1    (* nothing but a headers message changes the chain *)
        end
      | _, _ => 1
      end in
    if verdict =? 0 then first_bad P tbl (o_chain ob) (i + 1) rest
    else if verdict =? 27 then
      (* report the known finding, but keep judging the rest of the trace *)
      match first_bad P tbl (o_chain ob) (i + 1) rest with
      | Some (j, 27) => Some (i, 27)
      | Some r => Some r
      | None => Some (i, 27)
      end
    else Some (i, 0)
  end.

Definition monitor_row (c : bcase) : list (Z * Z * Z * Z) :=
  let P := bparams c in
  match first_bad P [genesis P] [hid (genesis P)] 0 (btrace c) with
  | Some (i, t) => [(bid c, 2, i, t)]
  | None => []
  end.

Definition verdict (c : bcase) : list (Z * Z * Z * Z) :=
  mismatch_row c ++ trap_row c ++ monitor_row c.

Definition run_cases (cs : list bcase) : list (Z * Z * Z * Z) := flat_map verdict cs.
