(* C02 — vocabulary for the positive reorganisation half of the property:
   "a fully valid batch that ... forms such a heavier branch and comes from a
   peer the client is willing to listen to, is adopted in full".
   Plain lists, plus the one condition on the sending peer, which is read off
   the handler (S2.Model.step_header, non-connecting branch). *)
From stdpp Require Import list.
From Coq Require Import ZArith Lia.
From Verif Require Import S2.Model C01.Spec C02.Spec.
Open Scope Z_scope.

(* [msg] forks off the stored chain [before] at height [f]: its first header
   names the stored header at height [f] as its predecessor, a header is
   stored at height [f + 1] (so [f] is strictly below the tip), and the
   message's first header is not that stored header.  (A message that repeats
   stored headers is not a fork: the handler skips headers it already has.) *)
Definition forks_at (before msg : list header) (f : Z) : bool :=
  match msg, at_h before f, at_h before (f + 1) with
  | m :: _, Some b, Some d => (hprev m =? hid b) && negb (hid m =? hid d)
  | _, _, _ => false
  end.

(* The peer / state condition under which handleHeadersMsg looks at a header
   that does not connect to the newest in-memory header at all.  In the model:
     if negb (is_sync s p) && negb (headers_synced P now s) then Return s
   in the code (blockmanager.go, handleHeadersMsg, else-branch of
   prevHash.IsEqual(&blockHeader.PrevBlock)):
     if hmsg.peer != b.SyncPeer() && !b.BlockHeadersSynced() { return }
   i.e. the sender is the current sync peer, or the client considers its
   header chain current (BlockHeadersSynced: tip not older than 24 h by the
   message clock, past the last checkpoint, not behind the sync peer's
   announced height, sync peer's announced height not below its start
   height — S2.Model.headers_synced). *)
Definition listened_to (P : params) (now : Z) (s : state) (p : Z) : bool :=
  is_sync s p || headers_synced P now s.

(* no header of a branch whose last header would sit at height [top] lies at
   or above the next checkpoint the chain [before] has not reached yet *)
Definition below_next_checkpoint (P : params) (before : list header) (top : Z) : bool :=
  forallb (fun cp => (cp.1 <=? zlen before - 1) || (top <? cp.1)) (checkpoints P).

(* the notifications of a rollback to height [f]: one per removed header,
   highest first: (hash, height, hash of the header below it) *)
Definition hid_at (c : list header) (h : Z) : Z :=
  match at_h c h with Some x => hid x | None => 0 end.
Fixpoint discs_down (c : list header) (top : Z) (n : nat) : list ev :=
  match n with
  | O => []
  | S k => EDisc (hid_at c top) top (hid_at c (top - 1)) :: discs_down c (top - 1) k
  end.
Definition disconnects (before : list header) (f : Z) : list ev :=
  discs_down before (zlen before - 1) (zn (zlen before - 1 - f)).

(* ---------- the positive reorganisation half as a test on plain lists ----------
   (for the trace monitor, C02/Replay.v).  [listened] is the value of
   [listened_to] in the state before the message.  The fork height is where
   the predecessor of the first header is stored.  Some e: the hypotheses of
   C02_heavier_branch_adopted (branch ends below the next checkpoint) or of
   C02_heavier_branch_adopted_to_checkpoint (branch matches the checkpoints)
   hold, and e is the chain the theorem demands afterwards.
   C02_monitor_reorg_sound: the test demands nothing else. *)
Definition fork_height (before msg : list header) : option Z :=
  match msg with
  | m :: _ => match fetch_header before (hprev m) with Some (_, h) => Some h | None => None end
  | [] => None
  end.

Definition must_adopt_reorg (P : params) (now : Z) (before msg : list header) (listened : bool)
  : option (list header) :=
  match fork_height before msg with
  | None => None
  | Some f =>
    let pre := take (zn (f + 1)) before in
    if forks_at before msg f
       && (length (valid_run P now pre msg) =? length msg)%nat
       && (reached_cp P before <=? f)
       && (work_of msg >? work_of (drop (zn (f + 1)) before))
       && listened
    then
      if below_next_checkpoint P before (f + zlen msg) then Some (pre ++ msg)
      else if checkpoints_ok P (pre ++ msg) then Some (pre ++ upto_checkpoint P f msg)
      else None
    else None
  end.

(* what the handler's peer condition looks at: the stored chain, who the sync
   peer is, and the announced / starting heights of the peers *)
Definition obs_state (before : list header) (sync : option Z) (ps : list peer) : state :=
  {| chain := before; fchain := []; hl := []; syncPeer := sync; cands := []; nextCp := None;
     peers := ps; ftipVar := 0; events := []; trap := false |}.
