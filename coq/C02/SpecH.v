(* C02 — vocabulary for the positive reorganisation half of the property:
   "a fully valid batch that ... forms such a heavier branch and comes from a
   peer the client is willing to listen to, is adopted in full".
   Plain lists, plus the one condition on the sending peer, which is read off
   the handler (S2.Model.step_header, non-connecting branch). *)
From stdpp Require Import list.
From Coq Require Import ZArith Lia.
From Verif Require Import S2.Model C01.Spec C02.Spec.
Open Scope Z_scope.

(* [msg] forks off the stored chain [before] at height [f]: its first header
   names the stored header at height [f] as its predecessor, a header is
   stored at height [f + 1] (so [f] is strictly below the tip), and the
   message's first header is not that stored header.  (A message that repeats
   stored headers is not a fork: the handler skips headers it already has.) *)
Definition forks_at (before msg : list header) (f : Z) : bool :=
  match msg, at_h before f, at_h before (f + 1) with
  | m :: _, Some b, Some d => (hprev m =? hid b) && negb (hid m =? hid d)
  | _, _, _ => false
  end.

(* The peer / state condition under which handleHeadersMsg looks at a header
   that does not connect to the newest in-memory header at all.  In the model:
     if negb (is_sync s p) && negb (headers_synced P now s) then Return s
   in the code (blockmanager.go, handleHeadersMsg, else-branch of
   prevHash.IsEqual(&blockHeader.PrevBlock)):
     if hmsg.peer != b.SyncPeer() && !b.BlockHeadersSynced() { return }
   i.e. the sender is the current sync peer, or the client considers its
   header chain current (BlockHeadersSynced: tip not older than 24 h by the
   message clock, past the last checkpoint, not behind the sync peer's
   announced height, sync peer's announced height not below its start
   height — S2.Model.headers_synced). *)
Definition listened_to (P : params) (now : Z) (s : state) (p : Z) : bool :=
  is_sync s p || headers_synced P now s.

(* no header of a branch whose last header would sit at height [top] lies at
   or above the next checkpoint the chain [before] has not reached yet *)
Definition below_next_checkpoint (P : params) (before : list header) (top : Z) : bool :=
  forallb (fun cp => (cp.1 <=? zlen before - 1) || (top <? cp.1)) (checkpoints P).

(* the notifications of a rollback to height [f]: one per removed header,
   highest first: (hash, height, hash of the header below it) *)
Definition hid_at (c : list header) (h : Z) : Z :=
  match at_h c h with Some x => hid x | None => 0 end.
Fixpoint discs_down (c : list header) (top : Z) (n : nat) : list ev :=
  match n with
  | O => []
  | S k => EDisc (hid_at c top) top (hid_at c (top - 1)) :: discs_down c (top - 1) k
  end.
Definition disconnects (before : list header) (f : Z) : list ev :=
  discs_down before (zlen before - 1) (zn (zlen before - 1 - f)).
