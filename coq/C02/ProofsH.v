(* C02 — proofs for the positive reorganisation half: a fully valid, strictly
   heavier branch forking at or above the newest reached checkpoint, sent by a
   peer the handler listens to, IS adopted (C02/SpecH.v for the vocabulary).

   Structure: completeness of reorg_check (the converse of
   S2.Basics.reorg_check_spec), the first branch header is new to the store,
   the notifications of rollBackToHeight, the side effects (filter chain,
   notifications, sync peer) of the connect phase, then the handler. *)
From stdpp Require Import list list_numbers.
From Coq Require Import ZArith Lia ZifyBool.
From Verif Require Import S2.Model C01.Spec C02.Spec C02.SpecH C02.Truncated S2.Basics S2.Invariant S2.Faults C01.Proofs C02.Proofs.
Open Scope Z_scope.

(* ---------- reorg_check accepts every fully valid branch ---------- *)
Lemma wsum_cons x hs : wsum (x :: hs) = calcWork (hbits x) + wsum hs.
Proof. reflexivity. Qed.

Lemma reorg_check_complete P now c : 0 < bpr P -> forall hs rl pre prevhdr work,
  WM rl pre -> last pre = Some prevhdr ->
  (forall k, k < zlen pre - zlen rl -> at_h c k = at_h pre k) ->
  zlen rl + zlen hs <= memCap P -> zlen pre + zlen hs <= LIMIT ->
  all_valid P now pre hs ->
  reorg_check P now c rl (zlen pre - 1) prevhdr hs work = Some (work + wsum hs).
Proof.
  intros Hb. induction hs as [|x hs IH]; intros rl pre prevhdr work HW Hl Hc Hroom HL Hav;
    cbn [reorg_check all_valid] in *.
  - f_equal. cbn. lia.
  - rewrite zlen_cons in Hroom, HL. pose proof (zlen_nonneg hs) as Hnn.
    destruct Hav as (Hv & Hcp & Hav).
    rewrite (valid_next_unfold P _ _ _ _ Hl) in Hv. apply andb_true_iff in Hv as [Hp Hs].
    assert (Hs' : is_ok (check_sanity P (view rl c) now x (zlen pre - 1) prevhdr) = true).
    { rewrite <- Hs. f_equal. apply check_sanity_ext; [done|]. intros k Hk.
      apply view_agree_lt; [done|done|lia|lia]. }
    rewrite Hs'. replace (zlen pre - 1 + 1) with (zlen pre) by lia.
    assert (Hm : cp_matches P (zlen pre) x = true) by (by apply cp_matches_iff).
    rewrite Hm. cbn [andb].
    pose proof (WM_len _ _ HW) as Hwl.
    pose proof (IH (win_push (memCap P) rl {| nheight := zlen pre; nhdr := x |}) (pre ++ [x]) x
                   (work + calcWork (hbits x))) as IH'.
    rewrite zlen_snoc in IH'. replace (zlen pre + 1 - 1) with (zlen pre) in IH' by lia.
    rewrite IH'.
    + f_equal. rewrite wsum_cons. lia.
    + apply WM_push; [done|lia].
    + by rewrite last_snoc.
    + intros k Hk. rewrite win_push_len in Hk.
      destruct (zlen rl >=? memCap P) eqn:E; [lia|].
      rewrite at_h_app_l; [apply Hc; lia|rewrite zlen_snoc; lia|lia].
    + rewrite win_push_len. destruct (zlen rl >=? memCap P) eqn:E; lia.
    + lia.
    + done.
Qed.

(* ---------- upto_cp without a checkpoint in range ---------- *)
Lemma upto_cp_id P hs : forall base,
  (forall d, d ∈ checkpoints P -> ~ (base < d.1 <= base + zlen hs)) -> upto_cp P base hs = hs.
Proof.
  induction hs as [|x hs IH]; intros base H; cbn [upto_cp]; [done|].
  rewrite zlen_cons in H. pose proof (zlen_nonneg hs) as Hnn.
  destruct (cp_height_b P (base + 1)) eqn:E.
  - apply cp_height_b_iff in E as [chash Hin]. exfalso. apply (H _ Hin). cbn. lia.
  - f_equal. apply IH. intros d Hd Hr. apply (H d Hd). lia.
Qed.

(* ---------- the notifications of rollBackToHeight ---------- *)
Lemma discs_down_ext c1 c2 n : forall top, (forall h, h <= top -> at_h c1 h = at_h c2 h) ->
  discs_down c1 top n = discs_down c2 top n.
Proof.
  induction n as [|n IH]; intros top H; cbn [discs_down]; [done|].
  unfold hid_at. rewrite (H top), (H (top - 1)) by lia. f_equal. apply IH. intros h Hh. apply H. lia.
Qed.

Lemma roll_back_events fuel : forall s h,
  0 <= h -> zlen (chain s) <= LIMIT -> zlen (chain s) - 1 - h <= Z.of_nat fuel ->
  events (roll_back fuel h s) =
  events s ++ discs_down (chain s) (zlen (chain s) - 1) (Z.to_nat (zlen (chain s) - 1 - h)).
Proof.
  induction fuel as [|f IH]; intros s h Hh HL Hf; cbn [roll_back].
  - replace (Z.to_nat (zlen (chain s) - 1 - h)) with 0%nat by lia. cbn [discs_down]. by rewrite app_nil_r.
  - unfold tip_height. destruct (zlen (chain s) - 1 >? h) eqn:E.
    2:{ replace (Z.to_nat (zlen (chain s) - 1 - h)) with 0%nat by lia. cbn [discs_down]. by rewrite app_nil_r. }
    set (th := zlen (chain s) - 1) in *.
    destruct (at_h (chain s) th) as [cur|] eqn:E1;
      [|rewrite at_h_lookup in E1 by lia; apply lookup_ge_None in E1; unfold zlen in *; lia].
    destruct (at_h (chain s) (th - 1)) as [prev|] eqn:E2;
      [|rewrite at_h_lookup in E2 by lia; apply lookup_ge_None in E2; unfold zlen in *; lia].
    rewrite zn_eq by (unfold LIMIT in *; lia).
    match goal with |- context [roll_back f h ?st] => set (s2 := st) end.
    assert (Hc2 : chain s2 = take (Z.to_nat th) (chain s))
      by (subst s2; destruct (th <=? zlen (fchain s) - 1); reflexivity).
    assert (He2 : events s2 = events s ++ [EDisc (hid cur) th (hid prev)])
      by (subst s2; destruct (th <=? zlen (fchain s) - 1); reflexivity).
    assert (Hl2 : zlen (chain s2) = th) by (rewrite Hc2; apply zlen_take; lia).
    rewrite (IH s2 h) by lia.
    rewrite He2, Hl2, Hc2, <- app_assoc. f_equal.
    replace (Z.to_nat (th - h)) with (S (Z.to_nat (th - 1 - h))) by lia.
    cbn [discs_down app]. unfold hid_at at 1 2. rewrite E1, E2. f_equal.
    apply discs_down_ext. intros k Hk. apply at_h_take; lia.
Qed.

(* ---------- side effects: filter chain, notifications, sync peer ---------- *)
Definition side_eq (s s' : state) : Prop :=
  fchain s' = fchain s /\ events s' = events s /\ syncPeer s' = syncPeer s.
Lemma side_eq_refl s : side_eq s s. Proof. by repeat split. Qed.
Lemma side_eq_trans s1 s2 s3 : side_eq s1 s2 -> side_eq s2 s3 -> side_eq s1 s3.
Proof. unfold side_eq. intros (?&?&?) (?&?&?). repeat split; congruence. Qed.
Lemma side_bump_last p h s : side_eq s (bump_last p h s).
Proof. unfold bump_last. destruct (h <=? lastBlock (get_peer s p)); by repeat split. Qed.
Lemma side_write_headers es s : side_eq s (write_headers es s).
Proof. unfold write_headers. destruct es; [apply side_eq_refl|]. destruct (_ && _); by repeat split. Qed.
Lemma side_conn_acc P p a bh : side_eq (a_s a) (a_s (conn_acc P p a bh)).
Proof.
  unfold conn_acc. cbn [a_s]. destruct (side_bump_last p (zlen (afull a)) (a_s a)) as (H1 & H2 & H3).
  by repeat split.
Qed.
Lemma side_finalize P a : side_eq (a_s a) (finalize P a).
Proof.
  unfold finalize. cbn zeta. destruct (side_write_headers (a_batch a) (a_s a)) as (H1 & H2 & H3).
  destruct (a_recvcp a); by repeat split.
Qed.
Lemma side_resync s : side_eq s (resync s).
Proof.
  unfold resync. destruct (chain_tip s); [|apply side_eq_refl].
  destruct (last (hl s)); [destruct (_ && _)|]; by repeat split.
Qed.

Section Heavier.
Context (P : params) (U : header -> Prop) (T : Z -> Prop).
Hypothesis HU : universe P U.
Hypothesis HP : wf_params P.

(* ---------- the first header of a fork is new to the store ---------- *)
Lemma fork_fresh c tl n b d m :
  ChainOK P U T c tl -> U m -> c !! n = Some b -> c !! S n = Some d ->
  hprev m = hid b -> hid m <> hid d -> hid m ∉ map hid c.
Proof.
  intros Hok Hm Hb Hd Hp Hne Hin.
  pose proof (co_nodup _ _ _ _ _ Hok) as Hnd. pose proof (ChainOK_linked _ _ _ _ _ Hok) as Hlk.
  pose proof (co_U _ _ _ _ _ Hok) as HUc. rewrite Forall_forall in HUc.
  apply elem_of_list_fmap in Hin as (y & Heq & Hy).
  assert (y = m) by (symmetry; apply (U_inj _ _ HU); [done|by apply HUc|done]). subst y.
  apply elem_of_list_lookup in Hy as [i Hi].
  destruct i as [|j].
  - pose proof (ChainOK_head _ _ _ _ _ Hok) as Hh. rewrite head_lookup in Hh.
    assert (m = genesis P) by congruence. subst m.
    apply (U_root _ _ HU b); [apply HUc; eapply elem_of_list_lookup_2; eauto|congruence].
  - pose proof (lookup_lt_Some _ _ _ Hi) as Hlt.
    destruct (lookup_lt_is_Some_2 c j ltac:(lia)) as [a Ha].
    pose proof (Hlk _ _ _ Ha Hi) as Hpa.
    assert (H1 : map hid c !! j = Some (hid b)) by (rewrite list_lookup_fmap, Ha; cbn; congruence).
    assert (H2 : map hid c !! n = Some (hid b)) by (rewrite list_lookup_fmap, Hb; done).
    pose proof (NoDup_lookup _ _ _ _ Hnd H1 H2). subst j. congruence.
Qed.

(* ---------- the connect phase has no side effects ---------- *)
Lemma loop_connect_side now p : T now -> forall hs a,
  Live P U T a hs ->
  (forall x t tp, hs = x :: t -> last (afull a) = Some tp -> hprev x = hid tp) ->
  Forall U hs -> zlen (afull a) + zlen hs <= LIMIT ->
  match loop P now p a hs with
  | Break a' => side_eq (a_s a) (a_s a')
  | _ => True
  end.
Proof.
  intros HT. induction hs as [|bh rest IH]; intros a HL Hfirst HUs Hlim; cbn [loop].
  { apply side_eq_refl. }
  pose proof HL as (HA & _). destruct (AInv_tip _ _ _ _ HA) as (tp & Hl1 & Hl2).
  pose proof (Hfirst bh rest tp eq_refl Hl1) as Hp.
  apply Forall_cons in HUs as [HUb HUr]. rewrite zlen_cons in Hlim. pose proof (zlen_nonneg rest) as Hnn.
  pose proof (step_connect_spec P U T HU HP now p a bh rest tp HL Hl1 Hp HUb HT ltac:(lia)) as Hstep.
  destruct (step_header P now p a bh rest) as [s'|a'|a']; [done| |].
  - destruct Hstep as (-> & HL' & Hv & Hncp).
    specialize (IH (conn_acc P p a bh) HL').
    rewrite conn_acc_full, zlen_snoc in IH.
    destruct (loop P now p (conn_acc P p a bh) rest) as [s'|a'|a']; [done|done|].
    eapply side_eq_trans; [apply side_conn_acc|]. apply IH; [|done|lia].
    intros x t tp' -> Hl'. destruct HL' as (_ & _ & _ & _ & _ & Hlink).
    eapply Hlink; [|done|by rewrite conn_acc_full].
    unfold conn_acc. cbn [a_batch]. by destruct (a_batch a).
  - destruct Hstep as (-> & _). apply side_conn_acc.
Qed.

(* ---------- the state right after rollback and rewrite ---------- *)
Lemma reorg_state_side p s bh b f :
  0 <= f -> zlen (chain s) <= LIMIT -> zlen (fchain s) <= zlen (chain s) ->
  let s4 := reorg_state p s bh b f in
  fchain s4 = take (Z.to_nat (f + 1)) (fchain s) /\
  events s4 = events s ++ disconnects (chain s) f /\
  syncPeer s4 = Some p.
Proof.
  intros Hf HL Hfle s4. subst s4. unfold reorg_state.
  set (s1 := set_sync (Some p) s). set (s2 := roll_back_to f s1).
  destruct (side_write_headers [(bh, f + 1)] s2) as (W1 & W2 & W3).
  cbn [fchain events syncPeer set_hl]. rewrite W1, W2, W3.
  destruct (roll_back_spec (length (chain s1)) s1 f) as (R1 & R2 & R3 & R4 & R5 & R6 & R7 & R8 & R9);
    [lia|done|done|unfold zlen; cbn; lia|].
  fold (roll_back_to f s1) in *. fold s2 in R1, R2, R5.
  split; [exact R2|]. split; [|by rewrite R5].
  subst s2. unfold roll_back_to. rewrite roll_back_events; [|lia|done|unfold zlen; cbn; lia].
  change (events s1) with (events s). change (chain s1) with (chain s). f_equal.
  unfold disconnects. destruct (decide (zlen (chain s) - 1 - f < 0)) as [Hneg|Hpos].
  - unfold zn. replace (0 <=? zlen (chain s) - 1 - f) with false by lia. cbn [andb].
    by replace (Z.to_nat (zlen (chain s) - 1 - f)) with 0%nat by lia.
  - rewrite zn_eq by (unfold LIMIT in *; lia). done.
Qed.

(* ---------- handleHeadersMsg on a heavier fork ---------- *)
Lemma handle_headers_reorg now p bh rest s n b :
  Inv P U T s -> T now -> Forall U (bh :: rest) -> zlen (bh :: rest) < memCap P ->
  zlen (chain s) + zlen (bh :: rest) <= LIMIT ->
  (S n < length (chain s))%nat ->
  chain s !! n = Some b -> hprev bh = hid b -> hid bh ∉ map hid (chain s) ->
  (find_prev_cp P (zlen (chain s))).1 <= Z.of_nat n ->
  all_valid P now (take (S n) (chain s)) (bh :: rest) ->
  wsum (drop (S n) (chain s)) < wsum (bh :: rest) ->
  listened_to P now s p = true ->
  let s' := handle_headers P now p (bh :: rest) s in
  chain s' = take (S n) (chain s) ++ upto_cp P (Z.of_nat n) (bh :: rest) /\
  fchain s' = take (S n) (fchain s) /\
  events s' = events s ++ disconnects (chain s) (Z.of_nat n) /\
  syncPeer s' = Some p.
Proof.
  intros HI HT HUs Hlen Hlim Hn Hb Hp Hfresh Hfloor Hav Hw Hlisten s'. subst s'.
  destruct (i_chain _ _ _ _ HI) as [tl Htl].
  pose proof (co_nodup _ _ _ _ _ Htl) as Hnd. pose proof (ChainOK_linked _ _ _ _ _ Htl) as Hlk.
  pose proof (co_lim _ _ _ _ _ Htl) as HLc.
  set (c := chain s) in *. set (pre := take (S n) c) in *.
  assert (Hzc : zlen c = Z.of_nat (length c)) by reflexivity.
  assert (Hpre : pre = take n c ++ [b]) by (subst pre; by apply take_S_r).
  assert (Hzpre : zlen pre = Z.of_nat n + 1) by (subst pre; unfold zlen; rewrite take_length; lia).
  assert (Hprene : pre <> []) by (rewrite Hpre; by destruct (take n c)).
  assert (Hconn : headers_connected (bh :: rest) = true).
  { cbn [headers_connected]. by eapply all_valid_connected. }
  pose proof (Inv_Live P U T s (bh :: rest) HI Hlen Hconn) as HL.
  assert (Hfull0 : afull (acc0 s) = c) by (unfold afull; cbn [acc0 a_s a_batch fmap list_fmap]; apply app_nil_r).
  pose proof HL as (HA & _). destruct (AInv_tip _ _ _ _ HA) as (tp & Hl1 & Hl2).
  assert (Hl1c : last c = Some tp) by (by rewrite <- Hfull0).
  assert (Htpin : hid tp ∈ map hid c).
  { apply elem_of_list_fmap_1. rewrite last_lookup in Hl1c. eapply elem_of_list_lookup_2; eauto. }
  assert (Hptp : hprev bh <> hid tp).
  { rewrite Hp. intros Heq. rewrite last_lookup in Hl1c.
    assert (H1 : map hid c !! n = Some (hid b)) by (rewrite list_lookup_fmap, Hb; done).
    assert (H2 : map hid c !! pred (length c) = Some (hid b)) by (rewrite list_lookup_fmap, Hl1c; cbn; congruence).
    pose proof (NoDup_lookup _ _ _ _ Hnd H1 H2). lia. }
  assert (Hbt : hid bh <> hid tp) by (intros Heq; apply Hfresh; by rewrite Heq).
  apply Forall_cons in HUs as [HUb HUr].
  assert (Hlim0 : zlen (afull (acc0 s)) + zlen (bh :: rest) <= LIMIT) by (by rewrite Hfull0).
  (* the header loop takes the reorganisation path *)
  assert (Hfire : step_header P now p (acc0 s) bh rest = Continue (reorg_acc p (acc0 s) bh b (Z.of_nat n))).
  { assert (Hcp0 : forall ch chash, nextCp (a_s (acc0 s)) = Some (ch, chash) -> ch <> 0).
    { intros ch chash E. cbn [acc0 a_s] in E. rewrite (i_cp _ _ _ _ HI) in E. unfold tip_height in E. fold c in E.
      apply (next_cp_pos P HP) in E; lia. }
    rewrite Hfull0 in Hl2.
    rewrite (step_nonconn_eq P now p (acc0 s) bh rest _ Hl2) by (first [exact Hcp0 | cbn [nhdr]; congruence]).
    cbn zeta. cbn [nhdr nheight acc0 a_s]. fold c.
    replace (negb (is_sync s p) && negb (headers_synced P now s)) with false
      by (unfold listened_to in Hlisten; destruct (is_sync s p), (headers_synced P now s); done).
    replace (hid bh =? hid tp) with false by lia.
    rewrite (proj2 (fetch_header_None c (hid bh)) Hfresh).
    rewrite Hp, (fetch_header_nodup c n b Hnd Hb).
    replace (zlen c - 1 + 1) with (zlen c) by lia.
    replace (Z.of_nat n <? (find_prev_cp P (zlen c)).1) with false by lia.
    pose proof (reorg_check_complete P now c (wf_bpr P HP) (bh :: rest)
                  [{| nheight := Z.of_nat n; nhdr := b |}] pre b 0) as Hrc.
    rewrite Hzpre in Hrc. replace (Z.of_nat n + 1 - 1) with (Z.of_nat n) in Hrc by lia.
    rewrite Hrc; [|..|exact Hav].
    2:{ exists (take n c), [b]. split; [done|]. split; [done|]. cbn. do 2 f_equal.
        unfold zlen. rewrite take_length. lia. }
    2:{ rewrite Hpre. by rewrite last_snoc. }
    2:{ intros k Hk. rewrite zlen_cons, zlen_nil in Hk. symmetry. subst pre.
        replace (S n) with (Z.to_nat (Z.of_nat n + 1)) by lia. apply at_h_take; [done|lia|lia]. }
    2:{ rewrite zlen_cons, zlen_nil. lia. }
    2:{ lia. }
    rewrite (known_work_spec c Hnd Hlk HLc).
    2:{ lia. }
    2:{ lia. }
    2:{ rewrite zn_eq by (unfold LIMIT in *; lia). lia. }
    2:{ left. pose proof (a_wm _ _ _ _ HA) as HW. rewrite Hfull0 in HW. cbn [acc0 a_s] in HW.
        split; [intros E; rewrite E in HW; by destruct (WM_len _ _ HW)|].
        rewrite take_ge; [done|lia]. }
    replace (zlen c - 1 + 1) with (zlen c) by lia.
    rewrite (take_ge c) by lia.
    replace (Z.to_nat (Z.of_nat n + 1)) with (S n) by lia.
    destruct (_ >? _) eqn:E1; [lia|]. destruct (_ =? _) eqn:E2; [lia|]. reflexivity. }
  destruct (step_nonconn_spec P U T HU HP now p (acc0 s) bh rest tp HL Hl1 Hptp HUb HT Hlim0) as [_ Hstep].
  rewrite Hfire in Hstep.
  destruct Hstep as [(_ & _ & Hin)|(bH & bHh & _ & HL' & Hb' & HRF)]; [done|].
  set (a1 := reorg_acc p (acc0 s) bh b (Z.of_nat n)) in *.
  assert (Hfull1 : afull a1 = chain (a_s a1)) by (unfold afull; rewrite Hb'; apply app_nil_r).
  assert (Hc1 : chain (a_s a1) = pre ++ [bh]).
  { destruct HRF as (R1 & R2 & R3 & _ & _ & _ & _ & R8). cbn [acc0 a_s] in R1, R2, R8. fold c in R1, R2, R8.
    assert (H1 : map hid c !! Z.to_nat bHh = Some (hid b)) by (rewrite list_lookup_fmap, R1; cbn; congruence).
    assert (H2 : map hid c !! n = Some (hid b)) by (rewrite list_lookup_fmap, Hb; done).
    pose proof (NoDup_lookup _ _ _ _ Hnd H1 H2) as Heq.
    rewrite R8. subst pre. by replace (Z.to_nat (bHh + 1)) with (S n) by lia. }
  cbn [all_valid] in Hav. destruct Hav as (Hv & Hcpat & Hav).
  assert (Hfirst : forall x t tp', rest = x :: t -> last (afull a1) = Some tp' -> hprev x = hid tp').
  { intros x t tp' -> Hl'. rewrite Hfull1, Hc1 in Hl'. by eapply all_valid_first. }
  assert (Hlim1 : zlen (afull a1) + zlen rest <= LIMIT).
  { rewrite Hfull1, Hc1, zlen_snoc, Hzpre. rewrite zlen_cons in Hlim. lia. }
  pose proof (loop_connect P U T HU HP now p HT rest a1 HL' Hfirst HUr Hlim1) as Hlc.
  pose proof (loop_connect_side now p HT rest a1 HL' Hfirst HUr Hlim1) as Hls.
  (* the three side effects of the rollback *)
  destruct (reorg_state_side p s bh b (Z.of_nat n)) as (S1 & S2 & S3);
    [lia|done|apply (i_fle _ _ _ _ HI)|].
  fold c in S2. replace (Z.to_nat (Z.of_nat n + 1)) with (S n) in S1 by lia.
  assert (Hncp : cp_height_b P (Z.of_nat n + 1) = false).
  { destruct (cp_height_b P (Z.of_nat n + 1)) eqn:E; [|done]. apply cp_height_b_iff in E as [chash Hin].
    pose proof (no_cp_between P HP c (Z.of_nat n) _ Hfloor Hin). cbn in *. lia. }
  unfold handle_headers. rewrite Hconn. cbn [negb]. fold (acc0 s). cbn [loop]. rewrite Hfire. fold a1.
  destruct (loop P now p a1 rest) as [sr|a2|a2].
  - destruct Hlc as (_ & Hnav & _). exfalso. apply Hnav. by rewrite Hfull1, Hc1.
  - done.
  - destruct Hlc as (HF & _ & Hfa & _).
    destruct (finalize_spec P U T a2 HF) as [HI2 Hc2]. fold (finalize P a2).
    destruct (resync_spec P U T _ (Inv_RInv _ _ _ _ HI2)) as [_ Hc3].
    assert (Hside : side_eq (a_s a1) (resync (finalize P a2))).
    { eapply side_eq_trans; [exact Hls|]. eapply side_eq_trans; [apply side_finalize|apply side_resync]. }
    destruct Hside as (E1 & E2 & E3).
    split; [|split; [|split]].
    + rewrite Hc3, Hc2, Hfa, Hfull1, Hc1, zlen_snoc, Hzpre.
      replace (Z.of_nat n + 1 + 1 - 1) with (Z.of_nat n + 1) by lia.
      cbn [upto_cp]. rewrite Hncp. by rewrite <- app_assoc.
    + rewrite E1. exact S1.
    + rewrite E2. exact S2.
    + rewrite E3. exact S3.
Qed.
End Heavier.

(* ---------- reachable states ---------- *)
Lemma forks_at_inv before msg f : forks_at before msg f = true ->
  exists m rest b d, msg = m :: rest /\ at_h before f = Some b /\ at_h before (f + 1) = Some d /\
                     hprev m = hid b /\ hid m <> hid d.
Proof.
  unfold forks_at. destruct msg as [|m rest]; [done|].
  destruct (at_h before f) as [b|]; [|done]. destruct (at_h before (f + 1)) as [d|]; [|done].
  intros H. apply andb_true_iff in H as [H1 H2]. exists m, rest, b, d. repeat split; lia.
Qed.

Lemma heavier_branch_core P gfh ops p now msg f :
  let o := OHeaders p now msg in
  wf_params P -> no_collision P (ops ++ [o]) -> wf_hist P (ops ++ [o]) ->
  let s := run P (init_state P gfh) ops in
  let pre := take (Z.to_nat (f + 1)) (chain s) in
  forks_at (chain s) msg f = true ->
  valid_run P now pre msg = msg ->
  (forall i x, msg !! i = Some x -> cp_at P (zlen pre + Z.of_nat i) x) ->
  reached_cp P (chain s) <= f ->
  work_of msg > work_of (drop (Z.to_nat (f + 1)) (chain s)) ->
  listened_to P now s p = true ->
  let s' := step P s o in
  chain s' = pre ++ upto_checkpoint P f msg /\
  fchain s' = take (Z.to_nat (f + 1)) (fchain s) /\
  events s' = events s ++ disconnects (chain s) f /\
  syncPeer s' = Some p.
Proof.
  intros o HP HU HW s pre Hfork Hrun Hcps Hfloor Hwork Hlisten s'.
  destruct (reach_step_hyps P gfh ops o HP HU HW) as (HUu & HI & Hwf & Hlim). fold s in HI, Hlim.
  destruct Hwf as (HT & HUm & Hlen). cbn [op_size o] in Hlim.
  destruct (i_chain _ _ _ _ HI) as [tl Htl]. pose proof (co_lim _ _ _ _ _ Htl) as HLc.
  destruct (forks_at_inv _ _ _ Hfork) as (m & rest & b & d & -> & Hb & Hd & Hp & Hne).
  pose proof (at_h_Some _ _ _ Hb) as Hbr. pose proof (at_h_Some _ _ _ Hd) as Hdr.
  rewrite at_h_lookup in Hb, Hd by lia.
  set (n := Z.to_nat f). assert (Hfn : f = Z.of_nat n) by lia.
  assert (Hpre : pre = take (S n) (chain s)) by (subst pre; f_equal; lia).
  clearbody pre. subst pre.
  replace (Z.to_nat (f + 1)) with (S n) in * by lia. fold n in Hb.
  assert (Hm : U_of P (ops ++ [o]) m) by (by apply Forall_cons in HUm as [? _]).
  pose proof (fork_fresh P _ _ HUu _ _ n b d m Htl Hm Hb Hd Hp Hne) as Hfresh.
  assert (Hav : all_valid P now (take (S n) (chain s)) (m :: rest))
    by (apply valid_run_all; [exact Hcps|by rewrite Hrun]).
  subst s'. cbn [step o]. rewrite Hfn.
  rewrite upto_checkpoint_eq.
  apply (handle_headers_reorg P _ (T_of (ops ++ [o])) HUu HP now p m rest s n b); try done.
  - unfold zlen in Hdr. lia.
  - rewrite <- reached_cp_eq. lia.
  - rewrite !work_of_wsum in Hwork. lia.
Qed.

(* ... adopted up to and including the first header on a checkpoint height *)
Lemma heavier_branch_adopted_to_checkpoint P gfh ops p now msg f :
  let o := OHeaders p now msg in
  wf_params P -> no_collision P (ops ++ [o]) -> wf_hist P (ops ++ [o]) ->
  let s := run P (init_state P gfh) ops in
  let pre := take (Z.to_nat (f + 1)) (chain s) in
  forks_at (chain s) msg f = true ->
  valid_run P now pre msg = msg ->
  checkpoints_ok P (pre ++ msg) = true ->
  reached_cp P (chain s) <= f ->
  work_of msg > work_of (drop (Z.to_nat (f + 1)) (chain s)) ->
  listened_to P now s p = true ->
  let s' := step P s o in
  chain s' = pre ++ upto_checkpoint P f msg /\
  fchain s' = take (Z.to_nat (f + 1)) (fchain s) /\
  events s' = events s ++ disconnects (chain s) f /\
  syncPeer s' = Some p.
Proof.
  intros o HP HU HW s pre Hfork Hrun Hcp Hfloor Hwork Hlisten.
  apply (heavier_branch_core P gfh ops p now msg f HP HU HW); try done.
  fold s pre. intros i x Hi dd Hd Heq.
  destruct (reach_step_hyps P gfh ops o HP HU HW) as (_ & HI & Hwf & Hlim). fold s in HI, Hlim.
  cbn [op_size o] in Hlim.
  assert (Hzp : zlen pre <= zlen (chain s)) by (subst pre; unfold zlen; rewrite take_length; lia).
  apply checkpoints_ok_iff in Hcp. symmetry. apply (Hcp dd x Hd). rewrite Heq.
  pose proof (lookup_lt_Some _ _ _ Hi). rewrite at_h_app_r; [|rewrite zlen_app; unfold zlen in *; lia|lia].
  by replace (Z.to_nat (zlen pre + Z.of_nat i - zlen pre)) with i by lia.
Qed.

(* ... adopted in full when it stays below the next checkpoint *)
Lemma heavier_branch_adopted P gfh ops p now msg f :
  let o := OHeaders p now msg in
  wf_params P -> no_collision P (ops ++ [o]) -> wf_hist P (ops ++ [o]) ->
  let s := run P (init_state P gfh) ops in
  let pre := take (Z.to_nat (f + 1)) (chain s) in
  forks_at (chain s) msg f = true ->
  valid_run P now pre msg = msg ->
  reached_cp P (chain s) <= f ->
  work_of msg > work_of (drop (Z.to_nat (f + 1)) (chain s)) ->
  listened_to P now s p = true ->
  below_next_checkpoint P (chain s) (f + zlen msg) = true ->
  let s' := step P s o in
  chain s' = pre ++ msg /\
  fchain s' = take (Z.to_nat (f + 1)) (fchain s) /\
  events s' = events s ++ disconnects (chain s) f /\
  syncPeer s' = Some p.
Proof.
  intros o HP HU HW s pre Hfork Hrun Hfloor Hwork Hlisten Hbelow.
  destruct (forks_at_inv _ _ _ Hfork) as (m & rest & b & d & Hmsg & Hb & Hd & _).
  pose proof (at_h_Some _ _ _ Hb) as Hbr. pose proof (at_h_Some _ _ _ Hd) as Hdr.
  assert (Hzp : zlen pre = f + 1) by (subst pre; apply zlen_take; lia).
  (* no checkpoint height among the heights of the branch *)
  assert (Hnone : forall dd, dd ∈ checkpoints P -> ~ (f < dd.1 <= f + zlen msg)).
  { intros dd Hdd Hr. unfold below_next_checkpoint in Hbelow. rewrite forallb_forall in Hbelow.
    specialize (Hbelow dd ltac:(by apply elem_of_list_In)).
    rewrite reached_cp_eq in Hfloor.
    pose proof (find_prev_cp_spec P (zlen (chain s)) (wf_cps P HP)) as (_ & _ & _ & H4).
    destruct (decide (dd.1 < zlen (chain s))) as [Hlt|Hge]; [specialize (H4 dd Hdd Hlt); lia|lia]. }
  assert (Hup : upto_checkpoint P f msg = msg) by (rewrite upto_checkpoint_eq; by apply upto_cp_id).
  intros s'. replace (pre ++ msg) with (pre ++ upto_checkpoint P f msg) by (by rewrite Hup).
  subst s'.
  apply (heavier_branch_core P gfh ops p now msg f HP HU HW); try done.
  fold s pre. intros i x Hi dd Hdd Heq. exfalso. apply (Hnone dd Hdd).
  pose proof (lookup_lt_Some _ _ _ Hi). unfold zlen in *. lia.
Qed.

(* ---------- concrete histories ---------- *)
(* the client has 100,101,102 and filter headers up to height 2; peer 1 is the
   sync peer; the client is not current (tip older than 24 h at ex_now) *)
Definition exh_pre : list op :=
  [ONewPeer 1 0 10 true; OHeaders 1 ex_now [ex_h1; ex_h2]; OWriteCF 7 [8; 9] 102].
Definition exh_msg : list header := [ex_f2; ex_f3].              (* forks at height 1, two headers against one *)
Definition exh_msg_cp : list header := [ex_f2; ex_f3; ex_f4].    (* the same branch, one header longer *)
Definition exh_msg_known : list header := [ex_h2; ex_h3].        (* repeats the stored header at height 2 *)
(* a second peer that is not the sync peer *)
Definition exh_pre2 : list op := exh_pre ++ [ONewPeer 2 0 10 true].
(* a client that is current at clock reading 3000, and a second peer *)
Definition exh_pre3 : list op :=
  [ONewPeer 1 0 2 true; OHeaders 1 3000 [ex_h1; ex_h2]; ONewPeer 2 0 5 true].
(* a restart: the client has 100..103, is stopped and started again (window =
   the stored tip at height 3 alone, no peers), then peer 2 connects and
   offers branches forking at height 1, i.e. below everything the window
   holds: the known-work walk has to read height 2 from the store *)
Definition exr_pre : list op :=
  [ONewPeer 1 0 10 true; OHeaders 1 ex_now [ex_h1; ex_h2; ex_h3]; OWriteCF 7 [8; 9] 102;
   ORestart; ONewPeer 2 0 10 true].
Definition exr_tie : list header := [ex_f2; ex_f3].            (* two headers against two *)
Definition exr_lighter : list header := [ex_f2].               (* one against two *)
Definition exr_heavier : list header := [ex_f2; ex_f3; ex_f4]. (* three against two *)

(* ---------- the monitor's test for the positive reorganisation half ---------- *)
Lemma valid_run_length_eq P now msg : forall pre,
  length (valid_run P now pre msg) = length msg -> valid_run P now pre msg = msg.
Proof.
  induction msg as [|m msg IH]; intros pre H; cbn [valid_run] in *; [done|].
  destruct (valid_next P pre now m); [|done]. cbn [length] in H. f_equal. apply IH. lia.
Qed.

Definition reorg_hyps (P : params) (now : Z) (before msg : list header) (listened : bool) (f : Z) (e : list header) : Prop :=
  let pre := take (Z.to_nat (f + 1)) before in
  forks_at before msg f = true /\
  valid_run P now pre msg = msg /\
  reached_cp P before <= f /\
  work_of msg > work_of (drop (Z.to_nat (f + 1)) before) /\
  listened = true /\
  ((below_next_checkpoint P before (f + zlen msg) = true /\ e = pre ++ msg) \/
   (checkpoints_ok P (pre ++ msg) = true /\ e = pre ++ upto_checkpoint P f msg)).

Lemma must_adopt_reorg_hyps P now before msg listened e : zlen before <= LIMIT ->
  must_adopt_reorg P now before msg listened = Some e ->
  exists f, reorg_hyps P now before msg listened f e.
Proof.
  intros HL. unfold must_adopt_reorg. destruct (fork_height before msg) as [f|]; [|done].
  destruct (forks_at before msg f) eqn:Hf; [|done]. cbn [andb].
  destruct (forks_at_inv _ _ _ Hf) as (m & rest & b & d & _ & Hb & Hd & _).
  pose proof (at_h_Some _ _ _ Hb) as Hbr. pose proof (at_h_Some _ _ _ Hd) as Hdr.
  rewrite zn_eq by (unfold LIMIT in *; lia).
  destruct (_ =? _)%nat eqn:E1; [|done]. destruct (_ <=? f) eqn:E2; [|done].
  destruct (_ >? _) eqn:E3; [|done]. destruct listened; [|done]. cbn [andb].
  intros Hm. exists f. unfold reorg_hyps.
  split; [done|]. split; [apply valid_run_length_eq; lia|]. split; [lia|]. split; [lia|]. split; [done|].
  destruct (below_next_checkpoint _ _ _); [injection Hm as <-; by left|].
  destruct (checkpoints_ok _ _) eqn:E5; [|done]. injection Hm as <-. by right.
Qed.

Lemma monitor_reorg_sound P gfh ops p now msg e :
  let o := OHeaders p now msg in
  wf_params P -> no_collision P (ops ++ [o]) -> wf_hist P (ops ++ [o]) ->
  let s := run P (init_state P gfh) ops in
  must_adopt_reorg P now (chain s) msg (listened_to P now s p) = Some e ->
  (exists f, reorg_hyps P now (chain s) msg (listened_to P now s p) f e) /\
  chain (step P s o) = e.
Proof.
  intros o HP HU HW s Hm.
  destruct (reach_step_hyps P gfh ops o HP HU HW) as (HUu & HI & _ & _). fold s in HI.
  destruct (i_chain _ _ _ _ HI) as [tl Htl]. pose proof (co_lim _ _ _ _ _ Htl) as HLc.
  destruct (must_adopt_reorg_hyps P now (chain s) msg _ e HLc Hm) as [f Hh].
  split; [by exists f|].
  destruct Hh as (H1 & H2 & H3 & H4 & H5 & [[H6 ->]|[H6 ->]]).
  - by apply (heavier_branch_adopted P gfh ops p now msg f HP HU HW).
  - by apply (heavier_branch_adopted_to_checkpoint P gfh ops p now msg f HP HU HW).
Qed.

(* the peer condition depends on the stored chain, the sync peer's identity
   and the sync peer's announced and starting heights only *)
Lemma listened_to_ext P now s s' p :
  chain s' = chain s -> syncPeer s' = syncPeer s ->
  (forall q, syncPeer s = Some q ->
     lastBlock (get_peer s' q) = lastBlock (get_peer s q) /\ startH (get_peer s' q) = startH (get_peer s q)) ->
  listened_to P now s' p = listened_to P now s p.
Proof.
  intros Hc Hs Hq. unfold listened_to, is_sync, headers_synced, chain_tip, tip_height. rewrite Hc, Hs.
  destruct (syncPeer s) as [q|]; [|reflexivity]. destruct (Hq q eq_refl) as [-> ->]. reflexivity.
Qed.
Lemma listened_to_obs P now s p :
  listened_to P now (obs_state (chain s) (syncPeer s) (peers s)) p = listened_to P now s p.
Proof. apply listened_to_ext; [reflexivity|reflexivity|]. intros q _. split; reflexivity. Qed.

(* ---------- the monitor's test for the conditions of a reorganisation ---------- *)
Section MonitorReorg.
Context (P : params) (U : header -> Prop) (T : Z -> Prop).
Hypothesis HU : universe P U.
Hypothesis HP : wf_params P.

Lemma Trans_reorg_conditions_b now before tl msg after :
  ChainOK P U T before tl -> T now -> Forall U msg -> zlen before + zlen msg <= LIMIT ->
  Trans P now before msg after -> reorg_conditions_b P now before after msg = true.
Proof.
  intros Hok HT HUm Hlim HTr. unfold reorg_conditions_b.
  destruct HTr as [->|skip run -> Hk Hrne Hav ->|skip run -> Hk Hc|skip bh rest backHead backH mid -> Hk Hr ->].
  - rewrite common_prefix_refl, drop_all. done.
  - rewrite common_prefix_app, drop_all. done.
  - destruct Hc as (ext & x & rest & -> & _ & _ & _ & ->).
    set (n := Z.to_nat _).
    assert (Hcp : common_prefix before (take n before) = take n before).
    { rewrite <- (take_drop n before) at 1. apply common_prefix_app_l. }
    rewrite Hcp, (drop_all (take n before)). by destruct (drop _ before).
  - destruct Hr as (R1 & R2 & R3 & R4 & R5 & R6 & R7 & ->).
    set (p := take (Z.to_nat (backH + 1)) before) in *. set (d := drop (Z.to_nat (backH + 1)) before) in *.
    assert (Hzp : zlen p = backH + 1) by (subst p; apply zlen_take; lia).
    destruct d as [|d0 d'] eqn:Ed.
    { apply (f_equal length) in Ed. subst d. rewrite drop_length in Ed. unfold zlen in R2. cbn in Ed. lia. }
    assert (Hbefore : before = p ++ d0 :: d') by (rewrite <- Ed; subst p d; by rewrite take_drop).
    assert (Hd0 : hid d0 <> hid bh).
    { intros Heq. apply R4. rewrite <- Heq. apply elem_of_list_fmap_1. rewrite Hbefore. apply elem_of_app. right. left. }
    assert (Hncp : cp_height_b P (backH + 1) = false).
    { destruct (cp_height_b P (backH + 1)) eqn:E; [|done]. apply cp_height_b_iff in E as [chash Hin].
      pose proof (no_cp_between P HP before backH _ R5 Hin). cbn in *. lia. }
    rewrite zlen_snoc, Hzp. replace (backH + 1 + 1 - 1) with (backH + 1) by lia.
    rewrite <- app_assoc. cbn [app].
    set (u := upto_cp P (backH + 1) rest).
    assert (Hcpf : common_prefix before (p ++ bh :: u) = p) by (rewrite Hbefore at 1; by apply common_prefix_split).
    assert (Hdrop : drop (length p) before = d0 :: d') by (rewrite Hbefore at 1; apply drop_app).
    assert (Hoff : from_hid (hid bh) (skip ++ bh :: rest) = bh :: rest).
    { apply from_hid_skip; [|done]. intros y Hy Heq. apply R4. rewrite <- Heq. by apply Hk. }
    unfold offered_branch. rewrite Hcpf, Hdrop, drop_app, Hoff.
    apply Forall_app in HUm as [_ HUb].
    destruct (ChainOK_take P U T before tl (backH + 1) Hok ltac:(lia)) as [tl2 Htl2]. fold p in Htl2.
    repeat (apply andb_true_iff; split).
    + rewrite all_valid_run by done. lia.
    + eapply (all_valid_cps P U T HU); eauto. rewrite Hzp. rewrite zlen_app in Hlim. pose proof (zlen_nonneg skip). unfold zlen in *. lia.
    + rewrite Hzp. replace (backH + 1 - 1) with backH by lia. rewrite upto_checkpoint_eq. cbn [upto_cp]. rewrite Hncp.
      apply hdrs_eqb_refl.
Qed.
End MonitorReorg.

Lemma monitor_reorg_conditions P gfh ops p now msg :
  let o := OHeaders p now msg in
  wf_params P -> no_collision P (ops ++ [o]) -> wf_hist P (ops ++ [o]) ->
  let s := run P (init_state P gfh) ops in
  reorg_conditions_b P now (chain s) (chain (step P s o)) msg = true.
Proof.
  intros o HP HU HW s. destruct (reach_step_hyps P gfh ops o HP HU HW) as (HUu & HI & Hwf & Hlim). fold s in HI, Hlim.
  destruct (step_spec P _ _ HUu HP s o HI Hwf Hlim) as [_ Hr]. cbn [StepRel o] in Hr.
  destruct (i_chain _ _ _ _ HI) as [tl Htl]. destruct Hwf as (HT & HUm & _).
  by eapply Trans_reorg_conditions_b.
Qed.

(* ---------- C02 over histories with store faults BEFORE the judged message ---------- *)
Lemma reach_step_hyps_f P gfh ops o : wf_params P -> no_collision P (ops ++ [o]) -> wf_hist_f P (ops ++ [o]) ->
  op_ok P o ->
  let s := run P (init_state P gfh) ops in
  let U := U_of P (ops ++ [o]) in let T := T_of (ops ++ [o]) in
  universe P U /\ Inv P U T s /\ wf_op P U T o /\ zlen (chain s) + op_size o <= LIMIT.
Proof.
  intros HP HU [Hok Hsz] Hoo s U T. pose proof (no_collision_universe P _ HU) as HUu.
  rewrite ops_size_app in Hsz. cbn [ops_size foldr] in Hsz. fold (ops_size ops) in Hsz.
  pose proof (ops_size_nonneg ops) as Hnn.
  assert (Hos : 0 <= op_size o) by (destruct o; cbn; try lia; apply zlen_nonneg).
  destruct (run_Inv_f P U T HUu HP ops (init_state P gfh)) as [H1 H2].
  - by apply init_Inv.
  - apply Forall_forall. intros o' Ho'. apply op_ok_wf_f; [apply elem_of_app; by left|].
    rewrite Forall_forall in Hok. apply Hok. apply elem_of_app. by left.
  - change (chain (init_state P gfh)) with [genesis P]. unfold LIMIT. rewrite zlen_cons, zlen_nil. lia.
  - split; [exact HUu|]. split; [exact H1|]. split.
    + apply op_ok_wf; [apply elem_of_app; right; left|exact Hoo].
    + change (chain (init_state P gfh)) with [genesis P] in H2. rewrite zlen_cons, zlen_nil in H2.
      fold s in H2. unfold LIMIT. lia.
Qed.

Lemma only_legal_changes_f P gfh ops o :
  wf_params P -> no_collision P (ops ++ [o]) -> wf_hist_f P (ops ++ [o]) -> op_ok P o ->
  let s := run P (init_state P gfh) ops in
  match o with
  | OHeaders _ now msg =>
      legal (classify P (chain s) (chain (step P s o)) msg) = true \/
      reorg_truncated_atb P now (chain s) (chain (step P s o)) msg = true
  | _ => chain (step P s o) = chain s
  end.
Proof.
  intros HP HU HW Hoo s. destruct (reach_step_hyps_f P gfh ops o HP HU HW Hoo) as (HUu & HI & Hwf & Hlim). fold s in HI, Hlim.
  pose proof (step_ClassRes P _ _ HUu HP s o HI Hwf Hlim) as H.
  destruct o; try done. by apply legal_of_ClassRes.
Qed.

Lemma op_ok_headers_f P ops p now msg : wf_hist_f P (ops ++ [OHeaders p now msg]) -> op_ok P (OHeaders p now msg).
Proof.
  intros [Hok _]. rewrite Forall_forall in Hok. apply (Hok (OHeaders p now msg)). apply elem_of_app. right. left.
Qed.

Lemma reorg_conditions_f P gfh ops p now msg :
  let o := OHeaders p now msg in
  wf_params P -> no_collision P (ops ++ [o]) -> wf_hist_f P (ops ++ [o]) ->
  let s := run P (init_state P gfh) ops in
  reorg_conditions P now (chain s) (chain (step P s o)) msg.
Proof.
  intros o HP HU HW s.
  destruct (reach_step_hyps_f P gfh ops o HP HU HW (op_ok_headers_f P ops p now msg HW)) as (HUu & HI & Hwf & Hlim). fold s in HI, Hlim.
  by eapply step_reorg_conditions.
Qed.

Lemma valid_extension_adopted_f P gfh ops p now msg e :
  let o := OHeaders p now msg in
  wf_params P -> no_collision P (ops ++ [o]) -> wf_hist_f P (ops ++ [o]) ->
  let s := run P (init_state P gfh) ops in
  must_adopt P now (chain s) msg = Some e -> chain (step P s o) = e.
Proof.
  intros o HP HU HW s Hm.
  destruct (reach_step_hyps_f P gfh ops o HP HU HW (op_ok_headers_f P ops p now msg HW)) as (HUu & HI & Hwf & Hlim). fold s in HI, Hlim.
  by eapply step_adopt.
Qed.

Lemma work_monotone_f P gfh ops p now msg :
  let o := OHeaders p now msg in
  wf_params P -> no_collision P (ops ++ [o]) -> wf_hist_f P (ops ++ [o]) ->
  let s := run P (init_state P gfh) ops in
  work_of (chain (step P s o)) >= work_of (chain s) \/
  classify P (chain s) (chain (step P s o)) msg = CutAtCheckpoint \/
  reorg_truncated_atb P now (chain s) (chain (step P s o)) msg = true.
Proof.
  intros o HP HU HW s.
  destruct (reach_step_hyps_f P gfh ops o HP HU HW (op_ok_headers_f P ops p now msg HW)) as (HUu & HI & Hwf & Hlim). fold s in HI, Hlim.
  pose proof (step_ClassRes P _ _ HUu HP s o HI Hwf Hlim) as H. by apply work_of_ClassRes.
Qed.
