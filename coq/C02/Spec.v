(* C02 — reorganisation only to a strictly heavier valid branch above the
   last checkpoint.  Stated on pairs of consecutive chain snapshots and the
   message in between; plain lists only. *)
From stdpp Require Import list.
From Coq Require Import ZArith Lia.
From Verif Require Import S2.Model C01.Spec.
Open Scope Z_scope.

Definition work_of (hs : list header) : Z := fold_left (fun w h => w + calcWork (hbits h)) hs 0.

Fixpoint common_prefix (a b : list header) : list header :=
  match a, b with
  | x :: a', y :: b' => if hid x =? hid y then x :: common_prefix a' b' else []
  | _, _ => []
  end.

(* height of the newest checkpoint the chain [c] has reached *)
Definition reached_cp (P : params) (c : list header) : Z :=
  fold_left (fun acc cp => if cp.1 <=? zlen c - 1 then cp.1 else acc) (checkpoints P) 0.

Definition subseq_of_msg (branch msg : list header) : bool :=
  forallb (fun h => existsb (fun m => hid m =? hid h) msg) branch.

(* height a message header would have: one above its parent, looked up in the
   chain before the message or among the earlier message headers *)
Fixpoint msg_heights (c : list header) (known : list (Z * Z)) (msg : list header) : list (Z * Z) :=
  match msg with
  | [] => known
  | m :: r =>
    let ph := match fetch_header c (hprev m) with
              | Some (_, h) => Some h
              | None => match list_find (fun p => p.1 = hprev m) known with Some (_, p) => Some p.2 | None => None end
              end in
    match ph with
    | Some h => msg_heights c ((hid m, h + 1) :: known) r
    | None => msg_heights c known r
    end
  end.

(* some header of the message sits at a checkpoint height with another hash,
   and [anc] (a hash) is one of its ancestors along the message / old chain *)
Definition fails_checkpoint_above (P : params) (before msg : list header) (tiphash : Z) : bool :=
  let hs := msg_heights before [] msg in
  existsb (fun m =>
     match list_find (fun p => p.1 = hid m) hs with
     | Some (_, p) =>
       existsb (fun cp => (cp.1 =? p.2) && negb (cp.2 =? hid m)) (checkpoints P) &&
       (* the message connects on top of the old tip: the discarded headers are its own branch *)
       existsb (fun m' => hprev m' =? tiphash) msg
     | None => false
     end) msg.

Inductive change := Unchanged | Extended | Reorganised | CutAtCheckpoint | Illegal.

Definition classify (P : params) (before after msg : list header) : change :=
  let cp := common_prefix before after in
  let displaced := drop (length cp) before in
  let branch := drop (length cp) after in
  match displaced, branch with
  | [], [] => Unchanged
  | [], _ => if subseq_of_msg branch msg then Extended else Illegal
  | _, [] =>
    (* headers discarded with nothing in their place: only because their own
       branch failed a checkpoint, and down to a checkpoint (or genesis) *)
    match last before with
    | Some t =>
      if fails_checkpoint_above P before msg (hid t) &&
         (existsb (fun c => c.1 =? zlen cp - 1) (checkpoints P) || (zlen cp - 1 =? 0))
      then CutAtCheckpoint else Illegal
    | None => Illegal
    end
  | _, _ =>
    if subseq_of_msg branch msg &&
       (work_of branch >? work_of displaced) &&
       (zlen cp - 1 >=? reached_cp P before)
    then Reorganised else Illegal
  end.

Definition legal (c : change) : bool := match c with Illegal => false | _ => true end.

(* a fully valid batch extending the tip is adopted in full (up to and
   including the first header that sits on a checkpoint height) *)
Fixpoint valid_run (P : params) (now : Z) (prefix : list header) (msg : list header) : list header :=
  match msg with
  | [] => []
  | m :: r => if valid_next P prefix now m then m :: valid_run P now (prefix ++ [m]) r else []
  end.

Definition upto_checkpoint (P : params) (base : Z) (run : list header) : list header :=
  let idx := list_find (fun i => existsb (fun cp => cp.1 =? base + Z.of_nat i + 1) (checkpoints P) = true) (seq 0 (length run)) in
  match idx with
  | Some (_, i) => take (S i) run
  | None => run
  end.

Definition must_adopt (P : params) (now : Z) (before msg : list header) : option (list header) :=
  match last before, msg with
  | Some t, m :: _ =>
    if (hprev m =? hid t) && (length (valid_run P now before msg) =? length msg)%nat && checkpoints_ok P (before ++ msg)
    then Some (before ++ upto_checkpoint P (zlen before - 1) msg) else None
  | _, _ => None
  end.
