(* C02 — the one known exception to "every change of the chain is legal"
   (finding F27), as a boolean on plain lists, for the trace monitor.

   The header loop stops at the next checkpoint.  A heavier branch that
   crosses the next checkpoint is therefore adopted only up to the checkpoint,
   and that part alone can carry less work than the headers it displaces.

   [reorg_truncatedb P before after msg] is true iff
   - [classify] says Illegal, and the fork point is not below the newest
     checkpoint [before] has reached (so the work comparison is the only
     reason);
   - [after] is [before] up to the fork point, followed by the branch;
   - the branch is exactly the part up to the first checkpoint height of the
     OFFERED branch = [msg] from the branch's first header to the end, and
     that part is a proper prefix of the offered branch;
   - the adopted branch ends on a checkpoint height with the checkpoint's hash;
   - the offered branch is linked by previous-hash from the fork point and has
     strictly more work than the displaced headers.
   [reorg_truncated_atb] additionally checks, at the clock reading [now] of the
   message, that every offered header is valid on its prefix and that the
   offered branch matches the checkpoints.  Nothing else is excused: any other
   Illegal change stays a violation. *)
From stdpp Require Import list.
From Coq Require Import ZArith Lia ZifyBool.
From Verif Require Import S2.Model C01.Spec C02.Spec.
Open Scope Z_scope.

(* the exception as a Prop (used by the theorems of C02/Properties.v) *)
Definition reorg_truncated (P : params) (before after msg : list header) : Prop :=
  exists skip bh rest k, msg = skip ++ bh :: rest /\ 0 <= k < zlen before - 1 /\
    after = take (Z.to_nat (k + 1)) before ++ upto_checkpoint P k (bh :: rest) /\
    upto_checkpoint P k (bh :: rest) <> bh :: rest /\
    work_of (bh :: rest) > work_of (drop (Z.to_nat (k + 1)) before).

Definition hdr_eqb (a b : header) : bool :=
  (hid a =? hid b) && (hprev a =? hprev b) && (hnum a =? hnum b) && (hbits a =? hbits b) &&
  (htime a =? htime b) && (hver a =? hver b).
Fixpoint hdrs_eqb (a b : list header) : bool :=
  match a, b with
  | [], [] => true
  | x :: a', y :: b' => hdr_eqb x y && hdrs_eqb a' b'
  | _, _ => false
  end.

(* [msg] from the first header with hash [x] on *)
Fixpoint from_hid (x : Z) (msg : list header) : list header :=
  match msg with
  | [] => []
  | m :: r => if hid m =? x then m :: r else from_hid x r
  end.

Definition is_cp_hit (P : params) (h : Z) (x : header) : bool :=
  existsb (fun cp => (cp.1 =? h) && (cp.2 =? hid x)) (checkpoints P).

Definition offered_branch (before after msg : list header) : list header :=
  match drop (length (common_prefix before after)) after with
  | b0 :: _ => from_hid (hid b0) msg
  | [] => []
  end.

Definition reorg_truncatedb (P : params) (before after msg : list header) : bool :=
  let cp := common_prefix before after in
  let n := length cp in
  let displaced := drop n before in
  let branch := drop n after in
  let offered := offered_branch before after msg in
  match last cp, last branch, displaced with
  | Some f, Some e, _ :: _ =>
    negb (legal (classify P before after msg)) &&
    (zlen cp - 1 >=? reached_cp P before) &&
    hdrs_eqb (take n after) cp &&
    hdrs_eqb branch (upto_checkpoint P (zlen cp - 1) offered) &&
    (length branch <? length offered)%nat &&
    is_cp_hit P (zlen after - 1) e &&
    connected (hid f) offered &&
    (work_of offered >? work_of displaced)
  | _, _, _ => false
  end.

Definition reorg_truncated_atb (P : params) (now : Z) (before after msg : list header) : bool :=
  let cp := common_prefix before after in
  let offered := offered_branch before after msg in
  reorg_truncatedb P before after msg &&
  (length (valid_run P now cp offered) =? length offered)%nat &&
  checkpoints_ok P (cp ++ offered).

Lemma hdr_eqb_eq a b : hdr_eqb a b = true -> a = b.
Proof. destruct a, b. unfold hdr_eqb. cbn. intros H. f_equal; lia. Qed.
Lemma hdr_eqb_refl a : hdr_eqb a a = true.
Proof. unfold hdr_eqb. lia. Qed.
Lemma hdrs_eqb_eq a : forall b, hdrs_eqb a b = true -> a = b.
Proof.
  induction a as [|x a IH]; intros [|y b] H; cbn in H; try done.
  apply andb_true_iff in H as [H1 H2]. f_equal; [by apply hdr_eqb_eq|by apply IH].
Qed.
Lemma hdrs_eqb_refl a : hdrs_eqb a a = true.
Proof. induction a as [|x a IH]; cbn; [done|]. by rewrite hdr_eqb_refl, IH. Qed.

Lemma from_hid_split x msg : exists skip, msg = skip ++ from_hid x msg.
Proof.
  induction msg as [|m msg [skip IH]]; cbn; [by exists []|].
  destruct (hid m =? x); [by exists []|]. exists (m :: skip). cbn. by rewrite <- IH.
Qed.
Lemma from_hid_skip x skip m rest : (forall y, y ∈ skip -> hid y <> x) -> hid m = x ->
  from_hid x (skip ++ m :: rest) = m :: rest.
Proof.
  intros Hs Hm. induction skip as [|y skip IH]; cbn.
  - by replace (hid m =? x) with true by lia.
  - replace (hid y =? x) with false by (specialize (Hs y ltac:(left)); lia).
    apply IH. intros z Hz. apply Hs. by right.
Qed.

Lemma common_prefix_take a : forall b, common_prefix a b = take (length (common_prefix a b)) a.
Proof.
  induction a as [|x a IH]; intros [|y b]; cbn; try done.
  destruct (hid x =? hid y); cbn; [|done]. by rewrite <- IH.
Qed.

Lemma reorg_truncatedb_sound P before after msg :
  reorg_truncatedb P before after msg = true -> reorg_truncated P before after msg.
Proof.
  unfold reorg_truncatedb, offered_branch.
  set (cp := common_prefix before after). set (n := length cp).
  destruct (last cp) as [f|] eqn:Hf; [|done].
  destruct (last (drop n after)) as [e|] eqn:He; [|done].
  destruct (drop n before) as [|d0 d] eqn:Hd; [done|].
  destruct (drop n after) as [|b0 b] eqn:Hb; [done|].
  intros H. repeat (apply andb_true_iff in H as [H ?]).
  set (offered := from_hid (hid b0) msg) in *.
  assert (Hcpn : cp <> []) by (intros E; by rewrite E in Hf).
  assert (Hn : (0 < n)%nat) by (subst n; destruct cp; cbn; [done|lia]).
  assert (Hcp : cp = take n before) by apply common_prefix_take.
  assert (Hlt : (n < length before)%nat).
  { apply (f_equal length) in Hd. rewrite drop_length in Hd. cbn in Hd. lia. }
  assert (Hup : b0 :: b = upto_checkpoint P (zlen cp - 1) offered) by (by apply hdrs_eqb_eq).
  destruct offered as [|bh rest] eqn:Eo.
  { unfold upto_checkpoint in Hup. cbn in Hup. done. }
  destruct (from_hid_split (hid b0) msg) as [skip Hmsg]. fold offered in Hmsg. rewrite Eo in Hmsg.
  exists skip, bh, rest, (zlen cp - 1).
  assert (Hz : zlen cp = Z.of_nat n) by done.
  replace (Z.to_nat (zlen cp - 1 + 1)) with n by lia.
  split; [done|]. split; [unfold zlen in *; lia|]. split; [|split].
  - rewrite <- Hup, <- Hb, <- Hcp. rewrite <- (take_drop n after) at 1. f_equal. by apply hdrs_eqb_eq.
  - rewrite <- Hup. intros E. rewrite E in *. lia.
  - rewrite Hd. lia.
Qed.

Lemma reorg_truncated_atb_sound P now before after msg :
  reorg_truncated_atb P now before after msg = true -> reorg_truncated P before after msg.
Proof.
  unfold reorg_truncated_atb. intros H. repeat (apply andb_true_iff in H as [H ?]).
  by apply reorg_truncatedb_sound.
Qed.

(* ---------- the conditions of a reorganisation, as a test for the trace monitor ---------- *)
(* whenever accepted headers were replaced: the branch OFFERED by the message
   (from the first replacing header on) is valid header by header, matches
   every hard-coded checkpoint, and what was stored is its part up to the
   first checkpoint height *)
Definition reorg_conditions_b (P : params) (now : Z) (before after msg : list header) : bool :=
  let cp := common_prefix before after in
  match drop (length cp) before, drop (length cp) after with
  | _ :: _, b0 :: b =>
    let offered := offered_branch before after msg in
    (length (valid_run P now cp offered) =? length offered)%nat &&
    checkpoints_ok P (cp ++ offered) &&
    hdrs_eqb (b0 :: b) (upto_checkpoint P (zlen cp - 1) offered)
  | _, _ => true
  end.

