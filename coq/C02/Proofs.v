(* C02 — proofs: how one headers message changes the stored chain (the
   relation Trans of S2/Invariant.v) is always a legal change in the sense of
   C02/Spec.v, with one exception exhibited below (reorg_truncated). *)
From stdpp Require Import list list_numbers.
From Coq Require Import ZArith Lia ZifyBool.
From Verif Require Import S2.Model C01.Spec C02.Spec C02.Truncated S2.Basics S2.Invariant C01.Proofs.
Open Scope Z_scope.

(* ---------- the spec's vocabulary and the invariant's ---------- *)
Lemma work_of_wsum hs : work_of hs = wsum hs.
Proof.
  unfold work_of. assert (G : forall w, fold_left (fun w h => w + calcWork (hbits h)) hs w = w + wsum hs).
  { induction hs as [|x hs IH]; intros w; cbn [fold_left wsum foldr]; [lia|]. rewrite IH. unfold wsum. lia. }
  rewrite G. lia.
Qed.
Lemma calcWork_nonneg b : 0 <= calcWork b.
Proof.
  unfold calcWork. destruct (compactToBig b <=? 0) eqn:E; [lia|]. apply Z.div_pos; lia.
Qed.
Lemma wsum_nonneg hs : 0 <= wsum hs.
Proof. induction hs as [|x hs IH]; cbn; [lia|]. fold (wsum hs). pose proof (calcWork_nonneg (hbits x)). lia. Qed.

Lemma upto_checkpoint_eq P run : forall base, upto_checkpoint P base run = upto_cp P base run.
Proof.
  unfold upto_checkpoint. induction run as [|x run IH]; intros base; [reflexivity|].
  cbn [length seq list_find upto_cp]. unfold cp_height_b.
  replace (base + Z.of_nat 0 + 1) with (base + 1) by lia.
  destruct (decide (existsb (fun cp => cp.1 =? base + 1) (checkpoints P) = true)) as [E|E].
  - rewrite E. reflexivity.
  - apply not_true_is_false in E. rewrite E. rewrite <- fmap_S_seq, list_find_fmap.
    specialize (IH (base + 1)). cbn [compose] in *.
    rewrite (list_find_ext _ (fun i : nat => existsb (fun cp => cp.1 =? base + 1 + Z.of_nat i + 1) (checkpoints P) = true));
      [|intros i; cbn; by replace (base + Z.of_nat (S i) + 1) with (base + 1 + Z.of_nat i + 1) by lia].
    destruct (list_find _ (seq 0 (length run))) as [[j i]|]; cbn [fmap option_fmap option_map prod_map fst snd] in *.
    + rewrite <- IH. reflexivity.
    + rewrite <- IH. reflexivity.
Qed.

Lemma reached_cp_eq P c : reached_cp P c = (find_prev_cp P (zlen c)).1.
Proof.
  unfold reached_cp, find_prev_cp. generalize (hid (genesis P)). intros g.
  change 0 with ((0, g).1) at 1. generalize (0, g) as acc. induction (checkpoints P) as [|cp l IH]; intros acc; cbn [fold_left]; [done|].
  destruct (cp.1 <=? zlen c - 1) eqn:E1; destruct (zlen c <=? cp.1) eqn:E2; try lia; apply IH.
Qed.

Lemma common_prefix_refl l : common_prefix l l = l.
Proof. induction l as [|x l IH]; cbn; [done|]. rewrite Z.eqb_refl. by rewrite IH. Qed.
Lemma common_prefix_app l e : common_prefix l (l ++ e) = l.
Proof. induction l as [|x l IH]; cbn; [by destruct e|]. rewrite Z.eqb_refl. by rewrite IH. Qed.
Lemma common_prefix_app_l l e : common_prefix (l ++ e) l = l.
Proof. induction l as [|x l IH]; cbn; [by destruct e|]. rewrite Z.eqb_refl. by rewrite IH. Qed.
Lemma common_prefix_split p d0 d b0 b : hid d0 <> hid b0 ->
  common_prefix (p ++ d0 :: d) (p ++ b0 :: b) = p.
Proof.
  intros Hne. induction p as [|x p IH]; cbn.
  - replace (hid d0 =? hid b0) with false by lia. done.
  - rewrite Z.eqb_refl. by rewrite IH.
Qed.

Lemma subseq_of_msg_intro branch msg : (forall h, h ∈ branch -> h ∈ msg) -> subseq_of_msg branch msg = true.
Proof.
  intros H. unfold subseq_of_msg. apply forallb_forall. intros h Hh. apply existsb_exists.
  exists h. split; [|lia]. apply elem_of_list_In, H. by apply elem_of_list_In.
Qed.

Lemma upto_cp_prefix P hs : forall base, upto_cp P base hs `prefix_of` hs.
Proof.
  induction hs as [|x hs IH]; intros base; cbn [upto_cp]; [done|].
  destruct (cp_height_b P (base + 1)); [by exists hs|]. by apply prefix_cons.
Qed.
Lemma upto_cp_ne P base hs : hs <> [] -> upto_cp P base hs <> [].
Proof. destruct hs; [done|]. intros _. cbn. by destruct (cp_height_b P (base + 1)). Qed.

Lemma all_valid_run P now msg : forall pre, all_valid P now pre msg -> valid_run P now pre msg = msg.
Proof.
  induction msg as [|m msg IH]; intros pre Hav; cbn [valid_run all_valid] in *; [done|].
  destruct Hav as (-> & _ & Hav). by rewrite IH.
Qed.

Lemma all_valid_connected P now hs : forall pre x, pre <> [] -> all_valid P now pre (x :: hs) -> connected (hid x) hs = true.
Proof.
  induction hs as [|y hs IH]; intros pre x Hne Hav; [done|].
  cbn [all_valid connected] in *. destruct Hav as (Hv & Hc & Hvy & Hcy & Hav).
  apply andb_true_iff. split.
  - rewrite (valid_next_unfold P (pre ++ [x]) now y x) in Hvy by (by rewrite last_snoc). lia.
  - apply (IH (pre ++ [x])); [by destruct pre|]. cbn [all_valid]. done.
Qed.

Lemma all_valid_lookup P now hs : forall pre i x, all_valid P now pre hs -> hs !! i = Some x ->
  cp_at P (zlen pre + Z.of_nat i) x.
Proof.
  induction hs as [|y hs IH]; intros pre i x Hav Hi; [done|].
  cbn [all_valid] in Hav. destruct Hav as (_ & Hc & Hav). destruct i as [|i]; cbn in Hi.
  - injection Hi as <-. by replace (zlen pre + Z.of_nat 0) with (zlen pre) by lia.
  - specialize (IH _ _ _ Hav Hi). rewrite zlen_snoc in IH.
    by replace (zlen pre + Z.of_nat (S i)) with (zlen pre + 1 + Z.of_nat i) by lia.
Qed.

(* a properly truncated run ends on a checkpoint height *)
Lemma upto_cp_trunc P hs : forall base u r0 r, upto_cp P base hs = u -> hs = u ++ r0 :: r ->
  u <> [] /\ cp_height_b P (base + zlen u) = true.
Proof.
  induction hs as [|x hs IH]; intros base u r0 r Hu Hs; [by destruct u|].
  cbn [upto_cp] in Hu. destruct (cp_height_b P (base + 1)) eqn:E.
  - subst u. split; [done|]. by rewrite zlen_cons, zlen_nil.
  - destruct u as [|x' u']; [done|]. injection Hu as <- Hu. cbn in Hs. injection Hs as Hs.
    destruct (IH (base + 1) u' r0 r Hu Hs) as [Hne Hc]. split; [done|].
    rewrite zlen_cons. by replace (base + (1 + zlen u')) with (base + 1 + zlen u') by lia.
Qed.

(* ---------- msg_heights computes true heights ---------- *)
Lemma msg_heights_app c a : forall known b,
  msg_heights c known (a ++ b) = msg_heights c (msg_heights c known a) b.
Proof.
  induction a as [|m a IH]; intros known b; cbn [msg_heights app]; [done|].
  destruct (fetch_header c (hprev m)) as [[? h]|]; [apply IH|].
  destruct (list_find _ known) as [[? p]|]; apply IH.
Qed.
Lemma msg_heights_mono c msg : forall known e, e ∈ known -> e ∈ msg_heights c known msg.
Proof.
  induction msg as [|m msg IH]; intros known e He; cbn [msg_heights]; [done|].
  destruct (fetch_header c (hprev m)) as [[? h]|]; [apply IH; by right|].
  destruct (list_find _ known) as [[? p]|]; apply IH; [by right|done].
Qed.

Section Heights.
Context (P : params) (U : header -> Prop).
Hypothesis HU : universe P U.
Variables before ext' : list header.
Local Notation full' := (before ++ ext').
Hypothesis Hnd : NoDup (map hid full').
Hypothesis Hlk : linked full'.
Hypothesis Hhd : head full' = Some (genesis P).
Hypothesis HUf : Forall U full'.

Definition J (known : list (Z * Z)) : Prop :=
  forall id h, (id, h) ∈ known ->
    (exists m, U m /\ hid m = id) /\
    (forall i y, full' !! i = Some y -> hid y = id -> h = Z.of_nat i).

Lemma before_lookup i y : before !! i = Some y -> full' !! i = Some y.
Proof. intros H. by apply lookup_app_l_Some. Qed.

Lemma full_hid_inj i j a b : full' !! i = Some a -> full' !! j = Some b -> hid a = hid b -> i = j.
Proof.
  intros Ha Hb Heq.
  assert (H1 : map hid full' !! i = Some (hid a)) by (rewrite list_lookup_fmap, Ha; done).
  assert (H2 : map hid full' !! j = Some (hid a)) by (rewrite list_lookup_fmap, Hb; cbn; congruence).
  apply (NoDup_lookup _ _ _ _ Hnd H1 H2).
Qed.

Definition parent_height (known : list (Z * Z)) (m : header) : option Z :=
  match fetch_header before (hprev m) with
  | Some (_, h) => Some h
  | None => match list_find (fun p => p.1 = hprev m) known with Some (_, p) => Some p.2 | None => None end
  end.

Lemma parent_height_J known m i y h : J known -> U m -> full' !! i = Some y -> hid y = hid m ->
  parent_height known m = Some h -> h + 1 = Z.of_nat i.
Proof.
  intros HJ Hm Hy Heq Hph. rewrite Forall_forall in HUf.
  assert (y = m) by (apply (U_inj _ _ HU); [apply HUf; eapply elem_of_list_lookup_2; eauto|done|done]). subst y.
  unfold parent_height in Hph.
  destruct i as [|j].
  - exfalso. assert (m = genesis P) by (destruct before, ext'; cbn in *; congruence). subst m.
    destruct (fetch_header before (hprev (genesis P))) as [[z hz]|] eqn:Ef.
    + apply fetch_header_Some in Ef as (n & _ & Hn & Hz). apply (U_root _ _ HU z); [|done].
      apply HUf. eapply elem_of_list_lookup_2. by apply before_lookup.
    + destruct (list_find _ known) as [[k p]|] eqn:El; [|done].
      apply list_find_Some in El as (Hk & Hp & _). destruct p as [id hh]. cbn in Hp. subst id.
      destruct (HJ _ _ (elem_of_list_lookup_2 _ _ _ Hk)) as [(m' & Hm' & Hid) _]. by apply (U_root _ _ HU m').
  - pose proof (lookup_lt_Some _ _ _ Hy) as Hlt.
    destruct (lookup_lt_is_Some_2 full' j ltac:(lia)) as [a Ha].
    pose proof (Hlk _ _ _ Ha Hy) as Hpa. rewrite Hpa in Hph.
    destruct (fetch_header before (hid a)) as [[z hz]|] eqn:Ef.
    + injection Hph as <-. apply fetch_header_Some in Ef as (n & -> & Hn & Hz).
      pose proof (full_hid_inj _ _ _ _ (before_lookup _ _ Hn) Ha Hz). lia.
    + destruct (list_find _ known) as [[k p]|] eqn:El; [|done]. injection Hph as <-.
      apply list_find_Some in El as (Hk & Hp & _). destruct p as [id hh]. cbn in Hp. subst id. cbn.
      destruct (HJ _ _ (elem_of_list_lookup_2 _ _ _ Hk)) as [_ Hh]. rewrite (Hh j a Ha eq_refl). lia.
Qed.

Lemma msg_heights_unfold known m msg :
  msg_heights before known (m :: msg) =
  match parent_height known m with
  | Some h => msg_heights before ((hid m, h + 1) :: known) msg
  | None => msg_heights before known msg
  end.
Proof.
  cbn [msg_heights]. unfold parent_height.
  destruct (fetch_header before (hprev m)) as [[? h]|]; [done|]. by destruct (list_find _ known) as [[? p]|].
Qed.

Lemma msg_heights_J msg : forall known, Forall U msg -> J known -> J (msg_heights before known msg).
Proof.
  induction msg as [|m msg IH]; intros known HUm HJ; [done|].
  apply Forall_cons in HUm as [Hm HUm]. rewrite msg_heights_unfold.
  destruct (parent_height known m) as [h|] eqn:Eph; [|by apply IH].
  apply IH; [done|]. intros id hh [[= -> ->]|Hin]%elem_of_cons; [|by apply HJ].
  split; [by exists m|]. intros i y Hy Heq. eapply parent_height_J; eauto.
Qed.

Definition avail (known : list (Z * Z)) (y : header) : Prop :=
  hid y ∈ map hid before \/ exists h, (hid y, h) ∈ known.

Lemma avail_parent known m t : avail known t -> hprev m = hid t -> exists h, parent_height known m = Some h.
Proof.
  intros Hav Hp. unfold parent_height. rewrite Hp.
  destruct (fetch_header before (hid t)) as [[z hz]|] eqn:Ef; [by eexists|].
  apply fetch_header_None in Ef. destruct Hav as [Hav|[h Hin]]; [done|].
  destruct (list_find (λ p : Z * Z, p.1 = hid t) known) as [[k p]|] eqn:El; [by eexists|].
  apply list_find_None in El. rewrite Forall_forall in El. by destruct (El _ Hin).
Qed.

Lemma msg_heights_chain seg : forall pre known rest t,
  linked (pre ++ seg) -> last pre = Some t -> avail known t ->
  forall y, y ∈ seg -> exists h, (hid y, h) ∈ msg_heights before known (seg ++ rest).
Proof.
  induction seg as [|m seg IH]; intros pre known rest t Hl Ht Hav y Hy; [by apply elem_of_nil in Hy|].
  assert (Hpm : hprev m = hid t).
  { rewrite last_lookup in Ht. apply (Hl (pred (length pre))); [by apply lookup_app_l_Some|].
    assert (length pre <> 0)%nat by (destruct pre; cbn in *; [done|lia]).
    replace (S (pred (length pre))) with (length pre) by lia. rewrite lookup_app_r by lia. by rewrite Nat.sub_diag. }
  destruct (avail_parent known m t Hav Hpm) as [h Hph].
  cbn [app]. rewrite msg_heights_unfold, Hph.
  apply elem_of_cons in Hy as [->|Hy].
  - exists (h + 1). apply msg_heights_mono. left.
  - apply (IH (pre ++ [m]) _ rest m); [by rewrite <- app_assoc|by rewrite last_snoc| |done].
    right. exists (h + 1). left.
Qed.
End Heights.

Lemma fails_checkpoint_intro P U before skip ext x rest chash t :
  universe P U ->
  NoDup (map hid (before ++ ext ++ [x])) -> linked (before ++ ext ++ [x]) ->
  head (before ++ ext ++ [x]) = Some (genesis P) -> Forall U (before ++ ext ++ [x]) ->
  Forall U (skip ++ ext ++ x :: rest) -> last before = Some t ->
  (zlen (before ++ ext), chash) ∈ checkpoints P -> hid x <> chash ->
  fails_checkpoint_above P before (skip ++ ext ++ x :: rest) (hid t) = true.
Proof.
  intros HU Hnd Hlk Hhd HUf HUm Ht Hcp Hne.
  set (msg := skip ++ ext ++ x :: rest). set (seg := ext ++ [x]).
  assert (Hmsg : msg = skip ++ seg ++ rest) by (subst msg seg; by rewrite <- !app_assoc).
  unfold fails_checkpoint_above. apply existsb_exists. exists x. split.
  { apply elem_of_list_In. subst msg. rewrite !elem_of_app. right. right. left. }
  set (hs := msg_heights before [] msg).
  assert (HJ : J U before seg hs).
  { apply (msg_heights_J P U HU before seg Hnd Hlk Hhd HUf); [done|]. intros id h Hin. by apply elem_of_nil in Hin. }
  assert (Hex : exists h, (hid x, h) ∈ hs).
  { subst hs. rewrite Hmsg, msg_heights_app.
    apply (msg_heights_chain before seg before _ rest t); [done|done|left|].
    - apply elem_of_list_fmap_1. rewrite last_lookup in Ht. eapply elem_of_list_lookup_2; eauto.
    - subst seg. apply elem_of_app. right. left. }
  destruct Hex as [h0 Hin].
  destruct (list_find (fun p : Z * Z => p.1 = hid x) hs) as [[k [id hh]]|] eqn:El.
  2:{ apply list_find_None in El. rewrite Forall_forall in El. by destruct (El _ Hin). }
  apply list_find_Some in El as (Hk & Hid & _). cbn in Hid. subst id.
  destruct (HJ _ _ (elem_of_list_lookup_2 _ _ _ Hk)) as [_ Hh].
  assert (Hx : (before ++ seg) !! length (before ++ ext) = Some x).
  { subst seg. rewrite app_assoc. rewrite lookup_app_r by lia. by rewrite Nat.sub_diag. }
  rewrite (Hh _ _ Hx eq_refl). cbn [snd]. apply andb_true_iff. split.
  - apply existsb_exists. exists (zlen (before ++ ext), chash). split; [by apply elem_of_list_In|].
    cbn. unfold zlen. apply andb_true_iff. split; lia.
  - apply existsb_exists. destruct seg as [|m seg'] eqn:Eseg; [subst seg; by destruct ext|].
    exists m. split.
    + apply elem_of_list_In. rewrite Hmsg. rewrite !elem_of_app. right. left. left.
    + assert (hprev m = hid t); [|lia]. rewrite last_lookup in Ht.
      apply (Hlk (pred (length before))); [by apply lookup_app_l_Some|].
      assert (length before <> 0)%nat by (destruct before; cbn in *; [done|lia]).
      replace (S (pred (length before))) with (length before) by lia.
      fold seg. rewrite Eseg. rewrite lookup_app_r by lia. by rewrite Nat.sub_diag.
Qed.

(* ---------- classify, case by case ---------- *)
Lemma classify_unch P before msg : classify P before before msg = Unchanged.
Proof. unfold classify. rewrite common_prefix_refl, drop_all. done. Qed.

Lemma classify_ext P before e msg : e <> [] -> (forall h, h ∈ e -> h ∈ msg) ->
  classify P before (before ++ e) msg = Extended.
Proof.
  intros Hne Hsub. unfold classify. rewrite common_prefix_app, drop_all, drop_app.
  destruct e; [done|]. by rewrite subseq_of_msg_intro.
Qed.

Lemma classify_reorg P p d0 d b0 b msg : hid d0 <> hid b0 ->
  (forall h, h ∈ b0 :: b -> h ∈ msg) -> work_of (b0 :: b) > work_of (d0 :: d) ->
  zlen p - 1 >= reached_cp P (p ++ d0 :: d) ->
  classify P (p ++ d0 :: d) (p ++ b0 :: b) msg = Reorganised.
Proof.
  intros Hne Hsub Hw Hcp. unfold classify. rewrite common_prefix_split by done. rewrite !drop_app.
  rewrite subseq_of_msg_intro by done. fold (zlen p).
  replace (work_of (b0 :: b) >? work_of (d0 :: d)) with true by lia.
  replace (zlen p - 1 >=? reached_cp P (p ++ d0 :: d)) with true by lia. done.
Qed.

Lemma classify_cut P before n t msg : (0 < n < length before)%nat -> last before = Some t ->
  fails_checkpoint_above P before msg (hid t) = true ->
  (existsb (fun c => c.1 =? Z.of_nat n - 1) (checkpoints P) || (Z.of_nat n - 1 =? 0)) = true ->
  classify P before (take n before) msg = CutAtCheckpoint.
Proof.
  intros Hn Ht Hf Hc. unfold classify.
  assert (Hcp : common_prefix before (take n before) = take n before).
  { rewrite <- (take_drop n before) at 1. apply common_prefix_app_l. }
  rewrite Hcp. rewrite drop_all. rewrite take_length. replace (length before `min` n)%nat with n by lia.
  destruct (drop n before) eqn:Ed.
  { apply (f_equal length) in Ed. rewrite drop_length in Ed. cbn in Ed. lia. }
  rewrite Ht, Hf. unfold zlen. rewrite take_length. replace (n `min` length before)%nat with n by lia.
  by rewrite ?Ed, Hc.
Qed.

Lemma classify_split P p d0 d b0 b msg : hid d0 <> hid b0 ->
  classify P (p ++ d0 :: d) (p ++ b0 :: b) msg =
  if subseq_of_msg (b0 :: b) msg && (work_of (b0 :: b) >? work_of (d0 :: d)) &&
     (zlen p - 1 >=? reached_cp P (p ++ d0 :: d)) then Reorganised else Illegal.
Proof.
  intros Hne. unfold classify. rewrite common_prefix_split by done. rewrite !drop_app. done.
Qed.

Definition ClassRes (P : params) (now : Z) (before after msg : list header) : Prop :=
  (classify P before after msg = Unchanged /\ after = before) \/
  (classify P before after msg = Extended /\ exists e, after = before ++ e) \/
  (classify P before after msg = Reorganised /\ work_of after > work_of before) \/
  classify P before after msg = CutAtCheckpoint \/
  reorg_truncated_atb P now before after msg = true.

Section Classify.
Context (P : params) (U : header -> Prop) (T : Z -> Prop).
Hypothesis HU : universe P U.
Hypothesis HP : wf_params P.

Lemma ChainOK_all_valid now ext : forall full tl,
  ChainOK P U T full tl -> all_valid P now full ext -> T now -> Forall U ext ->
  zlen full + zlen ext <= LIMIT -> exists tl', ChainOK P U T (full ++ ext) tl'.
Proof.
  induction ext as [|x ext IH]; intros full tl Hok Hav HT HUe Hlim.
  - rewrite app_nil_r. by eexists.
  - cbn [all_valid] in Hav. destruct Hav as (Hv & Hcp & Hav). apply Forall_cons in HUe as [HUx HUe].
    rewrite zlen_cons in Hlim. pose proof (zlen_nonneg ext).
    assert (Hok' : ChainOK P U T (full ++ [x]) (tl ++ [(x, now)])) by (apply ChainOK_snoc; try done; lia).
    destruct (IH _ _ Hok' Hav HT HUe) as [tl' Htl']; [rewrite zlen_snoc; lia|].
    rewrite <- app_assoc in Htl'. by eexists.
Qed.

Lemma all_valid_cps now pre hs tl : ChainOK P U T pre tl -> all_valid P now pre hs -> T now -> Forall U hs ->
  zlen pre + zlen hs <= LIMIT -> checkpoints_ok P (pre ++ hs) = true.
Proof.
  intros Hok Hav HT HUs Hlim. destruct (ChainOK_all_valid now hs pre tl Hok Hav HT HUs Hlim) as [tl' Hok'].
  apply checkpoints_ok_iff. apply (co_cps _ _ _ _ _ Hok').
Qed.

Lemma no_cp_between (before : list header) k d : (find_prev_cp P (zlen before)).1 <= k -> d ∈ checkpoints P ->
  k < d.1 -> zlen before <= d.1.
Proof.
  intros Hfl Hd Hk. pose proof (find_prev_cp_spec P (zlen before) (wf_cps P HP)) as (_ & _ & _ & H4).
  destruct (decide (d.1 < zlen before)) as [Hlt|]; [|lia]. specialize (H4 d Hd Hlt). lia.
Qed.

Lemma Trans_classify now before tl msg after :
  ChainOK P U T before tl -> T now -> Forall U msg -> zlen before + zlen msg <= LIMIT ->
  Trans P now before msg after ->
  ClassRes P now before after msg.
Proof.
  unfold ClassRes.
  intros Hok HT HUm Hlim HTr. pose proof (ChainOK_ne _ _ _ _ _ Hok) as Hne.
  destruct HTr as [->|skip run -> Hk Hrne Hav ->|skip run -> Hk Hc|skip bh rest backHead backH mid -> Hk Hr ->].
  - left. by rewrite classify_unch.
  - right. left. rewrite classify_ext; [split; [done|by eexists]|by apply upto_cp_ne|].
    intros h Hh. apply elem_of_app. right. destruct (upto_cp_prefix P run (zlen before - 1)) as [r Hr].
    rewrite Hr. apply elem_of_app. by left.
  - destruct Hc as (ext & x & rest & -> & Hav & Hvx & (chash & Hcp & Hneq) & ->).
    set (n := Z.to_nat ((find_prev_cp P (zlen (before ++ ext))).1 + 1)).
    destruct (decide (n < length before)%nat) as [Hlt|Hge].
    2:{ left. rewrite take_ge by lia. by rewrite classify_unch. }
    right. right. right. left. apply Forall_app in HUm as [HUs HUr]. apply Forall_app in HUr as [HUe HUr].
    apply Forall_cons in HUr as [HUx HUr].
    rewrite !zlen_app, zlen_cons in Hlim. pose proof (zlen_nonneg skip). pose proof (zlen_nonneg rest).
    destruct (ChainOK_all_valid now ext before tl Hok Hav HT HUe ltac:(lia)) as [tl' Hok'].
    destruct (last (before ++ ext)) as [tp|] eqn:Htp; [|apply last_None in Htp; by destruct before].
    pose proof Hvx as Hvx'. rewrite (valid_next_unfold P _ _ _ _ Htp) in Hvx'. apply andb_true_iff in Hvx' as [Hpx _].
    destruct (last before) as [t|] eqn:Ht; [|by apply last_None in Ht].
    pose proof (find_prev_cp_spec P (zlen (before ++ ext)) (wf_cps P HP)) as (Hp1 & Hp2 & Hp3 & Hp4).
    rewrite (classify_cut P before n t); [done|subst n; lia|done| |].
    + apply (fails_checkpoint_intro P U before skip ext x rest chash t HU).
      * rewrite app_assoc, fmap_app. apply NoDup_app. split; [apply (co_nodup _ _ _ _ _ Hok')|]. split; [|apply NoDup_singleton].
        intros y Hy Hy2. apply elem_of_list_singleton in Hy2. subst y. revert Hy.
        eapply (fresh_tip P U HU); eauto using co_nodup, co_U, ChainOK_head, ChainOK_linked. lia.
      * rewrite app_assoc. eapply linked_snoc; [by eapply ChainOK_linked|done|lia].
      * pose proof (ChainOK_head _ _ _ _ _ Hok) as Hh. clear -Hh. destruct before; [done|]. exact Hh.
      * rewrite app_assoc. apply Forall_app. split; [apply (co_U _ _ _ _ _ Hok')|by apply Forall_singleton].
      * apply Forall_app. split; [done|]. apply Forall_app. split; [done|]. by apply Forall_cons.
      * done.
      * done.
      * done.
    + subst n. replace (Z.of_nat (Z.to_nat ((find_prev_cp P (zlen (before ++ ext))).1 + 1)) - 1)
        with ((find_prev_cp P (zlen (before ++ ext))).1) by lia.
      destruct Hp1 as [->|Hin]; [cbn; lia|].
      apply orb_true_iff. left. apply existsb_exists. exists (find_prev_cp P (zlen (before ++ ext))).
      split; [by apply elem_of_list_In|lia].
  - destruct Hr as (R1 & R2 & R3 & R4 & R5 & R6 & R7 & ->).
    set (p := take (Z.to_nat (backH + 1)) before). set (d := drop (Z.to_nat (backH + 1)) before).
    assert (Hzp : zlen p = backH + 1) by (subst p; apply zlen_take; lia).
    fold p in R6. fold d in R7. rewrite zlen_snoc, Hzp.
    replace (backH + 1 + 1 - 1) with (backH + 1) by lia.
    assert (Hncp : cp_height_b P (backH + 1) = false).
    { destruct (cp_height_b P (backH + 1)) eqn:E; [|done]. apply cp_height_b_iff in E as [chash Hin].
      pose proof (no_cp_between before backH _ R5 Hin). cbn in *. lia. }
    assert (Hup : upto_cp P backH (bh :: rest) = bh :: upto_cp P (backH + 1) rest) by (cbn [upto_cp]; by rewrite Hncp).
    destruct d as [|d0 d'] eqn:Ed.
    { apply (f_equal length) in Ed. subst d. rewrite drop_length in Ed. unfold zlen in R2. cbn in Ed. lia. }
    assert (Hbefore : before = p ++ d0 :: d') by (rewrite <- Ed; subst p d; by rewrite take_drop).
    assert (Hd0 : hid d0 <> hid bh).
    { intros Heq. apply R4. rewrite <- Heq. apply elem_of_list_fmap_1. rewrite Hbefore. apply elem_of_app. right. left. }
    destruct (upto_cp_prefix P rest (backH + 1)) as [r Hr].
    destruct r as [|r0 r'].
    + right. right. left. rewrite app_nil_r in Hr. rewrite <- Hr. rewrite <- app_assoc. cbn [app].
      split; [|rewrite Hbefore at 1; rewrite !work_of_wsum, !wsum_app; lia].
      rewrite Hbefore at 1. rewrite classify_reorg; [done|done| | |].
      * intros h Hh. apply elem_of_app. by right.
      * rewrite !work_of_wsum. lia.
      * rewrite <- Hbefore, reached_cp_eq. lia.
    + set (u := upto_cp P (backH + 1) rest) in *.
      rewrite <- app_assoc. cbn [app].
      assert (Hdrop : drop (length p) before = d0 :: d') by (rewrite Hbefore at 1; apply drop_app).
      assert (Hcpf : common_prefix before (p ++ bh :: u) = p) by (rewrite Hbefore at 1; by apply common_prefix_split).
      assert (Hsub : forall h, h ∈ bh :: u -> h ∈ skip ++ bh :: rest).
      { intros h Hh. apply elem_of_app. right. rewrite Hr. apply elem_of_cons in Hh as [->|Hh]; [left|right].
        apply elem_of_app. by left. }
      destruct (work_of (bh :: u) >? work_of (d0 :: d')) eqn:Ew.
      { right. right. left. split; [|rewrite Hbefore at 1; rewrite !work_of_wsum, !wsum_app; rewrite !work_of_wsum in Ew; lia].
        rewrite Hbefore at 1. rewrite classify_reorg; [done|done|done|lia|]. rewrite <- Hbefore, reached_cp_eq. lia. }
      right. right. right. right.
      apply Forall_app in HUm as [HUs HUb].
      destruct (ChainOK_take P U T before tl (backH + 1) Hok ltac:(lia)) as [tl2 Htl2]. fold p in Htl2.
      assert (Hoff : from_hid (hid bh) (skip ++ bh :: rest) = bh :: rest).
      { apply from_hid_skip; [|done]. intros y Hy Heq. apply R4. rewrite <- Heq. by apply Hk. }
      assert (Hpne : p <> []) by (intros E; rewrite E, zlen_nil in Hzp; lia).
      destruct (last p) as [f|] eqn:Hf; [|by apply last_None in Hf].
      destruct (last (bh :: u)) as [e|] eqn:He; [|by apply last_None in He].
      unfold reorg_truncated_atb, reorg_truncatedb, offered_branch.
      rewrite Hcpf, Hdrop, drop_app, Hf, He, Hoff.
      assert (Hlen : (length (bh :: u) < length (bh :: rest))%nat).
      { rewrite Hr at 1. cbn [length]. rewrite app_length. cbn. lia. }
      assert (Hz1 : zlen p - 1 = backH) by lia.
      repeat (apply andb_true_iff; split).
      * rewrite Hbefore at 1. rewrite classify_split by done. rewrite Ew. by rewrite andb_false_r.
      * rewrite reached_cp_eq. lia.
      * rewrite take_app. apply hdrs_eqb_refl.
      * rewrite upto_checkpoint_eq, Hz1, Hup. apply hdrs_eqb_refl.
      * lia.
      * destruct (upto_cp_trunc P (bh :: rest) backH (bh :: u) r0 r' Hup) as [_ Hc]; [by rewrite Hr at 1|].
        apply cp_height_b_iff in Hc as [chash Hin].
        assert (Hat : cp_at P (zlen p + Z.of_nat (length u)) e).
        { apply (all_valid_lookup P now (bh :: rest) p _ _ R6). rewrite Hr.
          rewrite last_lookup in He. cbn [length pred] in He. rewrite app_comm_cons.
          by apply lookup_app_l_Some. }
        unfold is_cp_hit. apply existsb_exists. exists (backH + zlen (bh :: u), chash).
        split; [by apply elem_of_list_In|]. cbn [fst snd]. rewrite zlen_app, !zlen_cons.
        specialize (Hat _ Hin). cbn [fst snd] in Hat. rewrite zlen_cons in Hat. unfold zlen in *.
        apply andb_true_iff. split; [lia|]. rewrite Hat; lia.
      * assert (hprev bh = hid f) by (by eapply all_valid_first). lia.
      * by eapply all_valid_connected.
      * rewrite !work_of_wsum. lia.
      * rewrite all_valid_run by done. lia.
      * eapply all_valid_cps; eauto. rewrite Hzp. rewrite zlen_app in Hlim. pose proof (zlen_nonneg skip). unfold zlen in *. lia.
Qed.
End Classify.

Lemma legal_of_ClassRes P now before after msg : ClassRes P now before after msg ->
  legal (classify P before after msg) = true \/ reorg_truncated_atb P now before after msg = true.
Proof. intros [[-> _]|[[-> _]|[[-> _]|[->|H]]]]; auto. Qed.

Lemma work_of_ClassRes P now before after msg : ClassRes P now before after msg ->
  work_of after >= work_of before \/ classify P before after msg = CutAtCheckpoint \/
  reorg_truncated_atb P now before after msg = true.
Proof.
  intros [[_ ->]|[[_ [e ->]]|[[_ H]|[H|H]]]]; auto; left; [lia| |lia].
  rewrite !work_of_wsum, wsum_app. pose proof (wsum_nonneg e). lia.
Qed.

(* ---------- all_valid and the spec's valid_run / must_adopt ---------- *)
Lemma valid_run_all P now msg : forall pre, (forall i x, msg !! i = Some x -> cp_at P (zlen pre + Z.of_nat i) x) ->
  length (valid_run P now pre msg) = length msg -> all_valid P now pre msg.
Proof.
  induction msg as [|m msg IH]; intros pre Hcp Hlen; cbn [valid_run all_valid] in *; [done|].
  destruct (valid_next P pre now m) eqn:Hv; [|done]. cbn [length] in Hlen. split; [done|]. split.
  - specialize (Hcp 0%nat m eq_refl). by replace (zlen pre + Z.of_nat 0) with (zlen pre) in Hcp by lia.
  - apply IH; [|lia]. intros i x Hi. rewrite zlen_snoc. specialize (Hcp (S i) x Hi).
    by replace (zlen pre + Z.of_nat (S i)) with (zlen pre + 1 + Z.of_nat i) in Hcp by lia.
Qed.
Section Thms.
Context (P : params) (U : header -> Prop) (T : Z -> Prop).
Hypothesis HU : universe P U.
Hypothesis HP : wf_params P.

Lemma handle_headers_adopt now p hs s :
  Inv P U T s -> T now -> Forall U hs -> zlen hs < memCap P -> zlen (chain s) + zlen hs <= LIMIT ->
  hs <> [] -> all_valid P now (chain s) hs ->
  chain (handle_headers P now p hs s) = chain s ++ upto_cp P (zlen (chain s) - 1) hs.
Proof.
  intros HI HT HUs Hlen Hlim Hne Hav. unfold handle_headers.
  destruct hs as [|h0 hs0] eqn:Ehs; [done|]. rewrite <- Ehs in *.
  destruct (i_chain _ _ _ _ HI) as [tl Htl]. pose proof (ChainOK_ne _ _ _ _ _ Htl) as Hcne.
  assert (Hconn : headers_connected hs = true).
  { rewrite Ehs. cbn. rewrite Ehs in Hav. by eapply all_valid_connected. }
  rewrite Hconn. cbn [negb].
  pose proof (loop_connect P U T HU HP now p HT hs (acc0 s) (Inv_Live P U T s hs HI Hlen Hconn)) as Hl.
  unfold afull in Hl. cbn [acc0 a_s a_batch fmap list_fmap] in Hl. rewrite app_nil_r in Hl.
  fold (acc0 s).
  destruct (loop P now p (acc0 s) hs) as [s'|a'|a'].
  - destruct Hl as (_ & Hn & _); [|done|done|by destruct (Hn Hav)].
    intros x t tp -> Hl'. by eapply all_valid_first.
  - destruct Hl; [|done|done]. intros x t tp -> Hl'. by eapply all_valid_first.
  - destruct Hl as (HF & Hc & Hfa & _); [|done|done|].
    { intros x t tp -> Hl'. by eapply all_valid_first. }
    destruct (finalize_spec P U T a' HF) as [HI' Hc']. fold (finalize P a').
    destruct (resync_spec P U T _ (Inv_RInv _ _ _ _ HI')) as [_ Hc'']. rewrite Hc'', Hc'. exact Hfa.
Qed.

Lemma must_adopt_all_valid now before msg e : zlen before + zlen msg <= LIMIT ->
  must_adopt P now before msg = Some e ->
  msg <> [] /\ all_valid P now before msg /\ e = before ++ upto_cp P (zlen before - 1) msg.
Proof.
  intros Hlim. unfold must_adopt. destruct (last before) as [t|]; [|done]. destruct msg as [|m msg']; [done|].
  set (msg := m :: msg') in *. destruct (_ && _) eqn:E; [|done]. intros [= <-].
  apply andb_true_iff in E as [E Hcp]. apply andb_true_iff in E as [_ Hlen].
  split; [done|]. split; [|by rewrite upto_checkpoint_eq].
  apply valid_run_all; [|lia]. intros i x Hi d Hd Heq.
  apply checkpoints_ok_iff in Hcp. symmetry. apply (Hcp d x Hd). rewrite Heq.
  pose proof (lookup_lt_Some _ _ _ Hi). rewrite at_h_app_r; [|rewrite zlen_app; lia|lia].
  by replace (Z.to_nat (zlen before + Z.of_nat i - zlen before)) with i by lia.
Qed.

(* the Inv-level statements *)
Lemma step_ClassRes s o :
  Inv P U T s -> wf_op P U T o -> zlen (chain s) + op_size o <= LIMIT ->
  match o with
  | OHeaders _ now msg => ClassRes P now (chain s) (chain (step P s o)) msg
  | _ => chain (step P s o) = chain s
  end.
Proof.
  intros HI Hwf Hlim. destruct (step_spec P U T HU HP s o HI Hwf Hlim) as [_ Hr].
  destruct o as [p now msg| | | | | | | |]; cbn [StepRel] in Hr; try done.
  destruct (i_chain _ _ _ _ HI) as [tl Htl]. destruct Hwf as (HT & HUm & _).
  by eapply (Trans_classify P U T HU HP now).
Qed.

Lemma step_adopt s p now msg e :
  Inv P U T s -> wf_op P U T (OHeaders p now msg) -> zlen (chain s) + zlen msg <= LIMIT ->
  must_adopt P now (chain s) msg = Some e ->
  chain (step P s (OHeaders p now msg)) = e.
Proof.
  intros HI (HT & HUm & Hlen) Hlim Hm.
  destruct (must_adopt_all_valid now (chain s) msg e Hlim Hm) as (Hne & Hav & ->).
  cbn [step]. by apply handle_headers_adopt.
Qed.

(* the reorganisation conditions, spelled out *)
Definition reorg_conditions (now : Z) (before after msg : list header) : Prop :=
  let cp := common_prefix before after in
  let displaced := drop (length cp) before in
  let branch := drop (length cp) after in
  displaced <> [] -> branch <> [] ->
  exists skip offered,
    msg = skip ++ offered /\                                   (* the branch was offered by this message *)
    branch = upto_checkpoint P (zlen cp - 1) offered /\         (* taken up to the first checkpoint height *)
    valid_run P now cp offered = offered /\                     (* every offered header valid on its prefix *)
    checkpoints_ok P (cp ++ offered) = true /\
    work_of offered > work_of displaced /\                      (* strictly more work than what it displaces *)
    zlen cp - 1 >= reached_cp P before.                         (* fork not below the newest reached checkpoint *)

Lemma Trans_reorg_conditions now before tl msg after :
  ChainOK P U T before tl -> T now -> Forall U msg -> zlen before + zlen msg <= LIMIT ->
  Trans P now before msg after -> reorg_conditions now before after msg.
Proof.
  intros Hok HT HUm Hlim HTr. unfold reorg_conditions.
  destruct HTr as [->|skip run -> Hk Hrne Hav ->|skip run -> Hk Hc|skip bh rest backHead backH mid -> Hk Hr ->].
  - rewrite common_prefix_refl, drop_all. done.
  - rewrite common_prefix_app, drop_all. done.
  - destruct Hc as (ext & x & rest & -> & _ & _ & _ & ->).
    set (n := Z.to_nat _). intros _.
    assert (Hcp : common_prefix before (take n before) = take n before).
    { rewrite <- (take_drop n before) at 1. apply common_prefix_app_l. }
    rewrite Hcp, drop_all. done.
  - intros _ _. destruct Hr as (R1 & R2 & R3 & R4 & R5 & R6 & R7 & ->).
    set (p := take (Z.to_nat (backH + 1)) before) in *. set (d := drop (Z.to_nat (backH + 1)) before) in *.
    assert (Hzp : zlen p = backH + 1) by (subst p; apply zlen_take; lia).
    destruct d as [|d0 d'] eqn:Ed.
    { apply (f_equal length) in Ed. subst d. rewrite drop_length in Ed. unfold zlen in R2. cbn in Ed. lia. }
    assert (Hbefore : before = p ++ d0 :: d') by (rewrite <- Ed; subst p d; by rewrite take_drop).
    assert (Hd0 : hid d0 <> hid bh).
    { intros Heq. apply R4. rewrite <- Heq. apply elem_of_list_fmap_1. rewrite Hbefore. apply elem_of_app. right. left. }
    assert (Hncp : cp_height_b P (backH + 1) = false).
    { destruct (cp_height_b P (backH + 1)) eqn:E; [|done]. apply cp_height_b_iff in E as [chash Hin].
      pose proof (no_cp_between P HP before backH _ R5 Hin). cbn in *. lia. }
    rewrite zlen_snoc, Hzp. replace (backH + 1 + 1 - 1) with (backH + 1) by lia.
    rewrite <- app_assoc. cbn [app].
    assert (Hcpf : common_prefix before (p ++ bh :: upto_cp P (backH + 1) rest) = p).
    { rewrite Hbefore at 1. by apply common_prefix_split. }
    rewrite Hcpf. exists skip, (bh :: rest). split; [done|].
    rewrite Hzp. replace (backH + 1 - 1) with backH by lia. split; [|split; [|split; [|split]]].
    + rewrite drop_app, upto_checkpoint_eq. cbn [upto_cp]. by rewrite Hncp.
    + by apply all_valid_run.
    + apply Forall_app in HUm as [_ HUb].
      destruct (ChainOK_take P U T before tl (backH + 1) Hok ltac:(lia)) as [tl2 Htl2]. fold p in Htl2.
      eapply (all_valid_cps P U T HU); eauto. rewrite Hzp. rewrite zlen_app in Hlim. pose proof (zlen_nonneg skip). unfold zlen in *. lia.
    + assert (Hdrop : drop (length p) before = d0 :: d') by (rewrite Hbefore at 1; apply drop_app).
      rewrite Hdrop, !work_of_wsum. lia.
    + rewrite reached_cp_eq. lia.
Qed.

Lemma step_reorg_conditions s p now msg :
  Inv P U T s -> wf_op P U T (OHeaders p now msg) -> zlen (chain s) + zlen msg <= LIMIT ->
  reorg_conditions now (chain s) (chain (step P s (OHeaders p now msg))) msg.
Proof.
  intros HI Hwf Hlim. destruct (step_spec P U T HU HP s _ HI Hwf Hlim) as [_ Hr]. cbn [StepRel] in Hr.
  destruct (i_chain _ _ _ _ HI) as [tl Htl]. destruct Hwf as (HT & HUm & _).
  by eapply Trans_reorg_conditions.
Qed.
End Thms.

(* ---------- reachable states: after a history [pre], with [o] next ---------- *)
Lemma reach_Inv_pre P gfh pre post : wf_params P -> no_collision P (pre ++ post) -> wf_hist P (pre ++ post) ->
  let s := run P (init_state P gfh) pre in
  Inv P (U_of P (pre ++ post)) (T_of (pre ++ post)) s /\ zlen (chain s) <= 1 + ops_size pre.
Proof.
  intros HP HU [Hok Hsz] s. pose proof (no_collision_universe P _ HU) as HUu.
  rewrite ops_size_app in Hsz. pose proof (ops_size_nonneg post).
  destruct (run_Inv P (U_of P (pre ++ post)) (T_of (pre ++ post)) HUu HP pre (init_state P gfh)) as [H1 H2].
  - by apply init_Inv.
  - apply Forall_forall. intros o Ho. apply op_ok_wf; [apply elem_of_app; by left|].
    rewrite Forall_forall in Hok. apply Hok. apply elem_of_app. by left.
  - change (chain (init_state P gfh)) with [genesis P]. unfold LIMIT. rewrite zlen_cons, zlen_nil. lia.
  - split; [done|]. change (chain (init_state P gfh)) with [genesis P] in H2. rewrite zlen_cons, zlen_nil in H2. fold s in H2. lia.
Qed.

Lemma reach_step_hyps P gfh ops o : wf_params P -> no_collision P (ops ++ [o]) -> wf_hist P (ops ++ [o]) ->
  let s := run P (init_state P gfh) ops in
  let U := U_of P (ops ++ [o]) in let T := T_of (ops ++ [o]) in
  universe P U /\ Inv P U T s /\ wf_op P U T o /\ zlen (chain s) + op_size o <= LIMIT.
Proof.
  intros HP HU HW s U T. destruct (reach_Inv_pre P gfh ops [o] HP HU HW) as [HI Hz]. fold s in HI, Hz.
  destruct HW as [Hok Hsz]. rewrite ops_size_app in Hsz. cbn [ops_size foldr] in Hsz.
  split; [by apply no_collision_universe|]. split; [done|]. split.
  - apply op_ok_wf; [apply elem_of_app; right; left|]. rewrite Forall_forall in Hok. apply Hok. apply elem_of_app. right. left.
  - unfold LIMIT. fold (ops_size ops) in Hsz. lia.
Qed.

Lemma only_legal_changes P gfh ops o :
  wf_params P -> no_collision P (ops ++ [o]) -> wf_hist P (ops ++ [o]) ->
  let s := run P (init_state P gfh) ops in
  match o with
  | OHeaders _ now msg =>
      legal (classify P (chain s) (chain (step P s o)) msg) = true \/
      reorg_truncated_atb P now (chain s) (chain (step P s o)) msg = true
  | _ => chain (step P s o) = chain s
  end.
Proof.
  intros HP HU HW s. destruct (reach_step_hyps P gfh ops o HP HU HW) as (HUu & HI & Hwf & Hlim). fold s in HI, Hlim.
  pose proof (step_ClassRes P _ _ HUu HP s o HI Hwf Hlim) as H.
  destruct o; try done. by apply legal_of_ClassRes.
Qed.

Lemma work_monotone P gfh ops p now msg :
  let o := OHeaders p now msg in
  wf_params P -> no_collision P (ops ++ [o]) -> wf_hist P (ops ++ [o]) ->
  let s := run P (init_state P gfh) ops in
  work_of (chain (step P s o)) >= work_of (chain s) \/
  classify P (chain s) (chain (step P s o)) msg = CutAtCheckpoint \/
  reorg_truncated_atb P now (chain s) (chain (step P s o)) msg = true.
Proof.
  intros o HP HU HW s. destruct (reach_step_hyps P gfh ops o HP HU HW) as (HUu & HI & Hwf & Hlim). fold s in HI, Hlim.
  pose proof (step_ClassRes P _ _ HUu HP s o HI Hwf Hlim) as H. by apply work_of_ClassRes.
Qed.

Lemma reorg_conditions_thm P gfh ops p now msg :
  let o := OHeaders p now msg in
  wf_params P -> no_collision P (ops ++ [o]) -> wf_hist P (ops ++ [o]) ->
  let s := run P (init_state P gfh) ops in
  reorg_conditions P now (chain s) (chain (step P s o)) msg.
Proof.
  intros o HP HU HW s. destruct (reach_step_hyps P gfh ops o HP HU HW) as (HUu & HI & Hwf & Hlim). fold s in HI, Hlim.
  by eapply step_reorg_conditions.
Qed.

Lemma valid_extension_adopted P gfh ops p now msg e :
  let o := OHeaders p now msg in
  wf_params P -> no_collision P (ops ++ [o]) -> wf_hist P (ops ++ [o]) ->
  let s := run P (init_state P gfh) ops in
  must_adopt P now (chain s) msg = Some e ->
  chain (step P s o) = e.
Proof.
  intros o HP HU HW s Hm. destruct (reach_step_hyps P gfh ops o HP HU HW) as (HUu & HI & Hwf & Hlim). fold s in HI, Hlim.
  by eapply step_adopt.
Qed.

(* ---------- concrete histories ---------- *)
(* equal work per header (no retargeting): a tie, then a heavier branch *)
Definition ex2_pre : list op := [ONewPeer 1 0 10 true; OHeaders 1 ex_now [ex_h1; ex_h2]].
Definition ex2_tie : op := OHeaders 1 ex_now [ex_f2].
Definition ex2_heavier : op := OHeaders 1 ex_now [ex_f2; ex_f3].
(* a checkpoint at height 1 has been reached; a longer branch forking at the genesis block *)
Definition ex_e1 := ex_mk 301 100 1700.
Definition ex_e2 := ex_mk 302 301 2300.
Definition ex_e3 := ex_mk 303 302 2900.
Definition ex_e4 := ex_mk 304 303 3500.
Definition ex3_pre : list op := [ONewPeer 1 0 10 true; OHeaders 1 ex_now [ex_h1]; OHeaders 1 ex_now [ex_h2]].
Definition ex3_deep : op := OHeaders 1 ex_now [ex_e1; ex_e2; ex_e3; ex_e4].

(* the truncated reorganisation: min-difficulty rule, checkpoint at height 3 *)
Definition tr_hard : Z := 520159231.   (* 0x1f00ffff *)
Definition tr_mk (id prev bits time : Z) : header :=
  {| hid := id; hprev := prev; hnum := 0; hbits := bits; htime := time; hver := 4 |}.
Definition tr_P : params :=
  {| genesis := tr_mk 100 0 tr_hard 1000;
     powLimit := compactToBig ex_bits; powLimitBits := ex_bits;
     bpr := 2016; minTs := 302400; maxTs := 4838400; targetTs := 1209600;
     reduceMinDiff := true; minDiffRedTime := 1200; noRetarget := false; bip94 := false;
     bip34h := 0; bip65h := 0; bip66h := 0; checkpoints := [(3, 303)]; memCap := 10 |}.
Definition tr_pre : list op :=
  [ONewPeer 1 0 10 true; OHeaders 1 ex_now [tr_mk 201 100 tr_hard 1060; tr_mk 202 201 tr_hard 1120]].
Definition tr_msg : list header :=
  [tr_mk 301 100 ex_bits 2300; tr_mk 302 301 ex_bits 3600; tr_mk 303 302 ex_bits 4900;
   tr_mk 304 303 tr_hard 4960; tr_mk 305 304 tr_hard 5020].

Lemma wf_hist_intro P ops : forallb (fun o => match o with OHeaders _ _ hs => zlen hs <? memCap P | ORollback _ | OHeadersF _ _ _ _ | OHeadersR _ _ _ _ => false | _ => true end) ops = true ->
  1 + ops_size ops <= 1000000 -> wf_hist P ops.
Proof.
  intros H Hs. split; [|done]. apply Forall_forall. intros o Ho. rewrite forallb_forall in H.
  specialize (H o ltac:(by apply elem_of_list_In)). destruct o; cbn; try done. lia.
Qed.

Lemma strict_refuted :
  let o := OHeaders 1 ex_now tr_msg in
  let s := run tr_P (init_state tr_P 7) tr_pre in
  wf_params tr_P /\ no_collision tr_P (tr_pre ++ [o]) /\ wf_hist tr_P (tr_pre ++ [o]) /\
  legal (classify tr_P (chain s) (chain (step tr_P s o)) tr_msg) = false /\
  work_of (chain (step tr_P s o)) < work_of (chain s) /\
  reorg_truncated_atb tr_P ex_now (chain s) (chain (step tr_P s o)) tr_msg = true.
Proof.
  intros o s. split; [split; cbn; lia|]. split; [apply no_collision_b_sound; by vm_compute|].
  split; [apply wf_hist_intro; by vm_compute|]. split; [by vm_compute|]. split; by vm_compute.
Qed.

