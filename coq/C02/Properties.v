(* C02 — property theorems (in progress). *)
From Coq Require Import ZArith.
Example C02_placeholder : True. Proof. exact I. Qed.
