(* C02 — reorganisation only to a strictly heavier valid branch above the last
   checkpoint.  Statements only; proofs are in C02/Proofs.v over the shared
   invariant S2/Invariant.v.

   All statements are about an arbitrary reachable state: the state [s] after
   an arbitrary history [ops], and an arbitrary next operation [o].  The
   hypotheses are those of C01 (see C01/Properties.v), taken on the history
   including [o]: wf_params (checkpoint heights strictly ascending and > 0,
   retarget interval > 0, window capacity >= 1), no_collision (hash tokens
   identify headers; nothing hashes to the genesis block's previous-block
   field), wf_hist (every headers message shorter than the in-memory window,
   no externally invoked rollBackToHeight, fewer than 1000000 headers).

   FINDING.  The statement "every change is Unchanged / Extended / Reorganised /
   CutAtCheckpoint" is FALSE of the code as modelled: the header loop stops at
   the next checkpoint, so a heavier branch that crosses the next checkpoint is
   adopted only up to the checkpoint, and that part alone can carry less work
   than the headers it displaces (C02_strict_refuted; needs a branch whose
   difficulty rises after the checkpoint, e.g. the testnet min-difficulty
   rule).  Recorded as finding F27.  The theorems therefore carry the explicit
   exception [reorg_truncated_atb] of C02/Truncated.v, a boolean on plain
   lists: classify says Illegal although the fork is not below a reached
   checkpoint, the adopted branch is the proper prefix, ending on a checkpoint
   height with the checkpoint's hash, of the branch OFFERED by the message,
   and the offered branch is valid header by header, matches the checkpoints
   and has strictly more work than the displaced headers
   (reorg_truncated_atb_sound: it implies the Prop [reorg_truncated]). *)
From stdpp Require Import list.
From Coq Require Import ZArith Lia.
From Verif Require Import S2.Model C01.Spec C02.Spec C02.Truncated S2.Basics S2.Invariant C01.Proofs C02.Proofs.
Open Scope Z_scope.

(* a headers message changes the chain only in a legal way (or by a truncated
   reorganisation, see above); no other operation changes the chain *)
Theorem C02_only_legal_changes : forall P gfh ops o,
  wf_params P -> no_collision P (ops ++ [o]) -> wf_hist P (ops ++ [o]) ->
  let s := run P (init_state P gfh) ops in
  match o with
  | OHeaders _ now msg =>
      legal (classify P (chain s) (chain (step P s o)) msg) = true \/
      reorg_truncated_atb P now (chain s) (chain (step P s o)) msg = true
  | _ => chain (step P s o) = chain s
  end.
Proof. exact only_legal_changes. Qed.
Print Assumptions C02_only_legal_changes.

(* whenever accepted headers are replaced by others: the replacing headers are
   the part, up to the first checkpoint height, of a branch offered by this
   message in which every header is valid on its prefix and matches the
   checkpoints, which has strictly more work than the displaced headers and
   forks at or above the newest checkpoint the chain had reached *)
Theorem C02_reorg_conditions : forall P gfh ops p now msg,
  let o := OHeaders p now msg in
  wf_params P -> no_collision P (ops ++ [o]) -> wf_hist P (ops ++ [o]) ->
  let s := run P (init_state P gfh) ops in
  let before := chain s in
  let after := chain (step P s o) in
  let cp := common_prefix before after in
  let displaced := drop (length cp) before in
  let branch := drop (length cp) after in
  displaced <> [] -> branch <> [] ->
  exists skip offered,
    msg = skip ++ offered /\
    branch = upto_checkpoint P (zlen cp - 1) offered /\
    valid_run P now cp offered = offered /\
    checkpoints_ok P (cp ++ offered) = true /\
    work_of offered > work_of displaced /\
    zlen cp - 1 >= reached_cp P before.
Proof. exact reorg_conditions_thm. Qed.
Print Assumptions C02_reorg_conditions.

(* a fully valid batch that extends the tip is adopted, up to and including
   the first header on a checkpoint height — from ANY peer: no condition on
   the sender (sync peer or not, synced or not) is needed, the connecting
   branch of the handler does not look at the peer *)
Theorem C02_valid_extension_adopted : forall P gfh ops p now msg e,
  let o := OHeaders p now msg in
  wf_params P -> no_collision P (ops ++ [o]) -> wf_hist P (ops ++ [o]) ->
  let s := run P (init_state P gfh) ops in
  must_adopt P now (chain s) msg = Some e ->
  chain (step P s o) = e.
Proof. exact valid_extension_adopted. Qed.
Print Assumptions C02_valid_extension_adopted.

(* total work never decreases, except when headers are cut back because their
   branch failed a checkpoint (or by a truncated reorganisation) *)
Theorem C02_work_monotone : forall P gfh ops p now msg,
  let o := OHeaders p now msg in
  wf_params P -> no_collision P (ops ++ [o]) -> wf_hist P (ops ++ [o]) ->
  let s := run P (init_state P gfh) ops in
  work_of (chain (step P s o)) >= work_of (chain s) \/
  classify P (chain s) (chain (step P s o)) msg = CutAtCheckpoint \/
  reorg_truncated_atb P now (chain s) (chain (step P s o)) msg = true.
Proof. exact work_monotone. Qed.
Print Assumptions C02_work_monotone.

(* the exception is real: a reachable state and a message satisfying all
   hypotheses where the change is not legal and total work decreases
   (chain 100,201,202 of work 196611 becomes 100,301,302,303 of work 65543) *)
Theorem C02_strict_refuted :
  let o := OHeaders 1 ex_now tr_msg in
  let s := run tr_P (init_state tr_P 7) tr_pre in
  wf_params tr_P /\ no_collision tr_P (tr_pre ++ [o]) /\ wf_hist tr_P (tr_pre ++ [o]) /\
  legal (classify tr_P (chain s) (chain (step tr_P s o)) tr_msg) = false /\
  work_of (chain (step tr_P s o)) < work_of (chain s) /\
  reorg_truncated_atb tr_P ex_now (chain s) (chain (step tr_P s o)) tr_msg = true.
Proof. exact strict_refuted. Qed.
Print Assumptions C02_strict_refuted.

(* non-vacuity: a tie leaves the chain unchanged, a heavier branch is adopted,
   a heavier branch forking below a reached checkpoint is rejected, a valid
   extension must be adopted — all under the hypotheses of the theorems *)
Example C02_nonvacuous :
  let P := ex_P [] in
  let s := run P (init_state P 7) ex2_pre in
  let Pc := ex_P [(1, 101)] in
  let sc := run Pc (init_state Pc 7) ex3_pre in
  wf_params P /\ no_collision P (ex2_pre ++ [ex2_tie]) /\ wf_hist P (ex2_pre ++ [ex2_tie]) /\
  no_collision P (ex2_pre ++ [ex2_heavier]) /\ wf_hist P (ex2_pre ++ [ex2_heavier]) /\
  wf_params Pc /\ no_collision Pc (ex3_pre ++ [ex3_deep]) /\ wf_hist Pc (ex3_pre ++ [ex3_deep]) /\
  map hid (chain s) = [100; 101; 102] /\
  map hid (chain (step P s ex2_tie)) = [100; 101; 102] /\
  classify P (chain s) (chain (step P s ex2_heavier)) [ex_f2; ex_f3] = Reorganised /\
  map hid (chain (step P s ex2_heavier)) = [100; 101; 202; 203] /\
  map hid (chain sc) = [100; 101; 102] /\
  map hid (chain (step Pc sc ex3_deep)) = [100; 101; 102] /\
  map hid <$> must_adopt P ex_now (chain s) [ex_h3] = Some [100; 101; 102; 103] /\
  (* the exception excuses nothing else: had the tie been adopted, it would be a violation *)
  legal (classify P (chain s) [ex_mk 100 0 1000; ex_h1; ex_f2] [ex_f2]) = false /\
  reorg_truncated_atb P ex_now (chain s) [ex_mk 100 0 1000; ex_h1; ex_f2] [ex_f2] = false /\
  reorg_truncatedb P (chain s) [ex_mk 100 0 1000; ex_h1; ex_f2] [ex_f2] = false.
Proof.
  cbv zeta.
  repeat match goal with
  | |- _ /\ _ => split
  | |- wf_params _ => split; cbn; lia
  | |- no_collision _ _ => apply no_collision_b_sound; vm_compute; reflexivity
  | |- wf_hist _ _ => apply wf_hist_intro; vm_compute; [reflexivity|discriminate]
  end; vm_compute; reflexivity.
Qed.
