(* C02 — reorganisation only to a strictly heavier valid branch above the last
   checkpoint.  Statements only; proofs are in C02/Proofs.v over the shared
   invariant S2/Invariant.v.

   All statements are about an arbitrary reachable state: the state [s] after
   an arbitrary history [ops], and an arbitrary next operation [o].  The
   hypotheses are those of C01 (see C01/Properties.v), taken on the history
   including [o]: wf_params (checkpoint heights strictly ascending and > 0,
   retarget interval > 0, window capacity >= 1), no_collision (hash tokens
   identify headers; nothing hashes to the genesis block's previous-block
   field), wf_hist (every headers message shorter than the in-memory window,
   no externally invoked rollBackToHeight, no failing store write (OHeadersF:
   C01's and C19's subject), fewer than 1000000 headers).
   Histories may contain restarts (ORestart: a new block manager built over
   the same stores; window = stored tip only, no peers) anywhere.

   FINDING.  The statement "every change is Unchanged / Extended / Reorganised /
   CutAtCheckpoint" is FALSE of the code as modelled: the header loop stops at
   the next checkpoint, so a heavier branch that crosses the next checkpoint is
   adopted only up to the checkpoint, and that part alone can carry less work
   than the headers it displaces (C02_strict_refuted; needs a branch whose
   difficulty rises after the checkpoint, e.g. the testnet min-difficulty
   rule).  Recorded as finding F27.  The theorems therefore carry the explicit
   exception [reorg_truncated_atb] of C02/Truncated.v, a boolean on plain
   lists: classify says Illegal although the fork is not below a reached
   checkpoint, the adopted branch is the proper prefix, ending on a checkpoint
   height with the checkpoint's hash, of the branch OFFERED by the message,
   and the offered branch is valid header by header, matches the checkpoints
   and has strictly more work than the displaced headers
   (reorg_truncated_atb_sound: it implies the Prop [reorg_truncated]).

   The positive half for reorganisations (C02_heavier_branch_adopted and
   C02_heavier_branch_adopted_to_checkpoint, vocabulary in C02/SpecH.v, proofs
   in C02/ProofsH.v) carries, besides the hypotheses above, exactly the
   conditions the handler tests, each as an explicit hypothesis:
   - forks_at: the first header names the stored header at height f as its
     predecessor, f is strictly below the tip, and the first header is not the
     stored header at height f + 1 (known headers are skipped, not a fork);
   - every header of the message is valid on (stored chain up to f) ++ (the
     earlier headers of the message) at the clock reading of the message;
   - f is not below the newest checkpoint the stored chain has reached;
   - the message carries strictly more work than the stored headers above f;
   - listened_to: the sender is the sync peer or the client is current
     (handleHeadersMsg: `hmsg.peer != b.SyncPeer() && !b.BlockHeadersSynced()`
     makes the handler return without looking at the header);
   - the branch stays below the next checkpoint (otherwise the header loop
     stops there, F27: the second theorem says what is adopted then).
   Nothing else is needed: in particular no condition on the fork point being
   inside the in-memory window (the known-work walk falls back to the store),
   and the message may be as long as wf_hist allows. *)
From stdpp Require Import list.
From Coq Require Import ZArith Lia.
From Verif Require Import S2.Model C01.Spec C02.Spec C02.SpecH C02.Truncated S2.Basics S2.Invariant S2.Faults C01.Proofs C02.Proofs C02.ProofsH.
Open Scope Z_scope.

(* a headers message changes the chain only in a legal way (or by a truncated
   reorganisation, see above); no other operation changes the chain *)
Theorem C02_only_legal_changes : forall P gfh ops o,
  wf_params P -> no_collision P (ops ++ [o]) -> wf_hist P (ops ++ [o]) ->
  let s := run P (init_state P gfh) ops in
  match o with
  | OHeaders _ now msg =>
      legal (classify P (chain s) (chain (step P s o)) msg) = true \/
      reorg_truncated_atb P now (chain s) (chain (step P s o)) msg = true
  | _ => chain (step P s o) = chain s
  end.
Proof. exact only_legal_changes. Qed.
Print Assumptions C02_only_legal_changes.

(* whenever accepted headers are replaced by others: the replacing headers are
   the part, up to the first checkpoint height, of a branch offered by this
   message in which every header is valid on its prefix and matches the
   checkpoints, which has strictly more work than the displaced headers and
   forks at or above the newest checkpoint the chain had reached *)
Theorem C02_reorg_conditions : forall P gfh ops p now msg,
  let o := OHeaders p now msg in
  wf_params P -> no_collision P (ops ++ [o]) -> wf_hist P (ops ++ [o]) ->
  let s := run P (init_state P gfh) ops in
  let before := chain s in
  let after := chain (step P s o) in
  let cp := common_prefix before after in
  let displaced := drop (length cp) before in
  let branch := drop (length cp) after in
  displaced <> [] -> branch <> [] ->
  exists skip offered,
    msg = skip ++ offered /\
    branch = upto_checkpoint P (zlen cp - 1) offered /\
    valid_run P now cp offered = offered /\
    checkpoints_ok P (cp ++ offered) = true /\
    work_of offered > work_of displaced /\
    zlen cp - 1 >= reached_cp P before.
Proof. exact reorg_conditions_thm. Qed.
Print Assumptions C02_reorg_conditions.

(* a fully valid batch that extends the tip is adopted, up to and including
   the first header on a checkpoint height — from ANY peer: no condition on
   the sender (sync peer or not, synced or not) is needed, the connecting
   branch of the handler does not look at the peer *)
Theorem C02_valid_extension_adopted : forall P gfh ops p now msg e,
  let o := OHeaders p now msg in
  wf_params P -> no_collision P (ops ++ [o]) -> wf_hist P (ops ++ [o]) ->
  let s := run P (init_state P gfh) ops in
  must_adopt P now (chain s) msg = Some e ->
  chain (step P s o) = e.
Proof. exact valid_extension_adopted. Qed.
Print Assumptions C02_valid_extension_adopted.

(* a fully valid, strictly heavier branch that forks at height f, at or above
   the newest checkpoint reached, stays below the next checkpoint and comes
   from a peer the handler listens to, is adopted in full: afterwards the
   block-header chain is the old one up to height f followed by the whole
   message, the filter-header chain is cut to at most f + 1 entries, one
   disconnect notification per displaced header was emitted (highest first),
   and the sender is the sync peer *)
Theorem C02_heavier_branch_adopted : forall P gfh ops p now msg f,
  let o := OHeaders p now msg in
  wf_params P -> no_collision P (ops ++ [o]) -> wf_hist P (ops ++ [o]) ->
  let s := run P (init_state P gfh) ops in
  let pre := take (Z.to_nat (f + 1)) (chain s) in
  forks_at (chain s) msg f = true ->                                  (* a fork at height f, below the tip *)
  valid_run P now pre msg = msg ->                                    (* every header valid on its prefix *)
  reached_cp P (chain s) <= f ->                                      (* not below the newest reached checkpoint *)
  work_of msg > work_of (drop (Z.to_nat (f + 1)) (chain s)) ->        (* strictly more work than it displaces *)
  listened_to P now s p = true ->                                     (* sync peer, or the client is current *)
  below_next_checkpoint P (chain s) (f + zlen msg) = true ->          (* the branch ends below the next checkpoint *)
  let s' := step P s o in
  chain s' = pre ++ msg /\
  fchain s' = take (Z.to_nat (f + 1)) (fchain s) /\
  events s' = events s ++ disconnects (chain s) f /\
  syncPeer s' = Some p.
Proof. exact heavier_branch_adopted. Qed.
Print Assumptions C02_heavier_branch_adopted.

(* the same without the last guard, for a branch that matches the hard-coded
   checkpoints: it is adopted up to and including its first header on a
   checkpoint height (the rest is re-requested; this is the F27 truncation) *)
Theorem C02_heavier_branch_adopted_to_checkpoint : forall P gfh ops p now msg f,
  let o := OHeaders p now msg in
  wf_params P -> no_collision P (ops ++ [o]) -> wf_hist P (ops ++ [o]) ->
  let s := run P (init_state P gfh) ops in
  let pre := take (Z.to_nat (f + 1)) (chain s) in
  forks_at (chain s) msg f = true ->
  valid_run P now pre msg = msg ->
  checkpoints_ok P (pre ++ msg) = true ->                             (* the branch matches the checkpoints *)
  reached_cp P (chain s) <= f ->
  work_of msg > work_of (drop (Z.to_nat (f + 1)) (chain s)) ->
  listened_to P now s p = true ->
  let s' := step P s o in
  chain s' = pre ++ upto_checkpoint P f msg /\
  fchain s' = take (Z.to_nat (f + 1)) (fchain s) /\
  events s' = events s ++ disconnects (chain s) f /\
  syncPeer s' = Some p.
Proof. exact heavier_branch_adopted_to_checkpoint. Qed.
Print Assumptions C02_heavier_branch_adopted_to_checkpoint.

(* the same as a boolean on plain lists, which the trace monitor applies to the
   implementation's chain before and after every headers message
   ([reorg_conditions_b], C02/Truncated.v): whenever accepted headers were
   replaced, the branch offered by the message from the first replacing header
   on is valid header by header and matches EVERY hard-coded checkpoint (a
   branch that matches the next checkpoint and contradicts a later one must
   leave the chain unchanged), and what was stored is its part up to the
   first checkpoint height *)
Theorem C02_monitor_reorg_conditions : forall P gfh ops p now msg,
  let o := OHeaders p now msg in
  wf_params P -> no_collision P (ops ++ [o]) -> wf_hist P (ops ++ [o]) ->
  let s := run P (init_state P gfh) ops in
  reorg_conditions_b P now (chain s) (chain (step P s o)) msg = true.
Proof. exact monitor_reorg_conditions. Qed.
Print Assumptions C02_monitor_reorg_conditions.

(* the trace monitor's test for the two theorems above (C02/Replay.v applies
   [must_adopt_reorg] to the IMPLEMENTATION's chain before a message, with
   [listened_to] computed from the observed sync peer and peer heights) is
   sound: whenever it demands a chain e, the hypotheses of one of the two
   theorems hold for some fork height f ([reorg_hyps]: forks_at, every header
   valid on its prefix, fork not below the newest reached checkpoint,
   strictly more work, sender listened to, and either the branch ends below
   the next checkpoint and e = pre ++ msg, or the branch matches the
   checkpoints and e = pre ++ upto_checkpoint P f msg), and e IS the chain
   after the message *)
Theorem C02_monitor_reorg_sound : forall P gfh ops p now msg e,
  let o := OHeaders p now msg in
  wf_params P -> no_collision P (ops ++ [o]) -> wf_hist P (ops ++ [o]) ->
  let s := run P (init_state P gfh) ops in
  must_adopt_reorg P now (chain s) msg (listened_to P now s p) = Some e ->
  (exists f, reorg_hyps P now (chain s) msg (listened_to P now s p) f e) /\
  chain (step P s o) = e.
Proof. exact monitor_reorg_sound. Qed.
Print Assumptions C02_monitor_reorg_sound.

(* ... and the peer condition it evaluates depends only on what the trace
   observes: the stored chain, the sync peer, the peers' heights *)
Theorem C02_monitor_listened_observable : forall P now s p,
  listened_to P now (obs_state (chain s) (syncPeer s) (peers s)) p = listened_to P now s p.
Proof. exact listened_to_obs. Qed.
Print Assumptions C02_monitor_listened_observable.

(* total work never decreases, except when headers are cut back because their
   branch failed a checkpoint (or by a truncated reorganisation) *)
Theorem C02_work_monotone : forall P gfh ops p now msg,
  let o := OHeaders p now msg in
  wf_params P -> no_collision P (ops ++ [o]) -> wf_hist P (ops ++ [o]) ->
  let s := run P (init_state P gfh) ops in
  work_of (chain (step P s o)) >= work_of (chain s) \/
  classify P (chain s) (chain (step P s o)) msg = CutAtCheckpoint \/
  reorg_truncated_atb P now (chain s) (chain (step P s o)) msg = true.
Proof. exact work_monotone. Qed.
Print Assumptions C02_work_monotone.

(* ---------- after store faults ----------
   The same four statements for a headers message handled WITHOUT a fault in a
   state reached by a history that may contain store faults: failed header
   writes (OHeadersF) and failed rollbacks with the crash and restart they
   cause (OHeadersR) — [wf_hist_f] of C01/Proofs.v instead of [wf_hist]. *)
Theorem C02_only_legal_changes_after_store_faults : forall P gfh ops o,
  wf_params P -> no_collision P (ops ++ [o]) -> wf_hist_f P (ops ++ [o]) -> op_ok P o ->
  let s := run P (init_state P gfh) ops in
  match o with
  | OHeaders _ now msg =>
      legal (classify P (chain s) (chain (step P s o)) msg) = true \/
      reorg_truncated_atb P now (chain s) (chain (step P s o)) msg = true
  | _ => chain (step P s o) = chain s
  end.
Proof. exact only_legal_changes_f. Qed.
Print Assumptions C02_only_legal_changes_after_store_faults.

Theorem C02_reorg_conditions_after_store_faults : forall P gfh ops p now msg,
  let o := OHeaders p now msg in
  wf_params P -> no_collision P (ops ++ [o]) -> wf_hist_f P (ops ++ [o]) ->
  let s := run P (init_state P gfh) ops in
  reorg_conditions P now (chain s) (chain (step P s o)) msg.
Proof. exact reorg_conditions_f. Qed.
Print Assumptions C02_reorg_conditions_after_store_faults.

Theorem C02_valid_extension_adopted_after_store_faults : forall P gfh ops p now msg e,
  let o := OHeaders p now msg in
  wf_params P -> no_collision P (ops ++ [o]) -> wf_hist_f P (ops ++ [o]) ->
  let s := run P (init_state P gfh) ops in
  must_adopt P now (chain s) msg = Some e -> chain (step P s o) = e.
Proof. exact valid_extension_adopted_f. Qed.
Print Assumptions C02_valid_extension_adopted_after_store_faults.

Theorem C02_work_monotone_after_store_faults : forall P gfh ops p now msg,
  let o := OHeaders p now msg in
  wf_params P -> no_collision P (ops ++ [o]) -> wf_hist_f P (ops ++ [o]) ->
  let s := run P (init_state P gfh) ops in
  work_of (chain (step P s o)) >= work_of (chain s) \/
  classify P (chain s) (chain (step P s o)) msg = CutAtCheckpoint \/
  reorg_truncated_atb P now (chain s) (chain (step P s o)) msg = true.
Proof. exact work_monotone_f. Qed.
Print Assumptions C02_work_monotone_after_store_faults.

(* the exception is real: a reachable state and a message satisfying all
   hypotheses where the change is not legal and total work decreases
   (chain 100,201,202 of work 196611 becomes 100,301,302,303 of work 65543) *)
Theorem C02_strict_refuted :
  let o := OHeaders 1 ex_now tr_msg in
  let s := run tr_P (init_state tr_P 7) tr_pre in
  wf_params tr_P /\ no_collision tr_P (tr_pre ++ [o]) /\ wf_hist tr_P (tr_pre ++ [o]) /\
  legal (classify tr_P (chain s) (chain (step tr_P s o)) tr_msg) = false /\
  work_of (chain (step tr_P s o)) < work_of (chain s) /\
  reorg_truncated_atb tr_P ex_now (chain s) (chain (step tr_P s o)) tr_msg = true.
Proof. exact strict_refuted. Qed.
Print Assumptions C02_strict_refuted.

(* non-vacuity: a tie leaves the chain unchanged, a heavier branch is adopted,
   a heavier branch forking below a reached checkpoint is rejected, a valid
   extension must be adopted — all under the hypotheses of the theorems *)
Example C02_nonvacuous :
  let P := ex_P [] in
  let s := run P (init_state P 7) ex2_pre in
  let Pc := ex_P [(1, 101)] in
  let sc := run Pc (init_state Pc 7) ex3_pre in
  wf_params P /\ no_collision P (ex2_pre ++ [ex2_tie]) /\ wf_hist P (ex2_pre ++ [ex2_tie]) /\
  no_collision P (ex2_pre ++ [ex2_heavier]) /\ wf_hist P (ex2_pre ++ [ex2_heavier]) /\
  wf_params Pc /\ no_collision Pc (ex3_pre ++ [ex3_deep]) /\ wf_hist Pc (ex3_pre ++ [ex3_deep]) /\
  map hid (chain s) = [100; 101; 102] /\
  map hid (chain (step P s ex2_tie)) = [100; 101; 102] /\
  classify P (chain s) (chain (step P s ex2_heavier)) [ex_f2; ex_f3] = Reorganised /\
  map hid (chain (step P s ex2_heavier)) = [100; 101; 202; 203] /\
  map hid (chain sc) = [100; 101; 102] /\
  map hid (chain (step Pc sc ex3_deep)) = [100; 101; 102] /\
  map hid <$> must_adopt P ex_now (chain s) [ex_h3] = Some [100; 101; 102; 103] /\
  (* the exception excuses nothing else: had the tie been adopted, it would be a violation *)
  legal (classify P (chain s) [ex_mk 100 0 1000; ex_h1; ex_f2] [ex_f2]) = false /\
  reorg_truncated_atb P ex_now (chain s) [ex_mk 100 0 1000; ex_h1; ex_f2] [ex_f2] = false /\
  reorg_truncatedb P (chain s) [ex_mk 100 0 1000; ex_h1; ex_f2] [ex_f2] = false.
Proof.
  cbv zeta.
  repeat match goal with
  | |- _ /\ _ => split
  | |- wf_params _ => split; cbn; lia
  | |- no_collision _ _ => apply no_collision_b_sound; vm_compute; reflexivity
  | |- wf_hist _ _ => apply wf_hist_intro; vm_compute; [reflexivity|discriminate]
  end; vm_compute; reflexivity.
Qed.

(* non-vacuity of C02_heavier_branch_adopted: a history where every hypothesis
   holds (sender = sync peer, client not current) and the reorganisation
   happens, cutting the filter-header chain and emitting the disconnect; the
   same branch from a peer that is NOT the sync peer while the client IS
   current (the other disjunct of listened_to); and, with a checkpoint at
   height 3, the hypotheses of C02_heavier_branch_adopted_to_checkpoint with
   the branch taken up to the checkpoint *)
Example C02_heavier_branch_nonvacuous :
  let P := ex_P [] in
  let o := OHeaders 1 ex_now exh_msg in
  let s := run P (init_state P 7) exh_pre in
  let o3 := OHeaders 2 3000 exh_msg in
  let s3 := run P (init_state P 7) exh_pre3 in
  let Pc := ex_P [(3, 203)] in
  let oc := OHeaders 1 ex_now exh_msg_cp in
  let sc := run Pc (init_state Pc 7) exh_pre in
  (wf_params P /\ no_collision P (exh_pre ++ [o]) /\ wf_hist P (exh_pre ++ [o]) /\
   forks_at (chain s) exh_msg 1 = true /\
   valid_run P ex_now (take 2 (chain s)) exh_msg = exh_msg /\
   reached_cp P (chain s) <= 1 /\
   work_of exh_msg > work_of (drop 2 (chain s)) /\
   listened_to P ex_now s 1 = true /\ is_sync s 1 = true /\ headers_synced P ex_now s = false /\
   below_next_checkpoint P (chain s) (1 + zlen exh_msg) = true /\
   map hid (chain s) = [100; 101; 102] /\ fchain s = [7; 8; 9] /\
   map hid (chain (step P s o)) = [100; 101; 202; 203] /\ fchain (step P s o) = [7; 8] /\
   events (step P s o) = events s ++ [EDisc 102 2 101]) /\
  (no_collision P (exh_pre3 ++ [o3]) /\ wf_hist P (exh_pre3 ++ [o3]) /\
   forks_at (chain s3) exh_msg 1 = true /\
   valid_run P 3000 (take 2 (chain s3)) exh_msg = exh_msg /\
   work_of exh_msg > work_of (drop 2 (chain s3)) /\
   listened_to P 3000 s3 2 = true /\ is_sync s3 2 = false /\ headers_synced P 3000 s3 = true /\
   syncPeer s3 = Some 1 /\
   map hid (chain (step P s3 o3)) = [100; 101; 202; 203] /\ syncPeer (step P s3 o3) = Some 2) /\
  (wf_params Pc /\ no_collision Pc (exh_pre ++ [oc]) /\ wf_hist Pc (exh_pre ++ [oc]) /\
   forks_at (chain sc) exh_msg_cp 1 = true /\
   valid_run Pc ex_now (take 2 (chain sc)) exh_msg_cp = exh_msg_cp /\
   checkpoints_ok Pc (take 2 (chain sc) ++ exh_msg_cp) = true /\
   work_of exh_msg_cp > work_of (drop 2 (chain sc)) /\
   listened_to Pc ex_now sc 1 = true /\
   below_next_checkpoint Pc (chain sc) (1 + zlen exh_msg_cp) = false /\
   map hid (upto_checkpoint Pc 1 exh_msg_cp) = [202; 203] /\
   map hid (chain (step Pc sc oc)) = [100; 101; 202; 203]).
Proof.
  cbv zeta.
  repeat match goal with
  | |- _ /\ _ => split
  | |- wf_params _ => split; cbn; lia
  | |- no_collision _ _ => apply no_collision_b_sound; vm_compute; reflexivity
  | |- wf_hist _ _ => apply wf_hist_intro; vm_compute; [reflexivity|discriminate]
  | |- _ <= _ => vm_compute; discriminate
  | |- _ > _ => vm_compute; reflexivity
  end; vm_compute; reflexivity.
Qed.

(* the hypothesis listened_to cannot be dropped: the same state and branch,
   every other hypothesis of C02_heavier_branch_adopted holds, but the sender
   is not the sync peer and the client is not current: the branch is ignored.
   (Not a violation: the property speaks of peers the client listens to.) *)
Example C02_heavier_branch_needs_listening :
  let P := ex_P [] in
  let o := OHeaders 2 ex_now exh_msg in
  let s := run P (init_state P 7) exh_pre2 in
  wf_params P /\ no_collision P (exh_pre2 ++ [o]) /\ wf_hist P (exh_pre2 ++ [o]) /\
  forks_at (chain s) exh_msg 1 = true /\
  valid_run P ex_now (take 2 (chain s)) exh_msg = exh_msg /\
  reached_cp P (chain s) <= 1 /\
  work_of exh_msg > work_of (drop 2 (chain s)) /\
  below_next_checkpoint P (chain s) (1 + zlen exh_msg) = true /\
  listened_to P ex_now s 2 = false /\
  map hid (chain s) = [100; 101; 102] /\
  map hid (chain (step P s o)) = [100; 101; 102].
Proof.
  cbv zeta.
  repeat match goal with
  | |- _ /\ _ => split
  | |- wf_params _ => split; cbn; lia
  | |- no_collision _ _ => apply no_collision_b_sound; vm_compute; reflexivity
  | |- wf_hist _ _ => apply wf_hist_intro; vm_compute; [reflexivity|discriminate]
  | |- _ <= _ => vm_compute; discriminate
  | |- _ > _ => vm_compute; reflexivity
  end; vm_compute; reflexivity.
Qed.

(* nor can the second half of forks_at: a message whose first header IS the
   stored header above f satisfies every other hypothesis; the chain still
   ends up as "old chain up to f, then the message" (known headers are
   skipped, the rest extends the tip), but nothing is rolled back: the
   filter-header chain is not cut and no disconnect is emitted *)
Example C02_heavier_branch_needs_fork :
  let P := ex_P [] in
  let o := OHeaders 1 ex_now exh_msg_known in
  let s := run P (init_state P 7) exh_pre in
  wf_params P /\ no_collision P (exh_pre ++ [o]) /\ wf_hist P (exh_pre ++ [o]) /\
  forks_at (chain s) exh_msg_known 1 = false /\
  valid_run P ex_now (take 2 (chain s)) exh_msg_known = exh_msg_known /\
  reached_cp P (chain s) <= 1 /\
  work_of exh_msg_known > work_of (drop 2 (chain s)) /\
  listened_to P ex_now s 1 = true /\
  below_next_checkpoint P (chain s) (1 + zlen exh_msg_known) = true /\
  chain (step P s o) = take 2 (chain s) ++ exh_msg_known /\
  fchain (step P s o) = [7; 8; 9] /\ fchain (step P s o) <> take 2 (fchain s) /\
  events (step P s o) = events s.
Proof.
  cbv zeta.
  repeat match goal with
  | |- _ /\ _ => split
  | |- wf_params _ => split; cbn; lia
  | |- no_collision _ _ => apply no_collision_b_sound; vm_compute; reflexivity
  | |- wf_hist _ _ => apply wf_hist_intro; vm_compute; [reflexivity|discriminate]
  | |- _ <= _ => vm_compute; discriminate
  | |- _ > _ => vm_compute; reflexivity
  | |- _ <> _ => vm_compute; discriminate
  end; vm_compute; reflexivity.
Qed.

(* restarts: the state after a restart (a new block manager over the same
   stores: window = stored tip only, no peers, no sync peer), then branches
   forking BELOW the window from a peer that connected after the restart: the
   equal-work and the lighter branch leave the chain unchanged, the heavier
   one satisfies every hypothesis of C02_heavier_branch_adopted and is adopted
   (the work of the displaced headers is summed from the store) *)
Example C02_restart_nonvacuous :
  let P := ex_P [] in
  let s := run P (init_state P 7) exr_pre in
  let ot := OHeaders 2 ex_now exr_tie in
  let ol := OHeaders 2 ex_now exr_lighter in
  let oh := OHeaders 2 ex_now exr_heavier in
  wf_params P /\
  no_collision P (exr_pre ++ [ot]) /\ wf_hist P (exr_pre ++ [ot]) /\
  no_collision P (exr_pre ++ [ol]) /\ wf_hist P (exr_pre ++ [ol]) /\
  no_collision P (exr_pre ++ [oh]) /\ wf_hist P (exr_pre ++ [oh]) /\
  (let s0 := run P (init_state P 7) (take 4 exr_pre) in
   (map hid (chain s0), fchain s0, map nheight (hl s0), syncPeer s0, cands s0, peers s0, ftipVar s0, events s0) =
   ([100; 101; 102; 103], [7; 8; 9], [3], None, [], [], 2, [EConn 101 1; EConn 102 2])) /\
  map hid (chain s) = [100; 101; 102; 103] /\ map nheight (hl s) = [3] /\ syncPeer s = Some 2 /\
  map hid (chain (step P s ot)) = [100; 101; 102; 103] /\
  map hid (chain (step P s ol)) = [100; 101; 102; 103] /\
  forks_at (chain s) exr_heavier 1 = true /\
  valid_run P ex_now (take 2 (chain s)) exr_heavier = exr_heavier /\
  reached_cp P (chain s) <= 1 /\
  work_of exr_tie = work_of (drop 2 (chain s)) /\
  work_of exr_lighter < work_of (drop 2 (chain s)) /\
  work_of exr_heavier > work_of (drop 2 (chain s)) /\
  listened_to P ex_now s 2 = true /\
  below_next_checkpoint P (chain s) (1 + zlen exr_heavier) = true /\
  map hid (chain (step P s oh)) = [100; 101; 202; 203; 204] /\
  fchain (step P s oh) = [7; 8] /\
  events (step P s oh) = events s ++ [EDisc 103 3 102; EDisc 102 2 101].
Proof.
  cbv zeta.
  repeat match goal with
  | |- _ /\ _ => split
  | |- wf_params _ => split; cbn; lia
  | |- no_collision _ _ => apply no_collision_b_sound; vm_compute; reflexivity
  | |- wf_hist _ _ => apply wf_hist_intro; vm_compute; [reflexivity|discriminate]
  | |- _ <= _ => vm_compute; discriminate
  | |- _ > _ => vm_compute; reflexivity
  | |- _ < _ => vm_compute; reflexivity
  end; vm_compute; reflexivity.
Qed.
