(* C19 — the block-manager state at a moment INSIDE an operation, derived
   from the model states before and after the operation and the events the
   operation emitted (S2.Model's state and step are not changed).

   Moment k of an operation with events e_0 .. e_{n-1} (0 <= k <= n): the
   events e_0 .. e_{k-1} have been taken from the (unbuffered) notification
   channel and the block manager is blocked sending e_k; k = n: the operation
   has returned.

   blockmanager.go, rollBackToHeight: per removed block, in this order:
   RegFilterHeaders.RollbackLastBlock + filterHeaderTip := new filter tip
   (only if the filter chain reaches the block), BlockHeaders.RollbackLastBlock,
   then onBlockDisconnected.  So when the manager is blocked on
   [EDisc x h _] both stores are cut to length h (heights 0..h-1), and the
   in-memory filter tip was lowered iff a filter entry was removed.  Headers
   written inside a headers operation (the first header of a branch that is
   switched to) sit above the cut and are gone again at any later
   disconnected event of the same operation; [low_water] (the lowest height
   announced so far, pending event included) therefore gives the store length
   at every such moment, and the content below it is the content before the
   operation.

   writeCFHeadersMsg: store.WriteHeaders, then filterHeaderTip := last height,
   then one onBlockConnected per block: at every moment of the announcement
   loop the stores and the in-memory tip already have their final values. *)
From stdpp Require Import list.
From Coq Require Import ZArith Lia.
From Verif Require Import S2.Model C19.Spec.
Open Scope Z_scope.

(* the events emitted by the operation that led from s to s' *)
Definition op_events (s s' : state) : list ev := drop (length (events s)) (events s').

(* the committed chain of a state: hashes of the blocks whose filter header is stored *)
Definition committed_of (s : state) : list Z := map hid (take (length (fchain s)) (chain s)).

Definition with_events (es : list ev) (s : state) : state :=
  {| chain := chain s; fchain := fchain s; hl := hl s; syncPeer := syncPeer s; cands := cands s;
     nextCp := nextCp s; peers := peers s; ftipVar := ftipVar s; events := es; trap := trap s |}.

Definition moment_state (s s' : state) (k : nat) : state :=
  let evs := op_events s s' in
  match evs !! k with
  | Some (EDisc _ _ _) =>
    let m := low_water (zlen (chain s)) (take (S k) evs) in
    (* a filter entry was removed (and the in-memory tip lowered with it) iff
       the filter chain reached above the cut *)
    let cut := m <=? zlen (fchain s) - 1 in
    with_events (events s ++ take k evs)
      (set_ftip (if cut then m - 1 else ftipVar s)
        (set_fchain (if cut then take (zn m) (fchain s) else fchain s)
          (set_chain (take (zn m) (chain s)) s)))
  | Some (EConn _ _) => with_events (events s ++ take k evs) s'
  | None => s'
  end.

(* NotificationsSinceHeight called at moment k of the operation *)
Definition notifs_at_moment (s s' : state) (k : nat) (h : Z) : option (list (Z * Z) * Z) :=
  notifs_since h (moment_state s s' k).
