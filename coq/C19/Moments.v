(* C19 — the block-manager state at a moment INSIDE an operation, derived
   from the model states before and after the operation and the events the
   operation emitted (S2.Model's state and step are not changed).

   Moment k of an operation with events e_0 .. e_{n-1} (0 <= k <= n): the
   events e_0 .. e_{k-1} have been taken from the (unbuffered) notification
   channel and the block manager is blocked sending e_k; k = n: the operation
   has returned.

   blockmanager.go, rollBackToHeight: per removed block, in this order:
   RegFilterHeaders.RollbackLastBlock + filterHeaderTip := new filter tip
   (only if the filter chain reaches the block), BlockHeaders.RollbackLastBlock,
   then onBlockDisconnected.  So when the manager is blocked on
   [EDisc x h _] both stores are cut to length h (heights 0..h-1), and the
   in-memory filter tip was lowered iff a filter entry was removed.  Headers
   written inside a headers operation (the first header of a branch that is
   switched to) sit above the cut and are gone again at any later
   disconnected event of the same operation; [low_water] (the lowest height
   announced so far, pending event included) therefore gives the store length
   at every such moment, and the content below it is the content before the
   operation.

   writeCFHeadersMsg: store.WriteHeaders, then filterHeaderTip := last height,
   then one onBlockConnected per block: at every moment of the announcement
   loop the stores and the in-memory tip already have their final values. *)
From stdpp Require Import list.
From Coq Require Import ZArith Lia.
From Verif Require Import S2.Model C19.Spec.
Open Scope Z_scope.

(* the events emitted by the operation that led from s to s' *)
Definition op_events (s s' : state) : list ev := drop (length (events s)) (events s').

(* the committed chain of a state: hashes of the blocks whose filter header is stored *)
Definition committed_of (s : state) : list Z := map hid (take (length (fchain s)) (chain s)).

Definition with_events (es : list ev) (s : state) : state :=
  {| chain := chain s; fchain := fchain s; hl := hl s; syncPeer := syncPeer s; cands := cands s;
     nextCp := nextCp s; peers := peers s; ftipVar := ftipVar s; events := es; trap := trap s |}.

Definition moment_state (s s' : state) (k : nat) : state :=
  let evs := op_events s s' in
  match evs !! k with
  | Some (EDisc _ _ _) =>
    let m := low_water (zlen (chain s)) (take (S k) evs) in
    (* a filter entry was removed (and the in-memory tip lowered with it) iff
       the filter chain reached above the cut *)
    let cut := m <=? zlen (fchain s) - 1 in
    with_events (events s ++ take k evs)
      (set_ftip (if cut then m - 1 else ftipVar s)
        (set_fchain (if cut then take (zn m) (fchain s) else fchain s)
          (set_chain (take (zn m) (chain s)) s)))
  | Some (EConn _ _) => with_events (events s ++ take k evs) s'
  | None => s'
  end.

(* NotificationsSinceHeight called at moment k of the operation *)
Definition notifs_at_moment (s s' : state) (k : nat) (h : Z) : option (list (Z * Z) * Z) :=
  notifs_since h (moment_state s s' k).

(* ---------- the model's own rollback, stopped at every event ----------
   [roll_back_moments fuel h s]: the states in which [roll_back fuel h s] is
   about to emit its 1st, 2nd, ... disconnected event (stores already cut for
   that block, the event not yet in [events]) — [roll_back] itself with the
   intermediate states kept.  C19_rollback_moments_refine shows that
   [moment_state] agrees with it. *)
Fixpoint roll_back_moments (fuel : nat) (h : Z) (s : state) : list state :=
  match fuel with
  | O => []
  | S f =>
    let th := tip_height s in
    if th >? h then
      match at_h (chain s) th, at_h (chain s) (th - 1) with
      | Some cur, Some prev =>
        let s1 := if th <=? zlen (fchain s) - 1
                  then set_ftip (th - 1) (set_fchain (take (zn th) (fchain s)) s)
                  else s in
        let s2 := set_chain (take (zn th) (chain s1)) s1 in
        s2 :: roll_back_moments f h (add_ev (EDisc (hid cur) th (hid prev)) s2)
      | _, _ => []
      end
    else []
  end.

(* ---------- NotificationsSinceHeight with a failing header-store read ----------
   The backlog loop reads the block header store once per height h+1 .. best
   (BlockHeaders.FetchHeaderByHeight); [fault] = n >= 1 makes the n-th read of
   the request fail (n = 0: no fault).  The code returns the read error: the
   answer is an error, never the list read so far. *)
Fixpoint backlog_loop (c : list header) (fault : Z) (i : Z) (hs : list Z) (acc : list (Z * Z))
  : option (list (Z * Z)) :=
  match hs with
  | [] => Some (reverse acc)
  | x :: r =>
    if i =? fault then None
    else match at_h c x with
         | Some hd => backlog_loop c fault (i + 1) r ((hid hd, x) :: acc)
         | None => None
         end
  end.

Definition notifs_since_fault (fault : Z) (h : Z) (s : state) : option (list (Z * Z) * Z) :=
  let best := ftipVar s in
  if (h =? 0) || (best =? h) then Some ([], best)
  else if h >? best then None
  else
    let hs := map (fun i => h + 1 + Z.of_nat i) (seq 0 (zn (best - h))) in
    match backlog_loop (chain s) fault 1 hs [] with
    | Some l => Some (l, best)
    | None => None
    end.

Definition notifs_fault_at_moment (s s' : state) (k : nat) (fault h : Z) : option (list (Z * Z) * Z) :=
  notifs_since_fault fault h (moment_state s s' k).
