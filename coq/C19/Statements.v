(* C19 — vocabulary of the C19 theorems on top of S2.Model and C19.Spec
   (definitions only). *)
From stdpp Require Import list.
From Coq Require Import ZArith Lia.
From Verif Require Import S2.Model C19.Spec.
Open Scope Z_scope.

(* the state reached from the initial state by a history *)
Definition reach (P : params) (gfh : Z) (ops : list op) : state := run P (init_state P gfh) ops.

(* number of block headers delivered by a history *)
(* A headers message during which the process dies inside a rollback
   (OHeadersR: the block header store fails to truncate its file, the handler
   panics) is outside C19's domain: the notification of the block that was
   being removed dies with the process, and so do the subscribers, which start
   again from the stores.  It is given the weight of the whole domain. *)
Definition hdr_count (o : op) : nat :=
  match o with
  | OHeaders _ _ hs | OHeadersF _ _ hs _ => length hs
  | OHeadersR _ _ _ _ => Z.to_nat 1000000
  | _ => 0%nat
  end.
Fixpoint hdr_total (ops : list op) : nat :=
  match ops with [] => 0%nat | o :: r => (hdr_count o + hdr_total r)%nat end.

(* the model's domain: at most 999999 headers delivered in total (the model's
   Z -> nat conversion [zn] is exact only below 1000000) *)
Definition in_domain (ops : list op) : Prop := Z.of_nat (hdr_total ops) < 1000000.

(* a backlog entry, delivered to the subscriber as a connected event *)
Definition conn_of (p : Z * Z) : ev := EConn p.1 p.2.

(* (A) only disconnected events, exactly those of the removed block headers;
   the filter headers of removed blocks are removed with them *)
Definition ev_disc_only (s s' : state) : Prop :=
  let Hb := map hid (chain s) in let Ha := map hid (chain s') in
  events s' = events s ++ expected_disc Hb Ha /\
  fchain s' = take (common_len Hb Ha) (fchain s).

(* (B) a successful filter-header write: the block chain is untouched, the
   filter chain is extended by the batch, one connected event per new entry *)
Definition ev_conn_only (o : op) (s s' : state) : Prop :=
  exists prev fs stop, o = OWriteCF prev fs stop /\ snd (write_cf prev fs stop s) = true /\
    fs <> [] /\ chain s' = chain s /\ fchain s' = fchain s ++ fs /\
    (length (fchain s') <= length (chain s'))%nat /\
    events s' = events s ++ expected_conn (map hid (chain s')) (length (fchain s)) (length (fchain s')).

(* (C) a header message switched to a branch whose first header [x] was stored
   at height k, and the same message then rolled back below it (checkpoint
   mismatch): x is announced as disconnected although it was not in the chain
   before the operation; the events are still exact, in order *)
(* a headers message, handled with or without a failing header-store write *)
Definition headers_op (o : op) : Prop :=
  (exists p now hs, o = OHeaders p now hs) \/ (exists p now hs k, o = OHeadersF p now hs k).

Definition ev_phantom (o : op) (s s' : state) : Prop :=
  headers_op o /\
  let Hb := map hid (chain s) in
  exists (x : header) (k m : nat),
    hid x ∉ Hb /\ (1 <= m <= k)%nat /\ (k <= length Hb)%nat /\
    chain s' = take m (chain s) /\ fchain s' = take m (fchain s) /\
    events s' = events s ++ expected_disc Hb (take k Hb) ++
                [EDisc (hid x) (Z.of_nat k) (default 0 (Hb !! pred k))] ++
                expected_disc (take k Hb) (take m Hb).
