(* C19 — property theorems (in progress). *)
From Coq Require Import ZArith.
Example C19_placeholder : True. Proof. exact I. Qed.
