(* C19 — the property theorems, and nothing else.

   All theorems are about the S2 block-manager model (tree with the fixes for
   F01, F02, F14, F17, F26) and hold for EVERY parameter set [P], genesis
   filter header [gfh] and EVERY finite history [ops] of operations
   (OHeaders, OInv, ONewPeer, ODonePeer, OWriteCF, ORollback, ORestart — a
   new block manager built by newBlockManager over the same stores — and
   OHeadersF — a headers message during whose handling a write to the block
   header store fails —, in any order, with any arguments) from [init_state], i.e. in every reachable
   state [reach P gfh ops].  (Not covered: OHeadersR, a headers message during
   which the process dies inside a rollback — the notification of the block
   being removed dies with the process and its subscribers; [in_domain] gives
   it the weight of the whole domain, C19/Statements.v.)  The only hypothesis is [in_domain ops]: fewer
   than 1,000,000 block headers delivered in total (the model converts
   heights to list positions exactly only below that bound).  No hypothesis
   on [trap], on the peers or on the validity of the headers is needed. *)
From stdpp Require Import list.
From Coq Require Import ZArith Lia.
From Verif Require Import S2.Model S2.Replay C19.Spec C19.Statements C19.Moments C19.Proofs C19.ProofsM C19.Replay C19.ReplayLong C19.ProofsLong.
Open Scope Z_scope.

(* C19.1 — the events appended by ONE operation, exactly.  Either
   (A) [ev_disc_only]: one disconnected event per block header the operation
       removed ([expected_disc]: highest first, each carrying the removed
       header's hash and height and the hash of the header below it, which is
       the tip afterwards), nothing else, and the filter headers of the
       removed blocks are gone with them; an operation that removes nothing
       emits nothing; or
   (B) [ev_conn_only]: the operation is a SUCCESSFUL filter-header write; the
       block chain is unchanged, the filter chain is extended by the batch,
       and exactly one connected event per newly committed filter header is
       emitted ([expected_conn]: ascending, each carrying the hash of the block
       at that height), nothing else. *)
Theorem C19_events_per_step : forall P gfh ops o, in_domain (ops ++ [o]) ->
  let s := reach P gfh ops in let s' := step P s o in
  ev_disc_only s s' \/ ev_conn_only o s s'.
Proof. exact events_exact. Qed.
Print Assumptions C19_events_per_step.

(* The same as one formula — the one the trace monitor (C19/Replay.v) checks:
   disconnects of the removed headers, then connects of the committed ones. *)
Theorem C19_events_uniform : forall P gfh ops o, in_domain (ops ++ [o]) ->
  let s := reach P gfh ops in let s' := step P s o in
  let Hb := map hid (chain s) in let Ha := map hid (chain s') in
  let fb := length (fchain s) in let fa := length (fchain s') in
  events s' = events s ++ expected_disc Hb Ha ++ expected_conn Ha (Nat.min fb fa) fa.
Proof. exact events_uniform_exact. Qed.
Print Assumptions C19_events_uniform.

(* The case the monitor makes allowance for — a header written and rolled back
   again within one operation (a branch's first header stored, then a
   checkpoint mismatch in the same message), announced as disconnected
   although it was not in the chain before — does not occur: a branch is only
   switched to after all its headers were compared with the checkpoints, and
   the next checkpoint is never at height 0. *)
Theorem C19_no_phantom : forall P gfh ops o, in_domain (ops ++ [o]) ->
  ~ ev_phantom o (reach P gfh ops) (step P (reach P gfh ops) o).
Proof. exact no_phantom. Qed.
Print Assumptions C19_no_phantom.

(* C19.2 — in every reachable state the filter chain is non-empty and not
   longer than the block chain, the in-memory filter tip is its height, and
   replaying ALL emitted events from the genesis never fails and yields
   exactly the committed chain (the blocks with committed filter headers). *)
Theorem C19_invariant : forall P gfh ops, in_domain ops ->
  let s := reach P gfh ops in
  1 <= zlen (fchain s) /\ zlen (fchain s) <= zlen (chain s) /\
  ftipVar s = zlen (fchain s) - 1 /\
  replay [hid (genesis P)] (events s) = Some (map hid (take (length (fchain s)) (chain s))).
Proof. exact invariant. Qed.
Print Assumptions C19_invariant.

(* C19.3 — NotificationsSinceHeight in every reachable state, for every
   height h >= 0: height 0 yields an empty backlog; 0 < h <= filter tip
   yields exactly the committed blocks above h (empty at h = filter tip)
   together with the filter tip; a height above the filter tip is an error. *)
Theorem C19_backlog_exact : forall P gfh ops h, in_domain ops -> 0 <= h ->
  let s := reach P gfh ops in
  notifs_since h s =
  if h =? 0 then Some ([], ftipVar s)
  else if h <=? ftipVar s
       then Some (expected_backlog (map hid (chain s)) (length (fchain s)) h, ftipVar s)
       else None.
Proof. exact backlog_exact. Qed.
Print Assumptions C19_backlog_exact.

(* C19.4 — a subscriber that holds the chain up to a committed height h > 0,
   is handed the backlog for h, and then receives everything emitted by ANY
   further operations, ends with exactly the committed chain of the later
   state; no event of the replay is rejected. *)
Theorem C19_backlog_then_events : forall P gfh ops1 ops2 h, in_domain (ops1 ++ ops2) ->
  let s1 := reach P gfh ops1 in let s2 := run P s1 ops2 in
  0 < h <= ftipVar s1 ->
  exists bl later,
    notifs_since h s1 = Some (bl, ftipVar s1) /\
    events s2 = events s1 ++ later /\
    replay (map hid (take (zn h + 1) (chain s1))) (map conn_of bl ++ later) =
      Some (map hid (take (length (fchain s2)) (chain s2))).
Proof. exact backlog_then_events. Qed.
Print Assumptions C19_backlog_then_events.

(* C19.5 — a backlog requested at ANY moment, also in the middle of an
   operation.  The notification channel is unbuffered and the subscription
   manager asks for the backlog from the goroutine that consumes it, so the
   request can arrive while the block manager is blocked handing over event k
   of the events [evs] of the running operation o (events 0..k-1 delivered;
   k = length evs: o has returned).  [moment_state s s' k] (C19/Moments.v) is
   the block-manager state at that moment and [committed_at] (C19/Spec.v) the
   committed chain at that moment in the vocabulary of the property.  For
   every operation applied in every reachable state and every moment k of it:
   the committed chain of the moment state is [committed_at ...] (= [cm]), it
   is non-empty and the in-memory filter tip is its height; for every height
   h >= 0 NotificationsSinceHeight answers exactly as C19.3 says for [cm]
   (the backlog for 0 < h <= tip is exactly the committed blocks above h AT
   THAT MOMENT); and a subscriber that holds the committed chain up to such an
   h, is handed that backlog and then receives the REMAINING events
   [drop k evs] of the operation ends with exactly the committed chain after
   the operation (connected events for blocks it already holds are skipped,
   no event of the replay is rejected).  With C19.4 applied to the state after
   o this extends to all later operations. *)
Theorem C19_backlog_any_moment : forall P gfh ops o k h, in_domain (ops ++ [o]) ->
  let s := reach P gfh ops in let s' := step P s o in
  let evs := op_events s s' in
  (k <= length evs)%nat ->
  let m := moment_state s s' k in
  let cm := committed_at (committed_of s) (committed_of s') evs k in
  committed_of m = cm /\ ftipVar m = zlen cm - 1 /\ 1 <= zlen cm /\
  (0 <= h -> notifs_at_moment s s' k h =
     if h =? 0 then Some ([], zlen cm - 1)
     else if h <=? zlen cm - 1 then Some (moment_backlog cm h, zlen cm - 1) else None) /\
  (0 < h <= zlen cm - 1 ->
     replay (take (zn h + 1) cm) (map conn_of (moment_backlog cm h) ++ drop k evs) =
       Some (committed_of s')).
Proof. exact backlog_any_moment. Qed.
Print Assumptions C19_backlog_any_moment.

(* C19.6 — [moment_state] against the model's own rollback.  S2.Model's
   [roll_back] cuts the filter chain (lowering the in-memory tip), cuts the
   block chain and THEN appends the disconnected event, block by block, in
   the statement order of rollBackToHeight; [roll_back_moments] is that same
   function with the state before each event kept.  For a rollback applied in
   any reachable state it stops exactly once per emitted event, and the k-th
   stop has the block chain, filter chain, in-memory filter tip and events of
   [moment_state] at moment k.  (Within a headers message the rollbacks start
   from the stores as they were before the message — C19.1 and C19_no_phantom
   — so this is the check of the derivation in Moments.v for disconnected
   events; for connected events [moment_state] is the final state by
   definition, as writeCFHeadersMsg commits before it announces.) *)
Theorem C19_rollback_moments_refine : forall P gfh ops h k, in_domain ops ->
  let s := reach P gfh ops in let s' := step P s (ORollback h) in
  let tr := roll_back_moments (length (chain s)) h s in
  length tr = length (op_events s s') /\
  forall m, tr !! k = Some m ->
    chain m = chain (moment_state s s' k) /\ fchain m = fchain (moment_state s s' k) /\
    ftipVar m = ftipVar (moment_state s s' k) /\ events m = events (moment_state s s' k).
Proof. exact rollback_moments_refine. Qed.
Print Assumptions C19_rollback_moments_refine.

(* C19.7 — a backlog request during which a read of the block header store
   fails (the n-th FetchHeaderByHeight of the request, n >= 1; the loop reads
   heights h+1 .. tip in order).  At every moment (between operations: k =
   length evs, i.e. the state after o; inside an operation: k < length evs):
   the answer is an ERROR exactly if the loop gets as far as the failing read
   (0 < h < tip and n <= tip - h) and the fault-free answer of C19.5 otherwise;
   so an answer without error is always the exact backlog of the moment's
   committed chain — never a proper prefix of it. *)
Theorem C19_backlog_fault_is_error : forall P gfh ops o k n h, in_domain (ops ++ [o]) ->
  let s := reach P gfh ops in let s' := step P s o in
  let evs := op_events s s' in
  (k <= length evs)%nat -> 0 <= h ->
  let cm := committed_at (committed_of s) (committed_of s') evs k in
  notifs_fault_at_moment s s' k n h =
    (if (0 <? h) && (h <? zlen cm - 1) && (1 <=? n) && (n <=? zlen cm - 1 - h) then None
     else notifs_at_moment s s' k h) /\
  (notifs_fault_at_moment s s' k n h = None \/
   notifs_fault_at_moment s s' k n h =
     Some (if h =? 0 then [] else moment_backlog cm h, zlen cm - 1)).
Proof. exact backlog_fault_is_error. Qed.
Print Assumptions C19_backlog_fault_is_error.

(* C19.8 — a restart (a new block manager built by newBlockManager over the
   same stores) emits no notification, leaves both stores and the in-memory
   filter tip as they were, has a single moment (the state after it), and
   every backlog request is answered as before it. *)
Theorem C19_restart_silent : forall P gfh ops, in_domain ops ->
  let s := reach P gfh ops in let s' := step P s ORestart in
  events s' = events s /\ chain s' = chain s /\ fchain s' = fchain s /\ ftipVar s' = ftipVar s /\
  op_events s s' = [] /\ (forall k, moment_state s s' k = s') /\
  (forall h, notifs_since h s' = notifs_since h s).
Proof. exact restart_silent. Qed.
Print Assumptions C19_restart_silent.

(* C19.9 — the replay of the long-chain backlog histories (C19/ReplayLong.v:
   both real header stores filled with thousands of entries, backlog requests
   from up to the whole chain below the committed tip) judges with the real
   things although it avoids a list lookup per entry: whenever the recorded
   store contents pass its sanity test [long_pre], the answer it expects from
   the model IS S2.Model.notifs_since on the state with these store contents,
   and its test of the implementation's answer IS [backlog_ok], the formula of
   C19.3. *)
Theorem C19_long_chain_replay_faithful : forall c h q, long_pre c = true -> 0 <= h ->
  model_answer c (unruns (lchain c)) h = notifs_since h (lstate c) /\
  backlog_ok_fast (unruns (lchain c)) (zn (lflen c)) q =
    backlog_ok (map fst (unruns (lchain c))) (zn (lflen c)) q.
Proof. exact long_replay_faithful. Qed.
Print Assumptions C19_long_chain_replay_faithful.

(* Non-vacuity: a peer, two header batches and two filter-header batches
   (heights 1-2, then 3-4 of a chain of height 6); a 4-header branch forking
   at height 3 that removes block 4 (filter header committed) and blocks 5, 6
   (never committed); a filter-header batch on the new branch; backlog
   queries before and after; the backlog-then-events replay of a subscriber
   at height 2. *)
Definition nv_hdr (i prev t : Z) : header :=
  {| hid := i; hprev := prev; hnum := 1; hbits := 545259519; htime := t; hver := 4 |}.
Definition nv_P : params :=
  {| genesis := nv_hdr 1 0 1000;
     powLimit := 0x7fffffffffffffffffffffffffffffffffffffffffffffffffffffffffffffff; powLimitBits := 545259519;
     bpr := 2016; minTs := 302400; maxTs := 4838400; targetTs := 1209600;
     reduceMinDiff := false; minDiffRedTime := 1200; noRetarget := true; bip94 := false;
     bip34h := 0; bip65h := 0; bip66h := 0; checkpoints := []; memCap := 40 |}.
Definition nv_ops1 : list op :=
  [ ONewPeer 1 0 100 true;
    OHeaders 1 2000 [nv_hdr 2 1 1010; nv_hdr 3 2 1020; nv_hdr 4 3 1030];
    OWriteCF 900 [901; 902] 3;
    OHeaders 1 2000 [nv_hdr 5 4 1040; nv_hdr 6 5 1050; nv_hdr 7 6 1060];
    OWriteCF 902 [903; 904] 5 ].
Definition nv_ops2 : list op :=
  [ OHeaders 1 2000 [nv_hdr 105 4 1041; nv_hdr 106 105 1051; nv_hdr 107 106 1061; nv_hdr 108 107 1071];
    OWriteCF 903 [914; 915] 106 ].
Definition nv_show (s : state) := (map hid (chain s), fchain s, ftipVar s, events s, trap s).

Example C19_nonvacuous :
  in_domain (nv_ops1 ++ nv_ops2) /\
  let s1 := reach nv_P 900 nv_ops1 in
  let s2 := run nv_P s1 (take 1 nv_ops2) in
  let s3 := run nv_P s1 nv_ops2 in
  nv_show s1 = ([1; 2; 3; 4; 5; 6; 7], [900; 901; 902; 903; 904], 4,
                [EConn 2 1; EConn 3 2; EConn 4 3; EConn 5 4], false) /\
  (notifs_since 2 s1, notifs_since 0 s1, notifs_since 4 s1, notifs_since 5 s1) =
    (Some ([(4, 3); (5, 4)], 4), Some ([], 4), Some ([], 4), None) /\
  nv_show s2 = ([1; 2; 3; 4; 105; 106; 107; 108], [900; 901; 902; 903], 3,
                [EConn 2 1; EConn 3 2; EConn 4 3; EConn 5 4; EDisc 7 6 6; EDisc 6 5 5; EDisc 5 4 4], false) /\
  (notifs_since 2 s2, notifs_since 3 s2, notifs_since 4 s2) = (Some ([(4, 3)], 3), Some ([], 3), None) /\
  nv_show s3 = ([1; 2; 3; 4; 105; 106; 107; 108], [900; 901; 902; 903; 914; 915], 5,
                [EConn 2 1; EConn 3 2; EConn 4 3; EConn 5 4; EDisc 7 6 6; EDisc 6 5 5; EDisc 5 4 4;
                 EConn 105 4; EConn 106 5], false) /\
  notifs_since 2 s3 = Some ([(4, 3); (105, 4); (106, 5)], 5) /\
  replay [1; 2; 3] (map conn_of [(4, 3); (5, 4)] ++ drop (length (events s1)) (events s3)) =
    Some [1; 2; 3; 4; 105; 106].
Proof. split; [vm_compute; reflexivity|]. vm_compute. repeat split; reflexivity. Qed.

(* Non-vacuity of C19.5: a filter-header batch of four blocks (heights 1-4 of
   a chain of height 6) probed after two of its four connected events; then a
   5-header branch forking at height 2 that removes blocks 3, 4 (filter header
   committed) and 5, 6 (not committed), probed while the manager is blocked on
   the third and on the fourth of its four disconnected events. *)
Definition nvm_ops : list op :=
  [ ONewPeer 1 0 100 true;
    OHeaders 1 2000 [nv_hdr 2 1 1010; nv_hdr 3 2 1020; nv_hdr 4 3 1030];
    OHeaders 1 2000 [nv_hdr 5 4 1040; nv_hdr 6 5 1050; nv_hdr 7 6 1060] ].
Definition nvm_cf : op := OWriteCF 900 [901; 902; 903; 904] 5.
Definition nvm_reorg : op :=
  OHeaders 1 2000 [nv_hdr 104 3 1031; nv_hdr 105 104 1041; nv_hdr 106 105 1051; nv_hdr 107 106 1061; nv_hdr 108 107 1071].

Example C19_moments_nonvacuous :
  in_domain ((nvm_ops ++ [nvm_cf]) ++ [nvm_reorg]) /\
  let s0 := reach nv_P 900 nvm_ops in
  let s1 := step nv_P s0 nvm_cf in
  let s2 := step nv_P s1 nvm_reorg in
  (* the batch: four connected events; in the middle (k = 2) the committed
     chain is already the final one and the backlog for height 1 covers the
     two blocks already announced and the two still to come *)
  op_events s0 s1 = [EConn 2 1; EConn 3 2; EConn 4 3; EConn 5 4] /\
  committed_at (committed_of s0) (committed_of s1) (op_events s0 s1) 2 = [1; 2; 3; 4; 5] /\
  notifs_at_moment s0 s1 2 1 = Some ([(3, 2); (4, 3); (5, 4)], 4) /\
  replay [1; 2] (map conn_of [(3, 2); (4, 3); (5, 4)] ++ drop 2 (op_events s0 s1)) = Some [1; 2; 3; 4; 5] /\
  (* the reorganisation: four disconnected events, two of them for committed blocks *)
  op_events s1 s2 = [EDisc 7 6 6; EDisc 6 5 5; EDisc 5 4 4; EDisc 4 3 3] /\
  map hid (chain s2) = [1; 2; 3; 104; 105; 106; 107; 108] /\ committed_of s2 = [1; 2; 3] /\
  (* blocked on the third event: block 4 (height 3) is still committed *)
  committed_at (committed_of s1) (committed_of s2) (op_events s1 s2) 2 = [1; 2; 3; 4] /\
  notifs_at_moment s1 s2 2 2 = Some ([(4, 3)], 3) /\ notifs_at_moment s1 s2 2 4 = None /\
  replay [1; 2; 3] (map conn_of [(4, 3)] ++ drop 2 (op_events s1 s2)) = Some [1; 2; 3] /\
  (* blocked on the fourth event *)
  committed_at (committed_of s1) (committed_of s2) (op_events s1 s2) 3 = [1; 2; 3] /\
  notifs_at_moment s1 s2 3 1 = Some ([(3, 2)], 2) /\
  replay [1; 2] (map conn_of [(3, 2)] ++ drop 3 (op_events s1 s2)) = Some [1; 2; 3] /\
  (* before the first event nothing has been rolled back; after the last one the state is s2 *)
  notifs_at_moment s1 s2 0 1 = Some ([(3, 2); (4, 3); (5, 4)], 4) /\
  moment_state s1 s2 4 = s2 /\
  (* the model's rollback to height 2, stopped before each of its four events:
     (block chain length, filter chain length, in-memory filter tip) *)
  map (fun m => (zlen (chain m), zlen (fchain m), ftipVar m)) (roll_back_moments 7 2 s1) =
    [(6, 5, 4); (5, 5, 4); (4, 4, 3); (3, 3, 2)] /\
  (* a failing header-store read: after the batch (tip 4) a request for
     height 1 reads heights 2, 3, 4; the 2nd read failing is an error, a 4th
     read never happens; inside the reorganisation (blocked on the third
     event, tip 3) a request for height 2 makes one read *)
  notifs_fault_at_moment s0 s1 4 2 1 = None /\
  notifs_fault_at_moment s0 s1 4 4 1 = Some ([(3, 2); (4, 3); (5, 4)], 4) /\
  notifs_fault_at_moment s1 s2 2 1 2 = None /\
  notifs_fault_at_moment s1 s2 2 2 2 = Some ([(4, 3)], 3).
Proof. split; [vm_compute; reflexivity|]. vm_compute. repeat split; reflexivity. Qed.

(* Non-vacuity with a restart: after nv_ops1 the process is restarted (a new
   block manager over the same stores): nothing is emitted, every moment of
   the restart is the state after it, the committed chain and the backlog
   answers are unchanged, the in-memory window is the stored tip alone and
   there is no peer.  A peer that connects afterwards reveals the branch of
   nv_ops2, which forks three blocks below the only header in the window; it
   is adopted and the three disconnected events are emitted as before. *)
Definition nvr_reorg : op :=
  OHeaders 2 2000 [nv_hdr 105 4 1041; nv_hdr 106 105 1051; nv_hdr 107 106 1061; nv_hdr 108 107 1071].
Example C19_restart_nonvacuous :
  in_domain (nv_ops1 ++ [ORestart; ONewPeer 2 0 100 true; nvr_reorg]) /\
  let s1 := reach nv_P 900 nv_ops1 in
  let s2 := step nv_P s1 ORestart in
  let s3 := step nv_P s2 (ONewPeer 2 0 100 true) in
  let s4 := step nv_P s3 nvr_reorg in
  op_events s1 s2 = [] /\ moment_state s1 s2 0 = s2 /\
  nv_show s2 = nv_show s1 /\
  (map nheight (hl s2), syncPeer s2, cands s2, peers s2) = ([6], None, [], []) /\
  (notifs_since 2 s2, notifs_since 0 s2, notifs_since 4 s2, notifs_since 5 s2) =
    (Some ([(4, 3); (5, 4)], 4), Some ([], 4), Some ([], 4), None) /\
  syncPeer s3 = Some 2 /\
  nv_show s4 = ([1; 2; 3; 4; 105; 106; 107; 108], [900; 901; 902; 903], 3,
                [EConn 2 1; EConn 3 2; EConn 4 3; EConn 5 4; EDisc 7 6 6; EDisc 6 5 5; EDisc 5 4 4], false) /\
  op_events s3 s4 = [EDisc 7 6 6; EDisc 6 5 5; EDisc 5 4 4].
Proof. split; [vm_compute; reflexivity|]. vm_compute. repeat split; reflexivity. Qed.

(* Non-vacuity with a failing header-store write: the branch of nv_ops2
   arrives, the three blocks above the fork point are rolled back and
   announced, then the write of the branch's first header fails (k = 1): the
   chain stays at the fork point, the events are exactly the three
   disconnects, replaying all events still yields the committed chain, and
   the backlog answers are those of the shorter chain.  With k = 2 the first
   header is stored and the write of the rest fails. *)
Example C19_write_fault_nonvacuous :
  let hs := [nv_hdr 105 4 1041; nv_hdr 106 105 1051; nv_hdr 107 106 1061; nv_hdr 108 107 1071] in
  in_domain (nv_ops1 ++ [OHeadersF 1 2000 hs 1]) /\
  let s1 := reach nv_P 900 nv_ops1 in
  let s2 := step nv_P s1 (OHeadersF 1 2000 hs 1) in
  let s3 := step nv_P s1 (OHeadersF 1 2000 hs 2) in
  nv_show s2 = ([1; 2; 3; 4], [900; 901; 902; 903], 3,
                [EConn 2 1; EConn 3 2; EConn 4 3; EConn 5 4; EDisc 7 6 6; EDisc 6 5 5; EDisc 5 4 4], false) /\
  replay [1] (events s2) = Some [1; 2; 3; 4] /\
  (notifs_since 2 s2, notifs_since 3 s2, notifs_since 4 s2) = (Some ([(4, 3)], 3), Some ([], 3), None) /\
  (map nheight (hl s2), nextCp s2) = ([3], None) /\
  nv_show s3 = ([1; 2; 3; 4; 105], [900; 901; 902; 903], 3,
                [EConn 2 1; EConn 3 2; EConn 4 3; EConn 5 4; EDisc 7 6 6; EDisc 6 5 5; EDisc 5 4 4], false) /\
  map nheight (hl s3) = [4].
Proof. split; [vm_compute; reflexivity|]. vm_compute. repeat split; reflexivity. Qed.
