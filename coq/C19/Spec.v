(* C19 — emitted chain events mirror how the committed chain changed. *)
From stdpp Require Import list.
From Coq Require Import ZArith Lia.
From Verif Require Import S2.Model.
Open Scope Z_scope.

(* a subscriber replaying events over the chain it holds (hash, by height) *)
Definition replay_ev (sub : list Z) (e : ev) : option (list Z) :=
  match e with
  | EConn x h =>
    if (h <? zlen sub) then
      (match at_h sub h with Some y => if y =? x then Some sub else None | None => None end)
    else if h =? zlen sub then Some (sub ++ [x]) else None
  | EDisc x h _ =>
    match last sub with
    | Some y => if (y =? x) && (h =? zlen sub - 1) then Some (take (zn h) sub) else Some sub
    | None => Some sub
    end
  end.

Fixpoint replay (sub : list Z) (es : list ev) : option (list Z) :=
  match es with
  | [] => Some sub
  | e :: r => match replay_ev sub e with Some s => replay s r | None => None end
  end.

(* events a change of the two committed chains must produce *)
Fixpoint common_len (a b : list Z) : nat :=
  match a, b with
  | x :: a', y :: b' => if x =? y then S (common_len a' b') else O
  | _, _ => O
  end.

(* one disconnected event per removed block header, highest first, carrying
   the header below it as the new tip *)
Definition expected_disc (before after : list Z) : list ev :=
  let k := common_len before after in
  map (fun i => let h := Z.of_nat i in
                EDisc (default 0 (before !! i)) h (default 0 (before !! pred i)))
      (reverse (seq k (length before - k))).

(* one connected event per block whose filter header was committed, ascending *)
Definition expected_conn (chain_after : list Z) (fbefore fafter : nat) : list ev :=
  map (fun i => EConn (default 0 (chain_after !! i)) (Z.of_nat i)) (seq fbefore (fafter - fbefore)).

(* the backlog for a non-zero height: the committed blocks above it *)
Definition expected_backlog (chain : list Z) (flen : nat) (h : Z) : list (Z * Z) :=
  map (fun i => (default 0 (chain !! i), Z.of_nat i)) (seq (zn h + 1) (flen - (zn h + 1))).

(* ---------- moments INSIDE an operation ----------
   The notification channel is unbuffered and the subscription manager asks
   for a backlog from the goroutine that consumes it, so a backlog request can
   arrive while the block manager is blocked handing over event k of the
   operation's events [evs] (events 0..k-1 delivered; k = length evs: the
   operation has finished).  [cb]/[ca]: committed chain (hashes by height)
   before / after the operation.

   - blocked on a disconnected event: every store rollback precedes its event
     and blocks written inside the operation are never filter-committed inside
     it, so the committed chain is [cb] cut below the lowest height announced
     as disconnected so far, the pending event included;
   - blocked on a connected event (filter-header batch): the batch was
     committed before its first event, so the committed chain is already [ca];
   - finished: [ca]. *)
Definition low_water (cap : Z) (es : list ev) : Z :=
  fold_left (fun m e => match e with EDisc _ h _ => Z.min m h | EConn _ _ => m end) es cap.

Definition committed_at (cb ca : list Z) (evs : list ev) (k : nat) : list Z :=
  match evs !! k with
  | Some (EDisc _ _ _) => take (zn (low_water (zlen cb) (take (S k) evs))) cb
  | _ => ca
  end.

(* the backlog for a non-zero height requested at a moment whose committed
   chain is [cm] *)
Definition moment_backlog (cm : list Z) (h : Z) : list (Z * Z) := expected_backlog cm (length cm) h.
