(* C19 — replay of the long-chain backlog histories of `bm -prop C19`.

   A history of this family fills the two real header stores with several
   thousand entries, builds a real block manager over them and asks it for
   backlogs (NotificationsSinceHeight) from heights far below the committed
   tip, in particular 2001, 2000 and 1999 blocks below it (2000 = the number
   of headers of one wire message).  Everything is run-length encoded: a run
   (tok, height, len) stands for the entries (tok + i, height + i), i < len;
   the block at height h has hash token h + 1, so a chain read back intact is
   one run.  Kind 1: the answer differs from S2.Model.notifs_since on a state
   with these store contents ([lstate]; computed by [model_answer], which
   C19/ProofsLong.v proves equal to it).  Kind 2: the answer is not what C19_backlog_exact
   says for the implementation's own store contents ([backlog_ok_fast] =
   [backlog_ok] of C19/Replay.v, lemma backlog_ok_fast_eq: exactly the
   committed blocks above the height, and the committed tip), or the in-memory filter tip is not the filter store's. *)
From stdpp Require Import list.
From Coq Require Import ZArith.
From Verif Require Import S2.Model S2.Replay C19.Spec C19.Replay.
Open Scope Z_scope.

Fixpoint unrun_go (n : nat) (t h : Z) : list (Z * Z) :=
  match n with O => [] | S k => (t, h) :: unrun_go k (t + 1) (h + 1) end.
Definition unrun (r : Z * Z * Z) : list (Z * Z) := unrun_go (zn r.2) r.1.1 r.1.2.
Definition unruns (rs : list (Z * Z * Z)) : list (Z * Z) := flat_map unrun rs.

Record lcase := {
  lid : Z;
  lchain : list (Z * Z * Z);     (* the block header store read by height: (token, height) runs *)
  lflen : Z;                     (* entries of the filter header store *)
  lftip : Z;                     (* in-memory filterHeaderTip *)
  lreqs : list (Z * option (list (Z * Z * Z) * Z))   (* (height asked, answer: runs and best height) *)
}.

Definition lhdr (t : Z) : header :=
  {| hid := t; hprev := t - 1; hnum := 0; hbits := 0; htime := 0; hver := 0 |}.

Fixpoint heights_from0 (h : Z) (l : list (Z * Z)) : bool :=
  match l with [] => true | p :: r => (p.2 =? h) && heights_from0 (h + 1) r end.

Definition lstate (c : lcase) : state :=
  {| chain := map (fun p => lhdr p.1) (unruns (lchain c));
     fchain := map (fun i => 1000000 + Z.of_nat i) (seq 0 (zn (lflen c)));
     hl := []; syncPeer := None; cands := []; nextCp := None; peers := [];
     ftipVar := lftip c; events := []; trap := false |}.

Definition answer_of (a : option (list (Z * Z * Z) * Z)) : option (list (Z * Z) * Z) :=
  match a with Some (rs, best) => Some (unruns rs, best) | None => None end.

Definition ans_eqb (a b : option (list (Z * Z) * Z)) : bool :=
  opt_eqb (fun p q => list_eqb pair_eqb p.1 q.1 && (p.2 =? q.2)) a b.

(* [expected_backlog] on a chain given as (token, height) pairs whose heights
   are their positions, without a lookup per entry *)
Definition expected_fast (ch : list (Z * Z)) (flen : nat) (h : Z) : list (Z * Z) :=
  drop (zn h + 1) (take flen ch).

Definition backlog_ok_fast (ch : list (Z * Z)) (flen : nat) (q : Z * option (list (Z * Z) * Z)) : bool :=
  let '(h, r) := q in
  if h =? 0 then match r with Some ([], _) => true | _ => false end
  else match r with
       | Some (l, best) => list_eqb pair_eqb l (expected_fast ch flen h) && (best =? Z.of_nat flen - 1)
       | None => Z.of_nat flen - 1 <? h
       end.

(* S2.Model.notifs_since on [lstate c], without a lookup per entry
   (C19/ProofsLong.v, model_answer_eq) *)
Definition model_answer (c : lcase) (ch : list (Z * Z)) (h : Z) : option (list (Z * Z) * Z) :=
  if h =? 0 then Some ([], lftip c)
  else if h <=? lftip c then Some (expected_fast ch (zn (lflen c)) h, lftip c)
  else None.

Fixpoint req_rows (c : lcase) (ch : list (Z * Z)) (i : Z)
         (rs : list (Z * option (list (Z * Z * Z) * Z))) : list (Z * Z * Z * Z) :=
  match rs with
  | [] => []
  | (h, a) :: rest =>
    let ans := answer_of a in
    (if (0 <=? h) && ans_eqb (model_answer c ch h) ans then [] else [(lid c, 1, i, 0)]) ++
    (if backlog_ok_fast ch (zn (lflen c)) (h, ans) then [] else [(lid c, 2, i, 0)]) ++
    req_rows c ch (i + 1) rest
  end.

Definition long_pre (c : lcase) : bool :=
  let ch := unruns (lchain c) in
  heights_from0 0 ch && (1 <=? lflen c) && (lflen c <=? zlen ch) && (zlen ch <? 1000000) &&
  (lftip c =? lflen c - 1).

Definition long_verdict (c : lcase) : list (Z * Z * Z * Z) :=
  if negb (long_pre c) then [(lid c, 2, -1, 0)]
  else req_rows c (unruns (lchain c)) 0 (lreqs c).

Definition run_long (cs : list lcase) : list (Z * Z * Z * Z) := flat_map long_verdict cs.
