(* C19 — proofs: emitted chain events mirror how the committed chain changed.

   Structure:
   1. [core]: the four state components C19 talks about (block header chain,
      filter header chain, in-memory filter tip, emitted events) and the two
      store operations acting on them ([rbto] = rollBackToHeight, [wr] =
      WriteHeaders); every other state change leaves the core alone.
   2. [handle_headers_shape]: one header message changes the core in one of
      four ways (write a batch / roll back / switch to a branch and write /
      switch to a branch and roll back), proved by walking step_header/loop.
   3. closed form of a rollback ([rb_cf]) and the event/replay algebra.
   4. the invariant [cinv] over all histories and the C19 theorems.
   5. refinement of 2: the fourth way cannot happen (checkpoints are compared
      before a branch is switched to), which makes the event theorem exact. *)
From stdpp Require Import list list_numbers.
From Coq Require Import ZArith Lia ZifyBool.
From Verif Require Import S2.Model C19.Spec C19.Statements.
From Verif Require S2.Faults.
Open Scope Z_scope.


(* ---------- the part of the state C19 talks about ---------- *)
Record core := { k_chain : list header; k_fchain : list Z; k_ftip : Z; k_events : list ev }.
Definition core_of (s : state) : core :=
  {| k_chain := chain s; k_fchain := fchain s; k_ftip := ftipVar s; k_events := events s |}.

Definition pop_core (th : Z) (cur prev : header) (c : core) : core :=
  {| k_chain := take (zn th) (k_chain c);
     k_fchain := if th <=? zlen (k_fchain c) - 1 then take (zn th) (k_fchain c) else k_fchain c;
     k_ftip := if th <=? zlen (k_fchain c) - 1 then th - 1 else k_ftip c;
     k_events := k_events c ++ [EDisc (hid cur) th (hid prev)] |}.

Fixpoint rb_core (fuel : nat) (h : Z) (c : core) : core :=
  match fuel with
  | O => c
  | S f =>
    let th := zlen (k_chain c) - 1 in
    if th >? h then
      match at_h (k_chain c) th, at_h (k_chain c) (th - 1) with
      | Some cur, Some prev => rb_core f h (pop_core th cur prev c)
      | _, _ => c
      end
    else c
  end.
Definition rbto (h : Z) (c : core) : core := rb_core (length (k_chain c)) h c.

Definition wr (es : list (header * Z)) (c : core) : core :=
  match es with
  | [] => c
  | _ => if heights_from (zlen (k_chain c)) es && fresh_all (k_chain c) es
         then {| k_chain := k_chain c ++ es.*1; k_fchain := k_fchain c; k_ftip := k_ftip c; k_events := k_events c |}
         else c
  end.

Lemma core_roll_back f h s : core_of (roll_back f h s) = rb_core f h (core_of s).
Proof.
  revert s. induction f as [|f IH]; intros s; [reflexivity|].
  cbn [roll_back rb_core]. unfold tip_height. cbn [core_of k_chain].
  destruct (zlen (chain s) - 1 >? h); [|reflexivity].
  destruct (at_h (chain s) (zlen (chain s) - 1)) as [cur|]; [|reflexivity].
  destruct (at_h (chain s) (zlen (chain s) - 1 - 1)) as [prev|]; [|reflexivity].
  rewrite IH. f_equal. unfold pop_core. cbn [core_of k_chain k_fchain k_ftip k_events].
  destruct (zlen (chain s) - 1 <=? zlen (fchain s) - 1); reflexivity.
Qed.

Lemma core_roll_back_to h s : core_of (roll_back_to h s) = rbto h (core_of s).
Proof. apply core_roll_back. Qed.

Lemma core_write_headers es s : core_of (write_headers es s) = wr es (core_of s).
Proof.
  unfold write_headers, wr. destruct es as [|e es]; [reflexivity|].
  cbn [core_of k_chain]. destruct (_ && _); reflexivity.
Qed.

(* state changes that do not touch the core *)
Lemma core_put_peer q s : core_of (put_peer q s) = core_of s. Proof. reflexivity. Qed.
Lemma core_disconnect p s : core_of (disconnect p s) = core_of s. Proof. reflexivity. Qed.
Lemma core_bump_last p h s : core_of (bump_last p h s) = core_of s.
Proof. unfold bump_last. destruct (_ <=? _); reflexivity. Qed.
Lemma core_set_hl l s : core_of (set_hl l s) = core_of s. Proof. reflexivity. Qed.
Lemma core_set_sync l s : core_of (set_sync l s) = core_of s. Proof. reflexivity. Qed.
Lemma core_set_cands l s : core_of (set_cands l s) = core_of s. Proof. reflexivity. Qed.
Lemma core_set_cp l s : core_of (set_cp l s) = core_of s. Proof. reflexivity. Qed.
Lemma core_resync s : core_of (resync s) = core_of s.
Proof.
  unfold resync. destruct (chain_tip s); [|reflexivity].
  destruct (last (hl s)); [|reflexivity]. destruct (_ && _); reflexivity.
Qed.
Lemma core_start_sync s : core_of (start_sync s) = core_of s.
Proof.
  unfold start_sync. destruct (syncPeer s); [reflexivity|].
  cbv zeta. destruct (fold_left _ _ _); reflexivity.
Qed.
Lemma core_new_peer p s : core_of (new_peer p s) = core_of s.
Proof. unfold new_peer. destruct (negb _); [reflexivity|]. rewrite core_start_sync. reflexivity. Qed.
Lemma core_done_peer p s : core_of (done_peer p s) = core_of s.
Proof.
  unfold done_peer. cbv zeta. destruct (is_sync _ _); [|reflexivity].
  destruct (chain_tip _); [|reflexivity]. rewrite core_start_sync. reflexivity.
Qed.
Lemma core_handle_inv P now p x s : core_of (handle_inv P now p x s) = core_of s.
Proof.
  unfold handle_inv. destruct x; [|reflexivity].
  destruct (_ && _); [reflexivity|]. destruct (headers_synced _ _ _); [|reflexivity].
  destruct (fetch_header _ _) as [[? ?]|]; [|reflexivity]. apply core_bump_last.
Qed.


(* a restart re-reads the stores: the core is unchanged once the in-memory
   filter tip agrees with the filter store (it always does: [good]) *)
Lemma core_restart P s : ftipVar s = zlen (fchain s) - 1 -> core_of (restart P s) = core_of s.
Proof.
  intros H. unfold restart. destruct (chain_tip s); [|reflexivity].
  unfold core_of. cbn [chain fchain ftipVar events]. rewrite H. reflexivity.
Qed.

(* ---------- one header of a message: the two halves of step_header ---------- *)
Definition pre_out (P : params) (now p : Z) (a : acc) (bh : header) (rest : list header) (pn : node) : outcome * Z :=
  let s := a_s a in
  let prevHash := hid (nhdr pn) in
      if prevHash =? hprev bh then
        if is_ok (check_sanity P (view (hl s) (chain s)) now bh (nheight pn) (nhdr pn)) then
          let nh := nheight pn + 1 in
          let s1 := bump_last p nh s in
          let s2 := set_hl (win_push (memCap P) (hl s1) {| nheight := nh; nhdr := bh |}) s1 in
          (Continue {| a_s := s2; a_batch := a_batch a ++ [(bh, nh)]; a_recvcp := a_recvcp a; a_finalh := nh |}, nh)
        else (Return (disconnect p s), 0)
      else
        if negb (is_sync s p) && negb (headers_synced P now s) then (Return s, 0)
        else if hid bh =? prevHash then (Continue a, 0)
        else match fetch_header (chain s) (hid bh) with
        | Some _ => (Continue a, 0)
        | None =>
          match fetch_header (chain s) (hprev bh) with
          | None => (Return (disconnect p s), 0)
          | Some (backHead, backH) =>
            let pc := find_prev_cp P (nheight pn + 1) in
            if backH <? pc.1 then (Return (disconnect p s), 0) else
            match reorg_check P now (chain s) [{| nheight := backH; nhdr := backHead |}] backH backHead (bh :: rest) 0 with
            | None => (Return (disconnect p s), 0)
            | Some total =>
              let known := known_work (zn (nheight pn - backH) + 1) (chain s) (hl s) None (nheight pn) backH 0 in
              if known >? total then (Return (disconnect p s), 0)
              else if known =? total then (Return s, 0)
              else
                let s1 := set_sync (Some p) s in
                let s2 := roll_back_to backH s1 in
                let s3 := write_headers [(bh, backH + 1)] s2 in
                let s4 := set_hl [{| nheight := backH; nhdr := backHead |}; {| nheight := backH + 1; nhdr := bh |}] s3 in
                (Continue {| a_s := s4; a_batch := a_batch a; a_recvcp := a_recvcp a; a_finalh := a_finalh a |}, 0)
            end
          end
        end.

Definition post (P : params) (p : Z) (bh : header) (on : outcome * Z) : outcome :=
  let '(out, nodeh) := on in
    match out with
    | Continue a' =>
      let s' := a_s a' in
      match nextCp s' with
      | Some (ch, chash) =>
        if nodeh =? ch then
          if hid bh =? chash
          then Break {| a_s := s'; a_batch := a_batch a'; a_recvcp := true; a_finalh := a_finalh a' |}
          else
            let pc := find_prev_cp P nodeh in
            Return (disconnect p (roll_back_to pc.1 s'))
        else Continue a'
      | None => Continue a'
      end
    | o => o
    end.

Lemma step_header_eq P now p a bh rest :
  step_header P now p a bh rest =
  match last (hl (a_s a)) with
  | None => Return (disconnect p (a_s a))
  | Some pn => post P p bh (pre_out P now p a bh rest pn)
  end.
Proof. unfold step_header. destruct (last (hl (a_s a))); reflexivity. Qed.

Lemma last_win_push cap l n : last (win_push cap l n) = Some n.
Proof. unfold win_push. apply last_snoc. Qed.

(* what the first half can do *)
Inductive pre_kind (p : Z) (a : acc) (bh : header) (pn : node) : outcome * Z -> Prop :=
| pk_ret s' n : core_of s' = core_of (a_s a) -> pre_kind p a bh pn (Return s', n)
| pk_same n : hid (nhdr pn) <> hprev bh -> pre_kind p a bh pn (Continue a, n)
| pk_conn s2 nh rc : hid (nhdr pn) = hprev bh -> core_of s2 = core_of (a_s a) ->
    last (hl s2) = Some {| nheight := nh; nhdr := bh |} ->
    pre_kind p a bh pn (Continue {| a_s := s2; a_batch := a_batch a ++ [(bh, nh)]; a_recvcp := rc; a_finalh := nh |}, nh)
| pk_reorg s4 backHead backH rc fh n :
    hid (nhdr pn) <> hprev bh ->
    fetch_header (chain (a_s a)) (hid bh) = None ->
    fetch_header (chain (a_s a)) (hprev bh) = Some (backHead, backH) ->
    core_of s4 = wr [(bh, backH + 1)] (rbto backH (core_of (a_s a))) ->
    last (hl s4) = Some {| nheight := backH + 1; nhdr := bh |} ->
    pre_kind p a bh pn (Continue {| a_s := s4; a_batch := a_batch a; a_recvcp := rc; a_finalh := fh |}, n).

Lemma pre_out_kind P now p a bh rest pn : pre_kind p a bh pn (pre_out P now p a bh rest pn).
Proof.
  unfold pre_out.
  destruct (hid (nhdr pn) =? hprev bh) eqn:E1.
  - destruct (is_ok _).
    + cbv zeta. apply pk_conn.
      * lia.
      * rewrite core_set_hl, core_bump_last. reflexivity.
      * cbn [hl set_hl]. apply last_win_push.
    + apply pk_ret. reflexivity.
  - assert (Hne : hid (nhdr pn) <> hprev bh) by lia. clear E1.
    destruct (_ && _); [apply pk_ret; reflexivity|].
    destruct (hid bh =? hid (nhdr pn)); [apply pk_same; exact Hne|].
    destruct (fetch_header (chain (a_s a)) (hid bh)) eqn:E2; [apply pk_same; exact Hne|].
    destruct (fetch_header (chain (a_s a)) (hprev bh)) as [[backHead backH]|] eqn:E3; [|apply pk_ret; reflexivity].
    cbv zeta.
    destruct (backH <? _); [apply pk_ret; reflexivity|].
    destruct (reorg_check _ _ _ _ _ _ _ _) as [total|]; [|apply pk_ret; reflexivity].
    destruct (_ >? total); [apply pk_ret; reflexivity|].
    destruct (_ =? total); [apply pk_ret; reflexivity|].
    eapply pk_reorg; [exact Hne|exact E2|exact E3| |reflexivity].
    rewrite core_set_hl, core_write_headers, core_roll_back_to, core_set_sync. reflexivity.
Qed.

(* what the second half (the checkpoint test) can do *)
Inductive post_kind (a' : acc) : outcome -> Prop :=
| po_cont : post_kind a' (Continue a')
| po_break a'' : a_s a'' = a_s a' -> a_batch a'' = a_batch a' -> post_kind a' (Break a'')
| po_ret s' pc : core_of s' = rbto pc (core_of (a_s a')) -> post_kind a' (Return s').

Lemma post_kind_of P p bh a' n : post_kind a' (post P p bh (Continue a', n)).
Proof.
  unfold post. destruct (nextCp (a_s a')) as [[ch chash]|]; [|constructor].
  destruct (n =? ch); [|constructor].
  destruct (hid bh =? chash).
  - apply po_break; reflexivity.
  - eapply po_ret. rewrite core_disconnect, core_roll_back_to. reflexivity.
Qed.
Lemma post_ret P p bh s' n : post P p bh (Return s', n) = Return s'.
Proof. reflexivity. Qed.

(* ---------- the loop over one message ---------- *)
Inductive lres (c : core) (b : list (header * Z)) (n : nat) : outcome -> Prop :=
| lr_ret s' : core_of s' = c -> lres c b n (Return s')
| lr_rb s' pc : core_of s' = rbto pc c -> lres c b n (Return s')
| lr_cont a' more : core_of (a_s a') = c -> a_batch a' = b ++ more -> (length more <= n)%nat -> lres c b n (Continue a')
| lr_break a' more : core_of (a_s a') = c -> a_batch a' = b ++ more -> (length more <= n)%nat -> lres c b n (Break a').

Lemma lres_shift c b x n o : lres c (b ++ x) n o -> lres c b (length x + n) o.
Proof.
  intros H. destruct H as [s' H|s' pc H|a' more H1 H2 H3|a' more H1 H2 H3].
  - apply lr_ret; exact H.
  - eapply lr_rb; exact H.
  - apply lr_cont with (more := x ++ more); [exact H1|rewrite H2, app_assoc; reflexivity|rewrite app_length; lia].
  - apply lr_break with (more := x ++ more); [exact H1|rewrite H2, app_assoc; reflexivity|rewrite app_length; lia].
Qed.
Lemma lres_mono c b n m o : (n <= m)%nat -> lres c b n o -> lres c b m o.
Proof.
  intros Hnm H. destruct H as [s' H|s' pc H|a' more H1 H2 H3|a' more H1 H2 H3].
  - apply lr_ret; exact H.
  - eapply lr_rb; exact H.
  - apply lr_cont with (more := more); [exact H1|exact H2|lia].
  - apply lr_break with (more := more); [exact H1|exact H2|lia].
Qed.

Definition lockinv (a : acc) (rest : list header) : Prop :=
  exists pn, last (hl (a_s a)) = Some pn /\ connected (hid (nhdr pn)) rest = true.

(* once a header has been connected (or a branch switched to), every further
   header of a connected message takes the connect path *)
Lemma loop_locked P now p rest : forall a, lockinv a rest ->
  lres (core_of (a_s a)) (a_batch a) (length rest) (loop P now p a rest).
Proof.
  induction rest as [|bh rest IH]; intros a [pn [Hl Hc]].
  - cbn [loop]. apply lr_break with (more := []); [reflexivity|rewrite app_nil_r; reflexivity|cbn; lia].
  - cbn [loop]. rewrite step_header_eq, Hl.
    cbn [connected] in Hc. apply andb_true_iff in Hc as [Hc1 Hc2].
    pose proof (pre_out_kind P now p a bh rest pn) as HK.
    destruct HK as [s' n Hs'|n Hne|s2 nh rc Heq Hcore Hlast|s4 backHead backH rc fh n Hne _ _ _ _].
    + rewrite post_ret. apply lr_ret. exact Hs'.
    + lia.
    + pose proof (post_kind_of P p bh {| a_s := s2; a_batch := a_batch a ++ [(bh, nh)]; a_recvcp := rc; a_finalh := nh |} nh) as HP.
      remember (post P p bh _) as o eqn:Ho. clear Ho.
      destruct HP as [|a'' Hs Hb|s' pc Hs]; cbn [a_s a_batch] in *.
      * change (length (bh :: rest)) with (length [(bh, nh)] + length rest)%nat.
        apply lres_shift. rewrite <- Hcore.
        apply (IH {| a_s := s2; a_batch := a_batch a ++ [(bh, nh)]; a_recvcp := rc; a_finalh := nh |}).
        exists {| nheight := nh; nhdr := bh |}. split; [exact Hlast|exact Hc2].
      * apply lr_break with (more := [(bh, nh)]); [rewrite Hs; exact Hcore|exact Hb|cbn; lia].
      * eapply lr_rb. rewrite Hs, Hcore. reflexivity.
    + lia.
Qed.

Inductive ures (c : core) (b : list (header * Z)) (n : nat) : outcome -> Prop :=
| ur_l o : lres c b n o -> ures c b n o
| ur_reorg bh backHead backH o m :
    fetch_header (k_chain c) (hid bh) = None ->
    fetch_header (k_chain c) (hprev bh) = Some (backHead, backH) ->
    (S m <= n)%nat ->
    lres (wr [(bh, backH + 1)] (rbto backH c)) b m o -> ures c b n o.

Lemma ures_mono c b n m o : (n <= m)%nat -> ures c b n o -> ures c b m o.
Proof.
  intros Hnm [o' H|bh backHead backH o' k H1 H2 H3 H4].
  - apply ur_l. eapply lres_mono; eassumption.
  - eapply ur_reorg; [exact H1|exact H2| |exact H4]. lia.
Qed.

Lemma loop_shape P now p rest : forall a, headers_connected rest = true ->
  ures (core_of (a_s a)) (a_batch a) (length rest) (loop P now p a rest).
Proof.
  induction rest as [|bh rest IH]; intros a Hc.
  - cbn [loop]. apply ur_l. apply lr_break with (more := []); [reflexivity|rewrite app_nil_r; reflexivity|cbn; lia].
  - cbn [loop]. rewrite step_header_eq.
    destruct (last (hl (a_s a))) as [pn|]; [|apply ur_l, lr_ret; reflexivity].
    cbn [headers_connected] in Hc.
    assert (Hc' : headers_connected rest = true).
    { destruct rest as [|y t]; [reflexivity|]. cbn [connected] in Hc. cbn [headers_connected]. lia. }
    pose proof (pre_out_kind P now p a bh rest pn) as HK.
    destruct HK as [s' n Hs'|n Hne|s2 nh rc Heq Hcore Hlast|s4 backHead backH rc fh n Hne Hf1 Hf2 Hcore Hlast].
    + rewrite post_ret. apply ur_l, lr_ret. exact Hs'.
    + pose proof (post_kind_of P p bh a n) as HP.
      remember (post P p bh _) as o eqn:Ho. clear Ho.
      destruct HP as [|a'' Hs Hb|s' pc Hs].
      * eapply ures_mono; [|apply IH; exact Hc']. cbn; lia.
      * apply ur_l. apply lr_break with (more := []); [rewrite Hs; reflexivity|rewrite app_nil_r; exact Hb|cbn; lia].
      * apply ur_l. eapply lr_rb. exact Hs.
    + pose proof (post_kind_of P p bh {| a_s := s2; a_batch := a_batch a ++ [(bh, nh)]; a_recvcp := rc; a_finalh := nh |} nh) as HP.
      remember (post P p bh _) as o eqn:Ho. clear Ho.
      destruct HP as [|a'' Hs Hb|s' pc Hs]; cbn [a_s a_batch] in *.
      * apply ur_l.
        change (length (bh :: rest)) with (length [(bh, nh)] + length rest)%nat.
        apply lres_shift. rewrite <- Hcore.
        apply (loop_locked P now p rest {| a_s := s2; a_batch := a_batch a ++ [(bh, nh)]; a_recvcp := rc; a_finalh := nh |}).
        exists {| nheight := nh; nhdr := bh |}. split; [exact Hlast|exact Hc].
      * apply ur_l. apply lr_break with (more := [(bh, nh)]); [rewrite Hs; exact Hcore|exact Hb|cbn; lia].
      * apply ur_l. eapply lr_rb. rewrite Hs, Hcore. reflexivity.
    + pose proof (post_kind_of P p bh {| a_s := s4; a_batch := a_batch a; a_recvcp := rc; a_finalh := fh |} n) as HP.
      remember (post P p bh _) as o eqn:Ho. clear Ho.
      destruct HP as [|a'' Hs Hb|s' pc Hs]; cbn [a_s a_batch] in *.
      * eapply ur_reorg with (m := length rest); [exact Hf1|exact Hf2|cbn; lia|].
        rewrite <- Hcore.
        apply (loop_locked P now p rest {| a_s := s4; a_batch := a_batch a; a_recvcp := rc; a_finalh := fh |}).
        exists {| nheight := backH + 1; nhdr := bh |}. split; [exact Hlast|exact Hc].
      * eapply ur_reorg with (m := length rest); [exact Hf1|exact Hf2|cbn; lia|].
        apply lr_break with (more := []); [rewrite Hs; exact Hcore|rewrite app_nil_r; exact Hb|cbn; lia].
      * eapply ur_reorg with (m := length rest); [exact Hf1|exact Hf2|cbn; lia|].
        eapply lr_rb. rewrite Hs, Hcore. reflexivity.
Qed.

(* ---------- handleHeadersMsg as a whole ---------- *)
Inductive hh_shape (c0 : core) (n : nat) : core -> Prop :=
| sh_wr batch : (length batch <= n)%nat -> hh_shape c0 n (wr batch c0)
| sh_rb pc : hh_shape c0 n (rbto pc c0)
| sh_reorg bh backHead backH batch :
    fetch_header (k_chain c0) (hid bh) = None ->
    fetch_header (k_chain c0) (hprev bh) = Some (backHead, backH) ->
    (length batch + 1 <= n)%nat ->
    hh_shape c0 n (wr batch (wr [(bh, backH + 1)] (rbto backH c0)))
| sh_reorg_rb bh backHead backH pc :
    fetch_header (k_chain c0) (hid bh) = None ->
    fetch_header (k_chain c0) (hprev bh) = Some (backHead, backH) ->
    (1 <= n)%nat ->
    hh_shape c0 n (rbto pc (wr [(bh, backH + 1)] (rbto backH c0))).

Definition final_core (o : outcome) : core :=
  match o with
  | Return s' => core_of s'
  | Continue a | Break a => wr (a_batch a) (core_of (a_s a))
  end.

Lemma handle_headers_core P now p hs s :
  core_of (handle_headers P now p hs s) =
  match hs with
  | [] => core_of s
  | _ => if negb (headers_connected hs) then core_of s
         else final_core (loop P now p {| a_s := s; a_batch := []; a_recvcp := false; a_finalh := 0 |} hs)
  end.
Proof.
  unfold handle_headers. destruct hs as [|x t]; [reflexivity|].
  destruct (negb _); [reflexivity|]. rewrite core_resync.
  destruct (loop _ _ _ _ _) as [s'|a|a]; cbn [final_core]; [reflexivity| |];
    (destruct (a_recvcp a); [rewrite core_set_cp|]; apply core_write_headers).
Qed.

Lemma lres_final c n o : lres c [] n o ->
  final_core o = c \/ (exists pc, final_core o = rbto pc c) \/
  (exists batch, (length batch <= n)%nat /\ final_core o = wr batch c).
Proof.
  intros [s' H|s' pc H|a' more H1 H2 H3|a' more H1 H2 H3]; cbn [final_core].
  - left. exact H.
  - right. left. exists pc. exact H.
  - right. right. exists more. rewrite H1, H2. split; [exact H3|reflexivity].
  - right. right. exists more. rewrite H1, H2. split; [exact H3|reflexivity].
Qed.

Theorem handle_headers_shape P now p hs s :
  hh_shape (core_of s) (length hs) (core_of (handle_headers P now p hs s)).
Proof.
  rewrite handle_headers_core.
  assert (Hsame : hh_shape (core_of s) (length hs) (core_of s)).
  { apply (sh_wr (core_of s) (length hs) []). cbn; lia. }
  destruct hs as [|x t]; [exact Hsame|].
  destruct (negb (headers_connected (x :: t))) eqn:Hc; [exact Hsame|].
  apply negb_false_iff in Hc.
  pose proof (loop_shape P now p (x :: t) {| a_s := s; a_batch := []; a_recvcp := false; a_finalh := 0 |} Hc) as HU.
  cbn [a_s a_batch] in HU.
  destruct HU as [o HL|bh backHead backH o m H1 H2 H3 HL].
  - apply lres_final in HL as [->|[[pc ->]|[batch [Hb ->]]]].
    + exact Hsame.
    + apply sh_rb.
    + apply sh_wr. exact Hb.
  - apply lres_final in HL as [->|[[pc ->]|[batch [Hb ->]]]].
    + apply (sh_reorg _ _ bh backHead backH []); [exact H1|exact H2|cbn; lia].
    + eapply sh_reorg_rb; [exact H1|exact H2|lia].
    + eapply sh_reorg; [exact H1|exact H2|lia].
Qed.



(* ---------- handleHeadersMsg with a failing header-store write ---------- *)
Definition acc0 (s : state) : acc := {| a_s := s; a_batch := []; a_recvcp := false; a_finalh := 0 |}.
Definition fault_hits (k' : Z) (a : acc) : bool :=
  (k' =? 1) && (match a_batch a with [] => false | _ => true end).
Definition final_core_f (k' : Z) (o : outcome) : core :=
  match o with
  | Return s' => core_of s'
  | Continue a | Break a => if fault_hits k' a then core_of (a_s a) else wr (a_batch a) (core_of (a_s a))
  end.

Lemma handle_headers_f_core P now p hs k s :
  core_of (handle_headers_f P now p hs k s) =
  match hs with
  | [] => core_of s
  | _ => if negb (headers_connected hs) then core_of s
         else final_core_f (snd (loop_f P now p k (acc0 s) hs)) (fst (loop_f P now p k (acc0 s) hs))
  end.
Proof.
  unfold handle_headers_f. destruct hs as [|x t]; [reflexivity|].
  destruct (negb _); [reflexivity|]. rewrite core_resync. fold (acc0 s).
  destruct (loop_f _ _ _ _ _ _) as [[s'|a|a] k']; cbn [fst snd final_core_f]; [reflexivity| |];
    fold (fault_hits k' a); (destruct (fault_hits k' a); [reflexivity|]);
    (destruct (a_recvcp a); [rewrite core_set_cp|]; apply core_write_headers).
Qed.

Lemma lres_final_f c n o k' : lres c [] n o ->
  final_core_f k' o = c \/ (exists pc, final_core_f k' o = rbto pc c) \/
  (exists batch, (length batch <= n)%nat /\ final_core_f k' o = wr batch c).
Proof.
  intros [s' H|s' pc H|a' more H1 H2 H3|a' more H1 H2 H3]; cbn [final_core_f].
  - left. exact H.
  - right. left. exists pc. exact H.
  - destruct (fault_hits k' a'); [left; exact H1|].
    right. right. exists more. rewrite H1, H2. split; [exact H3|reflexivity].
  - destruct (fault_hits k' a'); [left; exact H1|].
    right. right. exists more. rewrite H1, H2. split; [exact H3|reflexivity].
Qed.

(* the same four ways, whichever write fails *)
Theorem handle_headers_f_shape P now p hs k s :
  hh_shape (core_of s) (length hs) (core_of (handle_headers_f P now p hs k s)).
Proof.
  rewrite handle_headers_f_core.
  assert (Hsame : hh_shape (core_of s) (length hs) (core_of s)).
  { apply (sh_wr (core_of s) (length hs) []). cbn; lia. }
  destruct hs as [|x t]; [exact Hsame|].
  destruct (negb (headers_connected (x :: t))) eqn:Hc; [exact Hsame|].
  apply negb_false_iff in Hc.
  destruct (Faults.loop_f_cases P now p (x :: t) Hc k (acc0 s)) as [[k' ->]|(bh & rest & bH & h & _ & ->)];
    cbn [fst snd].
  - pose proof (loop_shape P now p (x :: t) (acc0 s) Hc) as HU. cbn [acc0 a_s a_batch] in HU.
    destruct HU as [o HL|bh backHead backH o m H1 H2 H3 HL].
    + apply (lres_final_f _ _ _ k') in HL as [->|[[pc ->]|[batch [Hb ->]]]].
      * exact Hsame.
      * apply sh_rb.
      * apply sh_wr. exact Hb.
    + apply (lres_final_f _ _ _ k') in HL as [->|[[pc ->]|[batch [Hb ->]]]].
      * apply (sh_reorg _ _ bh backHead backH []); [exact H1|exact H2|cbn; lia].
      * eapply sh_reorg_rb; [exact H1|exact H2|lia].
      * eapply sh_reorg; [exact H1|exact H2|lia].
  - cbn [final_core_f acc0 a_s]. rewrite core_roll_back_to, core_set_sync. apply sh_rb.
Qed.

Definition hashes (c : list header) : list Z := map hid c.

Lemma zn_nat (n : nat) : Z.of_nat n < 1000000 -> zn (Z.of_nat n) = n.
Proof.
  unfold zn. intros H.
  destruct (0 <=? Z.of_nat n) eqn:E1; destruct (Z.of_nat n <? 1000000) eqn:E2; cbn [andb]; try lia.
Qed.
Lemma zn_eq z : 0 <= z < 1000000 -> zn z = Z.to_nat z.
Proof.
  unfold zn. intros H.
  destruct (0 <=? z) eqn:E1; destruct (z <? 1000000) eqn:E2; cbn [andb]; try lia.
Qed.
Lemma at_h_nat {A} (l : list A) (i : nat) : (i < length l)%nat -> Z.of_nat (length l) <= 1000000 ->
  at_h l (Z.of_nat i) = l !! i.
Proof.
  intros Hi HL. unfold at_h, zlen.
  destruct (0 <=? Z.of_nat i) eqn:E1; destruct (Z.of_nat i <? Z.of_nat (length l)) eqn:E2; cbn [andb]; try lia.
  rewrite zn_nat by lia. reflexivity.
Qed.
Lemma at_h_neg {A} (l : list A) h : h < 0 -> at_h l h = None.
Proof. intros H. unfold at_h. destruct (0 <=? h) eqn:E; [lia|reflexivity]. Qed.

(* ---------- expected_disc as "pop down to length k" ---------- *)
Definition discs_from (H : list Z) (k : nat) : list ev :=
  map (fun i => EDisc (default 0 (H !! i)) (Z.of_nat i) (default 0 (H !! pred i)))
      (reverse (seq k (length H - k))).

Lemma expected_disc_eq b a : expected_disc b a = discs_from b (common_len b a).
Proof. reflexivity. Qed.

Lemma common_len_take_app H : forall k R, (k <= length H)%nat ->
  (forall x y, H !! k = Some x -> head R = Some y -> x <> y) ->
  common_len H (take k H ++ R) = k.
Proof.
  induction H as [|a H IH]; intros k R Hk Hne.
  - cbn in Hk. assert (k = 0%nat) by lia. subst. reflexivity.
  - destruct k as [|k].
    + cbn [take app]. destruct R as [|y R]; [reflexivity|].
      cbn [common_len]. destruct (a =? y) eqn:E; [|reflexivity].
      exfalso. apply (Hne a y); [reflexivity|reflexivity|lia].
    + cbn [take app common_len]. rewrite Z.eqb_refl. f_equal. apply IH; [cbn in Hk; lia|].
      intros x y Hx Hy. apply (Hne x y); [exact Hx|exact Hy].
Qed.
Lemma common_len_take H k : (k <= length H)%nat -> common_len H (take k H) = k.
Proof.
  intros Hk. rewrite <- (app_nil_r (take k H)). apply common_len_take_app; [exact Hk|].
  intros x y _ Hy. discriminate.
Qed.
Lemma common_len_app H R : common_len H (H ++ R) = length H.
Proof.
  rewrite <- (firstn_all H) at 2. apply common_len_take_app; [lia|].
  intros x y Hx _. rewrite lookup_ge_None_2 in Hx by lia. discriminate.
Qed.

Lemma discs_from_ge H k : (length H <= k)%nat -> discs_from H k = [].
Proof. intros Hk. unfold discs_from. replace (length H - k)%nat with 0%nat by lia. reflexivity. Qed.

Lemma discs_from_snoc H x k : (1 <= length H)%nat -> (k <= length H)%nat ->
  discs_from (H ++ [x]) k =
  EDisc x (Z.of_nat (length H)) (default 0 (H !! pred (length H))) :: discs_from H k.
Proof.
  intros H1 Hk. unfold discs_from. rewrite app_length. cbn [length].
  replace (length H + 1 - k)%nat with (S (length H - k)) by lia.
  rewrite seq_S, reverse_app, reverse_singleton. cbn [app map].
  replace (k + (length H - k))%nat with (length H) by lia.
  f_equal.
  - f_equal.
    + rewrite lookup_app_r by lia. rewrite Nat.sub_diag. reflexivity.
    + rewrite lookup_app_l by lia. reflexivity.
  - apply map_ext_in. intros i Hi. apply elem_of_list_In, elem_of_reverse, elem_of_seq in Hi.
    rewrite !lookup_app_l by lia. reflexivity.
Qed.

(* ---------- replay ---------- *)
Lemma replay_app sub x y : replay sub (x ++ y) = replay sub x ≫= (fun b => replay b y).
Proof.
  revert sub. induction x as [|e x IH]; intros sub; [reflexivity|].
  cbn [app replay]. destruct (replay_ev sub e); [apply IH|reflexivity].
Qed.

Lemma last_take_snoc {A} (H : list A) x f : (f <= length H)%nat -> take f (H ++ [x]) = take f H.
Proof. intros Hf. rewrite take_app_le by lia. reflexivity. Qed.

(* disconnects of uncommitted blocks are ignored, those of committed ones pop *)
Lemma replay_discs H : forall k f, Z.of_nat (length H) <= 1000000 -> (f <= length H)%nat ->
  replay (take f H) (discs_from H k) = Some (take (Nat.min f k) H).
Proof.
  induction H as [|x H IH] using rev_ind; intros k f HL Hf.
  - cbn in Hf. assert (f = 0%nat) by lia. subst. rewrite discs_from_ge by (cbn; lia). reflexivity.
  - rewrite app_length in HL, Hf. cbn [length] in HL, Hf.
    destruct (decide (length H + 1 <= k)%nat) as [Hge|Hlt].
    { rewrite discs_from_ge by (rewrite app_length; cbn; lia). cbn [replay].
      replace (Nat.min f k) with f by lia. reflexivity. }
    destruct (decide (length H = 0)%nat) as [H0|H0].
    { destruct H; [|cbn in H0; lia]. cbn in Hlt. assert (k = 0%nat) by lia. subst k.
      cbn [app]. unfold discs_from. cbn.
      destruct f as [|f]; cbn.
      - reflexivity.
      - rewrite take_nil. cbn. rewrite Z.eqb_refl. cbn. reflexivity. }
    rewrite discs_from_snoc by lia. cbn [replay replay_ev].
    destruct (decide (f = length H + 1)%nat) as [Hfe|Hfn].
    + subst f. rewrite take_ge by (rewrite app_length; cbn; lia).
      rewrite last_snoc. rewrite Z.eqb_refl. unfold zlen. rewrite app_length. cbn [length andb].
      replace (Z.of_nat (length H) =? Z.of_nat (length H + 1) - 1) with true by lia.
      rewrite zn_nat by lia.
      rewrite take_app_le by lia. rewrite take_ge by lia.
      specialize (IH k (length H)). rewrite take_ge in IH by lia.
      rewrite IH by lia.
      f_equal. rewrite take_app_le by lia. f_equal. lia.
    + rewrite take_app_le by lia.
      assert (Hstay : match last (take f H) with
                      | Some y => if (y =? x) && (Z.of_nat (length H) =? zlen (take f H) - 1)
                                  then Some (take (zn (Z.of_nat (length H))) (take f H)) else Some (take f H)
                      | None => Some (take f H) end = Some (take f H)).
      { destruct (last (take f H)) as [y|]; [|reflexivity].
        unfold zlen. rewrite take_length.
        replace (Z.of_nat (length H) =? Z.of_nat (Nat.min f (length H)) - 1) with false by lia.
        rewrite andb_false_r. reflexivity. }
      rewrite Hstay. rewrite IH by lia. f_equal. rewrite take_app_le by lia. reflexivity.
Qed.

(* connects of the next heights extend the subscriber's chain *)
Lemma replay_conns H : forall n f, (f + n <= length H)%nat ->
  replay (take f H) (expected_conn H f (f + n)) = Some (take (f + n) H).
Proof.
  intros n. induction n as [|n IH]; intros f Hf.
  - unfold expected_conn. replace (f + 0 - f)%nat with 0%nat by lia. cbn. f_equal. f_equal. lia.
  - unfold expected_conn. replace (f + S n - f)%nat with (S n) by lia. cbn [seq map replay replay_ev].
    unfold zlen. rewrite take_length. replace (Nat.min f (length H)) with f by lia.
    rewrite Z.ltb_irrefl, Z.eqb_refl.
    destruct (H !! f) as [x|] eqn:Hx; [|apply lookup_ge_None in Hx; lia].
    change (default 0 (Some x)) with x. rewrite <- (take_S_r H f x Hx).
    specialize (IH (S f)). unfold expected_conn in IH.
    replace (S f + n - S f)%nat with n in IH by lia.
    rewrite IH by lia. f_equal. f_equal. lia.
Qed.

Lemma hashes_take k c : hashes (take k c) = take k (hashes c).
Proof. apply fmap_take. Qed.
Lemma hashes_app a b : hashes (a ++ b) = hashes a ++ hashes b.
Proof. apply map_app. Qed.
Lemma hashes_length c : length (hashes c) = length c.
Proof. apply map_length. Qed.
Lemma hashes_lookup c i : hashes c !! i = hid <$> (c !! i).
Proof. apply list_lookup_fmap. Qed.

Lemma seq_as_map k n : seq k n = map (Nat.add k) (seq 0 n).
Proof.
  pose proof (fmap_add_seq k 0 n) as H. rewrite Nat.add_0_r in H. symmetry. exact H.
Qed.

Lemma common_len_refl H : common_len H H = length H.
Proof. pose proof (common_len_app H []) as E. rewrite app_nil_r in E. exact E. Qed.


Definition good (c : core) : Prop :=
  (1 <= length (k_fchain c) <= length (k_chain c))%nat /\
  k_ftip c = Z.of_nat (length (k_fchain c)) - 1.

(* closed form of a rollback: cut both chains to length k *)
Definition rb_cf (k : nat) (c : core) : core :=
  {| k_chain := take k (k_chain c);
     k_fchain := take k (k_fchain c);
     k_ftip := Z.of_nat (Nat.min k (length (k_fchain c))) - 1;
     k_events := k_events c ++ discs_from (hashes (k_chain c)) k |}.
Definition tgt (h : Z) (c : core) : nat := Nat.min (length (k_chain c)) (Z.to_nat (Z.max h 0) + 1).

Lemma rb_cf_all c k : good c -> (length (k_chain c) <= k)%nat -> rb_cf k c = c.
Proof.
  intros [[G1 G2] G3] Hk. destruct c as [ch fc ft ev]. unfold rb_cf. cbn [k_chain k_fchain k_ftip k_events] in *.
  rewrite !take_ge by lia. rewrite discs_from_ge by (rewrite hashes_length; lia).
  rewrite app_nil_r. f_equal. lia.
Qed.

Lemma rb_core_cf fuel : forall h c, good c -> Z.of_nat (length (k_chain c)) <= 1000000 ->
  (length (k_chain c) <= S fuel)%nat -> rb_core fuel h c = rb_cf (tgt h c) c.
Proof.
  induction fuel as [|f IH]; intros h c G HL Hf.
  - cbn [rb_core]. symmetry. apply rb_cf_all; [exact G|]. destruct G as [[G1 G2] _]. unfold tgt. lia.
  - cbn [rb_core]. unfold zlen.
    destruct (Z.of_nat (length (k_chain c)) - 1 >? h) eqn:Eth.
    2:{ symmetry. apply rb_cf_all; [exact G|]. unfold tgt. lia. }
    pose proof G as [[G1 G2] G3].
    destruct c as [ch fc ft ev]. cbn [k_chain k_fchain k_ftip k_events] in *.
    destruct ch as [|cur init _] using rev_ind; [cbn in G2; lia|].
    rewrite app_length in *. cbn [length] in *.
    replace (Z.of_nat (length init + 1) - 1) with (Z.of_nat (length init)) by lia.
    rewrite at_h_nat by (rewrite ?app_length; cbn [length]; lia).
    rewrite lookup_app_r by lia. rewrite Nat.sub_diag. cbn [lookup list_lookup].
    destruct (decide (length init = 0)%nat) as [E0|E0].
    { rewrite at_h_neg by lia. symmetry.
      apply (rb_cf_all {| k_chain := init ++ [cur]; k_fchain := fc; k_ftip := ft; k_events := ev |}); [exact G|].
      unfold tgt. cbn [k_chain]. rewrite app_length. cbn [length]. lia. }
    replace (Z.of_nat (length init) - 1) with (Z.of_nat (length init - 1)) by lia.
    rewrite at_h_nat by (rewrite ?app_length; cbn [length]; lia).
    rewrite lookup_app_l by lia.
    destruct (init !! (length init - 1)%nat) as [prev|] eqn:Hprev; [|apply lookup_ge_None in Hprev; lia].
    rewrite IH.
    + (* the two closed forms agree *)
      unfold pop_core, rb_cf, tgt. cbn [k_chain k_fchain k_ftip k_events]. unfold zlen.
      rewrite zn_nat by lia. rewrite take_app_le by lia. rewrite (take_ge init) by lia.
      rewrite app_length. cbn [length].
      set (k := Nat.min (length init) (Z.to_nat (Z.max h 0) + 1)).
      replace (Nat.min (length init + 1) (Z.to_nat (Z.max h 0) + 1)) with k by lia.
      assert (Hk : (k <= length init)%nat) by lia.
      rewrite (take_app_le init [cur]) by lia.
      rewrite hashes_app. change (hashes [cur]) with [hid cur].
      rewrite discs_from_snoc by (rewrite hashes_length; lia).
      rewrite hashes_length. rewrite hashes_lookup.
      replace (Init.Nat.pred (length init)) with (length init - 1)%nat by lia.
      rewrite Hprev. cbn [fmap option_fmap option_map default].
      rewrite <- app_assoc. cbn [app].
      destruct (Z.of_nat (length init) <=? Z.of_nat (length fc) - 1) eqn:Ef.
      * rewrite take_take. replace (Nat.min k (length init)) with k by lia.
        rewrite take_length. f_equal. lia.
      * f_equal.
    + (* the popped state is good *)
      unfold pop_core, good. cbn [k_chain k_fchain k_ftip]. unfold zlen.
      rewrite zn_nat by lia. rewrite take_app_le by lia. rewrite (take_ge init) by lia.
      destruct (Z.of_nat (length init) <=? Z.of_nat (length fc) - 1) eqn:Ef.
      * rewrite take_length. split; lia.
      * split; lia.
    + unfold pop_core. cbn [k_chain]. rewrite zn_nat by lia. rewrite take_length, app_length. cbn [length]. lia.
    + unfold pop_core. cbn [k_chain]. rewrite zn_nat by lia. rewrite take_length, app_length. cbn [length]. lia.
Qed.

Lemma rbto_cf h c : good c -> Z.of_nat (length (k_chain c)) <= 1000000 -> rbto h c = rb_cf (tgt h c) c.
Proof. intros G HL. apply rb_core_cf; [exact G|exact HL|lia]. Qed.

Lemma tgt_range h c : good c -> (1 <= tgt h c <= length (k_chain c))%nat.
Proof. intros [[G1 G2] _]. unfold tgt. lia. Qed.

Lemma good_rb_cf k c : good c -> (1 <= k)%nat -> good (rb_cf k c).
Proof.
  intros [[G1 G2] G3] Hk. unfold good, rb_cf. cbn [k_chain k_fchain k_ftip]. rewrite !take_length. split; lia.
Qed.

(* writes *)
Lemma wr_form es c : exists X, (X = [] \/ (X = es.*1 /\ fresh_all (k_chain c) es = true)) /\
  wr es c = {| k_chain := k_chain c ++ X; k_fchain := k_fchain c; k_ftip := k_ftip c; k_events := k_events c |}.
Proof.
  unfold wr. destruct es as [|e es].
  - exists []. split; [left; reflexivity|]. rewrite app_nil_r. destruct c; reflexivity.
  - destruct (heights_from _ _) ; cbn [andb].
    + destruct (fresh_all _ _) eqn:Ef.
      * exists ((e :: es).*1). split; [right; split; [reflexivity|reflexivity]|reflexivity].
      * exists []. split; [left; reflexivity|]. rewrite app_nil_r. destruct c; reflexivity.
    + exists []. split; [left; reflexivity|]. rewrite app_nil_r. destruct c; reflexivity.
Qed.

Lemma wr_form_len es c : exists X, (length X <= length es)%nat /\
  wr es c = {| k_chain := k_chain c ++ X; k_fchain := k_fchain c; k_ftip := k_ftip c; k_events := k_events c |}.
Proof.
  destruct (wr_form es c) as [X [[->|[-> _]] H]]; eexists; (split; [|exact H]).
  - cbn; lia.
  - rewrite fmap_length. lia.
Qed.

Lemma fetch_None c x : fetch_header c x = None -> x ∉ hashes c.
Proof.
  unfold fetch_header. intros H.
  destruct (list_find (λ h : header, hid h = x) c) as [[i y]|] eqn:E; [discriminate|].
  apply list_find_None in E. unfold hashes. intros Hin.
  apply elem_of_list_fmap in Hin as [y [-> Hy]].
  rewrite Forall_forall in E. apply (E y Hy). reflexivity.
Qed.
Lemma fetch_Some c x y h : fetch_header c x = Some (y, h) ->
  exists i, h = Z.of_nat i /\ (i < length c)%nat.
Proof.
  unfold fetch_header. intros H.
  destruct (list_find (λ h : header, hid h = x) c) as [[i z]|] eqn:E; [|discriminate].
  cbn in H. injection H as <- <-. exists i. split; [reflexivity|].
  apply list_find_Some in E as [E _]. apply lookup_lt_Some in E. exact E.
Qed.
Lemma not_in_fresh c x : x ∉ hashes c -> fresh c x = true.
Proof.
  intros Hn. unfold fresh, fetch_header.
  destruct (list_find (λ h : header, hid h = x) c) as [[i z]|] eqn:E; [|reflexivity].
  exfalso. apply list_find_Some in E as [E [E2 _]]. apply Hn. unfold hashes.
  apply elem_of_list_fmap. exists z. split; [symmetry; exact E2|]. eapply elem_of_list_lookup_2. exact E.
Qed.

(* the first header of a branch is always stored *)
Lemma wr_branch_head bh i c : hid bh ∉ hashes (k_chain c) -> length (k_chain c) = S i ->
  wr [(bh, Z.of_nat i + 1)] c =
  {| k_chain := k_chain c ++ [bh]; k_fchain := k_fchain c; k_ftip := k_ftip c; k_events := k_events c |}.
Proof.
  intros Hn HL. unfold wr. cbn [heights_from fresh_all existsb negb andb fst].
  rewrite not_in_fresh by exact Hn. unfold zlen. rewrite HL. cbn [snd].
  replace (Z.of_nat i + 1 =? Z.of_nat (S i)) with true by lia. reflexivity.
Qed.


Definition committed (c : core) : list Z := hashes (take (length (k_fchain c)) (k_chain c)).
Definition cinv (n : nat) (sub0 : list Z) (c : core) : Prop :=
  good c /\ (length (k_chain c) <= n)%nat /\ replay sub0 (k_events c) = Some (committed c).

Lemma cinv_mono n m sub0 c : (n <= m)%nat -> cinv n sub0 c -> cinv m sub0 c.
Proof. intros Hnm (G & HL & HR). split; [exact G|]. split; [lia|exact HR]. Qed.

Lemma cinv_rb_cf n sub0 c k : cinv n sub0 c -> Z.of_nat n <= 1000000 -> (1 <= k)%nat -> cinv n sub0 (rb_cf k c).
Proof.
  intros (G & HL & HR) Hn Hk. split; [apply good_rb_cf; assumption|].
  destruct G as [[G1 G2] G3].
  split; [cbn [rb_cf k_chain]; rewrite take_length; lia|].
  unfold committed in *. cbn [rb_cf k_chain k_fchain k_events].
  rewrite replay_app, HR. cbn [mbind option_bind].
  rewrite !hashes_take.
  rewrite replay_discs by (rewrite hashes_length; lia).
  f_equal. rewrite take_length, take_take. f_equal. lia.
Qed.

Lemma cinv_rbto n sub0 c h : cinv n sub0 c -> Z.of_nat n <= 1000000 -> cinv n sub0 (rbto h c).
Proof.
  intros HC Hn. pose proof HC as (G & HL & _).
  rewrite rbto_cf by (try exact G; lia). apply cinv_rb_cf; [exact HC|exact Hn|].
  apply tgt_range. exact G.
Qed.

Lemma cinv_wr n sub0 c es : cinv n sub0 c -> cinv (n + length es) sub0 (wr es c).
Proof.
  intros ([[G1 G2] G3] & HL & HR). destruct (wr_form_len es c) as [X [HX ->]].
  unfold cinv, good, committed. cbn [k_chain k_fchain k_ftip k_events].
  rewrite app_length. split; [split; [lia|exact G3]|]. split; [lia|].
  rewrite HR. unfold committed. rewrite take_app_le by lia. reflexivity.
Qed.

(* ---------- what one operation may do to the events ---------- *)
(* (A) no connected events; disconnected events exactly for the removed headers *)
Definition normA (c c' : core) : Prop :=
  k_events c' = k_events c ++ expected_disc (hashes (k_chain c)) (hashes (k_chain c')) /\
  k_fchain c' = take (common_len (hashes (k_chain c)) (hashes (k_chain c'))) (k_fchain c).

(* (C) a branch's first header [x] was stored at height k and removed again *)
Definition phantomC (c c' : core) : Prop :=
  exists (x : header) (k m : nat),
    hid x ∉ hashes (k_chain c) /\ (1 <= m <= k)%nat /\ (k <= length (k_chain c))%nat /\
    k_chain c' = take m (k_chain c) /\ k_fchain c' = take m (k_fchain c) /\
    k_events c' = k_events c ++
      expected_disc (hashes (k_chain c)) (take k (hashes (k_chain c))) ++
      [EDisc (hid x) (Z.of_nat k) (default 0 (hashes (k_chain c) !! pred k))] ++
      expected_disc (take k (hashes (k_chain c))) (take m (hashes (k_chain c))).

Lemma normA_wr c es : good c -> normA c (wr es c).
Proof.
  intros [[G1 G2] G3]. destruct (wr_form_len es c) as [X [_ ->]]. unfold normA. cbn [k_chain k_fchain k_events].
  rewrite hashes_app, expected_disc_eq, common_len_app.
  rewrite discs_from_ge by lia. rewrite app_nil_r. split; [reflexivity|].
  rewrite take_ge by (rewrite hashes_length; lia). reflexivity.
Qed.

Lemma normA_rb_cf c k : (k <= length (k_chain c))%nat -> normA c (rb_cf k c).
Proof.
  intros Hk. unfold normA, rb_cf. cbn [k_chain k_fchain k_events].
  rewrite hashes_take, expected_disc_eq, common_len_take by (rewrite hashes_length; lia).
  split; reflexivity.
Qed.

Lemma normA_rbto c h : good c -> Z.of_nat (length (k_chain c)) <= 1000000 -> normA c (rbto h c).
Proof.
  intros G HL. rewrite rbto_cf by assumption. apply normA_rb_cf. apply tgt_range. exact G.
Qed.

Lemma elem_of_take_1 {A} (l : list A) k x : x ∈ take k l -> x ∈ l.
Proof. intros H. rewrite <- (take_drop k l). apply elem_of_app. left. exact H. Qed.

(* the state after switching to a branch: cut to the fork point, branch head stored *)
Definition reorg_cf (i : nat) (bh : header) (c : core) : core :=
  {| k_chain := take (S i) (k_chain c) ++ [bh];
     k_fchain := take (S i) (k_fchain c);
     k_ftip := Z.of_nat (Nat.min (S i) (length (k_fchain c))) - 1;
     k_events := k_events c ++ discs_from (hashes (k_chain c)) (S i) |}.

Lemma reorg_form c bh backHead backH : good c -> Z.of_nat (length (k_chain c)) <= 1000000 ->
  fetch_header (k_chain c) (hid bh) = None ->
  fetch_header (k_chain c) (hprev bh) = Some (backHead, backH) ->
  exists i, (S i <= length (k_chain c))%nat /\ hid bh ∉ hashes (k_chain c) /\
    wr [(bh, backH + 1)] (rbto backH c) = reorg_cf i bh c.
Proof.
  intros G HL Hf1 Hf2. apply fetch_Some in Hf2 as [i [-> Hi]]. apply fetch_None in Hf1.
  exists i. split; [lia|]. split; [exact Hf1|].
  rewrite rbto_cf by assumption.
  assert (Ht : tgt (Z.of_nat i) c = S i) by (unfold tgt; lia). rewrite Ht.
  rewrite (wr_branch_head bh i).
  - reflexivity.
  - cbn [rb_cf k_chain]. intros Hin. apply Hf1. rewrite hashes_take in Hin.
    eapply elem_of_take_1. exact Hin.
  - cbn [rb_cf k_chain]. rewrite take_length. lia.
Qed.

Lemma good_reorg_cf i bh c : good c -> (S i <= length (k_chain c))%nat -> good (reorg_cf i bh c).
Proof.
  intros [[G1 G2] G3] Hi. unfold good, reorg_cf. cbn [k_chain k_fchain k_ftip].
  rewrite app_length, !take_length. cbn [length]. split; lia.
Qed.

Lemma common_len_branch (Hb : list Z) k x R : (k <= length Hb)%nat -> x ∉ Hb ->
  common_len Hb (take k Hb ++ x :: R) = k.
Proof.
  intros Hk Hx. apply common_len_take_app; [exact Hk|].
  intros y z Hy Hz. cbn in Hz. injection Hz as <-. intros ->. apply Hx. eapply elem_of_list_lookup_2. exact Hy.
Qed.

Lemma normA_reorg_wr i bh c es : good c -> (S i <= length (k_chain c))%nat -> hid bh ∉ hashes (k_chain c) ->
  normA c (wr es (reorg_cf i bh c)).
Proof.
  intros G Hi Hn. destruct (wr_form_len es (reorg_cf i bh c)) as [X [_ ->]].
  unfold normA, reorg_cf. cbn [k_chain k_fchain k_events].
  rewrite <- app_assoc. rewrite hashes_app, hashes_take. cbn [app].
  change (hashes (bh :: X)) with (hid bh :: hashes X).
  rewrite expected_disc_eq, common_len_branch by (rewrite ?hashes_length; assumption).
  split; reflexivity.
Qed.

Lemma step_reorg_rb i bh c pc : good c -> Z.of_nat (length (k_chain c)) + 1 <= 1000000 ->
  (S i <= length (k_chain c))%nat -> hid bh ∉ hashes (k_chain c) ->
  normA c (rbto pc (reorg_cf i bh c)) \/ phantomC c (rbto pc (reorg_cf i bh c)).
Proof.
  intros G HL Hi Hn. pose proof (good_reorg_cf i bh c G Hi) as G2.
  assert (Hlen2 : length (k_chain (reorg_cf i bh c)) = S (S i)).
  { cbn [reorg_cf k_chain]. rewrite app_length, take_length. cbn [length]. lia. }
  rewrite rbto_cf by (try exact G2; rewrite Hlen2; lia).
  pose proof (tgt_range pc _ G2) as Hm. rewrite Hlen2 in Hm.
  set (m := tgt pc (reorg_cf i bh c)) in *.
  destruct (decide (m = S (S i))) as [Hall|Hlt].
  - left. rewrite rb_cf_all by (try exact G2; lia).
    pose proof (normA_reorg_wr i bh c [] G Hi Hn) as HN. exact HN.
  - right. exists bh, (S i), m.
    split; [exact Hn|]. split; [lia|]. split; [lia|].
    unfold rb_cf, reorg_cf. cbn [k_chain k_fchain k_events].
    rewrite take_app_le by (rewrite take_length; lia). rewrite !take_take.
    replace (Nat.min m (S i)) with m by lia.
    split; [reflexivity|]. split; [reflexivity|].
    rewrite <- app_assoc. f_equal.
    rewrite hashes_app, hashes_take. change (hashes [bh]) with [hid bh].
    rewrite discs_from_snoc by (rewrite take_length, hashes_length; lia).
    rewrite take_length, hashes_length. replace (Nat.min (S i) (length (k_chain c))) with (S i) by lia.
    rewrite lookup_take by lia.
    rewrite !expected_disc_eq. rewrite common_len_take by (rewrite hashes_length; lia).
    replace (take m (hashes (k_chain c))) with (take m (take (S i) (hashes (k_chain c))))
      by (rewrite take_take; f_equal; lia).
    rewrite common_len_take by (rewrite take_length, hashes_length; lia).
    reflexivity.
Qed.

(* one header message *)
Lemma shape_step n m sub0 c c' : cinv n sub0 c -> Z.of_nat (n + m) <= 1000000 -> hh_shape c m c' ->
  cinv (n + m) sub0 c' /\ (normA c c' \/ phantomC c c').
Proof.
  intros HC Hn HS. pose proof HC as (G & HL & _).
  destruct HS as [batch Hb|pc|bh backHead backH batch Hf1 Hf2 Hb|bh backHead backH pc Hf1 Hf2 Hb].
  - split; [|left; apply normA_wr; exact G].
    eapply cinv_mono; [|apply cinv_wr; exact HC]. lia.
  - split; [|left; apply normA_rbto; [exact G|lia]].
    eapply cinv_mono; [|apply cinv_rbto; [exact HC|lia]]. lia.
  - split.
    + eapply cinv_mono; [|apply cinv_wr, cinv_wr, cinv_rbto; [exact HC|lia]]. cbn [length]. lia.
    + left. destruct (reorg_form c bh backHead backH G ltac:(lia) Hf1 Hf2) as [i [Hi [Hnin ->]]].
      apply normA_reorg_wr; assumption.
  - split.
    + eapply cinv_mono; [|apply cinv_rbto; [apply cinv_wr, cinv_rbto; [exact HC|lia]|cbn [length]; lia]]. cbn [length]. lia.
    + destruct (reorg_form c bh backHead backH G ltac:(lia) Hf1 Hf2) as [i [Hi [Hnin ->]]].
      apply step_reorg_rb; try assumption. lia.
Qed.


(* ---------- writeCFHeadersMsg ---------- *)
Lemma core_fold_add_ev evs : forall s,
  core_of (fold_left (fun st e => add_ev e st) evs s) =
  {| k_chain := chain s; k_fchain := fchain s; k_ftip := ftipVar s; k_events := events s ++ evs |}.
Proof.
  induction evs as [|e evs IH]; intros s; cbn [fold_left].
  - rewrite app_nil_r. reflexivity.
  - rewrite IH. cbn [add_ev chain fchain ftipVar events]. rewrite <- app_assoc. reflexivity.
Qed.

(* (B) a successful filter-header write *)
Definition connB (fs : list Z) (c c' : core) : Prop :=
  fs <> [] /\ (length (k_fchain c) + length fs <= length (k_chain c))%nat /\
  k_chain c' = k_chain c /\ k_fchain c' = k_fchain c ++ fs /\
  k_ftip c' = Z.of_nat (length (k_fchain c) + length fs) - 1 /\
  k_events c' = k_events c ++
    expected_conn (hashes (k_chain c)) (length (k_fchain c)) (length (k_fchain c) + length fs).

Lemma write_cf_core prev fs stop s : good (core_of s) -> Z.of_nat (length (chain s)) <= 1000000 ->
  (snd (write_cf prev fs stop s) = false /\ core_of (fst (write_cf prev fs stop s)) = core_of s) \/
  (snd (write_cf prev fs stop s) = true /\ connB fs (core_of s) (core_of (fst (write_cf prev fs stop s)))).
Proof.
  intros [[G1 G2] G3] HL. cbn [core_of k_chain k_fchain k_ftip] in *.
  unfold write_cf.
  destruct (last (fchain s)) as [tip|]; [|left; split; reflexivity].
  destruct (negb (tip =? prev)); [left; split; reflexivity|].
  destruct fs as [|z fs']; [left; split; reflexivity|].
  set (fs := z :: fs').
  destruct (fetch_header (chain s) stop) as [[hd endh]|] eqn:Hf; [|left; split; reflexivity].
  apply fetch_Some in Hf as [i [-> Hi]].
  cbv zeta.
  destruct (Z.of_nat i - (zlen fs - 1) <? 0) eqn:E1; [left; split; reflexivity|].
  destruct (negb (Z.of_nat i - (zlen fs - 1) =? zlen (fchain s))) eqn:E2; [left; split; reflexivity|].
  right. cbn [fst snd]. split; [reflexivity|].
  unfold zlen in *.
  assert (Hst : Z.of_nat i - (Z.of_nat (length fs) - 1) = Z.of_nat (length (fchain s))) by lia.
  rewrite Hst. rewrite core_fold_add_ev. cbn [set_ftip set_fchain chain fchain ftipVar events].
  unfold connB. cbn [core_of k_chain k_fchain k_ftip k_events].
  split; [discriminate|]. split; [lia|]. split; [reflexivity|]. split; [reflexivity|]. split; [lia|].
  f_equal. unfold expected_conn.
  replace (length (fchain s) + length fs - length (fchain s))%nat with (length fs) by lia.
  rewrite zn_nat by lia.
  rewrite (seq_as_map (length (fchain s))).
  rewrite map_map. apply map_ext_in. intros j Hj.
  apply elem_of_list_In, elem_of_seq in Hj.
  replace (Z.of_nat (length (fchain s)) + Z.of_nat j) with (Z.of_nat (length (fchain s) + j)) by lia.
  rewrite at_h_nat by lia. rewrite hashes_lookup.
  destruct (chain s !! (length (fchain s) + j)%nat) as [x|] eqn:Hx; [reflexivity|].
  apply lookup_ge_None in Hx. lia.
Qed.

Lemma cinv_connB n sub0 fs c c' : cinv n sub0 c -> connB fs c c' -> cinv n sub0 c'.
Proof.
  intros ([[G1 G2] G3] & HL & HR) (Hne & Hlen & Hc & Hf & Ht & He).
  unfold cinv, good, committed. rewrite Hc, Hf, Ht, He, app_length.
  split; [split; lia|]. split; [exact HL|].
  rewrite replay_app, HR. cbn [mbind option_bind]. unfold committed.
  rewrite !hashes_take. apply replay_conns. rewrite hashes_length. lia.
Qed.

(* ---------- one operation ---------- *)

Lemma hdr_total_app a b : hdr_total (a ++ b) = (hdr_total a + hdr_total b)%nat.
Proof. induction a as [|o a IH]; cbn [app hdr_total]; [reflexivity|rewrite IH; lia]. Qed.

Lemma normA_refl c : good c -> normA c c.
Proof. intros G. pose proof (normA_wr c [] G) as H. exact H. Qed.

Definition step_rel (P : params) (s : state) (o : op) (c c' : core) : Prop :=
  normA c c' \/
  (exists prev fs stop, o = OWriteCF prev fs stop /\ snd (write_cf prev fs stop s) = true /\ connB fs c c') \/
  (headers_op o /\ phantomC c c').

Lemma step_core P s o n sub0 : cinv n sub0 (core_of s) -> Z.of_nat (n + hdr_count o) <= 1000000 ->
  cinv (n + hdr_count o) sub0 (core_of (step P s o)) /\
  step_rel P s o (core_of s) (core_of (step P s o)).
Proof.
  intros HC Hn. pose proof HC as (G & HL & _).
  assert (Hsame : forall c', c' = core_of s -> cinv (n + hdr_count o) sub0 c' /\ step_rel P s o (core_of s) c').
  { intros c' ->. split; [eapply cinv_mono; [|exact HC]; lia|]. left. apply normA_refl. exact G. }
  destruct o as [p now hs|p now x|p st la full|p|prev fs stop|h| |p now hs k|p now hs k]; cbn [step hdr_count] in *.
  9:{ exfalso. destruct G as [[G1 G2] _]. cbn [core_of k_chain k_fchain] in *. lia. }
  7:{ apply Hsame. apply core_restart. destruct G as [_ G]. cbn [core_of k_ftip k_fchain] in G. exact G. }
  7:{ destruct (shape_step n (length hs) sub0 _ _ HC Hn (handle_headers_f_shape P now p hs k s)) as [H1 [H2|H2]].
      - split; [exact H1|]. left. exact H2.
      - split; [exact H1|]. right. right. split; [right; eauto|exact H2]. }
  - destruct (shape_step n (length hs) sub0 _ _ HC Hn (handle_headers_shape P now p hs s)) as [H1 [H2|H2]].
    + split; [exact H1|]. left. exact H2.
    + split; [exact H1|]. right. right. split; [left; eauto|exact H2].
  - apply Hsame. apply core_handle_inv.
  - apply Hsame. rewrite core_new_peer. reflexivity.
  - apply Hsame. apply core_done_peer.
  - destruct (write_cf_core prev fs stop s G ltac:(cbn [core_of k_chain] in HL; lia)) as [[_ H]|[Hok H]].
    + apply Hsame. exact H.
    + split; [eapply cinv_mono; [|eapply cinv_connB; [exact HC|exact H]]; lia|].
      right. left. exists prev, fs, stop. split; [reflexivity|]. split; [exact Hok|exact H].
  - rewrite core_roll_back_to. split.
    + eapply cinv_mono; [|apply cinv_rbto; [exact HC|lia]]. lia.
    + left. apply normA_rbto; [exact G|lia].
Qed.

Lemma run_snoc P s ops o : run P s (ops ++ [o]) = step P (run P s ops) o.
Proof. unfold run. rewrite fold_left_app. reflexivity. Qed.
Lemma run_app P s a b : run P s (a ++ b) = run P (run P s a) b.
Proof. unfold run. apply fold_left_app. Qed.

Lemma run_cinv P sub0 ops : forall s n, cinv n sub0 (core_of s) -> Z.of_nat (n + hdr_total ops) <= 1000000 ->
  cinv (n + hdr_total ops) sub0 (core_of (run P s ops)).
Proof.
  induction ops as [|o ops IH]; intros s n HC Hn; cbn [hdr_total] in *.
  - rewrite Nat.add_0_r. exact HC.
  - change (run P s (o :: ops)) with (run P (step P s o) ops).
    replace (n + (hdr_count o + hdr_total ops))%nat with ((n + hdr_count o) + hdr_total ops)%nat by lia.
    apply IH; [|lia]. apply step_core; [exact HC|lia].
Qed.

Lemma init_cinv P gfh : cinv 1 [hid (genesis P)] (core_of (init_state P gfh)).
Proof.
  unfold cinv, good, committed. cbn. split; [split; lia|]. split; [lia|reflexivity].
Qed.


Lemma reach_cinv P gfh ops : in_domain ops ->
  cinv (1 + hdr_total ops) [hid (genesis P)] (core_of (run P (init_state P gfh) ops)).
Proof. intros Hd. apply run_cinv; [apply init_cinv|unfold in_domain in Hd; lia]. Qed.

(* ---------- events only grow ---------- *)
Lemma step_events_grow P s o n sub0 : cinv n sub0 (core_of s) -> Z.of_nat (n + hdr_count o) <= 1000000 ->
  exists later, events (step P s o) = events s ++ later.
Proof.
  intros HC Hn. destruct (step_core P s o n sub0 HC Hn) as [_ [H|[H|H]]].
  - destruct H as [H _]. eexists. exact H.
  - destruct H as (prev & fs & stop & _ & _ & H). destruct H as (_ & _ & _ & _ & _ & H). eexists. exact H.
  - destruct H as [_ (x & k & m & _ & _ & _ & _ & _ & H)]. eexists. exact H.
Qed.

Lemma run_events_grow P sub0 ops : forall s n, cinv n sub0 (core_of s) -> Z.of_nat (n + hdr_total ops) <= 1000000 ->
  exists later, events (run P s ops) = events s ++ later.
Proof.
  induction ops as [|o ops IH]; intros s n HC Hn; cbn [hdr_total] in *.
  - exists []. rewrite app_nil_r. reflexivity.
  - change (run P s (o :: ops)) with (run P (step P s o) ops).
    destruct (step_events_grow P s o n sub0 HC ltac:(lia)) as [l1 H1].
    destruct (IH (step P s o) (n + hdr_count o)%nat) as [l2 H2]; [apply step_core; [exact HC|lia]|lia|].
    exists (l1 ++ l2). rewrite H2, H1, app_assoc. reflexivity.
Qed.

(* ---------- NotificationsSinceHeight ---------- *)
Lemma omap_id_Some {A} (l : list A) : omap id (map Some l) = l.
Proof. induction l as [|x l IH]; [reflexivity|]. cbn. rewrite IH. reflexivity. Qed.
Lemma forallb_Some {A} (l : list A) :
  forallb (fun o : option A => match o with Some _ => true | None => false end) (map Some l) = true.
Proof. induction l as [|x l IH]; [reflexivity|exact IH]. Qed.

Lemma notifs_since_spec s h : good (core_of s) -> Z.of_nat (length (chain s)) <= 1000000 -> 0 <= h ->
  notifs_since h s =
  if h =? 0 then Some ([], ftipVar s)
  else if h <=? ftipVar s then Some (expected_backlog (hashes (chain s)) (length (fchain s)) h, ftipVar s)
  else None.
Proof.
  intros [[G1 G2] G3] HL Hh. cbn [core_of k_chain k_fchain k_ftip] in *.
  unfold notifs_since. rewrite G3.
  destruct (h =? 0) eqn:E0; [reflexivity|]. cbn [orb].
  set (fl := length (fchain s)) in *.
  destruct (Z.of_nat fl - 1 =? h) eqn:E1.
  { replace (h <=? Z.of_nat fl - 1) with true by lia.
    unfold expected_backlog. rewrite zn_eq by lia.
    replace (fl - (Z.to_nat h + 1))%nat with 0%nat by lia. reflexivity. }
  destruct (h >? Z.of_nat fl - 1) eqn:E2.
  { replace (h <=? Z.of_nat fl - 1) with false by lia. reflexivity. }
  replace (h <=? Z.of_nat fl - 1) with true by lia.
  cbv zeta.
  assert (Hitems :
    map (fun i => match at_h (chain s) i with Some x => Some (hid x, i) | None => None end)
        (map (fun i => h + 1 + Z.of_nat i) (seq 0 (zn (Z.of_nat fl - 1 - h)))) =
    map Some (expected_backlog (hashes (chain s)) fl h)).
  { unfold expected_backlog. rewrite !zn_eq by lia.
    replace (fl - (Z.to_nat h + 1))%nat with (Z.to_nat (Z.of_nat fl - 1 - h)) by lia.
    set (m := Z.to_nat (Z.of_nat fl - 1 - h)).
    rewrite (seq_as_map (Z.to_nat h + 1)).
    rewrite !map_map. apply map_ext_in. intros j Hj.
    apply elem_of_list_In, elem_of_seq in Hj.
    replace (h + 1 + Z.of_nat j) with (Z.of_nat (Z.to_nat h + 1 + j)) by lia.
    rewrite at_h_nat by lia. rewrite hashes_lookup.
    destruct (chain s !! (Z.to_nat h + 1 + j)%nat) as [x|] eqn:Hx; [reflexivity|].
    apply lookup_ge_None in Hx. lia. }
  rewrite Hitems, forallb_Some, omap_id_Some. reflexivity.
Qed.

(* the backlog, replayed as connected events, completes the committed chain *)

Lemma replay_backlog (Hs : list Z) (fl : nat) h : (fl <= length Hs)%nat -> 0 <= h < Z.of_nat fl ->
  replay (take (zn h + 1) Hs) (map conn_of (expected_backlog Hs fl h)) = Some (take fl Hs).
Proof.
  intros Hfl Hh. unfold expected_backlog. rewrite map_map.
  assert (Hz : Z.of_nat fl <= 1000000 \/ 1000000 < Z.of_nat fl) by lia.
  set (k := (zn h + 1)%nat).
  assert (Hk : (k <= fl)%nat).
  { unfold k, zn. destruct ((0 <=? h) && (h <? 1000000)); lia. }
  pose proof (replay_conns Hs (fl - k) k ltac:(lia)) as HR.
  replace (k + (fl - k))%nat with fl in HR by lia. exact HR.
Qed.


(* ================= the C19 theorems, in the vocabulary of Model/Spec ================= *)



Lemma events_per_step P gfh ops o : in_domain (ops ++ [o]) ->
  let s := reach P gfh ops in let s' := step P s o in
  ev_disc_only s s' \/ ev_conn_only o s s' \/ ev_phantom o s s'.
Proof.
  intros Hd s s'. unfold in_domain in Hd. rewrite hdr_total_app in Hd. cbn [hdr_total] in Hd.
  pose proof (reach_cinv P gfh ops ltac:(unfold in_domain; lia)) as HC. fold (reach P gfh ops) in HC. fold s in HC.
  destruct (step_core P s o _ _ HC ltac:(lia)) as [HC' [H|[H|H]]]; fold s' in HC', H.
  - left. exact H.
  - right. left. destruct H as (prev & fs & stop & -> & Hok & Hne & Hlen & Hc & Hf & Ht & He).
    cbn [core_of k_chain k_fchain k_ftip k_events] in *.
    exists prev, fs, stop. split; [reflexivity|]. split; [exact Hok|]. split; [exact Hne|].
    split; [exact Hc|]. split; [exact Hf|]. rewrite Hf, Hc, app_length. split; [lia|]. exact He.
  - right. right. destruct H as [Ho (x & k & m & H1 & H2 & H3 & H4 & H5 & H6)]. split; [exact Ho|].
    cbn [core_of k_chain k_fchain k_ftip k_events] in *.
    exists x, k, m. unfold hashes in *. rewrite map_length. tauto.
Qed.

(* the monitor's formula holds in cases (A) and (B) *)
Lemma events_uniform P gfh ops o : in_domain (ops ++ [o]) ->
  let s := reach P gfh ops in let s' := step P s o in
  let Hb := map hid (chain s) in let Ha := map hid (chain s') in
  let fb := length (fchain s) in let fa := length (fchain s') in
  events s' = events s ++ expected_disc Hb Ha ++ expected_conn Ha (Nat.min fb fa) fa \/
  ev_phantom o s s'.
Proof.
  intros Hd s s' Hb Ha fb fa.
  destruct (events_per_step P gfh ops o Hd) as [[H1 H2]|[H|H]].
  - left. fold s s' in H1, H2. fold Hb Ha in H1, H2. rewrite H1. f_equal.
    assert (Hfa : (fa <= fb)%nat) by (unfold fa, fb; rewrite H2, take_length; lia).
    unfold expected_conn. replace (fa - Nat.min fb fa)%nat with 0%nat by lia. rewrite app_nil_r. reflexivity.
  - left. fold s s' in H. destruct H as (prev & fs & stop & _ & _ & _ & Hc & Hf & _ & He).
    rewrite He. f_equal. unfold Hb, Ha. rewrite Hc.
    rewrite expected_disc_eq, common_len_refl, discs_from_ge by lia. cbn [app].
    replace (Nat.min fb fa) with fb; [reflexivity|].
    unfold fa, fb. rewrite Hf, app_length. lia.
  - right. exact H.
Qed.

Lemma invariant P gfh ops : in_domain ops ->
  let s := reach P gfh ops in
  1 <= zlen (fchain s) /\ zlen (fchain s) <= zlen (chain s) /\
  ftipVar s = zlen (fchain s) - 1 /\
  replay [hid (genesis P)] (events s) = Some (map hid (take (length (fchain s)) (chain s))).
Proof.
  intros Hd s. destruct (reach_cinv P gfh ops Hd) as ([[G1 G2] G3] & _ & HR).
  fold (reach P gfh ops) in *. fold s in G1, G2, G3, HR.
  cbn [core_of k_chain k_fchain k_ftip k_events] in *. unfold zlen.
  split; [lia|]. split; [lia|]. split; [exact G3|exact HR].
Qed.

Lemma backlog_exact P gfh ops h : in_domain ops -> 0 <= h ->
  let s := reach P gfh ops in
  notifs_since h s =
  if h =? 0 then Some ([], ftipVar s)
  else if h <=? ftipVar s
       then Some (expected_backlog (map hid (chain s)) (length (fchain s)) h, ftipVar s)
       else None.
Proof.
  intros Hd Hh s. destruct (reach_cinv P gfh ops Hd) as (G & HL & _).
  fold (reach P gfh ops) in *. fold s in G, HL. cbn [core_of k_chain] in HL.
  apply notifs_since_spec; [exact G| |exact Hh]. unfold in_domain in Hd. lia.
Qed.

Lemma backlog_then_events P gfh ops1 ops2 h : in_domain (ops1 ++ ops2) ->
  let s1 := reach P gfh ops1 in let s2 := run P s1 ops2 in
  0 < h <= ftipVar s1 ->
  exists bl later,
    notifs_since h s1 = Some (bl, ftipVar s1) /\
    events s2 = events s1 ++ later /\
    replay (map hid (take (zn h + 1) (chain s1))) (map conn_of bl ++ later) =
      Some (map hid (take (length (fchain s2)) (chain s2))).
Proof.
  intros Hd s1 s2 Hh. unfold in_domain in Hd. rewrite hdr_total_app in Hd.
  assert (Hd1 : in_domain ops1) by (unfold in_domain; lia).
  pose proof (reach_cinv P gfh ops1 Hd1) as HC1. fold (reach P gfh ops1) in HC1. fold s1 in HC1.
  pose proof (run_cinv P _ ops2 s1 _ HC1 ltac:(lia)) as HC2. fold s2 in HC2.
  destruct (run_events_grow P _ ops2 s1 _ HC1 ltac:(lia)) as [later Hlater]. fold s2 in Hlater.
  destruct HC1 as ([[G1 G2] G3] & HL1 & HR1). destruct HC2 as (_ & _ & HR2).
  cbn [core_of k_chain k_fchain k_ftip k_events] in *.
  exists (expected_backlog (map hid (chain s1)) (length (fchain s1)) h), later.
  split.
  { pose proof (backlog_exact P gfh ops1 h Hd1 ltac:(lia)) as HB. fold s1 in HB. cbv zeta in HB.
    rewrite HB. replace (h =? 0) with false by lia. replace (h <=? ftipVar s1) with true by lia. reflexivity. }
  split; [exact Hlater|].
  rewrite Hlater, replay_app, HR1 in HR2. cbn [mbind option_bind] in HR2.
  rewrite replay_app.
  change (map hid (take (zn h + 1) (chain s1))) with (hashes (take (zn h + 1) (chain s1))).
  rewrite hashes_take.
  change (map hid (chain s1)) with (hashes (chain s1)).
  rewrite replay_backlog by (rewrite ?hashes_length; lia).
  cbn [mbind option_bind]. unfold committed in HR2. rewrite hashes_take in HR2. exact HR2.
Qed.


(* ================= case (C) cannot happen on this tree =================
   With the F17 fix a branch is only switched to after every header of the
   message was compared with the checkpoints ([reorg_check] / [cp_matches]), so
   the checkpoint test that follows cannot fail for it; and the next checkpoint
   is always at a positive height, so the test is never hit by the height-0
   node of the branch switch itself. *)

Definition Jcp (P : params) (o : option (Z * Z)) : Prop :=
  match o with Some c => c ∈ checkpoints P /\ 0 < c.1 | None => True end.

Lemma find_next_cp_J P h : 0 <= h -> Jcp P (find_next_cp P h).
Proof.
  intros Hh. unfold find_next_cp.
  destruct (list_find (λ c : Z * Z, h < c.1) (checkpoints P)) as [[i c]|] eqn:E; [|exact I].
  apply list_find_Some in E as (E1 & E2 & _). split; [eapply elem_of_list_lookup_2; exact E1|lia].
Qed.

Lemma nextCp_roll_back f : forall h s, nextCp (roll_back f h s) = nextCp s.
Proof.
  induction f as [|f IH]; intros h s; [reflexivity|]. cbn [roll_back].
  destruct (tip_height s >? h); [|reflexivity].
  destruct (at_h (chain s) (tip_height s)); [|reflexivity].
  destruct (at_h (chain s) (tip_height s - 1)); [|reflexivity].
  rewrite IH. destruct (tip_height s <=? zlen (fchain s) - 1); reflexivity.
Qed.
Lemma nextCp_roll_back_to h s : nextCp (roll_back_to h s) = nextCp s.
Proof. apply nextCp_roll_back. Qed.
Lemma nextCp_write_headers es s : nextCp (write_headers es s) = nextCp s.
Proof. unfold write_headers. destruct es; [reflexivity|]. destruct (_ && _); reflexivity. Qed.
Lemma nextCp_bump_last p h s : nextCp (bump_last p h s) = nextCp s.
Proof. unfold bump_last. destruct (_ <=? _); reflexivity. Qed.
Lemma nextCp_resync s : nextCp (resync s) = nextCp s.
Proof.
  unfold resync. destruct (chain_tip s); [|reflexivity].
  destruct (last (hl s)); [|reflexivity]. destruct (_ && _); reflexivity.
Qed.
Lemma nextCp_start_sync s : nextCp (start_sync s) = nextCp s.
Proof. unfold start_sync. destruct (syncPeer s); [reflexivity|]. cbv zeta. destruct (fold_left _ _ _); reflexivity. Qed.
Lemma nextCp_new_peer p s : nextCp (new_peer p s) = nextCp s.
Proof. unfold new_peer. destruct (negb _); [reflexivity|]. rewrite nextCp_start_sync. reflexivity. Qed.
Lemma nextCp_done_peer p s : nextCp (done_peer p s) = nextCp s.
Proof.
  unfold done_peer. cbv zeta. destruct (is_sync _ _); [|reflexivity].
  destruct (chain_tip _); [|reflexivity]. rewrite nextCp_start_sync. reflexivity.
Qed.
Lemma nextCp_handle_inv P now p x s : nextCp (handle_inv P now p x s) = nextCp s.
Proof.
  unfold handle_inv. destruct x; [|reflexivity].
  destruct (_ && _); [reflexivity|]. destruct (headers_synced _ _ _); [|reflexivity].
  destruct (fetch_header _ _) as [[? ?]|]; [|reflexivity]. apply nextCp_bump_last.
Qed.
Lemma nextCp_fold_add_ev evs : forall s, nextCp (fold_left (fun st e => add_ev e st) evs s) = nextCp s.
Proof. induction evs as [|e evs IH]; intros s; [reflexivity|]. cbn [fold_left]. rewrite IH. reflexivity. Qed.
Lemma nextCp_write_cf prev fs stop s : nextCp (fst (write_cf prev fs stop s)) = nextCp s.
Proof.
  unfold write_cf. destruct (last (fchain s)); [|reflexivity].
  destruct (negb _); [reflexivity|]. destruct fs; [reflexivity|].
  destruct (fetch_header _ _) as [[? ?]|]; [|reflexivity]. cbv zeta.
  destruct (_ <? 0); [reflexivity|]. destruct (negb _); [reflexivity|].
  cbn [fst]. rewrite nextCp_fold_add_ev. reflexivity.
Qed.

Lemma reorg_check_cp P now c : forall hs rl prevh prevhdr w t,
  reorg_check P now c rl prevh prevhdr hs w = Some t ->
  forall (j : nat) x, hs !! j = Some x -> cp_matches P (prevh + 1 + Z.of_nat j) x = true.
Proof.
  induction hs as [|y hs IH]; intros rl prevh prevhdr w t H j x Hj; [discriminate|].
  cbn [reorg_check] in H.
  destruct (is_ok _ && cp_matches P (prevh + 1) y) eqn:E; [|discriminate].
  apply andb_true_iff in E as [_ E].
  destruct j as [|j].
  - cbn in Hj. injection Hj as <-. replace (prevh + 1 + Z.of_nat 0) with (prevh + 1) by lia. exact E.
  - cbn in Hj. replace (prevh + 1 + Z.of_nat (S j)) with (prevh + 1 + 1 + Z.of_nat j) by lia.
    eapply IH; [exact H|exact Hj].
Qed.

Lemma cp_matches_hit P h x chash : cp_matches P h x = true -> (h, chash) ∈ checkpoints P -> chash = hid x.
Proof.
  unfold cp_matches. intros H Hin. rewrite forallb_forall in H.
  apply elem_of_list_In in Hin. specialize (H _ Hin). cbn [fst snd] in H. lia.
Qed.

(* ---------- refined view of the two halves of step_header ---------- *)
Inductive pre_kind2 (P : params) (now : Z) (a : acc) (bh : header) (rest : list header) (pn : node) : outcome * Z -> Prop :=
| pk2_ret s' n : core_of s' = core_of (a_s a) -> nextCp s' = nextCp (a_s a) -> pre_kind2 P now a bh rest pn (Return s', n)
| pk2_same : hid (nhdr pn) <> hprev bh -> pre_kind2 P now a bh rest pn (Continue a, 0)
| pk2_conn s2 : hid (nhdr pn) = hprev bh -> core_of s2 = core_of (a_s a) -> nextCp s2 = nextCp (a_s a) ->
    last (hl s2) = Some {| nheight := nheight pn + 1; nhdr := bh |} ->
    pre_kind2 P now a bh rest pn
      (Continue {| a_s := s2; a_batch := a_batch a ++ [(bh, nheight pn + 1)]; a_recvcp := a_recvcp a; a_finalh := nheight pn + 1 |},
       nheight pn + 1)
| pk2_reorg s4 backHead backH total :
    hid (nhdr pn) <> hprev bh ->
    fetch_header (chain (a_s a)) (hid bh) = None ->
    fetch_header (chain (a_s a)) (hprev bh) = Some (backHead, backH) ->
    reorg_check P now (chain (a_s a)) [{| nheight := backH; nhdr := backHead |}] backH backHead (bh :: rest) 0 = Some total ->
    core_of s4 = wr [(bh, backH + 1)] (rbto backH (core_of (a_s a))) -> nextCp s4 = nextCp (a_s a) ->
    last (hl s4) = Some {| nheight := backH + 1; nhdr := bh |} ->
    pre_kind2 P now a bh rest pn
      (Continue {| a_s := s4; a_batch := a_batch a; a_recvcp := a_recvcp a; a_finalh := a_finalh a |}, 0).

Lemma pre_out_kind2 P now p a bh rest pn : pre_kind2 P now a bh rest pn (pre_out P now p a bh rest pn).
Proof.
  unfold pre_out.
  destruct (hid (nhdr pn) =? hprev bh) eqn:E1.
  - destruct (is_ok _).
    + cbv zeta. apply pk2_conn.
      * lia.
      * rewrite core_set_hl, core_bump_last. reflexivity.
      * cbn [nextCp set_hl]. apply nextCp_bump_last.
      * cbn [hl set_hl]. apply last_win_push.
    + apply pk2_ret; reflexivity.
  - assert (Hne : hid (nhdr pn) <> hprev bh) by lia. clear E1.
    destruct (_ && _); [apply pk2_ret; reflexivity|].
    destruct (hid bh =? hid (nhdr pn)); [apply pk2_same; exact Hne|].
    destruct (fetch_header (chain (a_s a)) (hid bh)) eqn:E2; [apply pk2_same; exact Hne|].
    destruct (fetch_header (chain (a_s a)) (hprev bh)) as [[backHead backH]|] eqn:E3; [|apply pk2_ret; reflexivity].
    cbv zeta.
    destruct (backH <? _); [apply pk2_ret; reflexivity|].
    destruct (reorg_check _ _ _ _ _ _ _ _) as [total|] eqn:E4; [|apply pk2_ret; reflexivity].
    destruct (_ >? total); [apply pk2_ret; reflexivity|].
    destruct (_ =? total); [apply pk2_ret; reflexivity|].
    eapply pk2_reorg; [exact Hne|exact E2|exact E3|exact E4| | |reflexivity].
    + rewrite core_set_hl, core_write_headers, core_roll_back_to, core_set_sync. reflexivity.
    + cbn [nextCp set_hl]. rewrite nextCp_write_headers, nextCp_roll_back_to. reflexivity.
Qed.

Inductive post_kind2 (bh : header) (a' : acc) (n : Z) : outcome -> Prop :=
| po2_cont : post_kind2 bh a' n (Continue a')
| po2_break a'' chash : a_s a'' = a_s a' -> a_batch a'' = a_batch a' -> a_finalh a'' = a_finalh a' ->
    nextCp (a_s a') = Some (n, chash) -> post_kind2 bh a' n (Break a'')
| po2_ret s' pc chash : nextCp (a_s a') = Some (n, chash) -> hid bh <> chash ->
    core_of s' = rbto pc (core_of (a_s a')) -> nextCp s' = nextCp (a_s a') -> post_kind2 bh a' n (Return s').

Lemma post_kind2_of P p bh a' n : post_kind2 bh a' n (post P p bh (Continue a', n)).
Proof.
  unfold post. destruct (nextCp (a_s a')) as [[ch chash]|] eqn:E; [|constructor].
  destruct (n =? ch) eqn:En; [|constructor].
  assert (n = ch) by lia. subst ch.
  destruct (hid bh =? chash) eqn:Eh.
  - eapply po2_break; [reflexivity|reflexivity|reflexivity|exact E].
  - eapply po2_ret; [exact E|lia| |].
    + rewrite core_disconnect, core_roll_back_to. reflexivity.
    + cbn [nextCp disconnect put_peer set_peers]. apply nextCp_roll_back_to.
Qed.

(* ---------- the loop, refined ---------- *)
Inductive lres2 (safe : bool) (c : core) (cp : option (Z * Z)) (b : list (header * Z)) (n : nat) : outcome -> Prop :=
| lr2_ret s' : core_of s' = c -> nextCp s' = cp -> lres2 safe c cp b n (Return s')
| lr2_rb s' pc : safe = false -> core_of s' = rbto pc c -> nextCp s' = cp -> lres2 safe c cp b n (Return s')
| lr2_cont a' more : core_of (a_s a') = c -> nextCp (a_s a') = cp -> a_batch a' = b ++ more ->
    (length more <= n)%nat -> a_recvcp a' = false -> lres2 safe c cp b n (Continue a')
| lr2_break a' more : core_of (a_s a') = c -> nextCp (a_s a') = cp -> a_batch a' = b ++ more ->
    (length more <= n)%nat -> (a_recvcp a' = true -> 0 < a_finalh a') -> lres2 safe c cp b n (Break a').

Lemma lres2_shift safe c cp b x n o : lres2 safe c cp (b ++ x) n o -> lres2 safe c cp b (length x + n) o.
Proof.
  intros H. destruct H as [s' H1 H2|s' pc H0 H1 H2|a' more H1 H2 H3 H4 H5|a' more H1 H2 H3 H4 H5].
  - apply lr2_ret; assumption.
  - eapply lr2_rb; eassumption.
  - apply lr2_cont with (more := x ++ more); [exact H1|exact H2|rewrite H3, app_assoc; reflexivity|rewrite app_length; lia|exact H5].
  - apply lr2_break with (more := x ++ more); [exact H1|exact H2|rewrite H3, app_assoc; reflexivity|rewrite app_length; lia|exact H5].
Qed.
Lemma lres2_mono safe c cp b n m o : (n <= m)%nat -> lres2 safe c cp b n o -> lres2 safe c cp b m o.
Proof.
  intros Hnm H. destruct H as [s' H1 H2|s' pc H0 H1 H2|a' more H1 H2 H3 H4 H5|a' more H1 H2 H3 H4 H5].
  - apply lr2_ret; assumption.
  - eapply lr2_rb; eassumption.
  - apply lr2_cont with (more := more); [exact H1|exact H2|exact H3|lia|exact H5].
  - apply lr2_break with (more := more); [exact H1|exact H2|exact H3|lia|exact H5].
Qed.

Definition cpsafe (P : params) (h : Z) (rest : list header) : Prop :=
  forall (j : nat) x, rest !! j = Some x -> cp_matches P (h + 1 + Z.of_nat j) x = true.

Lemma loop_locked2 P now p safe rest : forall a pn,
  Jcp P (nextCp (a_s a)) -> a_recvcp a = false ->
  last (hl (a_s a)) = Some pn -> connected (hid (nhdr pn)) rest = true ->
  (safe = true -> cpsafe P (nheight pn) rest) ->
  lres2 safe (core_of (a_s a)) (nextCp (a_s a)) (a_batch a) (length rest) (loop P now p a rest).
Proof.
  induction rest as [|bh rest IH]; intros a pn HJ Hrc Hl Hc Hsafe.
  - cbn [loop]. apply lr2_break with (more := []); [reflexivity|reflexivity|rewrite app_nil_r; reflexivity|cbn; lia|].
    rewrite Hrc. discriminate.
  - cbn [loop]. rewrite step_header_eq, Hl.
    cbn [connected] in Hc. apply andb_true_iff in Hc as [Hc1 Hc2].
    pose proof (pre_out_kind2 P now p a bh rest pn) as HK.
    destruct HK as [s' n Hs' Hcp'|Hne|s2 Heq Hcore Hcp Hlast|s4 backHead backH total Hne _ _ _ _ _ _].
    + rewrite post_ret. apply lr2_ret; assumption.
    + lia.
    + set (a2 := {| a_s := s2; a_batch := a_batch a ++ [(bh, nheight pn + 1)]; a_recvcp := a_recvcp a; a_finalh := nheight pn + 1 |}).
      pose proof (post_kind2_of P p bh a2 (nheight pn + 1)) as HP.
      remember (post P p bh _) as o eqn:Ho. clear Ho.
      destruct HP as [|a'' chash Hs Hb Hfh Hn|s' pc chash Hn Hh Hs Hcp']; cbn [a2 a_s a_batch a_finalh] in *.
      * change (length (bh :: rest)) with (length [(bh, (nheight pn + 1)%Z)] + length rest)%nat.
        apply lres2_shift. rewrite <- Hcore, <- Hcp.
        apply (IH a2 {| nheight := nheight pn + 1; nhdr := bh |}); cbn [a2 a_s a_recvcp nheight nhdr].
        -- rewrite Hcp. exact HJ.
        -- exact Hrc.
        -- exact Hlast.
        -- exact Hc2.
        -- intros Hs j x Hj. specialize (Hsafe Hs (S j) x Hj).
           replace (nheight pn + 1 + 1 + Z.of_nat j) with (nheight pn + 1 + Z.of_nat (S j)) by lia. exact Hsafe.
      * apply lr2_break with (more := [(bh, nheight pn + 1)]);
          [rewrite Hs; exact Hcore|rewrite Hs; exact Hcp|exact Hb|cbn; lia|].
        intros _. rewrite Hfh. rewrite Hcp in Hn. rewrite Hn in HJ. destruct HJ as [_ HJ]. cbn in HJ. lia.
      * destruct safe eqn:Esafe.
        -- exfalso. apply Hh. rewrite Hcp in Hn. rewrite Hn in HJ. destruct HJ as [HJ _].
           specialize (Hsafe eq_refl 0%nat bh eq_refl).
           replace (nheight pn + 1 + Z.of_nat 0) with (nheight pn + 1) in Hsafe by lia.
           symmetry. eapply cp_matches_hit; [exact Hsafe|exact HJ].
        -- eapply lr2_rb; [reflexivity|rewrite Hs, Hcore; reflexivity|rewrite Hcp', Hcp; reflexivity].
    + lia.
Qed.

Inductive ures2 (c : core) (cp : option (Z * Z)) (b : list (header * Z)) (n : nat) : outcome -> Prop :=
| ur2_l o : lres2 false c cp b n o -> ures2 c cp b n o
| ur2_reorg bh backHead backH o m :
    fetch_header (k_chain c) (hid bh) = None ->
    fetch_header (k_chain c) (hprev bh) = Some (backHead, backH) ->
    (S m <= n)%nat ->
    lres2 true (wr [(bh, backH + 1)] (rbto backH c)) cp b m o -> ures2 c cp b n o.

Lemma ures2_mono c cp b n m o : (n <= m)%nat -> ures2 c cp b n o -> ures2 c cp b m o.
Proof.
  intros Hnm [o' H|bh backHead backH o' k H1 H2 H3 H4].
  - apply ur2_l. eapply lres2_mono; eassumption.
  - eapply ur2_reorg; [exact H1|exact H2| |exact H4]. lia.
Qed.

Lemma Jcp_not_zero P cp chash : Jcp P cp -> cp = Some (0, chash) -> False.
Proof. intros HJ ->. destruct HJ as [_ HJ]. cbn in HJ. lia. Qed.

Lemma loop_shape2 P now p rest : forall a,
  Jcp P (nextCp (a_s a)) -> a_recvcp a = false -> headers_connected rest = true ->
  ures2 (core_of (a_s a)) (nextCp (a_s a)) (a_batch a) (length rest) (loop P now p a rest).
Proof.
  induction rest as [|bh rest IH]; intros a HJ Hrc Hc.
  - cbn [loop]. apply ur2_l. apply lr2_break with (more := []); [reflexivity|reflexivity|rewrite app_nil_r; reflexivity|cbn; lia|].
    rewrite Hrc. discriminate.
  - cbn [loop]. rewrite step_header_eq.
    destruct (last (hl (a_s a))) as [pn|]; [|apply ur2_l, lr2_ret; reflexivity].
    cbn [headers_connected] in Hc.
    assert (Hc' : headers_connected rest = true).
    { destruct rest as [|y t]; [reflexivity|]. cbn [connected] in Hc. cbn [headers_connected]. lia. }
    pose proof (pre_out_kind2 P now p a bh rest pn) as HK.
    destruct HK as [s' n Hs' Hcp'|Hne|s2 Heq Hcore Hcp Hlast|s4 backHead backH total Hne Hf1 Hf2 Hrg Hcore Hcp Hlast].
    + rewrite post_ret. apply ur2_l, lr2_ret; assumption.
    + pose proof (post_kind2_of P p bh a 0) as HP.
      remember (post P p bh _) as o eqn:Ho. clear Ho.
      destruct HP as [|a'' chash Hs Hb Hfh Hn|s' pc chash Hn Hh Hs Hcp'].
      * eapply ures2_mono; [|apply IH; assumption]. cbn; lia.
      * exfalso. eapply Jcp_not_zero; eassumption.
      * exfalso. eapply Jcp_not_zero; eassumption.
    + set (a2 := {| a_s := s2; a_batch := a_batch a ++ [(bh, nheight pn + 1)]; a_recvcp := a_recvcp a; a_finalh := nheight pn + 1 |}).
      apply ur2_l.
      pose proof (post_kind2_of P p bh a2 (nheight pn + 1)) as HP.
      remember (post P p bh _) as o eqn:Ho. clear Ho.
      destruct HP as [|a'' chash Hs Hb Hfh Hn|s' pc chash Hn Hh Hs Hcp']; cbn [a2 a_s a_batch a_finalh] in *.
      * change (length (bh :: rest)) with (length [(bh, (nheight pn + 1)%Z)] + length rest)%nat.
        apply lres2_shift. rewrite <- Hcore, <- Hcp.
        apply (loop_locked2 P now p false rest a2 {| nheight := nheight pn + 1; nhdr := bh |}); cbn [a2 a_s a_recvcp nheight nhdr].
        -- rewrite Hcp. exact HJ.
        -- exact Hrc.
        -- exact Hlast.
        -- exact Hc.
        -- discriminate.
      * apply lr2_break with (more := [(bh, nheight pn + 1)]);
          [rewrite Hs; exact Hcore|rewrite Hs; exact Hcp|exact Hb|cbn; lia|].
        intros _. rewrite Hfh. rewrite Hcp in Hn. rewrite Hn in HJ. destruct HJ as [_ HJ]. cbn in HJ. lia.
      * eapply lr2_rb; [reflexivity|rewrite Hs, Hcore; reflexivity|rewrite Hcp', Hcp; reflexivity].
    + set (a4 := {| a_s := s4; a_batch := a_batch a; a_recvcp := a_recvcp a; a_finalh := a_finalh a |}).
      pose proof (post_kind2_of P p bh a4 0) as HP.
      remember (post P p bh _) as o eqn:Ho. clear Ho.
      destruct HP as [|a'' chash Hs Hb Hfh Hn|s' pc chash Hn Hh Hs Hcp']; cbn [a4 a_s] in *.
      * eapply ur2_reorg with (m := length rest); [exact Hf1|exact Hf2|cbn; lia|].
        rewrite <- Hcore, <- Hcp.
        apply (loop_locked2 P now p true rest a4 {| nheight := backH + 1; nhdr := bh |}); cbn [a4 a_s a_recvcp nheight nhdr].
        -- rewrite Hcp. exact HJ.
        -- exact Hrc.
        -- exact Hlast.
        -- exact Hc.
        -- intros _ j x Hj.
           pose proof (reorg_check_cp P now _ _ _ _ _ _ _ Hrg (S j) x Hj) as HM.
           replace (backH + 1 + 1 + Z.of_nat j) with (backH + 1 + Z.of_nat (S j)) by lia. exact HM.
      * exfalso. rewrite Hcp in Hn. eapply Jcp_not_zero; eassumption.
      * exfalso. rewrite Hcp in Hn. eapply Jcp_not_zero; eassumption.
Qed.


Inductive hh_shape2 (c0 : core) (n : nat) : core -> Prop :=
| sh2_wr batch : (length batch <= n)%nat -> hh_shape2 c0 n (wr batch c0)
| sh2_rb pc : hh_shape2 c0 n (rbto pc c0)
| sh2_reorg bh backHead backH batch :
    fetch_header (k_chain c0) (hid bh) = None ->
    fetch_header (k_chain c0) (hprev bh) = Some (backHead, backH) ->
    (length batch + 1 <= n)%nat ->
    hh_shape2 c0 n (wr batch (wr [(bh, backH + 1)] (rbto backH c0))).

Definition final_state (P : params) (o : outcome) : state :=
  match o with
  | Return s' => s'
  | Continue a | Break a =>
    let s1 := write_headers (a_batch a) (a_s a) in
    if a_recvcp a then set_cp (find_next_cp P (a_finalh a)) s1 else s1
  end.

Lemma final_state_core P o : core_of (final_state P o) = final_core o.
Proof.
  destruct o as [s'|a|a]; cbn [final_state final_core]; [reflexivity| |];
    (destruct (a_recvcp a); [rewrite core_set_cp|]; apply core_write_headers).
Qed.

Lemma lres2_final P safe c cp n o : Jcp P cp -> lres2 safe c cp [] n o ->
  Jcp P (nextCp (final_state P o)) /\
  (final_core o = c \/ (safe = false /\ exists pc, final_core o = rbto pc c) \/
   (exists batch, (length batch <= n)%nat /\ final_core o = wr batch c)).
Proof.
  intros HJ [s' H1 H2|s' pc H0 H1 H2|a' more H1 H2 H3 H4 H5|a' more H1 H2 H3 H4 H5]; cbn [final_core final_state].
  - split; [rewrite H2; exact HJ|]. left. exact H1.
  - split; [rewrite H2; exact HJ|]. right. left. split; [exact H0|]. exists pc. exact H1.
  - split.
    + rewrite H5. rewrite nextCp_write_headers, H2. exact HJ.
    + right. right. exists more. rewrite H1, H3. split; [exact H4|reflexivity].
  - split.
    + destruct (a_recvcp a') eqn:Erc.
      * cbn [nextCp set_cp]. apply find_next_cp_J. specialize (H5 eq_refl). lia.
      * rewrite nextCp_write_headers, H2. exact HJ.
    + right. right. exists more. rewrite H1, H3. split; [exact H4|reflexivity].
Qed.

Lemma handle_headers_final P now p hs s :
  handle_headers P now p hs s =
  match hs with
  | [] => s
  | _ => if negb (headers_connected hs) then disconnect p s
         else resync (final_state P (loop P now p {| a_s := s; a_batch := []; a_recvcp := false; a_finalh := 0 |} hs))
  end.
Proof.
  unfold handle_headers. destruct hs as [|x t]; [reflexivity|].
  destruct (negb _); reflexivity.
Qed.

Theorem handle_headers_shape2 P now p hs s : Jcp P (nextCp s) ->
  hh_shape2 (core_of s) (length hs) (core_of (handle_headers P now p hs s)) /\
  Jcp P (nextCp (handle_headers P now p hs s)).
Proof.
  intros HJ. rewrite handle_headers_final.
  assert (Hsame : hh_shape2 (core_of s) (length hs) (core_of s)).
  { apply (sh2_wr (core_of s) (length hs) []). cbn; lia. }
  destruct hs as [|x t]; [split; [exact Hsame|exact HJ]|].
  destruct (negb (headers_connected (x :: t))) eqn:Hc; [split; [exact Hsame|exact HJ]|].
  apply negb_false_iff in Hc.
  rewrite core_resync, nextCp_resync, final_state_core.
  pose proof (loop_shape2 P now p (x :: t) {| a_s := s; a_batch := []; a_recvcp := false; a_finalh := 0 |} HJ eq_refl Hc) as HU.
  cbn [a_s a_batch] in HU.
  destruct HU as [o HL|bh backHead backH o m H1 H2 H3 HL].
  - apply (lres2_final P) in HL as [HJ' HL]; [|exact HJ]. split; [|exact HJ'].
    destruct HL as [->|[[_ [pc ->]]|[batch [Hb ->]]]].
    + exact Hsame.
    + apply sh2_rb.
    + apply sh2_wr. exact Hb.
  - apply (lres2_final P) in HL as [HJ' HL]; [|exact HJ]. split; [|exact HJ'].
    destruct HL as [->|[[Hf _]|[batch [Hb ->]]]].
    + apply (sh2_reorg _ _ bh backHead backH []); [exact H1|exact H2|cbn; lia].
    + discriminate.
    + eapply sh2_reorg; [exact H1|exact H2|lia].
Qed.

(* ---------- the same with a failing header-store write ---------- *)
Definition final_state_f (P : params) (k' : Z) (o : outcome) : state :=
  match o with
  | Return s' => s'
  | Continue a | Break a =>
    if fault_hits k' a then a_s a
    else
      let s1 := write_headers (a_batch a) (a_s a) in
      if a_recvcp a then set_cp (find_next_cp P (a_finalh a)) s1 else s1
  end.

Lemma final_state_f_core P k' o : core_of (final_state_f P k' o) = final_core_f k' o.
Proof.
  destruct o as [s'|a|a]; cbn [final_state_f final_core_f]; [reflexivity| |];
    (destruct (fault_hits k' a); [reflexivity|]);
    (destruct (a_recvcp a); [rewrite core_set_cp|]; apply core_write_headers).
Qed.

Lemma handle_headers_f_final P now p hs k s :
  handle_headers_f P now p hs k s =
  match hs with
  | [] => s
  | _ => if negb (headers_connected hs) then disconnect p s
         else resync (final_state_f P (snd (loop_f P now p k (acc0 s) hs)) (fst (loop_f P now p k (acc0 s) hs)))
  end.
Proof.
  unfold handle_headers_f. destruct hs as [|x t]; [reflexivity|].
  destruct (negb _); [reflexivity|]. fold (acc0 s).
  destruct (loop_f _ _ _ _ _ _) as [[s'|a|a] k']; reflexivity.
Qed.

Lemma lres2_final_f P safe c cp n o k' : Jcp P cp -> lres2 safe c cp [] n o ->
  Jcp P (nextCp (final_state_f P k' o)) /\
  (final_core_f k' o = c \/ (safe = false /\ exists pc, final_core_f k' o = rbto pc c) \/
   (exists batch, (length batch <= n)%nat /\ final_core_f k' o = wr batch c)).
Proof.
  intros HJ [s' H1 H2|s' pc H0 H1 H2|a' more H1 H2 H3 H4 H5|a' more H1 H2 H3 H4 H5]; cbn [final_core_f final_state_f].
  - split; [rewrite H2; exact HJ|]. left. exact H1.
  - split; [rewrite H2; exact HJ|]. right. left. split; [exact H0|]. exists pc. exact H1.
  - destruct (fault_hits k' a'); [split; [rewrite H2; exact HJ|left; exact H1]|]. split.
    + rewrite H5. rewrite nextCp_write_headers, H2. exact HJ.
    + right. right. exists more. rewrite H1, H3. split; [exact H4|reflexivity].
  - destruct (fault_hits k' a'); [split; [rewrite H2; exact HJ|left; exact H1]|]. split.
    + destruct (a_recvcp a') eqn:Erc.
      * cbn [nextCp set_cp]. apply find_next_cp_J. specialize (H5 eq_refl). lia.
      * rewrite nextCp_write_headers, H2. exact HJ.
    + right. right. exists more. rewrite H1, H3. split; [exact H4|reflexivity].
Qed.

Theorem handle_headers_f_shape2 P now p hs k s : Jcp P (nextCp s) ->
  hh_shape2 (core_of s) (length hs) (core_of (handle_headers_f P now p hs k s)) /\
  Jcp P (nextCp (handle_headers_f P now p hs k s)).
Proof.
  intros HJ. rewrite handle_headers_f_final.
  assert (Hsame : hh_shape2 (core_of s) (length hs) (core_of s)).
  { apply (sh2_wr (core_of s) (length hs) []). cbn; lia. }
  destruct hs as [|x t]; [split; [exact Hsame|exact HJ]|].
  destruct (negb (headers_connected (x :: t))) eqn:Hc; [split; [exact Hsame|exact HJ]|].
  apply negb_false_iff in Hc.
  rewrite core_resync, nextCp_resync, final_state_f_core.
  destruct (Faults.loop_f_cases P now p (x :: t) Hc k (acc0 s)) as [[k' ->]|(bh & rest & bH & h & _ & ->)];
    cbn [fst snd].
  - pose proof (loop_shape2 P now p (x :: t) (acc0 s) HJ eq_refl Hc) as HU.
    cbn [acc0 a_s a_batch] in HU.
    destruct HU as [o HL|bh backHead backH o m H1 H2 H3 HL].
    + apply (lres2_final_f P _ _ _ _ _ k') in HL as [HJ' HL]; [|exact HJ]. split; [|exact HJ'].
      destruct HL as [->|[[_ [pc ->]]|[batch [Hb ->]]]].
      * exact Hsame.
      * apply sh2_rb.
      * apply sh2_wr. exact Hb.
    + apply (lres2_final_f P _ _ _ _ _ k') in HL as [HJ' HL]; [|exact HJ]. split; [|exact HJ'].
      destruct HL as [->|[[Hf _]|[batch [Hb ->]]]].
      * apply (sh2_reorg _ _ bh backHead backH []); [exact H1|exact H2|cbn; lia].
      * discriminate.
      * eapply sh2_reorg; [exact H1|exact H2|lia].
  - cbn [final_core_f final_state_f acc0 a_s]. rewrite core_roll_back_to, core_set_sync. split; [apply sh2_rb|].
    rewrite nextCp_roll_back_to. exact HJ.
Qed.

Lemma shape2_embed c0 n c : hh_shape2 c0 n c -> hh_shape c0 n c.
Proof.
  intros [batch Hb|pc|bh backHead backH batch Hf1 Hf2 Hb].
  - apply sh_wr; exact Hb.
  - apply sh_rb.
  - eapply sh_reorg; eassumption.
Qed.

Lemma shape2_norm n c c' : good c -> Z.of_nat (length (k_chain c)) <= 1000000 ->
  hh_shape2 c n c' -> normA c c'.
Proof.
  intros G HL HS.
  destruct HS as [batch Hb|pc|bh backHead backH batch Hf1 Hf2 Hb].
  - apply normA_wr; exact G.
  - apply normA_rbto; [exact G|exact HL].
  - destruct (reorg_form c bh backHead backH G HL Hf1 Hf2) as [i [Hi [Hnin ->]]].
    apply normA_reorg_wr; assumption.
Qed.

Lemma restart_J P s : Jcp P (nextCp s) -> Jcp P (nextCp (restart P s)).
Proof.
  intros HJ. unfold restart, chain_tip. destruct (last (chain s)) as [t|] eqn:Et; [|exact HJ].
  cbn [nextCp]. apply find_next_cp_J. unfold tip_height, zlen. destruct (chain s); [discriminate|]. cbn [length]. lia.
Qed.

Lemma handle_headers_r_J P now p hs k s : Jcp P (nextCp s) -> Jcp P (nextCp (handle_headers_r P now p hs k s)).
Proof.
  intros HJ.
  assert (Hord : handle_headers_r P now p hs k s = handle_headers P now p hs s ->
                 Jcp P (nextCp (handle_headers_r P now p hs k s))).
  { intros ->. apply handle_headers_shape2. exact HJ. }
  unfold handle_headers_r, handle_headers in *.
  destruct hs as [|x t]; [exact (Hord eq_refl)|].
  destruct (negb (headers_connected (x :: t))) eqn:Hc; [exact (Hord eq_refl)|].
  apply negb_false_iff in Hc. fold (acc0 s) in *.
  destruct (Faults.loop_r_cases P now p k (x :: t) Hc (acc0 s)) as [E|(bh & rest & bH & h & _ & _ & E)];
    rewrite E in *; [exact (Hord eq_refl)|].
  rewrite nextCp_resync. unfold crash_state. apply restart_J.
  cbn [pop_event nextCp]. rewrite nextCp_roll_back_to. exact HJ.
Qed.

Definition step_rel2 (P : params) (s : state) (o : op) (c c' : core) : Prop :=
  normA c c' \/
  (exists prev fs stop, o = OWriteCF prev fs stop /\ snd (write_cf prev fs stop s) = true /\ connB fs c c').

Lemma step_J P s o : Jcp P (nextCp s) -> Jcp P (nextCp (step P s o)).
Proof.
  intros HJ. destruct o as [p now hs|p now x|p st la full|p|prev fs stop|h| |p now hs k|p now hs k]; cbn [step].
  9:{ apply handle_headers_r_J. exact HJ. }
  8:{ apply handle_headers_f_shape2. exact HJ. }
  7:{ unfold restart, chain_tip. destruct (last (chain s)) as [t|] eqn:Et; [|exact HJ].
      cbn [nextCp]. apply find_next_cp_J. unfold tip_height, zlen. destruct (chain s); [discriminate|]. cbn [length]. lia. }
  - apply handle_headers_shape2. exact HJ.
  - rewrite nextCp_handle_inv. exact HJ.
  - rewrite nextCp_new_peer. exact HJ.
  - rewrite nextCp_done_peer. exact HJ.
  - rewrite nextCp_write_cf. exact HJ.
  - rewrite nextCp_roll_back_to. exact HJ.
Qed.

Lemma step_core2 P s o n sub0 : cinv n sub0 (core_of s) -> Jcp P (nextCp s) ->
  Z.of_nat (n + hdr_count o) <= 1000000 ->
  step_rel2 P s o (core_of s) (core_of (step P s o)).
Proof.
  intros HC HJ Hn.
  destruct (step_core P s o n sub0 HC Hn) as [_ [H|[H|[[(p & now & hs & ->)|(p & now & hs & k & ->)] _]]]].
  - left. exact H.
  - right. exact H.
  - left. cbn [step]. pose proof HC as (_ & HL & _).
    eapply (shape2_norm (length hs)); [apply HC|lia|].
    apply handle_headers_shape2. exact HJ.
  - left. cbn [step]. pose proof HC as (_ & HL & _).
    eapply (shape2_norm (length hs)); [apply HC|lia|].
    apply handle_headers_f_shape2. exact HJ.
Qed.

Lemma run_J P ops : forall s, Jcp P (nextCp s) -> Jcp P (nextCp (run P s ops)).
Proof.
  induction ops as [|o ops IH]; intros s HJ; [exact HJ|].
  change (run P s (o :: ops)) with (run P (step P s o) ops). apply IH, step_J, HJ.
Qed.

Lemma init_J P gfh : Jcp P (nextCp (init_state P gfh)).
Proof. cbn [init_state nextCp]. apply find_next_cp_J. lia. Qed.

(* C19.1, exact: every operation emits exactly the disconnected events of the
   removed headers, or (successful filter-header write) exactly the connected
   events of the committed filter headers *)
Lemma events_exact P gfh ops o : in_domain (ops ++ [o]) ->
  let s := reach P gfh ops in let s' := step P s o in
  ev_disc_only s s' \/ ev_conn_only o s s'.
Proof.
  intros Hd s s'. unfold in_domain in Hd. rewrite hdr_total_app in Hd. cbn [hdr_total] in Hd.
  pose proof (reach_cinv P gfh ops ltac:(unfold in_domain; lia)) as HC. fold (reach P gfh ops) in HC. fold s in HC.
  assert (HJ : Jcp P (nextCp s)) by (apply run_J, init_J).
  destruct (step_core2 P s o _ _ HC HJ ltac:(lia)) as [H|H]; fold s' in H.
  - left. exact H.
  - right. destruct H as (prev & fs & stop & -> & Hok & Hne & Hlen & Hc & Hf & Ht & He).
    cbn [core_of k_chain k_fchain k_ftip k_events] in *.
    exists prev, fs, stop. split; [reflexivity|]. split; [exact Hok|]. split; [exact Hne|].
    split; [exact Hc|]. split; [exact Hf|]. rewrite Hf, Hc, app_length. split; [lia|]. exact He.
Qed.

Lemma no_phantom P gfh ops o : in_domain (ops ++ [o]) ->
  ~ ev_phantom o (reach P gfh ops) (step P (reach P gfh ops) o).
Proof.
  intros Hd [Ho (x & k & m & Hx & Hm & Hk & Hc & Hf & He)].
  destruct (events_exact P gfh ops o Hd) as [[H1 H2]|H].
  - (* (A): the event list would have to contain the phantom disconnect *)
    rewrite Hc in H1. rewrite He in H1. apply app_inv_head in H1.
    change (map hid (take m (chain (reach P gfh ops)))) with (hashes (take m (chain (reach P gfh ops)))) in H1.
    rewrite hashes_take in H1. unfold hashes in H1.
    set (Hb := map hid (chain (reach P gfh ops))) in *.
    rewrite !expected_disc_eq in H1.
    rewrite !common_len_take in H1 by lia.
    replace (take m Hb) with (take m (take k Hb)) in H1 by (rewrite take_take; f_equal; lia).
    rewrite common_len_take in H1 by (rewrite take_length; lia).
    apply (f_equal length) in H1. unfold discs_from in H1.
    rewrite !app_length, !map_length, !reverse_length, !seq_length, !take_length in H1. cbn [length] in H1. lia.
  - destruct H as (prev & fs & stop & Ho' & _). rewrite Ho' in Ho.
    destruct Ho as [(p & now & hs & Ho)|(p & now & hs & k0 & Ho)]; discriminate.
Qed.

(* the formula the trace monitor checks, without exception *)
Lemma events_uniform_exact P gfh ops o : in_domain (ops ++ [o]) ->
  let s := reach P gfh ops in let s' := step P s o in
  let Hb := map hid (chain s) in let Ha := map hid (chain s') in
  let fb := length (fchain s) in let fa := length (fchain s') in
  events s' = events s ++ expected_disc Hb Ha ++ expected_conn Ha (Nat.min fb fa) fa.
Proof.
  intros Hd. destruct (events_uniform P gfh ops o Hd) as [H|H]; [exact H|].
  exfalso. exact (no_phantom P gfh ops o Hd H).
Qed.
