(* C19 — proofs for the moments inside an operation (C19_backlog_any_moment). *)
From stdpp Require Import list list_numbers.
From Coq Require Import ZArith Lia ZifyBool.
From Verif Require Import S2.Model C19.Spec C19.Statements C19.Moments C19.Proofs.
Open Scope Z_scope.

(* ---------- list algebra ---------- *)
Lemma common_len_le a : forall b, (common_len a b <= length a)%nat /\ (common_len a b <= length b)%nat.
Proof.
  induction a as [|x a IH]; intros [|y b]; cbn [common_len length]; try lia.
  destruct (x =? y); cbn [length]; [specialize (IH b); lia|lia].
Qed.

Lemma take_common a : forall b, take (common_len a b) a = take (common_len a b) b.
Proof.
  induction a as [|x a IH]; intros [|y b]; cbn [common_len take]; try reflexivity.
  destruct (x =? y) eqn:E; cbn [take]; [|reflexivity]. f_equal; [lia|apply IH].
Qed.

Lemma low_water_cons cap e es :
  low_water cap (e :: es) =
  low_water (match e with EDisc _ h _ => Z.min cap h | EConn _ _ => cap end) es.
Proof. reflexivity. Qed.

Lemma low_water_discs (g1 g2 : nat -> Z) a : forall n cap,
  low_water cap (map (fun i => EDisc (g1 i) (Z.of_nat i) (g2 i)) (reverse (seq a n))) =
  if (n =? 0)%nat then cap else Z.min cap (Z.of_nat a).
Proof.
  induction n as [|n IH]; intros cap; [reflexivity|].
  rewrite seq_S, reverse_app, reverse_singleton. cbn [app map]. rewrite low_water_cons, IH.
  destruct n as [|n]; cbn [Nat.eqb]; lia.
Qed.

Lemma discs_from_length H c : length (discs_from H c) = (length H - c)%nat.
Proof. unfold discs_from. rewrite map_length, reverse_length, seq_length. reflexivity. Qed.

(* the j highest disconnects, then the rest *)
Lemma discs_from_split H c j : (c <= length H)%nat -> (j <= length H - c)%nat ->
  discs_from H c = discs_from H (length H - j) ++ discs_from (take (length H - j) H) c.
Proof.
  intros Hc Hj. unfold discs_from. rewrite take_length.
  replace (Nat.min (length H - j) (length H)) with (length H - j)%nat by lia.
  replace (length H - c)%nat with ((length H - j - c) + j)%nat at 1 by lia.
  rewrite seq_app, reverse_app, map_app.
  replace (c + (length H - j - c))%nat with (length H - j)%nat by lia.
  replace (length H - (length H - j))%nat with j by lia.
  f_equal. apply map_ext_in. intros i Hi.
  apply elem_of_list_In, elem_of_reverse, elem_of_seq in Hi.
  rewrite !lookup_take by lia. reflexivity.
Qed.

Lemma take_discs H c j : (c <= length H)%nat -> (j <= length H - c)%nat ->
  take j (discs_from H c) = discs_from H (length H - j).
Proof.
  intros Hc Hj. rewrite (discs_from_split H c j Hc Hj).
  apply take_app_alt. rewrite discs_from_length. lia.
Qed.
Lemma drop_discs H c j : (c <= length H)%nat -> (j <= length H - c)%nat ->
  drop j (discs_from H c) = discs_from (take (length H - j) H) c.
Proof.
  intros Hc Hj. rewrite (discs_from_split H c j Hc Hj).
  apply drop_app_alt. rewrite discs_from_length. lia.
Qed.

Lemma discs_from_lookup H c k : (c <= length H)%nat -> (k < length H - c)%nat ->
  discs_from H c !! k =
  Some (EDisc (default 0 (H !! (length H - S k)%nat)) (Z.of_nat (length H - S k))
              (default 0 (H !! pred (length H - S k)))).
Proof.
  intros Hc Hk. unfold discs_from. rewrite list_lookup_fmap.
  rewrite reverse_lookup by (rewrite seq_length; lia). rewrite seq_length.
  rewrite lookup_seq_lt by lia. cbn [fmap option_fmap option_map].
  replace (c + (length H - c - S k))%nat with (length H - S k)%nat by lia. reflexivity.
Qed.

Lemma expected_conn_lookup Ha fb fa k : (k < fa - fb)%nat ->
  expected_conn Ha fb fa !! k = Some (EConn (default 0 (Ha !! (fb + k)%nat)) (Z.of_nat (fb + k))).
Proof.
  intros Hk. unfold expected_conn. rewrite list_lookup_fmap, lookup_seq_lt by lia. reflexivity.
Qed.
Lemma expected_conn_length Ha fb fa : length (expected_conn Ha fb fa) = (fa - fb)%nat.
Proof. unfold expected_conn. rewrite map_length, seq_length. reflexivity. Qed.
Lemma drop_expected_conn Ha fb fa k : (k <= fa - fb)%nat ->
  drop k (expected_conn Ha fb fa) = expected_conn Ha (fb + k) fa.
Proof.
  intros Hk. unfold expected_conn.
  replace (fa - fb)%nat with (k + (fa - (fb + k)))%nat by lia.
  rewrite seq_app, map_app. apply drop_app_alt. rewrite map_length, seq_length. reflexivity.
Qed.

(* connected events for blocks the subscriber already holds are skipped *)
Lemma replay_conns_held H g : forall n a, (a + n <= g)%nat -> (g <= length H)%nat ->
  Z.of_nat (length H) <= 1000000 ->
  replay (take g H) (expected_conn H a (a + n)) = Some (take g H).
Proof.
  induction n as [|n IH]; intros a Ha Hg HL.
  - unfold expected_conn. replace (a + 0 - a)%nat with 0%nat by lia. reflexivity.
  - unfold expected_conn. replace (a + S n - a)%nat with (S n) by lia. cbn [seq map replay replay_ev].
    unfold zlen. rewrite take_length. replace (Nat.min g (length H)) with g by lia.
    replace (Z.of_nat a <? Z.of_nat g) with true by lia.
    assert (Hat : at_h (take g H) (Z.of_nat a) = take g H !! a).
    { apply at_h_nat; rewrite take_length; lia. }
    rewrite Hat, lookup_take by lia.
    destruct (H !! a) as [x|] eqn:Hx; [|apply lookup_ge_None in Hx; lia].
    cbn [default]. rewrite Z.eqb_refl.
    specialize (IH (S a)). unfold expected_conn in IH.
    replace (S a + n - S a)%nat with n in IH by lia. apply IH; lia.
Qed.

Lemma expected_backlog_take Hs fl h : expected_backlog (take fl Hs) fl h = expected_backlog Hs fl h.
Proof.
  unfold expected_backlog. apply map_ext_in. intros i Hi.
  apply elem_of_list_In, elem_of_seq in Hi. rewrite lookup_take by lia. reflexivity.
Qed.

(* ---------- what holds at any moment whose state is well-formed ---------- *)
Lemma committed_of_length m : good (core_of m) -> length (committed_of m) = length (fchain m).
Proof.
  intros [[G1 G2] _]. cbn [core_of k_chain k_fchain] in *.
  unfold committed_of. rewrite map_length, take_length. lia.
Qed.

Lemma moment_generic (m : state) (rest : list ev) (ca : list Z) h :
  good (core_of m) -> Z.of_nat (length (chain m)) <= 1000000 ->
  replay (committed_of m) rest = Some ca ->
  let cm := committed_of m in
  ftipVar m = zlen cm - 1 /\ 1 <= zlen cm /\
  (0 <= h -> notifs_since h m =
     if h =? 0 then Some ([], zlen cm - 1)
     else if h <=? zlen cm - 1 then Some (moment_backlog cm h, zlen cm - 1) else None) /\
  (0 < h <= zlen cm - 1 ->
     replay (take (zn h + 1) cm) (map conn_of (moment_backlog cm h) ++ rest) = Some ca).
Proof.
  intros G HL HR cm. pose proof (committed_of_length m G) as Hlen. fold cm in Hlen.
  pose proof G as [[G1 G2] G3]. cbn [core_of k_chain k_fchain k_ftip] in *.
  assert (Hcm : cm = take (length (fchain m)) (hashes (chain m))).
  { unfold cm, committed_of. apply (hashes_take _ (chain m)). }
  unfold zlen. rewrite Hlen.
  split; [exact G3|]. split; [lia|]. split.
  - intros Hh. rewrite (notifs_since_spec m h G HL Hh), G3.
    unfold moment_backlog. rewrite Hlen, Hcm, expected_backlog_take. reflexivity.
  - intros Hh. rewrite replay_app. unfold moment_backlog.
    rewrite replay_backlog by lia. rewrite take_ge by lia. exact HR.
Qed.

(* ---------- the three kinds of moments ---------- *)
Section Moment.
Variables (P : params) (gfh : Z) (ops : list op) (o : op).
Hypothesis Hd : in_domain (ops ++ [o]).
Let s := reach P gfh ops.
Let s' := step P s o.

Lemma dom_facts :
  cinv (1 + hdr_total ops) [hid (genesis P)] (core_of s) /\
  cinv (1 + hdr_total (ops ++ [o])) [hid (genesis P)] (core_of s') /\
  Z.of_nat (1 + hdr_total (ops ++ [o])) <= 1000000 /\
  (hdr_total ops <= hdr_total (ops ++ [o]))%nat.
Proof.
  pose proof Hd as Hd'. unfold in_domain in Hd'. rewrite hdr_total_app in Hd'.
  split; [apply reach_cinv; unfold in_domain; lia|].
  split; [|rewrite hdr_total_app; lia].
  pose proof (reach_cinv P gfh (ops ++ [o]) Hd) as HC.
  unfold s', s, reach. rewrite <- run_snoc. exact HC.
Qed.

(* the operation has finished *)
Lemma moment_done k : op_events s s' !! k = None ->
  let m := moment_state s s' k in
  committed_of m = committed_at (committed_of s) (committed_of s') (op_events s s') k /\
  good (core_of m) /\ Z.of_nat (length (chain m)) <= 1000000 /\
  replay (committed_of m) (drop k (op_events s s')) = Some (committed_of s').
Proof.
  intros Hk m. destruct dom_facts as (_ & (G & HL & _) & Hn & _).
  unfold m, moment_state, committed_at. rewrite Hk.
  split; [reflexivity|]. split; [exact G|]. cbn [core_of k_chain] in HL. split; [lia|].
  rewrite drop_ge by (apply lookup_ge_None; exact Hk). reflexivity.
Qed.
End Moment.

Lemma good_with_events es s : good (core_of s) -> good (core_of (with_events es s)).
Proof. intros G. exact G. Qed.

(* every moment state is well-formed, its committed chain is [committed_at],
   and replaying the remaining events over it gives the committed chain after
   the operation *)
Lemma moment_main P gfh ops o k : in_domain (ops ++ [o]) ->
  let s := reach P gfh ops in let s' := step P s o in
  let evs := op_events s s' in
  (k <= length evs)%nat ->
  let m := moment_state s s' k in
  let cm := committed_at (committed_of s) (committed_of s') evs k in
  committed_of m = cm /\ good (core_of m) /\ Z.of_nat (length (chain m)) <= 1000000 /\
  replay (committed_of m) (drop k evs) = Some (committed_of s').
Proof.
  intros Hd s s' evs Hk m cm.
  destruct (evs !! k) as [e|] eqn:Hev.
  2:{ exact (moment_done P gfh ops o Hd k Hev). }
  destruct (dom_facts P gfh ops o Hd) as (HC & HC' & Hn & Hmono). fold s in HC. fold s' in HC'.
  destruct HC as (G & HLs & _). destruct HC' as (G' & HLs' & _).
  pose proof G as [[G1 G2] G3]. pose proof G' as [[G1' G2'] G3'].
  cbn [core_of k_chain k_fchain k_ftip] in G1, G2, G3, G1', G2', G3', HLs, HLs'.
  fold s in G', G1', G2', G3', HLs'. fold s' in G', G1', G2', G3', HLs'.
  destruct (events_exact P gfh ops o Hd) as [[H1 H2]|H]; fold s s' in H1, H2 || fold s s' in H.
  - (* (A) blocked on a disconnected event *)
    set (Hb := map hid (chain s)) in *. set (Ha := map hid (chain s')) in *.
    set (c := common_len Hb Ha) in *.
    assert (HLb : length Hb = length (chain s)) by apply map_length.
    assert (HLa : length Ha = length (chain s')) by apply map_length.
    destruct (common_len_le Hb Ha) as [Hcb Hca]. fold c in Hcb, Hca.
    assert (Hevs : evs = discs_from Hb c).
    { unfold evs, op_events. rewrite H1, drop_app. apply expected_disc_eq. }
    assert (Hc1 : (1 <= c)%nat).
    { rewrite H2, take_length in G1'. lia. }
    assert (Hkl : (k < length Hb - c)%nat).
    { apply lookup_lt_Some in Hev. rewrite Hevs, discs_from_length in Hev. exact Hev. }
    set (mN := (length Hb - S k)%nat).
    assert (Hlow : forall cap, low_water cap (take (S k) evs) = Z.min cap (Z.of_nat mN)).
    { intros cap. rewrite Hevs, take_discs by lia. unfold discs_from.
      rewrite low_water_discs. replace (length Hb - (length Hb - S k))%nat with (S k) by lia.
      reflexivity. }
    assert (Hee : exists x t, e = EDisc x (Z.of_nat mN) t).
    { rewrite Hevs, discs_from_lookup in Hev by lia. injection Hev as <-. eexists _, _. reflexivity. }
    destruct Hee as (ex & et & ->).
    unfold m, moment_state, cm, committed_at. fold evs. rewrite !Hev.
    rewrite !Hlow. unfold zlen. rewrite <- HLb.
    replace (Z.min (Z.of_nat (length Hb)) (Z.of_nat mN)) with (Z.of_nat mN) by lia.
    rewrite zn_nat by lia.
    set (F := length (fchain s)) in *.
    assert (HcbL : length (committed_of s) = F).
    { unfold committed_of. rewrite map_length, take_length. lia. }
    rewrite HcbL.
    replace (Z.min (Z.of_nat F) (Z.of_nat mN)) with (Z.of_nat (Nat.min F mN)) by lia.
    rewrite zn_nat by lia.
    (* the moment's filter chain, whichever branch *)
    assert (Hfm : (if Z.of_nat mN <=? Z.of_nat F - 1 then take mN (fchain s) else fchain s) = take mN (fchain s)).
    { destruct (Z.of_nat mN <=? Z.of_nat F - 1) eqn:E; [reflexivity|]. rewrite take_ge by (unfold F in *; lia). reflexivity. }
    assert (Hcom : committed_of s' = take (Nat.min F c) Hb).
    { unfold committed_of. change (map hid (take ?n ?l)) with (hashes (take n l)). rewrite hashes_take.
      change (hashes (chain s')) with Ha. rewrite H2, take_length. fold F.
      replace (take (Nat.min c F) Ha) with (take (Nat.min c F) (take c Ha)) by (rewrite take_take; f_equal; lia).
      unfold c. rewrite <- take_common. fold c. rewrite take_take. f_equal. lia. }
    split; [|split; [|split]].
    + unfold committed_of. cbn [with_events set_ftip set_fchain set_chain chain fchain].
      rewrite Hfm, take_length. fold F.
      change (map hid (take ?n ?l)) with (hashes (take n l)). rewrite !hashes_take.
      change (hashes (chain s)) with Hb. rewrite !take_take. f_equal. lia.
    + unfold good. cbn [with_events set_ftip set_fchain set_chain core_of k_chain k_fchain k_ftip chain fchain ftipVar].
      rewrite Hfm, !take_length. fold F. rewrite <- HLb.
      split; [lia|]. destruct (Z.of_nat mN <=? Z.of_nat F - 1) eqn:E; lia.
    + cbn [with_events set_ftip set_fchain set_chain chain]. rewrite take_length. lia.
    + unfold committed_of at 1. cbn [with_events set_ftip set_fchain set_chain chain fchain].
      rewrite Hfm, take_length. fold F.
      change (map hid (take ?n ?l)) with (hashes (take n l)). rewrite !hashes_take.
      change (hashes (chain s)) with Hb. rewrite take_take.
      rewrite Hevs, drop_discs by lia.
      replace (take (Nat.min (Nat.min mN F) mN) Hb)
        with (take (Nat.min F mN) (take (length Hb - k) Hb)) by (rewrite take_take; f_equal; lia).
      rewrite replay_discs by (rewrite take_length; lia).
      rewrite take_take, Hcom. f_equal. f_equal. lia.
  - (* (B) blocked on a connected event of a filter-header batch *)
    destruct H as (prev & fs & stop & _ & _ & Hne & Hc & Hf & Hle & He).
    set (Ha := map hid (chain s')) in *.
    set (fb := length (fchain s)) in *. set (fa := length (fchain s')) in *.
    assert (Hevs : evs = expected_conn Ha fb fa).
    { unfold evs, op_events. rewrite He, drop_app. reflexivity. }
    assert (Hkl : (k < fa - fb)%nat).
    { apply lookup_lt_Some in Hev. rewrite Hevs, expected_conn_length in Hev. exact Hev. }
    assert (Hee : exists x t, e = EConn x t).
    { rewrite Hevs, expected_conn_lookup in Hev by lia. injection Hev as <-. eexists _, _. reflexivity. }
    destruct Hee as (ex & et & ->).
    unfold m, moment_state, cm, committed_at. fold evs. rewrite !Hev.
    split; [reflexivity|]. split; [exact G'|].
    split; [cbn [with_events chain]; lia|].
    rewrite Hevs, drop_expected_conn by lia.
    unfold committed_of. cbn [with_events chain fchain]. fold fa.
    change (map hid (take ?n ?l)) with (hashes (take n l)). rewrite hashes_take.
    change (hashes (chain s')) with Ha.
    replace fa with (fb + k + (fa - (fb + k)))%nat at 2 by lia.
    apply replay_conns_held; unfold Ha; rewrite ?map_length; lia.
Qed.

Lemma backlog_any_moment P gfh ops o k h : in_domain (ops ++ [o]) ->
  let s := reach P gfh ops in let s' := step P s o in
  let evs := op_events s s' in
  (k <= length evs)%nat ->
  let m := moment_state s s' k in
  let cm := committed_at (committed_of s) (committed_of s') evs k in
  committed_of m = cm /\ ftipVar m = zlen cm - 1 /\ 1 <= zlen cm /\
  (0 <= h -> notifs_at_moment s s' k h =
     if h =? 0 then Some ([], zlen cm - 1)
     else if h <=? zlen cm - 1 then Some (moment_backlog cm h, zlen cm - 1) else None) /\
  (0 < h <= zlen cm - 1 ->
     replay (take (zn h + 1) cm) (map conn_of (moment_backlog cm h) ++ drop k evs) =
       Some (committed_of s')).
Proof.
  intros Hd s s' evs Hk m cm.
  destruct (moment_main P gfh ops o k Hd Hk) as (Hcm & G & HL & HR). fold s s' evs m cm in Hcm, G, HL, HR.
  pose proof (moment_generic m (drop k evs) (committed_of s') h G HL HR) as HG.
  cbv zeta in HG. rewrite Hcm in HG. unfold notifs_at_moment. fold m. tauto.
Qed.

(* ================= moment_state vs the model's rollback stopped at each event ================= *)
Definition pre_core (th : Z) (c : core) : core :=
  {| k_chain := take (zn th) (k_chain c);
     k_fchain := if th <=? zlen (k_fchain c) - 1 then take (zn th) (k_fchain c) else k_fchain c;
     k_ftip := if th <=? zlen (k_fchain c) - 1 then th - 1 else k_ftip c;
     k_events := k_events c |}.

Fixpoint rbm_core (fuel : nat) (h : Z) (c : core) : list core :=
  match fuel with
  | O => []
  | S f =>
    let th := zlen (k_chain c) - 1 in
    if th >? h then
      match at_h (k_chain c) th, at_h (k_chain c) (th - 1) with
      | Some cur, Some prev => pre_core th c :: rbm_core f h (pop_core th cur prev c)
      | _, _ => []
      end
    else []
  end.

Lemma core_roll_back_moments f : forall h s,
  map core_of (roll_back_moments f h s) = rbm_core f h (core_of s).
Proof.
  induction f as [|f IH]; intros h s; [reflexivity|].
  cbn [roll_back_moments rbm_core]. unfold tip_height. cbn [core_of k_chain].
  destruct (zlen (chain s) - 1 >? h); [|reflexivity].
  destruct (at_h (chain s) (zlen (chain s) - 1)) as [cur|]; [|reflexivity].
  destruct (at_h (chain s) (zlen (chain s) - 1 - 1)) as [prev|]; [|reflexivity].
  cbn [map]. rewrite IH. f_equal.
  - unfold pre_core, core_of. cbn [k_chain k_fchain k_ftip k_events].
    destruct (zlen (chain s) - 1 <=? zlen (fchain s) - 1); reflexivity.
  - f_equal. unfold pop_core, core_of. cbn [k_chain k_fchain k_ftip k_events].
    destruct (zlen (chain s) - 1 <=? zlen (fchain s) - 1); reflexivity.
Qed.

(* closed form of the k-th moment of a rollback of [c] down to length [t] *)
Definition mcore (c : core) (t k : nat) : core :=
  let n := length (k_chain c) in
  {| k_chain := take (n - S k) (k_chain c);
     k_fchain := take (n - S k) (k_fchain c);
     k_ftip := Z.of_nat (Nat.min (n - S k) (length (k_fchain c))) - 1;
     k_events := k_events c ++ take k (discs_from (hashes (k_chain c)) t) |}.

Lemma rbm_core_cf fuel : forall h c, good c -> Z.of_nat (length (k_chain c)) <= 1000000 ->
  (length (k_chain c) <= S fuel)%nat ->
  rbm_core fuel h c = map (mcore c (tgt h c)) (seq 0 (length (k_chain c) - tgt h c)).
Proof.
  induction fuel as [|f IH]; intros h c G HL Hf.
  - destruct G as [[G1 G2] _]. unfold tgt. replace (length (k_chain c) - _)%nat with 0%nat by lia. reflexivity.
  - cbn [rbm_core]. unfold zlen.
    destruct (Z.of_nat (length (k_chain c)) - 1 >? h) eqn:Eth.
    2:{ unfold tgt. replace (length (k_chain c) - _)%nat with 0%nat by lia. reflexivity. }
    pose proof G as [[G1 G2] G3].
    destruct c as [ch fc ft ev]. cbn [k_chain k_fchain k_ftip k_events] in *.
    destruct ch as [|cur init _] using rev_ind; [cbn in G2; lia|].
    rewrite app_length in *. cbn [length] in *.
    replace (Z.of_nat (length init + 1) - 1) with (Z.of_nat (length init)) by lia.
    rewrite at_h_nat by (rewrite ?app_length; cbn [length]; lia).
    rewrite lookup_app_r by lia. rewrite Nat.sub_diag. cbn [lookup list_lookup].
    destruct (decide (length init = 0)%nat) as [E0|E0].
    { rewrite at_h_neg by lia. unfold tgt. cbn [k_chain]. rewrite app_length. cbn [length].
      replace (length init + 1 - _)%nat with 0%nat by lia. reflexivity. }
    replace (Z.of_nat (length init) - 1) with (Z.of_nat (length init - 1)) by lia.
    rewrite at_h_nat by (rewrite ?app_length; cbn [length]; lia).
    rewrite lookup_app_l by lia.
    destruct (init !! (length init - 1)%nat) as [prev|] eqn:Hprev; [|apply lookup_ge_None in Hprev; lia].
    set (t := Nat.min (length init + 1) (Z.to_nat (Z.max h 0) + 1)).
    assert (Ht : (t <= length init)%nat) by (unfold t; lia).
    unfold tgt. cbn [k_chain]. rewrite app_length. cbn [length]. fold t.
    replace (length init + 1 - t)%nat with (S (length init - t)) by lia.
    cbn [seq map]. f_equal.
    + unfold pre_core, mcore. cbn [k_chain k_fchain k_ftip k_events]. unfold zlen.
      rewrite app_length. cbn [length]. rewrite zn_nat by lia.
      replace (length init + 1 - 1)%nat with (length init) by lia.
      cbn [take]. rewrite app_nil_r. f_equal.
      * destruct (Z.of_nat (length init) <=? Z.of_nat (length fc) - 1) eqn:Ef; [reflexivity|].
        rewrite take_ge by lia. reflexivity.
      * destruct (Z.of_nat (length init) <=? Z.of_nat (length fc) - 1) eqn:Ef; lia.
    + rewrite <- seq_shift, map_map.
      rewrite IH.
      * (* the moments of the popped core are the later moments of c *)
        unfold pop_core at 2 3. cbn [k_chain]. rewrite zn_nat by lia.
        rewrite take_app_le by lia. rewrite (take_ge init) by lia.
        assert (Ht' : tgt h (pop_core (Z.of_nat (length init)) cur prev
                       {| k_chain := init ++ [cur]; k_fchain := fc; k_ftip := ft; k_events := ev |}) = t).
        { unfold tgt, pop_core. cbn [k_chain]. rewrite zn_nat by lia.
          rewrite take_app_le by lia. rewrite (take_ge init) by lia. unfold t. lia. }
        rewrite Ht'. apply map_ext_in. intros k Hk. apply elem_of_list_In, elem_of_seq in Hk.
        unfold mcore, pop_core. cbn [k_chain k_fchain k_ftip k_events]. unfold zlen.
        rewrite zn_nat by lia. rewrite take_app_le by lia. rewrite (take_ge init) by lia.
        rewrite app_length. cbn [length].
        replace (length init + 1 - S (S k))%nat with (length init - S k)%nat by lia.
        rewrite (take_app_le init [cur]) by lia.
        rewrite hashes_app. change (hashes [cur]) with [hid cur].
        rewrite discs_from_snoc by (rewrite hashes_length; lia).
        rewrite hashes_length, hashes_lookup.
        replace (Init.Nat.pred (length init)) with (length init - 1)%nat by lia.
        rewrite Hprev. cbn [fmap option_fmap option_map default take].
        rewrite <- app_assoc. cbn [app].
        assert (Htg : forall fc' ft' ev',
                  tgt h {| k_chain := init; k_fchain := fc'; k_ftip := ft'; k_events := ev' |} = t).
        { intros. unfold tgt, t. cbn [k_chain]. lia. }
        destruct (Z.of_nat (length init) <=? Z.of_nat (length fc) - 1) eqn:Ef; rewrite Htg.
        -- rewrite take_take, take_length. f_equal; [f_equal; lia|lia].
        -- reflexivity.
      * unfold pop_core, good. cbn [k_chain k_fchain k_ftip]. unfold zlen.
        rewrite zn_nat by lia. rewrite take_app_le by lia. rewrite (take_ge init) by lia.
        destruct (Z.of_nat (length init) <=? Z.of_nat (length fc) - 1) eqn:Ef.
        -- rewrite take_length. split; lia.
        -- split; lia.
      * unfold pop_core. cbn [k_chain]. rewrite zn_nat by lia. rewrite take_length, app_length. cbn [length]. lia.
      * unfold pop_core. cbn [k_chain]. rewrite zn_nat by lia. rewrite take_length, app_length. cbn [length]. lia.
Qed.

Lemma rollback_moments_refine P gfh ops h k : in_domain ops ->
  let s := reach P gfh ops in let s' := step P s (ORollback h) in
  let tr := roll_back_moments (length (chain s)) h s in
  length tr = length (op_events s s') /\
  forall m, tr !! k = Some m ->
    chain m = chain (moment_state s s' k) /\ fchain m = fchain (moment_state s s' k) /\
    ftipVar m = ftipVar (moment_state s s' k) /\ events m = events (moment_state s s' k).
Proof.
  intros Hd s s' tr.
  pose proof (reach_cinv P gfh ops Hd) as (G & HLs & _). fold (reach P gfh ops) in G, HLs. fold s in G, HLs.
  assert (Hn : Z.of_nat (length (chain s)) <= 1000000).
  { cbn [core_of k_chain] in HLs. unfold in_domain in Hd. lia. }
  pose proof G as [[G1 G2] G3]. cbn [core_of k_chain k_fchain k_ftip] in G1, G2, G3.
  set (c := core_of s) in *. set (t := tgt h c).
  set (n := length (chain s)) in *. set (Hb := hashes (chain s)).
  assert (HLb : length Hb = n) by apply hashes_length.
  destruct (tgt_range h c G) as [Ht1 Ht2]. fold t in Ht1, Ht2. change (length (k_chain c)) with n in Ht2.
  assert (Hcore' : core_of s' = rb_cf t c).
  { unfold s'. cbn [step]. rewrite core_roll_back_to. apply rbto_cf; [exact G|exact Hn]. }
  assert (Hevs : op_events s s' = discs_from Hb t).
  { unfold op_events. change (events s') with (k_events (core_of s')). rewrite Hcore'.
    cbn [rb_cf k_events]. change (k_events c) with (events s). rewrite drop_app. reflexivity. }
  assert (Htr : map core_of tr = map (mcore c t) (seq 0 (n - t))).
  { unfold tr. rewrite core_roll_back_moments. apply rbm_core_cf; [exact G|exact Hn|]. unfold c, n. cbn [core_of k_chain]. lia. }
  split.
  { rewrite <- (map_length core_of tr), Htr, map_length, seq_length, Hevs, discs_from_length. lia. }
  intros m Hm.
  assert (Hm' : map core_of tr !! k = Some (core_of m)) by (rewrite list_lookup_fmap, Hm; reflexivity).
  rewrite Htr, list_lookup_fmap in Hm'.
  destruct (seq 0 (n - t) !! k) as [k'|] eqn:Hk; [|discriminate].
  apply lookup_seq in Hk. destruct Hk as [-> Hk]. cbn [Nat.add] in Hm'. apply (inj Some) in Hm'.
  (* the derived moment state *)
  set (mN := (n - S k)%nat).
  assert (Hev : op_events s s' !! k = Some (EDisc (default 0 (Hb !! mN)) (Z.of_nat mN) (default 0 (Hb !! pred mN)))).
  { rewrite Hevs, discs_from_lookup by lia. rewrite HLb. reflexivity. }
  assert (Hlow : low_water (zlen (chain s)) (take (S k) (op_events s s')) = Z.of_nat mN).
  { rewrite Hevs, take_discs by lia. unfold discs_from. rewrite low_water_discs.
    rewrite HLb. replace (n - (n - S k))%nat with (S k) by lia. cbn [Nat.eqb]. unfold zlen. fold n. lia. }
  assert (Hcm : core_of (moment_state s s' k) = mcore c t k).
  { unfold moment_state. rewrite Hev, Hlow. rewrite zn_nat by lia.
    unfold mcore, c, core_of. cbn [with_events set_ftip set_fchain set_chain chain fchain ftipVar events
                                  k_chain k_fchain k_ftip k_events].
    fold n mN. unfold zlen. change (hashes (chain s)) with Hb. rewrite <- Hevs.
    destruct (Z.of_nat mN <=? Z.of_nat (length (fchain s)) - 1) eqn:E.
    - f_equal. lia.
    - rewrite (take_ge (fchain s)) by lia. f_equal. lia. }
  assert (Heq : core_of m = core_of (moment_state s s' k)) by (rewrite Hcm; symmetry; exact Hm').
  assert (Hp : forall a b : core, a = b ->
            k_chain a = k_chain b /\ k_fchain a = k_fchain b /\ k_ftip a = k_ftip b /\ k_events a = k_events b).
  { intros a b ->. tauto. }
  destruct (Hp _ _ Heq) as (E1 & E2 & E3 & E4). cbn [core_of k_chain k_fchain k_ftip k_events] in E1, E2, E3, E4.
  rewrite E1, E2, E3, E4. tauto.
Qed.

(* ================= a failing header-store read during a backlog request ================= *)
Definition item_of (c : list header) (i : Z) : option (Z * Z) :=
  match at_h c i with Some x => Some (hid x, i) | None => None end.

Lemma backlog_loop_spec c fault : forall hs L i acc,
  map (item_of c) hs = map Some L ->
  backlog_loop c fault i hs acc =
  if (i <=? fault) && (fault <? i + zlen hs) then None else Some (reverse acc ++ L).
Proof.
  induction hs as [|x r IH]; intros L i acc HL.
  - destruct L; [|discriminate]. cbn [backlog_loop]. unfold zlen. cbn [length].
    replace ((i <=? fault) && (fault <? i + Z.of_nat 0)) with false by lia.
    rewrite app_nil_r. reflexivity.
  - destruct L as [|y L]; [discriminate|]. cbn [map] in HL. injection HL as Hy HL.
    cbn [backlog_loop]. unfold zlen. cbn [length].
    destruct (i =? fault) eqn:E.
    { replace ((i <=? fault) && (fault <? i + Z.of_nat (S (length r)))) with true by lia. reflexivity. }
    unfold item_of in Hy. destruct (at_h c x) as [hd|]; [|discriminate]. injection Hy as <-.
    rewrite (IH L (i + 1) ((hid hd, x) :: acc) HL). unfold zlen.
    rewrite reverse_cons, <- app_assoc. cbn [app].
    destruct ((i + 1 <=? fault) && (fault <? i + 1 + Z.of_nat (length r))) eqn:E2.
    + replace ((i <=? fault) && (fault <? i + Z.of_nat (S (length r)))) with true by lia. reflexivity.
    + replace ((i <=? fault) && (fault <? i + Z.of_nat (S (length r)))) with false by lia. reflexivity.
Qed.

(* with a fault at the n-th read: an error if the loop gets that far, the
   fault-free answer otherwise *)
Lemma notifs_since_fault_spec s n h : good (core_of s) -> Z.of_nat (length (chain s)) <= 1000000 -> 0 <= h ->
  notifs_since_fault n h s =
  if (0 <? h) && (h <? ftipVar s) && (1 <=? n) && (n <=? ftipVar s - h) then None
  else notifs_since h s.
Proof.
  intros [[G1 G2] G3] HL Hh. cbn [core_of k_chain k_fchain k_ftip] in *.
  unfold notifs_since_fault, notifs_since. rewrite G3.
  set (fl := length (fchain s)) in *.
  destruct ((h =? 0) || (Z.of_nat fl - 1 =? h)) eqn:E1.
  { replace ((0 <? h) && (h <? Z.of_nat fl - 1) && (1 <=? n) && (n <=? Z.of_nat fl - 1 - h)) with false by lia.
    reflexivity. }
  destruct (h >? Z.of_nat fl - 1) eqn:E2.
  { replace ((0 <? h) && (h <? Z.of_nat fl - 1) && (1 <=? n) && (n <=? Z.of_nat fl - 1 - h)) with false by lia.
    reflexivity. }
  cbv zeta.
  assert (Hitems :
    map (item_of (chain s))
        (map (fun i => h + 1 + Z.of_nat i) (seq 0 (zn (Z.of_nat fl - 1 - h)))) =
    map Some (expected_backlog (hashes (chain s)) fl h)).
  { unfold expected_backlog. rewrite !zn_eq by lia.
    replace (fl - (Z.to_nat h + 1))%nat with (Z.to_nat (Z.of_nat fl - 1 - h)) by lia.
    rewrite (seq_as_map (Z.to_nat h + 1)).
    rewrite !map_map. apply map_ext_in. intros j Hj.
    apply elem_of_list_In, elem_of_seq in Hj. unfold item_of.
    replace (h + 1 + Z.of_nat j) with (Z.of_nat (Z.to_nat h + 1 + j)) by lia.
    rewrite at_h_nat by lia. rewrite hashes_lookup.
    destruct (chain s !! (Z.to_nat h + 1 + j)%nat) as [x|] eqn:Hx; [reflexivity|].
    apply lookup_ge_None in Hx. lia. }
  rewrite (backlog_loop_spec _ _ _ _ 1 [] Hitems).
  change (map (fun i : Z => match at_h (chain s) i with Some x => Some (hid x, i) | None => None end))
    with (map (item_of (chain s))).
  rewrite Hitems, forallb_Some, omap_id_Some.
  unfold zlen. rewrite map_length, seq_length, zn_eq by lia. cbn [reverse app].
  destruct ((1 <=? n) && (n <? 1 + Z.of_nat (Z.to_nat (Z.of_nat fl - 1 - h)))) eqn:E3.
  - replace ((0 <? h) && (h <? Z.of_nat fl - 1) && (1 <=? n) && (n <=? Z.of_nat fl - 1 - h)) with true by lia.
    reflexivity.
  - replace ((0 <? h) && (h <? Z.of_nat fl - 1) && (1 <=? n) && (n <=? Z.of_nat fl - 1 - h)) with false by lia.
    reflexivity.
Qed.

Lemma backlog_fault_is_error P gfh ops o k n h : in_domain (ops ++ [o]) ->
  let s := reach P gfh ops in let s' := step P s o in
  let evs := op_events s s' in
  (k <= length evs)%nat -> 0 <= h ->
  let cm := committed_at (committed_of s) (committed_of s') evs k in
  notifs_fault_at_moment s s' k n h =
    (if (0 <? h) && (h <? zlen cm - 1) && (1 <=? n) && (n <=? zlen cm - 1 - h) then None
     else notifs_at_moment s s' k h) /\
  (notifs_fault_at_moment s s' k n h = None \/
   notifs_fault_at_moment s s' k n h =
     Some (if h =? 0 then [] else moment_backlog cm h, zlen cm - 1)).
Proof.
  intros Hd s s' evs Hk Hh cm.
  destruct (moment_main P gfh ops o k Hd Hk) as (_ & G & HL & _).
  destruct (backlog_any_moment P gfh ops o k h Hd Hk) as (_ & Hft & _ & Hns & _).
  fold s s' evs cm in G, HL, Hft, Hns. specialize (Hns Hh).
  assert (E : notifs_fault_at_moment s s' k n h =
              if (0 <? h) && (h <? zlen cm - 1) && (1 <=? n) && (n <=? zlen cm - 1 - h) then None
              else notifs_at_moment s s' k h).
  { unfold notifs_fault_at_moment, notifs_at_moment.
    rewrite (notifs_since_fault_spec _ n h G HL Hh), Hft. reflexivity. }
  split; [exact E|]. rewrite E.
  destruct ((0 <? h) && (h <? zlen cm - 1) && (1 <=? n) && (n <=? zlen cm - 1 - h)); [left; reflexivity|].
  rewrite Hns. destruct (h =? 0); [right; reflexivity|].
  destruct (h <=? zlen cm - 1); [right; reflexivity|left; reflexivity].
Qed.

(* ---------- a restart emits nothing and changes neither store ---------- *)
Lemma restart_silent P gfh ops : in_domain ops ->
  let s := reach P gfh ops in let s' := step P s ORestart in
  events s' = events s /\ chain s' = chain s /\ fchain s' = fchain s /\ ftipVar s' = ftipVar s /\
  op_events s s' = [] /\ (forall k, moment_state s s' k = s') /\
  (forall h, notifs_since h s' = notifs_since h s).
Proof.
  intros Hd s s'. destruct (invariant P gfh ops Hd) as (_ & _ & Hft & _). fold s in Hft.
  pose proof (core_restart P s Hft) as Hc. change (restart P s) with s' in Hc.
  injection Hc as Hch Hfc Hftv Hev.
  assert (Hoe : op_events s s' = []) by (unfold op_events; rewrite Hev; apply drop_all).
  split; [exact Hev|]. split; [exact Hch|]. split; [exact Hfc|]. split; [exact Hftv|]. split; [exact Hoe|].
  split.
  - intros k. unfold moment_state. rewrite Hoe. reflexivity.
  - intros h. unfold notifs_since. rewrite Hftv, Hch. reflexivity.
Qed.
