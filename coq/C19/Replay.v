(* C19 — replay: model vs implementation (kind 1) and the C19 monitor on the
   implementation's events (kind 2). *)
From stdpp Require Import list.
From Coq Require Import ZArith.
From Verif Require Import S2.Model S2.Replay C19.Spec.
Open Scope Z_scope.

Definition backlog_ok (chain : list Z) (flen : nat) (q : Z * option (list (Z * Z) * Z)) : bool :=
  let '(h, r) := q in
  if h =? 0 then match r with Some ([], _) => true | _ => false end
  else match r with
       | Some (l, best) =>
         list_eqb pair_eqb l (expected_backlog chain flen h) && (best =? Z.of_nat flen - 1)
       | None => Z.of_nat flen - 1 <? h     (* asking above the committed tip may fail *)
       end.

Definition is_disc (e : ev) : bool := match e with EDisc _ _ _ => true | _ => false end.
Definition ev_hash (e : ev) : Z := match e with EConn x _ | EDisc x _ _ => x end.

(* prev_chain / prev_f: committed block hashes and number of committed filter
   headers before the operation; sub: the replaying subscriber's chain.
   A header that is written and rolled back again within ONE operation (a
   branch whose first header was stored and which then failed a checkpoint)
   is announced as disconnected too; such events concern hashes that were not
   in the chain before the operation and are only required to be well-placed
   (after the removal of everything above them). *)
Fixpoint first_bad (prev_chain : list Z) (prev_f : nat) (sub : list Z) (i : Z) (tr : list (op * obs)) : option Z :=
  match tr with
  | [] => None
  | (o, ob) :: rest =>
    let chain := o_chain ob in
    let f := length (o_fchain ob) in
    let discs := filter (fun e => is_disc e = true) (o_events ob) in
    let conns := filter (fun e => is_disc e = false) (o_events ob) in
    let old_discs := filter (fun e => existsb (Z.eqb (ev_hash e)) prev_chain = true) discs in
    let ok_events :=
      list_eqb ev_eqb old_discs (expected_disc prev_chain chain) &&
      list_eqb ev_eqb conns (expected_conn chain (Nat.min prev_f f) f) &&
      (* all disconnects precede all connects within one operation *)
      list_eqb ev_eqb (o_events ob) (discs ++ conns) in
    let sub' := replay sub (o_events ob) in
    let ok_replay := match sub' with Some s => list_eqb Z.eqb s (take f chain) | None => false end in
    let ok_backlog := forallb (backlog_ok chain f) (o_since ob) in
    if ok_events && ok_replay && ok_backlog
    then first_bad chain f (default sub sub') (i + 1) rest
    else Some (i + (if ok_events then (if ok_replay then 2000 else 1000) else 0))
  end.

Definition monitor_row (c : bcase) : list (Z * Z * Z * Z) :=
  let P := bparams c in
  match first_bad [hid (genesis P)] 1 [hid (genesis P)] 0 (btrace c) with
  | Some i => [(bid c, 2, i mod 1000, i / 1000)]
  | None => []
  end.

Definition verdict (c : bcase) : list (Z * Z * Z * Z) :=
  mismatch_row c ++ trap_row c ++ monitor_row c.

Definition run_cases (cs : list bcase) : list (Z * Z * Z * Z) := flat_map verdict cs.
