(* C19 — replay: model vs implementation (kind 1) and the C19 monitor on the
   implementation's events (kind 2). *)
From stdpp Require Import list.
From Coq Require Import ZArith.
From Verif Require Import S2.Model S2.Replay C19.Spec C19.Moments.
Open Scope Z_scope.

Definition backlog_ok (chain : list Z) (flen : nat) (q : Z * option (list (Z * Z) * Z)) : bool :=
  let '(h, r) := q in
  if h =? 0 then match r with Some ([], _) => true | _ => false end
  else match r with
       | Some (l, best) =>
         list_eqb pair_eqb l (expected_backlog chain flen h) && (best =? Z.of_nat flen - 1)
       | None => Z.of_nat flen - 1 <? h     (* asking above the committed tip may fail *)
       end.

Definition is_disc (e : ev) : bool := match e with EDisc _ _ _ => true | _ => false end.
Definition ev_hash (e : ev) : Z := match e with EConn x _ | EDisc x _ _ => x end.

(* prev_chain / prev_f: committed block hashes and number of committed filter
   headers before the operation; sub: the replaying subscriber's chain.
   A header that is written and rolled back again within ONE operation (a
   branch whose first header was stored and which then failed a checkpoint)
   is announced as disconnected too; such events concern hashes that were not
   in the chain before the operation and are only required to be well-placed
   (after the removal of everything above them). *)
Fixpoint first_bad (prev_chain : list Z) (prev_f : nat) (sub : list Z) (i : Z) (tr : list (op * obs)) : option Z :=
  match tr with
  | [] => None
  | (o, ob) :: rest =>
    let chain := o_chain ob in
    let f := length (o_fchain ob) in
    let discs := filter (fun e => is_disc e = true) (o_events ob) in
    let conns := filter (fun e => is_disc e = false) (o_events ob) in
    let old_discs := filter (fun e => existsb (Z.eqb (ev_hash e)) prev_chain = true) discs in
    let ok_events :=
      list_eqb ev_eqb old_discs (expected_disc prev_chain chain) &&
      list_eqb ev_eqb conns (expected_conn chain (Nat.min prev_f f) f) &&
      (* all disconnects precede all connects within one operation *)
      list_eqb ev_eqb (o_events ob) (discs ++ conns) in
    let sub' := replay sub (o_events ob) in
    let ok_replay := match sub' with Some s => list_eqb Z.eqb s (take f chain) | None => false end in
    let ok_backlog := forallb (backlog_ok chain f) (o_since ob) in
    if ok_events && ok_replay && ok_backlog
    then first_bad chain f (default sub sub') (i + 1) rest
    else Some (i + (if ok_events then (if ok_replay then 2000 else 1000) else 0))
  end.

Definition monitor_row (c : bcase) : list (Z * Z * Z * Z) :=
  let P := bparams c in
  match first_bad [hid (genesis P)] 1 [hid (genesis P)] 0 (btrace c) with
  | Some i => [(bid c, 2, i mod 1000, i / 1000)]
  | None => []
  end.

(* ---------- backlog probes at moments inside an operation ----------
   A probe (k, answers): the harness's event consumer took exactly k events of
   the operation from the unbuffered notification channel, waited until the
   block manager was blocked sending the next one (or the operation had
   returned; then k = number of events of the operation), and called
   NotificationsSinceHeight h for the listed heights. *)
Definition answers := list (Z * option (list (Z * Z) * Z)).
(* answers to requests during which the n-th read of the block header store
   was made to fail: (n, h, answer) *)
Definition fanswers := list (Z * Z * option (list (Z * Z) * Z)).
Record mcase := {
  mbase : bcase;
  mprobes : list (Z * list (Z * answers));     (* (step, [(k, answers)]) *)
  mfaults : list (Z * list (Z * fanswers))     (* (step, [(k, answers under a read fault)]) *)
}.

Definition probes_of {A} (pr : list (Z * list A)) (i : Z) : list A :=
  flat_map (fun p => if p.1 =? i then p.2 else []) pr.

Definition fans_eqb (a b : Z * Z * option (list (Z * Z) * Z)) : bool :=
  (a.1.1 =? b.1.1) && since_eqb (a.1.2, a.2) (b.1.2, b.2).

(* kind 1: the model's moment backlog ([notifs_at_moment],
   [notifs_fault_at_moment]) vs the implementation's *)
Fixpoint probe_mismatch (P : params) (s : state) (i : Z) (tr : list (op * obs))
         (pr : list (Z * list (Z * answers))) (fr : list (Z * list (Z * fanswers))) : option Z :=
  match tr with
  | [] => None
  | (o, ob) :: rest =>
    let s' := step P s o in
    let ok := forallb (fun kp : Z * answers =>
                let model := map (fun q : Z * option (list (Z * Z) * Z) =>
                                    (q.1, notifs_at_moment s s' (zn kp.1) q.1)) kp.2 in
                list_eqb since_eqb model kp.2) (probes_of pr i) in
    let okf := forallb (fun kp : Z * fanswers =>
                let model := map (fun q : Z * Z * option (list (Z * Z) * Z) =>
                                    (q.1, notifs_fault_at_moment s s' (zn kp.1) q.1.1 q.1.2)) kp.2 in
                list_eqb fans_eqb model kp.2) (probes_of fr i) in
    if ok && okf then probe_mismatch P s' (i + 1) rest pr fr else Some i
  end.

(* kind 2: the spec on the implementation's own events and answers: the
   backlog is exact for the committed chain of the moment, and backlog plus
   the remaining events of the operation reproduce the committed chain after
   the operation *)
Definition answer_ok (cm ca : list Z) (evs : list ev) (k : nat) (q : Z * option (list (Z * Z) * Z)) : bool :=
  backlog_ok cm (length cm) q &&
  match q with
  | (h, Some (l, _)) =>
    if (0 <? h) && (h <=? zlen cm - 1) then
      match replay (take (zn h + 1) cm) (map (fun p : Z * Z => EConn p.1 p.2) l ++ drop k evs) with
      | Some r => list_eqb Z.eqb r ca
      | None => false
      end
    else true
  | _ => true
  end.

Definition probe_ok (cb ca : list Z) (evs : list ev) (kp : Z * answers) : bool :=
  let k := zn kp.1 in
  let cm := committed_at cb ca evs k in
  (k <=? length evs)%nat && forallb (answer_ok cm ca evs k) kp.2.

(* under a read fault an error is acceptable wherever the backlog loop reads
   at least one header; an answer WITHOUT error must still be the exact
   backlog (never the part read before the fault) *)
Definition fprobe_ok (cb ca : list Z) (evs : list ev) (kp : Z * fanswers) : bool :=
  let k := zn kp.1 in
  let cm := committed_at cb ca evs k in
  (k <=? length evs)%nat &&
  forallb (fun q : Z * Z * option (list (Z * Z) * Z) =>
    match q with
    | (n, h, None) => ((0 <? h) && (h <? zlen cm - 1) && (1 <=? n)) || answer_ok cm ca evs k (h, None)
    | (n, h, r) => answer_ok cm ca evs k (h, r)
    end) kp.2.

Fixpoint first_bad_moment (prev_chain : list Z) (prev_f : nat) (i : Z) (tr : list (op * obs))
         (pr : list (Z * list (Z * answers))) (fr : list (Z * list (Z * fanswers))) : option Z :=
  match tr with
  | [] => None
  | (o, ob) :: rest =>
    let chain := o_chain ob in
    let f := length (o_fchain ob) in
    if forallb (probe_ok (take prev_f prev_chain) (take f chain) (o_events ob)) (probes_of pr i) &&
       forallb (fprobe_ok (take prev_f prev_chain) (take f chain) (o_events ob)) (probes_of fr i)
    then first_bad_moment chain f (i + 1) rest pr fr
    else Some i
  end.

Definition moment_rows (c : mcase) : list (Z * Z * Z * Z) :=
  let b := mbase c in let P := bparams b in
  (match probe_mismatch P (init_state P (bgfh b)) 0 (btrace b) (mprobes c) (mfaults c) with
   | Some i => [(bid b, 1, i, 5)]
   | None => []
   end) ++
  (match first_bad_moment [hid (genesis P)] 1 0 (btrace b) (mprobes c) (mfaults c) with
   | Some i => [(bid b, 2, i, 0)]
   | None => []
   end).

Definition verdict (c : mcase) : list (Z * Z * Z * Z) :=
  mismatch_row (mbase c) ++ trap_row (mbase c) ++ monitor_row (mbase c) ++ moment_rows c.

Definition run_cases (cs : list mcase) : list (Z * Z * Z * Z) := flat_map verdict cs.
