(* C19 — the shortcuts of C19/ReplayLong.v are the real things:
   [model_answer] is S2.Model.notifs_since on the state [lstate] built from the
   store contents, and [backlog_ok_fast] is [backlog_ok] of C19/Replay.v
   (the formula of C19_backlog_exact). *)
From stdpp Require Import list list_numbers.
From Coq Require Import ZArith Lia ZifyBool.
From Verif Require Import S2.Model S2.Replay C19.Spec C19.Statements C19.Replay C19.ReplayLong C19.Proofs.
Open Scope Z_scope.

Lemma heights_from0_lookup l : forall b i p, heights_from0 b l = true -> l !! i = Some p -> p.2 = b + Z.of_nat i.
Proof.
  induction l as [|q l IH]; intros b i p H Hi; [done|].
  cbn [heights_from0] in H. apply andb_true_iff in H as [H1 H2].
  destruct i as [|i]; cbn in Hi.
  - injection Hi as <-. lia.
  - rewrite (IH (b + 1) i p H2 Hi). lia.
Qed.

Lemma expected_fast_eq ch flen h : heights_from0 0 ch = true -> (flen <= length ch)%nat ->
  expected_fast ch flen h = expected_backlog (map fst ch) flen h.
Proof.
  intros Hh Hlen. unfold expected_fast, expected_backlog. set (a := (zn h + 1)%nat).
  apply list_eq. intros k. rewrite lookup_drop, list_lookup_fmap.
  destruct (decide (k < flen - a)%nat) as [Hk|Hk].
  - rewrite lookup_take by lia. rewrite lookup_seq_lt by lia. cbn [fmap option_fmap option_map].
    destruct (lookup_lt_is_Some_2 ch (a + k) ltac:(lia)) as [p Hp]. rewrite Hp.
    rewrite list_lookup_fmap, Hp. cbn. pose proof (heights_from0_lookup ch 0 (a + k) p Hh Hp) as H2.
    destruct p as [t i]. cbn in *. f_equal. f_equal. lia.
  - rewrite lookup_seq_ge by lia. cbn. apply lookup_ge_None. rewrite take_length. lia.
Qed.

Lemma backlog_ok_fast_eq ch flen q : heights_from0 0 ch = true -> (flen <= length ch)%nat ->
  backlog_ok_fast ch flen q = backlog_ok (map fst ch) flen q.
Proof.
  intros Hh Hlen. destruct q as [h r]. unfold backlog_ok_fast, backlog_ok.
  destruct (h =? 0); [reflexivity|]. destruct r as [[l best]|]; [|reflexivity].
  by rewrite expected_fast_eq.
Qed.

Lemma model_answer_eq c h : long_pre c = true -> 0 <= h ->
  model_answer c (unruns (lchain c)) h = notifs_since h (lstate c).
Proof.
  unfold long_pre. set (ch := unruns (lchain c)). intros Hp Hh.
  repeat (apply andb_true_iff in Hp as [Hp ?]).
  assert (Hz : zn (lflen c) = Z.to_nat (lflen c)).
  { unfold zn. replace ((0 <=? lflen c) && (lflen c <? 1000000)) with true; [done|]. unfold zlen in *. lia. }
  rewrite (notifs_since_spec (lstate c) h); [| |unfold lstate; cbn [chain]; rewrite map_length; fold ch; unfold zlen in *; lia|exact Hh].
  - unfold model_answer, lstate. cbn [ftipVar fchain chain]. rewrite !map_length, seq_length.
    destruct (h =? 0); [reflexivity|]. destruct (h <=? lftip c); [|reflexivity].
    fold ch. rewrite expected_fast_eq by (first [done | unfold zlen in *; lia]).
    unfold hashes. rewrite map_map. reflexivity.
  - unfold good, lstate. cbn [core_of k_fchain k_chain k_ftip fchain chain ftipVar]. rewrite !map_length, seq_length. fold ch.
    unfold zlen in *. split; lia.
Qed.

Lemma long_replay_faithful c h q : long_pre c = true -> 0 <= h ->
  model_answer c (unruns (lchain c)) h = notifs_since h (lstate c) /\
  backlog_ok_fast (unruns (lchain c)) (zn (lflen c)) q =
    backlog_ok (map fst (unruns (lchain c))) (zn (lflen c)) q.
Proof.
  intros Hp Hh. split; [by apply model_answer_eq|].
  unfold long_pre in Hp. repeat (apply andb_true_iff in Hp as [Hp ?]).
  apply backlog_ok_fast_eq; [done|].
  unfold zn. destruct ((0 <=? lflen c) && (lflen c <? 1000000)); unfold zlen in *; lia.
Qed.
