(* C13 (enforcement half) — monitor for netsim scenarios.  Monitor only.

   Per node the harness states what the node does wrong and whether the
   scenario makes that provable to the client; the monitor checks the sampled
   ban set and connected-peer set:
     - every node whose misbehaviour is provable is reported banned by the
       deadline (unless it is the known checkpoint-only liar, F15: tag 15),
     - no honest / non-provable node is ever reported banned,
     - no banned address stays connected: an overlap banned && connected
       lasts at most [overlap_ms], and there is none in the final sample,
     - after the ban the client never begins a handshake with the address
       again although the connection manager keeps dialling it. *)
From Coq Require Import ZArith List Bool.
Import ListNotations.
Open Scope Z_scope.

Definition overlap_ms := 2000.

(* expectation per node: 0 = must never be banned, 1 = must be banned by the
   deadline, 2 = checkpoint-only liar (should be banned; known F15: is not),
   3 = may or may not be banned (misbehaviour not guaranteed to be exposed),
   4 = provable misbehaviour while the ban cannot be recorded (ban store write
       fault): must be disconnected all the same *)
Record bcase := mkBCase {
  b_expect : list Z;
  (* samples: time ms, banned flags, connected flags (per node) *)
  b_samples : list (Z * list bool * list bool);
  (* per node: version handshakes begun after the ban settled *)
  b_versions_after_ban : list Z
}.

Definition nthb (l : list bool) (i : nat) : bool := nth i l false.

(* node i: banned in the last sample *)
Definition finally_banned (c : bcase) (i : nat) : bool :=
  match rev (b_samples c) with
  | (_, b, _) :: _ => nthb b i
  | [] => false
  end.

Definition ever_banned (c : bcase) (i : nat) : bool :=
  existsb (fun s => let '(_, b, _) := s in nthb b i) (b_samples c).

Definition finally_connected (c : bcase) (i : nat) : bool :=
  match rev (b_samples c) with
  | (_, _, k) :: _ => nthb k i
  | [] => false
  end.

(* node i was seen connected and, later, not connected *)
Fixpoint was_dropped (i : nat) (seen : bool) (l : list (Z * list bool * list bool)) : bool :=
  match l with
  | [] => false
  | (_, _, k) :: rest =>
    if nthb k i then was_dropped i true rest
    else if seen then true else was_dropped i false rest
  end.

(* longest time node i is seen banned && connected; [since] = start of the
   current overlap *)
Fixpoint max_overlap (i : nat) (since : option Z) (best : Z) (l : list (Z * list bool * list bool)) : Z :=
  match l with
  | [] => best
  | (t, b, k) :: rest =>
    if nthb b i && nthb k i then
      match since with
      | Some t0 => max_overlap i since (Z.max best (t - t0)) rest
      | None => max_overlap i (Some t) best rest
      end
    else
      match since with
      | Some t0 => max_overlap i None (Z.max best (t - t0)) rest
      | None => max_overlap i None best rest
      end
  end.

(* per node: 0 = fine, otherwise a reason code *)
Definition node_bad (c : bcase) (i : nat) (e : Z) : Z :=
  if (e =? 0) && ever_banned c i then 1                          (* innocent node banned *)
  else if (e =? 1) && negb (finally_banned c i) then 2          (* provable misbehaviour not banned *)
  else if (e =? 2) && negb (finally_banned c i) then 15         (* F15 *)
  else if (e =? 4) && existsb (fun s => let '(_, _, k) := s in nthb k i) (b_samples c)
                  && negb (was_dropped i false (b_samples c)) then 6  (* misbehaving peer kept although its ban failed *)
  else if finally_banned c i && finally_connected c i then 3    (* connection kept to a banned address *)
  else if overlap_ms <? max_overlap i None 0 (b_samples c) then 4
  else if 0 <? nth i (b_versions_after_ban c) 0 then 5          (* handshake with a banned address *)
  else 0.

Fixpoint scan (c : bcase) (i : nat) (es : list Z) : list (Z * Z) :=
  match es with
  | [] => []
  | e :: rest =>
    let r := node_bad c i e in
    (if r =? 0 then [] else [(Z.of_nat i, r)]) ++ scan c (S i) rest
  end.

Definition holds (c : bcase) : bool := match scan c 0 (b_expect c) with [] => true | _ => false end.

(* rows (case id, kind 2, step = node index, tag = 15 for the F15 liar, 0
   otherwise; the reason code is 100 * reason + node in step for others) *)
Definition verdict (ic : Z * bcase) : list (Z * Z * Z * Z) :=
  let '(id, c) := ic in
  map (fun nr => let '(i, r) := nr in
                 if r =? 15 then (id, 2, i, 15) else (id, 2, 100 * r + i, 0))
      (scan c 0 (b_expect c)).

Definition run_cases (cs : list (Z * bcase)) : list (Z * Z * Z * Z) := flat_map verdict cs.
