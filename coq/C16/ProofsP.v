(* C16 — Put fails only for the three announced reasons (value Size() fails,
   oversize value, a resident value Size() fails); otherwise eviction always
   makes room. *)
From Coq Require Import ZArith List Bool Lia.
From Verif Require Import C16.Model C16.Spec C16.Proofs C16.ProofsD.
Import ListNotations.
Open Scope Z_scope.

(* entries whose size is a number now: nonnegative and Size() does not fail *)
Definition sizable (b : list Z) (l : list (Z * val)) : Prop :=
  Forall (fun p => 0 <= vsz (snd p) /\ mem (vid (snd p)) b = false) l.

Lemma sizable_rsum b l : sizable b l -> 0 <= rsum l.
Proof. induction 1 as [|p l [Hp _] _ IH]; simpl; lia. Qed.

Lemma sizable_removelast b l : sizable b l -> sizable b (removelast l).
Proof.
  unfold sizable. induction l as [|a l IH]; intro H; [constructor|].
  inversion H; subst. simpl. destruct l; [constructor|]. constructor; auto.
Qed.

Lemma removelast_length {A} (l : list A) : l <> [] -> S (length (removelast l)) = length l.
Proof.
  intro H. destruct (exists_last H) as [l0 [a ->]].
  rewrite removelast_last, app_length. simpl. lia.
Qed.

(* when no resident Size() fails, eviction always makes room for a value that
   fits the capacity *)
Lemma ref_evict_succeeds fuel cp b : forall l needed ev cbs,
  (length l < fuel)%nat -> sizable b l -> 0 <= needed <= cp ->
  exists l' ev' cbs', ref_evict fuel cp b l needed ev cbs = (l', Some ev', cbs').
Proof.
  induction fuel as [|f IH]; intros l needed ev cbs Hf Hn Hc; [lia|].
  cbn [ref_evict]. destruct (cp - rsum l <? needed) eqn:E; [|eauto].
  destruct (rev l) as [|[k v] t] eqn:Er.
  - assert (l = []) as -> by (rewrite <- (rev_involutive l), Er; reflexivity).
    simpl in E. lia.
  - assert (In (k, v) l) as Hin by (apply in_rev; rewrite Er; left; reflexivity).
    unfold sizable in Hn. rewrite Forall_forall in Hn. destruct (Hn _ Hin) as [_ Hm].
    simpl in Hm. rewrite Hm.
    apply IH; auto; [|apply sizable_removelast; unfold sizable; now rewrite Forall_forall].
    assert (l <> []) as Hne by (intros ->; discriminate).
    pose proof (removelast_length l Hne). lia.
Qed.

Lemma sizable_rremove b l k : sizable b l -> sizable b (rremove l k).
Proof. unfold sizable, rremove. apply Forall_filter. Qed.

Lemma rfind_in l k v : rfind l k = Some v -> In (k, v) l.
Proof.
  unfold rfind. induction l as [|[k' v'] l IH]; simpl; [discriminate|].
  destruct (k' =? k) eqn:E; simpl; [intro H; left; inversion H; f_equal; lia | auto].
Qed.

Lemma ref_put_succeeds r k v :
  mem (vid v) (rbad r) = false -> sizable (rbad r) (rl r) -> 0 <= vsz v <= rcap r ->
  exists ev cbs, snd (ref_step r (Put k v)) = OPut ev cbs.
Proof.
  intros Hb Hn Hv. cbn [ref_step]. rewrite Hb.
  destruct (vsz v >? rcap r) eqn:E; [lia|].
  assert (forall l1, sizable (rbad r) l1 -> exists ev cbs,
    snd (match ref_evict (S (length l1)) (rcap r) (rbad r) l1 (vsz v) false [] with
         | (l2, None, cbs) => (rmk r l2, OErr cbs)
         | (l2, Some ev, cbs) => (rmk r ((k, v) :: l2), OPut ev cbs) end) = OPut ev cbs) as Hev.
  { intros l1 Hn1.
    destruct (ref_evict_succeeds (S (length l1)) (rcap r) (rbad r) l1 (vsz v) false []) as [l' [ev' [cbs' He]]]; auto.
    rewrite He. simpl. eauto. }
  destruct (rfind (rl r) k) as [ov|] eqn:F; [|apply Hev; auto].
  apply rfind_in in F. pose proof Hn as Hn'. unfold sizable in Hn'. rewrite Forall_forall in Hn'.
  destruct (Hn' _ F) as [_ Hm]. simpl in Hm. rewrite Hm. apply Hev. now apply sizable_rremove.
Qed.

(* the model: Put fails ONLY for a value whose Size() fails, an oversize
   value, or because some resident value's Size() fails *)
Lemma put_succeeds c k v :
  inv c -> mem (vid v) (bad c) = false ->
  (forall e, In e (ll c) -> mem (vid (eval e)) (bad c) = false) ->
  0 <= vsz v <= cap c ->
  exists ev cbs, snd (step c (Put k v)) = OPut ev cbs.
Proof.
  intros Hi Hb Hres Hv.
  assert (wf_op (Put k v)) as Hwf by (simpl; pose proof (inv_cap _ Hi); lia).
  destruct (step_sim _ _ _ (R_abs c Hi) Hwf) as [_ Hm].
  destruct (ref_put_succeeds (abs_state c) k v) as [ev [cbs He]]; auto.
  { unfold sizable. simpl. unfold abs_list. rewrite Forall_map. simpl.
    pose proof (inv_pos _ Hi) as Hp. rewrite Forall_forall in *. intros e He. split; auto. }
  rewrite He in Hm. exists ev, cbs. apply (obs_match_eq _ _ _ Hm).
  intros l Hl. rewrite Hl in Hm. discriminate.
Qed.

Lemma reach_put_succeeds cp ops0 k v :
  0 <= cp < two64 -> Forall wf_op ops0 ->
  let c := fst (run (empty cp) ops0) in
  mem (vid v) (bad c) = false ->
  (forall e, In e (ll c) -> mem (vid (eval e)) (bad c) = false) ->
  0 <= vsz v <= cap c ->
  exists ev cbs, snd (step c (Put k v)) = OPut ev cbs.
Proof. intros Hcp Hwf0 c. apply put_succeeds. now apply invariant_all_histories. Qed.

(* ------------------------------------------------------------------ *)
(* a hit makes the entry the most recently used one *)

Lemma get_hit_moves_to_front c k x cbs :
  inv c -> snd (step c (Get k)) = OVal (Some x) cbs ->
  exists v, vid v = x /\ rfind (abs_list (ll c)) k = Some v /\
    abs_list (ll (fst (step c (Get k)))) = (k, v) :: rremove (abs_list (ll c)) k.
Proof.
  intros Hi Hg. destruct (step_sim _ _ (Get k) (R_abs c Hi) I) as [HR Hm].
  rewrite Hg in Hm. destruct HR as [_ [_ [_ Hl]]]. rewrite <- Hl. clear Hl.
  cbn [ref_step abs_state rl] in *.
  destruct (rfind (abs_list (ll c)) k) as [v|] eqn:F; simpl in Hm.
  - apply andb_true_iff in Hm as [H1 _]. exists v. repeat split; auto. lia.
  - discriminate.
Qed.

Lemma reach_get_hit_moves_to_front cp ops0 k x cbs :
  0 <= cp < two64 -> Forall wf_op ops0 ->
  let c := fst (run (empty cp) ops0) in
  snd (step c (Get k)) = OVal (Some x) cbs ->
  exists v, vid v = x /\ rfind (abs_list (ll c)) k = Some v /\
    abs_list (ll (fst (step c (Get k)))) = (k, v) :: rremove (abs_list (ll c)) k.
Proof. intros Hcp Hwf c. apply get_hit_moves_to_front. now apply invariant_all_histories. Qed.
