(* C16 — the property in its own vocabulary: a reference LRU that is just
   the recency-ordered association list of the resident entries (no index,
   no size counter, no element identities, unbounded integers), the
   well-formedness invariant of the implementation state, and the boolean
   monitor evaluated on implementation traces. *)
From Coq Require Import ZArith List Bool.
From Verif Require Import C16.Model.
Import ListNotations.
Open Scope Z_scope.

(* ---------------- reference LRU ---------------- *)
Record rstate := { rcap : Z; rl : list (Z * val); rbad : list Z }.

Definition rsum (l : list (Z * val)) : Z := fold_right (fun p a => vsz (snd p) + a) 0 l.
Definition rfind (l : list (Z * val)) (k : Z) : option val :=
  option_map snd (find (fun p => fst p =? k) l).
Definition rremove (l : list (Z * val)) (k : Z) : list (Z * val) :=
  filter (fun p => negb (fst p =? k)) l.
Definition rmk (r : rstate) (l : list (Z * val)) : rstate :=
  {| rcap := rcap r; rl := l; rbad := rbad r |}.
Definition robs (l : list (Z * val)) : list (Z * Z) := map (fun p => (fst p, vid (snd p))) l.

(* make room for [needed]: drop entries from the least-recently-used end
   while the resident total plus [needed] exceeds the capacity; stops with an
   error (None) at an entry whose size cannot be computed *)
Fixpoint ref_evict (fuel : nat) (cp : Z) (b : list Z) (l : list (Z * val)) (needed : Z)
  (ev : bool) (cbs : list (Z * Z)) : list (Z * val) * option bool * list (Z * Z) :=
  if cp - rsum l <? needed then
    match fuel with
    | O => (l, None, cbs)
    | S f =>
      match rev l with
      | [] => (l, None, cbs)
      | (k, v) :: _ =>
        if mem (vid v) b then (l, None, cbs)
        else ref_evict f cp b (removelast l) needed true (cbs ++ [(k, vid v)])
      end
    end
  else (l, Some ev, cbs).

Definition ref_del (r : rstate) (k : Z) : rstate * option Z * list (Z * Z) :=
  match rfind (rl r) k with
  | None => (r, None, [])
  | Some v => if mem (vid v) (rbad r) then (r, None, [])
              else (rmk r (rremove (rl r) k), Some (vid v), [(k, vid v)])
  end.

Definition ref_step (r : rstate) (o : op) : rstate * obs :=
  match o with
  | Put k v =>
    if mem (vid v) (rbad r) then (r, OErr [])
    else if vsz v >? rcap r then (r, OErr [])
    else
      match (match rfind (rl r) k with
             | None => Some (rl r)
             | Some ov => if mem (vid ov) (rbad r) then None else Some (rremove (rl r) k)
             end) with
      | None => (r, OErr [])
      | Some l1 =>
        match ref_evict (S (length l1)) (rcap r) (rbad r) l1 (vsz v) false [] with
        | (l2, None, cbs) => (rmk r l2, OErr cbs)
        | (l2, Some ev, cbs) => (rmk r ((k, v) :: l2), OPut ev cbs)
        end
      end
  | Get k =>
    match rfind (rl r) k with
    | None => (r, OVal None [])
    | Some v => (rmk r ((k, v) :: rremove (rl r) k), OVal (Some (vid v)) [])
    end
  | LoadAndDelete k => let '(r', x, cbs) := ref_del r k in (r', OVal x cbs)
  | Delete k => let '(r', _, cbs) := ref_del r k in (r', ODone cbs)
  | Len => (r, ONum (Z.of_nat (length (rl r))))
  | Size => (r, ONum (rsum (rl r)))
  | Range | RangeFILO => (r, OList (robs (rl r)))
  | RangeFIFO => (r, OList (robs (rev (rl r))))
  | Poison id => ({| rcap := rcap r; rl := rl r;
                     rbad := if mem id (rbad r) then rbad r else id :: rbad r |}, ODone [])
  | Heal id => ({| rcap := rcap r; rl := rl r;
                   rbad := filter (fun x => negb (x =? id)) (rbad r) |}, ODone [])
  end.

Fixpoint ref_run (r : rstate) (ops : list op) : rstate * list obs :=
  match ops with
  | [] => (r, [])
  | o :: rest =>
    let '(r1, ob) := ref_step r o in
    let '(r2, obs) := ref_run r1 rest in (r2, ob :: obs)
  end.

Definition rempty (capacity : Z) : rstate := {| rcap := capacity; rl := []; rbad := [] |}.

(* ---------------- comparison of observations ---------------- *)
Definition pair_eqb (a b : Z * Z) : bool := (fst a =? fst b) && (snd a =? snd b).
Fixpoint pairs_eqb (a b : list (Z * Z)) : bool :=
  match a, b with
  | [], [] => true
  | x :: a', y :: b' => pair_eqb x y && pairs_eqb a' b'
  | _, _ => false
  end.
Definition oz_eqb (a b : option Z) : bool :=
  match a, b with Some x, Some y => x =? y | None, None => true | _, _ => false end.
(* same multiset for duplicate-free lists: map iteration order is arbitrary *)
Definition pairs_perm (a b : list (Z * Z)) : bool :=
  (Nat.eqb (length a) (length b)) &&
  forallb (fun p => existsb (pair_eqb p) b) a && forallb (fun p => existsb (pair_eqb p) a) b.

(* [obs_match o impl ref]: observation [impl] of operation [o] is the one the
   reference prescribes; Range is compared up to order *)
Definition obs_match (o : op) (a b : obs) : bool :=
  match a, b with
  | OPut e1 c1, OPut e2 c2 => Bool.eqb e1 e2 && pairs_eqb c1 c2
  | OErr c1, OErr c2 => pairs_eqb c1 c2
  | OVal v1 c1, OVal v2 c2 => oz_eqb v1 v2 && pairs_eqb c1 c2
  | ODone c1, ODone c2 => pairs_eqb c1 c2
  | ONum n1, ONum n2 => n1 =? n2
  | OList l1, OList l2 => match o with Range => pairs_perm l1 l2 | _ => pairs_eqb l1 l2 end
  | _, _ => false
  end.

Fixpoint all_match (ops : list op) (a b : list obs) : bool :=
  match ops, a, b with
  | [], [], [] => true
  | o :: ops', x :: a', y :: b' => obs_match o x y && all_match ops' a' b'
  | _, _, _ => false
  end.

(* ---------------- invariant of the implementation state ---------------- *)
Definition keys (l : list elem) : list Z := map ekey l.
Definition sum_sz (l : list elem) : Z := fold_right (fun e a => vsz (eval e) + a) 0 l.
Definition abs_list (l : list elem) : list (Z * val) := map (fun e => (ekey e, eval e)) l.

Record inv (c : cache) : Prop := {
  inv_cap   : 0 <= cap c < two64;
  inv_bound : 0 <= size c <= cap c;                       (* never exceeds capacity *)
  inv_size  : size c = sum_sz (ll c);                     (* Size() = total of the resident entries *)
  inv_pos   : Forall (fun e => 0 <= vsz (eval e)) (ll c);
  inv_keys  : NoDup (keys (ll c));                        (* one list entry per key *)
  inv_ids   : NoDup (map eid (ll c));
  inv_fresh : Forall (fun e => eid e < next c) (ll c);
  inv_idx   : forall k e, idx_get (index c) k = Some e <-> (In e (ll c) /\ ekey e = k);
  inv_idxnd : NoDup (map fst (index c));                  (* index <-> list is a bijection *)
  inv_lock  : locked c = false                            (* the cache stays usable *)
}.

Definition wf_op (o : op) : Prop :=
  match o with Put _ v => 0 <= vsz v < two64 | _ => True end.

(* ---------------- traces and the monitor ---------------- *)
(* one item of a history: a sequential call with its observation, or a group
   of concurrent calls with the schedule that was forced and each call's
   observation *)
Inductive item :=
  | ISeq (o : op) (r : obs)
  | IConc (ops : list op) (sch : list nat) (rs : list obs).

Fixpoint insert_all {A} (x : A) (l : list A) : list (list A) :=
  match l with
  | [] => [[x]]
  | y :: r => (x :: l) :: map (cons y) (insert_all x r)
  end.
Fixpoint perms {A} (l : list A) : list (list A) :=
  match l with
  | [] => [[]]
  | x :: r => flat_map (insert_all x) (perms r)
  end.

(* run the calls (index, op, observed result) one after the other on the
   reference; None as soon as an observation differs *)
Fixpoint ref_seq_check (r : rstate) (l : list (op * obs)) : option rstate :=
  match l with
  | [] => Some r
  | (o, ob) :: rest =>
    let '(r1, rob) := ref_step r o in
    if obs_match o ob rob then ref_seq_check r1 rest else None
  end.

(* the trace is explained by the reference LRU: every sequential call
   observes what the reference prescribes, and every concurrent group has a
   sequential order of its calls that explains all its observations and
   everything observed afterwards (linearizability) *)
Fixpoint holds_from (r : rstate) (tr : list item) : bool :=
  match tr with
  | [] => true
  | ISeq o ob :: rest =>
    let '(r1, rob) := ref_step r o in
    obs_match o ob rob && holds_from r1 rest
  | IConc ops _ rs :: rest =>
    Nat.eqb (length ops) (length rs) && forallb conc_op ops &&
    existsb (fun order =>
               match ref_seq_check r order with
               | Some r1 => holds_from r1 rest
               | None => false
               end) (perms (combine ops rs))
  end.

Definition holds (capacity : Z) (tr : list item) : bool := holds_from (rempty capacity) tr.

(* the trace of a sequential history *)
Definition seq_trace (ops : list op) (rs : list obs) : list item :=
  map (fun p => ISeq (fst p) (snd p)) (combine ops rs).

(* residency and events, for stating the lookup and eviction-order clauses *)
Definition resident (r : rstate) (k : Z) : bool := existsb (fun p => fst p =? k) (rl r).
Definition obs_cbs (ob : obs) : list (Z * Z) :=
  match ob with
  | OPut _ c | OErr c | OVal _ c | ODone c => c
  | _ => []
  end.
Definition is_put_of (k : Z) (o : op) : bool :=
  match o with Put k' _ => k' =? k | _ => false end.
