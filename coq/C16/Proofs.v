(* C16 — lemmas. *)
From Coq Require Import ZArith List Bool Lia ZifyBool Permutation.
From Verif Require Import C16.Model C16.Spec.
Import ListNotations.
Open Scope Z_scope.

(* ------------------------------------------------------------------ *)
(* generic list facts *)

Lemma NoDup_map_filter {A B} (f : A -> B) p l :
  NoDup (map f l) -> NoDup (map f (filter p l)).
Proof.
  induction l as [|a l IH]; simpl; intro H; [constructor|].
  inversion H as [|? ? Hn Hd]; subst. destruct (p a); simpl; auto.
  constructor; auto. intro Hin. apply Hn.
  apply in_map_iff in Hin as [x [Hx Hin]]. apply filter_In in Hin as [Hin _].
  apply in_map_iff. eauto.
Qed.

Lemma NoDup_map_inj_in {A B} (f : A -> B) l x y :
  NoDup (map f l) -> In x l -> In y l -> f x = f y -> x = y.
Proof.
  induction l as [|a l IH]; simpl; intros H Hx Hy E; [contradiction|].
  inversion H as [|? ? Hn Hd]; subst.
  destruct Hx as [Hx|Hx], Hy as [Hy|Hy]; subst; auto.
  - exfalso. apply Hn. rewrite E. now apply in_map.
  - exfalso. apply Hn. rewrite <- E. now apply in_map.
Qed.

Lemma map_filter_comm {A B} (f : A -> B) p q l :
  (forall x, In x l -> p x = q (f x)) -> map f (filter p l) = filter q (map f l).
Proof.
  induction l as [|a l IH]; simpl; intro H; auto.
  rewrite <- (H a) by auto. destruct (p a); simpl; rewrite IH; auto.
Qed.

Lemma filter_id {A} (p : A -> bool) l : (forall x, In x l -> p x = true) -> filter p l = l.
Proof.
  induction l as [|a l IH]; simpl; intro H; auto.
  rewrite (H a) by auto. f_equal. auto.
Qed.

(* ------------------------------------------------------------------ *)
(* index *)

Lemma idx_get_del_same m k : idx_get (idx_del m k) k = None.
Proof.
  unfold idx_get, idx_del. induction m as [|[k' e] m IH]; simpl; auto.
  destruct (k' =? k) eqn:E; simpl; auto. rewrite E. auto.
Qed.

Lemma idx_get_del_other m k k' : k' <> k -> idx_get (idx_del m k) k' = idx_get m k'.
Proof.
  unfold idx_get, idx_del. intro Hne. induction m as [|[k0 e] m IH]; simpl; auto.
  destruct (k0 =? k) eqn:E; simpl.
  - destruct (k0 =? k') eqn:E'; [lia|auto].
  - destruct (k0 =? k') eqn:E'; auto.
Qed.

Lemma idx_del_nodup m k : NoDup (map fst m) -> NoDup (map fst (idx_del m k)).
Proof. apply NoDup_map_filter. Qed.

Lemma idx_del_notin m k : ~ In k (map fst (idx_del m k)).
Proof.
  intro H. apply in_map_iff in H as [[k' e] [Hk Hin]]. simpl in Hk. subst k'.
  apply filter_In in Hin as [_ Hp]. simpl in Hp. lia.
Qed.

Lemma idx_get_put_same m k e : idx_get (idx_put m k e) k = Some e.
Proof. unfold idx_get, idx_put. simpl. rewrite Z.eqb_refl. auto. Qed.

Lemma idx_get_put_other m k e k' : k' <> k -> idx_get (idx_put m k e) k' = idx_get m k'.
Proof.
  intro Hne. unfold idx_put. unfold idx_get at 1. simpl.
  destruct (k =? k') eqn:E; [lia|]. fold (idx_get (idx_del m k) k').
  now apply idx_get_del_other.
Qed.

Lemma idx_get_in m k e : idx_get m k = Some e -> In (k, e) m.
Proof.
  unfold idx_get. destruct (find _ m) as [[k' e']|] eqn:F; simpl; intro H; [|discriminate].
  inversion H; subst. apply find_some in F as [Hin Hk]. simpl in Hk.
  assert (k' = k) by lia. subst. auto.
Qed.

Lemma idx_in_get m k e : NoDup (map fst m) -> In (k, e) m -> idx_get m k = Some e.
Proof.
  unfold idx_get. induction m as [|[k0 e0] m IH]; simpl; intros Hnd Hin; [contradiction|].
  inversion Hnd as [|? ? Hn Hd]; subst.
  destruct Hin as [Hin|Hin].
  - inversion Hin; subst. rewrite Z.eqb_refl. auto.
  - destruct (k0 =? k) eqn:E.
    + exfalso. apply Hn. assert (k0 = k) by lia. subst.
      apply in_map_iff. exists (k, e). auto.
    + auto.
Qed.

(* ------------------------------------------------------------------ *)
(* recency list *)

Lemma l_remove_in l id x : In x (l_remove l id) <-> In x l /\ eid x <> id.
Proof. unfold l_remove. rewrite filter_In. split; intros [H1 H2]; split; auto; lia. Qed.

Lemma l_remove_notin l id : ~ In id (map eid l) -> l_remove l id = l.
Proof.
  intro H. apply filter_id. intros x Hx.
  destruct (eid x =? id) eqn:E; auto. exfalso. apply H.
  assert (eid x = id) by lia. subst. now apply in_map.
Qed.

Lemma sum_sz_app a b : sum_sz (a ++ b) = sum_sz a + sum_sz b.
Proof. induction a; simpl; lia. Qed.

Lemma sum_sz_nonneg l : Forall (fun e => 0 <= vsz (eval e)) l -> 0 <= sum_sz l.
Proof. induction 1; simpl; lia. Qed.

Lemma sum_sz_in l e : Forall (fun e => 0 <= vsz (eval e)) l -> In e l -> vsz (eval e) <= sum_sz l.
Proof.
  induction 1 as [|a l Ha Hl IH]; simpl; intro Hin; [contradiction|].
  pose proof (sum_sz_nonneg l Hl). destruct Hin; subst; [lia|]. specialize (IH H0). lia.
Qed.

Lemma sum_sz_remove l e :
  NoDup (map eid l) -> In e l -> sum_sz (l_remove l (eid e)) = sum_sz l - vsz (eval e).
Proof.
  induction l as [|a l IH]; simpl; intros Hnd Hin; [contradiction|].
  inversion Hnd as [|? ? Hn Hd]; subst.
  destruct Hin as [Hin|Hin].
  - subst. rewrite Z.eqb_refl. simpl. fold (l_remove l (eid e)).
    rewrite l_remove_notin by auto. lia.
  - destruct (eid a =? eid e) eqn:E.
    + exfalso. apply Hn. assert (eid a = eid e) as -> by lia. now apply in_map.
    + simpl. fold (l_remove l (eid e)). rewrite IH by auto. lia.
Qed.

Lemma Forall_filter {A} (P : A -> Prop) p l : Forall P l -> Forall P (filter p l).
Proof. induction 1; simpl; auto. destruct (p x); auto. Qed.

Lemma same_elem l x e :
  NoDup (keys l) -> NoDup (map eid l) -> In x l -> In e l ->
  (eid x =? eid e) = (ekey x =? ekey e).
Proof.
  intros Hk Hi Hx He.
  destruct (eid x =? eid e) eqn:E1, (ekey x =? ekey e) eqn:E2; auto.
  - assert (x = e) by (eapply (NoDup_map_inj_in eid); eauto; lia). subst. lia.
  - assert (x = e) by (eapply (NoDup_map_inj_in ekey); eauto; lia). subst. lia.
Qed.

Lemma abs_remove l e :
  NoDup (keys l) -> NoDup (map eid l) -> In e l ->
  abs_list (l_remove l (eid e)) = rremove (abs_list l) (ekey e).
Proof.
  intros Hk Hi He. unfold abs_list, l_remove, rremove.
  apply map_filter_comm. intros x Hx. simpl. f_equal. now apply same_elem with l.
Qed.

Lemma rfind_abs l k :
  rfind (abs_list l) k = option_map eval (find (fun x => ekey x =? k) l).
Proof.
  unfold rfind. induction l as [|a l IH]; simpl; auto.
  destruct (ekey a =? k); simpl; auto.
Qed.

Lemma find_key l e : NoDup (keys l) -> In e l -> find (fun x => ekey x =? ekey e) l = Some e.
Proof.
  induction l as [|a l IH]; simpl; intros Hnd Hin; [contradiction|].
  inversion Hnd as [|? ? Hn Hd]; subst.
  destruct Hin as [Hin|Hin].
  - subst. now rewrite Z.eqb_refl.
  - destruct (ekey a =? ekey e) eqn:E; auto.
    exfalso. apply Hn. assert (ekey a = ekey e) as -> by lia. now apply in_map.
Qed.

Lemma keys_abs l : map fst (abs_list l) = keys l.
Proof. unfold abs_list, keys. rewrite map_map. auto. Qed.

Lemma robs_abs l : robs (abs_list l) = map (fun e => (ekey e, vid (eval e))) l.
Proof. unfold robs, abs_list. rewrite map_map. auto. Qed.

Lemma rsum_abs l : rsum (abs_list l) = sum_sz l.
Proof. induction l; simpl; auto. rewrite IHl. auto. Qed.

Lemma in_list_true l e : In e l -> in_list l (eid e) = true.
Proof. intro H. unfold in_list. apply existsb_exists. exists e. split; auto. lia. Qed.

Lemma last_elem_some l e : last_elem l = Some e -> exists l0, l = l0 ++ [e].
Proof.
  unfold last_elem. destruct (rev l) as [|x t] eqn:E; intro H; inversion H; subst.
  exists (rev t). rewrite <- (rev_involutive l), E. auto.
Qed.

Lemma last_elem_none l : last_elem l = None -> l = [].
Proof.
  unfold last_elem. destruct (rev l) eqn:E; intro H; [|discriminate].
  rewrite <- (rev_involutive l), E. auto.
Qed.

Lemma rremove_last l0 k v :
  NoDup (map fst (l0 ++ [(k, v)])) -> rremove (l0 ++ [(k, v)]) k = l0.
Proof.
  intro H. unfold rremove. rewrite filter_app. simpl. rewrite Z.eqb_refl. simpl.
  rewrite app_nil_r. apply filter_id. intros [k' v'] Hin. simpl.
  destruct (k' =? k) eqn:E; auto. exfalso.
  rewrite map_app in H. simpl in H. apply NoDup_remove_2 in H. apply H.
  rewrite app_nil_r. assert (k' = k) by lia. subst.
  apply in_map_iff. exists (k, v'). auto.
Qed.

(* ------------------------------------------------------------------ *)
(* arithmetic *)

Lemma w64_small z : 0 <= z < two64 -> w64 z = z.
Proof. intro H. unfold w64. now apply Z.mod_small. Qed.

(* ------------------------------------------------------------------ *)
(* the refinement relation and its preservation by the list/index updates *)

Definition R (c : cache) (r : rstate) : Prop :=
  inv c /\ rcap r = cap c /\ rbad r = bad c /\ rl r = abs_list (ll c).

Lemma mk_id c : locked c = false -> mk c (size c) (ll c) (index c) (next c) = c.
Proof. destruct c; simpl; intros ->; reflexivity. Qed.

Lemma R_mk_id c r : R c r -> R (mk c (size c) (ll c) (index c) (next c)) r.
Proof. intros H. rewrite mk_id; auto. destruct H as [Hi _]. apply Hi. Qed.

Lemma rmk_id r : rmk r (rl r) = r.
Proof. destruct r; reflexivity. Qed.

Lemma idx_elem c k e : inv c -> idx_get (index c) k = Some e -> In e (ll c) /\ ekey e = k.
Proof. intros Hi H. now apply (inv_idx c Hi). Qed.

Lemma idx_rfind c k : inv c ->
  rfind (abs_list (ll c)) k = option_map eval (idx_get (index c) k).
Proof.
  intro Hi. rewrite rfind_abs.
  destruct (idx_get (index c) k) as [e|] eqn:E.
  - apply (inv_idx c Hi) in E as [Hin Hk]. subst k.
    rewrite find_key; auto. apply Hi.
  - destruct (find _ (ll c)) as [e|] eqn:F; auto.
    apply find_some in F as [Hin Hk].
    assert (idx_get (index c) k = Some e) by (apply (inv_idx c Hi); split; auto; lia).
    congruence.
Qed.

Lemma R_remove c r e :
  R c r -> In e (ll c) ->
  R (mk c (w64 (size c - vsz (eval e))) (l_remove (ll c) (eid e))
        (idx_del (index c) (ekey e)) (next c))
    (rmk r (rremove (rl r) (ekey e))).
Proof.
  intros [Hi [Hc [Hb Hl]]] Hin.
  pose proof (sum_sz_in _ _ (inv_pos c Hi) Hin) as Hle.
  pose proof (Forall_forall (fun e => 0 <= vsz (eval e)) (ll c)) as Hf.
  assert (0 <= vsz (eval e)) as Hpos by (apply Hf; auto; apply Hi).
  pose proof (inv_cap c Hi). pose proof (inv_bound c Hi). pose proof (inv_size c Hi) as Hsz.
  assert (w64 (size c - vsz (eval e)) = size c - vsz (eval e)) as Hw by (apply w64_small; lia).
  split; [|split; [|split]]; auto.
  - constructor; cbn [cap size ll index next bad locked mk]; auto.
    + rewrite Hw. lia.
    + rewrite Hw, sum_sz_remove; auto; [lia | apply Hi].
    + apply Forall_filter. apply Hi.
    + unfold keys. apply NoDup_map_filter. apply Hi.
    + apply NoDup_map_filter. apply Hi.
    + apply Forall_filter. apply Hi.
    + intros k' e'. destruct (Z.eq_dec k' (ekey e)) as [->|Hne].
      * rewrite idx_get_del_same. split; [discriminate|].
        intros [Hin' Hk]. apply l_remove_in in Hin' as [Hin' Hid]. exfalso. apply Hid.
        f_equal. eapply (NoDup_map_inj_in ekey); eauto. apply Hi.
      * rewrite idx_get_del_other by auto. rewrite (inv_idx c Hi). rewrite l_remove_in.
        split; [intros [H1 H2]; split; [split|]; auto | intros [[H1 _] H2]; auto].
        intro Hid. apply Hne. rewrite <- H2. f_equal.
        eapply (NoDup_map_inj_in eid); eauto. apply Hi.
    + apply idx_del_nodup. apply Hi.
  - cbn [rl rmk ll mk]. rewrite Hl. symmetry. apply abs_remove; auto; apply Hi.
Qed.

Lemma R_push c r k v :
  R c r -> ~ In k (keys (ll c)) -> 0 <= vsz v -> size c + vsz v <= cap c ->
  let e := {| eid := next c; ekey := k; eval := v |} in
  R (mk c (w64 (size c + vsz v)) (e :: ll c) (idx_put (index c) k e) (next c + 1))
    (rmk r ((k, v) :: rl r)).
Proof.
  intros [Hi [Hc [Hb Hl]]] Hnk Hpos Hfit e.
  pose proof (inv_cap c Hi). pose proof (inv_bound c Hi). pose proof (inv_size c Hi) as Hsz.
  assert (w64 (size c + vsz v) = size c + vsz v) as Hw by (apply w64_small; lia).
  pose proof (Forall_forall (fun e => eid e < next c) (ll c)) as Hf.
  split; [|split; [|split]]; auto.
  - constructor; cbn [cap size ll index next bad locked mk]; auto.
    + rewrite Hw. lia.
    + rewrite Hw. simpl. lia.
    + constructor; auto. apply Hi.
    + simpl. constructor; auto. apply Hi.
    + simpl. constructor; [|apply Hi]. intro Hin. apply in_map_iff in Hin as [x [Hx Hin]].
      assert (eid x < next c) by (apply Hf; auto; apply Hi). lia.
    + constructor; [simpl; lia|]. eapply Forall_impl; [|apply (inv_fresh c Hi)].
      simpl. intros; lia.
    + intros k' e'. destruct (Z.eq_dec k' k) as [->|Hne].
      * rewrite idx_get_put_same. split.
        -- intro H'. inversion H'; subst. split; [left|]; auto.
        -- intros [[H1|H1] H2]; [congruence|]. exfalso. apply Hnk. rewrite <- H2.
           now apply in_map.
      * rewrite idx_get_put_other by auto. rewrite (inv_idx c Hi). simpl.
        split; [intros [H1 H2]; auto | intros [[H1|H1] H2]; auto].
        subst e'. simpl in H2. congruence.
    + simpl. constructor; [apply idx_del_notin | apply idx_del_nodup; apply Hi].
  - cbn [rl rmk ll mk]. rewrite Hl. reflexivity.
Qed.

Lemma R_mtf c r e :
  R c r -> In e (ll c) ->
  R (mk c (size c) (e :: l_remove (ll c) (eid e)) (index c) (next c))
    (rmk r ((ekey e, eval e) :: rremove (rl r) (ekey e))).
Proof.
  intros [Hi [Hc [Hb Hl]]] Hin.
  pose proof (sum_sz_remove _ _ (inv_ids c Hi) Hin) as Hs.
  assert (forall x, In x (e :: l_remove (ll c) (eid e)) <-> In x (ll c)) as Hmem.
  { intro x. simpl. rewrite l_remove_in. split.
    - intros [->|[H1 _]]; auto.
    - intro Hx. destruct (Z.eq_dec (eid x) (eid e)) as [E|E]; auto.
      left. eapply (NoDup_map_inj_in eid); eauto. apply Hi. }
  split; [|split; [|split]]; auto.
  - constructor; cbn [cap size ll index next bad locked mk]; auto; try apply Hi.
    + simpl. fold (l_remove (ll c) (eid e)). rewrite Hs. rewrite (inv_size c Hi). lia.
    + apply Forall_forall. intros x Hx. apply Hmem in Hx.
      pose proof (Forall_forall (fun e => 0 <= vsz (eval e)) (ll c)) as Hf. apply Hf; auto. apply Hi.
    + simpl. constructor; [|apply NoDup_map_filter; apply Hi].
      intro H. apply in_map_iff in H as [x [Hx Hxin]]. apply l_remove_in in Hxin as [Hxin Hne].
      apply Hne. f_equal. eapply (NoDup_map_inj_in ekey); eauto. apply Hi.
    + simpl. constructor; [|apply NoDup_map_filter; apply Hi].
      intro H. apply in_map_iff in H as [x [Hx Hxin]]. apply l_remove_in in Hxin as [_ Hne]. lia.
    + apply Forall_forall. intros x Hx. apply Hmem in Hx.
      pose proof (Forall_forall (fun e => eid e < next c) (ll c)) as Hf. apply Hf; auto. apply Hi.
    + intros k' e'. rewrite (inv_idx c Hi). rewrite Hmem. tauto.
  - cbn [rl rmk ll mk]. rewrite Hl. simpl. f_equal. symmetry. apply abs_remove; auto; apply Hi.
Qed.

(* ------------------------------------------------------------------ *)
(* eviction *)

Lemma rsum_app a b : rsum (a ++ b) = rsum a + rsum b.
Proof. induction a; simpl; lia. Qed.

Lemma ref_evict_spec fuel cp b : forall l needed ev cbs l' res cbs',
  ref_evict fuel cp b l needed ev cbs = (l', res, cbs') ->
  exists n, (n <= length l)%nat /\ l' = firstn n l /\ cbs' = cbs ++ robs (rev (skipn n l)) /\
    forall ev', res = Some ev' ->
      needed <= cp - rsum l' /\ ev' = (ev || (n <? length l)%nat) /\
      ((n < length l)%nat -> cp - rsum (firstn (S n) l) < needed).
Proof.
  induction fuel as [|f IH]; intros l needed ev cbs l' res cbs' H.
  - exists (length l). cbn [ref_evict] in H.
    destruct (cp - rsum l <? needed) eqn:G; inversion H; subst;
      rewrite firstn_all, skipn_all; simpl; rewrite app_nil_r;
      (split; [lia|split; [auto|split; [auto|]]]); intros ev' He; inversion He; subst.
    split; [lia|split; [|lia]]. rewrite Nat.ltb_irrefl, orb_false_r. auto.
  - cbn [ref_evict] in H. destruct (cp - rsum l <? needed) eqn:G.
    2:{ exists (length l). inversion H; subst. rewrite firstn_all, skipn_all. simpl. rewrite app_nil_r.
        split; [lia|split; [auto|split; [auto|]]]. intros ev' He; inversion He; subst.
        split; [lia|split; [|lia]]. rewrite Nat.ltb_irrefl, orb_false_r. auto. }
    destruct (rev l) as [|[k v] t] eqn:E.
    { exists (length l). inversion H; subst. rewrite firstn_all, skipn_all. simpl. rewrite app_nil_r.
      split; [lia|split; [auto|split; [auto|]]]. intros ev' He; inversion He. }
    destruct (mem (vid v) b).
    { exists (length l). inversion H; subst. rewrite firstn_all, skipn_all. simpl. rewrite app_nil_r.
      split; [lia|split; [auto|split; [auto|]]]. intros ev' He; inversion He. }
    assert (l = rev t ++ [(k, v)]) as Hl by (rewrite <- (rev_involutive l), E; auto).
    rewrite Hl in H. rewrite removelast_last in H.
    apply IH in H as [n [Hn [Hl' [Hcb Hres]]]].
    exists n. subst l. rewrite app_length. cbn [length].
    split; [lia|]. split; [|split].
    + rewrite firstn_app. replace (n - length (rev t))%nat with 0%nat by lia.
      simpl. rewrite app_nil_r. auto.
    + rewrite skipn_app. replace (n - length (rev t))%nat with 0%nat by lia. simpl.
      rewrite rev_app_distr. simpl. rewrite Hcb, <- app_assoc. reflexivity.
    + intros ev' He. destruct (Hres ev' He) as [H1 [H2 H3]]. split; [auto|split].
      * rewrite H2. simpl. destruct ev; simpl; auto; symmetry; apply Nat.ltb_lt; lia.
      * intro Hlt. destruct (Nat.eq_dec n (length (rev t))) as [->|Hne].
        -- rewrite firstn_all2 by (rewrite app_length; simpl; lia). lia.
        -- rewrite firstn_app. replace (S n - length (rev t))%nat with 0%nat by lia.
           simpl. rewrite app_nil_r. apply H3. lia.
Qed.

Lemma evict_sim fuel : forall c r needed ev cbs c' res cbs',
  R c r -> evict fuel c needed ev cbs = (c', res, cbs') ->
  exists l', ref_evict fuel (rcap r) (rbad r) (rl r) needed ev cbs = (l', res, cbs') /\
             R c' (rmk r l').
Proof.
  induction fuel as [|f IH]; intros c r needed ev cbs c' res cbs' HR H.
  - pose proof HR as [Hi [Hc [Hb Hl]]].
    pose proof (inv_cap c Hi). pose proof (inv_bound c Hi).
    cbn [evict] in H. cbn [ref_evict].
    rewrite w64_small in H by lia.
    rewrite Hc, Hl, rsum_abs, <- (inv_size c Hi).
    destruct (cap c - size c <? needed); inversion H; subst;
      (eexists; split; [reflexivity|]); rewrite <- Hl, rmk_id; exact HR.
  - pose proof HR as [Hi [Hc [Hb Hl]]].
    pose proof (inv_cap c Hi). pose proof (inv_bound c Hi).
    cbn [evict] in H. cbn [ref_evict].
    rewrite w64_small in H by lia.
    rewrite Hc, Hl, rsum_abs, <- (inv_size c Hi).
    destruct (cap c - size c <? needed).
    2:{ inversion H; subst. eexists; split; [reflexivity|]. rewrite <- Hl, rmk_id. auto. }
    destruct (last_elem (ll c)) as [e|] eqn:L.
    2:{ apply last_elem_none in L. rewrite L. simpl. inversion H; subst.
        eexists; split; [reflexivity|]. replace [] with (rl r) by (rewrite Hl, L; auto).
        rewrite rmk_id. auto. }
    destruct (last_elem_some _ _ L) as [l0 Hl0].
    assert (abs_list (ll c) = abs_list l0 ++ [(ekey e, eval e)]) as Habs
      by (rewrite Hl0; unfold abs_list; rewrite map_app; auto).
    rewrite Habs, rev_unit.
    unfold size_of in H. rewrite Hb.
    destruct (mem (vid (eval e)) (bad c)).
    { inversion H; subst. eexists; split; [reflexivity|]. rewrite <- Habs, <- Hl, rmk_id. auto. }
    assert (In e (ll c)) as Hin by (rewrite Hl0; apply in_or_app; right; simpl; auto).
    pose proof (R_remove c r e HR Hin) as HR1.
    assert (rremove (rl r) (ekey e) = abs_list l0) as Hrm.
    { rewrite Hl, Habs. apply rremove_last. rewrite <- Habs, keys_abs. apply Hi. }
    rewrite Hrm in HR1.
    apply (IH _ _ _ _ _ _ _ _ HR1) in H as [l' [He HR']].
    cbn [rcap rbad rl rmk] in He. rewrite removelast_last.
    exists l'. split; [rewrite <- Hb, <- Hc; exact He | exact HR'].
Qed.

(* ------------------------------------------------------------------ *)
(* observations *)

Lemma pair_eqb_refl p : pair_eqb p p = true.
Proof. unfold pair_eqb. rewrite !Z.eqb_refl. auto. Qed.

Lemma pairs_eqb_refl l : pairs_eqb l l = true.
Proof. induction l; simpl; auto. rewrite pair_eqb_refl. auto. Qed.

Lemma oz_eqb_refl x : oz_eqb x x = true.
Proof. destruct x; simpl; auto. apply Z.eqb_refl. Qed.

Lemma incl_perm_half a b : (forall p, In p a -> In p b) ->
  forallb (fun p => existsb (pair_eqb p) b) a = true.
Proof.
  intro H. apply forallb_forall. intros p Hp. apply existsb_exists.
  exists p. split; auto. apply pair_eqb_refl.
Qed.

Lemma index_list_perm c : inv c ->
  pairs_perm (map (fun p => (fst p, vid (eval (snd p)))) (index c))
             (map (fun e => (ekey e, vid (eval e))) (ll c)) = true.
Proof.
  intro Hi. unfold pairs_perm.
  assert (forall k e, In (k, e) (index c) <-> In e (ll c) /\ ekey e = k) as Hbij.
  { intros k e. rewrite <- (inv_idx c Hi). split.
    - apply idx_in_get. apply Hi.
    - apply idx_get_in. }
  assert (length (index c) = length (ll c)) as Hlen.
  { rewrite <- (map_length fst (index c)), <- (map_length ekey (ll c)).
    apply Permutation_length. apply NoDup_Permutation; try apply Hi.
    intro k. split; intro H.
    - apply in_map_iff in H as [[k' e] [Hk Hin]]. simpl in Hk. subst k'.
      apply Hbij in Hin as [Hin Hk]. subst k. now apply in_map.
    - apply in_map_iff in H as [e [Hk Hin]].
      apply in_map_iff. exists (k, e). split; auto. apply Hbij. auto. }
  rewrite !map_length, Hlen, Nat.eqb_refl. simpl.
  rewrite !incl_perm_half; auto.
  - intros p Hp. apply in_map_iff in Hp as [e [Hp Hin]]. subst p.
    apply in_map_iff. exists (ekey e, e). split; auto. apply Hbij. auto.
  - intros p Hp. apply in_map_iff in Hp as [[k e] [Hp Hin]]. subst p. simpl.
    apply Hbij in Hin as [Hin Hk]. subst k. apply in_map_iff. exists e. auto.
Qed.

(* ------------------------------------------------------------------ *)
(* one operation *)

Lemma rfind_none_notin l k : rfind l k = None -> ~ In k (map fst l).
Proof.
  unfold rfind. intros H Hin. apply in_map_iff in Hin as [[k' v] [Hk Hin]]. simpl in Hk. subst.
  destruct (find (fun p => fst p =? k) l) eqn:F; [discriminate|].
  pose proof (find_none _ _ F _ Hin) as Hn. simpl in Hn. lia.
Qed.

Lemma rremove_notin l k : ~ In k (map fst (rremove l k)).
Proof.
  intro H. apply in_map_iff in H as [[k' v] [Hk Hin]]. simpl in Hk. subst.
  apply filter_In in Hin as [_ Hp]. simpl in Hp. lia.
Qed.

Lemma firstn_incl_fst {A B} n (l : list (A * B)) k : In k (map fst (firstn n l)) -> In k (map fst l).
Proof.
  intro H. apply in_map_iff in H as [p [Hk Hin]]. apply in_map_iff. exists p. split; auto.
  rewrite <- (firstn_skipn n l). apply in_or_app. auto.
Qed.

Lemma del_sim c r k c' x cbs :
  R c r -> del_locked c k = (c', x, cbs) ->
  exists r', ref_del r k = (r', x, cbs) /\ R c' r'.
Proof.
  intros HR H. pose proof HR as [Hi [Hc [Hb Hl]]].
  unfold del_locked in H. unfold ref_del.
  rewrite Hl, (idx_rfind c k Hi).
  destruct (idx_get (index c) k) as [e|] eqn:E; simpl.
  - destruct (idx_elem c k e Hi E) as [Hin Hk].
    unfold size_of in H. rewrite Hb.
    destruct (mem (vid (eval e)) (bad c)).
    + inversion H; subst. eexists; split; [reflexivity|]. now apply R_mk_id.
    + inversion H; subst. eexists; split; [reflexivity|]. rewrite <- Hl.
      now apply R_remove.
  - inversion H; subst. eexists; split; [reflexivity|]. now apply R_mk_id.
Qed.

Lemma inv_set_bad c b : inv c -> inv (set_bad c b).
Proof. intros []. constructor; auto. Qed.

Lemma step_sim c r o :
  R c r -> wf_op o ->
  R (fst (step c o)) (fst (ref_step r o)) /\
  obs_match o (snd (step c o)) (snd (ref_step r o)) = true.
Proof.
  intros HR Hwf. pose proof HR as [Hi [Hc [Hb Hl]]].
  destruct o as [k v|k|k|k| | | | | |id|id]; unfold step; cbn [blk_start ref_step].
  - (* Put *)
    unfold size_of. rewrite Hb, Hc.
    destruct (mem (vid v) (bad c)); [simpl; split; [auto | reflexivity]|].
    destruct (vsz v >? cap c) eqn:Hbig; [simpl; split; [auto | reflexivity]|].
    cbn [blk_locked]. rewrite Hl, (idx_rfind c k Hi).
    assert ((exists c1 l1,
      R c1 (rmk r l1) /\ ~ In k (map fst l1) /\
      ((match idx_get (index c) k with
        | None => Some c
        | Some e => match size_of (bad c) (eval e) with
                    | None => None
                    | Some es => Some (mk c (w64 (size c - es)) (l_remove (ll c) (eid e))
                                          (idx_del (index c) k) (next c))
                    end end = Some c1 /\
        match option_map eval (idx_get (index c) k) with
        | None => Some (abs_list (ll c))
        | Some ov => if mem (vid ov) (bad c) then None else Some (rremove (abs_list (ll c)) k)
        end = Some l1))) \/
      (match idx_get (index c) k with
        | None => Some c
        | Some e => match size_of (bad c) (eval e) with
                    | None => None
                    | Some es => Some (mk c (w64 (size c - es)) (l_remove (ll c) (eid e))
                                          (idx_del (index c) k) (next c))
                    end end = None /\
       match option_map eval (idx_get (index c) k) with
        | None => Some (abs_list (ll c))
        | Some ov => if mem (vid ov) (bad c) then None else Some (rremove (abs_list (ll c)) k)
        end = None)) as Hold.
    { destruct (idx_get (index c) k) as [e|] eqn:E; simpl.
      - destruct (idx_elem c k e Hi E) as [Hin Hk]. unfold size_of.
        destruct (mem (vid (eval e)) (bad c)).
        + right. auto.
        + left. eexists. eexists. split; [|split; [|split; reflexivity]].
          * subst k. rewrite <- Hl. now apply R_remove.
          * apply rremove_notin.
      - left. exists c. exists (abs_list (ll c)). split; [|split; [|split; reflexivity]].
        + rewrite <- Hl, rmk_id. auto.
        + apply rfind_none_notin. rewrite (idx_rfind c k Hi), E. auto. }
    destruct Hold as [[c1 [l1 [HR1 [Hnk [E1 E2]]]]] | [E1 E2]]; rewrite E1, E2.
    2:{ simpl. split; [now apply R_mk_id | reflexivity]. }
    pose proof HR1 as [Hi1 [Hc1 [Hb1 Hl1]]]. cbn [rcap rbad rl rmk] in Hc1, Hb1, Hl1.
    replace (length l1) with (length (ll c1)) by (rewrite Hl1; unfold abs_list; now rewrite map_length).
    destruct (evict (S (length (ll c1))) c1 (vsz v) false []) as [[c2 res] cbs] eqn:Ev.
    destruct (evict_sim _ _ _ _ _ _ _ _ _ HR1 Ev) as [l2 [Ev' HR2]].
    cbn [rcap rbad rl rmk] in Ev', HR2. rewrite Hc, Hb in Ev'. rewrite Ev'.
    destruct res as [ev|]; simpl.
    2:{ split; [now apply R_mk_id | apply pairs_eqb_refl]. }
    split; [|rewrite eqb_reflx, pairs_eqb_refl; reflexivity].
    destruct (ref_evict_spec _ _ _ _ _ _ _ _ _ _ Ev') as [n [Hn [Hl2 [_ Hres]]]].
    destruct (Hres ev eq_refl) as [Hfit _].
    pose proof HR2 as [Hi2 [Hc2 [Hb2 Hl2']]]. cbn [rcap rbad rl rmk] in Hc2, Hb2, Hl2'.
    simpl in Hwf.
    assert (R (mk c2 (w64 (size c2 + vsz v)) ({| eid := next c2; ekey := k; eval := v |} :: ll c2)
                  (idx_put (index c2) k {| eid := next c2; ekey := k; eval := v |}) (next c2 + 1))
              (rmk (rmk r l2) ((k, v) :: rl (rmk r l2)))) as HRp.
    { apply R_push; auto.
      - rewrite <- keys_abs, <- Hl2', Hl2. intro Hin. apply Hnk. eapply firstn_incl_fst; eauto.
      - lia.
      - rewrite (inv_size c2 Hi2), <- rsum_abs, <- Hl2', <- Hc2. lia. }
    exact HRp.
  - (* Get *)
    cbn [blk_locked]. rewrite Hl, (idx_rfind c k Hi).
    destruct (idx_get (index c) k) as [e|] eqn:E; simpl.
    + destruct (idx_elem c k e Hi E) as [Hin Hk]. rewrite (in_list_true _ _ Hin).
      split; [|rewrite Z.eqb_refl; reflexivity]. subst k. rewrite <- Hl. now apply R_mtf.
    + split; [now apply R_mk_id | reflexivity].
  - (* Delete *)
    cbn [blk_locked]. destruct (del_locked c k) as [[c' x] cbs] eqn:D.
    destruct (del_sim _ _ _ _ _ _ HR D) as [r' [D' HR']]. rewrite D'. simpl.
    split; [auto | apply pairs_eqb_refl].
  - (* LoadAndDelete *)
    cbn [blk_locked]. destruct (del_locked c k) as [[c' x] cbs] eqn:D.
    destruct (del_sim _ _ _ _ _ _ HR D) as [r' [D' HR']]. rewrite D'. simpl.
    split; [auto | rewrite oz_eqb_refl, pairs_eqb_refl; reflexivity].
  - (* Len *)
    cbn [blk_locked]. simpl. split; [now apply R_mk_id|].
    rewrite Hl. unfold abs_list. rewrite map_length. apply Z.eqb_refl.
  - (* Size *)
    cbn [blk_locked]. simpl. split; [now apply R_mk_id|].
    rewrite Hl, rsum_abs, (inv_size c Hi). apply Z.eqb_refl.
  - (* Range *)
    simpl. split; auto. rewrite Hl, robs_abs. now apply index_list_perm.
  - (* RangeFILO *)
    simpl. split; auto. rewrite Hl, robs_abs. apply pairs_eqb_refl.
  - (* RangeFIFO *)
    simpl. split; auto. rewrite Hl. unfold abs_list. rewrite <- map_rev.
    fold (abs_list (rev (ll c))). rewrite robs_abs. apply pairs_eqb_refl.
  - (* Poison *)
    simpl. split; [|reflexivity]. rewrite Hb.
    split; [now apply inv_set_bad | auto].
  - (* Heal *)
    simpl. split; [|reflexivity]. rewrite Hb.
    split; [now apply inv_set_bad | auto].
Qed.

(* ------------------------------------------------------------------ *)
(* all sequential histories *)

Lemma R_empty cp : 0 <= cp < two64 -> R (empty cp) (rempty cp).
Proof.
  intro H. split; [|split; [|split]]; auto.
  constructor; simpl; auto; try constructor; try lia.
  unfold idx_get. simpl. discriminate.
Qed.

Definition abs_state (c : cache) : rstate :=
  {| rcap := cap c; rl := abs_list (ll c); rbad := bad c |}.

Lemma R_abs c : inv c -> R c (abs_state c).
Proof. intro H. split; [|split; [|split]]; auto. Qed.

Lemma run_sim ops : forall c r,
  R c r -> Forall wf_op ops ->
  R (fst (run c ops)) (fst (ref_run r ops)) /\
  all_match ops (snd (run c ops)) (snd (ref_run r ops)) = true.
Proof.
  induction ops as [|o ops IH]; intros c r HR Hwf; simpl; auto.
  inversion Hwf as [|? ? Ho Hops]; subst.
  destruct (step_sim c r o HR Ho) as [HR1 Hm].
  destruct (step c o) as [c1 ob]. destruct (ref_step r o) as [r1 rob]. simpl in HR1, Hm.
  destruct (IH c1 r1 HR1 Hops) as [HR2 Hm2].
  destruct (run c1 ops) as [c2 obs]. destruct (ref_run r1 ops) as [r2 robs]. simpl in *.
  split; auto. rewrite Hm, Hm2. auto.
Qed.

Lemma invariant_all_histories cp ops :
  0 <= cp < two64 -> Forall wf_op ops -> inv (fst (run (empty cp) ops)).
Proof.
  intros Hcp Hwf. destruct (run_sim ops _ _ (R_empty cp Hcp) Hwf) as [[Hi _] _]. exact Hi.
Qed.

Lemma inv_preserved c ops : inv c -> Forall wf_op ops -> inv (fst (run c ops)).
Proof.
  intros Hi Hwf. destruct (run_sim ops _ _ (R_abs c Hi) Hwf) as [[Hi' _] _]. exact Hi'.
Qed.

Lemma holds_seq ops : forall c r,
  R c r -> Forall wf_op ops -> holds_from r (seq_trace ops (snd (run c ops))) = true.
Proof.
  induction ops as [|o ops IH]; intros c r HR Hwf; simpl; auto.
  inversion Hwf as [|? ? Ho Hops]; subst.
  destruct (step_sim c r o HR Ho) as [HR1 Hm].
  destruct (step c o) as [c1 ob]. simpl in HR1, Hm.
  specialize (IH c1 (fst (ref_step r o)) HR1 Hops).
  destruct (run c1 ops) as [c2 obs]. unfold seq_trace. simpl.
  destruct (ref_step r o) as [r1 rob]. simpl in *. rewrite Hm. exact IH.
Qed.

Lemma model_holds_seq cp ops :
  0 <= cp < two64 -> Forall wf_op ops ->
  holds cp (seq_trace ops (snd (run (empty cp) ops))) = true.
Proof. intros Hcp Hwf. apply holds_seq; auto. now apply R_empty. Qed.

(* Len / Size / Range report exactly the resident entries, within capacity *)
Lemma len_size_exact c :
  inv c ->
  snd (step c Len) = ONum (Z.of_nat (length (index c))) /\
  snd (step c Size) = ONum (sum_sz (ll c)) /\
  sum_sz (ll c) <= cap c /\
  length (index c) = length (ll c) /\
  (forall k e, In (k, e) (index c) <-> In e (ll c) /\ ekey e = k).
Proof.
  intro Hi.
  assert (forall k e, In (k, e) (index c) <-> In e (ll c) /\ ekey e = k) as Hbij.
  { intros k e. rewrite <- (inv_idx c Hi). split.
    - apply idx_in_get. apply Hi.
    - apply idx_get_in. }
  assert (length (index c) = length (ll c)) as Hlen.
  { pose proof (index_list_perm c Hi) as Hp. unfold pairs_perm in Hp.
    rewrite !map_length in Hp. apply andb_true_iff in Hp as [Hp _].
    apply andb_true_iff in Hp as [Hp _]. now apply Nat.eqb_eq in Hp. }
  unfold step. simpl. rewrite Hlen, <- (inv_size c Hi).
  pose proof (inv_bound c Hi). split; [auto|split; [auto|split; [lia|split; [auto|exact Hbij]]]].
Qed.

(* ------------------------------------------------------------------ *)
(* lookup returns the latest stored value unless evicted or deleted *)

Lemma pairs_eqb_eq a : forall b, pairs_eqb a b = true -> a = b.
Proof.
  induction a as [|[x1 x2] a IH]; intros [|[y1 y2] b] H; simpl in H; try discriminate; auto.
  unfold pair_eqb in H. simpl in H. f_equal; [f_equal; lia | apply IH; lia].
Qed.

Lemma oz_eqb_eq a b : oz_eqb a b = true -> a = b.
Proof. destruct a, b; simpl; intro H; try discriminate; auto. f_equal. lia. Qed.

Lemma obs_match_eq o a b :
  obs_match o a b = true -> (forall l, a <> OList l) -> a = b.
Proof.
  destruct a, b; simpl; intros H Hn; try discriminate.
  - apply andb_true_iff in H as [H1 H2]. apply eqb_prop in H1. apply pairs_eqb_eq in H2. congruence.
  - apply pairs_eqb_eq in H. congruence.
  - apply andb_true_iff in H as [H1 H2]. apply oz_eqb_eq in H1. apply pairs_eqb_eq in H2. congruence.
  - apply pairs_eqb_eq in H. congruence.
  - f_equal. lia.
  - exfalso. eapply Hn. reflexivity.
Qed.

Lemma obs_match_cbs o a b : obs_match o a b = true -> obs_cbs a = obs_cbs b.
Proof.
  destruct a, b; simpl; intro H; try discriminate; auto.
  - apply andb_true_iff in H as [_ H]. now apply pairs_eqb_eq.
  - now apply pairs_eqb_eq.
  - apply andb_true_iff in H as [_ H]. now apply pairs_eqb_eq.
  - now apply pairs_eqb_eq.
Qed.

Lemma rfind_rremove_other l k k' : k' <> k -> rfind (rremove l k') k = rfind l k.
Proof.
  intro Hne. unfold rfind, rremove. induction l as [|[k0 v0] l IH]; simpl; auto.
  destruct (k0 =? k') eqn:E1; simpl.
  - destruct (k0 =? k) eqn:E2; [lia|auto].
  - destruct (k0 =? k) eqn:E2; auto.
Qed.

Lemma rfind_app_l a b k v :
  rfind (a ++ b) k = Some v -> (forall x, ~ In (k, x) (robs b)) -> rfind a k = Some v.
Proof.
  unfold rfind. intros H Hn. induction a as [|[k0 v0] a IH]; simpl in *.
  - exfalso. destruct (find (fun p => fst p =? k) b) as [[k1 v1]|] eqn:F; [|discriminate].
    apply find_some in F as [Hin Hk]. simpl in Hk. apply (Hn (vid v1)).
    unfold robs. apply in_map_iff. exists (k1, v1). simpl. split; auto. f_equal. lia.
  - destruct (k0 =? k); auto.
Qed.

Lemma in_robs_rev l p : In p (robs (rev l)) <-> In p (robs l).
Proof. unfold robs. rewrite map_rev. symmetry. apply in_rev. Qed.

Lemma ref_evict_keeps fuel cp b l needed ev cbs l' res cbs' k v :
  ref_evict fuel cp b l needed ev cbs = (l', res, cbs') ->
  rfind l k = Some v -> (forall x, ~ In (k, x) cbs') -> rfind l' k = Some v.
Proof.
  intros H Hf Hn. apply ref_evict_spec in H as [n [_ [-> [-> _]]]].
  rewrite <- (firstn_skipn n l) in Hf. eapply rfind_app_l; eauto.
  intros x Hin. apply (Hn x). apply in_or_app. right. now apply in_robs_rev.
Qed.

Lemma ref_preserves_entry r o k v :
  rfind (rl r) k = Some v -> is_put_of k o = false ->
  (forall x, ~ In (k, x) (obs_cbs (snd (ref_step r o)))) ->
  rfind (rl (fst (ref_step r o))) k = Some v.
Proof.
  intros Hf Hp Hn.
  destruct o as [k' v'|k'|k'|k'| | | | | |id|id];
    [cbn [ref_step is_put_of] in * | simpl in * ..]; auto.
  - (* Put k' <> k *)
    assert (k' <> k) as Hne by lia.
    destruct (mem (vid v') (rbad r)); auto. destruct (vsz v' >? rcap r); auto.
    assert (forall l1, rfind l1 k = Some v ->
      (forall x, ~ In (k, x) (obs_cbs (snd
        (let '(l2, o, cbs) := ref_evict (S (length l1)) (rcap r) (rbad r) l1 (vsz v') false [] in
         match o with Some ev => (rmk r ((k', v') :: l2), OPut ev cbs) | None => (rmk r l2, OErr cbs) end)))) ->
      rfind (rl (fst
        (let '(l2, o, cbs) := ref_evict (S (length l1)) (rcap r) (rbad r) l1 (vsz v') false [] in
         match o with Some ev => (rmk r ((k', v') :: l2), OPut ev cbs) | None => (rmk r l2, OErr cbs) end))) k = Some v) as Hev.
    { intros l1 Hf1 Hn1.
      destruct (ref_evict (S (length l1)) (rcap r) (rbad r) l1 (vsz v') false []) as [[l2 o] cbs] eqn:Ev.
      assert (rfind l2 k = Some v) as Hf2.
      { eapply ref_evict_keeps; eauto. destruct o; exact Hn1. }
      destruct o; simpl; auto. unfold rfind. simpl. destruct (k' =? k) eqn:E; [lia|]. exact Hf2. }
    destruct (rfind (rl r) k') as [ov|].
    + destruct (mem (vid ov) (rbad r)); auto. apply Hev; auto.
      now rewrite rfind_rremove_other.
    + apply Hev; auto.
  - (* Get *)
    destruct (rfind (rl r) k') as [v'|] eqn:F; simpl; auto.
    unfold rfind. simpl. destruct (k' =? k) eqn:E.
    + assert (k' = k) by lia. subst. simpl. congruence.
    + fold (rfind (rremove (rl r) k') k). rewrite rfind_rremove_other by lia. auto.
  - (* Delete *)
    unfold ref_del in *. destruct (rfind (rl r) k') as [v'|] eqn:F; simpl in *; auto.
    destruct (mem (vid v') (rbad r)); simpl in *; auto.
    destruct (Z.eq_dec k' k) as [->|Hne].
    + exfalso. apply (Hn (vid v')). auto.
    + now rewrite rfind_rremove_other.
  - (* LoadAndDelete *)
    unfold ref_del in *. destruct (rfind (rl r) k') as [v'|] eqn:F; simpl in *; auto.
    destruct (mem (vid v') (rbad r)); simpl in *; auto.
    destruct (Z.eq_dec k' k) as [->|Hne].
    + exfalso. apply (Hn (vid v')). auto.
    + now rewrite rfind_rremove_other.
Qed.

Lemma ref_run_preserves_entry ops : forall r k v,
  rfind (rl r) k = Some v -> forallb (fun o => negb (is_put_of k o)) ops = true ->
  (forall ob x, In ob (snd (ref_run r ops)) -> ~ In (k, x) (obs_cbs ob)) ->
  rfind (rl (fst (ref_run r ops))) k = Some v.
Proof.
  induction ops as [|o ops IH]; intros r k v Hf Hp Hn; simpl in *; auto.
  apply andb_true_iff in Hp as [Hp1 Hp2].
  pose proof (ref_preserves_entry r o k v Hf) as H1.
  destruct (ref_step r o) as [r1 ob] eqn:E. simpl in H1.
  specialize (IH r1 k v).
  destruct (ref_run r1 ops) as [r2 obs] eqn:E2. simpl in *.
  apply IH; auto.
  apply H1; [destruct (is_put_of k o); auto; discriminate|]. intros x. apply Hn. auto.
Qed.

Lemma all_match_cbs ops : forall a b,
  all_match ops a b = true ->
  forall ob, In ob b -> exists ob', In ob' a /\ obs_cbs ob' = obs_cbs ob.
Proof.
  induction ops as [|o ops IH]; intros [|x a] [|y b] H ob Hin; simpl in *; try discriminate; try contradiction.
  apply andb_true_iff in H as [H1 H2]. destruct Hin as [->|Hin].
  - exists x. split; auto. eapply obs_match_cbs; eauto.
  - destruct (IH _ _ H2 _ Hin) as [ob' [Hi He]]. exists ob'. auto.
Qed.

Lemma get_after_put c k v ev cbs ops :
  inv c -> wf_op (Put k v) -> Forall wf_op ops ->
  snd (step c (Put k v)) = OPut ev cbs ->
  forallb (fun o => negb (is_put_of k o)) ops = true ->
  (forall ob x, In ob (snd (run (fst (step c (Put k v))) ops)) -> ~ In (k, x) (obs_cbs ob)) ->
  snd (step (fst (run (fst (step c (Put k v))) ops)) (Get k)) = OVal (Some (vid v)) [].
Proof.
  intros Hi Hwf Hwfs Hput Hnp Hncb.
  pose proof (R_abs c Hi) as HR.
  destruct (step_sim _ _ _ HR Hwf) as [HR1 Hm1]. rewrite Hput in Hm1.
  set (c1 := fst (step c (Put k v))) in *. set (r1 := fst (ref_step (abs_state c) (Put k v))) in *.
  assert (rfind (rl r1) k = Some v) as Hhead.
  { subst r1. revert Hm1. cbn [ref_step abs_state rbad rcap rl].
    destruct (mem (vid v) (bad c)); [simpl; discriminate|].
    destruct (vsz v >? cap c); [simpl; discriminate|].
    destruct (match rfind (abs_list (ll c)) k with
              | Some ov => if mem (vid ov) (bad c) then None else Some (rremove (abs_list (ll c)) k)
              | None => Some (abs_list (ll c)) end) as [l1|]; [|simpl; discriminate].
    destruct (ref_evict (S (length l1)) (cap c) (bad c) l1 (vsz v) false []) as [[l2 [ev'|]] cbs'];
      cbn [fst snd rl rmk]; [|simpl; discriminate].
    intros _. unfold rfind. simpl. now rewrite Z.eqb_refl. }
  destruct (run_sim ops _ _ HR1 Hwfs) as [HR2 Hm2].
  assert (rfind (rl (fst (ref_run r1 ops))) k = Some v) as Hf2.
  { apply ref_run_preserves_entry; auto. intros ob x Hin Hx.
    destruct (all_match_cbs _ _ _ Hm2 _ Hin) as [ob' [Hin' Hc]].
    apply (Hncb ob' x Hin'). now rewrite Hc. }
  destruct (step_sim _ _ (Get k) HR2 I) as [_ Hm3].
  simpl ref_step in Hm3. rewrite Hf2 in Hm3. simpl in Hm3.
  destruct (snd (step (fst (run c1 ops)) (Get k))) as [| |x cb| | |] eqn:E; simpl in Hm3; try discriminate.
  apply andb_true_iff in Hm3 as [H1 H2]. apply oz_eqb_eq in H1. apply pairs_eqb_eq in H2. congruence.
Qed.

(* ------------------------------------------------------------------ *)
(* eviction removes least-recently-used entries first, and only as needed *)

Lemma rremove_absent l k : rfind l k = None -> rremove l k = l.
Proof.
  intro H. apply filter_id. intros [k' v'] Hin. simpl.
  destruct (k' =? k) eqn:E; auto. exfalso.
  apply (rfind_none_notin _ _ H). assert (k' = k) by lia. subst.
  apply in_map_iff. exists (k, v'). auto.
Qed.

Lemma ref_put_lru r k v r' ev cbs :
  ref_step r (Put k v) = (r', OPut ev cbs) ->
  let l0 := rremove (rl r) k in
  exists n, (n <= length l0)%nat /\
    rl r' = (k, v) :: firstn n l0 /\
    cbs = robs (rev (skipn n l0)) /\
    ev = (n <? length l0)%nat /\
    rsum (rl r') <= rcap r /\
    ((n < length l0)%nat -> rcap r < rsum (firstn (S n) l0) + vsz v).
Proof.
  cbn [ref_step]. intro H.
  destruct (mem (vid v) (rbad r)); [discriminate|].
  destruct (vsz v >? rcap r); [discriminate|].
  assert (exists l1, l1 = rremove (rl r) k /\
    (match rfind (rl r) k with
     | Some ov => if mem (vid ov) (rbad r) then None else Some (rremove (rl r) k)
     | None => Some (rl r) end = Some l1 \/
     match rfind (rl r) k with
     | Some ov => if mem (vid ov) (rbad r) then None else Some (rremove (rl r) k)
     | None => Some (rl r) end = None)) as [l1 [Hl1 Hc]].
  { exists (rremove (rl r) k). split; auto.
    destruct (rfind (rl r) k) eqn:F.
    - destruct (mem _ _); auto.
    - left. now rewrite rremove_absent. }
  destruct Hc as [Hc|Hc]; rewrite Hc in H; [|discriminate].
  destruct (ref_evict (S (length l1)) (rcap r) (rbad r) l1 (vsz v) false []) as [[l2 [ev'|]] cbs'] eqn:Ev;
    inversion H; subst; clear H.
  destruct (ref_evict_spec _ _ _ _ _ _ _ _ _ _ Ev) as [n [Hn [Hl2 [Hcb Hres]]]].
  destruct (Hres ev eq_refl) as [Hfit [Hev Hmin]].
  exists n. cbn [rl rmk rsum fst snd] in *. simpl in Hcb. subst l2.
  simpl in Hev.
  split; [lia|split; [reflexivity|split; [auto|split; [auto|split]]]].
  - simpl. lia.
  - intro Hlt. specialize (Hmin Hlt). lia.
Qed.

Lemma put_lru c k v ev cbs :
  inv c -> wf_op (Put k v) ->
  snd (step c (Put k v)) = OPut ev cbs ->
  let l0 := rremove (abs_list (ll c)) k in
  exists n, (n <= length l0)%nat /\
    abs_list (ll (fst (step c (Put k v)))) = (k, v) :: firstn n l0 /\
    cbs = robs (rev (skipn n l0)) /\
    ev = (n <? length l0)%nat /\
    ((n < length l0)%nat -> cap c < rsum (firstn (S n) l0) + vsz v).
Proof.
  intros Hi Hwf Hput l0.
  destruct (step_sim _ _ _ (R_abs c Hi) Hwf) as [[_ [_ [_ Hl]]] Hm]. rewrite Hput in Hm.
  destruct (ref_step (abs_state c) (Put k v)) as [r' rob] eqn:E. cbn [fst snd] in Hl, Hm.
  apply obs_match_eq in Hm; [|discriminate]. subst rob.
  destruct (ref_put_lru _ _ _ _ _ _ E) as [n [H1 [H2 [H3 [H4 [_ H6]]]]]].
  exists n. simpl in *. rewrite <- Hl. auto.
Qed.

(* ------------------------------------------------------------------ *)
(* concurrent callers: every interleaving is a sequential order *)

Lemma evict_frame fuel : forall c needed ev cbs,
  cap (fst (fst (evict fuel c needed ev cbs))) = cap c /\
  bad (fst (fst (evict fuel c needed ev cbs))) = bad c.
Proof.
  induction fuel as [|f IH]; intros c needed ev cbs; cbn [evict].
  - destruct (w64 (cap c - size c) <? needed); simpl; auto.
  - destruct (w64 (cap c - size c) <? needed); simpl; auto.
    destruct (last_elem (ll c)); simpl; auto.
    destruct (size_of (bad c) (eval e)); simpl; auto.
    match goal with |- context [evict f ?c1 _ _ _] => destruct (IH c1 needed true (cbs ++ [(ekey e, vid (eval e))])) as [H1 H2] end.
    rewrite H1, H2. simpl. auto.
Qed.

Lemma del_locked_frame c k :
  cap (fst (fst (del_locked c k))) = cap c /\ bad (fst (fst (del_locked c k))) = bad c.
Proof.
  unfold del_locked. destruct (idx_get (index c) k); simpl; auto.
  destruct (size_of (bad c) (eval e)); simpl; auto.
Qed.

Lemma blk_locked_frame c o :
  cap (fst (blk_locked c o)) = cap c /\ bad (fst (blk_locked c o)) = bad c.
Proof.
  destruct o; cbn [blk_locked]; simpl; auto.
  - (* Put *)
    assert (forall c1, cap c1 = cap c -> bad c1 = bad c ->
      cap (fst (let '(c2, o, cbs) := evict (S (length (ll c1))) c1 (vsz v) false [] in
                match o with
                | Some ev => (mk c2 (w64 (size c2 + vsz v)) ({| eid := next c2; ekey := k; eval := v |} :: ll c2)
                                 (idx_put (index c2) k {| eid := next c2; ekey := k; eval := v |}) (next c2 + 1), OPut ev cbs)
                | None => (mk c2 (size c2) (ll c2) (index c2) (next c2), OErr cbs)
                end)) = cap c /\
      bad (fst (let '(c2, o, cbs) := evict (S (length (ll c1))) c1 (vsz v) false [] in
                match o with
                | Some ev => (mk c2 (w64 (size c2 + vsz v)) ({| eid := next c2; ekey := k; eval := v |} :: ll c2)
                                 (idx_put (index c2) k {| eid := next c2; ekey := k; eval := v |}) (next c2 + 1), OPut ev cbs)
                | None => (mk c2 (size c2) (ll c2) (index c2) (next c2), OErr cbs)
                end)) = bad c) as Hev.
    { intros c1 Hc Hb.
      pose proof (evict_frame (S (length (ll c1))) c1 (vsz v) false []) as [H1 H2].
      destruct (evict (S (length (ll c1))) c1 (vsz v) false []) as [[c2 o] cbs].
      simpl in H1, H2. destruct o; simpl; rewrite H1, H2; auto. }
    destruct (idx_get (index c) k) as [e|].
    + destruct (size_of (bad c) (eval e)); [apply Hev; auto | simpl; auto].
    + apply Hev; auto.
  - destruct (idx_get (index c) k); simpl; auto.
  - pose proof (del_locked_frame c k). destruct (del_locked c k) as [[c' x] cbs]. simpl in *. auto.
  - pose proof (del_locked_frame c k). destruct (del_locked c k) as [[c' x] cbs]. simpl in *. auto.
Qed.

Lemma blk_start_conc c o : conc_op o = true -> fst (blk_start c o) = c.
Proof.
  destruct o; simpl; intro H; try discriminate; auto.
  destruct (size_of (bad c) v); auto. destruct (z >? cap c); auto.
Qed.

Lemma blk_start_stable c c' o :
  conc_op o = true -> cap c = cap c' -> bad c = bad c' ->
  snd (blk_start c o) = snd (blk_start c' o).
Proof.
  destruct o; simpl; intros H Hc Hb; try discriminate; auto.
  rewrite Hc, Hb. destruct (size_of (bad c') v); auto. destruct (z >? cap c'); auto.
Qed.

Lemma step_frame c o : conc_op o = true ->
  cap (fst (step c o)) = cap c /\ bad (fst (step c o)) = bad c.
Proof.
  intro H. unfold step. pose proof (blk_start_conc c o H) as Hs.
  destruct (blk_start c o) as [c1 r]. simpl in Hs. subst c1.
  destruct r; simpl; auto. apply blk_locked_frame.
Qed.

Lemma run_frame ops : forall c, forallb conc_op ops = true ->
  cap (fst (run c ops)) = cap c /\ bad (fst (run c ops)) = bad c.
Proof.
  induction ops as [|o ops IH]; intros c H; simpl in *; auto.
  apply andb_true_iff in H as [H1 H2].
  destruct (step_frame c o H1) as [Hc Hb]. destruct (step c o) as [c1 ob]. simpl in *.
  destruct (IH c1 H2) as [Hc' Hb']. destruct (run c1 ops) as [c2 obs]. simpl in *.
  split; congruence.
Qed.

Lemma run_snoc ops : forall c o,
  fst (run c (ops ++ [o])) = fst (step (fst (run c ops)) o) /\
  snd (run c (ops ++ [o])) = snd (run c ops) ++ [snd (step (fst (run c ops)) o)].
Proof.
  induction ops as [|a ops IH]; intros c o; simpl.
  - destruct (step c o); simpl; auto.
  - destruct (step c a) as [c1 ob]. specialize (IH c1 o).
    destruct (run c1 (ops ++ [o])) as [c2 obs]. destruct (run c1 ops) as [c3 obs3].
    simpl in *. destruct IH as [H1 H2]. split; auto. rewrite H2. auto.
Qed.

Lemma set_nth_eq {A} i : forall (l : list A) t x,
  nth_error l i = Some t -> nth_error (set_nth i x l) i = Some x.
Proof.
  induction i as [|i IH]; intros [|a l] t x H; simpl in H; try discriminate; auto.
  apply (IH l t x H).
Qed.

Lemma set_nth_neq {A} i : forall (l : list A) t x j,
  nth_error l i = Some t -> j <> i -> nth_error (set_nth i x l) j = nth_error l j.
Proof.
  induction i as [|i IH]; intros [|a l] t x j H Hne; simpl in H; try discriminate.
  - destruct j; [congruence|auto].
  - destruct j; auto. apply (IH l t x j H). congruence.
Qed.

Lemma set_nth_length {A} i : forall (l : list A) t x,
  nth_error l i = Some t -> length (set_nth i x l) = length l.
Proof.
  induction i as [|i IH]; intros [|a l] t x H; simpl in H; try discriminate; auto.
  change (S (length (set_nth i x l)) = S (length l)). f_equal. apply (IH l t x H).
Qed.

Definition log_ops (ops : list op) (log : list (nat * obs)) : list op :=
  map (fun p => nth (fst p) ops Len) log.

Lemma log_ops_conc ops log : forallb conc_op ops = true -> forallb conc_op (log_ops ops log) = true.
Proof.
  intro H. apply forallb_forall. intros o Hin. apply in_map_iff in Hin as [[i r] [Ho _]]. simpl in Ho.
  destruct (nth_in_or_default i ops Len) as [Hi|Hd].
  - rewrite Ho in Hi. rewrite forallb_forall in H. apply H. exact Hi.
  - rewrite <- Ho, Hd. reflexivity.
Qed.

Lemma log_ops_wf ops log : Forall wf_op ops -> Forall wf_op (log_ops ops log).
Proof.
  intro H. apply Forall_forall. intros o Hin. apply in_map_iff in Hin as [[i r] [Ho _]]. simpl in Ho.
  destruct (nth_in_or_default i ops Len) as [Hi|Hd].
  - rewrite Ho in Hi. rewrite Forall_forall in H. apply H. exact Hi.
  - rewrite <- Ho, Hd. exact I.
Qed.

Record lin_inv (c0 : cache) (ops : list op) (c : cache) (ts : list thread)
  (log : list (nat * obs)) : Prop := {
  li_len : length ts = length ops;
  li_top : forall i t, nth_error ts i = Some t -> top t = nth i ops Len;
  li_state : c = fst (run c0 (log_ops ops log));
  li_obs : snd (run c0 (log_ops ops log)) = map snd log;
  li_nodup : NoDup (map fst log);
  li_st : forall i t, nth_error ts i = Some t ->
     match tst t with
     | S0 => ~ In i (map fst log)
     | S1 => ~ In i (map fst log) /\ snd (blk_start c0 (top t)) = None
     | SD r => In (i, r) log
     end;
  li_log : forall i r, In (i, r) log -> exists t, nth_error ts i = Some t /\ tst t = SD r
}.

Lemma NoDup_snoc {A} (l : list A) x : NoDup l -> ~ In x l -> NoDup (l ++ [x]).
Proof.
  induction l as [|a l IH]; simpl; intros H Hn.
  - constructor; [intros []|constructor].
  - inversion H as [|? ? Ha Hl]; subst. constructor.
    + intro Hin. apply in_app_or in Hin as [Hin|[Hin|[]]]; [auto|]. subst. apply Hn. auto.
    + apply IH; auto.
Qed.

(* a thread finishes with result ob as the sequential step at the current state *)
Lemma lin_finish c0 ops c ts log i t c' ob :
  forallb conc_op ops = true ->
  lin_inv c0 ops c ts log -> nth_error ts i = Some t ->
  ~ In i (map fst log) ->
  step c (top t) = (c', ob) ->
  lin_inv c0 ops c' (set_nth i {| top := top t; tst := SD ob |} ts) (log ++ [(i, ob)]).
Proof.
  intros Hconc L Hi Hni Hstep.
  pose proof (li_top _ _ _ _ _ L i t Hi) as Htop.
  assert (log_ops ops (log ++ [(i, ob)]) = log_ops ops log ++ [top t]) as Hlo
    by (unfold log_ops; rewrite map_app; simpl; now rewrite Htop).
  destruct (run_snoc (log_ops ops log) c0 (top t)) as [R1 R2].
  rewrite <- (li_state _ _ _ _ _ L), Hstep in R1, R2. simpl in R1, R2.
  constructor.
  - rewrite (set_nth_length i ts t); auto. apply L.
  - intros j tj Hj. destruct (Nat.eq_dec j i) as [->|Hne].
    + rewrite (set_nth_eq i ts t) in Hj by auto. inversion Hj; subst. simpl. auto.
    + rewrite (set_nth_neq i ts t) in Hj by auto. eapply li_top; eauto.
  - rewrite Hlo. auto.
  - rewrite Hlo, R2, (li_obs _ _ _ _ _ L), map_app. auto.
  - rewrite map_app. simpl. apply NoDup_snoc; auto. apply L.
  - intros j tj Hj. destruct (Nat.eq_dec j i) as [->|Hne].
    + rewrite (set_nth_eq i ts t) in Hj by auto. inversion Hj; subst. simpl.
      apply in_or_app. right. simpl. auto.
    + rewrite (set_nth_neq i ts t) in Hj by auto.
      pose proof (li_st _ _ _ _ _ L j tj Hj) as Hs.
      assert (~ In j (map fst log) -> ~ In j (map fst (log ++ [(i, ob)]))) as Hk.
      { intros Hn Hin. rewrite map_app in Hin. apply in_app_or in Hin as [Hin|Hin]; auto.
        simpl in Hin. destruct Hin; auto. }
      destruct (tst tj); [auto | destruct Hs; auto | apply in_or_app; auto].
  - intros j r Hin. apply in_app_or in Hin as [Hin|Hin].
    + destruct (li_log _ _ _ _ _ L j r Hin) as [tj [Hj Hd]].
      assert (j <> i) as Hne.
      { intro; subst. apply Hni. apply in_map_iff. exists (i, r). auto. }
      exists tj. rewrite (set_nth_neq i ts t) by auto. auto.
    + simpl in Hin. destruct Hin as [Hin|[]]. injection Hin as <- <-.
      eexists. rewrite (set_nth_eq i ts t) by auto. split; [reflexivity|]. auto.
Qed.

Lemma lin_step c0 ops c ts log i t :
  forallb conc_op ops = true ->
  lin_inv c0 ops c ts log -> nth_error ts i = Some t -> enabled c t = true ->
  exists log', lin_inv c0 ops (fst (tstep c t)) (set_nth i (snd (tstep c t)) ts) log'.
Proof.
  intros Hconc L Hi Hen.
  pose proof (li_top _ _ _ _ _ L i t Hi) as Htop.
  assert (conc_op (top t) = true) as Hct.
  { rewrite Htop. destruct (nth_in_or_default i ops Len) as [Hin|Hd].
    - rewrite forallb_forall in Hconc. apply Hconc. exact Hin.
    - rewrite Hd. auto. }
  destruct (run_frame (log_ops ops log) c0 (log_ops_conc _ _ Hconc)) as [Hcap Hbad].
  rewrite <- (li_state _ _ _ _ _ L) in Hcap, Hbad.
  pose proof (blk_start_conc c (top t) Hct) as Hs1.
  pose proof (blk_start_stable c c0 (top t) Hct Hcap Hbad) as Hs2.
  pose proof (li_st _ _ _ _ _ L i t Hi) as Hst.
  unfold tstep. destruct (tst t) as [| |r] eqn:Et.
  - (* start block *)
    destruct (blk_start c (top t)) as [c1 r] eqn:Eb. simpl in Hs1, Hs2. subst c1.
    destruct r as [ob|]; simpl.
    + exists (log ++ [(i, ob)]). apply (lin_finish c0 ops c ts log i t c ob); auto.
      unfold step. rewrite Eb. auto.
    + exists log. constructor; try apply L.
      * rewrite (set_nth_length i ts t); auto. apply L.
      * intros j tj Hj. destruct (Nat.eq_dec j i) as [->|Hne].
        -- rewrite (set_nth_eq i ts t) in Hj by auto. inversion Hj; subst. simpl. auto.
        -- rewrite (set_nth_neq i ts t) in Hj by auto. eapply li_top; eauto.
      * intros j tj Hj. destruct (Nat.eq_dec j i) as [->|Hne].
        -- rewrite (set_nth_eq i ts t) in Hj by auto. inversion Hj; subst. simpl. auto.
        -- rewrite (set_nth_neq i ts t) in Hj by auto. eapply li_st; eauto.
      * intros j r Hin. destruct (li_log _ _ _ _ _ L j r Hin) as [tj [Hj Hd]].
        assert (j <> i) as Hne by (intro; subst; rewrite Hi in Hj; inversion Hj; subst; congruence).
        exists tj. rewrite (set_nth_neq i ts t) by auto. auto.
  - (* locked block *)
    destruct Hst as [Hni Hnone].
    destruct (blk_locked c (top t)) as [c1 ob] eqn:Eb. simpl.
    exists (log ++ [(i, ob)]). apply (lin_finish c0 ops c ts log i t c1 ob); auto.
    unfold step. destruct (blk_start c (top t)) as [c2 r]. simpl in Hs1, Hs2. subst c2.
    rewrite Hs2, Hnone. auto.
  - unfold enabled in Hen. rewrite Et in Hen. discriminate.
Qed.

Lemma lin_run sch : forall c0 ops c ts log c' ts',
  forallb conc_op ops = true -> lin_inv c0 ops c ts log ->
  run_sched c ts sch = Some (c', ts') -> exists log', lin_inv c0 ops c' ts' log'.
Proof.
  induction sch as [|i sch IH]; intros c0 ops c ts log c' ts' Hconc L H; simpl in H.
  - inversion H; subst. eauto.
  - destruct (nth_error ts i) as [t|] eqn:Hi; [|discriminate].
    destruct (enabled c t) eqn:Hen; [|discriminate].
    destruct (lin_step c0 ops c ts log i t Hconc L Hi Hen) as [log1 L1].
    destruct (tstep c t) as [c1 t1]. simpl in L1. eapply IH; eauto.
Qed.

Lemma lin_init c ops : lin_inv c ops c (map spawn ops) [].
Proof.
  constructor; simpl; auto.
  - apply map_length.
  - intros i t H. rewrite nth_error_map in H. destruct (nth_error ops i) as [o|] eqn:E; [|discriminate].
    inversion H; subst. simpl. symmetry. now apply nth_error_nth.
  - constructor.
  - intros i t H. rewrite nth_error_map in H. destruct (nth_error ops i); [|discriminate].
    inversion H; subst. simpl. auto.
  - intros i r [].
Qed.

Lemma linearizable c ops sch c' ts' :
  forallb conc_op ops = true ->
  run_sched c (map spawn ops) sch = Some (c', ts') ->
  exists log : list (nat * obs),
    NoDup (map fst log) /\
    c' = fst (run c (map (fun p => nth (fst p) ops Len) log)) /\
    snd (run c (map (fun p => nth (fst p) ops Len) log)) = map snd log /\
    length ts' = length ops /\
    forall i t, nth_error ts' i = Some t ->
      top t = nth i ops Len /\ forall r, tst t = SD r <-> In (i, r) log.
Proof.
  intros Hconc H.
  destruct (lin_run sch c ops c (map spawn ops) [] c' ts' Hconc (lin_init c ops) H) as [log L].
  exists log. split; [apply L|split; [apply L|split; [apply L|split; [apply L|]]]].
  intros i t Hi. split; [eapply li_top; eauto|]. intro r. split.
  - intro Hd. pose proof (li_st _ _ _ _ _ L i t Hi) as Hs. rewrite Hd in Hs. auto.
  - intro Hin. destruct (li_log _ _ _ _ _ L i r Hin) as [t' [Hi' Hd]]. congruence.
Qed.

Lemma all_schedules_inv c ops sch c' ts' :
  inv c -> Forall wf_op ops -> forallb conc_op ops = true ->
  run_sched c (map spawn ops) sch = Some (c', ts') -> inv c'.
Proof.
  intros Hi Hwf Hconc H.
  destruct (linearizable c ops sch c' ts' Hconc H) as [log [_ [Hc _]]].
  rewrite Hc. apply inv_preserved; auto. now apply log_ops_wf.
Qed.

Lemma no_deadlock c ops sch c' ts' :
  inv c -> Forall wf_op ops -> forallb conc_op ops = true ->
  run_sched c (map spawn ops) sch = Some (c', ts') ->
  forall t, In t ts' -> (forall r, tst t <> SD r) -> enabled c' t = true.
Proof.
  intros Hi Hwf Hconc H t Hin Hnd.
  pose proof (all_schedules_inv _ _ _ _ _ Hi Hwf Hconc H) as Hi'.
  unfold enabled. destruct (tst t) eqn:E; auto.
  - rewrite (inv_lock c' Hi'). auto.
  - exfalso. eapply Hnd; eauto.
Qed.

(* ------------------------------------------------------------------ *)
(* the same facts stated for every state reachable from the empty cache *)

Lemma reach_len_size cp ops :
  0 <= cp < two64 -> Forall wf_op ops ->
  let c := fst (run (empty cp) ops) in
  snd (step c Len) = ONum (Z.of_nat (length (index c))) /\
  snd (step c Size) = ONum (sum_sz (ll c)) /\
  sum_sz (ll c) <= cap c /\
  length (index c) = length (ll c) /\
  (forall k e, In (k, e) (index c) <-> In e (ll c) /\ ekey e = k).
Proof. intros Hcp Hwf c. apply len_size_exact. now apply invariant_all_histories. Qed.

Lemma reach_get_after_put cp ops0 k v ev cbs ops :
  0 <= cp < two64 -> Forall wf_op ops0 -> wf_op (Put k v) -> Forall wf_op ops ->
  let c := fst (run (empty cp) ops0) in
  snd (step c (Put k v)) = OPut ev cbs ->
  forallb (fun o => negb (is_put_of k o)) ops = true ->
  (forall ob x, In ob (snd (run (fst (step c (Put k v))) ops)) -> ~ In (k, x) (obs_cbs ob)) ->
  snd (step (fst (run (fst (step c (Put k v))) ops)) (Get k)) = OVal (Some (vid v)) [].
Proof. intros Hcp Hwf0 Hwf Hwfs c. apply get_after_put; auto. now apply invariant_all_histories. Qed.

Lemma reach_put_lru cp ops0 k v ev cbs :
  0 <= cp < two64 -> Forall wf_op ops0 -> wf_op (Put k v) ->
  let c := fst (run (empty cp) ops0) in
  snd (step c (Put k v)) = OPut ev cbs ->
  let l0 := rremove (abs_list (ll c)) k in
  exists n, (n <= length l0)%nat /\
    abs_list (ll (fst (step c (Put k v)))) = (k, v) :: firstn n l0 /\
    cbs = robs (rev (skipn n l0)) /\
    ev = (n <? length l0)%nat /\
    ((n < length l0)%nat -> cap c < rsum (firstn (S n) l0) + vsz v).
Proof. intros Hcp Hwf0 Hwf c. apply put_lru; auto. now apply invariant_all_histories. Qed.

Lemma reach_all_schedules_inv cp ops0 ops sch c' ts' :
  0 <= cp < two64 -> Forall wf_op ops0 -> Forall wf_op ops -> forallb conc_op ops = true ->
  run_sched (fst (run (empty cp) ops0)) (map spawn ops) sch = Some (c', ts') ->
  inv c' /\ forall t, In t ts' -> (forall r, tst t <> SD r) -> enabled c' t = true.
Proof.
  intros Hcp Hwf0 Hwf Hconc H.
  pose proof (invariant_all_histories cp ops0 Hcp Hwf0) as Hi.
  split; [eapply all_schedules_inv; eauto | eapply no_deadlock; eauto].
Qed.
