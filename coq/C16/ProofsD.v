(* C16 — absence: a key that is not resident stays not resident until it is
   put again; hence a deleted entry is never returned again and a key that
   was never stored is never found.  Reference level first, then transported
   to the model through the simulation R. *)
From Coq Require Import ZArith List Bool Lia.
From Verif Require Import C16.Model C16.Spec C16.Proofs.
Import ListNotations.
Open Scope Z_scope.

Definition absent (l : list (Z * val)) (k : Z) : Prop := ~ In k (map fst l).

Lemma absent_rfind l k : absent l k -> rfind l k = None.
Proof.
  unfold absent, rfind. induction l as [|[k' v] l IH]; simpl; intro H; auto.
  destruct (k' =? k) eqn:E; [exfalso; apply H; left; lia|]. apply IH. tauto.
Qed.

Lemma rfind_some_in l k v : rfind l k = Some v -> In k (map fst l).
Proof.
  unfold rfind. induction l as [|[k' v'] l IH]; simpl; [discriminate|].
  destruct (k' =? k) eqn:E; [intros _; left; lia | intro H; right; auto].
Qed.

Lemma absent_rremove l k k' : absent l k -> absent (rremove l k') k.
Proof.
  unfold absent, rremove. intros H Hin. apply H.
  apply in_map_iff in Hin as [p [Hp Hin]]. apply filter_In in Hin as [Hin _].
  apply in_map_iff. eauto.
Qed.

Lemma absent_firstn l k n : absent l k -> absent (firstn n l) k.
Proof. unfold absent. intros H Hin. apply H. eapply firstn_incl_fst; eauto. Qed.

Lemma absent_cons l k k' v : k' <> k -> absent l k -> absent ((k', v) :: l) k.
Proof. unfold absent. simpl. intros Hne H [He|Hin]; auto. Qed.

Lemma ref_step_absent r o k :
  absent (rl r) k -> is_put_of k o = false -> absent (rl (fst (ref_step r o))) k.
Proof.
  intros Ha Hp.
  destruct o as [k' v'|k'|k'|k'| | | | | |id|id];
    [cbn [ref_step is_put_of] in * | simpl in * ..]; auto.
  - assert (k' <> k) as Hne by lia.
    destruct (mem (vid v') (rbad r)); auto. destruct (vsz v' >? rcap r); auto.
    assert (forall l1, absent l1 k ->
      absent (rl (fst
        (let '(l2, o, cbs) := ref_evict (S (length l1)) (rcap r) (rbad r) l1 (vsz v') false [] in
         match o with Some ev => (rmk r ((k', v') :: l2), OPut ev cbs) | None => (rmk r l2, OErr cbs) end))) k) as Hev.
    { intros l1 Ha1.
      destruct (ref_evict (S (length l1)) (rcap r) (rbad r) l1 (vsz v') false []) as [[l2 o] cbs] eqn:Ev.
      apply ref_evict_spec in Ev as [n [_ [-> _]]].
      destruct o; simpl; [apply absent_cons; auto|]; now apply absent_firstn. }
    destruct (rfind (rl r) k') as [ov|].
    + destruct (mem (vid ov) (rbad r)); auto. apply Hev. now apply absent_rremove.
    + apply Hev; auto.
  - destruct (rfind (rl r) k') as [v'|] eqn:F; simpl; auto.
    apply absent_cons; [|now apply absent_rremove].
    intros ->. apply Ha. eapply rfind_some_in; eauto.
  - unfold ref_del. destruct (rfind (rl r) k') as [v'|]; simpl; auto.
    destruct (mem (vid v') (rbad r)); simpl; auto. now apply absent_rremove.
  - unfold ref_del. destruct (rfind (rl r) k') as [v'|]; simpl; auto.
    destruct (mem (vid v') (rbad r)); simpl; auto. now apply absent_rremove.
Qed.

Lemma ref_run_absent ops : forall r k,
  absent (rl r) k -> forallb (fun o => negb (is_put_of k o)) ops = true ->
  absent (rl (fst (ref_run r ops))) k.
Proof.
  induction ops as [|o ops IH]; intros r k Ha Hp; simpl in *; auto.
  apply andb_true_iff in Hp as [Hp1 Hp2].
  pose proof (ref_step_absent r o k Ha) as H1.
  destruct (ref_step r o) as [r1 ob] eqn:E. simpl in H1.
  specialize (IH r1 k).
  destruct (ref_run r1 ops) as [r2 obs] eqn:E2. simpl in *.
  apply IH; auto. apply H1. destruct (is_put_of k o); auto; discriminate.
Qed.

(* a delete that handed (k, x) to the callback removed k *)
Definition is_delete_of (k : Z) (o : op) : bool :=
  match o with Delete k' | LoadAndDelete k' => k' =? k | _ => false end.

Lemma ref_delete_absent r o k :
  is_delete_of k o = true -> obs_cbs (snd (ref_step r o)) <> [] ->
  absent (rl (fst (ref_step r o))) k.
Proof.
  intros Hd Hc.
  destruct o as [k' v'|k'|k'|k'| | | | | |id|id]; simpl in Hd; try discriminate;
    assert (k' = k) by lia; subst k'; cbn [ref_step] in *; unfold ref_del in *;
    (destruct (rfind (rl r) k) as [v'|]; [|simpl in Hc; congruence]);
    (destruct (mem (vid v') (rbad r)); [simpl in Hc; congruence|]); simpl;
    apply rremove_notin.
Qed.

(* the model: Get of an absent key misses *)
Lemma get_absent c r k :
  R c r -> absent (rl r) k -> snd (step c (Get k)) = OVal None [].
Proof.
  intros HR Ha. destruct (step_sim _ _ (Get k) HR I) as [_ Hm].
  simpl ref_step in Hm. rewrite (absent_rfind _ _ Ha) in Hm. simpl in Hm.
  destruct (snd (step c (Get k))) as [| |x cb| | |] eqn:E; simpl in Hm; try discriminate.
  apply andb_true_iff in Hm as [H1 H2]. apply oz_eqb_eq in H1. apply pairs_eqb_eq in H2. congruence.
Qed.

Lemma deleted_stays_deleted c o k ops :
  inv c -> wf_op o -> Forall wf_op ops ->
  is_delete_of k o = true -> obs_cbs (snd (step c o)) <> [] ->
  forallb (fun o => negb (is_put_of k o)) ops = true ->
  snd (step (fst (run (fst (step c o)) ops)) (Get k)) = OVal None [].
Proof.
  intros Hi Hwf Hwfs Hd Hc Hnp.
  pose proof (R_abs c Hi) as HR.
  destruct (step_sim _ _ _ HR Hwf) as [HR1 Hm1].
  apply obs_match_cbs in Hm1. rewrite Hm1 in Hc.
  pose proof (ref_delete_absent _ _ _ Hd Hc) as Ha1.
  destruct (run_sim ops _ _ HR1 Hwfs) as [HR2 _].
  eapply get_absent; eauto. now apply ref_run_absent.
Qed.

Lemma never_put_never_found cp ops k :
  0 <= cp < two64 -> Forall wf_op ops ->
  forallb (fun o => negb (is_put_of k o)) ops = true ->
  snd (step (fst (run (empty cp) ops)) (Get k)) = OVal None [].
Proof.
  intros Hcp Hwfs Hnp.
  destruct (run_sim ops _ _ (R_empty cp Hcp) Hwfs) as [HR2 _].
  eapply get_absent; eauto. apply ref_run_absent; auto. intros [].
Qed.

Lemma reach_deleted_stays_deleted cp ops0 o k ops :
  0 <= cp < two64 -> Forall wf_op ops0 -> wf_op o -> Forall wf_op ops ->
  let c := fst (run (empty cp) ops0) in
  is_delete_of k o = true -> obs_cbs (snd (step c o)) <> [] ->
  forallb (fun o => negb (is_put_of k o)) ops = true ->
  snd (step (fst (run (fst (step c o)) ops)) (Get k)) = OVal None [].
Proof. intros Hcp Hwf0 Hwf Hwfs c. apply deleted_stays_deleted; auto. now apply invariant_all_histories. Qed.

(* ------------------------------------------------------------------ *)
(* eviction or deletion: whatever was handed to the callback is gone *)

Lemma in_robs_key l k x : In (k, x) (robs l) -> In k (map fst l).
Proof.
  unfold robs. intro H. apply in_map_iff in H as [p [Hp Hin]].
  inversion Hp; subst. apply in_map_iff. eauto.
Qed.

Lemma nodup_split_absent (l : list (Z * val)) n k :
  NoDup (map fst l) -> In k (map fst (skipn n l)) -> absent (firstn n l) k.
Proof.
  intros Hnd Hin Hin'. rewrite <- (firstn_skipn n l), map_app in Hnd.
  revert Hnd Hin Hin'. generalize (map fst (firstn n l)) (map fst (skipn n l)).
  intros a b. induction a as [|y a IH]; simpl; intros Hnd Hb Ha; [contradiction|].
  inversion Hnd as [|? ? Hn Hd]; subst. destruct Ha as [->|Ha]; auto.
  apply Hn. apply in_or_app. auto.
Qed.

Lemma ref_evict_reported_absent fuel cp b l needed ev l' res cbs' k x :
  NoDup (map fst l) -> ref_evict fuel cp b l needed ev [] = (l', res, cbs') ->
  In (k, x) cbs' -> absent l' k.
Proof.
  intros Hnd H Hin. apply ref_evict_spec in H as [n [_ [-> [-> _]]]]. simpl in Hin.
  apply in_robs_rev in Hin. apply in_robs_key in Hin. apply nodup_split_absent; [assumption|]. rewrite rev_involutive in Hin. exact Hin.
Qed.

(* an operation that is not a Put of k and hands (k, x) to the delete
   callback — an eviction or a deletion — leaves k not resident *)
Lemma ref_reported_absent r o k x :
  NoDup (map fst (rl r)) -> is_put_of k o = false ->
  In (k, x) (obs_cbs (snd (ref_step r o))) ->
  absent (rl (fst (ref_step r o))) k.
Proof.
  intros Hnd Hp Hin.
  destruct o as [k' v'|k'|k'|k'| | | | | |id|id];
    [cbn [ref_step is_put_of] in * | simpl in * ..]; try contradiction.
  - assert (k' <> k) as Hne by lia.
    destruct (mem (vid v') (rbad r)); [simpl in Hin; contradiction|].
    destruct (vsz v' >? rcap r); [simpl in Hin; contradiction|].
    assert (forall l1, NoDup (map fst l1) ->
      In (k, x) (obs_cbs (snd
        (let '(l2, o, cbs) := ref_evict (S (length l1)) (rcap r) (rbad r) l1 (vsz v') false [] in
         match o with Some ev => (rmk r ((k', v') :: l2), OPut ev cbs) | None => (rmk r l2, OErr cbs) end))) ->
      absent (rl (fst
        (let '(l2, o, cbs) := ref_evict (S (length l1)) (rcap r) (rbad r) l1 (vsz v') false [] in
         match o with Some ev => (rmk r ((k', v') :: l2), OPut ev cbs) | None => (rmk r l2, OErr cbs) end))) k) as Hev.
    { intros l1 Hnd1 Hin1.
      destruct (ref_evict (S (length l1)) (rcap r) (rbad r) l1 (vsz v') false []) as [[l2 o] cbs] eqn:Ev.
      assert (absent l2 k) as Ha2.
      { eapply ref_evict_reported_absent; eauto. destruct o; exact Hin1. }
      destruct o; simpl; auto. now apply absent_cons. }
    destruct (rfind (rl r) k') as [ov|].
    + destruct (mem (vid ov) (rbad r)); [simpl in Hin; contradiction|]. apply Hev; auto.
      unfold rremove. now apply NoDup_map_filter.
    + apply Hev; auto.
  - destruct (rfind (rl r) k') as [v'|]; simpl in Hin; contradiction.
  - unfold ref_del in *. destruct (rfind (rl r) k') as [v'|]; simpl in *; [|contradiction].
    destruct (mem (vid v') (rbad r)); simpl in *; [contradiction|].
    destruct Hin as [He|[]]. inversion He; subst. apply rremove_notin.
  - unfold ref_del in *. destruct (rfind (rl r) k') as [v'|]; simpl in *; [|contradiction].
    destruct (mem (vid v') (rbad r)); simpl in *; [contradiction|].
    destruct Hin as [He|[]]. inversion He; subst. apply rremove_notin.
Qed.

Lemma reported_then_missing c o k x ops :
  inv c -> wf_op o -> Forall wf_op ops ->
  is_put_of k o = false -> In (k, x) (obs_cbs (snd (step c o))) ->
  forallb (fun o => negb (is_put_of k o)) ops = true ->
  snd (step (fst (run (fst (step c o)) ops)) (Get k)) = OVal None [].
Proof.
  intros Hi Hwf Hwfs Hp Hc Hnp.
  pose proof (R_abs c Hi) as HR.
  destruct (step_sim _ _ _ HR Hwf) as [HR1 Hm1].
  apply obs_match_cbs in Hm1. rewrite Hm1 in Hc.
  assert (NoDup (map fst (rl (abs_state c)))) as Hnd.
  { simpl. rewrite keys_abs. apply (inv_keys _ Hi). }
  pose proof (ref_reported_absent _ _ _ _ Hnd Hp Hc) as Ha1.
  destruct (run_sim ops _ _ HR1 Hwfs) as [HR2 _].
  eapply get_absent; eauto. now apply ref_run_absent.
Qed.

Lemma reach_reported_then_missing cp ops0 o k x ops :
  0 <= cp < two64 -> Forall wf_op ops0 -> wf_op o -> Forall wf_op ops ->
  let c := fst (run (empty cp) ops0) in
  is_put_of k o = false -> In (k, x) (obs_cbs (snd (step c o))) ->
  forallb (fun o => negb (is_put_of k o)) ops = true ->
  snd (step (fst (run (fst (step c o)) ops)) (Get k)) = OVal None [].
Proof. intros Hcp Hwf0 Hwf Hwfs c. apply reported_then_missing; auto. now apply invariant_all_histories. Qed.

(* ------------------------------------------------------------------ *)
(* absence under concurrency, through the linearization *)

Lemma forallb_nth_log (p : op -> bool) ops (log : list (nat * obs)) :
  forallb p ops = true -> p Len = true ->
  forallb p (map (fun q => nth (fst q) ops Len) log) = true.
Proof.
  intros Hp Hl. apply forallb_forall. intros o Hin.
  apply in_map_iff in Hin as [q [<- _]].
  destruct (nth_in_or_default (fst q) ops Len) as [Hi|He]; [|rewrite He; exact Hl].
  rewrite forallb_forall in Hp. auto.
Qed.

(* under EVERY schedule of any group of concurrent callers none of which
   puts k, a key that is not resident stays not found *)
Lemma absent_all_schedules c k ops sch c' ts' :
  inv c -> ~ In k (keys (ll c)) -> Forall wf_op ops ->
  forallb conc_op ops = true ->
  forallb (fun o => negb (is_put_of k o)) ops = true ->
  run_sched c (map spawn ops) sch = Some (c', ts') ->
  snd (step c' (Get k)) = OVal None [] /\ ~ In k (keys (ll c')).
Proof.
  intros Hi Ha Hwf Hc Hnp Hrun.
  destruct (linearizable c ops sch c' ts' Hc Hrun) as [log [_ [-> _]]].
  set (lops := map (fun p => nth (fst p) ops Len) log).
  assert (Forall wf_op lops) as Hwfl.
  { apply Forall_forall. intros o Hin. apply in_map_iff in Hin as [q [<- _]].
    destruct (nth_in_or_default (fst q) ops Len) as [Hin|He]; [|rewrite He; exact I].
    rewrite Forall_forall in Hwf. auto. }
  assert (forallb (fun o => negb (is_put_of k o)) lops = true) as Hnpl
    by (apply forallb_nth_log; auto).
  destruct (run_sim lops _ _ (R_abs c Hi) Hwfl) as [HR2 _].
  assert (absent (rl (fst (ref_run (abs_state c) lops))) k) as Ha2.
  { apply ref_run_absent; auto. unfold absent. simpl. now rewrite keys_abs. }
  split; [eapply get_absent; eauto|].
  destruct HR2 as [_ [_ [_ Hl]]]. unfold absent in Ha2. rewrite Hl, keys_abs in Ha2. exact Ha2.
Qed.

Lemma reach_absent_all_schedules cp ops0 k ops sch c' ts' :
  0 <= cp < two64 -> Forall wf_op ops0 -> Forall wf_op ops ->
  forallb conc_op ops = true ->
  forallb (fun o => negb (is_put_of k o)) ops = true ->
  let c := fst (run (empty cp) ops0) in
  ~ In k (keys (ll c)) ->
  run_sched c (map spawn ops) sch = Some (c', ts') ->
  snd (step c' (Get k)) = OVal None [] /\ ~ In k (keys (ll c')).
Proof.
  intros Hcp Hwf0 Hwf Hc Hnp c Ha Hrun.
  eapply absent_all_schedules; eauto. now apply invariant_all_histories.
Qed.
