(* C16 — executable model of cache/lru.Cache (cache/lru/lru.go, sync_map.go,
   list.go) AS REPAIRED in /repo's working tree:
     * every access to the sync.Map index happens under c.mtx (F13 repair),
     * Put unlocks when evict fails (F12 repair),
     * a replaced / deleted entry leaves list AND index together (repairs of
       the two failure-path leaks: Put removed the old list element but kept
       its index entry when the following evict failed; LoadAndDelete dropped
       the index entry before the resident value's Size() could fail).
   State: recency list of elements (front = most recent), the key->element
   index, the running size counter (uint64, wraps written explicitly), the
   element-identity counter (pointer identity of *Element), the set of value
   ids whose Size() currently fails (the value-size oracle), the mutex.
   Every operation is split into the atomic blocks delimited by the points
   where the code acquires / releases the mutex:
     start block  (unlocked): Put's value.Size() and capacity test,
     locked block (c.mtx held from Lock to Unlock): index lookup, list and
                  size update incl. evictions' index deletes, index store.
   No proofs here. *)
From Coq Require Import ZArith List Bool.
Import ListNotations.
Open Scope Z_scope.

Definition two64 : Z := 18446744073709551616.
Definition w64 (z : Z) : Z := z mod two64.

Record val := { vid : Z; vsz : Z }.      (* vsz: what Size() returns when it does not fail *)
Record elem := { eid : Z; ekey : Z; eval : val }.   (* eid = identity of the *Element *)

Record cache := {
  cap : Z; size : Z;
  ll : list elem;               (* c.ll, front first *)
  index : list (Z * elem);      (* c.cache : key -> *Element *)
  next : Z;                     (* next fresh element identity *)
  bad : list Z;                 (* ids of values whose Size() fails now *)
  locked : bool                 (* c.mtx held *)
}.

Definition mem (x : Z) (l : list Z) : bool := existsb (Z.eqb x) l.
Definition size_of (b : list Z) (v : val) : option Z :=
  if mem (vid v) b then None else Some (vsz v).

Definition idx_get (m : list (Z * elem)) (k : Z) : option elem :=
  option_map snd (find (fun p => fst p =? k) m).
Definition idx_del (m : list (Z * elem)) (k : Z) : list (Z * elem) :=
  filter (fun p => negb (fst p =? k)) m.
Definition idx_put (m : list (Z * elem)) (k : Z) (e : elem) : list (Z * elem) :=
  (k, e) :: idx_del m k.

(* List.Remove(e): no-op when e is not an element of the list *)
Definition l_remove (l : list elem) (id : Z) : list elem :=
  filter (fun e => negb (eid e =? id)) l.
Definition in_list (l : list elem) (id : Z) : bool := existsb (fun e => eid e =? id) l.
Definition last_elem (l : list elem) : option elem :=
  match rev l with [] => None | e :: _ => Some e end.

(* the result of a locked block: the mutex has been released *)
Definition mk (c : cache) (sz : Z) (l : list elem) (ix : list (Z * elem)) (nx : Z) : cache :=
  {| cap := cap c; size := sz; ll := l; index := ix; next := nx; bad := bad c; locked := false |}.
Definition set_bad (c : cache) (b : list Z) : cache :=
  {| cap := cap c; size := size c; ll := ll c; index := index c; next := next c; bad := b; locked := locked c |}.

Inductive op :=
  | Put (k : Z) (v : val) | Get (k : Z) | Delete (k : Z) | LoadAndDelete (k : Z)
  | Len | Size | Range | RangeFILO | RangeFIFO
  | Poison (id : Z) | Heal (id : Z).     (* harness actions on the value-size oracle *)

(* observations; cbs = (key, value id) pairs handed to the onDelete callback
   during the operation, in call order *)
Inductive obs :=
  | OPut (evicted : bool) (cbs : list (Z * Z))
  | OErr (cbs : list (Z * Z))                    (* Put returned an error *)
  | OVal (v : option Z) (cbs : list (Z * Z))     (* Get / LoadAndDelete *)
  | ODone (cbs : list (Z * Z))                   (* Delete / Poison / Heal *)
  | ONum (n : Z)                                 (* Len / Size *)
  | OList (l : list (Z * Z)).                    (* Range*: (key, value id) *)

(* evict(needed), called with the mutex held.  Result None = error. *)
Fixpoint evict (fuel : nat) (c : cache) (needed : Z) (ev : bool) (cbs : list (Z * Z))
  : cache * option bool * list (Z * Z) :=
  if w64 (cap c - size c) <? needed then
    match fuel with
    | O => (c, None, cbs)
    | S f =>
      match last_elem (ll c) with
      | None => (c, None, cbs)                     (* "all elements got evicted" *)
      | Some e =>
        match size_of (bad c) (eval e) with
        | None => (c, None, cbs)                   (* couldn't determine size *)
        | Some es =>
          evict f (mk c (w64 (size c - es)) (l_remove (ll c) (eid e))
                      (idx_del (index c) (ekey e)) (next c))
                needed true (cbs ++ [(ekey e, vid (eval e))])
        end
      end
    end
  else (c, Some ev, cbs).

(* start block: runs without the mutex; Some = the operation is over *)
Definition blk_start (c : cache) (o : op) : cache * option obs :=
  match o with
  | Put k v =>
    match size_of (bad c) v with
    | None => (c, Some (OErr []))
    | Some vs => if vs >? cap c then (c, Some (OErr [])) else (c, None)
    end
  | Range => (c, Some (OList (map (fun p => (fst p, vid (eval (snd p)))) (index c))))
  | RangeFILO => (c, Some (OList (map (fun e => (ekey e, vid (eval e))) (ll c))))
  | RangeFIFO => (c, Some (OList (map (fun e => (ekey e, vid (eval e))) (rev (ll c)))))
  | Poison id => (set_bad c (if mem id (bad c) then bad c else id :: bad c), Some (ODone []))
  | Heal id => (set_bad c (filter (fun x => negb (x =? id)) (bad c)), Some (ODone []))
  | _ => (c, None)
  end.

Definition del_locked (c : cache) (k : Z) : cache * option Z * list (Z * Z) :=
  match idx_get (index c) k with
  | None => (mk c (size c) (ll c) (index c) (next c), None, [])
  | Some e =>
    match size_of (bad c) (eval e) with
    | None => (mk c (size c) (ll c) (index c) (next c), None, [])
    | Some vs =>
      (mk c (w64 (size c - vs)) (l_remove (ll c) (eid e)) (idx_del (index c) k) (next c),
       Some (vid (eval e)), [(k, vid (eval e))])
    end
  end.

(* locked block: Lock ... Unlock, atomic for every other operation that
   takes the mutex *)
Definition blk_locked (c : cache) (o : op) : cache * obs :=
  match o with
  | Put k v =>
    let vs := vsz v in
    let after_old :=
      match idx_get (index c) k with
      | None => Some c
      | Some e =>
        match size_of (bad c) (eval e) with
        | None => None
        | Some es => Some (mk c (w64 (size c - es)) (l_remove (ll c) (eid e))
                              (idx_del (index c) k) (next c))
        end
      end in
    match after_old with
    | None => (mk c (size c) (ll c) (index c) (next c), OErr [])
    | Some c1 =>
      match evict (S (length (ll c1))) c1 vs false [] with
      | (c2, None, cbs) => (mk c2 (size c2) (ll c2) (index c2) (next c2), OErr cbs)
      | (c2, Some ev, cbs) =>
        let e := {| eid := next c2; ekey := k; eval := v |} in
        (mk c2 (w64 (size c2 + vs)) (e :: ll c2) (idx_put (index c2) k e) (next c2 + 1),
         OPut ev cbs)
      end
    end
  | Get k =>
    match idx_get (index c) k with
    | None => (mk c (size c) (ll c) (index c) (next c), OVal None [])
    | Some e =>
      let l' := if in_list (ll c) (eid e) then e :: l_remove (ll c) (eid e) else ll c in
      (mk c (size c) l' (index c) (next c), OVal (Some (vid (eval e))) [])
    end
  | LoadAndDelete k => let '(c', r, cbs) := del_locked c k in (c', OVal r cbs)
  | Delete k => let '(c', _, cbs) := del_locked c k in (c', ODone cbs)
  | Len => (mk c (size c) (ll c) (index c) (next c), ONum (Z.of_nat (length (ll c))))
  | Size => (mk c (size c) (ll c) (index c) (next c), ONum (size c))
  | _ => (c, ODone [])
  end.

(* sequential execution of one operation: its blocks back to back *)
Definition step (c : cache) (o : op) : cache * obs :=
  let '(c1, r) := blk_start c o in
  match r with
  | Some ob => (c1, ob)
  | None => blk_locked c1 o
  end.

Fixpoint run (c : cache) (ops : list op) : cache * list obs :=
  match ops with
  | [] => (c, [])
  | o :: rest =>
    let '(c1, ob) := step c o in
    let '(c2, obs) := run c1 rest in (c2, ob :: obs)
  end.

Definition empty (capacity : Z) : cache :=
  {| cap := capacity; size := 0; ll := []; index := []; next := 1; bad := []; locked := false |}.

(* ------------------------------------------------------------------ *)
(* Concurrent callers: small-step interleaving semantics.               *)

Inductive stage := S0 | S1 | SD (r : obs).
Record thread := { top : op; tst : stage }.
Definition spawn (o : op) : thread := {| top := o; tst := S0 |}.

Definition enabled (c : cache) (t : thread) : bool :=
  match tst t with
  | S0 => true
  | S1 => negb (locked c)       (* blocked in Lock()/RLock() while the mutex is held *)
  | SD _ => false
  end.

Definition tstep (c : cache) (t : thread) : cache * thread :=
  match tst t with
  | S0 => let '(c1, r) := blk_start c (top t) in
          (c1, {| top := top t; tst := match r with Some ob => SD ob | None => S1 end |})
  | S1 => let '(c1, ob) := blk_locked c (top t) in (c1, {| top := top t; tst := SD ob |})
  | SD _ => (c, t)
  end.

Definition set_nth {A} (i : nat) (x : A) (l : list A) : list A :=
  firstn i l ++ x :: skipn (S i) l.

(* a schedule is a list of thread indices; None = it schedules a thread that
   does not exist, is finished, or is blocked *)
Fixpoint run_sched (c : cache) (ts : list thread) (sch : list nat) : option (cache * list thread) :=
  match sch with
  | [] => Some (c, ts)
  | i :: rest =>
    match nth_error ts i with
    | Some t =>
      if enabled c t then
        let '(c', t') := tstep c t in run_sched c' (set_nth i t' ts) rest
      else None
    | None => None
    end
  end.

(* operations that concurrent callers issue (Range* iterate without the
   mutex and Poison/Heal are harness actions: sequential only) *)
Definition conc_op (o : op) : bool :=
  match o with
  | Put _ _ | Get _ | Delete _ | LoadAndDelete _ | Len | Size => true
  | _ => false
  end.
