(* C16 — replay of implementation traces against the model (same history,
   same schedule) and the monitor. *)
From Coq Require Import ZArith List Bool.
From Verif Require Import C16.Model C16.Spec.
Import ListNotations.
Open Scope Z_scope.

(* compact constructors for the generated cases *)
Definition P (k i s : Z) : op := Put k {| vid := i; vsz := s |}.
Definition G := Get.
Definition D := Delete.
Definition LD := LoadAndDelete.

Definition case := (Z * list item)%type.     (* capacity, history *)

Definition results (ts : list thread) : option (list obs) :=
  fold_right (fun t acc => match tst t, acc with
                           | SD r, Some l => Some (r :: l)
                           | _, _ => None end) (Some []) ts.

(* first item at which model and implementation differ *)
Fixpoint first_mismatch (c : cache) (i : Z) (tr : list item) : option Z :=
  match tr with
  | [] => None
  | ISeq o ob :: rest =>
    let '(c', mob) := step c o in
    if obs_match o ob mob then first_mismatch c' (i + 1) rest else Some i
  | IConc ops sch rs :: rest =>
    match run_sched c (map spawn ops) sch with
    | Some (c', ts) =>
      match results ts with
      | Some mrs => if all_match ops rs mrs then first_mismatch c' (i + 1) rest else Some i
      | None => Some i
      end
    | None => Some i
    end
  end.

(* first item at which the monitor rejects the implementation trace *)
Fixpoint first_bad (cp : Z) (n : nat) (tr : list item) : option Z :=
  match n with
  | O => None
  | S n' =>
    if holds cp (firstn (length tr - n') tr) then first_bad cp n' tr
    else Some (Z.of_nat (length tr - n') - 1)
  end.

(* rows (case id, kind, step, tag): kind 1 = model/implementation mismatch,
   kind 2 = the monitor rejects the implementation trace.  The model carries
   no root-cause flag (no open defect), so tag is always 0. *)
Definition verdict (c : Z * case) : list (Z * Z * Z * Z) :=
  let '(id, (cp, tr)) := c in
  (match first_mismatch (empty cp) 0 tr with Some i => [(id, 1, i, 0)] | None => [] end) ++
  (if holds cp tr then [] else
     match first_bad cp (length tr) tr with Some i => [(id, 2, i, 0)] | None => [(id, 2, 0, 0)] end).

Definition run_cases (cs : list (Z * case)) : list (Z * Z * Z * Z) := flat_map verdict cs.
