(* C16 — replay of implementation traces against the model (same history,
   same schedule) and the monitor. *)
From Coq Require Import ZArith List Bool.
From Verif Require Import C16.Model C16.Spec.
Import ListNotations.
Open Scope Z_scope.

(* compact constructors for the generated cases *)
Definition P (k i s : Z) : op := Put k {| vid := i; vsz := s |}.
Definition G := Get.
Definition D := Delete.
Definition LD := LoadAndDelete.

Definition case := (Z * list item)%type.     (* capacity, history *)

Definition results (ts : list thread) : option (list obs) :=
  fold_right (fun t acc => match tst t, acc with
                           | SD r, Some l => Some (r :: l)
                           | _, _ => None end) (Some []) ts.

(* first item at which model and implementation differ *)
Fixpoint first_mismatch (c : cache) (i : Z) (tr : list item) : option Z :=
  match tr with
  | [] => None
  | ISeq o ob :: rest =>
    let '(c', mob) := step c o in
    if obs_match o ob mob then first_mismatch c' (i + 1) rest else Some i
  | IConc ops sch rs :: rest =>
    match run_sched c (map spawn ops) sch with
    | Some (c', ts) =>
      match results ts with
      | Some mrs => if all_match ops rs mrs then first_mismatch c' (i + 1) rest else Some i
      | None => Some i
      end
    | None => Some i
    end
  end.

(* first item at which the monitor rejects the implementation trace *)
Fixpoint first_bad (cp : Z) (n : nat) (tr : list item) : option Z :=
  match n with
  | O => None
  | S n' =>
    if holds cp (firstn (length tr - n') tr) then first_bad cp n' tr
    else Some (Z.of_nat (length tr - n') - 1)
  end.

(* rows (case id, kind, step, tag): kind 1 = model/implementation mismatch,
   kind 2 = the monitor rejects the implementation trace.  The model carries
   no root-cause flag (no open defect), so tag is always 0. *)
Definition verdict (c : Z * case) : list (Z * Z * Z * Z) :=
  let '(id, (cp, tr)) := c in
  (match first_mismatch (empty cp) 0 tr with Some i => [(id, 1, i, 0)] | None => [] end) ++
  (if holds cp tr then [] else
     match first_bad cp (length tr) tr with Some i => [(id, 2, i, 0)] | None => [(id, 2, 0, 0)] end).

Definition run_cases (cs : list (Z * case)) : list (Z * Z * Z * Z) := flat_map verdict cs.

(* ------------------------------------------------------------------ *)
(* Free-running outcomes.  The harness also runs small groups of concurrent
   calls on the real cache WITHOUT any scheduler control (real goroutines,
   no yield hook) many times and records every distinct outcome: the return
   value of each call and the state observed once all calls have returned
   (a fixed tail of sequential observers: Len, Size, Range, RangeFILO,
   RangeFIFO).  C16_linearizable says that every schedule of the atomic
   blocks has the outcome of some sequential order of the calls, so an
   observed outcome that NO sequential order produces is either a violation
   by the real code or an execution that is not a schedule of the modelled
   atomic blocks (a window the model does not have).  Both are reported.
   Nothing undetermined is compared: only the calls' results and the final
   state, against the set of ALL sequential orders; a Get inside the group
   moves its entry to the front in the sequential run as well.

   [nocb]: the cache was built without a delete callback, so the callback
   lists of the observations are empty and the model's are erased before the
   comparison. *)

Definition strip (nocb : bool) (ob : obs) : obs :=
  if nocb then
    match ob with
    | OPut e _ => OPut e [] | OErr _ => OErr [] | OVal v _ => OVal v [] | ODone _ => ODone []
    | x => x
    end
  else ob.

(* run calls (op, observed result) one after the other; None as soon as an
   observation differs: on the reference LRU and on the model *)
Fixpoint ref_seq_g (nocb : bool) (r : rstate) (l : list (op * obs)) : option rstate :=
  match l with
  | [] => Some r
  | (o, ob) :: rest =>
    let '(r1, rob) := ref_step r o in
    if obs_match o ob (strip nocb rob) then ref_seq_g nocb r1 rest else None
  end.
Fixpoint mod_seq_g (nocb : bool) (c : cache) (l : list (op * obs)) : option cache :=
  match l with
  | [] => Some c
  | (o, ob) :: rest =>
    let '(c1, mob) := step c o in
    if obs_match o ob (strip nocb mob) then mod_seq_g nocb c1 rest else None
  end.

(* some sequential order of [calls] explains their results and the tail *)
Definition explained {S : Type} (chk : S -> list (op * obs) -> option S) (s : S)
  (calls tl : list (op * obs)) : bool :=
  existsb (fun order =>
             match chk s order with
             | Some s1 => match chk s1 tl with Some _ => true | None => false end
             | None => false
             end) (perms calls).

(* capacity, nocb, sequential prefix with its observations, the concurrent
   calls, the tail observers, the distinct outcomes (results of the calls in
   call order, observations of the tail) *)
Definition fcase := (Z * bool * list (op * obs) * list op * list op * list (list obs * list obs))%type.

Definition outcome_wf (ops tl : list op) (oc : list obs * list obs) : bool :=
  Nat.eqb (length ops) (length (fst oc)) && Nat.eqb (length tl) (length (snd oc)).

(* index of the first outcome that [ok] rejects *)
Fixpoint first_out (ok : list obs * list obs -> bool) (j : Z) (l : list (list obs * list obs)) : option Z :=
  match l with
  | [] => None
  | oc :: rest => if ok oc then first_out ok (j + 1) rest else Some j
  end.

(* rows: kind 2 = no sequential order on the reference LRU (the property's
   monitor) explains outcome [step]; kind 1 = none on the model does.  Step
   -1: the sequential prefix already deviates. *)
Definition verdict_free (c : Z * fcase) : list (Z * Z * Z * Z) :=
  let '(id, (cp, nocb, pre, ops, tl, outs)) := c in
  (if forallb conc_op ops then [] else [(id, 2, -2, 0)]) ++
  (match mod_seq_g nocb (empty cp) pre with
   | None => [(id, 1, -1, 0)]
   | Some c0 =>
     match first_out (fun oc => outcome_wf ops tl oc &&
                                explained (mod_seq_g nocb) c0 (combine ops (fst oc)) (combine tl (snd oc)))
                     0 outs with
     | Some j => [(id, 1, j, 0)]
     | None => []
     end
   end) ++
  (match ref_seq_g nocb (rempty cp) pre with
   | None => [(id, 2, -1, 0)]
   | Some r0 =>
     match first_out (fun oc => outcome_wf ops tl oc &&
                                explained (ref_seq_g nocb) r0 (combine ops (fst oc)) (combine tl (snd oc)))
                     0 outs with
     | Some j => [(id, 2, j, 0)]
     | None => []
     end
   end).

Definition run_free (cs : list (Z * fcase)) : list (Z * Z * Z * Z) := flat_map verdict_free cs.

(* With the callbacks recorded, the reference part of the free-running check
   IS the property monitor [holds] on the trace
   prefix ; concurrent group ; tail   (the schedule field is not looked at). *)
Definition seq_items (l : list (op * obs)) : list item := map (fun p => ISeq (fst p) (snd p)) l.

Lemma ref_seq_g_false : forall l r, ref_seq_g false r l = ref_seq_check r l.
Proof.
  induction l as [|[o ob] l IH]; intros r; simpl; [reflexivity|].
  destruct (ref_step r o) as [r1 rob]. unfold strip.
  destruct (obs_match o ob rob); [apply IH|reflexivity].
Qed.

Lemma holds_from_seq_app : forall pre r rest,
  holds_from r (seq_items pre ++ rest) =
  match ref_seq_check r pre with Some r0 => holds_from r0 rest | None => false end.
Proof.
  induction pre as [|[o ob] pre IH]; intros r rest; simpl; [reflexivity|].
  destruct (ref_step r o) as [r1 rob].
  destruct (obs_match o ob rob); simpl; [apply IH|reflexivity].
Qed.

Lemma holds_from_seq : forall l r,
  holds_from r (seq_items l) = match ref_seq_check r l with Some _ => true | None => false end.
Proof.
  intros l r. rewrite <- (app_nil_r (seq_items l)), holds_from_seq_app.
  destruct (ref_seq_check r l); reflexivity.
Qed.

Lemma free_check_is_holds : forall cp pre ops sch rs tl,
  holds cp (seq_items pre ++ IConc ops sch rs :: seq_items tl) =
  match ref_seq_g false (rempty cp) pre with
  | Some r0 => Nat.eqb (length ops) (length rs) && forallb conc_op ops &&
               explained (ref_seq_g false) r0 (combine ops rs) tl
  | None => false
  end.
Proof.
  intros. unfold holds. rewrite holds_from_seq_app, ref_seq_g_false.
  destruct (ref_seq_check (rempty cp) pre) as [r0|]; [|reflexivity].
  cbn [holds_from]. f_equal. unfold explained.
  induction (perms (combine ops rs)) as [|order l IH]; simpl; [reflexivity|].
  rewrite IH, !ref_seq_g_false. f_equal.
  destruct (ref_seq_check r0 order) as [r1|]; [|reflexivity].
  rewrite ref_seq_g_false. apply holds_from_seq.
Qed.
