(* C16 — the property theorems, and nothing else.  They are about the model
   of cache/lru as repaired in /repo's working tree (F12, F13 and the two
   failure-path leaks fixed; see known_findings/C16.json), so there is no
   _refuted / _unless pair. *)
From Coq Require Import ZArith List Bool Lia.
From Verif Require Import C16.Model C16.Spec C16.Proofs C16.ProofsD C16.ProofsP.
Import ListNotations.
Open Scope Z_scope.

(* After ANY sequence of put/get/delete/len/size/range operations (values of
   any size, replacement with another size, oversize values, values whose
   Size() fails at any later time), the state is well formed: total size
   within capacity, size counter = sum over the resident entries, one list
   entry per key, index <-> list bijection, mutex released. *)
Theorem C16_invariant : forall cp ops,
  0 <= cp < two64 -> Forall wf_op ops -> inv (fst (run (empty cp) ops)).
Proof. exact invariant_all_histories. Qed.
Print Assumptions C16_invariant.

(* Refinement: every observation of every sequential history (results,
   callbacks, Len, Size, iteration orders) is the one the reference LRU (a
   bare recency-ordered association list) prescribes. *)
Theorem C16_refines_reference : forall cp ops,
  0 <= cp < two64 -> Forall wf_op ops ->
  holds cp (seq_trace ops (snd (run (empty cp) ops))) = true.
Proof. exact model_holds_seq. Qed.
Print Assumptions C16_refines_reference.

(* Len() and Size() are those of the resident (indexed) entries, within
   capacity, and the index holds exactly the list's elements under their keys. *)
Theorem C16_len_size_exact : forall cp ops,
  0 <= cp < two64 -> Forall wf_op ops ->
  let c := fst (run (empty cp) ops) in
  snd (step c Len) = ONum (Z.of_nat (length (index c))) /\
  snd (step c Size) = ONum (sum_sz (ll c)) /\
  sum_sz (ll c) <= cap c /\
  length (index c) = length (ll c) /\
  (forall k e, In (k, e) (index c) <-> In e (ll c) /\ ekey e = k).
Proof. exact reach_len_size. Qed.
Print Assumptions C16_len_size_exact.

(* A lookup returns the value most recently stored under the key unless that
   entry was evicted or deleted: after a successful Put k v in any reachable
   state and any further operations none of which is a Put of k and none of
   which hands k to the delete callback (the callback fires exactly on
   eviction and deletion), Get k returns v. *)
Theorem C16_get_after_put : forall cp ops0 k v ev cbs ops,
  0 <= cp < two64 -> Forall wf_op ops0 -> wf_op (Put k v) -> Forall wf_op ops ->
  let c := fst (run (empty cp) ops0) in
  snd (step c (Put k v)) = OPut ev cbs ->
  forallb (fun o => negb (is_put_of k o)) ops = true ->
  (forall ob x, In ob (snd (run (fst (step c (Put k v))) ops)) -> ~ In (k, x) (obs_cbs ob)) ->
  snd (step (fst (run (fst (step c (Put k v))) ops)) (Get k)) = OVal (Some (vid v)) [].
Proof. exact reach_get_after_put. Qed.
Print Assumptions C16_get_after_put.

(* Eviction removes least-recently-used entries first and only as many as
   needed: a successful Put k v leaves (k,v) in front of a PREFIX of the
   recency list (old entry of k taken out); the entries handed to the
   callback are exactly the dropped suffix, least recent first; `evicted` is
   reported iff something was dropped; keeping one more entry would exceed
   the capacity. *)
Theorem C16_lru_eviction_order : forall cp ops0 k v ev cbs,
  0 <= cp < two64 -> Forall wf_op ops0 -> wf_op (Put k v) ->
  let c := fst (run (empty cp) ops0) in
  snd (step c (Put k v)) = OPut ev cbs ->
  let l0 := rremove (abs_list (ll c)) k in
  exists n, (n <= length l0)%nat /\
    abs_list (ll (fst (step c (Put k v)))) = (k, v) :: firstn n l0 /\
    cbs = robs (rev (skipn n l0)) /\
    ev = (n <? length l0)%nat /\
    ((n < length l0)%nat -> cap c < rsum (firstn (S n) l0) + vsz v).
Proof. exact reach_put_lru. Qed.
Print Assumptions C16_lru_eviction_order.

(* The converse of C16_get_after_put — no resurrection.  In any reachable
   state, once a Delete / LoadAndDelete of k has handed the entry to the
   delete callback (i.e. it succeeded: a delete whose resident value's Size()
   fails reports nothing and keeps the entry), Get k misses after ANY further
   operations (evictions, failing Puts, Poison/Heal, deletes of other keys)
   as long as none of them is a Put of k. *)
Theorem C16_deleted_stays_deleted : forall cp ops0 o k ops,
  0 <= cp < two64 -> Forall wf_op ops0 -> wf_op o -> Forall wf_op ops ->
  let c := fst (run (empty cp) ops0) in
  is_delete_of k o = true -> obs_cbs (snd (step c o)) <> [] ->
  forallb (fun o => negb (is_put_of k o)) ops = true ->
  snd (step (fst (run (fst (step c o)) ops)) (Get k)) = OVal None [].
Proof. exact reach_deleted_stays_deleted. Qed.
Print Assumptions C16_deleted_stays_deleted.

(* The same for EVERY way an entry leaves the cache: whenever an operation
   that is not a Put of k hands (k, x) to the delete callback — an eviction by
   a Put of another key, successful or failing half-way, or a deletion — the
   key is not resident afterwards and Get k misses until k is put again.  So
   the callback never reports an entry that is still served, and
   C16_get_after_put's exception ("unless evicted or deleted") is exact. *)
Theorem C16_reported_entry_is_gone : forall cp ops0 o k x ops,
  0 <= cp < two64 -> Forall wf_op ops0 -> wf_op o -> Forall wf_op ops ->
  let c := fst (run (empty cp) ops0) in
  is_put_of k o = false -> In (k, x) (obs_cbs (snd (step c o))) ->
  forallb (fun o => negb (is_put_of k o)) ops = true ->
  snd (step (fst (run (fst (step c o)) ops)) (Get k)) = OVal None [].
Proof. exact reach_reported_then_missing. Qed.
Print Assumptions C16_reported_entry_is_gone.

Example C16_evicted_nonvacuous :
  let c := fst (run (empty 10) [Put 1 {| vid := 11; vsz := 6 |}; Put 2 {| vid := 12; vsz := 3 |}; Get 1]) in
  snd (step c (Put 3 {| vid := 13; vsz := 3 |})) = OPut true [(2, 12)] /\
  snd (run (fst (step c (Put 3 {| vid := 13; vsz := 3 |}))) [Delete 3; Get 2]) =
    [ODone [(3, 13)]; OVal None []].
Proof. vm_compute. split; reflexivity. Qed.

(* A key that was never stored is never found, whatever else happened. *)
Theorem C16_never_put_never_found : forall cp ops k,
  0 <= cp < two64 -> Forall wf_op ops ->
  forallb (fun o => negb (is_put_of k o)) ops = true ->
  snd (step (fst (run (empty cp) ops)) (Get k)) = OVal None [].
Proof. exact never_put_never_found. Qed.
Print Assumptions C16_never_put_never_found.

(* Non-vacuity of C16_deleted_stays_deleted: a successful delete followed by
   an eviction and a failing Put; and the guard matters: a delete that fails
   because the value's Size() fails keeps the entry findable. *)
Example C16_deleted_nonvacuous :
  let c := fst (run (empty 10) [Put 1 {| vid := 11; vsz := 6 |}; Put 2 {| vid := 12; vsz := 3 |}]) in
  obs_cbs (snd (step c (LoadAndDelete 1))) = [(1, 11)] /\
  snd (run (fst (step c (LoadAndDelete 1)))
           [Put 3 {| vid := 13; vsz := 8 |}; Put 4 {| vid := 14; vsz := 11 |}; Get 1]) =
    [OPut true [(2, 12)]; OErr []; OVal None []] /\
  snd (run c [Poison 11; Delete 1; Get 1]) = [ODone []; ODone []; OVal (Some 11) []].
Proof. vm_compute. repeat split; reflexivity. Qed.

(* The errors of Put are exactly the announced ones.  In any reachable state,
   a Put of a value whose Size() works and fits the capacity SUCCEEDS whenever
   no resident value's Size() currently fails — whatever failed before, however
   full the cache is (eviction always makes room).  So Put fails only for: a
   value whose size cannot be computed, an oversize value, or a resident value
   whose size cannot be computed; a failure never wedges the cache (once the
   failing values are healed or gone, Puts work again). *)
Theorem C16_put_fails_only_for_announced_reasons : forall cp ops0 k v,
  0 <= cp < two64 -> Forall wf_op ops0 ->
  let c := fst (run (empty cp) ops0) in
  mem (vid v) (bad c) = false ->
  (forall e, In e (ll c) -> mem (vid (eval e)) (bad c) = false) ->
  0 <= vsz v <= cap c ->
  exists ev cbs, snd (step c (Put k v)) = OPut ev cbs.
Proof. exact reach_put_succeeds. Qed.
Print Assumptions C16_put_fails_only_for_announced_reasons.

(* each of the three reasons does make Put fail (tightness), and after a
   failure caused by a poisoned resident value, healing it makes the same Put
   succeed *)
Example C16_put_errors_tight :
  let c := fst (run (empty 10) [Put 1 {| vid := 11; vsz := 6 |}; Put 2 {| vid := 12; vsz := 3 |}]) in
  snd (run c [Poison 20; Put 3 {| vid := 20; vsz := 1 |}]) = [ODone []; OErr []] /\
  snd (step c (Put 3 {| vid := 13; vsz := 11 |})) = OErr [] /\
  snd (run c [Poison 11; Put 3 {| vid := 13; vsz := 5 |}; Heal 11; Put 3 {| vid := 13; vsz := 5 |}]) =
    [ODone []; OErr []; ODone []; OPut true [(1, 11)]].
Proof. vm_compute. repeat split; reflexivity. Qed.

(* A hit refreshes recency: in any reachable state a Get that returns a value
   returns the resident value of k and moves exactly that entry to the front
   of the recency order, all others keeping their relative order — so by
   C16_lru_eviction_order (a kept PREFIX) it is the last entry the following
   evictions drop. *)
Theorem C16_hit_refreshes_recency : forall cp ops0 k x cbs,
  0 <= cp < two64 -> Forall wf_op ops0 ->
  let c := fst (run (empty cp) ops0) in
  snd (step c (Get k)) = OVal (Some x) cbs ->
  exists v, vid v = x /\ rfind (abs_list (ll c)) k = Some v /\
    abs_list (ll (fst (step c (Get k)))) = (k, v) :: rremove (abs_list (ll c)) k.
Proof. exact reach_get_hit_moves_to_front. Qed.
Print Assumptions C16_hit_refreshes_recency.

(* Concurrency: for ANY number of concurrent callers, from ANY state and under
   EVERY schedule of their atomic blocks, the outcome is that of running the
   completed calls one after the other in some order (the order of their
   locked blocks): same final state, and each finished caller got exactly the
   result of its call in that sequential run. *)
Theorem C16_linearizable : forall c ops sch c' ts',
  forallb conc_op ops = true ->
  run_sched c (map spawn ops) sch = Some (c', ts') ->
  exists log : list (nat * obs),
    NoDup (map fst log) /\
    c' = fst (run c (map (fun p => nth (fst p) ops Len) log)) /\
    snd (run c (map (fun p => nth (fst p) ops Len) log)) = map snd log /\
    length ts' = length ops /\
    forall i t, nth_error ts' i = Some t ->
      top t = nth i ops Len /\ forall r, tst t = SD r <-> In (i, r) log.
Proof. exact linearizable. Qed.
Print Assumptions C16_linearizable.

(* Hence every interleaving from every reachable state preserves the
   invariant, and no caller is ever blocked for good: whatever happened
   (including failed operations), every unfinished caller can take its next
   step — the cache stays usable. *)
Theorem C16_all_schedules_invariant : forall cp ops0 ops sch c' ts',
  0 <= cp < two64 -> Forall wf_op ops0 -> Forall wf_op ops -> forallb conc_op ops = true ->
  run_sched (fst (run (empty cp) ops0)) (map spawn ops) sch = Some (c', ts') ->
  inv c' /\ forall t, In t ts' -> (forall r, tst t <> SD r) -> enabled c' t = true.
Proof. exact reach_all_schedules_inv. Qed.
Print Assumptions C16_all_schedules_invariant.

(* ... and absence survives concurrency: from any reachable state in which k
   is not resident, under EVERY schedule of any number of concurrent callers
   none of which puts k (deletes, lookups, Puts of other keys with their
   evictions), k is still not resident and Get k misses — no interleaving of
   the atomic blocks resurrects a deleted or evicted entry. *)
Theorem C16_absent_under_every_schedule : forall cp ops0 k ops sch c' ts',
  0 <= cp < two64 -> Forall wf_op ops0 -> Forall wf_op ops ->
  forallb conc_op ops = true ->
  forallb (fun o => negb (is_put_of k o)) ops = true ->
  let c := fst (run (empty cp) ops0) in
  ~ In k (keys (ll c)) ->
  run_sched c (map spawn ops) sch = Some (c', ts') ->
  snd (step c' (Get k)) = OVal None [] /\ ~ In k (keys (ll c')).
Proof. exact reach_absent_all_schedules. Qed.
Print Assumptions C16_absent_under_every_schedule.

(* Non-vacuity: a history with an eviction, a replacement by a bigger value,
   a Put that fails because the resident LRU value's Size() fails (the F12
   situation) followed by operations that still work, and the F13 schedule
   (two Puts of one absent key, start blocks first) ending with ONE entry. *)
Definition ex_ops : list op :=
  [ Put 1 {| vid := 11; vsz := 6 |}; Put 2 {| vid := 12; vsz := 3 |}; Get 1;
    Put 3 {| vid := 13; vsz := 3 |};                 (* evicts key 2, the LRU *)
    Poison 11; Put 4 {| vid := 14; vsz := 5 |};      (* must evict 1: fails *)
    Len; Size; Heal 11; Put 3 {| vid := 15; vsz := 4 |}; Get 3; RangeFILO ].
Example C16_nonvacuous :
  Forall wf_op ex_ops /\
  snd (run (empty 10) ex_ops) =
    [ OPut false []; OPut false []; OVal (Some 11) []; OPut true [(2, 12)];
      ODone []; OErr []; ONum 2; ONum 9; ODone []; OPut false [];
      OVal (Some 15) []; OList [(3, 15); (1, 11)] ] /\
  (match run_sched (empty 10)
           (map spawn [Put 7 {| vid := 71; vsz := 3 |}; Put 7 {| vid := 72; vsz := 3 |}])
           [0; 1; 0; 1]%nat with
   | Some (c, _) => (length (ll c), length (index c), size c)
   | None => (0%nat, 0%nat, -1)
   end) = (1%nat, 1%nat, 3).
Proof.
  split; [|split; vm_compute; reflexivity].
  repeat constructor; unfold two64; simpl; lia.
Qed.
