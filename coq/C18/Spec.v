(* C18 — the SYNCHRONISATION DISCIPLINE and what it means for a trace to
   comply with it.  The property itself ("no data race") is Model.race.

   A discipline gives every shared variable
     - optionally an INITIALISER goroutine c: c may access the variable
       freely while it has not yet started any goroutine that (itself or
       through goroutines it starts) ever touches the variable — the
       init-before-publish phase (constructors, the part of Start() before
       the go statements); afterwards only c and the goroutines descending
       from c by go statements may access it, and only by the steady rule;
     - a STEADY rule:
         Guarded m         writes hold m's write side, reads hold m (either side);
         OwnerWrites o m   only goroutine o writes, holding m's write side;
                           o reads without a lock; every other goroutine
                           only reads, holding m (either side);
         Owned o           only goroutine o accesses it;
         AtomicOnly        only sync/atomic accesses;
         ReadOnly          nobody writes it (immutable after publication).  *)
From Coq Require Import List Arith Bool.
From Verif Require Import C18.AccessTypes C18.Model.
Import ListNotations.

(* lmode (LW = write side, LR = read side) is shared with the generated
   table's vocabulary, C18/AccessTypes.v *)

(* at position i goroutine g is inside a critical section of m that it
   opened itself and has not closed: the LEXICAL notion of "holds the lock"
   (what the translator's lockset analysis establishes for a site) *)
Definition in_cs (t : trace) (i : nat) (g : gid) (m : lock) (md : lmode) : Prop :=
  exists a, a < i
    /\ nth_error t a = Some (match md with LW => Acq g m | LR => RAcq g m end)
    /\ forall k, a < k < i -> nth_error t k <> Some (match md with LW => Rel g m | LR => RRel g m end).

Definition holds (t : trace) (i : nat) (g : gid) (m : lock) : Prop :=
  in_cs t i g m LW \/ in_cs t i g m LR.

Inductive rule :=
| Guarded (m : lock)
| OwnerWrites (o : gid) (m : lock)
| Owned (o : gid)
| AtomicOnly
| ReadOnly.

Record vrule := mkV { v_init : option gid; v_rule : rule }.

Definition discipline := var -> vrule.

(* g' descends from g by go statements of the trace (reflexive) *)
Inductive desc (t : trace) : gid -> gid -> Prop :=
| desc_refl : forall g, desc t g g
| desc_step : forall a b c, desc t a b -> In (Fork b c) t -> desc t a c.

(* goroutine g, or a goroutine descending from it, accesses x somewhere in t *)
Definition touches (t : trace) (x : var) (g : gid) : Prop :=
  exists j e, nth_error t j = Some e /\ access_of e = Some x /\ desc t g (gid_of e).

(* before position i, c has started no goroutine that touches x *)
Definition init_phase (t : trace) (i : nat) (c : gid) (x : var) : Prop :=
  forall f g', f < i -> nth_error t f = Some (Fork c g') -> ~ touches t x g'.

Definition published_to (t : trace) (init : option gid) (g : gid) : Prop :=
  match init with None => True | Some c => desc t c g end.

Definition steady_ok (t : trace) (i : nat) (e : event) (r : rule) : Prop :=
  let g := gid_of e in
  match r with
  | Guarded m => if is_write e then in_cs t i g m LW else holds t i g m
  | OwnerWrites o m =>
      if is_write e then g = o /\ in_cs t i g m LW
      else g = o \/ holds t i g m
  | Owned o => g = o
  | AtomicOnly => is_atomic e = true
  | ReadOnly => is_write e = false
  end.

(* the access e at position i to variable x obeys the discipline *)
Definition access_ok (t : trace) (D : discipline) (i : nat) (e : event) (x : var) : Prop :=
  (exists c, v_init (D x) = Some c /\ gid_of e = c /\ init_phase t i c x)
  \/ (published_to t (v_init (D x)) (gid_of e) /\ steady_ok t i e (v_rule (D x))).

(* every access to a variable of P obeys the discipline *)
Definition complies_on (P : var -> Prop) (t : trace) (D : discipline) : Prop :=
  forall i e x, nth_error t i = Some e -> access_of e = Some x -> P x -> access_ok t D i e x.

Definition complies (t : trace) (D : discipline) : Prop := complies_on (fun _ => True) t D.
