(* C18 — data-race freedom: the TRACE MODEL.

   An execution of the client is abstracted to the sequence (one global
   interleaving, as the race detector observes it) of its synchronisation
   events and of its accesses to shared variables.  Nothing else of the
   program is modelled: what is LOGIC in "no data races" is the
   synchronisation discipline, and that is what Spec.v / Proofs.v reason
   about over these traces; the tie to the source is C18/Tie.v.

   Orders follow the Go memory model as the race detector implements it:
     - program order within a goroutine;
     - a go statement is ordered before every event of the goroutine it starts;
     - Unlock of a mutex before every later Lock / RLock of the same mutex,
       RUnlock before every later Lock (NOT before a later RLock);
     - an atomic store before a later atomic load that observes it (the last
       store before the load in the interleaving);
     - the k-th send on a channel before the k-th receive from it;
     - WaitGroup.Done before a later return of Wait on the same WaitGroup
       (sound for the one-shot use at shutdown: Add before the goroutines
       start, one Wait).
   Happens-before is the transitive closure.  Definitions only (no proofs),
   executable where they can be.                                           *)
From Coq Require Import List Arith Bool Relations.
Import ListNotations.

Definition gid := nat.    (* goroutine *)
Definition lock := nat.   (* one sync.Mutex / sync.RWMutex INSTANCE *)
Definition var := nat.    (* one shared memory location (one field of one object) *)
Definition chan := nat.

Inductive event :=
| Fork (g g' : gid)           (* g executes `go f(...)`, creating g' *)
| Acq (g : gid) (m : lock)    (* m.Lock() returns *)
| Rel (g : gid) (m : lock)    (* m.Unlock() *)
| RAcq (g : gid) (m : lock)   (* m.RLock() returns *)
| RRel (g : gid) (m : lock)   (* m.RUnlock() *)
| Rd (g : gid) (x : var)      (* plain read *)
| Wr (g : gid) (x : var)      (* plain write *)
| ARd (g : gid) (x : var)     (* sync/atomic load *)
| AWr (g : gid) (x : var)     (* sync/atomic store / add / swap / compare-and-swap *)
| Snd (g : gid) (c : chan)    (* channel send completes *)
| Rcv (g : gid) (c : chan)    (* channel receive completes *)
| WgDone (g : gid) (w : chan) (* sync.WaitGroup w.Done() *)
| WgWait (g : gid) (w : chan). (* w.Wait() returns *)

Definition trace := list event.

(* the goroutine that executes the event *)
Definition gid_of (e : event) : gid :=
  match e with
  | Fork g _ | Acq g _ | Rel g _ | RAcq g _ | RRel g _
  | Rd g _ | Wr g _ | ARd g _ | AWr g _ | Snd g _ | Rcv g _ | WgDone g _ | WgWait g _ => g
  end.

(* the shared variable an event accesses *)
Definition access_of (e : event) : option var :=
  match e with
  | Rd _ x | Wr _ x | ARd _ x | AWr _ x => Some x
  | _ => None
  end.

Definition is_write (e : event) : bool :=
  match e with Wr _ _ | AWr _ _ => true | _ => false end.

Definition is_atomic (e : event) : bool :=
  match e with ARd _ _ | AWr _ _ => true | _ => false end.

(* ------------------------------------------------------------------ *)
(* Happens-before.                                                      *)

Definition count_snd (c : chan) (t : trace) : nat :=
  length (filter (fun e => match e with Snd _ c' => c =? c' | _ => false end) t).
Definition count_rcv (c : chan) (t : trace) : nat :=
  length (filter (fun e => match e with Rcv _ c' => c =? c' | _ => false end) t).

(* no atomic write to x at the positions strictly between i and j *)
Definition no_awr_between (t : trace) (x : var) (i j : nat) : bool :=
  forallb (fun k => match nth_error t k with Some (AWr _ x') => negb (x =? x') | _ => true end)
          (seq (S i) (j - S i)).

(* the direct synchronisation edges between two positions of a trace *)
Definition sync_edgeb (t : trace) (i j : nat) (a b : event) : bool :=
  match a, b with
  | Fork _ g', _ => g' =? gid_of b
  | Rel _ m, Acq _ m' => m =? m'
  | Rel _ m, RAcq _ m' => m =? m'
  | RRel _ m, Acq _ m' => m =? m'
  | AWr _ x, ARd _ x' => (x =? x') && no_awr_between t x i j
  | Snd _ c, Rcv _ c' => (c =? c') && (count_snd c (firstn i t) =? count_rcv c (firstn j t))
  | WgDone _ w, WgWait _ w' => w =? w'
  | _, _ => false
  end.

Definition edgeb (t : trace) (i j : nat) : bool :=
  (i <? j) &&
  match nth_error t i, nth_error t j with
  | Some a, Some b => (gid_of a =? gid_of b) || sync_edgeb t i j a b
  | _, _ => false
  end.

Definition edge (t : trace) (i j : nat) : Prop := edgeb t i j = true.

(* position i happens before position j *)
Definition hb (t : trace) : nat -> nat -> Prop := clos_trans nat (edge t).

(* ------------------------------------------------------------------ *)
(* Data races.                                                          *)

(* two events conflict: same variable, different goroutines, at least one
   writes, and they are not both atomic (the detector, like the memory
   model, reports an atomic access racing with a plain one) *)
Definition conflictb (a b : event) : bool :=
  match access_of a, access_of b with
  | Some x, Some y =>
      (x =? y) && negb (gid_of a =? gid_of b)
      && (is_write a || is_write b) && negb (is_atomic a && is_atomic b)
  | _, _ => false
  end.

Definition on_var (P : var -> Prop) (e : event) : Prop :=
  match access_of e with Some x => P x | None => False end.

(* a race on one of the variables P: two conflicting accesses that
   happens-before does not order.  Edges only go forward in the trace, so it
   is enough to look at i < j and ask for "not hb i j".                    *)
Definition race_on (P : var -> Prop) (t : trace) : Prop :=
  exists i j a b, i < j /\ nth_error t i = Some a /\ nth_error t j = Some b
                  /\ conflictb a b = true /\ on_var P a /\ ~ hb t i j.

Definition race (t : trace) : Prop := race_on (fun _ => True) t.

(* ------------------------------------------------------------------ *)
(* Well-formed traces: lock semantics and fresh goroutine ids.          *)

Record lstate := mkL {
  wr : lock -> option gid;     (* the goroutine holding the write side *)
  rds : lock -> list gid       (* the goroutines holding a read side (with multiplicity) *)
}.

Definition lstate0 : lstate := mkL (fun _ => None) (fun _ => []).

Fixpoint remove_one (g : gid) (l : list gid) : list gid :=
  match l with
  | [] => []
  | h :: r => if g =? h then r else h :: remove_one g r
  end.

Definition step (s : lstate) (e : event) : lstate :=
  match e with
  | Acq g m => mkL (fun m' => if m' =? m then Some g else wr s m') (rds s)
  | Rel g m => mkL (fun m' => if m' =? m then None else wr s m') (rds s)
  | RAcq g m => mkL (wr s) (fun m' => if m' =? m then g :: rds s m' else rds s m')
  | RRel g m => mkL (wr s) (fun m' => if m' =? m then remove_one g (rds s m') else rds s m')
  | _ => s
  end.

(* the lock state BEFORE the event at position i *)
Definition st (t : trace) (i : nat) : lstate := fold_left step (firstn i t) lstate0.

(* a lock operation may happen in a state: a mutex has at most one writer,
   readers exclude the writer, only the holder releases *)
Definition enabled (s : lstate) (e : event) : Prop :=
  match e with
  | Acq _ m => wr s m = None /\ rds s m = []
  | Rel g m => wr s m = Some g
  | RAcq _ m => wr s m = None
  | RRel g m => In g (rds s m)
  | _ => True
  end.

(* a go statement creates a goroutine that did not exist before: it has no
   earlier event and was not created by an earlier go statement *)
Definition fresh_forks (t : trace) : Prop :=
  forall f g g', nth_error t f = Some (Fork g g') ->
    g <> g' /\
    forall k e, k < f -> nth_error t k = Some e ->
      gid_of e <> g' /\ (forall a, e <> Fork a g').

Definition wf_trace (t : trace) : Prop :=
  (forall i e, nth_error t i = Some e -> enabled (st t i) e) /\ fresh_forks t.

(* executable version, for the examples and for replaying recorded traces *)
Definition enabledb (s : lstate) (e : event) : bool :=
  match e with
  | Acq _ m => match wr s m with None => true | Some _ => false end
               && match rds s m with [] => true | _ => false end
  | Rel g m => match wr s m with Some g' => g =? g' | None => false end
  | RAcq _ m => match wr s m with None => true | Some _ => false end
  | RRel g m => existsb (Nat.eqb g) (rds s m)
  | _ => true
  end.

Definition freshb (pre : list event) (e : event) : bool :=
  match e with
  | Fork g g' =>
      negb (g =? g') &&
      forallb (fun p => negb (gid_of p =? g')
                        && match p with Fork _ h => negb (h =? g') | _ => true end) pre
  | _ => true
  end.

Fixpoint wfb_from (s : lstate) (pre : list event) (t : trace) : bool :=
  match t with
  | [] => true
  | e :: t' => enabledb s e && freshb pre e && wfb_from (step s e) (pre ++ [e]) t'
  end.

Definition wfb (t : trace) : bool := wfb_from lstate0 [] t.

(* ------------------------------------------------------------------ *)
(* Executable race check on a finite trace: positions reachable from i,
   computed from left to right (edges only go forward).                 *)

Definition hb_row (t : trace) (i : nat) : list nat :=
  fold_left (fun acc j => if edgeb t i j || existsb (fun k => edgeb t k j) acc then j :: acc else acc)
            (seq (S i) (length t - S i)) [].

Definition hbb (t : trace) (i j : nat) : bool := existsb (Nat.eqb j) (hb_row t i).

Definition race_pairb (t : trace) (i j : nat) : bool :=
  match nth_error t i, nth_error t j with
  | Some a, Some b => (i <? j) && conflictb a b && negb (hbb t i j)
  | _, _ => false
  end.

(* the racing pairs of positions *)
Definition races (t : trace) : list (nat * nat) :=
  flat_map (fun i => map (fun j => (i, j)) (filter (race_pairb t i) (seq 0 (length t))))
           (seq 0 (length t)).

Definition raceb (t : trace) : bool := match races t with [] => false | _ => true end.
