(* C18 — composition of the trace theorem (Proofs.v) with the per-site check
   of the variable table (SiteCheck.v), for ANY table, any list of sites and
   any trace.  Tie.v instantiates it with the committed table (Vars.v) and
   the generated site list (Generated/AccessSites.v).

   The statement is conditional on what the translator is TRUSTED for,
   written out as the hypothesis [faithful]: every access of the execution to
   a variable of the table occurs at one of the listed sites of that
   variable, with at least the listed locks held (as critical sections of the
   lock instance belonging to the variable's object), in a goroutine whose
   root the site lists, and the sites the check treats as "before
   publication" are executed by the constructing goroutine before it starts
   any goroutine that touches the variable.                                 *)
From Coq Require Import String List Bool Arith.
From Verif Require Import C18.AccessTypes C18.Model C18.Spec C18.Proofs C18.SiteCheck.
Import ListNotations.

Section Composition.
  Variable tbl : list ventry.       (* the table of shared variables *)
  Variable sites : list asite.      (* the access sites the translator found *)
  Variable allow : list aentry.     (* exempt sites *)

  Variable t : trace.                           (* an execution *)
  Variable vname : var -> option string.        (* the table variable a memory location is an instance of *)
  Variable lock_inst : var -> string -> lock.   (* the instance of a named lock that belongs to the location's object *)
  Variable site_of : nat -> asite.              (* the source site of the access at a position *)
  Variable root_of : gid -> string.             (* the root function of a goroutine, in the translator's naming *)
  Variable creator : var -> gid.                (* the goroutine that constructs and publishes the location's object *)
  Variable owner : var -> gid.                  (* for owner-disciplined variables: the one goroutine of the owning kind for this object *)

  Definition entry_of (x : var) : option ventry :=
    match vname x with Some v => find_var tbl v | None => None end.

  Definition in_table (x : var) : Prop := exists e, entry_of x = Some e.

  Definition rule_of (x : var) (e : ventry) : rule :=
    match v_disc e with
    | DGuarded m => Guarded (lock_inst x m)
    | DOwnerWrites _ m => OwnerWrites (owner x) (lock_inst x m)
    | DOwned _ => Owned (owner x)
    | DAtomic => AtomicOnly
    | DImmutable => ReadOnly
    end.

  (* the discipline the table induces on the execution's memory locations *)
  Definition table_discipline : discipline := fun x =>
    match entry_of x with
    | Some e => mkV (Some (creator x)) (rule_of x e)
    | None => mkV None ReadOnly
    end.

  Definition owners_of (e : ventry) : list string :=
    match v_disc e with DOwnerWrites o _ => o | DOwned o => o | _ => [] end.

  (* TRUSTED (the translator): the execution's accesses are the listed sites *)
  Definition faithful : Prop :=
    forall i ev x e, nth_error t i = Some ev -> access_of ev = Some x -> entry_of x = Some e ->
      let a := site_of i in
      In a sites /\ a_var a = v_name e
      /\ (is_write ev = true -> site_writes e a = true)
      /\ (site_atomic a = true -> is_atomic ev = true)
      /\ (forall m md, In (m, md) (a_locks a ++ a_req a) -> in_cs t i (gid_of ev) (lock_inst x m) md)
      /\ (site_init e a = true -> gid_of ev = creator x /\ init_phase t i (creator x) x)
      /\ (site_init e a = false -> desc t (creator x) (gid_of ev) /\ In (root_of (gid_of ev)) (a_roots a)).

  (* ASSUMED: one goroutine of the owning kind per object *)
  Definition single_owner : Prop :=
    forall i ev x e, nth_error t i = Some ev -> access_of ev = Some x -> entry_of x = Some e ->
      In (root_of (gid_of ev)) (owners_of e) -> gid_of ev = owner x.

  (* ASSUMED: the exempt sites are harmless for the reason written next to them *)
  Definition allowed_sites_comply : Prop :=
    forall i ev x, nth_error t i = Some ev -> access_of ev = Some x -> in_table x ->
      allowed allow (site_of i) = true -> access_ok t table_discipline i ev x.

  (* PROVED in Tie.v by computation *)
  Definition sites_checked : Prop :=
    forall a e, In a sites -> find_var tbl (a_var a) = Some e -> allowed allow a = false -> site_ok e a = true.

  Lemma find_var_name : forall v e, find_var tbl v = Some e -> v_name e = v.
  Proof.
    intros v e H. unfold find_var in H. apply find_some in H. destruct H as [_ H].
    apply String.eqb_eq; assumption.
  Qed.

  Lemma held_w : forall a m, holds_w a m = true -> In (m, LW) (a_locks a ++ a_req a).
  Proof.
    intros a m H. unfold holds_w in H. apply existsb_exists in H. destruct H as [[m' md] [Hin H]].
    apply andb_true_iff in H. destruct H as [H1 H2]. simpl in *.
    apply String.eqb_eq in H1; subst m'. destruct md; [assumption | discriminate].
  Qed.

  Lemma held_any : forall a m, holds_any a m = true -> exists md, In (m, md) (a_locks a ++ a_req a).
  Proof.
    intros a m H. unfold holds_any in H. apply existsb_exists in H. destruct H as [[m' md] [Hin H]].
    simpl in *. apply String.eqb_eq in H; subst m'. exists md; assumption.
  Qed.

  Lemma roots_within_in : forall a owners r, roots_within a owners = true -> In r (a_roots a) -> In r owners.
  Proof.
    intros a owners r H Hin. unfold roots_within in H. rewrite forallb_forall in H.
    specialize (H r Hin). unfold mem_str in H. apply existsb_exists in H.
    destruct H as [r' [Hin' He]]. apply String.eqb_eq in He; subst; assumption.
  Qed.

  Lemma table_complies :
    faithful -> single_owner -> allowed_sites_comply -> sites_checked ->
    complies_on in_table t table_discipline.
  Proof.
    intros Hf Hso Hal Hck i ev x Hi Hx [e He].
    destruct (allowed allow (site_of i)) eqn:Eal.
    { apply Hal; [assumption | assumption | exists e; assumption | assumption]. }
    destruct (Hf i ev x e Hi Hx He) as [Hin [Hvar [Hwr [Hat [Hlk [Hini Hste]]]]]].
    assert (Hfind : find_var tbl (a_var (site_of i)) = Some e).
    { unfold entry_of in He. destruct (vname x) as [v|]; [|discriminate].
      rewrite Hvar, (find_var_name _ _ He). assumption. }
    pose proof (Hck _ _ Hin Hfind Eal) as Hok.
    unfold access_ok, table_discipline. rewrite He. simpl.
    destruct (site_init e (site_of i)) eqn:Einit.
    - left. exists (creator x). destruct (Hini eq_refl) as [Hg Hph]. auto.
    - right. destruct (Hste eq_refl) as [Hd Hroot]. split; [assumption|].
      unfold site_ok in Hok. rewrite Einit in Hok. simpl in Hok.
      assert (Howner : forall owners, owners_of e = owners -> roots_within (site_of i) owners = true ->
                                      gid_of ev = owner x).
      { intros owners Ho Hr. apply (Hso i ev x e Hi Hx He). rewrite Ho.
        eapply roots_within_in; eassumption. }
      unfold site_steady in Hok. unfold steady_ok, rule_of. unfold owners_of in Howner.
      destruct (v_disc e) as [m | owners m | owners | |].
      + (* guarded *)
        destruct (is_write ev) eqn:W.
        * rewrite (Hwr eq_refl) in Hok. apply Hlk. apply held_w; assumption.
        * assert (Hany : exists md, In (m, md) (a_locks (site_of i) ++ a_req (site_of i))).
          { destruct (site_writes e (site_of i)); [exists LW; apply held_w | apply held_any]; assumption. }
          destruct Hany as [md Hmd]. destruct md; [left | right]; apply Hlk; assumption.
      + (* owner writes *)
        destruct (is_write ev) eqn:W.
        * rewrite (Hwr eq_refl) in Hok. apply andb_true_iff in Hok. destruct Hok as [Hr Hw].
          split; [apply (Howner owners eq_refl Hr) | apply Hlk; apply held_w; assumption].
        * destruct (site_writes e (site_of i)).
          -- apply andb_true_iff in Hok. destruct Hok as [Hr _]. left. apply (Howner owners eq_refl Hr).
          -- apply orb_true_iff in Hok. destruct Hok as [Hr | Hh].
             ++ left. apply (Howner owners eq_refl Hr).
             ++ right. destruct (held_any _ _ Hh) as [md Hmd].
                destruct md; [left | right]; apply Hlk; assumption.
      + (* owned *) apply (Howner owners eq_refl Hok).
      + (* atomic *) apply Hat; assumption.
      + (* immutable *)
        destruct (is_write ev) eqn:W; [|reflexivity].
        rewrite (Hwr eq_refl) in Hok. discriminate.
  Qed.

  Theorem table_race_free :
    wf_trace t -> faithful -> single_owner -> allowed_sites_comply -> sites_checked ->
    ~ race_on in_table t.
  Proof.
    intros Hwf Hf Hso Hal Hck.
    apply (discipline_implies_race_free_on in_table t table_discipline Hwf).
    apply table_complies; assumption.
  Qed.
End Composition.
