(* C18 — the tie between the committed table of shared variables (C18/Vars.v)
   and the access sites GENERATED from the type-checked Go source on every
   check run (Generated/AccessSites.v, translator harness/cmd/genaccess).

   Every theorem is a computation over the generated tables, stated as "the
   list of offenders is empty", so that when the source changes the error
   message of the failing theorem names the offending sites.

   What a change of the source does:
   - a Lock()/Unlock() (or RLock) pair around an access of a guarded variable
     is dropped, a helper that relied on its callers' lock gets an unlocked
     caller, a write moves under the read side: Tie_sites_comply names the
     site with the locks that ARE held there;
   - an owner-disciplined variable is accessed from a function that another
     goroutine (or an exported entry point) reaches: Tie_sites_comply, the
     site's roots show who;
   - a sync/atomic access becomes a plain one: Tie_sites_comply (kind KRead /
     KWrite on an atomic-only variable);
   - a field that was only set in constructors is assigned elsewhere, or a
     new mutable field / package variable appears: Tie_complete names it (it
     has to be added to the table or to outside_table with a reason);
   - a table variable, a lock, an owner goroutine, an allow-list entry or an
     outside_table entry no longer exists: Tie_vars_have_sites,
     Tie_names_exist, Tie_lists_exact;
   - a local (map, slice, struct, pointer) that a goroutine literal captures
     or is handed keeps being written by the function after the go statement
     (a live map handed to a goroutine instead of a copy): Tie_sites_comply,
     variable "local:<function>:<name>";
   - a function that is exempt because nothing calls it (SetLastLogTime)
     gets a caller: the exemption lapses, Tie_sites_comply names the site with
     the caller's goroutine, Tie_caller_claims names the caller;
   - memory behind a pointer field that one goroutine writes in place (the
     caller-supplied end block stamp of a rescan, "S.f->g" variables) is read
     or written from another goroutine: Tie_sites_comply;
   - an initialisation function (ResetHeaderState) is called after a go
     statement: Tie_init_calls.                                            *)
From Coq Require Import String Ascii List Bool Arith ZArith.
From Verif Require Import C18.AccessTypes C18.Model C18.Spec C18.SiteCheck C18.Compose
                          C18.Vars C18.Replay Generated.AccessSites.
Import ListNotations.
Open Scope string_scope.

Definition open_allow : list aentry := map snd open_sites.
Definition exempt : list aentry := (allow ++ open_allow)%list.
(* for the composition theorem the conditional exemptions count as plain ones *)
Definition exempt_all : list aentry := (exempt ++ allow_unreached)%list.

(* (a) the site does not comply and is neither exempt nor an open finding *)
Definition site_offends (a : asite) : bool := site_fails a && negb (allowed open_allow a).

(* (b) table variables nobody accesses *)
Definition var_unused (e : ventry) : bool :=
  negb (existsb (fun a => String.eqb (a_var a) (v_name e)) access_sites).

(* (c) a variable the table has to account for: assigned outside
   constructors, accessed atomically, or emitted by the translator as
   interesting (container mutated through method calls) *)
Definition in_table (v : string) : bool := existsb (fun e => String.eqb (v_name e) v) vars.
(* "S.f->g" names what is reached THROUGH the pointer field f of S (a path
   variable); a type-wide outside_table entry "S." does not cover those *)
Fixpoint has_arrow (s : string) : bool :=
  match s with
  | String "-" (String ">" _) => true
  | String _ r => has_arrow r
  | EmptyString => false
  end.
Definition is_outside (v : string) : bool :=
  existsb (fun o => let p := fst o in
                    String.eqb p v
                    || (String.prefix p v
                        && (String.eqb (substring (Nat.pred (String.length p)) 1 p) "."
                            || String.eqb (substring (Nat.pred (String.length p)) 1 p) ">")
                        && (negb (has_arrow v) || has_arrow p))) outside_table.
(* shared locals are covered by the default discipline (SiteCheck.lookup_var) *)
Definition accounted (v : string) : bool := in_table v || is_outside v || String.prefix "local:" v.

Definition needs_account (f : fsum) : bool := Nat.ltb 0 (f_writes f) || Nat.ltb 0 (f_atomics f).

Definition unaccounted : list string :=
  (map f_var (filter (fun f => needs_account f && negb (accounted (f_var f))) field_summary)
   ++ nodup string_dec (map a_var (filter (fun a => negb (accounted (a_var a))) access_sites)))%list.

(* the lists are exact: every exempt site exists and does fail the check
   (nothing is exempt "just in case"), every outside_table entry names
   something, no variable is listed twice or both inside and outside *)
Definition stale_exempt : list aentry :=
  filter (fun x => negb (existsb (fun a => allowed [x] a
                                           && match lookup_var vars (a_var a) with
                                              | Some e => negb (site_ok e a) | None => false end)
                                 access_sites)) exempt_all.
Definition stale_outside : list string :=
  map fst (filter (fun o => negb (existsb (fun f =>
     String.eqb (fst o) (f_var f)
     || (String.prefix (fst o) (f_var f)
         && (String.eqb (substring (Nat.pred (String.length (fst o))) 1 (fst o)) "."
             || String.eqb (substring (Nat.pred (String.length (fst o))) 1 (fst o)) ">"))) field_summary))
     outside_table).
Definition doubly_listed : list string :=
  (map v_name (filter (fun e => Nat.ltb 1 (length (filter (fun e' => String.eqb (v_name e') (v_name e)) vars))
                                || is_outside (v_name e)) vars)).

(* locks are mutex fields of the source, owners are goroutines of the source *)
Definition locks_of (e : ventry) : list string :=
  match v_disc e with DGuarded m => [m] | DOwnerWrites _ m => [m] | _ => [] end.
Definition owners_named (e : ventry) : list string :=
  match v_disc e with DOwnerWrites o _ => o | DOwned o => o | _ => [] end.
Definition is_sync_field (m : string) : bool :=
  existsb (fun f => String.eqb (f_var f) m && String.eqb (f_class f) "sync") field_summary.
Definition unknown_names : list string :=
  (filter (fun m => negb (is_sync_field m)) (flat_map locks_of vars)
   ++ filter (fun r => negb (mem_str r goroutine_roots)) (flat_map owners_named vars)
   ++ filter (fun f => negb (mem_str f init_fns)) (flat_map v_init_fns vars))%list.

(* initialisation functions are called from constructors or before the
   caller's first go statement *)
Definition bad_init_calls : list (string * string * bool) :=
  filter (fun c => let '(_, caller, pre) := c in
                   negb (pre || mem_str caller ctor_fns || mem_str caller ctor_by_callers)) init_fn_calls.

(* the uses of the functions whose exemption leans on "who calls it" are
   exactly the claimed ones *)
Fixpoint strs_eqb (a b : list string) : bool :=
  match a, b with
  | [], [] => true
  | x :: a', y :: b' => String.eqb x y && strs_eqb a' b'
  | _, _ => false
  end.
Definition callers_found (fn : string) : option (list string) :=
  option_map snd (find (fun c => String.eqb (fst c) fn) callers_of).
Definition bad_caller_claims : list (string * option (list string)) :=
  map (fun c => (fst c, callers_found (fst c)))
      (filter (fun c => match callers_found (fst c) with
                        | Some l => negb (strs_eqb l (snd c)) | None => true end) caller_claims).

(* All offenders at once (coqc stops at the first failing theorem, so this
   one comes first and shows everything a change of the source broke). *)
Theorem Tie_summary :
  (map show (filter site_offends access_sites), map v_name (filter var_unused vars), unaccounted,
   (stale_exempt, stale_outside, doubly_listed), unknown_names, bad_init_calls, bad_caller_claims)
  = ([], [], [], ([], [], []), [], [], []).
Proof. vm_compute. reflexivity. Qed.
Print Assumptions Tie_summary.

(* (a) every generated access site of a table variable complies with the
   variable's declared discipline, is exempt with a reason, or is the site
   of an open finding *)
Theorem Tie_sites_comply : map show (filter site_offends access_sites) = [].
Proof. vm_compute. reflexivity. Qed.
Print Assumptions Tie_sites_comply.

(* (b) every variable of the table has at least one site *)
Theorem Tie_vars_have_sites : map v_name (filter var_unused vars) = [].
Proof. vm_compute. reflexivity. Qed.
Print Assumptions Tie_vars_have_sites.

(* (c) every struct field / package variable of the checkout that is assigned
   outside constructors or accessed atomically, and every variable the
   translator emits sites for, is in the table or in outside_table *)
Theorem Tie_complete : unaccounted = [].
Proof. vm_compute. reflexivity. Qed.
Print Assumptions Tie_complete.

Theorem Tie_lists_exact : (stale_exempt, stale_outside, doubly_listed) = ([], [], []).
Proof. vm_compute. reflexivity. Qed.
Print Assumptions Tie_lists_exact.

Theorem Tie_names_exist : unknown_names = [].
Proof. vm_compute. reflexivity. Qed.
Print Assumptions Tie_names_exist.

Theorem Tie_init_calls : bad_init_calls = [].
Proof. vm_compute. reflexivity. Qed.
Print Assumptions Tie_init_calls.

Theorem Tie_caller_claims : bad_caller_claims = [].
Proof. vm_compute. reflexivity. Qed.
Print Assumptions Tie_caller_claims.

(* ------------------------------------------------------------------ *)
(* The composition with the trace theorem.  For ANY execution t and ANY
   interpretation of its memory locations, locks and goroutines in the
   translator's names: IF the execution's accesses to table variables occur
   at the generated sites with at least the listed locks held and in the
   listed goroutines (faithful: what the translator is trusted for), there is
   one goroutine of the owning kind per object (single_owner), and the
   accesses at exempt sites and at the sites of open findings are harmless
   (allowed_sites_comply: what the reasons in Vars.v claim), THEN the
   execution has no data race on any variable of the table.              *)
Lemma sites_checked_holds : sites_checked vars access_sites exempt_all.
Proof.
  intros a e Hin Hfind Hal.
  assert (H : forallb (fun a => match find_var vars (a_var a) with
                                | Some e => allowed exempt_all a || site_ok e a
                                | None => true end) access_sites = true)
    by (vm_compute; reflexivity).
  rewrite forallb_forall in H. specialize (H a Hin). rewrite Hfind, Hal in H. exact H.
Qed.

Theorem C18_table_race_free :
  forall (t : trace) (vname : var -> option string) (lock_inst : var -> string -> lock)
         (site_of : nat -> asite) (root_of : gid -> string) (creator owner : var -> gid),
    wf_trace t ->
    faithful vars access_sites t vname lock_inst site_of root_of creator ->
    single_owner vars t vname root_of owner ->
    allowed_sites_comply vars exempt_all t vname lock_inst site_of creator owner ->
    ~ race_on (Compose.in_table vars vname) t.
Proof.
  intros t vname lock_inst site_of root_of creator owner Hwf Hf Hso Hal.
  eapply table_race_free; try eassumption. apply sites_checked_holds.
Qed.
Print Assumptions C18_table_race_free.

(* Non-vacuity: the table and the site list are not empty; the check does
   reject — the write of the filter header tip without its lock (self-test
   i), the read of a store's file without the store lock (ii), a plain read
   of an atomic flag (iv), an owner-only variable reached from an exported
   entry point; and it accepts the same sites as the source has them. *)
Definition probe (v fn : string) (k : akind) (locks : list (string * lmode)) (roots : list string) : bool :=
  match find_var vars v with
  | Some e => site_ok e (mkA v fn "" k locks [] false false true roots)
  | None => true
  end.

Example Tie_nonvacuous :
  Nat.leb 50 (length vars) = true /\ Nat.leb 400 (length access_sites) = true
  /\ probe "neutrino.blockManager.filterHeaderTip" "blockmanager.go:blockManager.writeCFHeadersMsg" KWrite
           [("neutrino.blockManager.reorgMtx", LW)] [CF] = false
  /\ probe "neutrino.blockManager.filterHeaderTip" "blockmanager.go:blockManager.writeCFHeadersMsg" KWrite
           [("neutrino.blockManager.newFilterHeadersMtx", LR)] [CF] = false
  /\ probe "neutrino.blockManager.filterHeaderTip" "blockmanager.go:blockManager.writeCFHeadersMsg" KWrite
           [("neutrino.blockManager.newFilterHeadersMtx", LW); ("neutrino.blockManager.reorgMtx", LW)] [CF] = true
  /\ probe "headerfs.headerFile.file" "headerfs/store.go:headerStore.readRaw" KRead [] ["api"] = false
  /\ probe "neutrino.UtxoScanner.started" "utxoscanner.go:UtxoScanner.Stop" KRead [] ["api"] = false
  /\ probe "neutrino.UtxoScanner.started" "utxoscanner.go:UtxoScanner.Stop" KAtomicR [] ["api"] = true
  /\ probe "neutrino.peerState.outboundPeers" "neutrino.go:ChainService.ConnectedCount" KRead [] ["api"] = false
  /\ probe "neutrino.blockManager.syncPeer" "blockmanager.go:blockManager.startSync" KRead [] [BH] = true
  /\ probe "neutrino.blockManager.syncPeer" "blockmanager.go:blockManager.SyncPeer" KRead [] [BH; "api"] = false
  /\ probe "lru.Cache.ll" "cache/lru/lru.go:Cache.Len" (KCall "Len") [] ["api"] = false.
Proof. vm_compute. repeat split; reflexivity. Qed.
Print Assumptions Tie_nonvacuous.
