(* C18 — vocabulary of the GENERATED table of shared-variable access sites
   (coq/Generated/AccessSites.v, written by harness/cmd/genaccess from the
   type-checked source of the neutrino checkout on every check run) and the
   lookup functions the tie (C18/Tie.v) is stated with.  No proofs.

   A VARIABLE is a struct field, named "pkg.Type.field" (package name, type
   name without type parameters, field name), or a package-level variable
   "pkg.name".  A LOCK is named the same way (the mutex field / variable).
   Lock identity is by declaring type and field, not by instance.          *)
From Coq Require Import String List Bool Arith.
Import ListNotations.
Open Scope string_scope.

Inductive lmode := LW | LR.   (* write side (Lock) / read side (RLock) *)

Inductive akind :=
| KRead                (* the value of the variable is read *)
| KWrite               (* assigned, ++/--, op=, element assigned (x.f[k] = v), delete(x.f, k), copy/clear target *)
| KCall (m : string)   (* method m called on the variable, whose type is declared outside the checkout
                          (container/list.List, ...): mutates unless the table says m only reads *)
| KAtomicR             (* sync/atomic load (function on &x.f, or method Load of an atomic.T field) *)
| KAtomicW             (* sync/atomic store/add/swap/compare-and-swap *)
| KAddr.               (* address taken (&x.f) and not passed to a sync/atomic function *)

(* a_fn: "dir/file.go:Receiver.Function" relative to the module root, as in
   C17; a_ctx: "" in the function body itself, or the chain of enclosing
   function literals, each "go<n>" (go statement), "defer<n>" (deferred
   literal), "sync<n>" (literal passed to a known synchronous higher-order
   function: runs in the caller's goroutine under the caller's locks) or
   "func<n>" (any other literal: stored or passed on, caller unknown), n =
   ordinal of the literal in its function, joined by "/".                   *)
Record asite := mkA {
  a_var : string;
  a_fn : string;
  a_ctx : string;
  a_kind : akind;
  a_locks : list (string * lmode);  (* locks held lexically at the access (must-analysis over the function body) *)
  a_req : list (string * lmode);    (* locks held at EVERY static call site of the function (derived, fixpoint); [] for exported / value-used functions *)
  a_fresh : bool;                   (* the base object is a local created in this function (composite literal, new) — not yet published *)
  a_ctor : bool;                    (* the function is a constructor by name: New…/new… returning the type, or init *)
  a_pre_go : bool;                  (* no go statement precedes the access in its function *)
  a_roots : list string             (* goroutine roots that reach the function: "go:<fn>[/ctx]", "api" (reachable from an exported entry point), "cb:<fn>[/ctx]" (function used as a value / stored literal), "init" *)
}.

(* One row per struct field / package-level variable of the checkout. *)
Record fsum := mkF {
  f_var : string;
  f_class : string;   (* "sync" (Mutex, RWMutex, WaitGroup, Once, Cond, Pool, atomic.T), "chan", "func", "iface", "map", "slice", "basic", "ptr-in", "struct-in" (declared in the checkout), "ptr-ext", "struct-ext", "array", "other" *)
  f_writes : nat;     (* KWrite + KAddr sites outside constructors / fresh objects *)
  f_atomics : nat;    (* KAtomicR + KAtomicW sites *)
  f_calls : nat;      (* KCall sites (any function) *)
  f_sites : nat       (* all sites, constructors included *)
}.

Definition lmode_eqb (a b : lmode) : bool :=
  match a, b with LW, LW | LR, LR => true | _, _ => false end.

Definition akind_eqb (a b : akind) : bool :=
  match a, b with
  | KRead, KRead | KWrite, KWrite | KAtomicR, KAtomicR | KAtomicW, KAtomicW | KAddr, KAddr => true
  | KCall m, KCall m' => String.eqb m m'
  | _, _ => false
  end.

Definition mem_str (s : string) (l : list string) : bool := existsb (String.eqb s) l.

(* the lock is held in write mode / in any mode, lexically or by every caller *)
Definition holds_w (a : asite) (m : string) : bool :=
  existsb (fun l => String.eqb (fst l) m && lmode_eqb (snd l) LW) (a_locks a ++ a_req a)%list.
Definition holds_any (a : asite) (m : string) : bool :=
  existsb (fun l => String.eqb (fst l) m) (a_locks a ++ a_req a)%list.

(* what a failing theorem shows of a site *)
Definition show (a : asite) :=
  (a_var a, a_fn a, a_ctx a, a_kind a, (a_locks a ++ a_req a)%list, (a_fresh a, a_ctor a, a_pre_go a), a_roots a).
