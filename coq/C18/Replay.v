(* C18 — what the check run evaluates (cases.v written by harness/cmd/c18):
   the per-site check of the committed table over the GENERATED access sites,
   as rows (site index, kind, step, tag) in the format of the other
   developments: kind 2 = the site violates its variable's discipline; tag =
   the tag of the open finding whose site it is, 0 = unknown (a VIOLATION).
   No theorems here: this file must keep compiling when Tie.v breaks.      *)
From Coq Require Import String List ZArith Bool.
From Verif Require Import C18.AccessTypes C18.SiteCheck C18.Vars.
Import ListNotations.
Open Scope string_scope.

Definition open_tag (a : asite) : Z :=
  match find (fun x => allowed [snd x] a) open_sites with Some x => fst x | None => 0%Z end.

(* the site violates the declared discipline of its variable *)
Definition site_fails (a : asite) : bool :=
  match lookup_var vars (a_var a) with
  | None => false
  | Some e => negb (site_ok e a) && negb (allowed allow a) && negb (allowed_unreached allow_unreached a)
  end.

Fixpoint rows_from (i : Z) (l : list asite) : list (Z * Z * Z * Z) :=
  match l with
  | [] => []
  | a :: r => if site_fails a then (i, 2, 0, open_tag a)%Z :: rows_from (i + 1)%Z r
              else rows_from (i + 1)%Z r
  end.

(* cases.v carries the site list the translator produced for the checkout
   under test (so that a run against a scratch checkout does not depend on
   coq/Generated, which concurrent runs regenerate from /repo) *)
Definition rows_of (sites : list asite) : list (Z * Z * Z * Z) := rows_from 0%Z sites.
