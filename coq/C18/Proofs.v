(* C18 — lemmas: lock-state invariants of well-formed traces, ordering of
   critical sections, fork chains, and the main argument that a trace which
   complies with a discipline has no race. *)
From Coq Require Import List Arith Bool Relations Lia.
From Verif Require Import C18.AccessTypes C18.Model C18.Spec.
Import ListNotations.

(* ------------------------------------------------------------------ *)
(* lists, positions                                                     *)

Lemma firstn_S_nth : forall (A : Type) (l : list A) i e,
  nth_error l i = Some e -> firstn (S i) l = firstn i l ++ [e].
Proof.
  induction l as [|h l IH]; destruct i; simpl; intros e H; try discriminate.
  - inversion H; reflexivity.
  - f_equal. apply IH; assumption.
Qed.

Lemma st_S : forall t i e, nth_error t i = Some e -> st t (S i) = step (st t i) e.
Proof.
  intros t i e H. unfold st. rewrite (firstn_S_nth _ _ _ _ H), fold_left_app. reflexivity.
Qed.

Lemma nth_lt : forall (t : trace) i e, nth_error t i = Some e -> i < length t.
Proof. intros t i e H. apply nth_error_Some. rewrite H. discriminate. Qed.

Lemma nth_ex : forall (t : trace) i, i < length t -> exists e, nth_error t i = Some e.
Proof.
  intros t i H. destruct (nth_error t i) eqn:E; [eauto|].
  apply nth_error_None in E. lia.
Qed.

Lemma event_eq_dec : forall a b : event, {a = b} + {a <> b}.
Proof. decide equality; apply Nat.eq_dec. Qed.

Lemma nth_is_dec : forall (t : trace) k e, {nth_error t k = Some e} + {nth_error t k <> Some e}.
Proof.
  intros t k e. destruct (nth_error t k) as [e'|].
  - destruct (event_eq_dec e' e); [left; congruence | right; congruence].
  - right; discriminate.
Qed.

Lemma find_in_range : forall (P : nat -> Prop), (forall k, {P k} + {~ P k}) ->
  forall lo d, (exists k, lo <= k < lo + d /\ P k) \/ (forall k, lo <= k < lo + d -> ~ P k).
Proof.
  intros P dec lo d. induction d as [|d IH].
  - right. intros k Hk. lia.
  - destruct IH as [[k [Hk HP]] | Hno].
    + left. exists k. split; [lia | assumption].
    + destruct (dec (lo + d)) as [HP | HnP].
      * left. exists (lo + d). split; [lia | assumption].
      * right. intros k Hk. destruct (Nat.eq_dec k (lo + d)); [subst; assumption | apply Hno; lia].
Qed.

(* ------------------------------------------------------------------ *)
(* edges and happens-before                                             *)

Lemma edge_po : forall t i j a b, i < j -> nth_error t i = Some a -> nth_error t j = Some b ->
  gid_of a = gid_of b -> edge t i j.
Proof.
  intros t i j a b Hlt Ha Hb Hg. unfold edge, edgeb. rewrite Ha, Hb.
  apply Nat.ltb_lt in Hlt. rewrite Hlt, Hg, Nat.eqb_refl. reflexivity.
Qed.

Lemma edge_sync : forall t i j a b, i < j -> nth_error t i = Some a -> nth_error t j = Some b ->
  sync_edgeb t i j a b = true -> edge t i j.
Proof.
  intros t i j a b Hlt Ha Hb Hs. unfold edge, edgeb. rewrite Ha, Hb, Hs.
  apply Nat.ltb_lt in Hlt. rewrite Hlt. apply orb_true_r.
Qed.

Lemma edge_lt : forall t i j, edge t i j -> i < j.
Proof.
  unfold edge, edgeb. intros t i j H. apply andb_true_iff in H. destruct H as [H _].
  apply Nat.ltb_lt; assumption.
Qed.

Lemma edge_in_range : forall t i j, edge t i j -> j < length t.
Proof.
  unfold edge, edgeb. intros t i j H. apply andb_true_iff in H. destruct H as [_ H].
  destruct (nth_error t i); [|discriminate].
  destruct (nth_error t j) eqn:E; [|discriminate]. eapply nth_lt; eassumption.
Qed.

Lemma hb_lt : forall t i j, hb t i j -> i < j.
Proof.
  intros t i j H. induction H as [x y H | x y z _ IH1 _ IH2].
  - eapply edge_lt; eassumption.
  - lia.
Qed.

Lemma hb_in_range : forall t i j, hb t i j -> j < length t.
Proof.
  intros t i j H. induction H as [x y H | x y z _ _ _ IH2].
  - eapply edge_in_range; eassumption.
  - assumption.
Qed.

Lemma hb_step : forall t i j, edge t i j -> hb t i j.
Proof. intros. apply t_step; assumption. Qed.

Lemma hb_trans : forall t i j k, hb t i j -> hb t j k -> hb t i k.
Proof. intros. eapply t_trans; eassumption. Qed.

(* ------------------------------------------------------------------ *)
(* lock state of well-formed traces                                     *)

Definition all_enabled (t : trace) : Prop :=
  forall i e, nth_error t i = Some e -> enabled (st t i) e.

Lemma wr_preserved : forall t, all_enabled t ->
  forall g m a d, a + d <= length t -> wr (st t a) m = Some g ->
  (forall k, a <= k < a + d -> nth_error t k <> Some (Rel g m)) ->
  wr (st t (a + d)) m = Some g.
Proof.
  intros t Hen g m a d. induction d as [|d IH]; intros Hlen Hw Hno.
  - rewrite Nat.add_0_r. assumption.
  - assert (Hk : a + d < length t) by lia.
    destruct (nth_ex t _ Hk) as [e He].
    replace (a + S d) with (S (a + d)) by lia. rewrite (st_S _ _ _ He).
    assert (IH' : wr (st t (a + d)) m = Some g).
    { apply IH; [lia | assumption | intros k Hk'; apply Hno; lia]. }
    pose proof (Hen _ _ He) as En.
    destruct e; simpl in *; try assumption.
    + (* Acq *) destruct (m =? m0) eqn:E; [|assumption].
      apply Nat.eqb_eq in E; subst m0. destruct En as [En _]. congruence.
    + (* Rel *) destruct (m =? m0) eqn:E; [|assumption].
      apply Nat.eqb_eq in E; subst m0. rewrite IH' in En. inversion En; subst g0.
      exfalso. apply (Hno (a + d)); [lia | assumption].
Qed.

Lemma remove_one_other : forall g g' l, In g l -> g <> g' -> In g (remove_one g' l).
Proof.
  intros g g' l. induction l as [|h r IH]; simpl; intros Hin Hne; [assumption|].
  destruct (g' =? h) eqn:E.
  - apply Nat.eqb_eq in E; subst h. destruct Hin as [Hin | Hin]; [congruence | assumption].
  - destruct Hin as [Hin | Hin]; [left; assumption | right; apply IH; assumption].
Qed.

Lemma rd_preserved : forall t, all_enabled t ->
  forall g m a d, a + d <= length t -> In g (rds (st t a) m) ->
  (forall k, a <= k < a + d -> nth_error t k <> Some (RRel g m)) ->
  In g (rds (st t (a + d)) m).
Proof.
  intros t Hen g m a d. induction d as [|d IH]; intros Hlen Hr Hno.
  - rewrite Nat.add_0_r. assumption.
  - assert (Hk : a + d < length t) by lia.
    destruct (nth_ex t _ Hk) as [e He].
    replace (a + S d) with (S (a + d)) by lia. rewrite (st_S _ _ _ He).
    assert (IH' : In g (rds (st t (a + d)) m)).
    { apply IH; [lia | assumption | intros k Hk'; apply Hno; lia]. }
    destruct e; simpl in *; try assumption.
    + (* RAcq *) destruct (m =? m0) eqn:E; [right; assumption | assumption].
    + (* RRel *) destruct (m =? m0) eqn:E; [|assumption].
      apply Nat.eqb_eq in E; subst m0. apply remove_one_other; [assumption|].
      intro; subst g0. apply (Hno (a + d)); [lia | assumption].
Qed.

(* a held write side excludes readers *)
Lemma wr_excl_rds : forall t, all_enabled t ->
  forall i, i <= length t -> forall m g, wr (st t i) m = Some g -> rds (st t i) m = [].
Proof.
  intros t Hen i. induction i as [|i IH]; intros Hlen m g Hw.
  - unfold st in Hw. simpl in Hw. discriminate.
  - assert (Hk : i < length t) by lia.
    destruct (nth_ex t _ Hk) as [e He].
    rewrite (st_S _ _ _ He) in *. pose proof (Hen _ _ He) as En.
    assert (IH' : forall m g, wr (st t i) m = Some g -> rds (st t i) m = []).
    { intros; eapply IH; [lia | eassumption]. }
    destruct e; simpl in *; try (eapply IH'; eassumption).
    + (* Acq *) destruct (m =? m0) eqn:E.
      * apply Nat.eqb_eq in E; subst m0. apply En.
      * eapply IH'; eassumption.
    + (* Rel *) destruct (m =? m0) eqn:E; [discriminate | eapply IH'; eassumption].
    + (* RAcq *) destruct (m =? m0) eqn:E.
      * apply Nat.eqb_eq in E; subst m0. congruence.
      * eapply IH'; eassumption.
    + (* RRel *) destruct (m =? m0) eqn:E.
      * apply Nat.eqb_eq in E; subst m0. rewrite (IH' _ _ Hw) in En. destruct En.
      * eapply IH'; eassumption.
Qed.

Lemma in_cs_w_state : forall t, all_enabled t -> forall i g m, i <= length t ->
  in_cs t i g m LW -> wr (st t i) m = Some g.
Proof.
  intros t Hen i g m Hlen [a [Hai [Ha Hno]]].
  replace i with (S a + (i - S a)) by lia.
  apply wr_preserved; [assumption | lia | |].
  - rewrite (st_S _ _ _ Ha). simpl. rewrite Nat.eqb_refl. reflexivity.
  - intros k Hk. apply Hno. lia.
Qed.

Lemma in_cs_r_state : forall t, all_enabled t -> forall i g m, i <= length t ->
  in_cs t i g m LR -> In g (rds (st t i) m).
Proof.
  intros t Hen i g m Hlen [a [Hai [Ha Hno]]].
  replace i with (S a + (i - S a)) by lia.
  apply rd_preserved; [assumption | lia | |].
  - rewrite (st_S _ _ _ Ha). simpl. rewrite Nat.eqb_refl. left; reflexivity.
  - intros k Hk. apply Hno. lia.
Qed.

Lemma in_cs_earlier : forall t i j g m md, i <= j -> in_cs t j g m md ->
  (exists a, a < i /\ nth_error t a = Some (match md with LW => Acq g m | LR => RAcq g m end)
             /\ forall k, a < k < j -> nth_error t k <> Some (match md with LW => Rel g m | LR => RRel g m end))
  -> in_cs t i g m md.
Proof.
  intros t i j g m md Hij _ [a [Hai [Ha Hno]]]. exists a. split; [assumption|]. split; [assumption|].
  intros k Hk. apply Hno. lia.
Qed.

(* two critical sections of one lock, at least one on the write side, by
   different goroutines: the earlier access happens before the later one *)
Lemma cs_ordered : forall t, wf_trace t -> forall i j a b m md1 md2,
  i < j -> nth_error t i = Some a -> nth_error t j = Some b ->
  access_of a <> None -> gid_of a <> gid_of b ->
  in_cs t i (gid_of a) m md1 -> in_cs t j (gid_of b) m md2 ->
  (md1 = LW \/ md2 = LW) -> hb t i j.
Proof.
  intros t [Hen _] i j a b m md1 md2 Hij Ha Hb Hacc Hg Hcs1 Hcs2 Hmode.
  pose proof (nth_lt _ _ _ Ha) as Hli. pose proof (nth_lt _ _ _ Hb) as Hlj.
  destruct Hcs2 as [bb [Hbj [Hbb Hnob]]].
  destruct (lt_eq_lt_dec bb i) as [[Hlt | Heq] | Hgt].
  - (* the second section was already open at i: both hold m at i *)
    exfalso.
    assert (Hcs2i : in_cs t i (gid_of b) m md2).
    { exists bb. split; [assumption|]. split; [assumption|]. intros k Hk. apply Hnob. lia. }
    destruct md1, md2.
    + pose proof (in_cs_w_state t Hen i _ m (Nat.lt_le_incl _ _ Hli) Hcs1) as W1.
      pose proof (in_cs_w_state t Hen i _ m (Nat.lt_le_incl _ _ Hli) Hcs2i) as W2. congruence.
    + pose proof (in_cs_w_state t Hen i _ m (Nat.lt_le_incl _ _ Hli) Hcs1) as W1.
      pose proof (in_cs_r_state t Hen i _ m (Nat.lt_le_incl _ _ Hli) Hcs2i) as R2.
      rewrite (wr_excl_rds t Hen i (Nat.lt_le_incl _ _ Hli) _ _ W1) in R2. destruct R2.
    + pose proof (in_cs_w_state t Hen i _ m (Nat.lt_le_incl _ _ Hli) Hcs2i) as W2.
      pose proof (in_cs_r_state t Hen i _ m (Nat.lt_le_incl _ _ Hli) Hcs1) as R1.
      rewrite (wr_excl_rds t Hen i (Nat.lt_le_incl _ _ Hli) _ _ W2) in R1. destruct R1.
    + destruct Hmode; discriminate.
  - (* the section cannot open at i: i is an access *)
    exfalso. subst bb. rewrite Ha in Hbb. destruct md2; inversion Hbb as [Hab]; rewrite Hab in Hg; simpl in Hg; congruence.
  - (* the second section opens after i: the first must have been closed in between *)
    pose proof (Hen _ _ Hbb) as Enb.
    assert (Hpo_bj : edge t bb j).
    { eapply edge_po; [exact Hbj | exact Hbb | exact Hb |]. destruct md2; reflexivity. }
    destruct md1.
    + (* first holds the write side *)
      pose proof (in_cs_w_state t Hen i _ m (Nat.lt_le_incl _ _ Hli) Hcs1) as W1.
      destruct (find_in_range (fun k => nth_error t k = Some (Rel (gid_of a) m))
                              (fun k => nth_is_dec t k _) i (bb - i)) as [[k [Hk Hrel]] | Hno].
      * assert (Hik : i < k).
        { destruct (Nat.eq_dec i k); [subst k; rewrite Ha in Hrel; inversion Hrel as [Hab]; rewrite Hab in Hacc; simpl in Hacc; congruence | lia]. }
        eapply hb_trans; [apply hb_step; eapply edge_po; [exact Hik | exact Ha | exact Hrel | reflexivity] |].
        eapply hb_trans; [| apply hb_step; exact Hpo_bj].
        apply hb_step. eapply edge_sync; [| exact Hrel | exact Hbb |]; [lia|].
        destruct md2; simpl; apply Nat.eqb_refl.
      * exfalso.
        pose proof (wr_preserved t Hen _ m i (bb - i) ltac:(lia) W1 Hno) as W.
        replace (i + (bb - i)) with bb in W by lia.
        destruct md2; simpl in Enb; [destruct Enb as [Enb _] |]; congruence.
    + (* first holds the read side, so the second takes the write side *)
      assert (md2 = LW) by (destruct Hmode; [discriminate | assumption]). subst md2.
      pose proof (in_cs_r_state t Hen i _ m (Nat.lt_le_incl _ _ Hli) Hcs1) as R1.
      destruct (find_in_range (fun k => nth_error t k = Some (RRel (gid_of a) m))
                              (fun k => nth_is_dec t k _) i (bb - i)) as [[k [Hk Hrel]] | Hno].
      * assert (Hik : i < k).
        { destruct (Nat.eq_dec i k); [subst k; rewrite Ha in Hrel; inversion Hrel as [Hab]; rewrite Hab in Hacc; simpl in Hacc; congruence | lia]. }
        eapply hb_trans; [apply hb_step; eapply edge_po; [exact Hik | exact Ha | exact Hrel | reflexivity] |].
        eapply hb_trans; [| apply hb_step; exact Hpo_bj].
        apply hb_step. eapply edge_sync; [| exact Hrel | exact Hbb |]; [lia|].
        simpl; apply Nat.eqb_refl.
      * exfalso.
        pose proof (rd_preserved t Hen _ m i (bb - i) ltac:(lia) R1 Hno) as R.
        replace (i + (bb - i)) with bb in R by lia.
        simpl in Enb. destruct Enb as [_ Enb]. rewrite Enb in R. destruct R.
Qed.

(* ------------------------------------------------------------------ *)
(* fork chains                                                          *)

Lemma fork_pos_lt : forall t, wf_trace t -> forall f g h j e,
  nth_error t f = Some (Fork g h) -> nth_error t j = Some e -> gid_of e = h -> f < j.
Proof.
  intros t [_ Hfr] f g h j e Hf Hj Hg.
  destruct (Hfr _ _ _ Hf) as [Hne Hbefore].
  destruct (lt_eq_lt_dec j f) as [[Hlt | Heq] | Hgt]; [| | assumption].
  - exfalso. destruct (Hbefore _ _ Hlt Hj) as [H _]. congruence.
  - exfalso. subst j. rewrite Hf in Hj. inversion Hj; subst e. simpl in Hg. congruence.
Qed.

Lemma fork_unique : forall t, wf_trace t -> forall f1 f2 g1 g2 o,
  nth_error t f1 = Some (Fork g1 o) -> nth_error t f2 = Some (Fork g2 o) -> f1 = f2.
Proof.
  intros t [_ Hfr] f1 f2 g1 g2 o H1 H2.
  destruct (lt_eq_lt_dec f1 f2) as [[Hlt | Heq] | Hgt]; [| assumption |]; exfalso.
  - destruct (Hfr _ _ _ H2) as [_ Hb]. destruct (Hb _ _ Hlt H1) as [_ Hnf]. eapply Hnf; reflexivity.
  - destruct (Hfr _ _ _ H1) as [_ Hb]. destruct (Hb _ _ Hgt H2) as [_ Hnf]. eapply Hnf; reflexivity.
Qed.

(* the go statement happens before every event of every goroutine that
   descends from the one it starts *)
Lemma fork_desc_hb : forall t, wf_trace t -> forall f c h, nth_error t f = Some (Fork c h) ->
  forall g, desc t h g -> forall j e, nth_error t j = Some e -> gid_of e = g -> hb t f j.
Proof.
  intros t Hwf f c h Hf g Hd. induction Hd as [g | a b g Hd IH Hin]; intros j e Hj Hg.
  - apply hb_step. eapply edge_sync; [| exact Hf | exact Hj |].
    + eapply fork_pos_lt; eassumption.
    + simpl. rewrite Hg. apply Nat.eqb_refl.
  - destruct (In_nth_error _ _ Hin) as [f' Hf'].
    eapply hb_trans; [apply (IH Hf _ _ Hf' eq_refl) |].
    apply hb_step. eapply edge_sync; [| exact Hf' | exact Hj |].
    + eapply fork_pos_lt; eassumption.
    + simpl. rewrite Hg. apply Nat.eqb_refl.
Qed.

Lemma desc_first : forall t c g, desc t c g -> g = c \/ exists h, In (Fork c h) t /\ desc t h g.
Proof.
  intros t c g Hd. induction Hd as [g | a b g Hd IH Hin].
  - left; reflexivity.
  - right. destruct IH as [Heq | [h [Hh Hdh]]].
    + subst b. exists g. split; [assumption | apply desc_refl].
    + exists h. split; [assumption | eapply desc_step; eassumption].
Qed.

(* ------------------------------------------------------------------ *)
(* conflicts                                                            *)

Lemma conflictb_inv : forall a b, conflictb a b = true ->
  exists x, access_of a = Some x /\ access_of b = Some x /\ gid_of a <> gid_of b
            /\ (is_write a = true \/ is_write b = true)
            /\ (is_atomic a = false \/ is_atomic b = false).
Proof.
  unfold conflictb. intros a b H.
  destruct (access_of a) as [x|]; [|discriminate].
  destruct (access_of b) as [y|]; [|discriminate].
  repeat (apply andb_true_iff in H; destruct H as [H ?]).
  apply Nat.eqb_eq in H; subst y. exists x. repeat split; try reflexivity.
  - apply negb_true_iff in H2. apply Nat.eqb_neq; assumption.
  - apply orb_true_iff; assumption.
  - apply negb_true_iff in H0. apply andb_false_iff; assumption.
Qed.

(* ------------------------------------------------------------------ *)
(* the main argument                                                    *)

Lemma init_then_steady : forall t D, wf_trace t -> forall i j a b x c,
  i < j -> nth_error t i = Some a -> nth_error t j = Some b ->
  access_of a = Some x -> access_of b = Some x -> gid_of a <> gid_of b ->
  v_init (D x) = Some c -> gid_of a = c -> init_phase t i c x ->
  published_to t (v_init (D x)) (gid_of b) -> hb t i j.
Proof.
  intros t D Hwf i j a b x c Hij Ha Hb Hxa Hxb Hg Hinit Hga Hphase Hpub.
  rewrite Hinit in Hpub. simpl in Hpub.
  destruct (desc_first _ _ _ Hpub) as [Heq | [h [Hin Hd]]]; [congruence|].
  destruct (In_nth_error _ _ Hin) as [f Hf].
  assert (Hif : i < f).
  { destruct (lt_eq_lt_dec f i) as [[Hlt | Heq] | Hgt]; [| | assumption]; exfalso.
    - apply (Hphase _ _ Hlt Hf). exists j, b. auto.
    - subst f. rewrite Ha in Hf. inversion Hf; subst a. discriminate. }
  eapply hb_trans.
  - apply hb_step. eapply edge_po; [exact Hif | exact Ha | exact Hf |]. simpl. assumption.
  - eapply fork_desc_hb; eauto.
Qed.

Lemma steady_then_init_absurd : forall t D, wf_trace t -> forall i j a b x c,
  i < j -> nth_error t i = Some a -> nth_error t j = Some b ->
  access_of a = Some x -> gid_of a <> gid_of b ->
  v_init (D x) = Some c -> gid_of b = c -> init_phase t j c x ->
  published_to t (v_init (D x)) (gid_of a) -> False.
Proof.
  intros t D Hwf i j a b x c Hij Ha Hb Hxa Hg Hinit Hgb Hphase Hpub.
  rewrite Hinit in Hpub. simpl in Hpub.
  destruct (desc_first _ _ _ Hpub) as [Heq | [h [Hin Hd]]]; [congruence|].
  destruct (In_nth_error _ _ Hin) as [f Hf].
  assert (Hfi : f < i) by (eapply hb_lt; eapply fork_desc_hb; eauto).
  apply (Hphase f h); [lia | assumption |]. exists i, a. auto.
Qed.

Lemma steady_pair_ordered : forall t, wf_trace t -> forall r i j a b,
  i < j -> nth_error t i = Some a -> nth_error t j = Some b ->
  conflictb a b = true -> steady_ok t i a r -> steady_ok t j b r -> hb t i j.
Proof.
  intros t Hwf r i j a b Hij Ha Hb Hc Hsa Hsb.
  destruct (conflictb_inv _ _ Hc) as [x [Hxa [Hxb [Hg [Hw Hat]]]]].
  assert (Hacc : access_of a <> None) by congruence.
  destruct r as [m | o m | o | |]; simpl in Hsa, Hsb.
  - (* Guarded *)
    destruct (is_write a) eqn:Wa.
    + destruct (is_write b) eqn:Wb.
      * eapply cs_ordered; eauto.
      * destruct Hsb as [Hsb | Hsb]; eapply cs_ordered; eauto.
    + destruct Hw as [Hw | Hw]; [discriminate|]. rewrite Hw in Hsb.
      destruct Hsa as [Hsa | Hsa]; eapply cs_ordered; eauto.
  - (* OwnerWrites *)
    destruct (is_write a) eqn:Wa.
    + destruct Hsa as [Hoa Hsa]. destruct (is_write b) eqn:Wb.
      * destruct Hsb as [Hob _]. congruence.
      * destruct Hsb as [Hob | [Hsb | Hsb]]; [congruence | |]; eapply cs_ordered; eauto.
    + destruct Hw as [Hw | Hw]; [discriminate|]. rewrite Hw in Hsb. destruct Hsb as [Hob Hsb].
      destruct Hsa as [Hoa | [Hsa | Hsa]]; [congruence | |]; eapply cs_ordered; eauto.
  - (* Owned *) congruence.
  - (* AtomicOnly *) destruct Hat; congruence.
  - (* ReadOnly *) destruct Hw; congruence.
Qed.

Lemma discipline_implies_race_free_on : forall P t D,
  wf_trace t -> complies_on P t D -> ~ race_on P t.
Proof.
  intros P t D Hwf Hc [i [j [a [b [Hij [Ha [Hb [Hconf [HP Hnhb]]]]]]]]].
  destruct (conflictb_inv _ _ Hconf) as [x [Hxa [Hxb [Hg [Hw Hat]]]]].
  unfold on_var in HP. rewrite Hxa in HP.
  pose proof (Hc _ _ _ Ha Hxa HP) as Oa. pose proof (Hc _ _ _ Hb Hxb HP) as Ob.
  apply Hnhb.
  destruct Oa as [[c [Hi [Hga Hph]]] | [Hpa Hsa]]; destruct Ob as [[c' [Hi' [Hgb Hph']]] | [Hpb Hsb]].
  - congruence.
  - eapply init_then_steady; eauto.
  - exfalso. eapply steady_then_init_absurd with (i := i) (j := j); eauto.
  - eapply steady_pair_ordered; eauto.
Qed.

(* ------------------------------------------------------------------ *)
(* the executable checks                                                *)

Lemma hb_last : forall t i j, hb t i j -> edge t i j \/ exists k, hb t i k /\ edge t k j.
Proof.
  intros t i j H. apply clos_trans_tn1 in H. destruct H as [y He | y z He Hy].
  - left; assumption.
  - right. exists y. split; [apply clos_tn1_trans; assumption | assumption].
Qed.

Lemma hb_row_spec : forall t i n k,
  In k (fold_left (fun acc j => if edgeb t i j || existsb (fun k => edgeb t k j) acc then j :: acc else acc)
                  (seq (S i) n) [])
  <-> (S i <= k < S i + n /\ hb t i k).
Proof.
  intros t i n. induction n as [|n IH]; intro k.
  - simpl. split; [tauto | lia].
  - rewrite seq_S, fold_left_app. simpl.
    set (row := fold_left _ (seq (S i) n) []) in *.
    assert (Hcond : edgeb t i (S (i + n)) || existsb (fun k => edgeb t k (S (i + n))) row = true
                    <-> hb t i (S (i + n))).
    { split.
      - intro H. apply orb_true_iff in H. destruct H as [H | H].
        + apply hb_step; exact H.
        + apply existsb_exists in H. destruct H as [k' [Hin He]].
          apply IH in Hin. eapply hb_trans; [apply Hin | apply hb_step; exact He].
      - intro H. apply hb_last in H. destruct H as [He | [y [Hy He]]].
        + apply orb_true_iff. left; exact He.
        + apply orb_true_iff. right. apply existsb_exists. exists y. split; [|exact He].
          apply IH. split; [|exact Hy].
          pose proof (hb_lt _ _ _ Hy). pose proof (edge_lt _ _ _ He). lia. }
    destruct (edgeb t i (S (i + n)) || existsb (fun k => edgeb t k (S (i + n))) row) eqn:E.
    + simpl. rewrite IH. split.
      * intros [Hk | [Hr Hh]]; [subst k; split; [lia | apply Hcond; reflexivity] | split; [lia | assumption]].
      * intros [Hr Hh]. destruct (Nat.eq_dec k (S (i + n))); [left; congruence | right; split; [lia | assumption]].
    + rewrite IH. split.
      * intros [Hr Hh]. split; [lia | assumption].
      * intros [Hr Hh]. split; [|assumption].
        destruct (Nat.eq_dec k (S (i + n))); [|lia]. subst k. apply Hcond in Hh. discriminate.
Qed.

Lemma hbb_iff : forall t i j, hbb t i j = true <-> hb t i j.
Proof.
  intros t i j. unfold hbb, hb_row. split.
  - intro H. apply existsb_exists in H. destruct H as [k [Hin Hk]].
    apply Nat.eqb_eq in Hk; subst k. apply hb_row_spec in Hin. apply Hin.
  - intro H. apply existsb_exists. exists j. split; [|apply Nat.eqb_refl].
    apply hb_row_spec. split; [|assumption].
    pose proof (hb_lt _ _ _ H). pose proof (hb_in_range _ _ _ H). lia.
Qed.

Lemma race_pairb_iff : forall t i j, race_pairb t i j = true <->
  exists a b, i < j /\ nth_error t i = Some a /\ nth_error t j = Some b /\ conflictb a b = true /\ ~ hb t i j.
Proof.
  intros t i j. unfold race_pairb. split.
  - intro H. destruct (nth_error t i) as [a|]; [|discriminate]. destruct (nth_error t j) as [b|]; [|discriminate].
    apply andb_true_iff in H. destruct H as [H Hn]. apply andb_true_iff in H. destruct H as [Hl Hc].
    exists a, b. repeat split; try assumption.
    + apply Nat.ltb_lt; assumption.
    + intro Hh. apply hbb_iff in Hh. rewrite Hh in Hn. discriminate.
  - intros [a [b [Hl [Ha [Hb [Hc Hn]]]]]]. rewrite Ha, Hb.
    apply Nat.ltb_lt in Hl. rewrite Hl, Hc. simpl.
    destruct (hbb t i j) eqn:E; [|reflexivity]. exfalso. apply Hn. apply hbb_iff; assumption.
Qed.

Lemma races_spec : forall t i j, In (i, j) (races t) <-> race_pairb t i j = true.
Proof.
  intros t i j. unfold races. rewrite in_flat_map. split.
  - intros [i' [_ H]]. apply in_map_iff in H. destruct H as [j' [Heq Hf]].
    inversion Heq; subst. apply filter_In in Hf. apply Hf.
  - intro H. pose proof H as H'. apply race_pairb_iff in H'.
    destruct H' as [a [b [_ [Ha [Hb _]]]]].
    exists i. split; [apply in_seq; pose proof (nth_lt _ _ _ Ha); lia|].
    apply in_map_iff. exists j. split; [reflexivity|]. apply filter_In. split; [|assumption].
    apply in_seq. pose proof (nth_lt _ _ _ Hb); lia.
Qed.

Lemma raceb_iff : forall t, raceb t = true <-> race t.
Proof.
  intro t. unfold raceb, race, race_on. split.
  - intro H. destruct (races t) as [|[i j] r] eqn:E; [discriminate|].
    assert (Hin : In (i, j) (races t)) by (rewrite E; left; reflexivity).
    apply races_spec, race_pairb_iff in Hin. destruct Hin as [a [b [Hl [Ha [Hb [Hc Hn]]]]]].
    exists i, j, a, b. repeat split; try assumption.
    unfold on_var. destruct (conflictb_inv _ _ Hc) as [x [Hx _]]. rewrite Hx. exact I.
  - intros [i [j [a [b [Hl [Ha [Hb [Hc [_ Hn]]]]]]]]].
    assert (Hin : In (i, j) (races t)).
    { apply races_spec, race_pairb_iff. exists a, b. auto. }
    destruct (races t); [destruct Hin | reflexivity].
Qed.

(* the boolean well-formedness check is sound *)
Lemma enabledb_sound : forall s e, enabledb s e = true -> enabled s e.
Proof.
  intros s e H. destruct e; simpl in *; try exact I.
  - apply andb_true_iff in H. destruct H as [H1 H2].
    destruct (wr s m); [discriminate|]. destruct (rds s m); [|discriminate]. split; reflexivity.
  - destruct (wr s m) as [g'|]; [|discriminate]. apply Nat.eqb_eq in H. congruence.
  - destruct (wr s m); [discriminate | reflexivity].
  - apply existsb_exists in H. destruct H as [g' [Hin He]]. apply Nat.eqb_eq in He. subst. assumption.
Qed.

Lemma wfb_from_sound : forall t pre,
  wfb_from (fold_left step pre lstate0) pre t = true ->
  forall k e, nth_error t k = Some e ->
    enabled (st (pre ++ t) (length pre + k)) e
    /\ freshb (firstn (length pre + k) (pre ++ t)) e = true.
Proof.
  induction t as [|e0 t IH]; intros pre H k e Hk.
  - destruct k; discriminate.
  - simpl in H. apply andb_true_iff in H. destruct H as [H Hrest].
    apply andb_true_iff in H. destruct H as [Hen Hfr].
    destruct k as [|k].
    + simpl in Hk. inversion Hk; subst e0.
      unfold st. rewrite firstn_app_2. simpl. rewrite app_nil_r.
      split; [apply enabledb_sound; assumption | assumption].
    + simpl in Hk.
      specialize (IH (pre ++ [e0])). rewrite fold_left_app in IH. simpl in IH.
      specialize (IH Hrest k e Hk).
      rewrite <- app_assoc in IH. simpl in IH.
      rewrite app_length in IH. simpl in IH.
      replace (length pre + 1 + k) with (length pre + S k) in IH by lia. exact IH.
Qed.

Lemma nth_in_firstn : forall (t : trace) f k e, k < f -> nth_error t k = Some e -> In e (firstn f t).
Proof.
  induction t as [|h t IH]; intros f k e Hk H.
  - destruct k; discriminate.
  - destruct f; [lia|]. destruct k; simpl in *.
    + inversion H; left; reflexivity.
    + right. eapply IH; [|eassumption]. lia.
Qed.

Lemma wfb_sound : forall t, wfb t = true -> wf_trace t.
Proof.
  intros t H. unfold wfb in H.
  pose proof (wfb_from_sound t [] H) as S. simpl in S.
  split.
  - intros i e Hi. apply (S i e Hi).
  - intros f g g' Hf. destruct (S f _ Hf) as [_ Hfr]. simpl in Hfr.
    apply andb_true_iff in Hfr. destruct Hfr as [Hne Hall].
    split; [apply negb_true_iff in Hne; apply Nat.eqb_neq; assumption|].
    intros k e Hk He. rewrite forallb_forall in Hall.
    specialize (Hall e (nth_in_firstn _ _ _ _ Hk He)).
    apply andb_true_iff in Hall. destruct Hall as [H1 H2]. split.
    + apply negb_true_iff in H1. apply Nat.eqb_neq; assumption.
    + intros a Heq; subst e. apply negb_true_iff in H2. rewrite Nat.eqb_refl in H2. discriminate.
Qed.
