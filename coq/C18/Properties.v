(* C18 — data-race freedom (PARTIAL): theorems over the trace model.

   What is proved here, for EVERY trace (any number of goroutines, variables,
   locks, any interleaving) and EVERY discipline:
     a well-formed trace whose accesses all comply with the discipline has
     no data race under the happens-before order of the Go memory model /
     race detector (C18_discipline_implies_race_free).
   What connects this to neutrino's source is C18/Tie.v (the table of shared
   variables with their disciplines, checked against every access site the
   translator finds) and its composition theorem C18_table_race_free.
   What is NOT proved: that the compiled program's executions are the traces
   the translator's site table describes (trusted, see props/C18.json); the
   race-detector runs of harness/cmd/c18 sample that and search for failing
   inputs, they do not stand in for a theorem.                              *)
From Coq Require Import List Arith Bool Relations Lia.
From Verif Require Import C18.AccessTypes C18.Model C18.Spec C18.Proofs.
Import ListNotations.

(* MAIN THEOREM. *)
Theorem C18_discipline_implies_race_free :
  forall t D, wf_trace t -> complies t D -> ~ race t.
Proof. intros t D. apply discipline_implies_race_free_on. Qed.
Print Assumptions C18_discipline_implies_race_free.

(* The same per set of variables: compliance on the variables of P alone
   excludes races on them (the table of Tie.v covers a set of variables). *)
Theorem C18_discipline_implies_race_free_on :
  forall (P : var -> Prop) t D, wf_trace t -> complies_on P t D -> ~ race_on P t.
Proof. exact discipline_implies_race_free_on. Qed.
Print Assumptions C18_discipline_implies_race_free_on.

(* The core of the argument: two accesses inside critical sections of one
   lock by different goroutines, at least one section on the write side, are
   ordered by the release -> acquire chain. *)
Theorem C18_critical_sections_ordered :
  forall t, wf_trace t -> forall i j a b m md1 md2,
    i < j -> nth_error t i = Some a -> nth_error t j = Some b ->
    access_of a <> None -> gid_of a <> gid_of b ->
    in_cs t i (gid_of a) m md1 -> in_cs t j (gid_of b) m md2 ->
    (md1 = LW \/ md2 = LW) -> hb t i j.
Proof. exact cs_ordered. Qed.
Print Assumptions C18_critical_sections_ordered.

(* A go statement happens before everything the started goroutine and the
   goroutines descending from it ever do (init-before-publish). *)
Theorem C18_go_orders_descendants :
  forall t, wf_trace t -> forall f c h, nth_error t f = Some (Fork c h) ->
    forall g, desc t h g -> forall j e, nth_error t j = Some e -> gid_of e = g -> hb t f j.
Proof. exact fork_desc_hb. Qed.
Print Assumptions C18_go_orders_descendants.

(* Mutual exclusion in well-formed traces: a held write side excludes every
   other holder. *)
Theorem C18_writer_excludes :
  forall t, wf_trace t -> forall i g g' m, i <= length t ->
    in_cs t i g m LW -> (in_cs t i g' m LW -> g' = g) /\ ~ in_cs t i g' m LR.
Proof.
  intros t [Hen _] i g g' m Hl Hw. pose proof (in_cs_w_state t Hen i g m Hl Hw) as W. split.
  - intro Hw'. pose proof (in_cs_w_state t Hen i g' m Hl Hw') as W'. congruence.
  - intro Hr. pose proof (in_cs_r_state t Hen i g' m Hl Hr) as R.
    rewrite (wr_excl_rds t Hen i Hl _ _ W) in R. destruct R.
Qed.
Print Assumptions C18_writer_excludes.

(* Happens-before only relates earlier to later positions, so a race is a
   conflicting pair i < j without hb i j. *)
Theorem C18_hb_forward : forall t i j, hb t i j -> i < j.
Proof. exact hb_lt. Qed.
Print Assumptions C18_hb_forward.

(* The executable race check decides `race` on every finite trace. *)
Theorem C18_raceb_decides : forall t, raceb t = true <-> race t.
Proof. exact raceb_iff. Qed.
Print Assumptions C18_raceb_decides.

Theorem C18_wfb_sound : forall t, wfb t = true -> wf_trace t.
Proof. exact wfb_sound. Qed.
Print Assumptions C18_wfb_sound.

(* A recorded well-formed trace on which the check finds a race complies
   with NO discipline. *)
Theorem C18_race_refutes_every_discipline :
  forall t, wfb t = true -> raceb t = true -> forall D, ~ complies t D.
Proof.
  intros t Hwf Hr D Hc.
  apply (C18_discipline_implies_race_free t D (wfb_sound t Hwf) Hc). apply raceb_iff. assumption.
Qed.
Print Assumptions C18_race_refutes_every_discipline.

(* ------------------------------------------------------------------ *)
(* Non-vacuity.                                                         *)

(* goroutine 0 constructs, starts goroutines 1 and 2; x (0) is guarded by
   mutex 0, y (1) is owned by goroutine 1, z (2) is atomic-only, u (3) is
   written by goroutine 1 under the mutex and read by it without, read by
   others under the read side, w (4) is immutable after construction. *)
Definition t_ok : trace :=
  [ Wr 0 0; Wr 0 1; Wr 0 3; Wr 0 4;          (*  0- 3 constructor, no locks *)
    Fork 0 1; Fork 0 2;                      (*  4- 5 *)
    Acq 1 0; Wr 1 0; Wr 1 3; Rel 1 0;        (*  6- 9 *)
    RAcq 2 0; Rd 2 0; Rd 2 3; RRel 2 0;      (* 10-13 *)
    Acq 0 0; Wr 0 0; Rel 0 0;                (* 14-16 the creator again, now under the lock *)
    Wr 1 1; Rd 1 3;                          (* 17-18 owner accesses *)
    AWr 1 2; ARd 2 2; AWr 2 2;               (* 19-21 *)
    Rd 1 4; Rd 2 4 ].                        (* 22-23 *)

Definition D_ok : discipline := fun x =>
  match x with
  | 0 => mkV (Some 0) (Guarded 0)
  | 1 => mkV (Some 0) (Owned 1)
  | 2 => mkV None AtomicOnly
  | 3 => mkV (Some 0) (OwnerWrites 1 0)
  | _ => mkV (Some 0) ReadOnly
  end.

Ltac no_release :=
  let k := fresh "k" in let Hk := fresh "Hk" in let HH := fresh "HH" in
  intros k Hk;
  do 26 (destruct k as [|k]; [try lia; try (intro HH; vm_compute in HH; discriminate)|]); lia.

Ltac by_pos n i :=
  lazymatch n with
  | O => idtac
  | S ?n' => destruct i as [|i]; [ | by_pos n' i ]
  end.

Ltac cs a := exists a; split; [lia | split; [reflexivity | no_release]].

Lemma t_ok_no_early_fork : forall i c x, i <= 4 -> init_phase t_ok i c x.
Proof.
  intros i c x Hi. unfold init_phase. intros f g' Hf Hn. exfalso.
  do 4 (destruct f as [|f]; [vm_compute in Hn; discriminate|]). lia.
Qed.

Lemma t_ok_desc : forall g, g <= 2 -> desc t_ok 0 g.
Proof.
  intros g Hg. destruct g as [|[|[|g]]]; [apply desc_refl | | | lia].
  - eapply desc_step; [apply desc_refl | vm_compute; tauto].
  - eapply desc_step; [apply desc_refl | vm_compute; tauto].
Qed.

Lemma t_ok_complies : complies t_ok D_ok.
Proof.
  intros i e x Hi Hx _.
  by_pos 24 i;
    [ vm_compute in Hi; inversion Hi; subst e; vm_compute in Hx; try discriminate; inversion Hx; subst x .. 
    | destruct i; discriminate ].
  - (* 0 *) left. exists 0. repeat split. apply t_ok_no_early_fork; lia.
  - (* 1 *) left. exists 0. repeat split. apply t_ok_no_early_fork; lia.
  - (* 2 *) left. exists 0. repeat split. apply t_ok_no_early_fork; lia.
  - (* 3 *) left. exists 0. repeat split. apply t_ok_no_early_fork; lia.
  - (* 7 *) right. split; [cbn [published_to v_init D_ok gid_of]; apply t_ok_desc; lia|]. simpl. cs 6.
  - (* 8 *) right. split; [cbn [published_to v_init D_ok gid_of]; apply t_ok_desc; lia|]. simpl. split; [reflexivity | cs 6].
  - (* 11 *) right. split; [cbn [published_to v_init D_ok gid_of]; apply t_ok_desc; lia|]. simpl. right. cs 10.
  - (* 12 *) right. split; [cbn [published_to v_init D_ok gid_of]; apply t_ok_desc; lia|]. simpl. right. right. cs 10.
  - (* 15 *) right. split; [cbn [published_to v_init D_ok gid_of]; apply t_ok_desc; lia|]. simpl. cs 14.
  - (* 17 *) right. split; [cbn [published_to v_init D_ok gid_of]; apply t_ok_desc; lia|]. reflexivity.
  - (* 18 *) right. split; [cbn [published_to v_init D_ok gid_of]; apply t_ok_desc; lia|]. simpl. left; reflexivity.
  - (* 19 *) right. split; [exact I | reflexivity].
  - (* 20 *) right. split; [exact I | reflexivity].
  - (* 21 *) right. split; [exact I | reflexivity].
  - (* 22 *) right. split; [cbn [published_to v_init D_ok gid_of]; apply t_ok_desc; lia | reflexivity].
  - (* 23 *) right. split; [cbn [published_to v_init D_ok gid_of]; apply t_ok_desc; lia | reflexivity].
Qed.

(* the compliant trace is well formed, has conflicting accesses by different
   goroutines to every kind of variable (so the theorem says something about
   it), its lock is contended, and the check finds no race *)
Example C18_nonvacuous_compliant :
  wf_trace t_ok /\ complies t_ok D_ok /\ raceb t_ok = false
  /\ length (filter (fun p => match nth_error t_ok (fst p), nth_error t_ok (snd p) with
                              | Some a, Some b => conflictb a b | _, _ => false end)
                    (list_prod (seq 0 24) (seq 0 24))) = 24.
Proof.
  split; [apply wfb_sound; vm_compute; reflexivity|].
  split; [exact t_ok_complies|].
  split; vm_compute; reflexivity.
Qed.
Print Assumptions C18_nonvacuous_compliant.

(* the same execution with goroutine 1's Lock/Unlock pair dropped: the check
   finds exactly the races one expects, and so no discipline fits it *)
Definition t_bad : trace :=
  [ Wr 0 0; Wr 0 1; Wr 0 3; Wr 0 4; Fork 0 1; Fork 0 2;
    Wr 1 0; Wr 1 3;
    RAcq 2 0; Rd 2 0; Rd 2 3; RRel 2 0;
    Acq 0 0; Wr 0 0; Rel 0 0 ].

Example C18_nonvacuous_race :
  wfb t_bad = true /\ races t_bad = [(6, 9); (6, 13); (7, 10)]
  /\ race t_bad /\ forall D, ~ complies t_bad D.
Proof.
  assert (W : wfb t_bad = true) by (vm_compute; reflexivity).
  assert (R : raceb t_bad = true) by (vm_compute; reflexivity).
  split; [exact W|]. split; [vm_compute; reflexivity|].
  split; [apply raceb_iff; exact R | apply C18_race_refutes_every_discipline; assumption].
Qed.
Print Assumptions C18_nonvacuous_race.

(* the read side does not order: a write under RLock races with another
   write under RLock (RUnlock is ordered before a later Lock only), while
   the same accesses under Lock are ordered *)
Example C18_read_side_does_not_order_writes :
  wfb [Fork 0 1; RAcq 0 0; Wr 0 0; RRel 0 0; RAcq 1 0; Wr 1 0; RRel 1 0] = true
  /\ races [Fork 0 1; RAcq 0 0; Wr 0 0; RRel 0 0; RAcq 1 0; Wr 1 0; RRel 1 0] = [(2, 5)]
  /\ raceb [Fork 0 1; Acq 0 0; Wr 0 0; Rel 0 0; Acq 1 0; Wr 1 0; Rel 1 0] = false.
Proof. vm_compute. repeat split; reflexivity. Qed.
Print Assumptions C18_read_side_does_not_order_writes.

(* an atomic access racing with a plain one is a race; two atomics are not;
   publication through an atomic flag or a channel orders the plain accesses *)
Example C18_atomics_and_channels :
  races [Fork 0 1; AWr 0 0; Rd 1 0] = [(1, 2)]
  /\ raceb [Fork 0 1; AWr 0 0; ARd 1 0; AWr 1 0] = false
  /\ raceb [Fork 0 1; Wr 0 5; AWr 0 0; ARd 1 0; Rd 1 5] = false
  /\ raceb [Fork 0 1; Wr 0 5; Snd 0 7; Rcv 1 7; Rd 1 5] = false
  /\ races [Fork 0 1; Wr 0 5; Rcv 1 7; Rd 1 5; Snd 0 7] = [(1, 3)]
  (* the owner exits, WaitGroup.Wait returns, the stopping goroutine reads the owner's state *)
  /\ raceb [Fork 0 1; Wr 1 5; WgDone 1 3; WgWait 0 3; Rd 0 5] = false
  /\ races [Fork 0 1; Wr 1 5; WgWait 0 3; Rd 0 5; WgDone 1 3] = [(1, 3)].
Proof. vm_compute. repeat split; reflexivity. Qed.
Print Assumptions C18_atomics_and_channels.
